/-
  C10 — the report file a run shows is THIS run's: what is in the report directory when the run starts.

  `C10.file_always_loadable_prefix` lets the file session work on `FS.empty`.  Here: over every history of runs (any
  `--report-dir` / `$LCC_REPORT_DIR` / project implementation, runs leaving files or not, failing runs) and manual
  deletions, the directory a run gets from `create_report_dir` holds no report file — an explicitly given directory
  that exists gives NO run (plain `os.mkdir`), the default location is rotated — so the main theorem applies to every
  run of every history; and what a lenient `makedirs(exist_ok=True)` would do instead (the previous run's file is what a
  reader finds until the first save).
  Property theorems only (model: `Model/RunStart.lean`, `Model/RunSeq.lean`; lemmas: `Lemmas/RunSeq.lean`).
-/
import LccModel.Model.RunStart
import LccModel.Props.C19Runs
import LccModel.Props.C10

namespace LccModel.C10
open LccModel.RunSeq LccModel.RunStart LccModel.Saving LccModel.Report LccModel.Writer

/-- Whatever the history, whatever the source of the directory (option, variable, project): the directory a run gets holds
    no report file of an earlier run. -/
theorem run_dir_holds_no_report {c : Cfg} {s s1 : RunSeq.St} {d : DirRef} (hs : C19Runs.Reachable s)
    (h : createDir c s = some (s1, some d)) : holdsReport s1 d = false := by
  have hinv := C19Runs.reachable_inv hs
  obtain ⟨_, hf, hof, hfs, hext, _⟩ := createDir_inv hinv h
  cases d with
  | fs m =>
    obtain ⟨hm, _⟩ := hfs m rfl
    simp only [holdsReport, hf, hm]
    exact hinv.freshEmpty _ (Nat.le_refl _)
  | ext m =>
    obtain ⟨hm, _⟩ := hext m rfl
    simp only [holdsReport, hof, hm]
    exact hinv.ofresh _ (Nat.le_refl _)

/-- An explicitly given directory that already exists — empty or holding a previous run's report — gives the run NO
    directory: no session is created, no event handled, and nothing in the directory is touched. -/
theorem existing_explicit_dir_gives_no_run {c : Cfg} {s : RunSeq.St} {k m : Nat}
    (he : explicitTarget c.cli c.env = some (.other k)) (hk : s.other k = some m) :
    createDir c s = some (s, none) ∧ startOf c s = none := by
  have h : createDir c s = some (s, none) := by unfold createDir; simp only [he, hk]
  exact ⟨h, by simp only [startOf, h]⟩

/-- The decision read off the path: only a path where nothing exists (parent present) gives a directory; the option wins
    over the variable, the empty string counts as absent. -/
theorem explicit_dir_decision (cli env : Given) (p : PathState) :
    startOutcome (some (some p)) env = (if p = .missing then .created else .noDir, .cli) ∧
    startOutcome none (some (some p)) = (if p = .missing then .created else .noDir, .env) ∧
    startOutcome (some none) (some (some p)) = (if p = .missing then .created else .noDir, .env) ∧
    startOutcome none none = (.project, .project) := by
  cases p <;> simp [startOutcome, chosenPath, mkdirOk, Option.join]

/-- Hence every run of every history starts on a file system without a report file. -/
theorem every_run_starts_without_report_file {c : Cfg} {s s1 : RunSeq.St} {d : DirRef} (hs : C19Runs.Reachable s)
    (h : createDir c s = some (s1, some d)) (stale : Text) : startFS (holdsReport s1 d) stale = FS.empty := by
  rw [run_dir_holds_no_report hs h]; rfl

/-- MAIN THEOREM, for the run of any history: the report file in the run's directory — at every instant `n` of the run,
    from the creation of the directory on — does not exist or is the complete serialisation of a prefix of THIS run's
    final report, whatever earlier runs left on the file system (`stale`). -/
theorem file_of_every_run_loadable_prefix {c : Cfg} {s0 s1 : RunSeq.St} {d : DirRef} (hr : C19Runs.Reachable s0)
    (hd : createDir c s0 = some (s1, some d)) (stale : Text)
    (ser : Report → Text) (chunk : Text → List Text) (hchunk : ∀ t, (chunk t).flatten = t)
    (strat : Strategy) (clock : Nat → Nat) (r0 : Report) (es : List Event) (s : Sess)
    (hs : SafeStream es r0) (h : sessRun strat clock (Sess.init clock r0) es = .ok s) (n : Nat) :
    let v := visible (fsRun (startFS (holdsReport s1 d) stale) ((diskOps saveAtomic ser chunk s).take n))
    v = none ∨ ∃ k snap, k ≤ es.length ∧ fold (es.take k) r0 = .ok snap ∧ v = some (ser snap) ∧
      Loadable ser (ser snap) ∧ Prefix snap s.w.report := by
  have e := every_run_starts_without_report_file hr hd stale
  simp only [e]
  exact file_always_loadable_prefix ser chunk hchunk strat clock r0 es s hs h n

/-- What the plain `os.mkdir` excludes: in a directory that holds an earlier run's file, as long as the session has not
    saved (the whole run under `at_end_of_tests`, until the first failed test under `at_each_failed_test`, …) a reader
    finds the EARLIER run's text. -/
theorem stale_report_visible_until_first_save (stale : Text) (ser : Report → Text) (chunk : Text → List Text) (s : Sess)
    (hno : s.saves = []) (n : Nat) :
    visible (fsRun (startFS true stale) ((diskOps saveAtomic ser chunk s).take n)) = some stale := by
  simp [diskOps, hno, startFS, fsRun, visible]

/-- … and the lenient variant does hand such a directory to the second run into the same explicit path (the real
    `createDir` gives that run no directory at all). -/
theorem lenient_variant_reuses_a_filled_dir :
    let c : Cfg := { cli := some (.other 0), env := none, impl := .default, writes := true, fate := .completes }
    ∃ s1, RunSeq.run c RunSeq.init = some s1 ∧
      (∃ d, createDirLenient c s1 = some (s1, some d) ∧ holdsReport s1 d = true) ∧ createDir c s1 = some (s1, none) := by
  refine ⟨_, rfl, ⟨.ext 1, rfl, rfl⟩, rfl⟩

example : startOutcome (some (some .filledDir)) none = (.noDir, .cli) := by decide
example : startOutcome (some (some .missing)) (some (some .filledDir)) = (.created, .cli) := by decide
example : startOutcome (some none) none = (.project, .project) := by decide

end LccModel.C10

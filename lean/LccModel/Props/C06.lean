/-
  C06 — Logs never leak between concurrently running tests or threads.

  Property theorems only (helper lemmas: `Lemmas/SessionIso.lean`, `Lemmas/WriterIso.lean`,
  `Lemmas/Threads.lean`).  Models: M3 (`Model/Session.lean`, the cursor / hold / flush / discard protocol of
  `session.py`, one cursor per thread id), M4 (`Model/Writer.lean`, `ReportWriter` with `active_steps`
  keyed by thread id), M14 (`Model/Threads.lean`, the attachment counter under `_attachment_lock`).

  An *interleaving* is any list of `(thread id, API call)` accepted by `Session.runOps` from the initial
  state: the per-thread call sequences of any number of threads merged in any order.  A thread id
  stands for one live thread (ids of simultaneously live threads differ — trusted, see design.d/C06.md);
  an id may be reused after its thread ended.
-/
import LccModel.Lemmas.SessionIso
import LccModel.Lemmas.WriterIso
import LccModel.Lemmas.ThreadsAttach
import LccModel.Lemmas.SessionAttach
import LccModel.Lemmas.SessionSetStep

namespace LccModel.C06
open LccModel.Report LccModel.Session LccModel.Writer LccModel.SessionIso LccModel.WriterIso

/-- States reachable by any interleaving of API calls of any threads. -/
def Reachable (s : St) : Prop := ∃ ops, runOps St.init ops = .ok s

theorem runOps_append_inv : ∀ (ops : List (Nat × Op)) (s s' : St), Inv s → runOps s ops = .ok s' → Inv s' :=
  runOps_inv

theorem reachable_inv {s : St} (h : Reachable s) : Inv s := by
  obtain ⟨ops, h⟩ := h
  exact runOps_inv ops St.init s inv_init h

/-! ## (a) the cursor is thread-local -/

/-- **`cursor_local`** — "everything a test emits … never in the result of another test running at the
    same time", session side.  In any reachable state, an accepted API call issued by thread `a`
    * leaves the cursor of every other thread `b` untouched (location, current step, held events), and
    * only appends to the fired stream, and every event it fires that carries a thread id carries `a`
      and the location of `a`'s own cursor. -/
theorem cursor_local {s s' : St} {a : Nat} {op : Op} (hs : Reachable s) (h : step s a op = .ok s') :
    (∀ b, b ≠ a → getCursor s' b = getCursor s b) ∧
    ∃ new, s'.fired = s.fired ++ new ∧
      ∀ e ∈ new, ∀ t, evTid e = some t → t = a ∧ ∃ c, getCursor s a = some c ∧ evLoc e = some c.loc := by
  have hspec := step_spec (reachable_inv hs) h
  refine ⟨hspec.others, ?_⟩
  obtain ⟨new, h1, h2⟩ := hspec.fired
  refine ⟨new, h1, ?_⟩
  intro e he t ht
  rcases h2 e he with h3 | ⟨h3, c, h4, h5⟩
  · rw [h3] at ht; cases ht
  · rw [h3] at ht; injection ht with ht
    exact ⟨ht.symm, c, h4, h5⟩

/-- The invariant behind `cursor_local`: every event held (not yet fired) by thread `t`'s cursor was
    created by `t` at the cursor's own location — it is a result-start event for that location, or
    `StepStart(location, d, t)`. -/
theorem held_events_are_own {s : St} {t : Nat} {c : Cursor} (hs : Reachable s) (hc : getCursor s t = some c) :
    ∀ e ∈ c.pending, (evTid e = none ∧ startsResult e = some c.loc) ∨ (∃ d time, e = .stepStart c.loc d t time) := by
  intro e he
  obtain ⟨rs, hrs, hp | ⟨d, time, _, hp⟩⟩ := ((reachable_inv hs).curs t c hc).pend
  · rw [hp] at he; exact Or.inl (hrs e he)
  · rw [hp] at he
    rcases List.mem_append.mp he with h1 | h1
    · exact Or.inl (hrs e h1)
    · simp at h1; exact Or.inr ⟨d, time, h1⟩

/-- The fired stream is append-only along every interleaving, so the order in which one thread's
    events appear in it is the order in which that thread emitted them. -/
theorem fired_append_only : ∀ (ops : List (Nat × Op)) (s s' : St), Inv s → runOps s ops = .ok s' →
    ∃ new, s'.fired = s.fired ++ new
  | [], s, s', _, h => by simp only [runOps] at h; injection h with h; subst h; exact ⟨[], by simp⟩
  | (a, op) :: rest, s, s', hinv, h => by
    simp only [runOps] at h
    cases hs : step s a op with
    | error e => rw [hs] at h; cases h
    | ok s1 =>
      rw [hs] at h
      have hspec := step_spec hinv hs
      obtain ⟨n1, h1, _⟩ := hspec.fired
      obtain ⟨n2, h2⟩ := fired_append_only rest s1 s' hspec.inv h
      exact ⟨n1 ++ n2, by rw [h2, h1, List.append_assoc]⟩

/-- In every fired stream, a log / check / url / attachment event that names a step `d` is preceded by
    `StepStart(l, d, t)` of the SAME thread at the SAME location, and that thread fired no other
    StepStart / StepEnd in between (`l`, `t`: the event's own location and thread id). -/
theorem log_follows_own_step_start {s : St} (hs : Reachable s) {pre post : List Event} {e : Event}
    (hsplit : s.fired = pre ++ e :: post) (hl : logLike e = true) {t : Nat} {l : Loc} {d : String}
    (ht : evTid e = some t) (hloc : evLoc e = some l) (hd : evStep e = some d) :
    ∃ time pre1 pre2, pre = pre1 ++ .stepStart l d t time :: pre2 ∧ ∀ x ∈ pre2, isStepEvOf t x = false := by
  have hok := (reachable_inv hs).stream
  rw [hsplit] at hok
  obtain ⟨time, h1⟩ := hok.at hl ht hloc hd
  obtain ⟨_, pre1, pre2, h2, h3⟩ := lastStepEv_split h1
  exact ⟨time, pre1, pre2, h2, h3⟩

/-! ## (b) M3 composed with the writer: a log lands in the emitting thread's own step -/

/-- **`log_lands_in_own_step`** — "recorded in that test's own result, inside the step that was current in
    the emitting thread".  Let `e` be any log / check / url / attachment event of the stream fired by any
    interleaving, emitted by thread `t` at location `l` while its step `d` was current, and let the
    writer have handled the stream up to `e` (`w`) and `e` itself (`w'`) without raising.  Then
    * the latest step event of `t` before `e` is `StepStart(l, d, t)` — same thread, same location, the
      step the event names;
    * that StepStart opened step number `k` of the result at `l` (`k` = number of steps there before);
    * unless the result object at `l` was re-created in between (a second start of the same test /
      setup / teardown: never produced by a run), handling `e` appends exactly `e`'s entry at the END of
      the entries of step `k` at `l`, whose description is still `d`, and changes no step of any other
      location (no other test's result, no setup / teardown result); the writer's `active_steps[t]` is
      (and stays) that step. -/
theorem log_lands_in_own_step {s : St} (hs : Reachable s) {pre post : List Event} {e : Event}
    (hsplit : s.fired = pre ++ e :: post) (hl : logLike e = true) {t : Nat} {l : Loc} {d : String} {en : Entry}
    (ht : evTid e = some t) (hloc : evLoc e = some l) (hd : evStep e = some d) (hen : entryOf e = some en)
    {w w' : WriterState} (hw : Writer.run Writer.initState pre = .ok w) (hw' : Writer.apply w e = .ok w') :
    ∃ time pre1 pre2 w1 steps1,
      pre = pre1 ++ .stepStart l d t time :: pre2 ∧ (∀ x ∈ pre2, isStepEvOf t x = false) ∧
      Writer.run Writer.initState pre1 = .ok w1 ∧ getSteps l w1.report = some steps1 ∧
      ((∀ x ∈ pre2, startsResult x ≠ some l) →
        ∃ ss st, getSteps l w.report = some ss ∧ ss[steps1.length]? = some st ∧ st.description = d ∧
          getSteps l w'.report = some (modifyNth (addEntryToStep en) steps1.length ss) ∧
          (∀ l', l' ≠ l → getSteps l' w'.report = getSteps l' w.report) ∧
          w.active.lookup t = some { target := some (l, steps1.length), endTime := none } ∧
          w'.active = w.active) := by
  obtain ⟨time, pre1, pre2, h1, h2⟩ := log_follows_own_step_start hs hsplit hl ht hloc hd
  subst h1
  obtain ⟨w1, hw1, hrest⟩ := run_append_ok.mp hw
  simp only [Writer.run] at hrest
  cases hap : Writer.apply w1 (.stepStart l d t time) with
  | error err => rw [hap] at hrest; cases hrest
  | ok w2 =>
    rw [hap] at hrest
    obtain ⟨steps1, g1, g2, _, g4⟩ := apply_stepStart hap
    refine ⟨time, pre1, pre2, w1, steps1, rfl, h2, hw1, g1, ?_⟩
    intro hfresh
    have ha2 : w2.active.lookup t = some { target := some (l, steps1.length), endTime := none } := by
      rw [g4]; simp
    obtain ⟨k1, k2⟩ := run_stable pre2 w2 w hrest h2 hfresh ha2
    obtain ⟨ss, k3, k4⟩ := k2 _ g2
    obtain ⟨st, k5, k6, _⟩ := k4.keep steps1.length (newStep d time) (by simp)
    rw [apply_logLike hl ht hloc hen] at hw'
    obtain ⟨ref, m1, m3, m4⟩ := addEntry_spec hw'
    rw [k1] at m1; injection m1 with m1; subst m1
    dsimp only at m4
    obtain ⟨steps, m5, m6, m7⟩ := m4
    rw [k3] at m5; injection m5 with m5; subst m5
    exact ⟨ss, st, k3, k5, k6, m6, m7, k1, m3⟩

/-- **Per-thread emission order is preserved** (writer side): handling any event never removes,
    reorders or rewrites what is already recorded — at every location whose result the event does not
    (re)create, every step keeps its index and description and its entries are only extended at the
    end.  Together with `fired_append_only` (the stream keeps each thread's emission order) and
    `log_lands_in_own_step` (each entry is appended at the end of its step): the entries of a step
    appear in the order their thread emitted them. -/
theorem recorded_entries_only_grow {w w' : WriterState} {x : Event} (h : Writer.apply w x = .ok w') {l : Loc}
    (hl : startsResult x ≠ some l) {ss : List Step} (hss : getSteps l w.report = some ss) :
    ∃ ss', getSteps l w'.report = some ss' ∧ ss.length ≤ ss'.length ∧
      ∀ (n : Nat) (st : Step), ss[n]? = some st →
        ∃ st' : Step, ss'[n]? = some st' ∧ st'.description = st.description ∧ st.entries <+: st'.entries := by
  obtain ⟨ss', h1, h2⟩ := apply_grow h hl hss
  exact ⟨ss', h1, h2.len, h2.keep⟩

/-- **`same_thread_order`** — "in emission order per thread".  Two log / check / url / attachment events
    `e1`, `e2` of the same thread `t`, `e1` fired before `e2`, with no StepStart / StepEnd of `t` between
    them (so both belong to the same step of `t`): after the writer handled `e2`, both entries are in the
    SAME step of the result at their location and `e1`'s entry comes before `e2`'s — whatever other
    threads and tests emitted in between (`X`). -/
theorem same_thread_order {s : St} (hs : Reachable s) {pre mid post : List Event} {e1 e2 : Event}
    (hsplit : s.fired = pre ++ e1 :: (mid ++ e2 :: post))
    (hl1 : logLike e1 = true) (hl2 : logLike e2 = true) {t : Nat} {l : Loc} {d : String} {en1 en2 : Entry}
    (ht1 : evTid e1 = some t) (hloc1 : evLoc e1 = some l) (hd1 : evStep e1 = some d) (hen1 : entryOf e1 = some en1)
    (ht2 : evTid e2 = some t) (hloc2 : evLoc e2 = some l) (hen2 : entryOf e2 = some en2)
    (hmid : ∀ x ∈ mid, isStepEvOf t x = false)
    (hfresh : ∀ x ∈ pre ++ mid, startsResult x ≠ some l)
    {w w1 w2 w3 : WriterState} (hw : Writer.run Writer.initState pre = .ok w) (hw1 : Writer.apply w e1 = .ok w1)
    (hw2 : Writer.run w1 mid = .ok w2) (hw3 : Writer.apply w2 e2 = .ok w3) :
    ∃ (k : Nat) (ss : List Step) (st : Step) (E X : List Entry),
      getSteps l w3.report = some ss ∧ ss[k]? = some st ∧ st.description = d ∧
      st.entries = E ++ [en1] ++ X ++ [en2] := by
  obtain ⟨time, pre1, pre2, w0, steps1, g1, _, _, _, g5⟩ :=
    log_lands_in_own_step hs hsplit hl1 ht1 hloc1 hd1 hen1 hw hw1
  have hfresh1 : ∀ x ∈ pre2, startsResult x ≠ some l := by
    intro x hx; apply hfresh x; rw [g1]; simp [hx]
  obtain ⟨ss0, st0, a1, a2, a3, a4, _, a6, a7⟩ := g5 hfresh1
  -- after e1
  have hact1 : w1.active.lookup t = some { target := some (l, steps1.length), endTime := none } := by
    rw [a7]; exact a6
  obtain ⟨b1, b2⟩ := run_stable mid w1 w2 hw2 hmid (fun x hx => hfresh x (by simp [hx])) hact1
  obtain ⟨ss2, b3, b4⟩ := b2 _ a4
  have hk : (modifyNth (addEntryToStep en1) steps1.length ss0)[steps1.length]? = some (addEntryToStep en1 st0) := by
    rw [modifyNth_getElem?]; simp [a2]
  obtain ⟨st2, c1, c2, c3⟩ := b4.keep steps1.length _ hk
  obtain ⟨X, hX⟩ := c3
  -- e2
  rw [apply_logLike hl2 ht2 hloc2 hen2] at hw3
  obtain ⟨ref, m1, _, m4⟩ := addEntry_spec hw3
  rw [b1] at m1; injection m1 with m1; subst m1
  dsimp only at m4
  obtain ⟨steps, m5, m6, _⟩ := m4
  rw [b3] at m5; injection m5 with m5; subst m5
  refine ⟨steps1.length, _, addEntryToStep en2 st2, st0.entries, X, m6, ?_, ?_, ?_⟩
  · rw [modifyNth_getElem?]; simp [c1]
  · show st2.description = d
    rw [c2]; exact a3
  · show st2.entries ++ [en2] = _
    rw [← hX]; rfl

/-! ### non-vacuity: a concrete interleaving satisfying all hypotheses above -/

def demoMd (n : String) (r : Nat) : Meta :=
  { name := n, description := n, tags := [], properties := [], links := [], rank := r }

/-- two pool workers (1, 2) run tests `s.a` and `s.b` at the same time, worker 1 starts an `lcc.Thread`
    (10); their logging calls interleave -/
def demoOps : List (Nat × Op) :=
  [(1, .startTestSession), (1, .startSuite ["s"] (demoMd "s" 0)),
   (1, .startTest ["s", "a"] (demoMd "a" 0)), (2, .startTest ["s", "b"] (demoMd "b" 1)),
   (1, .setStep "A"), (2, .setStep "B"),
   (1, .log .info "a1"), (2, .log .info "b1"),
   (1, .threadCreate 10), (10, .threadRun), (10, .log .info "a-thread"),
   (2, .check "b2" true none), (1, .log .info "a2"), (10, .threadEnd),
   (2, .setStep "B2"), (2, .log .warn "b3"),
   (1, .endTest ["s", "a"]), (2, .endTest ["s", "b"]), (1, .endSuite ["s"]), (1, .endTestSession)]

def entryText : Entry → String
  | .log _ m _ => m | .check d _ _ _ => d | .attachment d _ _ _ => d | .url d _ _ => d

def stepsView : Option (List Step) → List (String × List String)
  | none => []
  | some ss => ss.map (fun s => (s.description, s.entries.map entryText))

/-- the interleaving is accepted by M3, the writer handles the fired stream, and every payload sits in
    its own test, in the step of its own thread, in emission order -/
example :
    (match runOps St.init demoOps with
     | .ok s =>
       match Writer.run Writer.initState s.fired with
       | .ok w => some (stepsView (getSteps (.test ["s", "a"]) w.report), stepsView (getSteps (.test ["s", "b"]) w.report))
       | .error _ => none
     | .error _ => none)
    = some ([("A", ["a1", "a2"]), ("A", ["a-thread"])], [("B", ["b1", "b2"]), ("B2", ["b3"])]) := by
  decide

/-! ## (c') step changes: EVERY `set_step` opens a new step

  "… inside the step that was current in the emitting thread … all step changes": a step change to a step
  with the SAME description as the current one (`lcc.set_step("poll device")` inside a loop) is a step
  change like any other.  `log_lands_in_own_step` says a record lands in the step created by the latest
  `StepStart` of its thread; the theorem below says that a `set_step(d)` call always puts a NEW
  `StepStart(loc, d, thread)` between whatever the thread recorded before and its next record — for every
  state (any step current, `d` itself included), every thread and every kind of record. -/

/-- **Every `set_step` opens a new step**: after `set_step(d)`, the next record of the thread (log, check,
    url, attachment — one call or the exit of a `with prepare_attachment` block) is immediately preceded in
    the stream by a `StepStart(loc, d, thread)` that was fired after everything the stream held before the
    `set_step` call; the record names step `d` at the thread's location.  No hypothesis on the step that was
    current before. -/
theorem set_step_always_opens_a_new_step {s s1 s2 : St} {tid : Nat} {d : String} {op : Op}
    (hop : isRecord op = true) (h1 : step s tid (.setStep d) = .ok s1) (h2 : step s1 tid op = .ok s2) :
    ∃ c pre t e, getCursor s tid = some c ∧ s2.fired = s.fired ++ pre ++ [.stepStart c.loc d tid t, e] ∧
      logLike e = true ∧ evTid e = some tid ∧ evLoc e = some c.loc ∧ evStep e = some d :=
  record_after_setStep hop h1 h2

/-- non-vacuity (a polling loop): the same description set three times, a record after each call, also from an
    `lcc.Thread` — three steps named "poll" with one record each in the test thread, two in the `lcc.Thread`
    (its default step is the creator's current description: "poll" as well) -/
example :
    (match runOps St.init
        [(1, .startTestSession), (1, .startSuite ["s"] (demoMd "s" 0)), (1, .startTest ["s", "a"] (demoMd "a" 0)),
         (1, .setStep "poll"), (1, .log .info "r1"), (1, .setStep "poll"), (1, .log .info "r2"),
         (1, .threadCreate 10), (10, .threadRun), (10, .log .info "t1"), (10, .setStep "poll"), (10, .log .info "t2"),
         (10, .threadEnd), (1, .setStep "poll"), (1, .attach "f" "r3" false),
         (1, .endTest ["s", "a"]), (1, .endSuite ["s"]), (1, .endTestSession)] with
     | .ok s =>
       match Writer.run Writer.initState s.fired with
       | .ok w => some (stepsView (getSteps (.test ["s", "a"]) w.report))
       | .error _ => none
     | .error _ => none)
    = some [("poll", ["r1"]), ("poll", ["r2"]), ("poll", ["t1"]), ("poll", ["t2"]), ("poll", ["r3"])] := by
  decide

/-- non-vacuity for descriptions that are not one short line (round 3): `d` is an ARBITRARY string in `log_lands_in_own_step`,
    `log_follows_own_step_start` and `set_step_always_opens_a_new_step` — neither M3 nor M4 ever inspects it (M3 keeps
    `step : Option String`; `some ""` is a step like any other: `set_step("")` is an untitled step).  An EMPTY description, a
    blank one, one of several lines (in the test thread and in an `lcc.Thread` that inherits the untitled step), records with
    empty / multi-line texts: every record sits in the step that was current in its thread, descriptions compared exactly. -/
example :
    (match runOps St.init
        [(1, .startTestSession), (1, .startSuite ["s"] (demoMd "s" 0)), (1, .startTest ["s", "a"] (demoMd "a" 0)),
         (1, .setStep ""), (1, .log .info "r1"), (1, .check "" true none),
         (1, .threadCreate 10), (10, .threadRun), (10, .log .info "t1"),
         (1, .setStep "a\nb"), (1, .log .info "r2\nsecond line"), (10, .setStep "\n"), (10, .log .info ""), (10, .threadEnd),
         (1, .setStep "  "), (1, .url "u" "r3"), (1, .setStep ""), (1, .attach "f" "r4" false),
         (1, .endTest ["s", "a"]), (1, .endSuite ["s"]), (1, .endTestSession)] with
     | .ok s =>
       match Writer.run Writer.initState s.fired with
       | .ok w => some (stepsView (getSteps (.test ["s", "a"]) w.report))
       | .error _ => none
     | .error _ => none)
    = some [("", ["r1", ""]), ("", ["t1"]), ("a\nb", ["r2\nsecond line"]), ("\n", [""]), ("  ", ["r3"]), ("", ["r4"])] := by
  decide

/-! ## (d) which attachments the stream references (M3): only blocks that were left normally

  `prepare_attachment` is a context manager: the name is handed out on entry (`attachBegin`), the user's
  `with` body writes the file, the `LogAttachmentEvent` is fired on NORMAL exit (`attachEnd`).  When the body
  (or `shutil.copy` in `save_attachment_file`, e.g. on a missing source file) raises, the block is left by
  the exception (`attachAbort`): nothing after the `yield` runs.  The ledger `SessionAttach.Book` is computed
  from the call sequence alone: one record (thread, number, pseudo file name, description, image flag) per
  block entered, `opened` → `reported` (left normally; the atomic `attach` = enter + leave) or `aborted`. -/

section Referenced
open LccModel.SessionAttach

/-- **An aborted block fires no event.**  Leaving a `prepare_attachment` block by an exception changes
    nothing but the set of open blocks: the fired stream, every cursor (held events included), the failure
    set and the counter are untouched — the report never hears of the name that was handed out. -/
theorem aborted_block_fires_nothing {s s' : St} {t : Nat} (h : step s t .attachAbort = .ok s') :
    s'.fired = s.fired ∧ s'.cursors = s.cursors ∧ s'.failures = s.failures ∧ s'.attachCount = s.attachCount ∧
    ∃ p, s.prepared.find? (fun p => p.tid == t) = some p ∧
      s'.prepared = s.prepared.eraseP (fun p => p.tid == t) := by
  simp only [step] at h
  cases hf : s.prepared.find? (fun p => p.tid == t) with
  | none => rw [hf] at h; cases h
  | some p =>
    rw [hf] at h; simp only at h; injection h with h; subst h
    exact ⟨rfl, rfl, rfl, rfl, p, rfl, rfl⟩

/-- **The attachment events of the stream are exactly the blocks that were left normally**, in the order
    they were left, for EVERY accepted call sequence of any threads: the list of (thread id, path,
    description, image flag) of the fired `LogAttachmentEvent`s equals the `reported` records of the ledger;
    the blocks still open are the ledger's `opened` records and the counter is the number of blocks ever
    entered.  Hence no other call (log, step change, thread start, result end, …) ever produces an attachment
    event, and a block that is aborted, or entered and never left, contributes none. -/
theorem attachment_events_are_the_completed_blocks {ops : List (Nat × Op)} {s : St}
    (h : runOps St.init ops = .ok s) :
    attsOf s.fired = (Book.init.run ops).reported.map Rec.view ∧
    s.prepared = (Book.init.run ops).opened.map Rec.prep ∧
    s.attachCount = (Book.init.run ops).count := by
  have := link_runOps ops Book.init St.init s link_init inv_init h
  exact ⟨this.fired, this.prepared, this.count⟩

/-- **Numbers are never shared between blocks**: the numbers (the `%04d` prefix of the file name) of all
    blocks ever entered — reported, aborted, still open — are pairwise different, for every call sequence.
    In particular the number of an aborted or open block is not the number of any reported attachment, and
    two reported attachments have different numbers (M3 increments atomically; the refinement to byte-code
    steps under `_attachment_lock` is part (c)). -/
theorem block_numbers_distinct (ops : List (Nat × Op)) :
    (((Book.init.run ops).opened ++ (Book.init.run ops).reported ++ (Book.init.run ops).aborted).map (·.num)).Nodup :=
  book_nums ops

/-- **Every fired attachment event was prepared by an `attachBegin` (or atomic `attach`) of the same
    thread**: for every accepted call sequence and every `LogAttachmentEvent(…, t, path, d, img)` in its fired
    stream, the sequence contains a call `attachBegin f d img` / `attach f d img` issued by thread `t` itself,
    and `path` is the name handed out by that very call: `attachName (k + 1) f` where `k` blocks had been
    entered before it. -/
theorem fired_attachment_prepared_by_own_thread {ops : List (Nat × Op)} {s : St}
    (h : runOps St.init ops = .ok s) {l : Loc} {st : Option String} {t : Nat} {path d : String} {img : Bool}
    {time : Nat} (he : Event.attachment l st t path d img time ∈ s.fired) :
    ∃ pre post op f, ops = pre ++ (t, op) :: post ∧ (op = .attach f d img ∨ op = .attachBegin f d img) ∧
      path = attachName ((Book.init.run pre).count + 1) f := by
  have hv := mem_attsOf he
  rw [(attachment_events_are_the_completed_blocks h).1] at hv
  obtain ⟨r, hr, hview⟩ := List.mem_map.mp hv
  have hall : r ∈ (Book.init.run ops).all := by simp [Book.all, hr]
  obtain ⟨pre, post, op, h1, h2, h3⟩ := rec_origin ops r hall
  simp only [Rec.view, Prod.mk.injEq] at hview
  obtain ⟨v1, v2, v3, v4⟩ := hview
  refine ⟨pre, post, op, r.filename, ?_, ?_, ?_⟩
  · rw [← v1]; exact h1
  · rw [← v3, ← v4]; exact h2
  · rw [← v2, Rec.name, h3]

/-- non-vacuity: worker 1 leaves a block by an exception inside an outer block that completes, worker 2
    enters a block and never leaves it, then worker 1 saves another attachment — the stream references
    exactly the outer block (number 1) and the last one (number 4); numbers 2 (aborted) and 3 (open) are
    never referenced -/
example :
    (match runOps St.init
        [(1, .startTest ["s", "a"] (demoMd "a" 0)), (1, .setStep "A"),
         (1, .attachBegin "o.txt" "outer" false), (1, .attachBegin "i.txt" "inner" true), (1, .attachAbort),
         (2, .attachBegin "w.txt" "open" false), (1, .attachEnd), (1, .attach "l.txt" "last" false)] with
     | .ok s => some (attsOf s.fired, s.attachCount, s.prepared.map (·.name))
     | .error _ => none)
    = some ([(1, "attachments/0001_o.txt", "outer", false), (1, "attachments/0004_l.txt", "last", false)], 4,
            ["attachments/0003_w.txt"]) := by
  decide

/-- … and leaving a block that was never entered is an error of the model (not expressible in Python) -/
example : (match runOps St.init [(1, .startTest ["s", "a"] (demoMd "a" 0)), (1, .attachAbort)] with
    | .ok _ => none | .error e => some e) = some Err.noAttach := by decide

end Referenced

/-! ## (c) attachment names (M14): the counter under `_attachment_lock` -/

section Attachments
open LccModel.Threads

/-- **`attachment_names_distinct`** — "attachment files get distinct names".  For EVERY interleaving of
    any number of threads, each running any number of `prepare_attachment` calls as the atomic steps
    {acquire lock; read counter and compute the name; read counter; write counter + 1; release; write
    the file; fire the event}, the numbers that prefix the file names are handed out in strictly
    increasing order — in particular they are pairwise distinct. -/
theorem attachment_names_distinct {tr : List (Nat × Attach.Act)} {s : Attach.St}
    (h : Attach.run true Attach.init tr = some s) :
    (Attach.numbers s).Pairwise (· < ·) ∧ (Attach.numbers s).Pairwise (· ≠ ·) := by
  have hinv := Attach.run_inv tr Attach.init s Attach.inv_init h
  have h1 := Attach.numbers_increasing hinv
  exact ⟨h1, h1.imp (fun hab => Nat.ne_of_lt hab)⟩

/-- … and the numbers are exactly 1, 2, …, k without gaps (no name is skipped or reused). -/
theorem attachment_names_consecutive {tr : List (Nat × Attach.Act)} {s : Attach.St}
    (h : Attach.run true Attach.init tr = some s) :
    Attach.numbers s = (List.range (Attach.numbers s).length).map (· + 1) := by
  have hinv := Attach.run_inv tr Attach.init s Attach.inv_init h
  have := hinv.names
  unfold Attach.numbers
  rw [this]; simp

/-- **Mutual exclusion** is what the proof rests on: at most the lock holder is between `acquire` and
    `release`. -/
theorem attachment_critical_section_exclusive {tr : List (Nat × Attach.Act)} {s : Attach.St}
    (h : Attach.run true Attach.init tr = some s) {t u : Nat}
    (ht : Attach.inCS (s.pc t) = true) (hu : Attach.inCS (s.pc u) = true) : t = u := by
  have hinv := Attach.run_inv tr Attach.init s Attach.inv_init h
  have h1 := hinv.cs t ht
  have h2 := hinv.cs u hu
  rw [h1] at h2; injection h2

/-- **What the lock is for** (refutation of the lock-free variant): without `_attachment_lock` two
    threads can both read the counter before either writes it back and get the SAME number (a lost
    update of `_attachment_count += 1` is an instance of the same overlap). -/
theorem lockfree_names_collide :
    ∃ tr, (Attach.run false Attach.init tr).map Attach.numbers = some [1, 1] :=
  ⟨[(1, .acquire), (2, .acquire), (1, .readName), (2, .readName), (1, .readInc), (1, .writeInc),
    (2, .readInc), (2, .writeInc)], by decide⟩

/-- non-vacuity of `attachment_names_distinct`: with the lock the first interleaving above is NOT
    accepted (thread 2 blocks on `acquire`), and a two-thread interleaving that is accepted hands out 1, 2 -/
example : Attach.run true Attach.init [(1, .acquire), (2, .acquire)] = none := by decide
example : (Attach.run true Attach.init
    [(1, .acquire), (1, .readName), (2, .writeFile)]).map Attach.numbers = none := by decide
example : (Attach.run true Attach.init
    [(1, .acquire), (1, .readName), (1, .readInc), (1, .writeInc), (1, .release),
     (2, .acquire), (1, .writeFile), (2, .readName), (2, .readInc), (1, .fireEvent), (2, .writeInc), (2, .release),
     (2, .writeFile), (2, .fireEvent)]).map (fun s => (Attach.numbers s, s.files, s.events))
    = some ([1, 2], [1, 2], [1, 2]) := by decide

/-- **`attachment_exists_before_event`** — "attachment files … exist on disk with the written content
    whenever the report references them".  For every interleaving, with or without the lock: every
    number referenced by a fired LogAttachmentEvent belongs to a file that has already been written
    (program order of `prepare_attachment`: yield → the caller writes the file → the event is fired). -/
theorem attachment_exists_before_event {b : Bool} {tr : List (Nat × Attach.Act)} {s : Attach.St}
    (h : Attach.run b Attach.init tr = some s) : ∀ n ∈ s.events, n ∈ s.files :=
  (Attach.run_fileInv tr Attach.init s Attach.fileInv_init h).events

/-- The atomic steps include `abort`: the caller's `with` body raises (before or after it wrote the file)
    and the generator is left by the exception.  It references nothing: events, files, counter and the names
    handed out are unchanged; the theorems above quantify over interleavings WITH such steps. -/
theorem attachment_abort_fires_no_event {b : Bool} {s s' : Attach.St} {t : Nat}
    (h : Attach.step b s t .abort = some s') :
    s'.events = s.events ∧ s'.files = s.files ∧ s'.count = s.count ∧ s'.names = s.names ∧ s'.pc t = .idle := by
  simp only [Attach.step] at h
  cases hp : s.pc t <;> rw [hp] at h <;> try cases h
  all_goals exact ⟨rfl, rfl, rfl, rfl, by simp [Attach.setPc]⟩

/-- non-vacuity: thread 1 aborts before writing, thread 2 completes: numbers 1, 2 handed out, only file 2
    written, only attachment 2 referenced -/
example : (Attach.run true Attach.init
    [(1, .acquire), (1, .readName), (1, .readInc), (1, .writeInc), (1, .release), (2, .acquire), (1, .abort),
     (2, .readName), (2, .readInc), (2, .writeInc), (2, .release), (2, .writeFile), (2, .fireEvent)]).map
      (fun s => (Attach.numbers s, s.files, s.events)) = some ([1, 2], [2], [2]) := by decide

end Attachments

end LccModel.C06

/-
  C05, declaration part — the variants of a PARAMETRIZED test.

  All the tests `@lcc.parametrized` makes out of one method share the method (one callback), its fixture arguments, its
  metadata — and its RANK.  For "N threads = one thread" this means:

    1. every variant is a test of its own for the runner: the loader keeps test names pairwise distinct inside a suite, so
       the variants have pairwise distinct task ids, each with its own test-scoped fixture schedule
       (`Run.testFixtures`, evaluated inside that test's task — `C03Run.testRun_eq`), and what a task emits is a function
       of its own inputs (`C05Run.task_output_is_a_function_of_its_inputs`): two variants running at the same time do not
       share any fixture instance of scope "test";
    2. two variants whose parameter sets bind the same names are THE SAME test specification up to the name: same rank,
       disabled value, dependencies, fixture names;
    3. since fix N5 (`_load_parametrized_tests`: `rank = md.rank + idx / (idx + 1)`) every variant has a rank of its own: the
       variants of one declaration are strictly increasing in parameter-set order and stay between their declaration's rank
       and the next one (`variants_keep_parameter_set_order`, `variants_have_pairwise_distinct_ranks`,
       `variants_stay_at_their_declaration`); the tests of a loaded suite whose declarations have pairwise distinct ranks
       (what the decoration counter gives) are strictly increasing, and so are the natural-number ranks the run-level project,
       the events and the report carry (`loaded_suite_tests_strictly_ranked`, `loaded_suite_sibling_ranks_distinct`): the
       hypothesis `DistinctSiblingRanks` of `C05.view_independent_of_arrival_order` / `report_independent_of_schedule` /
       `n_threads_equals_one_thread` holds for the tests of every loaded suite, parametrized ones included.  Before the fix
       all the variants shared one rank and the report listed them in ARRIVAL order (finding N5, now `fixed`; the
       two-arrival-orders example of equal ranks stays in `C05.equal_ranks_view_depends_on_arrival_order`).
-/
import LccModel.Lemmas.ExpandRank
import LccModel.Props.C01Expand
import LccModel.Props.C03Decl
import LccModel.Props.C05

namespace LccModel.C05Decl
open LccModel.Report (Path)
open LccModel.Loader (PVal Params Seg Meta Disabled LoadErr)
open LccModel.Expand LccModel.Run

/-! ### 1. Each variant is a task of its own -/

/-- the tests of a loaded suite — variants of parametrized methods included — have pairwise distinct names -/
theorem loaded_tests_have_distinct_names (h : ClsHead) (tests : List TestDecl) (subs : List SuiteDecl) (s : Suite)
    (hl : loadSuite (.mk h tests subs) = .ok s) : (s.tests.map (·.name)).Nodup := by
  rw [loadSuite] at hl
  cases ht : loadTests tests with
  | error e => simp [ht] at hl
  | ok ts =>
    simp only [ht] at hl
    cases hs : loadSubs (loadKeyed subs) with
    | error e => simp [hs] at hl
    | ok ss =>
      simp only [hs] at hl
      injection hl with hl; subst hl
      exact loadTests_names_nodup tests ts ht

/-- … hence pairwise distinct test tasks (`TaskId` = kind + path), wherever the suite sits in the tree -/
theorem variants_have_their_own_tasks (h : ClsHead) (tests : List TestDecl) (subs : List SuiteDecl) (s : Suite)
    (hl : loadSuite (.mk h tests subs) = .ok s) (parent : Path) :
    (s.tests.map (fun t => (⟨.test, parent ++ [s.head.name] ++ [t.name]⟩ : TaskId))).Nodup := by
  have hn := loaded_tests_have_distinct_names h tests subs s hl
  have : s.tests.map (fun t => (⟨.test, parent ++ [s.head.name] ++ [t.name]⟩ : TaskId)) =
      (s.tests.map (·.name)).map (fun n => (⟨.test, parent ++ [s.head.name] ++ [n]⟩ : TaskId)) := by
    rw [List.map_map]; rfl
  rw [this]
  refine List.Pairwise.map _ ?_ hn
  intro a b hab e
  injection e with _ e
  have := List.append_cancel_left e
  exact hab (by simpa using this)

/-- every variant schedules the test-scoped fixtures of ITS OWN arguments: the callback's arguments that its own parameter
    set does not bind (`Test.get_fixtures`), resolved per test by `FixtureRegistry.get_fixtures_scheduled_for_test` -/
theorem variant_fixture_schedule (d : TestDecl) (t : Test) (ht : t ∈ expand d) (P : Proj) :
    testFixtures P (toSpecTest t) = scheduledFor P (d.args.filter (fun a => !(t.params.any (fun kv => kv.1 == a)))) .test := by
  unfold testFixtures toSpecTest
  simp only [(C03Decl.expansion_fixtures d t ht).2]

/-! ### 2. Variants are one specification, up to the name -/

/-- two variants whose parameter sets bind the same names: the same run-level test, renamed -/
theorem variants_differ_by_name_only (d : TestDecl) (t₁ t₂ : Test) (h₁ : t₁ ∈ expand d) (h₂ : t₂ ∈ expand d)
    (hk : t₁.params.map (·.1) = t₂.params.map (·.1)) : toSpecTest t₁ = { toSpecTest t₂ with name := t₁.name } := by
  obtain ⟨d1, _, _, _, p1, r1⟩ := C01Expand.expansion_inherits d t₁ h₁
  obtain ⟨d2, _, _, _, p2, r2⟩ := C01Expand.expansion_inherits d t₂ h₂
  have e₁ := (C03Decl.expansion_fixtures d t₁ h₁).2
  have e₂ := (C03Decl.expansion_fixtures d t₂ h₂).2
  have hany : ∀ a, t₁.params.any (fun kv => kv.1 == a) = t₂.params.any (fun kv => kv.1 == a) := by
    intro a
    have : ∀ ps : Params, ps.any (fun kv => kv.1 == a) = (ps.map (·.1)).any (fun k => k == a) := by
      intro ps; induction ps with
      | nil => rfl
      | cons p rest ih => simp [List.any_cons, ih]
    rw [this, this, hk]
  have hf : t₁.fixtures = t₂.fixtures := by
    rw [e₁, e₂]; apply List.filter_congr; intro a _; rw [hany a]
  unfold toSpecTest
  simp only [d1, d2, p1, p2, r1, r2, hf]

/-! ### 3. Ranks: every test of a loaded suite has a rank of its own -/

/-- **The variants of one declaration keep the order of the parameter sets**: along `expand d` (= parameter-set order) the
    loaded ranks are strictly increasing. -/
theorem variants_keep_parameter_set_order (d : TestDecl) : (expand d).Pairwise (fun a b => keyLt a b = true) :=
  expand_pairwise d

/-- … in particular pairwise distinct -/
theorem variants_have_pairwise_distinct_ranks (d : TestDecl) : ((expand d).map Test.key).Nodup := by
  rw [List.Nodup, List.pairwise_map]
  exact (expand_pairwise d).imp (fun h => keyLt_ne h)

/-- … and all of them stay at their declaration: the integer part of the rank is the declaration's rank, so they sort
    after everything declared before and before everything declared after -/
theorem variants_stay_at_their_declaration (d : TestDecl) (t : Test) (ht : t ∈ expand d) : t.rank = d.rank :=
  rank_of_mem_expand ht

/-- a variant compared with a test of ANOTHER declaration: the declarations' ranks decide -/
theorem variants_ordered_as_their_declarations (d₁ d₂ : TestDecl) (t₁ t₂ : Test) (h₁ : t₁ ∈ expand d₁) (h₂ : t₂ ∈ expand d₂)
    (h : d₁.rank < d₂.rank) : keyLt t₁ t₂ = true :=
  keyLt_iff.mpr (.inl (by rw [rank_of_mem_expand h₁, rank_of_mem_expand h₂]; exact h))

/-- **The tests of a loaded suite are strictly ranked** when its declarations have pairwise distinct ranks (the decoration
    counter never gives a rank twice): in load order, strictly increasing — parametrized declarations included. -/
theorem loaded_suite_tests_strictly_ranked (h : ClsHead) (tests : List TestDecl) (subs : List SuiteDecl) (s : Suite)
    (hl : loadSuite (.mk h tests subs) = .ok s) (hn : (tests.map (·.rank)).Nodup) :
    s.tests.Pairwise (fun a b => keyLt a b = true) := by
  rw [C01Expand.load_ok_is_expansion _ s hl, C01Expand.suite_tests_are_expansions]
  exact flatMap_expand_pairwise _ (testOrder_strict tests hn)

/-- **`DistinctSiblingRanks` for the tests of every loaded suite**: the natural-number ranks the runner's project carries
    (and the writer copies into the report: `testRank`) are strictly increasing in load order, hence pairwise distinct —
    the hypothesis under which `C05.view_independent_of_arrival_order`, `report_independent_of_schedule` and
    `n_threads_equals_one_thread` give the one-thread view for every schedule. -/
theorem loaded_suite_sibling_ranks_distinct (h : ClsHead) (tests : List TestDecl) (subs : List SuiteDecl) (s : Suite)
    (hl : loadSuite (.mk h tests subs) = .ok s) (hn : (tests.map (·.rank)).Nodup) :
    ((toSpec s).tests.map (·.rank)).Pairwise (· < ·) ∧ ((toSpec s).tests.map (·.rank)).Nodup := by
  have hp := loaded_suite_tests_strictly_ranked h tests subs s hl hn
  have : (toSpec s).tests = toSpecTests s.tests := by
    cases s with
    | mk hd ts ss => rw [toSpec]; rfl
  rw [this]
  exact ⟨toSpecTests_ranks_increasing _ hp, pairwise_lt_nodup _ (toSpecTests_ranks_increasing _ hp)⟩

/-! ### Non-vacuity -/

open LccModel.Expand.Sample in
/-- the three variants of the sample declaration `pay` (rank 3): keys (3,1) (3,2) (3,3); in the suite `payments` the run-level
    ranks of the nine tests are 0..8 -/
example : (expand pay).map Test.key = [(3, 1), (3, 2), (3, 3)] := by decide
open LccModel.Expand.Sample in
example : (match expandSuites [payments] with | [s] => (toSpec s).tests.map (fun t => (t.name, t.rank)) | _ => []) =
    [("regular", 0), ("plain_disabled", 1), ("pay_1", 2), ("pay_2", 3), ("pay_3", 4), ("conv_1_x", 5), ("conv_-4_y", 6)] := by decide

/-- what the order was made of BEFORE the fix (equal ranks: arrival order decides) and what distinct ranks give -/
example : C05.viewNames (Writer.fold (C05.twoTests 3 3 true)) = [["a", "b"]] ∧ C05.viewNames (Writer.fold (C05.twoTests 3 3 false)) = [["b", "a"]] := by
  decide
example : C05.viewNames (Writer.fold (C05.twoTests 3 4 true)) = [["a", "b"]] ∧ C05.viewNames (Writer.fold (C05.twoTests 3 4 false)) = [["a", "b"]] := by
  decide

end LccModel.C05Decl

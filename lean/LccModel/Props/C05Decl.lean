/-
  C05, declaration part — the variants of a PARAMETRIZED test.

  All the tests `@lcc.parametrized` makes out of one method share the method (one callback), its fixture arguments, its
  metadata — and its RANK.  For "N threads = one thread" this means:

    1. every variant is a test of its own for the runner: the loader keeps test names pairwise distinct inside a suite, so
       the variants have pairwise distinct task ids, each with its own test-scoped fixture schedule
       (`Run.testFixtures`, evaluated inside that test's task — `C03Run.testRun_eq`), and what a task emits is a function
       of its own inputs (`C05Run.task_output_is_a_function_of_its_inputs`): two variants running at the same time do not
       share any fixture instance of scope "test";
    2. two variants whose parameter sets bind the same names are THE SAME test specification up to the name: same rank,
       disabled value, dependencies, fixture names;
    3. because the variants share the rank of their declaration, the hypothesis `DistinctSiblingRanks` of
       `C05.view_independent_of_arrival_order` does NOT hold for a suite with a parametrized test of two or more sets: the
       order of the variants in the report is the order in which their first events ARRIVE (refutation below, open finding
       `C05/order-depends-on-schedule/parametrized-variants`).  Everything else of the report — the content of every test,
       the place of the group among its siblings — is covered by the theorems of `Props/C05.lean` unchanged.
-/
import LccModel.Lemmas.ExpandDeco
import LccModel.Props.C01Expand
import LccModel.Props.C03Decl
import LccModel.Props.C05

namespace LccModel.C05Decl
open LccModel.Report (Path)
open LccModel.Loader (PVal Params Seg Meta Disabled LoadErr)
open LccModel.Expand LccModel.Run

/-! ### 1. Each variant is a task of its own -/

/-- the tests of a loaded suite — variants of parametrized methods included — have pairwise distinct names -/
theorem loaded_tests_have_distinct_names (h : ClsHead) (tests : List TestDecl) (subs : List SuiteDecl) (s : Suite)
    (hl : loadSuite (.mk h tests subs) = .ok s) : (s.tests.map (·.name)).Nodup := by
  rw [loadSuite] at hl
  cases ht : loadTests tests with
  | error e => simp [ht] at hl
  | ok ts =>
    simp only [ht] at hl
    cases hs : loadSubs (loadKeyed subs) with
    | error e => simp [hs] at hl
    | ok ss =>
      simp only [hs] at hl
      injection hl with hl; subst hl
      exact loadTests_names_nodup tests ts ht

/-- … hence pairwise distinct test tasks (`TaskId` = kind + path), wherever the suite sits in the tree -/
theorem variants_have_their_own_tasks (h : ClsHead) (tests : List TestDecl) (subs : List SuiteDecl) (s : Suite)
    (hl : loadSuite (.mk h tests subs) = .ok s) (parent : Path) :
    (s.tests.map (fun t => (⟨.test, parent ++ [s.head.name] ++ [t.name]⟩ : TaskId))).Nodup := by
  have hn := loaded_tests_have_distinct_names h tests subs s hl
  have : s.tests.map (fun t => (⟨.test, parent ++ [s.head.name] ++ [t.name]⟩ : TaskId)) =
      (s.tests.map (·.name)).map (fun n => (⟨.test, parent ++ [s.head.name] ++ [n]⟩ : TaskId)) := by
    rw [List.map_map]; rfl
  rw [this]
  refine List.Pairwise.map _ ?_ hn
  intro a b hab e
  injection e with _ e
  have := List.append_cancel_left e
  exact hab (by simpa using this)

/-- every variant schedules the test-scoped fixtures of ITS OWN arguments: the callback's arguments that its own parameter
    set does not bind (`Test.get_fixtures`), resolved per test by `FixtureRegistry.get_fixtures_scheduled_for_test` -/
theorem variant_fixture_schedule (d : TestDecl) (t : Test) (ht : t ∈ expand d) (P : Proj) :
    testFixtures P (toSpecTest t) = scheduledFor P (d.args.filter (fun a => !(t.params.any (fun kv => kv.1 == a)))) .test := by
  unfold testFixtures toSpecTest
  simp only [(C03Decl.expansion_fixtures d t ht).2]

/-! ### 2. Variants are one specification, up to the name -/

/-- two variants whose parameter sets bind the same names: the same run-level test, renamed -/
theorem variants_differ_by_name_only (d : TestDecl) (t₁ t₂ : Test) (h₁ : t₁ ∈ expand d) (h₂ : t₂ ∈ expand d)
    (hk : t₁.params.map (·.1) = t₂.params.map (·.1)) : toSpecTest t₁ = { toSpecTest t₂ with name := t₁.name } := by
  obtain ⟨d1, _, _, _, p1, r1⟩ := C01Expand.expansion_inherits d t₁ h₁
  obtain ⟨d2, _, _, _, p2, r2⟩ := C01Expand.expansion_inherits d t₂ h₂
  have e₁ := (C03Decl.expansion_fixtures d t₁ h₁).2
  have e₂ := (C03Decl.expansion_fixtures d t₂ h₂).2
  have hany : ∀ a, t₁.params.any (fun kv => kv.1 == a) = t₂.params.any (fun kv => kv.1 == a) := by
    intro a
    have : ∀ ps : Params, ps.any (fun kv => kv.1 == a) = (ps.map (·.1)).any (fun k => k == a) := by
      intro ps; induction ps with
      | nil => rfl
      | cons p rest ih => simp [List.any_cons, ih]
    rw [this, this, hk]
  have hf : t₁.fixtures = t₂.fixtures := by
    rw [e₁, e₂]; apply List.filter_congr; intro a _; rw [hany a]
  unfold toSpecTest
  simp only [d1, d2, p1, p2, r1, r2, hf]

/-- in particular all the variants of a declaration have its rank -/
theorem variants_share_the_rank (d : TestDecl) (t₁ t₂ : Test) (h₁ : t₁ ∈ expand d) (h₂ : t₂ ∈ expand d) : t₁.rank = t₂.rank := by
  rw [(C01Expand.expansion_inherits d t₁ h₁).2.2.2.2.2, (C01Expand.expansion_inherits d t₂ h₂).2.2.2.2.2]

/-! ### 3. Refutation: the order of the variants in the report is their arrival order -/

open LccModel.Expand.Sample in
/-- **Open finding `C05/order-depends-on-schedule/parametrized-variants`**: the three variants of the sample declaration
    `pay` all have rank 3; two tests of that rank whose first events arrive in the two possible orders (what two worker
    threads can produce) give two different rank-sorted views — the stable sort falls back to arrival order. -/
theorem parametrized_variants_view_depends_on_arrival_order :
    (expand pay).map (·.rank) = [3, 3, 3] ∧
    C05.viewNames (Writer.fold (C05.twoTests 3 3 true)) = [["a", "b"]] ∧
    C05.viewNames (Writer.fold (C05.twoTests 3 3 false)) = [["b", "a"]] := by
  refine ⟨by decide, by decide, by decide⟩

/-- with the variants' ranks made distinct (what the candidate repair `fixes/N5-…` does) both arrival orders give the
    declaration order -/
example : C05.viewNames (Writer.fold (C05.twoTests 3 4 true)) = [["a", "b"]] ∧ C05.viewNames (Writer.fold (C05.twoTests 3 4 false)) = [["a", "b"]] := by
  decide

end LccModel.C05Decl

/-
  C19 — whatever the previous run left in `report/` (any combination of reporting backends, attachments only, nothing),
  starting a run archives it WITH ITS CONTENT.

  Property theorems only (definitions: `Model/RunContent.lean`).  Which theorem quantifies over the input class "backend
  combination of the PREVIOUS run": `previous_report_archived_with_its_files` (`s.content p` is universally quantified:
  html without json/xml, junit alone, attachments only, …) and `run_never_changes_recorded_content`.
-/
import LccModel.Model.RunContent
import LccModel.Props.C19Runs

namespace LccModel.C19Runs
open LccModel.RunSeq

/-- a content-level history is a run-level history: every theorem of this namespace applies to its `base` -/
theorem runOpsC_base : ∀ (ops : List OpC) (s s' : StC), runOpsC s ops = some s' →
    runOps s.base (ops.map OpC.toOp) = some s'.base
  | [], s, s', h => by simp only [runOpsC] at h; cases h; rfl
  | op :: ops, s, s', h => by
    simp only [runOpsC] at h
    cases hs : stepC s op with
    | none => rw [hs] at h; cases h
    | some s1 =>
      rw [hs] at h
      have hb : step s.base op.toOp = some s1.base := by
        cases op with
        | run c files =>
          simp only [stepC, runC] at hs
          simp only [OpC.toOp, step]
          cases hr : run { c with writes := !files.isEmpty } s.base with
          | none => rw [hr] at hs; cases hs
          | some b' => rw [hr] at hs; cases hs; rfl
        | other o =>
          simp only [stepC] at hs
          simp only [OpC.toOp]
          cases hr : step s.base o with
          | none => rw [hr] at hs; cases hs
          | some b' => rw [hr] at hs; cases hs; rfl
      simp only [List.map_cons, runOps, hb]
      exact runOpsC_base ops s1 s' h

def ReachableC (s : StC) : Prop := ∃ ops, runOpsC StC.init ops = some s

theorem reachableC_base {s : StC} (h : ReachableC s) : Reachable s.base := by
  obtain ⟨ops, h⟩ := h
  exact ⟨_, runOpsC_base ops _ _ h⟩

/-- **No run, whatever its configuration and whatever the directories hold, changes what is recorded about a directory
    that existed before it**: the only directory whose content a run determines is the one it creates. -/
theorem run_never_changes_recorded_content {c : Cfg} {files : List FileKind} {s s' : StC}
    (h : runC c files s = some s') : ∀ m, m < s.base.fs.next → s'.content m = s.content m := by
  intro m hm
  unfold runC at h
  cases hr : run { c with writes := !files.isEmpty } s.base with
  | none => rw [hr] at h; cases h
  | some b' =>
    rw [hr] at h; cases h
    have : m ≠ s.base.fs.next := by omega
    simp [this]

/-- **The previous report becomes archive 1 with its content, WHATEVER that content is** — `s.content p` is arbitrary:
    report.html + report-junit.xml without report.js / report.xml, html alone, junit alone, only attachments, nothing —
    for every run at the default location that gets as far as creating its directory. -/
theorem previous_report_archived_with_its_files {c : Cfg} {files : List FileKind} {s s' : StC} {p : Nat}
    (hs : Reachable s.base) (hsrc : dirSource c.cli c.env = .project) (hf : c.fate ≠ .failsBefore)
    (h : runC c files s = some s') (hp : s.base.fs.current = some p) :
    s'.base.fs.arch 1 = some p ∧ s'.content p = s.content p ∧ s'.base.filled p = s.base.filled p := by
  have hinv := reachable_inv hs
  have hrun : ∃ b', run { c with writes := !files.isEmpty } s.base = some b' ∧ s'.base = b' := by
    unfold runC at h
    cases hr : run { c with writes := !files.isEmpty } s.base with
    | none => rw [hr] at h; cases h
    | some b' => rw [hr] at h; cases h; exact ⟨b', rfl, rfl⟩
  obtain ⟨b', hr, hb⟩ := hrun
  -- the run-level step: `createDir` then (perhaps) `fill`, which does not touch `fs`
  have hcd : ∃ s1 d, createDir { c with writes := !files.isEmpty } s.base = some (s1, d) ∧ b'.fs = s1.fs ∧
      (∀ m, m ≠ s.base.fs.next → b'.filled m = s1.filled m) := by
    unfold run at hr
    split at hr
    · rename_i hfb; exact absurd hfb hf
    · cases hcd : createDir { c with writes := !files.isEmpty } s.base with
      | none => rw [hcd] at hr; cases hr
      | some q =>
        obtain ⟨s1, d⟩ := q
        rw [hcd] at hr
        obtain ⟨_, hd⟩ := default_run_is_rotation (c := { c with writes := !files.isEmpty }) hsrc hcd
        subst hd
        simp only at hr
        split at hr
        · have e := Option.some.inj hr
          refine ⟨s1, _, rfl, by rw [← e]; simp [fill], ?_⟩
          intro m hm; rw [← e]; simp [fill, hm]
        · have e : s1 = b' := Option.some.inj hr
          exact ⟨s1, _, rfl, by rw [e], fun _ _ => by rw [e]⟩
  obtain ⟨s1, d, hcd, hfs, hfill⟩ := hcd
  obtain ⟨harch, hfl⟩ := default_run_archives_previous (c := { c with writes := !files.isEmpty }) hs hsrc hcd hp
  obtain ⟨_, _, _, hne, _⟩ := default_run_dir_fresh_and_empty (c := { c with writes := !files.isEmpty }) hs hsrc hcd
  have hpn : p ≠ s.base.fs.next := by
    intro hc; rw [hc] at hp; exact hne hp
  refine ⟨by rw [hb, hfs]; exact harch, ?_, by rw [hb, hfill p hpn]; exact hfl⟩
  unfold runC at h
  rw [hr] at h; cases h
  simp [hpn]

/-- … and the new directory holds exactly what this run's backends wrote (nothing when the run aborted right after
    creating it, or had no file-producing backend and saved no attachment). -/
theorem new_directory_holds_this_runs_files {c : Cfg} {files : List FileKind} {s s' : StC}
    (hs : Reachable s.base) (hsrc : dirSource c.cli c.env = .project) (hf : c.fate = .completes) (hne : files ≠ [])
    (h : runC c files s = some s') : s'.base.fs.current = some s.base.fs.next ∧ s'.content s.base.fs.next = files := by
  obtain ⟨cli, env, impl, wr, fate⟩ := c
  simp only at hf hsrc
  subst hf
  unfold runC at h
  cases hr : run { cli := cli, env := env, impl := impl, writes := !files.isEmpty, fate := .completes } s.base with
  | none => rw [hr] at h; cases h
  | some b' =>
    rw [hr] at h; cases h
    obtain ⟨hcur, hfilled⟩ := default_run_content (c := { cli := cli, env := env, impl := impl, writes := !files.isEmpty, fate := .completes }) hs hsrc (by simp) hr
    have hw : (!files.isEmpty) = true := by cases files with
      | nil => exact absurd rfl hne
      | cons _ _ => rfl
    have hnext : b'.fs.next ≠ s.base.fs.next := by
      unfold run at hr
      simp only at hr
      cases hcd : createDir { cli := cli, env := env, impl := impl, writes := !files.isEmpty, fate := .completes } s.base with
      | none => rw [hcd] at hr; cases hr
      | some q =>
        obtain ⟨s1, d⟩ := q
        rw [hcd] at hr
        obtain ⟨_, hd⟩ := default_run_is_rotation (c := { cli := cli, env := env, impl := impl, writes := !files.isEmpty, fate := .completes }) hsrc hcd
        obtain ⟨_, _, _, hspec, _, _⟩ := createDir_inv (reachable_inv hs) hcd
        obtain ⟨_, hn, _, _⟩ := hspec _ hd
        subst hd
        simp only [hw, and_self, if_true] at hr
        cases hr
        simp only [fill]; omega
    refine ⟨hcur, ?_⟩
    simp only [hfilled, hw, decide_true, Bool.and_self, true_and]
    simp [hnext]

/-! ### non-vacuity: the previous run used `--reporting console html junit` -/

def cfgD : Cfg := { cli := none, env := none, impl := .default, writes := true, fate := .completes }
def cfgAbort : Cfg := { cli := none, env := none, impl := .default, writes := true, fate := .abortsAfter }

/-- run 1 leaves report.html + report-junit.xml (no report.js, no report.xml); run 2 (default backends) archives it as it is -/
example :
    ((runOpsC StC.init [.run cfgD [.html, .junit], .run cfgD [.json, .html]]).map
      (fun s => (s.base.fs.current, s.base.fs.arch 1, s.content 1, s.content 2))) =
    some (some 2, some 1, [.html, .junit], [.json, .html]) := by decide

/-- a console-only run whose test saved an attachment, then an aborted run, then a normal one: nothing is lost -/
example :
    ((runOpsC StC.init [.run cfgD [.attachments], .run cfgAbort [.json], .run cfgD [.json]]).map
      (fun s => (s.base.fs.current, s.base.fs.arch 1, s.base.fs.arch 2, [s.content 1, s.content 2, s.content 3]))) =
    some (some 3, some 2, some 1, [[.attachments], [], [.json]]) := by decide

end LccModel.C19Runs

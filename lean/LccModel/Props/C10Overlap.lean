/-
  C10 — OVERLAPPING workers inside one result: `lcc.Thread`s started by a test (or a setup / teardown), each logging into
  a step of its own, ending in any order, with saves in between.

  Property theorems only.  Which theorem quantifies over the input class "steps of several thread ids open at the same
  time inside one result, ends in any order": `prefix_step` / `prefix_monotone` (`Props/C10.lean`) hold for every stream
  accepted by the grammar, whatever the thread ids; what THIS file adds is the fact they rest on for `stepEnd` — the
  step that is ended is the one the event's own thread started (`active_steps[thread_id]`), never "the last step of the
  result" — and a worked stream of that class (non-vacuity).
-/
import LccModel.Props.C10
import LccModel.Lemmas.WriterNThreads

namespace LccModel.C10
open LccModel.Report LccModel.Writer LccModel.Saving

/-- `on_step_end`: the report changes exactly at the step the event's thread holds in `active_steps` (result `l`, step
    number `idx`): that step gets the end time; which other steps the result has, and whether they are open, plays no role. -/
theorem step_end_ends_own_step (w w' : WriterState) (loc : Loc) (d : String) (tid : Nat) (t : Time) (ref : StepRef)
    (l : Loc) (idx : Nat) (href : w.active.lookup tid = some ref) (ht : ref.target = some (l, idx))
    (h : Writer.apply w (.stepEnd loc d tid t) = .ok w') :
    modifyResult (fun x => .ok { x with steps := modifyNth (setStepEnd t) idx x.steps }) l w.report = .ok w'.report := by
  simp only [Writer.apply, href, ht] at h
  split at h
  · injection h with h; subst h; assumption
  · cases h

/-- … and the other threads keep the step they have open: `active_steps` of another thread id is untouched. -/
theorem step_end_keeps_other_threads (w w' : WriterState) (loc : Loc) (d : String) (tid tid' : Nat) (t : Time)
    (hne : tid' ≠ tid) (h : Writer.apply w (.stepEnd loc d tid t) = .ok w') :
    w'.active.lookup tid' = w.active.lookup tid' := by
  have hb : (tid' == tid) = false := by simpa using hne
  simp only [Writer.apply] at h
  split at h
  · cases h
  · split at h
    · injection h with h; subst h; simp [List.lookup, hb]
    · split at h
      · injection h with h; subst h; simp [List.lookup, hb]
      · cases h

/-! ### a worked stream: a test whose main thread (1) and two workers (2, 3) each have a step open; worker 2, started
    first, ends first; the main thread logs (a save under `at_each_log`) before worker 3 ends -/

def ovMd (n : String) (k : Nat) : Meta := { name := n, description := n, tags := [], properties := [], links := [], rank := k }
def ovLoc : Loc := .test ["s", "a"]

def overlapDemo : List Event :=
  [.sessionStart 1, .suiteStart ["s"] (ovMd "s" 0) 2, .testStart ["s", "a"] (ovMd "a" 0) 3,
   .stepStart ovLoc "main" 1 4, .stepStart ovLoc "A" 2 5, .log ovLoc (some "A") 2 .info "from A" 6,
   .stepStart ovLoc "B" 3 7, .log ovLoc (some "B") 3 .info "from B" 8,
   .stepEnd ovLoc "A" 2 9, .log ovLoc (some "main") 1 .info "main goes on" 10,
   .stepEnd ovLoc "B" 3 11, .stepEnd ovLoc "main" 1 12,
   .testEnd ["s", "a"] 13, .suiteEnd ["s"] 14, .sessionEnd 15]

/-- the stream is accepted by C07's grammar, starts nothing twice, and targets nothing finished -/
example : Grammar.WellFormedPrefix overlapDemo := by decide +kernel
example : SafeStream overlapDemo := by decide +kernel

/-- the end times of the three steps in the final report: each step got the time its OWN thread announced -/
def stepEndsOf (r : Report) : List (String × Option Time) :=
  (allTests r).flatMap (fun t => t.result.steps.map (fun s => (s.description, s.endTime)))

theorem overlap_every_step_gets_its_own_end :
    (match fold overlapDemo with
     | .ok r => stepEndsOf r
     | .error _ => []) = [("main", some 12), ("A", some 9), ("B", some 11)] := by decide +kernel

/-- after worker 2's end (9 events) only ITS step is shown as ended … -/
theorem overlap_after_first_end :
    (match fold (overlapDemo.take 9) with
     | .ok r => stepEndsOf r
     | .error _ => []) = [("main", none), ("A", some 9), ("B", none)] := by decide +kernel

/-- … so the file saved at the main thread's log (10 events, `at_each_log`) is a prefix of every later report -/
example : (List.range 6).all (fun i => prefixBetween (overlapDemo.take 10) (overlapDemo.take (10 + i)) == some true) = true := by
  decide +kernel

/-- under `at_each_log` the three logs (events 6, 8, 10) and the end of the session are the save points -/
example : (match sessRun .atEachLog (fun n => n) (Sess.init (fun n => n)) overlapDemo with
           | .ok s => s.saves.reverse.map (·.1)
           | .error _ => []) = [6, 8, 10, 15] := by decide +kernel

/-! ### the KEY under which a thread's step is registered (`session._get_thread_id()`, `active_steps[thread_id]`)

    The events carry whatever `_get_thread_id()` returns; the writer only uses it as a key.  Any key that tells the threads
    of a result apart gives the same reports — at every point of the run, so the same saved files —; a key two overlapping
    threads share (a thread NAME given twice: `lcc.Thread(name="worker")`) does not. -/

/-- Every snapshot is independent of the keys: for a re-labelling `ρ` of the thread ids that is injective on the (result,
    thread) pairs of the stream, the report after `k` events (what a save at that point writes) is the same, for every `k`
    whose prefix is handled within the discipline. -/
theorem snapshots_independent_of_injective_step_keys {ρ : Loc → Nat → Nat} {es : List Event} (hinj : TidInjOn ρ es) (k : Nat)
    (hd : DisciplinedT (es.take k)) : fold ((es.take k).map (relabelTid ρ)) = fold (es.take k) := by
  have hinj' : TidInjOn ρ (es.take k) := by
    intro l t l' t' h1 h2 h
    obtain ⟨e1, he1, hx1⟩ := List.mem_filterMap.mp h1
    obtain ⟨e2, he2, hx2⟩ := List.mem_filterMap.mp h2
    exact hinj l t l' t' (mem_tidLocs (List.mem_of_mem_take he1) hx1) (mem_tidLocs (List.mem_of_mem_take he2) hx2) h
  obtain ⟨w, hw⟩ := hd
  obtain ⟨w', hw', hr⟩ := drunT_relabelTid hinj' hw
  rw [fold_of_drunT hw', fold_of_drunT hw, hr]

/-- both workers of `overlapDemo` registered under ONE key — what a key made of the thread's name gives when the test named
    its two `lcc.Thread`s alike -/
def sameName : Loc → Nat → Nat := fun _ t => if t = 3 then 2 else t
def overlapShared : List Event := overlapDemo.map (relabelTid sameName)

/-- the shared key is not injective on the stream, and the stream it gives is no longer one of C07's grammar … -/
example : decide (Grammar.WellFormedPrefix overlapShared) = false := by decide +kernel

/-- … REFUTATION of the shared key: the end of the worker that finishes first ends the OTHER worker's step (`B`, at 9); the
    file saved at the main thread's log (10 events) shows it ended at 9; the other worker's end then ends it a second time
    (11) and `A` is never ended: the saved file is NOT a prefix of the final report. -/
theorem shared_step_key_breaks_prefix :
    (match fold (overlapShared.take 10) with
     | .ok r => stepEndsOf r
     | .error _ => []) = [("main", none), ("A", none), ("B", some 9)] ∧
    (match fold overlapShared with
     | .ok r => stepEndsOf r
     | .error _ => []) = [("main", some 12), ("A", none), ("B", some 11)] ∧
    prefixBetween (overlapShared.take 10) overlapShared = some false := by decide +kernel

end LccModel.C10

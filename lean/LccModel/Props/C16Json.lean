/-
  C16 — `is_json(expected)` is Python equality (`actual == expected`), whatever the two documents look like when printed.

  `IsJson.matches` renders both values (`json.dumps(indent=4, sort_keys=True)`) only to SHOW a diff in the failure details;
  the model takes that diff text as an arbitrary parameter and the theorems hold for every such function: the outcome is
  `pyEq`, so values that are equal for Python but print differently — `1` / `1.0` / `True`, `0` / `0.0` / `False`, at the
  top or nested in lists and dicts — are accepted, `not_(is_json(..))` rejects them, and `all_of` / `any_of` / `has_entry`
  built on it follow.  Property theorems only (definitions: `Model/MatcherIsJson.lean`).
-/
import LccModel.Model.MatcherIsJson
import LccModel.Props.C16

namespace LccModel.C16Json
open LccModel.Matcher LccModel.C16

/-- `is_json(e)` accepts `a` iff `a == e` — for every way of rendering / diffing the two documents. -/
theorem is_json_is_eq (diff : Str → Str → Str) (e a : Val) : (isJsonMatch diff e a).ok = pyEq a e := by
  unfold isJsonMatch; cases pyEq a e <;> rfl

/-- a success carries no details, a failure carries the diff: the text never decides. -/
theorem is_json_details (diff : Str → Str → Str) (e a : Val) :
    (isJsonMatch diff e a).details = if pyEq a e then none
      else some (c!"JSON does not match:\n" ++ diff (jsonify e) (jsonify a)) := by
  unfold isJsonMatch; cases pyEq a e <;> rfl

/-- every combination of `is_json` with `not_` / `all_of` / `any_of` / `has_entry` and the other matchers computes the
    reference semantics written with Python's operators (truth value AND exception), for every diff function. -/
theorem okJ_eq_semJ (diff : Str → Str → Str) : ∀ (j : JM) (v : Val), okJ diff j v = semJ j v
  | .isJson e, v => by simp [okJ, semJ, is_json_is_eq]
  | .lift m, v => by simp [okJ, semJ, okE_eq_sem]
  | .not j, v => by
    simp only [okJ, semJ, okJ_eq_semJ diff j v]; cases semJ j v <;> rfl
  | .both j k, v => by
    simp only [okJ, semJ, okJ_eq_semJ diff j v, okJ_eq_semJ diff k v]
  | .either j k, v => by
    simp only [okJ, semJ, okJ_eq_semJ diff j v, okJ_eq_semJ diff k v]
  | .entry p j, v => by
    simp only [okJ, semJ]
    cases getPath v p with
    | none => rfl
    | some x => exact okJ_eq_semJ diff j x

/-- the rendering is irrelevant to every outcome built on `is_json` -/
theorem okJ_diff_irrelevant (d₁ d₂ : Str → Str → Str) (j : JM) (v : Val) : okJ d₁ j v = okJ d₂ j v := by
  rw [okJ_eq_semJ, okJ_eq_semJ]

/-- `not_(is_json(e))` accepts exactly the values that are `!=` to `e` -/
theorem not_is_json_is_ne (diff : Str → Str → Str) (e a : Val) :
    okJ diff (.not (.isJson e)) a = .ok (!pyEq a e) := by
  simp [okJ, is_json_is_eq]

/-! ### equal for Python, printed differently -/

/-- `is_json(1)` accepts `1.0` and `True`; `is_json(0)` accepts `0.0` and `False`; and the other way round -/
theorem is_json_cross_type_scalars (diff : Str → Str → Str) (i : Int) (b : Bool) :
    (isJsonMatch diff (.int i) (.float (2 * i))).ok = true ∧ (isJsonMatch diff (.float (2 * i)) (.int i)).ok = true ∧
    (isJsonMatch diff (.int (if b then 1 else 0)) (.bool b)).ok = true ∧
    (isJsonMatch diff (.bool b) (.int (if b then 1 else 0))).ok = true ∧
    (isJsonMatch diff (.bool b) (.float (if b then 2 else 0))).ok = true := by
  simp only [is_json_is_eq]
  refine ⟨?_, ?_, ?_, ?_, ?_⟩ <;> cases b <;> simp [pyEq, numOf]

mutual
/-- a document of scalars and lists (no NaN) equals its copy with every bool / int turned into the equal float, at ANY depth -/
theorem floatify_eq : ∀ v : Val, jsonPlain v = true → pyEq (floatify v) v = true
  | .none, _ => by simp [floatify, pyEq]
  | .bool b, _ => by cases b <;> simp [floatify, pyEq, numOf]
  | .int i, _ => by simp [floatify, pyEq, numOf]
  | .float h, _ => by simp [floatify, pyEq, numOf]
  | .nan, h => by simp [jsonPlain] at h
  | .str s, _ => by simp [floatify, pyEq]
  | .list xs, h => by
    simp only [jsonPlain] at h
    simp only [floatify, pyEq]; exact floatifyList_eq xs h
  | .dict _ _, h => by simp [jsonPlain] at h
theorem floatifyList_eq : ∀ xs : List Val, jsonPlainList xs = true → pyEqList (floatifyList xs) xs = true
  | [], _ => by simp [floatifyList, pyEqList]
  | x :: xs, h => by
    simp only [jsonPlainList, Bool.and_eq_true] at h
    simp only [floatifyList, pyEqList, Bool.and_eq_true]
    exact ⟨floatify_eq x h.1, floatifyList_eq xs h.2⟩
end

/-- … so `is_json(v)` accepts that copy (which `json.dumps` prints differently wherever `v` holds a bool or an int),
    and `not_(is_json(v))` rejects it -/
theorem is_json_accepts_floatified (diff : Str → Str → Str) (v : Val) (h : jsonPlain v = true) :
    (isJsonMatch diff v (floatify v)).ok = true ∧ okJ diff (.not (.isJson v)) (floatify v) = .ok false := by
  simp [okJ, is_json_is_eq, floatify_eq v h]

/-- the same below a dict key: `{k: x} == {k: y}` iff `x == y` (for a key that equals itself: every key but NaN) -/
theorem is_json_dict_value (diff : Str → Str → Str) (k : DKey) (x y : Val) (hk : k.eq k = true) :
    (isJsonMatch diff (.dict [k] [x]) (.dict [k] [y])).ok = pyEq y x := by
  simp [is_json_is_eq, pyEq, dictSub, lookup, hk]

example : (isJsonMatch (fun _ _ => []) (.list [.int 1, .dict [.str c!"a"] [.bool false]])
            (.list [.float 2, .dict [.str c!"a"] [.int 0]])).ok = true := by decide
example : okJ (fun a b => a ++ b) (.both (.isJson (.int 1)) (.not (.lift .isNone))) (.bool true) = .ok true := by decide
example : okJ (fun _ _ => []) (.entry [.str c!"a"] (.isJson (.float 0))) (.dict [.str c!"a"] [.bool false]) = .ok true := by decide
example : (isJsonMatch (fun _ _ => []) (.int 1) (.int 2)).ok = false := by decide

end LccModel.C16Json

/-
  C01 (run level, model M5 `Model/Run.lean`) — every test gets exactly one terminal status, the test body
  runs at most once, a disabled test is not run.

  `runTask P insts w t run reason kept cut` is the whole observable output of one task
  (validated against the real runner by the run-level replay).  All theorems below quantify over ALL
  projects, fixture-instance states, workers, skip reasons, kept teardown lists, interrupt cuts and
  failing-lookup indices.
-/
import LccModel.Lemmas.RunTask

namespace LccModel.C01Run
open LccModel.Report LccModel.Session LccModel.Run

/-! ### Quiet programs emit no test-level and no suite-level event -/

/-- a program run inside a task working at location `L` is *quiet*: from any state in which all cursors
    are at `L` (and the failure set is in sync), it keeps that invariant and every item it emits is a user
    record or an inner event of `L` — in particular never a test start/end/skipped/disabled event and never
    a suite start/end event -/
def Quiet {α : Type} (L : Loc) (m : M α) : Prop := TrA (JT L) (PIn L (fun _ _ _ => True)) m

theorem userOk_true (L : Loc) : UserOk (PIn L (fun _ _ _ => True)) :=
  ⟨fun _ _ _ _ => trivial, fun _ _ _ _ _ => trivial, fun _ _ _ _ => trivial, fun _ _ _ _ => trivial⟩

/-- what quietness means for the emitted items -/
theorem Quiet.no_test_or_suite_event {α : Type} {L : Loc} {m : M α} (h : Quiet L m) (ts : TS) (hj : JT L ts.sess) :
    ∃ new, (exec m ts).2.out.toList = ts.out.toList ++ new ∧
      ∀ x ∈ new, testLevel x = none ∧ suiteLevel x = none := by
  obtain ⟨_, new, h2, h3⟩ := h ts hj
  refine ⟨new, h2.out, fun x hx => ⟨testLevel_pIn (h3 x hx), ?_⟩⟩
  have := h3 x hx
  cases x with
  | ev e => exact suiteLevel_inner this
  | user r u w => rfl

theorem quiet_pure {α : Type} (L : Loc) (a : α) : Quiet L (pure a : M α) := tra_pure a
theorem quiet_bind {α β : Type} {L : Loc} {m : M α} {f : α → M β} (h1 : Quiet L m) (h2 : ∀ a, Quiet L (f a)) :
    Quiet L (m >>= f) := tra_bind h1 h2
/-- **`step_fired_kinds`, lifted**: a session call that is not a bracketing call is quiet -/
theorem quiet_sop (L : Loc) (role : Nat) (op : Session.Op) (h : op.inner = true) : Quiet L (sop role op) :=
  tra_sop_inner (inner_JT L _) role op h
theorem quiet_apiAct (L : Loc) (role : Nat) (op : Session.Op) (h : op.inner = true) : Quiet L (apiAct role op) :=
  tra_apiAct (inner_JT L _) role op h
theorem quiet_execScript (L : Loc) (fuel role : Nat) (u : UnitId) (sc : Script) : Quiet L (execScript fuel role u sc) :=
  (tra_exec (inner_JT L _) (userOk_true L) fuel).2 role u sc (fun _ _ _ => trivial) (fun _ => trivial)
theorem quiet_handleException (L : Loc) (k : ExcKind) (s : Option Path) (b : Bool) : Quiet L (handleException k s b) :=
  tra_handleException (inner_JT L _) k s b
theorem quiet_setupFixture (L : Loc) (P : Proj) (svs : List SuiteView) (w : Nat) (k : InstKey) (suite : Path)
    (name : String) : Quiet L (setupFixture P svs w k suite name) :=
  tra_setupFixture (inner_JT L _) (userOk_true L) P svs w k suite name
theorem quiet_teardownFixture (L : Loc) (P : Proj) (k : InstKey) (name : String) : Quiet L (teardownFixture P k name) :=
  tra_teardownFixture (inner_JT L _) (userOk_true L) P k name
theorem quiet_runSetupFuncs (L : Loc) (P : Proj) (svs : List SuiteView) (w : Nat) (suite : Path) (loc : Loc)
    (hs : Option Path) (pairs : List (Option SetupFn × Td)) (acc : List Td) :
    Quiet L (runSetupFuncs P svs w suite loc hs pairs acc) :=
  tra_runSetupFuncs (inner_JT L _) (userOk_true L) P svs w suite loc hs pairs acc
theorem quiet_runTeardownFuncs (L : Loc) (P : Proj) (svs : List SuiteView) (loc : Loc) (hs : Option Path)
    (tds : List Td) : Quiet L (runTeardownFuncs P svs loc hs tds) :=
  tra_runTeardownFuncs (inner_JT L _) (userOk_true L) P svs loc hs tds

/-! ### Terminal pattern of a test task -/

/-- a call that fires exactly one event and touches no cursor -/
theorem tr_sop_single {J : St → Prop} (role : Nat) (op : Session.Op) (mk : Nat → Event)
    (hstep : ∀ s, ∃ s', Session.step s role op = .ok s' ∧ s'.fired = s.fired ++ [mk s.now])
    (hJ : ∀ s s', J s → Session.step s role op = .ok s' → J s') :
    Tr J J (fun l => ∃ t, l = [.ev (mk t)]) (sop role op) := by
  apply tr_sop
  · intro s s' hj hs
    obtain ⟨s2, h2, h3⟩ := hstep s
    rw [hs] at h2; injection h2 with h2; subst h2
    exact ⟨hJ s s' hj hs, _, h3, s.now, rfl⟩
  · intro s e hj hs
    obtain ⟨s2, h2, _⟩ := hstep s
    rw [hs] at h2; cases h2

theorem jt_step {L : Loc} {s s' : St} {tid : Nat} {op : Session.Op} (hop : opFor L op = true) (hj : JT L s)
    (hs : Session.step s tid op = .ok s') : JT L s' :=
  ⟨inv_step hj.1 hs, (step_loc hj.2 hop hs).1⟩

theorem tr_disableTest (path : Path) (md : Meta) (r : Option String) :
    Tr (JT (.test path)) (JT (.test path)) (fun l => ∃ t, l = [.ev (.testDisabled path md r t)])
      (sop 0 (.disableTest path md r)) :=
  tr_sop_single 0 _ (fun t => .testDisabled path md r t) (fun s => ⟨_, rfl, rfl⟩)
    (fun _ _ hj hs => jt_step (by simp [opFor]) hj hs)

theorem tr_skipTest (path : Path) (md : Meta) (r : Option String) :
    Tr (JT (.test path)) (JT (.test path)) (fun l => ∃ t, l = [.ev (.testSkipped path md r t)])
      (sop 0 (.skipTest path md r)) :=
  tr_sop_single 0 _ (fun t => .testSkipped path md r t) (fun s => ⟨_, rfl, by simp⟩)
    (fun _ _ hj hs => jt_step (by simp [opFor]) hj hs)

theorem tr_bind_pure {α β : Type} {J J' : St → Prop} {Φ : List Item → Prop} {m : M α} (b : β) (h : Tr J J' Φ m) :
    Tr J J' Φ (m >>= fun _ => (pure b : M β)) :=
  tr_weaken (tr_bind h (fun _ => tr_pure (Φ := fun l => l = []) b rfl))
    (by rintro l ⟨l1, l2, rfl, h1, rfl⟩; simpa using h1)

/-- the exact shape of a test task's output, by case -/
def TestShape (path : Path) (md : Meta) (dis : Bool) (run : Bool) (l : List Item) : Prop :=
  if dis then ∃ r t, l = [.ev (.testDisabled path md r t)]
  else if run then ∃ t0 mid t1, l = .ev (.testStart path md t0) :: (mid ++ [.ev (.testEnd path t1)]) ∧
      All (PIn (.test path) (fun _ _ _ => True)) mid
  else ∃ r t, l = [.ev (.testSkipped path md r t)]

theorem tr_testTask_shape (P : Proj) (svs : List SuiteView) (w : Nat) (path : Path) (run reason : Bool)
    (sv : SuiteView) (ts : TestSpec) :
    Tr (JT (.test path)) (JT (.test path)) (TestShape path (mdOf ts.name ts.rank) (testDisabledNow P sv ts) run)
      (testTask P svs w path run reason sv ts) := by
  unfold testTask TestShape
  cases run with
  | false =>
    simp only [Bool.not_false, if_true, testSkip]
    cases hd : testDisabledNow P sv ts with
    | true =>
      simp only [if_true]
      exact tr_weaken (tr_bind_pure _ (tr_disableTest _ _ _)) (fun l ⟨t, h⟩ => ⟨_, t, h⟩)
    | false =>
      simp only [Bool.false_eq_true, if_false]
      exact tr_weaken (tr_bind_pure _ (tr_skipTest _ _ _)) (fun l ⟨t, h⟩ => ⟨_, t, h⟩)
  | true =>
    simp only [Bool.not_true, Bool.false_eq_true, if_false]
    cases hd : testDisabledNow P sv ts with
    | true =>
      simp only [if_true]
      exact tr_weaken (tr_bind_pure _ (tr_disableTest _ _ _)) (fun l ⟨t, h⟩ => ⟨_, t, h⟩)
    | false =>
      simp only [Bool.false_eq_true, if_false, if_true]
      have hb := tra_testBody (inner_JC (.test path) (fun _ _ _ => True)) (userOk_true _) P svs w path ts
        (fun _ _ _ => trivial) (fun _ => trivial)
      have := tr_testRun P svs w path sv ts (inner_JC (.test path) (fun _ _ _ => True)) (userOk_true _)
        (fun e he => he) hb
      intro s hj
      obtain ⟨h1, new, h2, t0, a, b, c, t1, rfl, pa, pb, pc⟩ := this s hj
      exact ⟨h1.toJT, _, h2, t0, a ++ b ++ c, t1, by simp, (pa.append pb).append pc⟩

/-- **One terminal status per test** — the test-level events of a test task are exactly
    `[disabled p]` (the test is disabled and `--force-disabled` is off: whether run or skipped),
    `[start p, end p]` (it is run), `[skipped p]` (it is skipped), with `p` the task's own test: never two
    terminal statuses, never a start without its end, never an event about another test. -/
theorem test_terminal_pattern (P : Proj) (insts : Insts) (w : Nat) (t : TaskId) (run reason : Bool) (kept : List Td)
    (cut : Option Nat) (hk : t.kind = .test)
    (sv : SuiteView) (hsv : (allSuites P).find? (fun sv => sv.path == t.path.dropLast) = some sv)
    (ts : TestSpec) (hts : sv.spec.tests.find? (fun x => x.name == t.path.getLast?.getD "") = some ts) :
    (runTask P insts w t run reason kept cut).items.filterMap testLevel =
      if testDisabledNow P sv ts then [.disabled t.path]
      else if run then [.start t.path, .end_ t.path] else [.skipped t.path] := by
  have h := tr_testTask_shape P (allSuites P) w t.path run reason sv ts
  rw [← taskProgram_test (P := P) (w := w) (run := run) (reason := reason) (kept := kept) hk hsv hts] at h
  obtain ⟨hs, _, _⟩ := runTask_of_tr P insts w t run reason kept cut h (jt_init _)
  unfold TestShape at hs
  split at hs
  · obtain ⟨r, tm, hl⟩ := hs; rw [hl]; simp [*, testLevel]
  · split at hs
    · obtain ⟨t0, mid, t1, hl, hmid⟩ := hs
      rw [hl]
      simp [*, testLevel, List.filterMap_append, filterMap_testLevel_pIn hmid]
    · obtain ⟨r, tm, hl⟩ := hs; rw [hl]; simp [*, testLevel]

/-- a test task emits no suite start/end event -/
theorem test_task_no_suite_event (P : Proj) (insts : Insts) (w : Nat) (t : TaskId) (run reason : Bool) (kept : List Td)
    (cut : Option Nat) (hk : t.kind = .test) :
    (runTask P insts w t run reason kept cut).items.filterMap suiteLevel = [] := by
  have h := tra_taskProgram_own P (allSuites P) w t run reason kept (.test t.path) (by simp [taskLoc, hk])
  obtain ⟨hs, _, _⟩ := runTask_of_tr P insts w t run reason kept cut h (jt_init _)
  apply List.filterMap_eq_nil_iff.mpr
  intro x hx
  have := hs x hx
  cases x with
  | user r u w => rfl
  | ev e => cases e <;> simp [POwn, ownEv, innerEv, termEv] at this <;> rfl

/-! ### Suite begin / end tasks and setup / teardown phase tasks -/

/-- a suite-beginning task (run or skipped) emits exactly the `suiteStart` event of its suite -/
theorem suite_begin_items (P : Proj) (insts : Insts) (w : Nat) (t : TaskId) (run reason : Bool) (kept : List Td)
    (cut : Option Nat) (hk : t.kind = .begin)
    (sv : SuiteView) (hsv : (allSuites P).find? (fun sv => sv.path == t.path) = some sv) :
    ∃ tm, (runTask P insts w t run reason kept cut).items =
      [.ev (.suiteStart t.path (mdOf sv.spec.name sv.spec.rank) tm)] := by
  have h : Tr (fun _ => True) (fun _ => True) (fun l => ∃ tm, l = [.ev (.suiteStart t.path (mdOf sv.spec.name sv.spec.rank) tm)])
      (taskProgram P (allSuites P) w t run reason kept) := by
    unfold taskProgram
    simp only [hk, hsv]
    exact tr_bind_pure _ (tr_sop_single 0 _ (fun tm => .suiteStart t.path (mdOf sv.spec.name sv.spec.rank) tm)
      (fun s => ⟨_, rfl, rfl⟩) (fun _ _ _ _ => trivial))
  exact (runTask_of_tr P insts w t run reason kept cut h trivial).1

/-- a suite-ending task (run or skipped) emits exactly the `suiteEnd` event of its suite -/
theorem suite_end_items (P : Proj) (insts : Insts) (w : Nat) (t : TaskId) (run reason : Bool) (kept : List Td)
    (cut : Option Nat) (hk : t.kind = .end_) :
    ∃ tm, (runTask P insts w t run reason kept cut).items = [.ev (.suiteEnd t.path tm)] := by
  have h : Tr (fun _ => True) (fun _ => True) (fun l => ∃ tm, l = [.ev (.suiteEnd t.path tm)])
      (taskProgram P (allSuites P) w t run reason kept) := by
    unfold taskProgram
    simp only [hk]
    exact tr_bind_pure _ (tr_sop_single 0 _ (fun tm => .suiteEnd t.path tm)
      (fun s => ⟨_, rfl, rfl⟩) (fun _ _ _ _ => trivial))
  exact (runTask_of_tr P insts w t run reason kept cut h trivial).1

/-- the setup / teardown phase tasks (session setup, session teardown, suite setup, suite teardown) emit
    no test-level event and no suite start/end event -/
theorem phase_task_no_test_or_suite_event (P : Proj) (insts : Insts) (w : Nat) (t : TaskId) (run reason : Bool)
    (kept : List Td) (cut : Option Nat)
    (hk : t.kind = .sessSetup ∨ t.kind = .sessTeardown ∨ t.kind = .init ∨ t.kind = .teardown) :
    ∀ x ∈ (runTask P insts w t run reason kept cut).items, testLevel x = none ∧ suiteLevel x = none := by
  have key : ∀ L, taskLoc t = some L → (∀ p, L ≠ .test p) →
      ∀ x ∈ (runTask P insts w t run reason kept cut).items, testLevel x = none ∧ suiteLevel x = none := by
    intro L hL hnt x hx
    have h := tra_taskProgram_own P (allSuites P) w t run reason kept L hL
    obtain ⟨hs, _, _⟩ := runTask_of_tr P insts w t run reason kept cut h (jt_init _)
    have := hs x hx
    cases x with
    | user r u w => exact ⟨rfl, rfl⟩
    | ev e =>
      cases e <;> simp [POwn, ownEv, innerEv, termEv] at this <;> (try exact ⟨rfl, rfl⟩) <;>
        exact absurd this (hnt _)
  rcases hk with hk | hk | hk | hk
  · exact key .sessionSetup (by simp [taskLoc, hk]) (by intro p h; cases h)
  · exact key .sessionTeardown (by simp [taskLoc, hk]) (by intro p h; cases h)
  · exact key (.suiteSetup t.path) (by simp [taskLoc, hk]) (by intro p h; cases h)
  · exact key (.suiteTeardown t.path) (by simp [taskLoc, hk]) (by intro p h; cases h)

/-! ### The test body runs at most once; a skipped or disabled test is not run -/

/-- the record "the body of test `p` has been entered" (by any thread role) -/
def isBodyEnter (p : Path) : Item → Bool
  | .user _ (.body q) w => q == p && w == "enter"
  | _ => false

def NoBE (p : Path) (x : Item) : Prop := isBodyEnter p x = false
/-- at most `n` body entries -/
def Cnt (p : Path) (n : Nat) (l : List Item) : Prop := (l.filter (isBodyEnter p)).length ≤ n

theorem cnt_of_all {p : Path} {l : List Item} (h : All (NoBE p) l) : Cnt p 0 l := by
  unfold Cnt
  rw [List.filter_eq_nil_iff.mpr (fun x hx => by have := h x hx; unfold NoBE at this; simp [this])]
  simp

theorem cnt_tra {α : Type} {J : St → Prop} {p : Path} {m : M α} (h : TrA J (NoBE p) m) : Tr J J (Cnt p 0) m :=
  tr_weaken h (fun _ hl => cnt_of_all hl)

theorem cnt_bind {α β : Type} {J J' J'' : St → Prop} {p : Path} {m : M α} {f : α → M β} (a b : Nat) {n : Nat}
    (hn : a + b ≤ n) (h1 : Tr J J' (Cnt p a) m) (h2 : ∀ x, Tr J' J'' (Cnt p b) (f x)) : Tr J J'' (Cnt p n) (m >>= f) := by
  refine tr_weaken (tr_bind h1 h2) ?_
  rintro l ⟨l1, l2, rfl, p1, p2⟩
  unfold Cnt at *
  rw [List.filter_append, List.length_append]
  omega

theorem cnt_mono {α : Type} {J J' : St → Prop} {p : Path} {m : M α} {a n : Nat} (hn : a ≤ n)
    (h : Tr J J' (Cnt p a) m) : Tr J J' (Cnt p n) m :=
  tr_weaken h (fun _ hl => Nat.le_trans hl hn)

theorem inner_noBE (L : Loc) (p : Path) : Inner (JC L) (NoBE p) :=
  (inner_JC L (fun _ _ _ => True)).mono (fun _ _ => rfl)

theorem userOk_noBE (p : Path) : UserOk (NoBE p) := ⟨fun _ _ _ _ => rfl, fun _ _ _ _ _ => rfl, fun _ _ _ _ => rfl, fun _ _ _ _ => rfl⟩

theorem uActs_noBE (p : Path) : UActs (NoBE p) (.body p) := by
  intro r w hw
  simp [NoBE, isBodyEnter, hw]

/-- the body unit: one "enter" record, then the acts (which never emit another one) -/
theorem cnt_runUnit_body (L : Loc) (p : Path) (sc : Script) : Tr (JC L) (JC L) (Cnt p 1) (runUnit (.body p) sc) := by
  have hF : runUnit (.body p) sc = execScript (99999 + 1) 0 (.body p) sc := rfl
  rw [hF, execScript_succ]
  refine cnt_bind 1 0 (Nat.le_refl _) ?_ (fun _ => cnt_tra ((tra_exec (inner_noBE L p) (userOk_noBE p) 99999).1 _ _ _ _ (uActs_noBE p)))
  intro ts hj
  refine ⟨hj, [.user 0 (.body p) "enter"], ⟨?_, ?_⟩, ?_⟩
  · show (ts.out.push _).toList = _
    simp
  · show ts.sess.fired = _
    simp [evOf]
  · simp [Cnt, isBodyEnter]

theorem cnt_testBody (P : Proj) (svs : List SuiteView) (w : Nat) (path : Path) (ts : TestSpec) :
    Tr (JC (.test path)) (JC (.test path)) (Cnt path 1) (testBody P svs w path ts) := by
  have hI := inner_noBE (.test path) path
  have hU := userOk_noBE path
  have hexc : ∀ e s b, Tr (JC (.test path)) (JC (.test path)) (Cnt path 1) (handleException e s b) :=
    fun e s b => cnt_mono (Nat.zero_le _) (cnt_tra (tra_handleException hI e s b))
  have hpure : Tr (JC (.test path)) (JC (.test path)) (Cnt path 1) (pure () : M Unit) :=
    cnt_mono (Nat.zero_le _) (cnt_tra (tra_pure _))
  unfold testBody
  refine cnt_bind 0 1 (Nat.le_refl _) (cnt_tra (tra_isOk _)) (fun b => ?_)
  split
  · refine cnt_bind 0 1 (Nat.le_refl _) (cnt_tra (tra_lookupAll hI hU _ _ _ _ _ _)) (fun r => ?_)
    split
    · exact hexc _ _ _
    · refine cnt_bind 0 1 (Nat.le_refl _) (cnt_tra (tra_isOk _)) (fun b2 => ?_)
      split
      · refine cnt_bind 0 1 (Nat.le_refl _) (cnt_tra (tra_sop_inner hI _ _ rfl)) (fun _ => ?_)
        refine cnt_bind 1 0 (Nat.le_refl _) (cnt_runUnit_body _ _ _) (fun r2 => ?_)
        split
        · exact cnt_tra (tra_handleException hI _ _ _)
        · exact cnt_tra (tra_pure _)
      · exact hpure
  · exact hpure

/-- **The body of a test runs at most once** (whatever the fixtures, hooks, threads, exceptions and
    interrupts do): the task's output contains at most one "enter" record of the test's body. -/
theorem body_at_most_once (P : Proj) (insts : Insts) (w : Nat) (t : TaskId) (run reason : Bool) (kept : List Td)
    (cut : Option Nat) (hk : t.kind = .test)
    (sv : SuiteView) (hsv : (allSuites P).find? (fun sv => sv.path == t.path.dropLast) = some sv)
    (ts : TestSpec) (hts : sv.spec.tests.find? (fun x => x.name == t.path.getLast?.getD "") = some ts) :
    ((runTask P insts w t run reason kept cut).items.filter (isBodyEnter t.path)).length ≤ 1 := by
  have h : Tr (JT (.test t.path)) (JT (.test t.path)) (Cnt t.path 1) (testTask P (allSuites P) w t.path run reason sv ts) := by
    by_cases hrun : run = true ∧ testDisabledNow P sv ts = false
    · have h1 := tr_testRun (P := NoBE t.path) P (allSuites P) w t.path sv ts (inner_noBE _ _) (userOk_noBE _)
        (fun _ _ => rfl) (cnt_testBody P (allSuites P) w t.path ts)
      have : testTask P (allSuites P) w t.path run reason sv ts = testRun P (allSuites P) w t.path sv ts := by
        simp [testTask, hrun.1, hrun.2]
      rw [this]
      intro s hj
      obtain ⟨h1, new, h2, t0, a, b, c, t1, rfl, pa, pb, pc⟩ := h1 s hj
      refine ⟨h1.toJT, _, h2, ?_⟩
      have ha := cnt_of_all pa
      have hc := cnt_of_all pc
      unfold Cnt at *
      simp only [List.filter_cons, List.filter_append, isBodyEnter] at *
      simp
      omega
    · -- skipped or disabled: the shape theorem gives a single test-level event
      have h1 := tr_testTask_shape P (allSuites P) w t.path run reason sv ts
      refine tr_weaken h1 ?_
      intro l hl
      unfold TestShape at hl
      split at hl
      · obtain ⟨r, tm, rfl⟩ := hl; simp [Cnt, isBodyEnter]
      · split at hl
        · rename_i h1 h2; exact absurd ⟨h2, by simpa using h1⟩ hrun
        · obtain ⟨r, tm, rfl⟩ := hl; simp [Cnt, isBodyEnter]
  rw [← taskProgram_test (P := P) (w := w) (run := run) (reason := reason) (kept := kept) hk hsv hts] at h
  exact (runTask_of_tr P insts w t run reason kept cut h (jt_init _)).1

/-- **A skipped task and a disabled test do not run anything**: the output is the single skipped/disabled
    event — no user record at all (no body, no fixture, no hook), hence in particular no body entry. -/
theorem skipped_or_disabled_runs_nothing (P : Proj) (insts : Insts) (w : Nat) (t : TaskId) (run reason : Bool)
    (kept : List Td) (cut : Option Nat) (hk : t.kind = .test)
    (sv : SuiteView) (hsv : (allSuites P).find? (fun sv => sv.path == t.path.dropLast) = some sv)
    (ts : TestSpec) (hts : sv.spec.tests.find? (fun x => x.name == t.path.getLast?.getD "") = some ts)
    (h : run = false ∨ testDisabledNow P sv ts = true) :
    (∃ r tm, (runTask P insts w t run reason kept cut).items =
        [.ev (if testDisabledNow P sv ts then .testDisabled t.path (mdOf ts.name ts.rank) r tm
              else .testSkipped t.path (mdOf ts.name ts.rank) r tm)]) ∧
    (runTask P insts w t run reason kept cut).items.filter (isBodyEnter t.path) = [] := by
  have h1 := tr_testTask_shape P (allSuites P) w t.path run reason sv ts
  rw [← taskProgram_test (P := P) (w := w) (run := run) (reason := reason) (kept := kept) hk hsv hts] at h1
  obtain ⟨hs, _, _⟩ := runTask_of_tr P insts w t run reason kept cut h1 (jt_init _)
  unfold TestShape at hs
  split at hs
  · rename_i hd
    obtain ⟨r, tm, hl⟩ := hs
    exact ⟨⟨r, tm, by rw [hl]; simp [hd]⟩, by rw [hl]; simp [isBodyEnter]⟩
  · rename_i hd
    split at hs
    · rename_i hr; rcases h with h | h
      · rw [h] at hr; cases hr
      · exact absurd h hd
    · obtain ⟨r, tm, hl⟩ := hs
      exact ⟨⟨r, tm, by rw [hl]; simp [hd]⟩, by rw [hl]; simp [isBodyEnter]⟩

/-! ### Non-vacuity: the theorems instantiated on the concrete project `Sample.PA` (premises hold by `rfl`) -/

open Sample in
/-- the enabled test `s.t`, run with an interrupt after 3 API acts: started and ended, once -/
example : (runTask PA Insts.empty 0 ⟨.test, ["s", "t"]⟩ true false [] (some 3)).items.filterMap testLevel =
    [.start ["s", "t"], .end_ ["s", "t"]] := by
  have := test_terminal_pattern PA Insts.empty 0 ⟨.test, ["s", "t"]⟩ true false [] (some 3) rfl svA hsvA tA htA
  simpa [testDisabledNow, tA, svA] using this

open Sample in
/-- the same test skipped: exactly one `skipped` -/
example : (runTask PA Insts.empty 0 ⟨.test, ["s", "t"]⟩ false true [] none).items.filterMap testLevel =
    [.skipped ["s", "t"]] := by
  have := test_terminal_pattern PA Insts.empty 0 ⟨.test, ["s", "t"]⟩ false true [] none rfl svA hsvA tA htA
  simpa [testDisabledNow, tA, svA] using this

open Sample in
/-- the disabled test `s.u`, "run": exactly one `disabled`, and nothing is executed -/
example : (runTask PA Insts.empty 0 ⟨.test, ["s", "u"]⟩ true false [] none).items.filterMap testLevel =
    [.disabled ["s", "u"]] := by
  have := test_terminal_pattern PA Insts.empty 0 ⟨.test, ["s", "u"]⟩ true false [] none rfl svA hsvB tB htB
  simpa [testDisabledNow, tB, svA, PA] using this

open Sample in
example : (runTask PA Insts.empty 0 ⟨.test, ["s", "u"]⟩ true false [] none).items.filter (isBodyEnter ["s", "u"]) = [] :=
  (skipped_or_disabled_runs_nothing PA Insts.empty 0 ⟨.test, ["s", "u"]⟩ true false [] none rfl svA hsvB tB htB
    (Or.inr rfl)).2

open Sample in
example : ∃ tm, (runTask PA Insts.empty 0 ⟨.begin, ["s"]⟩ true false [] none).items =
    [.ev (.suiteStart ["s"] (mdOf "s" 0) tm)] :=
  suite_begin_items PA Insts.empty 0 ⟨.begin, ["s"]⟩ true false [] none rfl svA hsvS

/-- the count bound is tight in the model: a body that is entered is counted -/
example : ([Item.user 0 (.body ["s", "t"]) "enter", .user 0 (.body ["s", "t"]) "exit"].filter (isBodyEnter ["s", "t"])).length = 1 := by
  decide

/-! ### Attachment blocks (`with lcc.prepare_attachment(..):` around further acts of the same thread)

  The act `attachBlock inner` of the run model: entry is a public-API call (`apiAct`: the interrupt check), the
  inner script runs as the child unit `blk u i` on the SAME thread, normal exit fires the attachment event
  (`attachEnd`, no interrupt check), an exception leaves the block without event (`attachAbort`) and leaves the unit
  around it too.  Every theorem above is stated for all scripts and therefore covers blocks nested to any depth,
  blocks in `lcc.Thread`s and threads started inside blocks (`Lemmas/RunTask.tra_exec` has the case).  What is specific
  to blocks: entering one never depends on other blocks — the name is taken under the lock and the lock is RELEASED
  before the body runs. -/

/-- **Entering a block is always possible**: in every session state — any number of blocks open, by any threads,
    the calling thread included (nested blocks) — `attachBegin` is accepted, opens one more block, fires nothing
    and leaves every cursor alone.  (A run that waits there — the attachment lock kept during the body — is not a
    behaviour of the model: the acceptor then stops at that record and the C01 oracle reports the hang.) -/
theorem attach_block_entry_always_enabled (s : St) (tid : Nat) (f d : String) (img : Bool) :
    ∃ s', Session.step s tid (.attachBegin f d img) = .ok s' ∧ s'.prepared.length = s.prepared.length + 1 ∧
      s'.fired = s.fired ∧ s'.cursors = s.cursors :=
  ⟨_, rfl, by simp, rfl, rfl⟩

open Sample in
/-- the test `b.w` of `Sample.PBlocks` (its body nests blocks, saves attachments inside them, changes the step
    inside, starts a thread inside and finally raises `AbortSuite` from inside two blocks; the `setup_test` hook of its
    suite has a block too) is started and ended exactly once, its body entered once — the general theorems, instantiated -/
example : (runTask PBlocks Insts.empty 0 ⟨.test, ["b", "w"]⟩ true false [] none).items.filterMap testLevel =
      [.start ["b", "w"], .end_ ["b", "w"]] ∧
    ((runTask PBlocks Insts.empty 0 ⟨.test, ["b", "w"]⟩ true false [] none).items.filter (isBodyEnter ["b", "w"])).length ≤ 1 := by
  have hsv : (allSuites PBlocks).find? (fun sv => sv.path == (["b", "w"] : Path).dropLast) =
      some ⟨["b"], sBlocks, false⟩ := by rfl
  have ht : (⟨["b"], sBlocks, false⟩ : SuiteView).spec.tests.find? (fun x => x.name == (["b", "w"] : Path).getLast?.getD "") = some tBlocks := by rfl
  refine ⟨?_, body_at_most_once PBlocks Insts.empty 0 ⟨.test, ["b", "w"]⟩ true false [] none rfl _ hsv _ ht⟩
  have := test_terminal_pattern PBlocks Insts.empty 0 ⟨.test, ["b", "w"]⟩ true false [] none rfl _ hsv _ ht
  simpa [testDisabledNow, tBlocks, sBlocks, PBlocks] using this

open Sample in
/-- … and what the model computes for it: eight attachment events (two in the `setup_test` hook, six in the first
    block of the body: the blocks' own events carry the step that is current when the block is LEFT), none for the
    two blocks left by the exception; the suite is aborted; no model error -/
example :
    ((runTask PBlocks Insts.empty 0 ⟨.test, ["b", "w"]⟩ true false [] none).items.filter
        (fun x => match x with | .ev (.attachment ..) => true | _ => false)).length = 8 ∧
    (runTask PBlocks Insts.empty 0 ⟨.test, ["b", "w"]⟩ true false [] none).res = .failure ∧
    (runTask PBlocks Insts.empty 0 ⟨.test, ["b", "w"]⟩ true false [] none).eff.abortedSuites = [some ["b"]] ∧
    (runTask PBlocks Insts.empty 0 ⟨.test, ["b", "w"]⟩ true false [] none).err = none := by
  decide +kernel

end LccModel.C01Run

/-
  C08 — abort, stop-on-failure and Ctrl-C stop new work, keep teardowns and the report.

  (1) The decision `RunContext.is_task_to_be_skipped` takes, stated outright on the facts it reads
      (`RunAccept.skipReason`; the table obligation `Generated/C08TablesCheck.lean`, regenerated on every
      run by executing the real method on all 2^7 combinations, ties it to the code).
  (2) Scheduler-level guarantees that hold for EVERY task graph, worker count and interleaving, with a
      keyboard interrupt at any moment (`skip_all_tasks` as repaired by fix D11: the remaining tasks are
      released for skipping in dependency order): the run still terminates, every task — teardown tasks
      included — is still handled exactly once, a task that had not been handed to the pool when the interrupt
      arrived is only ever skipped, tasks are still released only when their dependencies are completed (and
      as soon as they are), and NO task — in particular no suite / session teardown task and no suite-end
      task — starts before every task it depends on has finished: teardowns never run under a test that is
      still in flight, interrupted run or not.
-/
import LccModel.Model.RunAccept
import LccModel.Lemmas.SchedInterrupt
import LccModel.Lemmas.RunFlags
import LccModel.Lemmas.RunBody
import LccModel.Props.C01
import LccModel.Props.C03

namespace LccModel.C08
open LccModel.RunAccept LccModel.Sched

/-- AbortAllTests, a pending backend failure and a keyboard interrupt make the context skip EVERY task
    that has not started (tests and setups; teardown-like tasks run their teardowns even when skipped). -/
theorem global_abort_skips_everything (interrupted pending abortAll suiteAborted stop failed isTest : Bool)
    (h : interrupted = true ∨ pending = true ∨ abortAll = true) :
    (skipReason interrupted pending abortAll suiteAborted stop failed isTest).isSome = true := by
  cases interrupted <;> cases pending <;> cases abortAll <;> cases suiteAborted <;> cases stop <;> cases failed <;>
    cases isTest <;> simp_all [skipReason]

/-- AbortSuite skips the not-yet-started TESTS of that suite — and only tests (sub-suites' tests belong to
    another suite: `suiteAborted` is evaluated on the test's own parent suite). -/
theorem abort_suite_skips_its_tests (stop failed : Bool) :
    skipReason false false false true stop failed true = some .abortedSuite ∧
    ((stop && failed) = false → skipReason false false false true stop failed false = none) := by
  constructor
  · rfl
  · cases stop <;> cases failed <;> simp [skipReason]

/-- --stop-on-failure skips everything once some result is not passed (any failure recorded), and nothing
    before that. -/
theorem stop_on_failure_iff (isTest : Bool) (failed : Bool) :
    (skipReason false false false false true failed isTest).isSome = failed := by
  unfold skipReason; cases failed <;> cases isTest <;> rfl

/-- With no flag set nothing is skipped by the context. -/
theorem no_flag_no_skip (stop isTest suiteAborted : Bool) (h : (isTest && suiteAborted) = false) :
    skipReason false false false suiteAborted stop false isTest = none := by
  cases stop <;> cases isTest <;> cases suiteAborted <;> simp_all [skipReason]

/-- A task queued by the interrupt path is never run, only skipped. -/
theorem interrupt_forced_tasks_only_skipped {Tid : Type} [DecidableEq Tid] (g : Graph Tid) (n : Nat)
    (s : State Tid) (hr : Reachable g n s) (t : Tid) (m : Mode) (hf : s.forced t = true) (hm : s.mode t = some m) :
    m = .skip :=
  (inv_reachable hr).forcedSkip t m hf hm

/-- A task that was still waiting in `remaining_tasks` when the abort flag was set is never run: whatever
    happens afterwards (any continuation `ls` of the run), the only decision ever recorded for it is `skip`. -/
theorem interrupt_waiting_tasks_only_skipped {Tid : Type} [DecidableEq Tid] (g : Graph Tid) (n : Nat)
    (s : State Tid) (hr : Reachable g n s) (ha : s.aborted = true) (t : Tid) (hrem : s.phase t = .remaining)
    (ls : List (Label Tid)) (s' : State Tid) (h : run g n s ls = some s') (m : Mode) (hm : s'.mode t = some m) :
    m = .skip :=
  remaining_at_abort_only_skipped hr ha t hrem ls h m hm

/-- After an interrupt tasks are still released in dependency order: in EVERY reachable state (aborted or
    not) a task that has left `remaining_tasks` — queued, running, done or completed — has all its dependencies
    completed; and the release is eager: in an aborted state a task of the graph that is still waiting has a
    dependency that is not completed yet (nothing runnable is left behind). -/
theorem interrupt_respects_dependencies {Tid : Type} [DecidableEq Tid] (g : Graph Tid) (n : Nat)
    (s : State Tid) (hr : Reachable g n s) (t : Tid) :
    (s.phase t ≠ .remaining → ∀ d ∈ g.deps t, s.phase d = .completed) ∧
    (s.aborted = true → t ∈ g.tasks → s.phase t = .remaining → ∃ d ∈ g.deps t, s.phase d ≠ .completed) := by
  refine ⟨(inv_reachable hr).deps t, fun ha ht hrem => ?_⟩
  apply Classical.byContradiction
  intro hno
  have hall : ∀ d ∈ g.deps t, s.phase d = .completed := by
    intro d hd
    apply Classical.byContradiction
    intro hne; exact hno ⟨d, hd, hne⟩
  have := aborted_nothing_runnable hr ha t ht
  rw [runnable_true_iff.mpr ⟨hrem, hall⟩] at this
  cases this

/-- **Ordering under interrupt** (the statement finding D11 refuted before the repair): for any task `t` and
    any dependency `d` of `t`, in ANY reachable state — interrupted runs included, force-skipped tasks
    included — if `t` has started then `d` finished before (ghost clock). -/
theorem interrupt_no_task_starts_before_its_dependencies_finished {Tid : Type} [DecidableEq Tid] (g : Graph Tid)
    (n : Nat) (s : State Tid) (hr : Reachable g n s) (t d : Tid) (hd : d ∈ g.deps t)
    (i : Nat) (hi : s.startAt t = some i) : ∃ j, s.finishAt d = some j ∧ j < i :=
  ((inv_reachable hr).order t i hi d hd).2

/-- … instantiated for the tasks the finding was about, for every valid project and every reachable state — in
    particular after a keyboard interrupt (no hypothesis excludes `s.aborted = true`): the suite teardown task
    (which tears down the suite-scoped fixtures and calls `teardown_suite`, also when it is skipped) starts only
    after every test of the suite has finished, and the session teardown task only after every top-level suite
    has ended. -/
theorem interrupt_teardowns_wait_for_tests {P : Run.Proj} (hv : TaskGraph.Valid P) (n : Nat)
    (s : State Run.TaskId) (hr : Reachable (TaskGraph.graphOf P) n s) :
    (∀ sv : Run.SuiteView, sv ∈ Run.allSuites P → Run.hasInit P sv = true →
       ∀ i, s.startAt ⟨.teardown, sv.path⟩ = some i →
       ∀ t : Run.TestSpec, t ∈ sv.spec.tests → ∃ j, s.finishAt ⟨.test, sv.path ++ [t.name]⟩ = some j ∧ j < i) ∧
    (Run.hasSessSetup P = true → ∀ i, s.startAt ⟨.sessTeardown, []⟩ = some i →
       ∀ top ∈ P.suites, ∃ j, s.finishAt ⟨.end_, [top.name]⟩ = some j ∧ j < i) :=
  ⟨fun _ hsv hinit i hi => (C03.suite_teardown_after_setup_and_tests hv hsv hinit n s hr i hi).2,
   fun hs i hi => C03.session_teardown_after_all_suites hv hs n s hr i hi⟩

/-- The interrupted run still terminates and still handles every task (teardown tasks included) exactly
    once: deadlock freedom and the exactly-once bookkeeping hold in every reachable state, aborted or not. -/
theorem interrupted_run_terminates_and_handles_all {Tid : Type} [DecidableEq Tid] (g : Graph Tid) (wf : g.WF)
    (n : Nat) (hn : 0 < n) (s : State Tid) (hr : Reachable g n s) :
    (¬ Final g s → ∃ l, (step g n s l).isSome = true) ∧
    (Final g s → ∀ t ∈ g.tasks, s.starts t = 1 ∧ ∃ r, s.result t = some r) := by
  refine ⟨fun hnf => no_deadlock g wf n hn s hr hnf, fun hf t ht => ?_⟩
  have hinv := inv_reachable hr
  refine ⟨?_, ?_⟩
  · rw [hinv.starts t, hf t ht]; simp [Phase.rank]
  · obtain ⟨r, _, hr', _, _⟩ := hinv.resultSome t (Or.inr (hf t ht)); exact ⟨r, hr'⟩

/-! Non-vacuity: an interrupt in the middle of the sample graph of C01 (task 2 is running, task 1 queued by the
    normal loop, 3 and 4 — which depend on 1 and 2 — still waiting); the run completes, 3 and 4 are skipped. -/
def interruptedSample : List (Label Nat) :=
  [.start 0 false, .finish 0 .success, .receive 0, .start 2 false, .interrupt, .finish 2 .success,
   .start 1 true, .finish 1 .skipped, .receive 1, .receive 2, .start 3 false, .finish 3 .skipped,
   .start 4 false, .finish 4 .skipped, .receive 3, .receive 4]

example : ((run C01.sampleGraph 2 (init C01.sampleGraph 2) interruptedSample).map
    (fun s => (finalB C01.sampleGraph s, s.mode 3, s.mode 4))) = some (true, some .skip, some .skip) := by decide

/-- `interrupt_forced_tasks_only_skipped`, `interrupt_waiting_tasks_only_skipped`: right after the interrupt tasks 3
    and 4 are still waiting (hypothesis of the second theorem), nothing is forced yet; at the end they are forced -/
example : ((run C01.sampleGraph 2 (init C01.sampleGraph 2) (interruptedSample.take 5)).map
    (fun s => (s.aborted, s.phase 3, s.phase 4, s.forced 3))) = some (true, .remaining, .remaining, false) := by decide
example : ((run C01.sampleGraph 2 (init C01.sampleGraph 2) interruptedSample).map
    (fun s => (s.forced 1, s.forced 3, s.forced 4))) = some (false, true, true) := by decide

/-- `interrupt_respects_dependencies`: after the interrupt, when 1 is completed but 2 only done, 3 and 4 are still
    waiting (dependency 2 not completed); receiving 2 releases both -/
example : ((run C01.sampleGraph 2 (init C01.sampleGraph 2) (interruptedSample.take 9)).map
    (fun s => (s.phase 1, s.phase 2, s.phase 3, s.phase 4))) = some (.completed, .done, .remaining, .remaining) := by decide
example : ((run C01.sampleGraph 2 (init C01.sampleGraph 2) (interruptedSample.take 10)).map
    (fun s => (s.phase 2, s.phase 3, s.phase 4))) = some (.completed, .queued, .queued) := by decide

/-- `interrupt_no_task_starts_before_its_dependencies_finished`: 3 and 4 (force-skipped) start at 10 and 12, after
    1 (finished at 7) and 2 (finished at 5) -/
example : ((run C01.sampleGraph 2 (init C01.sampleGraph 2) interruptedSample).map
    (fun s => (s.finishAt 1, s.finishAt 2, s.startAt 3, s.startAt 4))) = some (some 7, some 5, some 10, some 12) := by decide

/-- `interrupt_teardowns_wait_for_tests`: the interrupted run `C03.interruptedRun` of the sample project is such a
    state (aborted, teardown of `a` started at 22 after its tests finished at 17 and 20) -/
example : ((run (TaskGraph.graphOf C01Graph.sampleProj) 2 (init (TaskGraph.graphOf C01Graph.sampleProj) 2) C03.interruptedRun).map
    (fun s => (s.aborted, s.finishAt ⟨.test, ["a", "t1"]⟩, s.finishAt ⟨.test, ["a", "t2"]⟩, s.startAt ⟨.teardown, ["a"]⟩)))
    = some (true, some 17, some 20, some 22) := by decide +kernel

/-! ### (3) Which exceptions abort what: classes, subclasses, side threads

  `RunContext.handle_exception` classifies with `isinstance`: an instance of a project-defined SUBCLASS of
  `AbortSuite` / `AbortAllTests` (`class EnvironmentDown(lcc.AbortAllTests)`) is an `AbortSuite` / `AbortAllTests`.
  `Run.ExcClass` lists the classes user code can raise, `ExcClass.kind` is the classification; the table
  `handleExcTable` (obligation `Generated/C08TablesCheck.handle_exception_table_agrees`, re-extracted on every run by
  executing the real method on an instance of each class) ties both to the code. -/

open LccModel.Run in
/-- **What handling an exception of class `c` does to the abort flags** (raised in the test's own thread, in a
    body / hook / fixture of suite `suite`): `AbortAllTests` AND its subclasses set the session flag,
    `AbortSuite` AND its subclasses add the suite, everything else (plain exceptions, `AbortTest` and its
    subclasses) leaves both alone. -/
theorem abort_class_effects (c : ExcClass) (suite : Report.Path) (ts : TS) :
    (exec (handleException c.kind (some suite) true) ts).2.abortAll =
      (ts.abortAll || (c == .abortAll || c == .subAbortAll)) ∧
    (exec (handleException c.kind (some suite) true) ts).2.abortedSuites =
      ts.abortedSuites ++ (if c == .abortSuite || c == .subAbortSuite then [some suite] else []) := by
  have h := handleException_flags c.kind (some suite) true ts
  cases c <;> exact ⟨h.1.trans (by rfl), h.2.trans (by rfl)⟩

open LccModel.Run in
/-- … hence after an `AbortAllTests` — or an instance of ANY subclass of it — has been handled, the context
    skips every task that has not started, whatever the other facts are -/
theorem abort_all_and_subclasses_skip_everything (c : ExcClass) (hc : c = .abortAll ∨ c = .subAbortAll)
    (suite : Report.Path) (ts : TS) (interrupted pending suiteAborted stop failed isTest : Bool) :
    (skipReason interrupted pending (exec (handleException c.kind (some suite) true) ts).2.abortAll suiteAborted stop
      failed isTest).isSome = true := by
  have h := (abort_class_effects c suite ts).1
  refine global_abort_skips_everything _ _ _ _ _ _ _ (Or.inr (Or.inr ?_))
  rw [h]
  rcases hc with rfl | rfl <;> simp

open LccModel.Run in
/-- … and after an `AbortSuite` — or an instance of ANY subclass of it — raised in suite `suite`, the tests of
    that suite that have not started are skipped (the flag `suiteAborted` the decision reads is membership of the
    test's own parent suite in `_aborted_suites`) -/
theorem abort_suite_and_subclasses_skip_the_suite (c : ExcClass) (hc : c = .abortSuite ∨ c = .subAbortSuite)
    (suite : Report.Path) (ts : TS) (stop failed : Bool) :
    skipReason false false false
      ((exec (handleException c.kind (some suite) true) ts).2.abortedSuites.contains (some suite)) stop failed true
      = some .abortedSuite := by
  have h := (abort_class_effects c suite ts).2
  rw [h]
  rcases hc with rfl | rfl <;> simp [skipReason]

open LccModel.Run in
/-- **User code itself never sets an abort flag** — whatever a unit of user code does (any script: logs, steps,
    attachment blocks, raises of any class, `lcc.Thread`s whose targets raise `AbortTest` / `AbortSuite` /
    `AbortAllTests` or a subclass), the flags are untouched when the unit ends; only the runner's
    `handle_exception`, called for the exception that leaves the unit in the test's own thread, sets them.  In
    particular an Abort* that ends an `lcc.Thread` aborts nothing: `Thread.run` logs it (the location is failed,
    C02) and the thread ends. -/
theorem user_code_never_sets_abort_flags (u : UnitId) (sc : Script) (ts : TS) :
    (exec (runUnit u sc) ts).2.abortAll = ts.abortAll ∧ (exec (runUnit u sc) ts).2.abortedSuites = ts.abortedSuites :=
  keeps_runUnit u sc ts

open LccModel.Run in
/-- **An Abort* raised by the setup of a PER-THREAD fixture is handled like one raised by the body.**  A fixture
    declared `per_thread=True` is evaluated at its first use by a worker, i.e. inside the test task while the
    arguments of the test are prepared (`TestTask._prepare_test_args` → `lookupAll` → `getFixtureResult` runs the
    fixture's setup script).  For every project, test, worker and state in which the test is still successful: if
    that evaluation is left by an exception of class `c`, the test body is not entered and the abort flags after the
    test's body phase are exactly those `handle_exception` sets for `c` on the flags the task STARTED with (the
    evaluation itself — user code — touches none): `AbortAllTests` and its subclasses abort the session,
    `AbortSuite` and its subclasses the test's suite — so the tests that have not started are skipped
    (`abort_all_and_subclasses_skip_everything`, `abort_suite_and_subclasses_skip_the_suite`). -/
theorem abort_in_per_thread_fixture_setup_is_handled (P : Proj) (svs : List SuiteView) (w : Nat) (path : Report.Path)
    (tsp : TestSpec) (ts s1 : TS) (c : ExcClass)
    (hok : Session.isSuccessful ts.sess (.test path) = true)
    (hl : exec (lookupAll P svs w (.test path) path.dropLast tsp.fixtures) ts = (some c.kind, s1)) :
    exec (testBody P svs w path tsp) ts = exec (handleException c.kind (some path.dropLast) true) s1 ∧
    (exec (testBody P svs w path tsp) ts).2.abortAll = (ts.abortAll || (c == .abortAll || c == .subAbortAll)) ∧
    (exec (testBody P svs w path tsp) ts).2.abortedSuites =
      ts.abortedSuites ++ (if c == .abortSuite || c == .subAbortSuite then [some path.dropLast] else []) := by
  have hb : exec (testBody P svs w path tsp) ts = exec (handleException c.kind (some path.dropLast) true) s1 := by
    rw [testBody_exec, hok]; simp only; rw [hl]
  have hk := keeps_lookupAll P svs w (.test path) path.dropLast tsp.fixtures ts
  rw [hl] at hk
  have he := abort_class_effects c path.dropLast s1
  refine ⟨hb, ?_, ?_⟩
  · rw [hb, he.1, hk.1]
  · rw [hb, he.2, hk.2]

open LccModel.Run LccModel.Run.FlagSample in
/-- non-vacuity / the concrete behaviour (project `FlagSample.P`): test `s.t`'s only failing act is `raise` of an
    instance of a SUBCLASS of `AbortAllTests` inside an `lcc.Thread`: the task FAILS (error log of `Thread.run`),
    no flag is set; test `s.u` raises the same in the test's own thread, from inside two nested
    `with prepare_attachment` blocks: failed, and the session flag is set -/
example :
    (o1.res = .failure ∧ o1.eff.abortAll = false ∧ o1.eff.abortedSuites = [] ∧ o1.err = none) ∧
    (o2.res = .failure ∧ o2.eff.abortAll = true ∧ o2.eff.abortedSuites = [] ∧ o2.err = none) := by
  decide

end LccModel.C08

/-
  C08 — abort, stop-on-failure and Ctrl-C stop new work, keep teardowns and the report.

  (1) The decision `RunContext.is_task_to_be_skipped` takes, stated outright on the facts it reads
      (`RunAccept.skipReason`; the table obligation `Generated/C08TablesCheck.lean`, regenerated on every
      run by executing the real method on all 2^7 combinations, ties it to the code).
  (2) Scheduler-level guarantees that hold for EVERY task graph, worker count and interleaving, with a
      keyboard interrupt at any moment: the run still terminates, every task — teardown tasks included — is
      still handled exactly once, tasks queued by the interrupt are only ever skipped, and nothing is left
      undispatched.
  Which teardowns run after which consumers under an interrupt is NOT claimed: with ≥ 2 workers the real
  `skip_all_tasks` ignores dependencies (known finding D11, `…/interrupt-with-threads-tears-down-under-running-tests`).
-/
import LccModel.Model.RunAccept
import LccModel.Lemmas.SchedProgress
import LccModel.Props.C01

namespace LccModel.C08
open LccModel.RunAccept LccModel.Sched

/-- AbortAllTests, a pending backend failure and a keyboard interrupt make the context skip EVERY task
    that has not started (tests and setups; teardown-like tasks run their teardowns even when skipped). -/
theorem global_abort_skips_everything (interrupted pending abortAll suiteAborted stop failed isTest : Bool)
    (h : interrupted = true ∨ pending = true ∨ abortAll = true) :
    (skipReason interrupted pending abortAll suiteAborted stop failed isTest).isSome = true := by
  cases interrupted <;> cases pending <;> cases abortAll <;> cases suiteAborted <;> cases stop <;> cases failed <;>
    cases isTest <;> simp_all [skipReason]

/-- AbortSuite skips the not-yet-started TESTS of that suite — and only tests (sub-suites' tests belong to
    another suite: `suiteAborted` is evaluated on the test's own parent suite). -/
theorem abort_suite_skips_its_tests (stop failed : Bool) :
    skipReason false false false true stop failed true = some .abortedSuite ∧
    ((stop && failed) = false → skipReason false false false true stop failed false = none) := by
  constructor
  · rfl
  · cases stop <;> cases failed <;> simp [skipReason]

/-- --stop-on-failure skips everything once some result is not passed (any failure recorded), and nothing
    before that. -/
theorem stop_on_failure_iff (isTest : Bool) (failed : Bool) :
    (skipReason false false false false true failed isTest).isSome = failed := by
  unfold skipReason; cases failed <;> cases isTest <;> rfl

/-- With no flag set nothing is skipped by the context. -/
theorem no_flag_no_skip (stop isTest suiteAborted : Bool) (h : (isTest && suiteAborted) = false) :
    skipReason false false false suiteAborted stop false isTest = none := by
  cases stop <;> cases isTest <;> cases suiteAborted <;> simp_all [skipReason]

/-- A task queued by the interrupt path is never run, only skipped. -/
theorem interrupt_forced_tasks_only_skipped {Tid : Type} [DecidableEq Tid] (g : Graph Tid) (n : Nat)
    (s : State Tid) (hr : Reachable g n s) (t : Tid) (m : Mode) (hf : s.forced t = true) (hm : s.mode t = some m) :
    m = .skip :=
  (inv_reachable hr).forcedSkip t m hf hm

/-- After the interrupt nothing stays undispatched: every remaining task has been handed to the pool. -/
theorem interrupt_dispatches_everything {Tid : Type} [DecidableEq Tid] (g : Graph Tid) (n : Nat)
    (s : State Tid) (hr : Reachable g n s) (ha : s.aborted = true) (t : Tid) : s.phase t ≠ .remaining :=
  (inv_reachable hr).abortedNoRem ha t

/-- The interrupted run still terminates and still handles every task (teardown tasks included) exactly
    once: deadlock freedom and the exactly-once bookkeeping hold in every reachable state, aborted or not. -/
theorem interrupted_run_terminates_and_handles_all {Tid : Type} [DecidableEq Tid] (g : Graph Tid) (wf : g.WF)
    (n : Nat) (hn : 0 < n) (s : State Tid) (hr : Reachable g n s) :
    (¬ Final g s → ∃ l, (step g n s l).isSome = true) ∧
    (Final g s → ∀ t ∈ g.tasks, s.starts t = 1 ∧ ∃ r, s.result t = some r) := by
  refine ⟨fun hnf => no_deadlock g wf n hn s hr hnf, fun hf t ht => ?_⟩
  have hinv := inv_reachable hr
  refine ⟨?_, ?_⟩
  · rw [hinv.starts t, hf t ht]; simp [Phase.rank]
  · obtain ⟨r, _, hr', _, _⟩ := hinv.resultSome t (Or.inr (hf t ht)); exact ⟨r, hr'⟩

/-! Non-vacuity: an interrupt in the middle of the sample graph of C01; the run completes. -/
example : ((run C01.sampleGraph 2 (init C01.sampleGraph 2)
    [.start 0 false, .finish 0 .success, .receive 0, .start 2 false, .interrupt, .finish 2 .success,
     .start 1 true, .finish 1 .skipped, .start 3 false, .finish 3 .skipped, .start 4 false, .finish 4 .skipped,
     .receive 1, .receive 2, .receive 3, .receive 4]).map (fun s => (finalB C01.sampleGraph s, s.mode 3, s.mode 4)))
    = some (true, some .skip, some .skip) := by decide

end LccModel.C08

/-
  C14 — "… rejects, before anything executes, exactly the structurally invalid projects: … and violations of the
  metadata policy."  This file: ONE `MetadataPolicy` / `Project` object that is configured, used for a check
  (`check_test_compliance`, `check_suite_compliance`, `check_suites_compliance`, `PreparedProject.create`),
  RECONFIGURED (`add_tag_rule`, `add_property_rule`, `disallow_unknown_*`: new rules, redefined rules) and used again.
  "The metadata policy" of the property is the policy as it is when the project is prepared: every check applies the
  rules as they are at that moment.

  Property theorems only (model: `Model/PolicySeq.lean`, lemmas: `Lemmas/PolicySeq.lean`); correspondence stream
  `C14.reconfig` (harness/props/_c14seq.py).
-/
import LccModel.Lemmas.PolicySeq
import LccModel.Model.Prepare

namespace LccModel.C14R
open LccModel.Policy

/-- **The k-th check applies the rules as they are at that moment.**  Whatever the steps `pre` made before with the
    same policy object (configuration calls AND checks), the verdict of the next check equals the verdict of a policy
    configured from the same starting point (a fresh `MetadataPolicy()` when `P = empty`) by the configuration calls of
    `pre` alone. -/
theorem check_verdict_current_rules (P : Policy) (pre : List Step) (ns : List Node) (post : List Step) :
    (run P (pre ++ .check ns :: post))[(checks pre).length]? = some (checkNodes (confAll P (confs pre)) ns) :=
  run_check_at P pre ns post

/-- … for a fresh policy object. -/
theorem check_verdict_fresh (pre : List Step) (ns : List Node) (post : List Step) :
    (run empty (pre ++ .check ns :: post))[(checks pre).length]? = some (checkNodes (confAll empty (confs pre)) ns) :=
  run_check_at empty pre ns post

/-- **Earlier checks are invisible**: two histories with the same configuration calls (one of them with checks in
    between, on whatever nodes, accepted or rejected; the other possibly with none) give the next check the same verdict;
    what follows (`post`, `post'`) does not matter either. -/
theorem earlier_checks_invisible (P : Policy) (pre pre' : List Step) (h : confs pre = confs pre')
    (ns : List Node) (post post' : List Step) :
    (run P (pre ++ .check ns :: post))[(checks pre).length]? =
      (run P (pre' ++ .check ns :: post'))[(checks pre').length]? := by
  rw [run_check_at, run_check_at, h]

/-- One verdict per check, in order. -/
theorem one_verdict_per_check (P : Policy) (steps : List Step) : (run P steps).length = (checks steps).length :=
  run_length P steps

/-- Whatever the configuration calls (rules added, redefined, calls refused with an AssertionError), the policy stays a
    pair of dicts (distinct rule names): the completeness theorems `C14.policy_node_ok_iff` / `policy_ok_iff`, stated for
    such policies, apply to the policy object at every moment of its life. -/
theorem configured_policy_wf (ops : List Op) : WF (confAll empty ops) :=
  confAll_wf empty ops empty_wf

/-- **Completeness at every moment**: the k-th check of one policy object accepts iff every visited node complies with
    the rules as they are at that moment (declarative reading `Compliant`, see `C14.policy_node_ok_iff`). -/
theorem check_accepts_iff_compliant_now (pre : List Step) (ns : List Node) (post : List Step) :
    (run empty (pre ++ .check ns :: post))[(checks pre).length]? = some (.ok ()) ↔
      ∀ n ∈ ns, Compliant (confAll empty (confs pre)) n := by
  rw [run_check_at]
  simp only [Option.some.injEq]
  unfold checkNodes
  rw [LccModel.Loops.forE_ok_iff]
  have wf := configured_policy_wf (confs pre)
  constructor
  · intro h n hn; exact (checkNode_ok_iff _ wf n).mp (h n hn)
  · intro h n hn; exact (checkNode_ok_iff _ wf n).mpr (h n hn)

/-- **The last declaration of a tag rule is the current one** (`add_tag_rule(name | [names…], on_test, on_suite)`):
    after the call, the rule of every named tag is the one just declared, whatever was declared for it before … -/
theorem tag_rule_redefined (P : Policy) (names : List String) (a b : Option Bool) (t s : Bool)
    (h : ruleApplication a b = some (t, s)) (k : String) (hk : k ∈ names) :
    findTag (configure P (.tagRule names a b)) k = some ⟨k, t, s⟩ := by
  simp only [configure, h, findTag]
  rw [find_foldl_upsert_tags]
  simp [hk]

/-- … and the rules of the other tags are untouched. -/
theorem tag_rule_others_kept (P : Policy) (names : List String) (a b : Option Bool) (k : String) (hk : k ∉ names) :
    findTag (configure P (.tagRule names a b)) k = findTag P k := by
  simp only [configure, findTag]
  cases ruleApplication a b with
  | none => rfl
  | some ts =>
    simp only []
    rw [find_foldl_upsert_tags]
    simp [hk]

/-- Same for a property rule: the last declaration is the current one. -/
theorem prop_rule_redefined (P : Policy) (n : String) (vs : List String) (a b : Option Bool) (req t s : Bool)
    (h : ruleApplication a b = some (t, s)) :
    findProp (configure P (.propRule n vs a b req)) n = some ⟨n, vs, t, s, req⟩ := by
  simp only [configure, h, findProp]
  exact find_upsert_same PropRule.name P.props ⟨n, vs, t, s, req⟩

/-- A configuration call refused with the AssertionError "either on_test or on_suite need to be True" leaves the
    policy as it was. -/
theorem refused_configuration_changes_nothing (P : Policy) (o : Op) (h : o.raises = true) : configure P o = P := by
  cases o with
  | propRule n vs a b req =>
    simp only [Op.raises, Option.isNone_iff_eq_none] at h
    simp [configure, h]
  | tagRule names a b =>
    simp only [Op.raises, Bool.and_eq_true, Option.isNone_iff_eq_none] at h
    simp [configure, h.2]
  | noUnknownProps => simp [Op.raises] at h
  | noUnknownTags => simp [Op.raises] at h

/-- **A tag rule declared or redefined AFTER the policy object has been used is applied by the next check**: if the
    rule just declared for tag `k` does not apply to the type of a visited node that carries `k`, the check rejects —
    whatever the history `pre` of the policy object (earlier rules for `k`, earlier checks). -/
theorem forbidden_tag_rejected_after_reconfiguration (pre : List Step) (names : List String) (a b : Option Bool)
    (t s : Bool) (h : ruleApplication a b = some (t, s)) (k : String) (hk : k ∈ names)
    (ns : List Node) (n : Node) (hn : n ∈ ns) (hc : k ∈ n.tags) (hty : (⟨k, t, s⟩ : TagRule).on n.type = false)
    (post : List Step) :
    (run empty (pre ++ .conf (.tagRule names a b) :: .check ns :: post))[(checks pre).length]? ≠ some (.ok ()) := by
  intro hok
  have e : pre ++ .conf (.tagRule names a b) :: .check ns :: post =
      (pre ++ [.conf (.tagRule names a b)]) ++ .check ns :: post := by simp
  have hl : (checks pre).length = (checks (pre ++ [Step.conf (.tagRule names a b)])).length := by
    simp [checks_append, checks]
  rw [e, hl] at hok
  have hcomp := (check_accepts_iff_compliant_now _ ns post).mp hok n hn
  have h3 := hcomp.2.2 k hc
  rw [confs_append, confAll_append] at h3
  simp only [confs, confAll, List.foldl_cons, List.foldl_nil] at h3
  rw [tag_rule_redefined _ names a b t s h k hk] at h3
  simp only [] at h3
  rw [hty] at h3
  exact Bool.noConfusion h3

/-- **Through `PreparedProject.create`**: preparing a project whose policy object has the history `pre` (configuration
    calls and earlier checks / preparations) rejects with the policy error that the check of the current rules gives on the
    suites going to be run — the verdict the sequence semantics `run` assigns to a check at that moment — before the
    dependency and fixture checks. -/
theorem prepare_applies_current_rules (pre : List Step) (p : Prepare.Project)
    (hp : p.policy = confAll empty (confs pre)) (e : Err)
    (h : (run empty (pre ++ [.check (Prepare.nodesL p.sched)]))[(checks pre).length]? = some (.error e)) :
    Prepare.prepare p = .error (.policy e) := by
  rw [run_check_at, ← hp] at h
  simp only [Option.some.injEq] at h
  unfold Prepare.prepare
  rw [h]

/-! ### Non-vacuity: an implementation that works the tag rules out once and forgets to invalidate violates the above -/

-- `exSteps` (Model/PolicySeq.lean): a test `s.t` tagged `slow`; first check with no rule; then
-- `add_tag_rule("slow", on_suite=True)`; second check
example : (run empty exSteps).map accepted = [true, false] := by decide
example : run empty exSteps = [.ok (), .error (.tagForbidden "s.t" "slow")] := by decide
/-- the caching implementation accepts the second time: it contradicts `check_verdict_fresh` -/
example : (runCached ⟨empty, none⟩ exSteps).map accepted = [true, true] := by decide
example : (runCached ⟨empty, none⟩ exSteps).map accepted ≠ (run empty exSteps).map accepted := by decide
/-- redefinition under `disallow_unknown_tags`: tests-only rule, check, suites-only rule, check -/
example : (run empty [.conf (.tagRule ["slow"] (some true) none), .conf .noUnknownTags,
                      .check [⟨.test, "s.t", [], ["slow"]⟩],
                      .conf (.tagRule ["slow"] none (some true)),
                      .check [⟨.test, "s.t", [], ["slow"]⟩]]).map accepted = [true, false] := by decide
/-- a rule that is relaxed afterwards: rejected, then accepted -/
example : (run empty [.conf (.tagRule ["slow"] none (some true)), .check [⟨.test, "s.t", [], ["slow"]⟩],
                      .conf (.tagRule ["slow", "fast"] (some true) (some true)),
                      .check [⟨.test, "s.t", [], ["slow"]⟩]]).map accepted = [false, true] := by decide
/-- a redefined rule keeps its place in the dict (the FIRST missing required property is reported) -/
example : run empty [.conf (.propRule "a" [] none none true), .conf (.propRule "b" [] none none true),
                     .conf (.propRule "a" ["x"] none none true), .check [⟨.test, "s.t", [], []⟩]]
            = [.error (.propMissing "s.t" "a")] := by decide
/-- a refused call stores nothing -/
example : (Op.tagRule ["slow"] (some false) none).raises = true := by decide
example : ruleApplication none none = some (true, false) := by decide

end LccModel.C14R

/-
  C03, hook-declaration part — "Every fixture or SETUP HOOK whose setup completed without recording a failure is torn down
  exactly once, after its last consumer has finished …".

  The run-level theorems (`Props/C03.lean`, `C03Run.lean`, `C01Graph.lean`) take the hooks of a suite as GIVEN (`SuiteSpec.teardownSuite`,
  `…teardownTest`: an `Option Script`).  This file covers the step before — how the loader decides which hooks a suite HAS — for
  every SHAPE a hook can be declared in (ordinary method, `@staticmethod`, `@classmethod`, lambda, plain function or bound method
  assigned in `__init__`, `functools.partial`, callable object, imported function, non-callable value) and every PLACE (class body,
  base class, mixin, `__init__`, suite module): model `Model/Hooks.lean` over the attribute layers of `Model/SuiteObject.lean`.

    1. `registered_iff`: a hook name is a hook of the loaded suite iff SOME declaration gives the suite object an attribute of
       that name — shape and place never matter (`registered_iff_attribute`, `registers_every_shape`, `loadHooks_ignores_shapes`);
    2. `teardown_registered_with_setup`: setup and teardown counterparts are registered alike;
    3. the lowering `declarations → suite object → loaded suite (`Expand.headOf`) → run-level suite (`Expand.toSpec`)` hands the
       run model a `teardownSuite` / `teardownTest` hook whenever one is declared, so the teardown is OFFERED to the setup loops
       (`initPairs`, `testPairs`) whose behaviour `C03Run.runSetupFuncs_spec` / `init_task_kept` / `testRun_eq` /
       `runTeardownFuncs_eq` describe: kept iff the setups before it completed, then run exactly once, in reverse order.
  The decision is pinned to the real code by the regenerated table `Generated/C03TablesCheck.lean: hook_shape_table_agrees`
  (152 rows: shape x place x hook name, complete by `hook_shape_table_complete`).
-/
import LccModel.Model.Hooks
import LccModel.Model.Expand
import LccModel.Model.Run

namespace LccModel.C03Hooks
open LccModel.SuiteObj LccModel.Hooks LccModel.Run

/-! ### 1. `hasattr` on the attribute layers -/

theorem layerGet_isSome (l : Layer) (a : String) : (layerGet l a).isSome = l.any (fun kv => kv.1 == a) := by
  unfold layerGet
  induction l with
  | nil => rfl
  | cons x rest ih =>
    simp only [List.find?_cons, List.any_cons]
    cases h : (x.1 == a) with
    | true => simp
    | false => simpa using ih

theorem classLookup_isSome (ls : List Layer) (a : String) : (classLookup ls a).isSome = ls.any (fun l => (layerGet l a).isSome) := by
  induction ls with
  | nil => rfl
  | cons l rest ih =>
    unfold classLookup
    cases h : layerGet l a with
    | none => simp [h, ih]
    | some k => simp [h]

/-- **`hasattr(obj, a)`** for EVERY object: the name is a key of the instance dict or of the dict of some class of the MRO
    (a property is found in a class dict as well) -/
theorem lookup_isSome (o : Obj) (a : String) :
    (lookup o a).isSome = ((layerGet o.inst a).isSome || (classLookup o.mro a).isSome) := by
  unfold lookup
  split
  · rename_i h
    have h' : classLookup o.mro a = some .property := by
      unfold isProperty at h; exact eq_of_beq h
    simp [h']
  · cases h1 : layerGet o.inst a <;> simp

/-- `hasattr` as the loader's `hookParams` answers it -/
theorem hookParams_isSome (o : Obj) (h : String) : (hookParams o h).isSome = (lookup o h).isSome := by
  unfold hookParams
  cases hl : lookup o h with
  | none => rfl
  | some k => cases k <;> rfl

theorem layerOf_any (ds : List HookDecl) (p : Place) (a : String) :
    (layerOf ds p).any (fun kv => kv.1 == a) = ds.any (fun d => d.place == p && d.name == a) := by
  unfold layerOf
  induction ds with
  | nil => rfl
  | cons d rest ih =>
    simp only [List.filter_cons, List.any_cons]
    cases hp : (d.place == p) with
    | true => simp [List.any_cons, ih]
    | false => simp [ih]

/-- the suite object built from the declarations has an attribute `a` iff some declaration is named `a` -/
theorem objOf_hasattr (ds : List HookDecl) (a : String) : (lookup (objOf ds) a).isSome = ds.any (fun d => d.name == a) := by
  rw [lookup_isSome, layerGet_isSome, classLookup_isSome]
  simp only [objOf, List.any_append, List.any_cons, List.any_nil, Bool.or_false, layerGet_isSome, layerOf_any]
  induction ds with
  | nil => rfl
  | cons d rest ih =>
    simp only [List.any_cons]
    rw [← ih]
    cases hn : (d.name == a) <;> cases hp : d.place <;> simp
    all_goals (
      cases h1 : rest.any (fun d => d.place == Place.init && d.name == a) <;>
      cases h2 : rest.any (fun d => d.place == Place.module && d.name == a) <;>
      cases h3 : rest.any (fun d => d.place == Place.body && d.name == a) <;>
      cases h4 : rest.any (fun d => d.place == Place.base && d.name == a) <;>
      cases h5 : rest.any (fun d => d.place == Place.mixin && d.name == a) <;> simp_all)

/-! ### 2. Which hooks the loaded suite has -/

/-- **registered iff attribute** — the loader's criterion: `h` is a hook of the loaded suite iff it is one of `SUITE_HOOKS` and
    `hasattr(suite_obj, h)` -/
theorem registered_iff_attribute (ds : List HookDecl) (h : String) :
    h ∈ loadHooks ds ↔ h ∈ hookNames ∧ (lookup (objOf ds) h).isSome = true := by
  unfold loadHooks
  rw [List.mem_filter, hookParams_isSome]

/-- **a declared hook is registered — for every shape and place**: `h` is a hook of the loaded suite iff it is one of
    `SUITE_HOOKS` and SOME declaration of the suite is named `h`; neither the shape (method, staticmethod, classmethod, lambda,
    function, bound method, partial, callable object, alias, non-callable value) nor the place (class body, base class, mixin,
    `__init__`, module) of that declaration is asked for. -/
theorem registered_iff (ds : List HookDecl) (h : String) :
    h ∈ loadHooks ds ↔ h ∈ hookNames ∧ ∃ d ∈ ds, d.name = h := by
  rw [registered_iff_attribute, objOf_hasattr]
  constructor
  · rintro ⟨h1, h2⟩
    obtain ⟨d, hd, e⟩ := List.any_eq_true.mp h2
    exact ⟨h1, d, hd, eq_of_beq e⟩
  · rintro ⟨h1, d, hd, e⟩
    exact ⟨h1, List.any_eq_true.mpr ⟨d, hd, by simp [e]⟩⟩

/-- every single declaration registers its hook: `registers` is constantly true on the hook names -/
theorem registers_every_shape (s : Shape) (p : Place) (h : String) (hh : h ∈ hookNames) : registers s p h = true := by
  unfold registers
  rw [List.contains_iff_mem]
  exact (registered_iff _ h).mpr ⟨hh, _, List.mem_singleton.mpr rfl, rfl⟩

/-- a name that is not one of `SUITE_HOOKS` is never a hook, whatever is declared under it -/
theorem only_suite_hooks (ds : List HookDecl) (h : String) (hm : h ∈ loadHooks ds) : h ∈ hookNames :=
  ((registered_iff ds h).mp hm).1

/-- re-declaring the hooks in other shapes (same names, same places) does not change the hooks of the loaded suite -/
theorem loadHooks_ignores_shapes (ds : List HookDecl) (f : HookDecl → Shape) :
    loadHooks (ds.map (fun d => { d with shape := f d })) = loadHooks ds := by
  unfold loadHooks
  apply List.filter_congr
  intro h _
  rw [hookParams_isSome, hookParams_isSome, objOf_hasattr, objOf_hasattr, List.any_map]
  rfl

/-- … nor does moving them to other places -/
theorem loadHooks_ignores_places (ds : List HookDecl) (f : HookDecl → Place) :
    loadHooks (ds.map (fun d => { d with place := f d })) = loadHooks ds := by
  unfold loadHooks
  apply List.filter_congr
  intro h _
  rw [hookParams_isSome, hookParams_isSome, objOf_hasattr, objOf_hasattr, List.any_map]
  rfl

/-- **setup and teardown counterparts are registered alike**: when both are declared — each in any shape, at any place — both
    are hooks of the loaded suite (so a completed `setup_suite` / `setup_test` always has its teardown registered). -/
theorem teardown_registered_with_setup (ds : List HookDecl) (su td : String) (hsu : su ∈ hookNames) (htd : td ∈ hookNames)
    (d₁ d₂ : HookDecl) (h₁ : d₁ ∈ ds) (h₂ : d₂ ∈ ds) (e₁ : d₁.name = su) (e₂ : d₂.name = td) :
    su ∈ loadHooks ds ∧ td ∈ loadHooks ds :=
  ⟨(registered_iff ds su).mpr ⟨hsu, d₁, h₁, e₁⟩, (registered_iff ds td).mpr ⟨htd, d₂, h₂, e₂⟩⟩

/-- the declaration `getattr` finds exists exactly when the hook is registered -/
theorem effective_isSome (ds : List HookDecl) (h : String) (hh : h ∈ hookNames) :
    (effective ds h).isSome = true ↔ h ∈ loadHooks ds := by
  rw [registered_iff]
  unfold effective
  constructor
  · intro he
    refine ⟨hh, ?_⟩
    cases hx : (Place.all.filterMap (fun p => ds.find? (fun d => d.place == p && d.name == h))) with
    | nil => rw [hx] at he; cases he
    | cons d rest =>
      have hm : d ∈ Place.all.filterMap (fun p => ds.find? (fun d => d.place == p && d.name == h)) := by rw [hx]; exact List.mem_cons_self ..
      obtain ⟨p, _, hf⟩ := List.mem_filterMap.mp hm
      have := List.find?_some hf
      simp only [Bool.and_eq_true] at this
      exact ⟨d, List.mem_of_find?_eq_some hf, eq_of_beq this.2⟩
  · rintro ⟨_, d, hd, e⟩
    have hp : d.place ∈ Place.all := by cases d.place <;> decide
    have hs : (ds.find? (fun x => x.place == d.place && x.name == h)).isSome = true := by
      rw [List.find?_isSome]; exact ⟨d, hd, by simp [e]⟩
    obtain ⟨x, hx⟩ := Option.isSome_iff_exists.mp hs
    have hm : x ∈ Place.all.filterMap (fun p => ds.find? (fun d => d.place == p && d.name == h)) :=
      List.mem_filterMap.mpr ⟨d.place, hp, hx⟩
    cases hl : (Place.all.filterMap (fun p => ds.find? (fun d => d.place == p && d.name == h))) with
    | nil => rw [hl] at hm; cases hm
    | cons _ _ => rfl

/-! ### 3. The lowering to the run model: a declared teardown hook is offered to the setup / teardown loops -/

/-- the loaded suite (`Expand.headOf`) has exactly the hooks `loadHooks` lists -/
theorem loaded_head_hooks (attr : String) (rank : Nat) (ds : List HookDecl) :
    let hd := Expand.headOf (clsOf attr rank ds)
    (hd.setupSuite.isSome = true ↔ "setup_suite" ∈ loadHooks ds) ∧ (hd.teardownSuite = true ↔ "teardown_suite" ∈ loadHooks ds) ∧
    (hd.setupTest = true ↔ "setup_test" ∈ loadHooks ds) ∧ (hd.teardownTest = true ↔ "teardown_test" ∈ loadHooks ds) := by
  simp only [Expand.headOf, clsOf, registered_iff_attribute, hookParams_isSome]
  refine ⟨?_, ?_, ?_, ?_⟩ <;> simp [hookNames]

/-- **the run-level suite has a `teardown_suite` / `teardown_test` hook whenever one is declared** — in any shape, at any place -/
theorem lowered_has_declared_teardowns (attr : String) (rank : Nat) (ds : List HookDecl) (ts : List Expand.Test) (subs : List Expand.Suite) :
    let spec := Expand.toSpec (.mk (Expand.headOf (clsOf attr rank ds)) ts subs)
    ((∃ d ∈ ds, d.name = "teardown_suite") → spec.teardownSuite.isSome = true) ∧
    ((∃ d ∈ ds, d.name = "teardown_test") → spec.teardownTest.isSome = true) ∧
    ((∃ d ∈ ds, d.name = "setup_suite") → spec.setupSuite.isSome = true) ∧
    ((∃ d ∈ ds, d.name = "setup_test") → spec.setupTest.isSome = true) := by
  obtain ⟨h1, h2, h3, h4⟩ := loaded_head_hooks attr rank ds
  simp only [Expand.toSpec, SuiteSpec.teardownSuite, SuiteSpec.teardownTest, SuiteSpec.setupSuite, SuiteSpec.setupTest, Expand.hookScript]
  refine ⟨?_, ?_, ?_, ?_⟩
  · intro hd
    have := h2.mpr ((registered_iff ds _).mpr ⟨by decide, hd⟩)
    simp [this]
  · intro hd
    have := h4.mpr ((registered_iff ds _).mpr ⟨by decide, hd⟩)
    simp [this]
  · intro hd
    have := h1.mpr ((registered_iff ds _).mpr ⟨by decide, hd⟩)
    simpa using this
  · intro hd
    have := h3.mpr ((registered_iff ds _).mpr ⟨by decide, hd⟩)
    simp [this]

/-- **a declared `teardown_suite` is offered to the suite-initialization loop**: the pair list of the suite's setup task
    (`Run.initPairs`) ends with `(setup_suite wrapper | None, teardown_suite)`.  `C03Run.init_task_kept` then says the teardown is
    KEPT iff every setup before it — the suite's fixtures, the injection, `setup_suite` itself — completed, and
    `C03Run.teardownProgram_eq` / `runTeardownFuncs_eq` that every kept teardown runs exactly once, in reverse order;
    `C03.suite_teardown_after_setup_and_tests` that the teardown task starts after the setup task and all the suite's tests. -/
theorem declared_teardown_suite_is_offered (P : Proj) (sv : SuiteView) (path : Report.Path) (attr : String) (rank : Nat)
    (ds : List HookDecl) (ts : List Expand.Test) (subs : List Expand.Suite)
    (hsv : sv.spec = Expand.toSpec (.mk (Expand.headOf (clsOf attr rank ds)) ts subs)) (hd : ∃ d ∈ ds, d.name = "teardown_suite") :
    ∃ su, (initPairs P sv path).getLast? = some (su, Td.teardownSuite path) := by
  have h := (lowered_has_declared_teardowns attr rank ds ts subs).1 hd
  rw [← hsv] at h
  unfold initPairs
  simp only [h, Bool.or_true, if_true]
  exact ⟨sv.spec.setupSuite.map (fun x => SetupFn.setupSuite x.fst x.snd), by simp [List.getLast?_append]⟩

/-- **a declared `teardown_test` is offered to the test-setup loop**: the pair list of every test of the suite (`Run.testPairs`)
    starts with `(setup_test wrapper | None, teardown_test for THIS test)`; `C03Run.testRun_eq` says the teardown phase runs exactly
    the teardowns the setup phase kept, `runSetupFuncs_spec` which ones are kept. -/
theorem declared_teardown_test_is_offered (P : Proj) (sv : SuiteView) (t : TestSpec) (path : Report.Path) (attr : String) (rank : Nat)
    (ds : List HookDecl) (ts : List Expand.Test) (subs : List Expand.Suite)
    (hsv : sv.spec = Expand.toSpec (.mk (Expand.headOf (clsOf attr rank ds)) ts subs)) (hd : ∃ d ∈ ds, d.name = "teardown_test") :
    ∃ su, (testPairs P sv t path).head? = some (su, Td.teardownTest path.dropLast path) := by
  have h := (lowered_has_declared_teardowns attr rank ds ts subs).2.1 hd
  rw [← hsv] at h
  unfold testPairs
  simp only [h, if_true]
  exact ⟨_, rfl⟩

/-! ### Non-vacuity: the shapes of the seeded change and their neighbours -/

/-- `def setup_suite(self)` + `@staticmethod def teardown_suite()` + `def setup_test(self, test)` + `@staticmethod teardown_test` -/
example : loadHooks [⟨"setup_suite", .method, .body, ["database"]⟩, ⟨"teardown_suite", .staticmethod, .body, []⟩,
                     ⟨"setup_test", .method, .body, ["test"]⟩, ⟨"teardown_test", .staticmethod, .body, ["test", "status"]⟩]
    = ["setup_suite", "teardown_suite", "setup_test", "teardown_test"] := by decide +kernel
/-- `self.teardown_suite = release_resources` in `__init__` -/
example : loadHooks [⟨"setup_suite", .method, .body, []⟩, ⟨"teardown_suite", .function, .init, []⟩] = ["setup_suite", "teardown_suite"] := by
  decide +kernel
/-- a partial / a callable object in a suite module; a callable object inherited from a mixin -/
example : loadHooks [⟨"teardown_suite", .partialObj, .module, []⟩, ⟨"teardown_test", .callableObj, .module, ["test", "status"]⟩]
    = ["teardown_suite", "teardown_test"] := by decide +kernel
example : loadHooks [⟨"teardown_suite", .callableObj, .mixin, []⟩] = ["teardown_suite"] := by decide +kernel
/-- `teardown_suite = None` IS registered by the real loader (`hasattr`), and an attribute of another name is not a hook -/
example : loadHooks [⟨"teardown_suite", .noneValue, .body, []⟩, ⟨"cleanup", .method, .body, []⟩] = ["teardown_suite"] := by decide +kernel
/-- the instance attribute is the one `getattr` finds -/
example : (effective [⟨"teardown_suite", .method, .body, []⟩, ⟨"teardown_suite", .lambdaFn, .init, []⟩] "teardown_suite").map (·.place) = some .init := by
  decide +kernel
/-- nothing declared: no hook -/
example : loadHooks [] = [] := by decide +kernel

end LccModel.C03Hooks

/-
  C19 — the previous report is archived INTACT: whatever TREE of files the previous run (its backends, its tests'
  attachments, its hooks, its being killed) left in `report/`, starting a run moves it to archive 1 as it is.

  Property theorems only (definitions: `Model/RunTree.lean`).  Which theorem quantifies over the input class "content of
  a report directory" (names of any shape incl. `*.tmp`, any depth, links, empty directories; streams `C19.hist` and
  `C19.runs`, oracle `C19/archive-differs-from-report`): `previous_report_archived_intact` (`s.tree p` universally
  quantified), `run_never_changes_recorded_tree`, `tmp_named_files_survive_archiving`.
-/
import LccModel.Model.RunTree
import LccModel.Props.C19Runs

namespace LccModel.C19Runs
open LccModel.RunSeq

/-- **No run, whatever its configuration and whatever the directories hold (any tree), changes the tree of a directory
    that existed before it**: the only directory whose content a run determines is the one it creates. -/
theorem run_never_changes_recorded_tree {c : Cfg} {files : Tree} {s s' : StT}
    (h : runT c files s = some s') : ∀ m, m < s.base.fs.next → s'.tree m = s.tree m := by
  intro m hm
  unfold runT at h
  cases hr : run { c with writes := !files.isEmpty } s.base with
  | none => rw [hr] at h; cases h
  | some b' =>
    rw [hr] at h; cases h
    have : m ≠ s.base.fs.next := by omega
    simp [this]

/-- **The previous report becomes archive 1 INTACT, whatever it holds** — `s.tree p` is an arbitrary tree: attachments of
    any name (`attachments/0002_device-dump.tmp`), nested directories, dot files, symbolic links, empty directories, the
    `report.js.<pid>.tmp` of a killed run — for every run at the default location that gets as far as creating its
    directory: archive 1 is that directory and its tree is the one the previous run left, entry for entry, byte for byte. -/
theorem previous_report_archived_intact {c : Cfg} {files : Tree} {s s' : StT} {p : Nat}
    (hs : Reachable s.base) (hsrc : dirSource c.cli c.env = .project) (hf : c.fate ≠ .failsBefore)
    (h : runT c files s = some s') (hp : s.base.fs.current = some p) :
    s'.base.fs.arch 1 = some p ∧ s'.tree p = s.tree p ∧ s'.base.filled p = s.base.filled p := by
  have hinv := reachable_inv hs
  have hrun : ∃ b', run { c with writes := !files.isEmpty } s.base = some b' ∧ s'.base = b' := by
    unfold runT at h
    cases hr : run { c with writes := !files.isEmpty } s.base with
    | none => rw [hr] at h; cases h
    | some b' => rw [hr] at h; cases h; exact ⟨b', rfl, rfl⟩
  obtain ⟨b', hr, hb⟩ := hrun
  -- the run-level step: `createDir` then (perhaps) `fill`, which does not touch `fs`
  have hcd : ∃ s1 d, createDir { c with writes := !files.isEmpty } s.base = some (s1, d) ∧ b'.fs = s1.fs ∧
      (∀ m, m ≠ s.base.fs.next → b'.filled m = s1.filled m) := by
    unfold run at hr
    split at hr
    · rename_i hfb; exact absurd hfb hf
    · cases hcd : createDir { c with writes := !files.isEmpty } s.base with
      | none => rw [hcd] at hr; cases hr
      | some q =>
        obtain ⟨s1, d⟩ := q
        rw [hcd] at hr
        obtain ⟨_, hd⟩ := default_run_is_rotation (c := { c with writes := !files.isEmpty }) hsrc hcd
        subst hd
        simp only at hr
        split at hr
        · have e := Option.some.inj hr
          refine ⟨s1, _, rfl, by rw [← e]; simp [fill], ?_⟩
          intro m hm; rw [← e]; simp [fill, hm]
        · have e : s1 = b' := Option.some.inj hr
          exact ⟨s1, _, rfl, by rw [e], fun _ _ => by rw [e]⟩
  obtain ⟨s1, d, hcd, hfs, hfill⟩ := hcd
  obtain ⟨harch, hfl⟩ := default_run_archives_previous (c := { c with writes := !files.isEmpty }) hs hsrc hcd hp
  obtain ⟨_, _, _, hne, _⟩ := default_run_dir_fresh_and_empty (c := { c with writes := !files.isEmpty }) hs hsrc hcd
  have hpn : p ≠ s.base.fs.next := by
    intro hc; rw [hc] at hp; exact hne hp
  refine ⟨by rw [hb, hfs]; exact harch, ?_, by rw [hb, hfill p hpn]; exact hfl⟩
  unfold runT at h
  rw [hr] at h; cases h
  simp [hpn]

/-- … and the new directory holds exactly what this run's backends wrote (nothing when the run aborted right after
    creating it, or had no file-producing backend and saved no attachment). -/
theorem new_directory_holds_this_runs_tree {c : Cfg} {files : Tree} {s s' : StT}
    (hs : Reachable s.base) (hsrc : dirSource c.cli c.env = .project) (hf : c.fate = .completes) (hne : files ≠ [])
    (h : runT c files s = some s') : s'.base.fs.current = some s.base.fs.next ∧ s'.tree s.base.fs.next = files := by
  obtain ⟨cli, env, impl, wr, fate⟩ := c
  simp only at hf hsrc
  subst hf
  unfold runT at h
  cases hr : run { cli := cli, env := env, impl := impl, writes := !files.isEmpty, fate := .completes } s.base with
  | none => rw [hr] at h; cases h
  | some b' =>
    rw [hr] at h; cases h
    obtain ⟨hcur, hfilled⟩ := default_run_content (c := { cli := cli, env := env, impl := impl, writes := !files.isEmpty, fate := .completes }) hs hsrc (by simp) hr
    have hw : (!files.isEmpty) = true := by cases files with
      | nil => exact absurd rfl hne
      | cons _ _ => rfl
    have hnext : b'.fs.next ≠ s.base.fs.next := by
      unfold run at hr
      simp only at hr
      cases hcd : createDir { cli := cli, env := env, impl := impl, writes := !files.isEmpty, fate := .completes } s.base with
      | none => rw [hcd] at hr; cases hr
      | some q =>
        obtain ⟨s1, d⟩ := q
        rw [hcd] at hr
        obtain ⟨_, hd⟩ := default_run_is_rotation (c := { cli := cli, env := env, impl := impl, writes := !files.isEmpty, fate := .completes }) hsrc hcd
        obtain ⟨_, _, _, hspec, _, _⟩ := createDir_inv (reachable_inv hs) hcd
        obtain ⟨_, hn, _, _⟩ := hspec _ hd
        subst hd
        simp only [hw, and_self, if_true] at hr
        cases hr
        simp only [fill]; omega
    refine ⟨hcur, ?_⟩
    simp only [hfilled, hw, decide_true, Bool.and_self, true_and]
    simp [hnext]

/-- In particular a file whose name ends with `.tmp`, at any depth of the previous report, is still in archive 1
    (a "remove the temporary files before archiving" step is not part of the rotation). -/
theorem tmp_named_files_survive_archiving {c : Cfg} {files : Tree} {s s' : StT} {p : Nat}
    (hs : Reachable s.base) (hsrc : dirSource c.cli c.env = .project) (hf : c.fate ≠ .failsBefore)
    (h : runT c files s = some s') (hp : s.base.fs.current = some p) (htmp : (s.tree p).hasFile endsWithTmp = true) :
    s'.base.fs.arch 1 = some p ∧ (s'.tree p).hasFile endsWithTmp = true := by
  obtain ⟨h1, h2, _⟩ := previous_report_archived_intact hs hsrc hf h hp
  exact ⟨h1, by rw [h2]; exact htmp⟩

/-! ### non-vacuity: the previous run's test saved an attachment called `device-dump.tmp` -/

def cfgT : Cfg := { cli := none, env := none, impl := .default, writes := true, fate := .completes }

def treeTmp : Tree :=
  [("report.js".toList, .file [118, 97, 114]),
   ("attachments".toList, .dir [("0002_device-dump.tmp".toList, .file [100, 117, 109, 112])]),
   ("report.js.123.tmp".toList, .file [123]), ("latest.tmp".toList, .link "report.js".toList), ("empty.tmp".toList, .dir [])]

example : treeTmp.hasFile endsWithTmp = true := by decide

/-- run 1 leaves `treeTmp`; runs 2 and 3 archive it: it is archive 2 and still holds its `.tmp` files -/
example :
    ((runOpsT StT.init [.run cfgT treeTmp, .run cfgT [("report.js".toList, .file [1])], .run cfgT []]).map
      (fun s => (s.base.fs.current, s.base.fs.arch 1, s.base.fs.arch 2, (s.tree 1).hasFile endsWithTmp, (s.tree 1).length))) =
    some (some 3, some 2, some 1, true, 5) := by decide

end LccModel.C19Runs

/-
  C15, last clause — "… every created instance is torn down exactly once WHEN ITS SCOPE ENDS": when does
  the scope of a suite-scoped per-thread instance end?  `teardown_factory` of the suite-scoped per-thread
  fixtures is called by the suite teardown task.  The theorems below say, for EVERY valid project — tests
  marked disabled included, with or without `--force-disabled` —, every worker count and every
  interleaving of a run (a keyboard interrupt at any moment included), that this task starts only after
  every test task of the suite has finished: the enabled ones, and the disabled ones, which ARE RUN like
  the others under `--force-disabled`.  The task graph they are about is compared with the graph the real
  `build_tasks` returns on every run of the stream `C15.sched` (graph equality + well-formedness).

  Property theorems only (definitions: `Lemmas/C15Scope.lean`).
-/
import LccModel.Props.C03
import LccModel.Lemmas.C15Scope

namespace LccModel.C15Scope
open LccModel.Run LccModel.Sched LccModel.TaskGraph LccModel.C01Graph

/-- **The dependency list of the suite teardown task does not look at `disabled`**: it is the suite setup
    task followed by the task of EVERY test of the suite, whatever the tests' `disabled` flags and the
    `--force-disabled` option are. -/
theorem suite_teardown_waits_for_every_test_disabled_or_not {P : Proj} (hv : Valid P) {sv : SuiteView}
    (hsv : sv ∈ allSuites P) (hi : hasInit P sv = true) (t : TestSpec) (ht : t ∈ sv.spec.tests) :
    (⟨.test, sv.path ++ [t.name]⟩ : TaskId) ∈ (graphOf P).complDeps ⟨.teardown, sv.path⟩ := by
  rw [(teardown_waits_for_tests_and_setup hv hsv hi).1]
  exact List.mem_cons_of_mem _ (List.mem_map.mpr ⟨t, ht, rfl⟩)

/-- **The scope of a suite-scoped instance ends after every test of the suite** — in every reachable state
    of every run: when the suite teardown task (which calls `teardown_factory` of the suite-scoped per-thread
    fixtures) has started, every test of the suite has FINISHED before; in particular a test with
    `disabled = true` in a run with `forceDisabled = true` (it is run like the others, on any worker). -/
theorem suite_scope_ends_after_every_test_of_the_suite {P : Proj} (hv : Valid P) {sv : SuiteView}
    (hsv : sv ∈ allSuites P) (hinit : hasInit P sv = true)
    (n : Nat) (s : State TaskId) (hr : Reachable (graphOf P) n s)
    (i : Nat) (hi : s.startAt ⟨.teardown, sv.path⟩ = some i) (t : TestSpec) (ht : t ∈ sv.spec.tests) :
    ∃ j, s.finishAt ⟨.test, sv.path ++ [t.name]⟩ = some j ∧ j < i :=
  (C03.suite_teardown_after_setup_and_tests hv hsv hinit n s hr i hi).2 t ht

/-- the hypotheses are satisfiable with a disabled test and `--force-disabled`: `forcedProj` is valid, its
    suite has a teardown task, whose dependencies are the setup task and BOTH tests -/
theorem forcedProj_valid : Valid forcedProj :=
  ⟨by decide, by decide, by decide, by decide, ⟨fun _ => 0, by decide⟩⟩

example : (graphOf forcedProj).complDeps ⟨.teardown, ["s"]⟩ =
    [⟨.init, ["s"]⟩, ⟨.test, ["s", "e"]⟩, ⟨.test, ["s", "d"]⟩] := by decide

/-- **What the dependency on the disabled tests is for** (refutation of the variant in which the suite teardown
    only waits for the ENABLED tests): `forcedProj`, two workers.  The forced disabled test `d` starts, the
    enabled test `e` runs and finishes, the main loop receives it — and the suite teardown task is started
    while `d` is still running on the other worker. -/
theorem teardown_waiting_for_enabled_tests_only_starts_under_a_running_forced_test :
    ∃ tr, (run (teardownWaitsForEnabledOnly forcedProj) 2 (init (teardownWaitsForEnabledOnly forcedProj) 2) tr).map
      (fun s => (s.phase ⟨.test, ["s", "d"]⟩, s.mode ⟨.test, ["s", "d"]⟩, s.phase ⟨.teardown, ["s"]⟩))
      = some (.running, some .run, .running) :=
  ⟨[.start ⟨.begin, ["s"]⟩ false, .finish ⟨.begin, ["s"]⟩ .success, .receive ⟨.begin, ["s"]⟩,
    .start ⟨.init, ["s"]⟩ false, .finish ⟨.init, ["s"]⟩ .success, .receive ⟨.init, ["s"]⟩,
    .start ⟨.test, ["s", "d"]⟩ false, .start ⟨.test, ["s", "e"]⟩ false,
    .finish ⟨.test, ["s", "e"]⟩ .success, .receive ⟨.test, ["s", "e"]⟩,
    .start ⟨.teardown, ["s"]⟩ false], by decide +kernel⟩

/-- non-vacuity: on the graph of the code as it is the same trace is NOT accepted (the teardown task is not
    queued while `d` runs) … -/
example : run (graphOf forcedProj) 2 (init (graphOf forcedProj) 2)
    [.start ⟨.begin, ["s"]⟩ false, .finish ⟨.begin, ["s"]⟩ .success, .receive ⟨.begin, ["s"]⟩,
     .start ⟨.init, ["s"]⟩ false, .finish ⟨.init, ["s"]⟩ .success, .receive ⟨.init, ["s"]⟩,
     .start ⟨.test, ["s", "d"]⟩ false, .start ⟨.test, ["s", "e"]⟩ false,
     .finish ⟨.test, ["s", "e"]⟩ .success, .receive ⟨.test, ["s", "e"]⟩,
     .start ⟨.teardown, ["s"]⟩ false] = none := by decide +kernel

/-- … and once `d` has finished too the teardown starts after both (clock values) -/
example : ((run (graphOf forcedProj) 2 (init (graphOf forcedProj) 2)
    [.start ⟨.begin, ["s"]⟩ false, .finish ⟨.begin, ["s"]⟩ .success, .receive ⟨.begin, ["s"]⟩,
     .start ⟨.init, ["s"]⟩ false, .finish ⟨.init, ["s"]⟩ .success, .receive ⟨.init, ["s"]⟩,
     .start ⟨.test, ["s", "d"]⟩ false, .start ⟨.test, ["s", "e"]⟩ false,
     .finish ⟨.test, ["s", "e"]⟩ .success, .receive ⟨.test, ["s", "e"]⟩,
     .finish ⟨.test, ["s", "d"]⟩ .success, .receive ⟨.test, ["s", "d"]⟩,
     .start ⟨.teardown, ["s"]⟩ false]).map
      (fun s => (s.finishAt ⟨.test, ["s", "e"]⟩, s.finishAt ⟨.test, ["s", "d"]⟩, s.startAt ⟨.teardown, ["s"]⟩)))
    = some (some 8, some 10, some 12) := by decide +kernel

end LccModel.C15Scope

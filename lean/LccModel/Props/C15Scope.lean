/-
  C15, last clause — "… every created instance is torn down exactly once WHEN ITS SCOPE ENDS": when does
  the scope of a suite-scoped per-thread instance end?  `teardown_factory` of the suite-scoped per-thread
  fixtures is called by the suite teardown task.  The theorems below say, for EVERY valid project — tests
  marked disabled included, with or without `--force-disabled` —, every worker count and every
  interleaving of a run (a keyboard interrupt at any moment included), that this task starts only after
  every test task of the suite has finished: the enabled ones, and the disabled ones, which ARE RUN like
  the others under `--force-disabled`.  The task graph they are about is compared with the graph the real
  `build_tasks` returns on every run of the stream `C15.sched` (graph equality + well-formedness).

  Property theorems only (definitions: `Lemmas/C15Scope.lean`).
-/
import LccModel.Props.C03
import LccModel.Lemmas.C15Scope

namespace LccModel.C15Scope
open LccModel.Run LccModel.Sched LccModel.TaskGraph LccModel.C01Graph

/-- **The dependency list of the suite teardown task does not look at `disabled`**: it is the suite setup
    task followed by the task of EVERY test of the suite, whatever the tests' `disabled` flags and the
    `--force-disabled` option are. -/
theorem suite_teardown_waits_for_every_test_disabled_or_not {P : Proj} (hv : Valid P) {sv : SuiteView}
    (hsv : sv ∈ allSuites P) (hi : hasInit P sv = true) (t : TestSpec) (ht : t ∈ sv.spec.tests) :
    (⟨.test, sv.path ++ [t.name]⟩ : TaskId) ∈ (graphOf P).complDeps ⟨.teardown, sv.path⟩ := by
  rw [(teardown_waits_for_tests_and_setup hv hsv hi).1]
  exact List.mem_cons_of_mem _ (List.mem_map.mpr ⟨t, ht, rfl⟩)

/-- **The scope of a suite-scoped instance ends after every test of the suite** — in every reachable state
    of every run: when the suite teardown task (which calls `teardown_factory` of the suite-scoped per-thread
    fixtures) has started, every test of the suite has FINISHED before; in particular a test with
    `disabled = true` in a run with `forceDisabled = true` (it is run like the others, on any worker). -/
theorem suite_scope_ends_after_every_test_of_the_suite {P : Proj} (hv : Valid P) {sv : SuiteView}
    (hsv : sv ∈ allSuites P) (hinit : hasInit P sv = true)
    (n : Nat) (s : State TaskId) (hr : Reachable (graphOf P) n s)
    (i : Nat) (hi : s.startAt ⟨.teardown, sv.path⟩ = some i) (t : TestSpec) (ht : t ∈ sv.spec.tests) :
    ∃ j, s.finishAt ⟨.test, sv.path ++ [t.name]⟩ = some j ∧ j < i :=
  (C03.suite_teardown_after_setup_and_tests hv hsv hinit n s hr i hi).2 t ht

/-- the hypotheses are satisfiable with a disabled test and `--force-disabled`: `forcedProj` is valid, its
    suite has a teardown task, whose dependencies are the setup task and BOTH tests -/
theorem forcedProj_valid : Valid forcedProj :=
  ⟨by decide, by decide, by decide, by decide, ⟨fun _ => 0, by decide⟩⟩

example : (graphOf forcedProj).complDeps ⟨.teardown, ["s"]⟩ =
    [⟨.init, ["s"]⟩, ⟨.test, ["s", "e"]⟩, ⟨.test, ["s", "d"]⟩] := by decide

/-- **What the dependency on the disabled tests is for** (refutation of the variant in which the suite teardown
    only waits for the ENABLED tests): `forcedProj`, two workers.  The forced disabled test `d` starts, the
    enabled test `e` runs and finishes, the main loop receives it — and the suite teardown task is started
    while `d` is still running on the other worker. -/
theorem teardown_waiting_for_enabled_tests_only_starts_under_a_running_forced_test :
    ∃ tr, (run (teardownWaitsForEnabledOnly forcedProj) 2 (init (teardownWaitsForEnabledOnly forcedProj) 2) tr).map
      (fun s => (s.phase ⟨.test, ["s", "d"]⟩, s.mode ⟨.test, ["s", "d"]⟩, s.phase ⟨.teardown, ["s"]⟩))
      = some (.running, some .run, .running) :=
  ⟨[.start ⟨.begin, ["s"]⟩ false, .finish ⟨.begin, ["s"]⟩ .success, .receive ⟨.begin, ["s"]⟩,
    .start ⟨.init, ["s"]⟩ false, .finish ⟨.init, ["s"]⟩ .success, .receive ⟨.init, ["s"]⟩,
    .start ⟨.test, ["s", "d"]⟩ false, .start ⟨.test, ["s", "e"]⟩ false,
    .finish ⟨.test, ["s", "e"]⟩ .success, .receive ⟨.test, ["s", "e"]⟩,
    .start ⟨.teardown, ["s"]⟩ false], by decide +kernel⟩

/-- non-vacuity: on the graph of the code as it is the same trace is NOT accepted (the teardown task is not
    queued while `d` runs) … -/
example : run (graphOf forcedProj) 2 (init (graphOf forcedProj) 2)
    [.start ⟨.begin, ["s"]⟩ false, .finish ⟨.begin, ["s"]⟩ .success, .receive ⟨.begin, ["s"]⟩,
     .start ⟨.init, ["s"]⟩ false, .finish ⟨.init, ["s"]⟩ .success, .receive ⟨.init, ["s"]⟩,
     .start ⟨.test, ["s", "d"]⟩ false, .start ⟨.test, ["s", "e"]⟩ false,
     .finish ⟨.test, ["s", "e"]⟩ .success, .receive ⟨.test, ["s", "e"]⟩,
     .start ⟨.teardown, ["s"]⟩ false] = none := by decide +kernel

/-- … and once `d` has finished too the teardown starts after both (clock values) -/
example : ((run (graphOf forcedProj) 2 (init (graphOf forcedProj) 2)
    [.start ⟨.begin, ["s"]⟩ false, .finish ⟨.begin, ["s"]⟩ .success, .receive ⟨.begin, ["s"]⟩,
     .start ⟨.init, ["s"]⟩ false, .finish ⟨.init, ["s"]⟩ .success, .receive ⟨.init, ["s"]⟩,
     .start ⟨.test, ["s", "d"]⟩ false, .start ⟨.test, ["s", "e"]⟩ false,
     .finish ⟨.test, ["s", "e"]⟩ .success, .receive ⟨.test, ["s", "e"]⟩,
     .finish ⟨.test, ["s", "d"]⟩ .success, .receive ⟨.test, ["s", "d"]⟩,
     .start ⟨.teardown, ["s"]⟩ false]).map
      (fun s => (s.finishAt ⟨.test, ["s", "e"]⟩, s.finishAt ⟨.test, ["s", "d"]⟩, s.startAt ⟨.teardown, ["s"]⟩)))
    = some (some 8, some 10, some 12) := by decide +kernel

/-! ### Session scope: the session teardown task — which calls `teardown_factory` of the SESSION-scoped per-thread
    fixtures — starts only after EVERY test of the run has finished, keyboard interrupt included

    `Reachable` contains the `interrupt` label at any moment and the rounds of `skip_all_tasks` after it
    (`Sched.release`: a task is handed to the pool for `skip_task` only when ALL its dependencies — on-success ones
    included — are completed).  The suite ending tasks only have on-success dependencies; a release that looks at the
    on-completion dependencies only lets them, and then the session teardown, go while tests are still in progress
    (refuted below on `releaseOnCompletionOnly`). -/

/-- auxiliary: a dependency chain can be extended at its far end -/
theorem dependsPlus_snoc {Tid : Type} [DecidableEq Tid] {g : Graph Tid} {t m d : Tid}
    (h : C04.DependsPlus g t m) (hd : d ∈ g.deps m) : C04.DependsPlus g t d := by
  induction h with
  | direct h1 => exact .trans h1 (.direct hd)
  | trans h1 _ ih => exact .trans h1 (ih hd)

/-- auxiliary: the session teardown task depends, through the chain of suite ending tasks, on the ending task of
    every suite of the project, at any depth -/
theorem session_teardown_reaches_every_suite_end {P : Proj} (hv : Valid P) (hs : hasSessSetup P = true) :
    ∀ (k : Nat) (sv : SuiteView), sv ∈ allSuites P → sv.path.length = k →
      C04.DependsPlus (graphOf P) ⟨.sessTeardown, []⟩ ⟨.end_, sv.path⟩ := by
  intro k
  induction k using Nat.strongRecOn with
  | _ k ih =>
    intro sv hsv hk
    rcases flattenSuites_parent P.suites [] false sv hsv with ⟨top, htop, hp⟩ | ⟨sv', hsv', sub, hsub, hp⟩
    · apply C04.DependsPlus.direct
      apply complDeps_sub_deps
      rw [(session_teardown_waits_for_top_ends hv hs).1, hp]
      exact List.mem_map.mpr ⟨top, htop, rfl⟩
    · have hlt : sv'.path.length < k := by rw [← hk, hp]; simp
      have h1 := ih _ hlt sv' hsv' rfl
      apply dependsPlus_snoc h1
      apply succDeps_sub_deps
      rw [(end_waits_for_children hv hsv').1, hp]
      simp only [List.cons_append, List.mem_cons, List.mem_append, List.mem_map]
      exact Or.inr (Or.inr ⟨sub, hsub, rfl⟩)

/-- **The scope of a session-scoped per-thread instance ends after every test of the run** — in every reachable
    state of every run of every valid project, every worker count, every interleaving, a keyboard interrupt at any
    moment included (tests in progress at the time of the Ctrl-C, tests skipped by `skip_all_tasks`, tests marked
    disabled): when the session teardown task has started, the task of every test of every suite (any depth) has
    FINISHED before.  So no instance is torn down while a test that received it is still running. -/
theorem session_scope_ends_after_every_test_of_the_run {P : Proj} (hv : Valid P) (hs : hasSessSetup P = true)
    {sv : SuiteView} (hsv : sv ∈ allSuites P) (t : TestSpec) (ht : t ∈ sv.spec.tests)
    (n : Nat) (s : State TaskId) (hr : Reachable (graphOf P) n s)
    (i : Nat) (hi : s.startAt ⟨.sessTeardown, []⟩ = some i) :
    ∃ j, s.finishAt ⟨.test, sv.path ++ [t.name]⟩ = some j ∧ j < i := by
  have h1 := session_teardown_reaches_every_suite_end hv hs _ sv hsv rfl
  have h2 : C04.DependsPlus (graphOf P) ⟨.sessTeardown, []⟩ ⟨.test, sv.path ++ [t.name]⟩ := by
    apply dependsPlus_snoc h1
    apply succDeps_sub_deps
    rw [(end_waits_for_children hv hsv).1]
    simp only [List.cons_append, List.mem_cons, List.mem_append, List.mem_map]
    exact Or.inr (Or.inl (Or.inl ⟨t, ht, rfl⟩))
  exact C04.transitive_deps_finished_before_start (graphOf P) n s hr _ _ h2 i hi

/-- … likewise every suite teardown task (suite-scoped instances) has finished before -/
theorem session_scope_ends_after_every_suite_teardown {P : Proj} (hv : Valid P) (hs : hasSessSetup P = true)
    {sv : SuiteView} (hsv : sv ∈ allSuites P) (hinit : hasInit P sv = true)
    (n : Nat) (s : State TaskId) (hr : Reachable (graphOf P) n s)
    (i : Nat) (hi : s.startAt ⟨.sessTeardown, []⟩ = some i) :
    ∃ j, s.finishAt ⟨.teardown, sv.path⟩ = some j ∧ j < i := by
  have h1 := session_teardown_reaches_every_suite_end hv hs _ sv hsv rfl
  have h2 : C04.DependsPlus (graphOf P) ⟨.sessTeardown, []⟩ ⟨.teardown, sv.path⟩ := by
    apply dependsPlus_snoc h1
    apply succDeps_sub_deps
    rw [(end_waits_for_children hv hsv).1]
    simp [hinit]
  exact C04.transitive_deps_finished_before_start (graphOf P) n s hr _ _ h2 i hi

/-- the hypotheses are satisfiable: `sessionProj` (a session-scoped per-thread fixture used by two tests) is valid and
    has a session teardown task -/
theorem sessionProj_valid : Valid sessionProj :=
  ⟨by decide, by decide, by decide, by decide, ⟨fun _ => 0, by decide⟩⟩

example : hasSessSetup sessionProj = true := by decide

/-- **What the on-success dependencies are for after a keyboard interrupt** (refutation of the variant in which
    `skip_all_tasks` releases a task as soon as its ON-COMPLETION dependencies are completed): `sessionProj`, two
    workers, Ctrl-C while both tests run.  The suite ending task (all its dependencies are on-success ones) is
    released at once, the worker that finished test `a` skips it, which releases the session teardown task: it is
    started — `teardown_factory` of the session-scoped per-thread fixture — while test `b` is still RUNNING with
    its instance. -/
theorem release_on_completion_only_tears_session_down_under_a_running_test :
    (runReleaseOnCompletionOnly (graphOf sessionProj) 2 (init (graphOf sessionProj) 2) interruptedSessionTrace).map
      (fun s => (s.phase ⟨.test, ["s", "b"]⟩, s.mode ⟨.test, ["s", "b"]⟩, s.phase ⟨.sessTeardown, []⟩))
      = some (.running, some .run, .running) := by decide +kernel

/-- non-vacuity: the scheduler of the code as it is does NOT accept that trace (the suite ending task is not queued
    while its tests are not completed) … -/
example : run (graphOf sessionProj) 2 (init (graphOf sessionProj) 2) interruptedSessionTrace = none := by decide +kernel

/-- … and in the interrupted run it does accept, the session teardown starts (clock 16) after both tests finished
    (9 and 10), as `session_scope_ends_after_every_test_of_the_run` says -/
example : ((run (graphOf sessionProj) 2 (init (graphOf sessionProj) 2)
    [.start ⟨.sessSetup, []⟩ false, .finish ⟨.sessSetup, []⟩ .success, .receive ⟨.sessSetup, []⟩,
     .start ⟨.begin, ["s"]⟩ false, .finish ⟨.begin, ["s"]⟩ .success, .receive ⟨.begin, ["s"]⟩,
     .start ⟨.test, ["s", "a"]⟩ false, .start ⟨.test, ["s", "b"]⟩ false, .interrupt,
     .finish ⟨.test, ["s", "a"]⟩ .success, .finish ⟨.test, ["s", "b"]⟩ .success,
     .receive ⟨.test, ["s", "a"]⟩, .receive ⟨.test, ["s", "b"]⟩,
     .start ⟨.end_, ["s"]⟩ true, .finish ⟨.end_, ["s"]⟩ .skipped, .receive ⟨.end_, ["s"]⟩,
     .start ⟨.sessTeardown, []⟩ true]).map
      (fun s => (s.aborted, s.finishAt ⟨.test, ["s", "a"]⟩, s.finishAt ⟨.test, ["s", "b"]⟩, s.startAt ⟨.sessTeardown, []⟩)))
    = some (true, some 9, some 10, some 16) := by decide +kernel

end LccModel.C15Scope

/-
  C05 — declaration order survives parametrization, for EVERY number of parameter sets: the rank `r + idx / (idx + 1)` the loader
  gives the `idx`-th expansion of a parametrized test is strictly increasing in `idx` and strictly below `r + 1`, the rank of the
  test declared next — so no expansion ever ties with (or passes) a later test, and the rank-sorted report cannot depend on the
  order in which results arrive.  The lexicographic `(rank, sub)` key of `Model/Expand.lean` is exactly the order of these
  fractions.  A constant increment `1 / n` cannot have the property: its `n`-th expansion reaches the next declared rank.
  Property theorems only (definitions: `Model/RankFrac.lean`).
-/
import LccModel.Model.RankFrac
import LccModel.Lemmas.ExpandRank

namespace LccModel.C05Rank
open LccModel.RankFrac

theorem lt_iff (a b : Frac) : a.lt b = true ↔ a.num * b.den < b.num * a.den := by simp [Frac.lt]

/-- each expansion ranks strictly above the previous one — for every index -/
theorem variant_rank_strictly_increasing (r idx : Nat) : (variantRank r idx).lt (variantRank r (idx + 1)) = true := by
  rw [lt_iff]
  show (r * (idx + 1) + idx) * (idx + 1 + 1) < (r * (idx + 1 + 1) + (idx + 1)) * (idx + 1)
  generalize hm : r * ((idx + 1) * (idx + 1 + 1)) = m
  have e1 : (r * (idx + 1) + idx) * (idx + 1 + 1) = m + idx * (idx + 1 + 1) := by
    rw [Nat.add_mul, Nat.mul_assoc, hm]
  have e2 : (r * (idx + 1 + 1) + (idx + 1)) * (idx + 1) = m + (idx + 1) * (idx + 1) := by
    rw [Nat.add_mul, Nat.mul_assoc, Nat.mul_comm (idx + 1 + 1) (idx + 1), hm]
  rw [e1, e2]
  have : idx * (idx + 1 + 1) < (idx + 1) * (idx + 1) := by
    have : idx * (idx + 1 + 1) = idx * idx + 2 * idx := by rw [Nat.mul_add, Nat.mul_add]; omega
    have : (idx + 1) * (idx + 1) = idx * idx + 2 * idx + 1 := by
      rw [Nat.add_mul, Nat.mul_add]; omega
    omega
  omega

/-- the order of two ranks `r + k/(k+1)` and `r' + k'/(k'+1)` is the lexicographic order of `(r, k)` and `(r', k')` -/
theorem rank_order_is_key_order (r k r' k' : Nat) :
    (variantRank r k).lt (variantRank r' k') = true ↔ r < r' ∨ (r = r' ∧ k < k') := by
  rw [lt_iff]
  show (r * (k + 1) + k) * (k' + 1) < (r' * (k' + 1) + k') * (k + 1) ↔ _
  -- both sides over the common denominator P = (k+1)(k'+1): r·P + k(k'+1)  <  r'·P + k'(k+1), the remainders below P
  generalize hP : (k + 1) * (k' + 1) = P
  have e1 : (r * (k + 1) + k) * (k' + 1) = r * P + k * (k' + 1) := by rw [Nat.add_mul, Nat.mul_assoc, hP]
  have e2 : (r' * (k' + 1) + k') * (k + 1) = r' * P + k' * (k + 1) := by
    rw [Nat.add_mul, Nat.mul_assoc, Nat.mul_comm (k' + 1) (k + 1), hP]
  rw [e1, e2]
  have hx : k * (k' + 1) < P := by rw [← hP]; exact Nat.mul_lt_mul_of_pos_right (by omega) (by omega)
  have hy : k' * (k + 1) < P := by
    rw [← hP, Nat.mul_comm (k + 1) (k' + 1)]; exact Nat.mul_lt_mul_of_pos_right (by omega) (by omega)
  have hxy : k * (k' + 1) < k' * (k + 1) ↔ k < k' := by
    rw [Nat.mul_add, Nat.mul_add, Nat.mul_comm k' k]; omega
  rcases Nat.lt_trichotomy r r' with h | h | h
  · obtain ⟨d, rfl⟩ : ∃ d, r' = r + 1 + d := ⟨r' - r - 1, by omega⟩
    have : (r + 1 + d) * P = r * P + P + d * P := by rw [Nat.add_mul, Nat.add_mul]; omega
    constructor
    · intro _; exact .inl h
    · intro _; omega
  · subst h
    constructor
    · intro h'; exact .inr ⟨rfl, hxy.mp (by omega)⟩
    · rintro (h' | ⟨_, h'⟩)
      · omega
      · have := hxy.mpr h'; omega
  · obtain ⟨d, rfl⟩ : ∃ d, r = r' + 1 + d := ⟨r - r' - 1, by omega⟩
    have : (r' + 1 + d) * P = r' * P + P + d * P := by rw [Nat.add_mul, Nat.add_mul]; omega
    constructor
    · intro _; omega
    · rintro (h' | ⟨h', _⟩) <;> omega

/-- the first expansion has the rank of the declaration itself … -/
theorem variant_rank_zero (r : Nat) : variantRank r 0 = declRank r := by simp [variantRank, declRank]

/-- … no expansion ranks below it … -/
theorem variant_rank_not_below_declaration (r idx : Nat) : (variantRank r idx).lt (declRank r) = false := by
  rw [← variant_rank_zero r]
  cases h : (variantRank r idx).lt (variantRank r 0) with
  | false => rfl
  | true => rcases (rank_order_is_key_order r idx r 0).mp h with h | ⟨_, h⟩ <;> omega

/-- … and EVERY expansion ranks strictly below the test declared next (`r + 1`), however many parameter sets there are -/
theorem variant_rank_below_next_declaration (r idx : Nat) : (variantRank r idx).lt (declRank (r + 1)) = true := by
  rw [← variant_rank_zero (r + 1)]
  exact (rank_order_is_key_order r idx (r + 1) 0).mpr (.inl (by omega))

/-- strictly increasing over any distance -/
theorem variant_rank_strict_mono (r j k : Nat) (h : j < k) : (variantRank r j).lt (variantRank r k) = true :=
  (rank_order_is_key_order r j r k).mpr (.inr ⟨rfl, h⟩)

/-- the `(rank, sub)` key of the loader model (`sub` = 1-based position among the expansions) orders the expansions of
    parametrized tests exactly as their exact ranks do -/
theorem keyLt_is_exact_rank_order (a b : Expand.Test) (_ha : 1 ≤ a.sub) (_hb : 1 ≤ b.sub) :
    Expand.keyLt a b = true ↔ (variantRank a.rank (a.sub - 1)).lt (variantRank b.rank (b.sub - 1)) = true := by
  rw [Expand.keyLt_iff, rank_order_is_key_order]
  constructor
  · rintro (h | ⟨h1, h2⟩)
    · exact .inl h
    · exact .inr ⟨h1, by omega⟩
  · rintro (h | ⟨h1, h2⟩)
    · exact .inl h
    · exact .inr ⟨h1, by omega⟩

/-- a plain test against an expansion of ANOTHER declaration: again the order of the exact ranks -/
theorem keyLt_plain_vs_variant (a b : Expand.Test) (ha : a.sub = 0) (hb : 1 ≤ b.sub) (hne : a.rank ≠ b.rank) :
    Expand.keyLt a b = true ↔ (declRank a.rank).lt (variantRank b.rank (b.sub - 1)) = true := by
  rw [Expand.keyLt_iff, ← variant_rank_zero, rank_order_is_key_order]
  constructor
  · rintro (h | ⟨h1, _⟩)
    · exact .inl h
    · exact absurd h1 hne
  · rintro (h | ⟨h1, _⟩)
    · exact .inl h
    · exact absurd h1 hne

/-- **a constant increment cannot do**: with a step of `1 / n` the `n`-th expansion is NOT below the next declared rank (it ties
    with it), whatever `n` — the increments have to shrink -/
theorem fixed_step_reaches_next_declaration (r n : Nat) : (fixedStepRank r n n).lt (declRank (r + 1)) = false := by
  cases h : (fixedStepRank r n n).lt (declRank (r + 1)) with
  | false => rfl
  | true =>
    rw [lt_iff] at h
    have h' : (r * n + n) * 1 < (r + 1) * n := h
    rw [Nat.mul_one, Nat.add_mul, Nat.one_mul] at h'; omega

/-- … while below `n` expansions it is fine: the defect shows only from `n + 1` parameter sets on -/
theorem fixed_step_fine_below (r n idx : Nat) (h : idx < n) : (fixedStepRank r n idx).lt (declRank (r + 1)) = true := by
  rw [lt_iff]
  show (r * n + idx) * 1 < (r + 1) * n
  rw [Nat.mul_one, Nat.add_mul, Nat.one_mul]; omega

example : reportOrder [("wrap_up", declRank 3), ("case_1", variantRank 2 0), ("case_2", variantRank 2 1), ("warm_up", declRank 1)]
    = ["warm_up", "case_1", "case_2", "wrap_up"] := by decide +kernel
example : (loadedRanks 1 [("a", none), ("c", some 2), ("z", none)]).map (·.1) = ["a", "c_1", "c_2", "z"] := by decide +kernel

end LccModel.C05Rank

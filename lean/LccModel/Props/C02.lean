/-
  C02 — verdicts are sound.

  Part 1 (session level, model M3): the runner's per-location failure set — which drives
  `is_successful(location)`, hence the task results, the skipping of dependents and --stop-on-failure —
  agrees at every moment, for EVERY sequence of Session API calls issued by ANY number of threads
  (pool workers and `lcc.Thread`s), with the events given to the reporting backends: a location is
  marked failed if and only if an error log or a failed check was emitted at that location, or the test
  at that location was skipped.  (The report's status is computed from the same events by the writer:
  see the writer lemmas and the run-level part.)
-/
import LccModel.Lemmas.Session

namespace LccModel.C02
open LccModel.Report LccModel.Session

/-- `session.is_successful(loc)` is false exactly when a failing event was fired at `loc`. -/
theorem location_failed_iff_failing_event (ops : List (Nat × Op)) (s : St) (h : runOps St.init ops = .ok s)
    (loc : Loc) : isSuccessful s loc = false ↔ ∃ e ∈ s.fired, failsAt e loc = true := by
  have hinv := inv_runOps ops St.init s inv_init h
  unfold isSuccessful
  rw [← hinv.sync loc]
  simp

/-- `session.is_successful()` (no location: what --stop-on-failure and the interrupt path read) is true
    exactly when no failing event has been fired at all. -/
theorem session_successful_iff_no_failing_event (ops : List (Nat × Op)) (s : St) (h : runOps St.init ops = .ok s) :
    isSuccessfulAll s = true ↔ ∀ e ∈ s.fired, ∀ loc, failsAt e loc = false := by
  have hinv := inv_runOps ops St.init s inv_init h
  unfold isSuccessfulAll
  constructor
  · intro he e hm loc
    cases hf : failsAt e loc with
    | false => rfl
    | true =>
      have : loc ∈ s.failures := (hinv.sync loc).mpr ⟨e, hm, hf⟩
      rw [List.isEmpty_iff] at he
      rw [he] at this; cases this
  · intro hall
    rw [List.isEmpty_iff]
    cases hfl : s.failures with
    | nil => rfl
    | cons l rest =>
      have : l ∈ s.failures := by rw [hfl]; simp
      obtain ⟨e, hm, hf⟩ := (hinv.sync l).mp this
      rw [hall e hm l] at hf; cases hf

/-- Held events are never failing events: nothing that marks a location failed can be discarded by the
    hold/discard protocol (an error is never elided together with an empty step). -/
theorem held_events_never_failing (ops : List (Nat × Op)) (s : St) (h : runOps St.init ops = .ok s)
    (tid : Nat) (c : Cursor) (hc : getCursor s tid = some c) (e : Event) (he : e ∈ c.pending) (loc : Loc) :
    failsAt e loc = false :=
  holdable_not_fails e loc (pending_holdable (inv_runOps ops St.init s inv_init h).held hc e he)

/-! Non-vacuity: a test that logs an error inside a step is marked failed and the error event is fired. -/
example : (match runOps St.init [(1, .startTest ["s", "t"] default), (1, .setStep "a"), (1, .log .error "boom"),
            (1, .endTest ["s", "t"])] with
    | .ok s => (isSuccessful s (.test ["s", "t"]), s.fired.length)
    | .error _ => (true, 0)) = (false, 5) := by decide

/-- A failing event marks exactly ONE location: the kind of node (test / suite setup / suite teardown / session phase)
    is part of the key, not only the hierarchy of names. -/
theorem failing_event_marks_one_location (e : Event) (l₁ l₂ : Loc) (h₁ : failsAt e l₁ = true)
    (h₂ : failsAt e l₂ = true) : l₁ = l₂ := by
  cases e <;> simp [failsAt] at h₁ h₂
  · exact h₁.symm.trans h₂
  · exact h₁.1.symm.trans h₂.1
  · exact h₁.1.symm.trans h₂.1

/-- Nodes that carry the same hierarchy of names do not share a verdict (a suite may hold a TEST and a SUB-SUITE with the
    same name — the loader checks the two kinds of names separately —: `Loc.test p`, `Loc.suiteSetup p` and
    `Loc.suiteTeardown p` are three locations).  For every call sequence by any number of threads: when every failing
    event fired so far was emitted at `l₀` (say the test `a.login`), every OTHER location — the setup and the teardown
    of the sub-suite `a.login` included — is still successful, whatever the order in which the threads got there. -/
theorem failure_stays_at_its_location (ops : List (Nat × Op)) (s : St) (h : runOps St.init ops = .ok s)
    (l₀ loc : Loc) (hne : loc ≠ l₀) (honly : ∀ e ∈ s.fired, ∀ l, failsAt e l = true → l = l₀) :
    isSuccessful s loc = true := by
  cases hs : isSuccessful s loc with
  | true => rfl
  | false =>
    obtain ⟨e, hm, hf⟩ := (location_failed_iff_failing_event ops s h loc).mp hs
    exact absurd (honly e hm loc hf) hne

/-- its instance for the homonymous pair: a failed test `p` leaves the setup and the teardown of a suite `p` successful,
    and a failed setup of suite `p` leaves the test `p` successful -/
theorem homonymous_test_and_suite_do_not_share_failures (ops : List (Nat × Op)) (s : St)
    (h : runOps St.init ops = .ok s) (p : Path) :
    ((∀ e ∈ s.fired, ∀ l, failsAt e l = true → l = .test p) →
        isSuccessful s (.suiteSetup p) = true ∧ isSuccessful s (.suiteTeardown p) = true) ∧
    ((∀ e ∈ s.fired, ∀ l, failsAt e l = true → l = .suiteSetup p) → isSuccessful s (.test p) = true) :=
  ⟨fun ho => ⟨failure_stays_at_its_location ops s h (.test p) _ (by simp) ho,
              failure_stays_at_its_location ops s h (.test p) _ (by simp) ho⟩,
   fun ho => failure_stays_at_its_location ops s h (.suiteSetup p) _ (by simp) ho⟩

/-! Non-vacuity: suite `a` holds the test `login` and the sub-suite `login`.  Worker 1 runs the test (error log), worker 2
    the sub-suite's setup, in either order: the test is failed, the setup of the homonymous suite is not. -/
example : (match runOps St.init [(1, .startTest ["a", "login"] default), (1, .log .error "cannot log in"),
            (2, .startSuiteSetup ["a", "login"]), (2, .log .info "preparing"), (2, .endSuiteSetup ["a", "login"]),
            (1, .endTest ["a", "login"])] with
    | .ok s => (isSuccessful s (.test ["a", "login"]), isSuccessful s (.suiteSetup ["a", "login"]))
    | .error _ => (true, false)) = (false, true) := by decide
example : (match runOps St.init [(2, .startSuiteSetup ["a", "login"]), (2, .log .error "no database"),
            (1, .startTest ["a", "login"] default), (2, .endSuiteSetup ["a", "login"]), (1, .log .info "ok"),
            (1, .endTest ["a", "login"])] with
    | .ok s => (isSuccessful s (.test ["a", "login"]), isSuccessful s (.suiteSetup ["a", "login"]))
    | .error _ => (false, true)) = (true, false) := by decide

end LccModel.C02

/-
  C02 — verdicts are sound.

  Part 1 (session level, model M3): the runner's per-location failure set — which drives
  `is_successful(location)`, hence the task results, the skipping of dependents and --stop-on-failure —
  agrees at every moment, for EVERY sequence of Session API calls issued by ANY number of threads
  (pool workers and `lcc.Thread`s), with the events given to the reporting backends: a location is
  marked failed if and only if an error log or a failed check was emitted at that location, or the test
  at that location was skipped.  (The report's status is computed from the same events by the writer:
  see the writer lemmas and the run-level part.)
-/
import LccModel.Lemmas.Session

namespace LccModel.C02
open LccModel.Report LccModel.Session

/-- `session.is_successful(loc)` is false exactly when a failing event was fired at `loc`. -/
theorem location_failed_iff_failing_event (ops : List (Nat × Op)) (s : St) (h : runOps St.init ops = .ok s)
    (loc : Loc) : isSuccessful s loc = false ↔ ∃ e ∈ s.fired, failsAt e loc = true := by
  have hinv := inv_runOps ops St.init s inv_init h
  unfold isSuccessful
  rw [← hinv.sync loc]
  simp

/-- `session.is_successful()` (no location: what --stop-on-failure and the interrupt path read) is true
    exactly when no failing event has been fired at all. -/
theorem session_successful_iff_no_failing_event (ops : List (Nat × Op)) (s : St) (h : runOps St.init ops = .ok s) :
    isSuccessfulAll s = true ↔ ∀ e ∈ s.fired, ∀ loc, failsAt e loc = false := by
  have hinv := inv_runOps ops St.init s inv_init h
  unfold isSuccessfulAll
  constructor
  · intro he e hm loc
    cases hf : failsAt e loc with
    | false => rfl
    | true =>
      have : loc ∈ s.failures := (hinv.sync loc).mpr ⟨e, hm, hf⟩
      rw [List.isEmpty_iff] at he
      rw [he] at this; cases this
  · intro hall
    rw [List.isEmpty_iff]
    cases hfl : s.failures with
    | nil => rfl
    | cons l rest =>
      have : l ∈ s.failures := by rw [hfl]; simp
      obtain ⟨e, hm, hf⟩ := (hinv.sync l).mp this
      rw [hall e hm l] at hf; cases hf

/-- Held events are never failing events: nothing that marks a location failed can be discarded by the
    hold/discard protocol (an error is never elided together with an empty step). -/
theorem held_events_never_failing (ops : List (Nat × Op)) (s : St) (h : runOps St.init ops = .ok s)
    (tid : Nat) (c : Cursor) (hc : getCursor s tid = some c) (e : Event) (he : e ∈ c.pending) (loc : Loc) :
    failsAt e loc = false :=
  holdable_not_fails e loc (pending_holdable (inv_runOps ops St.init s inv_init h).held hc e he)

/-! Non-vacuity: a test that logs an error inside a step is marked failed and the error event is fired. -/
example : (match runOps St.init [(1, .startTest ["s", "t"] default), (1, .setStep "a"), (1, .log .error "boom"),
            (1, .endTest ["s", "t"])] with
    | .ok s => (isSuccessful s (.test ["s", "t"]), s.fired.length)
    | .error _ => (true, 0)) = (false, 5) := by decide

end LccModel.C02

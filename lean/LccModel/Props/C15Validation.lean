/-
  C15, validation side — "… is only ever handed to the thread that created it".

  A per-thread fixture's value is obtained by `_PerThreadFixtureResult.get() = get_object().get()` ON THE THREAD
  THAT ASKS.  Tests and test-scoped fixtures are evaluated on the worker thread that runs the test, so whatever
  they receive was created by that very thread (`LccModel.C15.get_returns_own_object`).  The parameters of a
  session- or suite-scoped fixture, however, are resolved ONCE, by the thread that runs the session / suite
  set-up task (`ScheduledFixtures._setup_fixture`), and — for a per-thread dependent — that one dictionary is then
  passed to the fixture function on every worker thread.  A session/suite-scoped fixture depending on a per-thread
  fixture would therefore hand ONE thread's instance to other threads.  The code excludes that shape at project
  validation time (`FixtureRegistry.check_dependencies`, third loop; `check_fixtures_in_suite` for the fixtures a
  suite uses itself); the theorems below state the rule outright for the model of `Model/Fixture.lean` (the model
  C14 validates against `PreparedProject.create`; here it is tied to the code by the decision tables of
  `Generated/C15TablesCheck.lean` and by the `C15.run` stream, which sends every generated project through the
  real `PreparedProject.create`).
-/
import LccModel.Lemmas.FixtureCheck
import LccModel.Model.FixtureDecl

namespace LccModel.C15V
open LccModel.Fixture

/-- **A project accepted by validation never has a non-test-scoped fixture depending on a per-thread
    fixture**: in a registry `check_dependencies` accepts, every fixture that takes a per-thread fixture as a
    parameter has scope `test`. -/
theorem accepted_only_test_scoped_depend_on_per_thread (R : Registry) (wf : WF R)
    (h : checkDependencies R = .ok ()) :
    ∀ f ∈ R, ∀ g ∈ R, g.name ∈ fparams f → g.perThread = true → f.scope = .test := by
  have := ((checkDependencies_ok_iff_spec R wf).mp h).2.2.2.2
  intro f hf g hg hp hpt
  exact this f hf g.name hp g hg rfl hpt

/-- … and conversely such a dependency is always REJECTED, with a `ValidationError` (never a crash): whatever
    else the registry contains, `check_dependencies` returns an error that is one of the code's
    `ValidationError`s. -/
theorem wider_scoped_dependent_on_per_thread_is_rejected (R : Registry) (wf : WF R) {f g : Fixture}
    (hf : f ∈ R) (hg : g ∈ R) (hp : g.name ∈ fparams f) (hpt : g.perThread = true) (hs : f.scope ≠ .test) :
    ∃ e, checkDependencies R = .error e ∧ e.isValidation = true := by
  cases h : checkDependencies R with
  | ok u =>
    cases u
    exact absurd (accepted_only_test_scoped_depend_on_per_thread R wf h f hf g hg hp hpt) hs
  | error e =>
    refine ⟨e, rfl, ?_⟩
    rcases checkDependencies_error_cases R wf h with
      ⟨f, _, rfl, _⟩ | ⟨x, rfl, _⟩ | ⟨p, x, rfl, _⟩ | ⟨f, _, g, _, rfl, _⟩ | ⟨f, _, g, _, rfl, _⟩ <;> rfl

/-- **A per-thread fixture never depends on a per-thread fixture** in an accepted project: the decorator only
    lets a per-thread fixture have scope `session` or `suite` (`declAllowed`), and those are not `test`. -/
theorem per_thread_dependent_on_per_thread_is_rejected (R : Registry) (wf : WF R) {f g : Fixture}
    (hf : f ∈ R) (hg : g ∈ R) (hp : g.name ∈ fparams f) (hgpt : g.perThread = true)
    (hfpt : f.perThread = true) (hdecl : declAllowed f.scope f.perThread = true) :
    ∃ e, checkDependencies R = .error e ∧ e.isValidation = true := by
  apply wider_scoped_dependent_on_per_thread_is_rejected R wf hf hg hp hgpt
  intro hs
  rw [hfpt, hs] at hdecl
  simp [declAllowed] at hdecl

/-- A suite itself (injected fixture attribute, `setup_suite` argument — evaluated by the suite set-up task)
    never uses a per-thread fixture in an accepted project. -/
theorem accepted_suite_uses_no_per_thread (R : Registry) (S : List Suite)
    (h : checkFixturesInSuites R S = .ok ()) :
    ∀ s ∈ flattenSuites S, ∀ n ∈ s.fixtures, ∃ f, lookup R n = some f ∧ f.perThread = false := by
  intro s hs n hn
  obtain ⟨f, h1, h2, _⟩ := ((checkSuites_ok_iff R S).mp h s hs).1 n hn
  exact ⟨f, h1, h2⟩

/-- **The decision table of the direct-dependency rule**, in closed form, for the project declaring `g()` and
    `f(g)` — all 4 × 2 × 4 × 2 combinations of (scope, per_thread): rejected as "incompatible with per-thread
    fixture" iff `g` is per-thread and `f` is not test-scoped; otherwise rejected as a scope inversion iff `g`'s
    scope is narrower than `f`'s; otherwise accepted.  (`Generated/C15TablesCheck.lean` proves that the table
    obtained by executing the real `check_dependencies` is this function.) -/
theorem pair_decision_table (fs : Scope) (fpt : Bool) (gs : Scope) (gpt : Bool) :
    pairVerdict fs fpt gs gpt =
      if gpt = true ∧ fs ≠ .test then .perThreadDep
      else if gs.level < fs.level then .scopeInversion
      else .accepted := by
  cases fs <;> cases gs <;> cases fpt <;> cases gpt <;> decide

/-- the decorator's table: `per_thread=True` with scope `test` or `pre_run` is refused at declaration time -/
theorem decl_table :
    declAllowed .test true = false ∧ declAllowed .preRun true = false ∧
    declAllowed .suite true = true ∧ declAllowed .session true = true ∧
    (∀ s, declAllowed s false = true) := by
  refine ⟨rfl, rfl, rfl, rfl, ?_⟩
  intro s; cases s <;> rfl

/-- non-vacuity: the shapes of the statement — a per-thread fixture depending on a per-thread fixture is rejected,
    a test-scoped fixture depending on a per-thread fixture and a per-thread fixture depending on a shared
    session fixture are accepted -/
example : pairVerdict .session true .session true = .perThreadDep := by decide
example : pairVerdict .suite true .session true = .perThreadDep := by decide
example : pairVerdict .session false .suite true = .perThreadDep := by decide
example : pairVerdict .test false .suite true = .accepted := by decide
example : pairVerdict .session true .session false = .accepted := by decide
example : pairVerdict .session true .suite false = .scopeInversion := by decide

/-! ### the rule does not look at `disabled` (nor at `--force-disabled`, which validation does not even receive) -/

mutual
/-- **The verdict of `check_fixtures_in_suites` does not depend on which suites are marked disabled**: replacing every
    `disabled` mark of the tree — own marks, hence also the inherited ones — by anything leaves the result unchanged,
    error included. -/
theorem checkSuite_independent_of_disabled (R : Registry) (d : String → Bool) :
    ∀ s : Suite, checkSuite R (relabelSuite d s) = checkSuite R s
  | .mk path dis inj args tests subs => by
    unfold relabelSuite checkSuite
    rw [checkSuites_independent_of_disabled R d subs]
theorem checkSuites_independent_of_disabled (R : Registry) (d : String → Bool) :
    ∀ S : List Suite, checkSuites R (relabelSuites d S) = checkSuites R S
  | [] => by unfold relabelSuites; rfl
  | s :: rest => by
    unfold relabelSuites checkSuites
    rw [checkSuite_independent_of_disabled R d s, checkSuites_independent_of_disabled R d rest]
end

/-- **A suite that uses a per-thread fixture itself is always REJECTED** (injected attribute or `setup_suite` argument),
    with a `ValidationError` — whatever its `disabled` mark and those of the suites around it are (the hypothesis does
    not mention them), at any depth, whatever else the project contains.  So under `--force-disabled`, where a disabled
    suite is set up by ONE thread whose instance would be put on the suite object for the tests of every worker, no such
    project is ever run. -/
theorem suite_using_per_thread_is_rejected (R : Registry) (S : List Suite) {s : Suite} (hs : s ∈ flattenSuites S)
    {n : String} (hn : n ∈ s.fixtures) {f : Fixture} (hl : lookup R n = some f) (hpt : f.perThread = true) :
    ∃ e, checkFixturesInSuites R S = .error e ∧ e.isValidation = true := by
  cases h : checkFixturesInSuites R S with
  | ok u =>
    cases u
    obtain ⟨f', h1, h2⟩ := accepted_suite_uses_no_per_thread R S h s hs n hn
    rw [hl] at h1
    cases h1
    rw [hpt] at h2
    cases h2
  | error e => exact ⟨e, rfl, checkSuites_error_validation R S e h⟩

/-- **The decision table of the suite-level rule**, in closed form, for a suite using `g` itself — 3 (enabled / marked
    disabled / inside a suite marked disabled) × 2 (injected / `setup_suite` argument) × 4 × 2 (scope, per_thread):
    refused as "uses per-thread fixture" iff `g` is per-thread, else as "incompatible scope" iff `g` is test-scoped, else
    accepted.  (`Generated/C15TablesCheck.lean`: the table obtained by executing the real `check_fixtures_in_suites` on
    real `Suite` objects is this function.) -/
theorem suite_use_decision_table (st : SuiteState) (how : SuiteHow) (gs : Scope) (gpt : Bool) :
    suiteUseVerdict st how gs gpt =
      if gpt = true then .suitePerThread
      else if gs.level < Scope.suite.level then .suiteScope
      else .accepted := by
  cases st <;> cases how <;> cases gs <;> cases gpt <;> decide

/-- … in particular the verdict for a disabled suite (own mark or inherited) is the one for an enabled suite -/
theorem suite_use_verdict_independent_of_disabled (st : SuiteState) (how : SuiteHow) (gs : Scope) (gpt : Bool) :
    suiteUseVerdict st how gs gpt = suiteUseVerdict .enabled how gs gpt := by
  rw [suite_use_decision_table, suite_use_decision_table]

/-- non-vacuity: a disabled suite injecting a per-thread fixture is refused, one injecting a shared session fixture is
    accepted, one injecting a test-scoped fixture is refused for its scope -/
example : suiteUseVerdict .disabledOwn .injected .session true = .suitePerThread := by decide
example : suiteUseVerdict .disabledInherited .setupArg .suite true = .suitePerThread := by decide
example : suiteUseVerdict .disabledOwn .injected .session false = .accepted := by decide
example : suiteUseVerdict .disabledInherited .injected .test false = .suiteScope := by decide
example : relabelSuites (fun _ => false) (suiteUseTree .disabledOwn .injected) = suiteUseTree .enabled .injected := rfl

end LccModel.C15V

/-
  C15 — "per thread" means per OS thread, whatever execution context the access is made from.

  Property theorems only (model M14d `Model/ThreadsCtx.lean`, lemmas `Lemmas/ThreadsCtx.lean`).  The
  histories quantified over are ALL sequences of successful `get_object` calls `get t c` — made by any OS
  thread `t` while any `contextvars` context `c` is current: the plain body of a test, a coroutine driven by
  `asyncio.run`, an asyncio task, `copy_context().run`, a helper thread fed with a copy of the caller's
  context by `asyncio.to_thread` — and of context copies `copy c c'`.  The line-level interleavings INSIDE
  `get_object` are `LccModel.C15` (`Props/C15.lean`); which key the real class uses is the extracted table
  `slotKeyTable` (`Generated/C15TablesCheck.lean: slot_key_table_agrees`).
-/
import LccModel.Lemmas.ThreadsCtx

namespace LccModel.C15Ctx
open LccModel.Threads.Ctx

/-- clause 1 — at most one object is created per OS thread, from whatever contexts it accesses the factory -/
theorem at_most_one_creation_per_os_thread (es : List Ev) (t : Nat) : (run .thread init es).creations t ≤ 1 := by
  have h := (run_inv es inv_init).creat t
  rw [h]; split <;> omega

/-- clause 2 — an access only ever receives an object created by the OS thread that makes the access, also
    when that thread runs in a copy of ANOTHER thread's context (`asyncio.to_thread`, executors) -/
theorem object_only_handed_to_its_creating_os_thread (es : List Ev) (t o : Nat)
    (h : (t, o) ∈ (run .thread init es).returned) : (run .thread init es).creator o = some t := by
  have hi := run_inv es inv_init
  exact (hi.slotOwn t o (hi.ret (t, o) h)).1

theorem object_never_handed_to_two_os_threads (es : List Ev) (t u o : Nat)
    (h₁ : (t, o) ∈ (run .thread init es).returned) (h₂ : (u, o) ∈ (run .thread init es).returned) : t = u := by
  have a := object_only_handed_to_its_creating_os_thread es t o h₁
  have b := object_only_handed_to_its_creating_os_thread es u o h₂
  rw [a] at b; injection b

/-- clause 3 — all accesses of one OS thread receive the same object: a first access made inside
    `asyncio.run` / a task / a copied context is not lost for the later tests of the thread -/
theorem same_object_for_every_access_of_an_os_thread (es : List Ev) (t o o' : Nat)
    (h₁ : (t, o) ∈ (run .thread init es).returned) (h₂ : (t, o') ∈ (run .thread init es).returned) : o = o' := by
  have hi := run_inv es inv_init
  have a := hi.ret (t, o) h₁
  have b := hi.ret (t, o') h₂
  simp only at a b
  rw [a] at b; injection b

/-- **contexts play no role**: the whole history — who created what, what was handed to whom — is the one
    obtained after forgetting every context (and every copy) -/
theorem history_independent_of_contexts (es : List Ev) :
    run .thread init es = run .thread init (es.map Ev.eraseCtx) := (run_eraseCtx es init).symm

/-- the decision table in closed form: the second access finds the object of the first iff it is made by
    the same OS thread (what `Generated/C15TablesCheck.lean` compares with the real class) -/
theorem hit_iff_same_os_thread (first second : Where) (other : Bool) : hit .thread first other second = !other := by
  cases first <;> cases second <;> cases other <;> decide

/-- **Refutation of the context-keyed slot (a `contextvars.ContextVar`), (a) lost objects**: the first access
    of thread 1 is made inside `asyncio.run` (context 10, a copy of its base context 1); the next test of the
    same thread accesses the factory from the base context: a SECOND object is created for thread 1. -/
theorem context_keyed_slot_creates_twice_per_thread :
    (run .context init [.copy 1 10, .get 1 10, .get 1 1]).creations 1 = 2 := by decide

/-- **…(b) shared objects**: thread 1 creates its object; a helper thread 2 is fed with a copy of thread 1's
    context (`asyncio.to_thread`): it is handed the object created by thread 1. -/
theorem context_keyed_slot_hands_object_to_another_thread :
    let s := run .context init [.get 1 1, .copy 1 20, .get 2 20]
    s.returned = [(1, 0), (2, 0)] ∧ s.creator 0 = some 1 := by decide

/-- the two keys differ on 8 of the 18 rows of the decision table (so the extracted table separates them) -/
example : ([Where.base, .copied, .fresh].flatMap fun f => [false, true].flatMap fun o => [Where.base, .copied, .fresh].map fun s =>
    hit .thread f o s != hit .context f o s).count true = 8 := by decide

/-- non-vacuity: the same histories with the thread-keyed slot -/
example : (run .thread init [.copy 1 10, .get 1 10, .get 1 1]).creations 1 = 1 := by decide
example : (run .thread init [.get 1 1, .copy 1 20, .get 2 20]).returned = [(1, 0), (2, 1)] := by decide

end LccModel.C15Ctx

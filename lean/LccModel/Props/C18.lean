/-
  C18 — Replaying a report reproduces it.

  Property theorems only (helper lemmas: `Lemmas/Replay.lean`, `Lemmas/ReplayGrammar.lean`).

  `replay now tid r` is the list of events `replay_report_events` fires (model of `reporting/replay.py` WITH the
  candidate fix `fixes/D6-replay-unfinished-step.diff`); `now` is what `time.time()` returns inside
  `Event.__init__` (`event_time or time.time()`), assumed non-zero; `Writer.fold es r0` is a fresh `ReportWriter`
  over the report object `r0` fed with `es`.  Events do not carry title, info, nb_threads or saving time: those are
  `r0`'s.  The writer copies `rank` from the replayed nodes, so the rebuilt report holds the suites exactly as the
  accessors present the original (`Writer.view r`: stable sort by rank at every level, ranks kept).

  RANKS.  `rank` is an in-memory attribute: no file format carries it, a LOADED report has rank 0 on every node and
  holds its children in the order of the file (`Serial.loaded g r`, the right-hand side of C09's round-trip
  theorems).  None of the theorems below assumes anything about ranks: `replay_roundtrip_partial` holds for every
  assignment of ranks (the result is spelled with `view r`, which for a report whose ranks are all 0 IS `r.suites`),
  `replay_roundtrip_loaded_partial` is that instance — literal identity, so the order in which replay walks the
  children is the only thing that can restore the order of the report — and `save_load_replay_roundtrip_partial` /
  `xml_save_load_replay_roundtrip_partial` compose it with the save/load theorems of C09: report → file → loaded
  report → events → aggregate = loaded report, whatever ranks the saved report had.  `replay_roundtrip_seen_partial` is the
  rank-free form for in-memory reports: the aggregate and the original are the same to every reader.

  `namesOk r` (sibling suites and the tests of a suite have distinct names) is what makes a path address one node;
  for tests it is forced by Python (`_tests` is a dict), for suites it is what every run produces.
-/
import LccModel.Lemmas.Replay
import LccModel.Lemmas.ReplayGrammar
import LccModel.Lemmas.ReplayLoaded
import LccModel.Props.C09

namespace LccModel.C18
open LccModel.Report LccModel.Writer LccModel.Replay LccModel.ReplayGrammar LccModel.Grammar LccModel.Serial

/-! ## the stream -/

/-- Sentence 1a, for ANY report (finished or not, any shape): the replayed stream satisfies containment — session
    start first; every suite, result, step and log lies inside its started parent; every end event matches a start;
    every log is inside the step open for the emitting thread at that step's location. -/
theorem replay_contained (now : Time) (hnow : now ≠ 0) (tid : Nat) (r : Report) : Contained (replay now tid r) := by
  obtain ⟨g, hg⟩ := lenient_replay now hnow tid r
  simp [Contained, hg]

/-- Sentence 1b, for every FINISHED report: the replayed stream is a complete well-formed stream in the sense of C07
    (session end last, nothing left open, no double start, ends only after everything inside ended, a single event
    for a skipped or disabled test) and strictly sequential (results never overlap, suite events only between
    results).

    Full-strength statement (`∀ r, WellFormed … ∧ Sequential …`) is false: a report without end times has starts
    without ends by construction; see `replay_of_unfinished_test_not_sequential` and
    `replay_of_stray_unfinished_step_not_wellformed`. -/
theorem replay_wellformed (now : Time) (hnow : now ≠ 0) (tid : Nat) (r : Report) (hf : finished r = true) :
    WellFormed (replay now tid r) ∧ Sequential (replay now tid r) := by
  constructor
  · exact ⟨_, strict_replay .parallel rfl now hnow tid r hf, rfl⟩
  · simp [Sequential, strict_replay .seq rfl now hnow tid r hf]

/-! ## the aggregation -/

/-- What replay + aggregation computes, for EVERY report with distinct sibling names: the writer never raises and
    ends with exactly `replayImage now r0 r` (times through `event_time or now`, falsy end times dropped, statuses of
    started results recomputed from their logs, skipped / disabled tests re-created by `_bypass_test`). -/
theorem replay_fold_image (now : Time) (tid : Nat) (r r0 : Report) (h0 : r0.suites = []) (hn : namesOk r = true) :
    fold (replay now tid r) r0 = .ok (replayImage now r0 r) :=
  fold_replay now tid r r0 h0 hn

/-- Sentence 2 under the exact guard `replayExact` (every time that travels in an event is real, every result is as
    `ReportWriter` leaves it): the aggregation of the replayed stream is the original report — same start / end,
    same setup / teardown, and the suites exactly as the accessors present them.

    Full-strength statement (`∀ r, …`) is false: see `zero_time_becomes_now`, and, for the unfixed code,
    `unfixed_replay_gives_unfinished_step_an_end_time`. -/
theorem replay_roundtrip_partial (now : Time) (tid : Nat) (r r0 : Report)
    (h0 : r0.suites = [] ∧ r0.setup = none ∧ r0.teardown = none ∧ r0.endTime = none)
    (hn : namesOk r = true) (he : replayExact r = true) :
    fold (replay now tid r) r0 =
      .ok { r0 with startTime := r.startTime, endTime := r.endTime, setup := r.setup, teardown := r.teardown,
                    suites := view r } := by
  rw [fold_replay now tid r r0 h0.1 hn, replayImage_of_exact now r0 r h0.1 he]
  simp [h0.2.1, h0.2.2.1, h0.2.2.2]

/-- Sentence 2 in rank-free form, for an in-memory report with ANY ranks: the aggregate of the replayed stream and the
    original are the same report to every reader — `view` (what `get_suites()` / `get_tests()` return at every
    level) of one is `view` of the other, and the times and setup / teardown results are equal. -/
theorem replay_roundtrip_seen_partial (now : Time) (tid : Nat) (r r0 : Report)
    (h0 : r0.suites = [] ∧ r0.setup = none ∧ r0.teardown = none ∧ r0.endTime = none)
    (hn : namesOk r = true) (he : replayExact r = true) :
    ∃ r', fold (replay now tid r) r0 = .ok r' ∧ view r' = view r ∧ r'.startTime = r.startTime ∧ r'.endTime = r.endTime ∧
      r'.setup = r.setup ∧ r'.teardown = r.teardown :=
  ⟨_, replay_roundtrip_partial now tid r r0 h0 hn he, view_view r _ rfl, rfl, rfl, rfl, rfl⟩

/-! ## loaded reports: nothing left of the ranks -/

/-- Sentence 2 for a report as a deferred backend gets it — LOADED from a file: every rank is 0 and the children
    are held in the order of the file.  The aggregation of the replayed stream is literally that report: same
    times, same setup / teardown, the same suites and tests IN THE SAME ORDER (no sort can help: all ranks are equal),
    whatever their start times and their names are.  Same exact guard as `replay_roundtrip_partial`. -/
theorem replay_roundtrip_loaded_partial (now : Time) (tid : Nat) (r r0 : Report)
    (h0 : r0.suites = [] ∧ r0.setup = none ∧ r0.teardown = none ∧ r0.endTime = none)
    (hn : namesOk r = true) (he : replayExact r = true) (hz : ranksZeroList r.suites = true) :
    fold (replay now tid r) r0 =
      .ok { r0 with startTime := r.startTime, endTime := r.endTime, setup := r.setup, teardown := r.teardown,
                    suites := r.suites } := by
  rw [replay_roundtrip_partial now tid r r0 h0 hn he, view_of_zero r hz]

/-- The whole path of a deferred backend, JSON: ANY ranks on the saved report `r` (insertion order ≠ rank order ≠
    start-time order allowed); the file loads to `l = Serial.loaded g r` (C09 `json_roundtrip`), and replaying `l`
    into a fresh writer gives `l` back, literally, apart from the fields events do not carry (title, info,
    nb_threads, saving time: those of `r0`). -/
theorem save_load_replay_roundtrip_partial (g now : Time) (tid : Nat) (r r0 : Report)
    (h0 : r0.suites = [] ∧ r0.setup = none ∧ r0.teardown = none ∧ r0.endTime = none)
    (hrep : representable r = true) (hn : namesOk r = true) (he : replayExact r = true) :
    ∃ l, fromJson (toJson g r) = .ok l ∧ l = loaded g r ∧
      fold (replay now tid l) r0 =
        .ok { r0 with startTime := l.startTime, endTime := l.endTime, setup := l.setup, teardown := l.teardown,
                      suites := l.suites } :=
  ⟨loaded g r, C09.json_roundtrip g r hrep, rfl,
    replay_roundtrip_loaded_partial now tid (loaded g r) r0 h0 (namesOk_loaded g r hn) (replayExact_loaded g r he)
      (ranksZero_loaded g r)⟩

/-- The same through the XML backend, for the reports the XML format carries (`xmlSafe`, C09). -/
theorem xml_save_load_replay_roundtrip_partial (g now : Time) (tid : Nat) (r r0 : Report)
    (h0 : r0.suites = [] ∧ r0.setup = none ∧ r0.teardown = none ∧ r0.endTime = none)
    (hs : xmlSafe r = true) (hrep : representable r = true) (hn : namesOk r = true) (he : replayExact r = true) :
    ∃ l, xmlRoundTrip g r = .loaded l ∧ l = loaded g r ∧
      fold (replay now tid l) r0 =
        .ok { r0 with startTime := l.startTime, endTime := l.endTime, setup := l.setup, teardown := l.teardown,
                      suites := l.suites } := by
  obtain ⟨l, h1, h2⟩ := C09.xml_roundtrip_pipeline_partial g r hs hrep
  subst h2
  refine ⟨loaded g r, h1, rfl, ?_⟩
  exact replay_roundtrip_loaded_partial now tid (loaded g r) r0 h0 (namesOk_loaded g r hn) (replayExact_loaded g r he)
    (ranksZero_loaded g r)

/-- Sentence 1b on the loaded form: the report of a finished run, saved and loaded, replays to a complete
    well-formed, strictly sequential stream (a finished report stays finished through the file). -/
theorem replay_wellformed_loaded (g now : Time) (hnow : now ≠ 0) (tid : Nat) (r : Report) (hf : finished r = true) :
    WellFormed (replay now tid (loaded g r)) ∧ Sequential (replay now tid (loaded g r)) :=
  replay_wellformed now hnow tid (loaded g r) (finished_loaded g r hf)

/-! ### non-vacuity: a finished report with nested suites, setup, all log kinds, a skipped and a failed test, and an
    in-progress report with an unfinished step, satisfy the guards -/

def md (name : String) (rank : Nat) : Meta :=
  { name := name, description := "d", tags := ["t"], properties := [("k", "v")], links := [("u", none)], rank := rank }

def stepA : Step :=
  { description := "a", startTime := some 11, endTime := some 15,
    entries := [.log .info "m" 12, .check "c" false (some "d") 13, .attachment "x" "f.png" true 14, .url "h" "http://x" 14] }

def doneTest (name : String) (rank : Nat) : TestResult :=
  { md := md name rank,
    result := { steps := [stepA], startTime := some 10, endTime := some 16, status := some .failed, statusDetails := none } }

def skippedTest : TestResult :=
  { md := md "sk" 0,
    result := { steps := [], startTime := some 17, endTime := some 17, status := some .skipped, statusDetails := some "why" } }

def finishedReport : Report :=
  { Report.empty with
      startTime := some 1, endTime := some 30,
      setup := some { steps := [], startTime := some 2, endTime := some 3, status := some .passed, statusDetails := none },
      suites := [.mk (md "s" 1) (some 4) (some 29) none none [doneTest "b" 2, skippedTest]
                    [.mk (md "sub" 0) (some 18) (some 28) none none [doneTest "c" 0] []],
                 .mk (md "r" 0) (some 4) (some 5) none none [] []] }

def runningReport : Report :=
  { Report.empty with
      startTime := some 1, endTime := none,
      suites := [.mk (md "s" 0) (some 4) none none none
                    [{ md := md "t" 0,
                       result := { steps := [{ stepA with endTime := none }], startTime := some 10, endTime := none,
                                   status := none, statusDetails := none } }] []] }

example : finished finishedReport = true ∧ namesOk finishedReport = true ∧ replayExact finishedReport = true := by decide
example : finished runningReport = false ∧ namesOk runningReport = true ∧ replayExact runningReport = true := by decide

/-- a test that ran from `t` to `t + 3` -/
def testAt (name : String) (t : Nat) : TestResult :=
  { md := md name 0,
    result := { steps := [{ description := "s", startTime := some (t + 1), endTime := some (t + 2), entries := [.log .info "m" (t + 1)] }],
                startTime := some t, endTime := some (t + 3), status := some .passed, statusDetails := none } }

/-- a report in loaded shape (ranks 0) whose siblings are NOT in start-time order at any level (the dependent test
    `compat_1.2` is listed first and ran last; suite `a.b` is listed before suite `a` and ran after it), with names
    that contain the separator of the string form of a path — one of them spelling the path of another node -/
def loadedOutOfOrder : Report :=
  { Report.empty with
      startTime := some 1, endTime := some 90,
      suites := [.mk (md "a.b" 0) (some 40) (some 80) none none [testAt "compat_1.2" 60, testAt "t" 50, testAt "" 50] [],
                 .mk (md "a" 0) (some 4) (some 30) none none [testAt "." 20]
                    [.mk (md "b" 0) (some 5) (some 19) none none [testAt "t" 10] []]] }

example : ranksZeroList loadedOutOfOrder.suites = true ∧ finished loadedOutOfOrder = true ∧ namesOk loadedOutOfOrder = true ∧
    replayExact loadedOutOfOrder = true ∧ representable loadedOutOfOrder = true ∧ xmlSafe loadedOutOfOrder = true := by decide
example : ranksZeroList finishedReport.suites = false ∧ representable finishedReport = true ∧ xmlSafe finishedReport = true := by decide

/-! ### refutations -/

def twoTests (firstEnd : Option Time) : Report :=
  { Report.empty with
      startTime := some 1, endTime := firstEnd.map (fun _ => 30),
      suites := [.mk (md "s" 0) (some 4) (firstEnd.map (fun _ => 29)) none none
                    [{ md := md "a" 0, result := { steps := [], startTime := some 10, endTime := firstEnd,
                                                   status := firstEnd.map (fun _ => .passed), statusDetails := none } },
                     doneTest "b" 1] []] }

/-- an in-progress test followed by another test (a snapshot of a parallel run): its replay is accepted by the
    parallel grammar as a prefix, but it is NOT sequential — and the same report with the first test ended is -/
theorem replay_of_unfinished_test_not_sequential :
    ¬ Sequential (replay 99 1 (twoTests none)) ∧ WellFormedPrefix (replay 99 1 (twoTests none)) ∧
    Sequential (replay 99 1 (twoTests (some 11))) := by decide

def strayStep : Report :=
  { Report.empty with
      startTime := some 1, endTime := some 30,
      suites := [.mk (md "s" 0) (some 4) (some 29) none none
                    [{ md := md "a" 0,
                       result := { steps := [{ stepA with endTime := none }, stepA], startTime := some 10, endTime := some 16,
                                   status := some .failed, statusDetails := none } }] []] }

/-- a step without end time followed by another step (steps of two threads inside one test): the replayed stream is
    contained but not well-formed — the single replay thread opens a second step while its first is still open -/
theorem replay_of_stray_unfinished_step_not_wellformed :
    ¬ WellFormedPrefix (replay 99 1 strayStep) ∧ Contained (replay 99 1 strayStep) := by decide

/-- … although its aggregation still is the report itself (with the D6 fix) -/
theorem replay_of_stray_unfinished_step_still_exact : replayExact strayStep = true ∧ namesOk strayStep = true := by decide

def firstStepEnd (r : Except WriterErr Report) : Option (Option Time) :=
  match r with
  | .ok r => match r.suites with
    | (.mk _ _ _ _ _ (t :: _) _) :: _ => match t.result.steps with
      | s :: _ => some s.endTime
      | _ => none
    | _ => none
  | .error _ => none

/-- D6 (`C18/replay/unfinished-step-acquires-end-time`), the code BEFORE the fix: `_replay_step` fires
    `StepEndEvent(event_time=None)` for a step without end time, so the rebuilt step ends "now" (99);
    with the guard the rebuilt step has no end time, like the original. -/
theorem unfixed_replay_gives_unfinished_step_an_end_time :
    let pre : List Event := [.sessionStart 1, .suiteStart ["s"] (md "s" 0) 4, .testStart ["s", "t"] (md "t" 0) 10]
    let s : Step := { stepA with endTime := none }
    firstStepEnd (fold (pre ++ replayStepUnfixed 99 1 (.test ["s", "t"]) s)) = some (some 99) ∧
    firstStepEnd (fold (pre ++ replayStep 99 1 (.test ["s", "t"]) s)) = some none := by decide

def firstLogTime (r : Except WriterErr Report) : Option Time :=
  match r with
  | .ok r => match r.suites with
    | (.mk _ _ _ _ _ (t :: _) _) :: _ => match t.result.steps with
      | s :: _ => match s.entries with
        | (.log _ _ t) :: _ => some t
        | _ => none
      | _ => none
    | _ => none
  | .error _ => none

def zeroLog : Report :=
  { Report.empty with
      startTime := some 1, endTime := some 30,
      suites := [.mk (md "s" 0) (some 4) (some 29) none none
                    [{ md := md "a" 0,
                       result := { steps := [{ stepA with entries := [.log .info "m" 0] }], startTime := some 10,
                                   endTime := some 16, status := some .passed, statusDetails := none } }] []] }

/-- `C18/replay/zero-time-becomes-now` (open finding): a time of exactly 0 is falsy for `event_time or time.time()`;
    the replayed log carries "now" (99) instead -/
theorem zero_time_becomes_now :
    firstLogTime (fold (replay 99 1 zeroLog)) = some 99 ∧ replayExact zeroLog = false := by decide

end LccModel.C18

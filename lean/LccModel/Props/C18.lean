/-
  C18 — Replaying a report reproduces it.

  Property theorems only (helper lemmas: `Lemmas/Replay.lean`, `Lemmas/ReplayGrammar.lean`).

  `replay now tid r` is the list of events `replay_report_events` fires (model of `reporting/replay.py` WITH the
  candidate fix `fixes/D6-replay-unfinished-step.diff`); `now` is what `time.time()` returns inside
  `Event.__init__` (`event_time or time.time()`), assumed non-zero; `Writer.fold es r0` is a fresh `ReportWriter`
  over the report object `r0` fed with `es`.  Events do not carry title, info, nb_threads or saving time: those are
  `r0`'s.  The writer copies `rank` from the replayed nodes, so the rebuilt report holds the suites exactly as the
  accessors present the original (`Writer.view r`: stable sort by rank at every level, ranks kept).

  `namesOk r` (sibling suites and the tests of a suite have distinct names) is what makes a path address one node;
  for tests it is forced by Python (`_tests` is a dict), for suites it is what every run produces.
-/
import LccModel.Lemmas.Replay
import LccModel.Lemmas.ReplayGrammar

namespace LccModel.C18
open LccModel.Report LccModel.Writer LccModel.Replay LccModel.ReplayGrammar LccModel.Grammar

/-! ## the stream -/

/-- Sentence 1a, for ANY report (finished or not, any shape): the replayed stream satisfies containment — session
    start first; every suite, result, step and log lies inside its started parent; every end event matches a start;
    every log is inside the step open for the emitting thread at that step's location. -/
theorem replay_contained (now : Time) (hnow : now ≠ 0) (tid : Nat) (r : Report) : Contained (replay now tid r) := by
  obtain ⟨g, hg⟩ := lenient_replay now hnow tid r
  simp [Contained, hg]

/-- Sentence 1b, for every FINISHED report: the replayed stream is a complete well-formed stream in the sense of C07
    (session end last, nothing left open, no double start, ends only after everything inside ended, a single event
    for a skipped or disabled test) and strictly sequential (results never overlap, suite events only between
    results).

    Full-strength statement (`∀ r, WellFormed … ∧ Sequential …`) is false: a report without end times has starts
    without ends by construction; see `replay_of_unfinished_test_not_sequential` and
    `replay_of_stray_unfinished_step_not_wellformed`. -/
theorem replay_wellformed (now : Time) (hnow : now ≠ 0) (tid : Nat) (r : Report) (hf : finished r = true) :
    WellFormed (replay now tid r) ∧ Sequential (replay now tid r) := by
  constructor
  · exact ⟨_, strict_replay .parallel rfl now hnow tid r hf, rfl⟩
  · simp [Sequential, strict_replay .seq rfl now hnow tid r hf]

/-! ## the aggregation -/

/-- What replay + aggregation computes, for EVERY report with distinct sibling names: the writer never raises and
    ends with exactly `replayImage now r0 r` (times through `event_time or now`, falsy end times dropped, statuses of
    started results recomputed from their logs, skipped / disabled tests re-created by `_bypass_test`). -/
theorem replay_fold_image (now : Time) (tid : Nat) (r r0 : Report) (h0 : r0.suites = []) (hn : namesOk r = true) :
    fold (replay now tid r) r0 = .ok (replayImage now r0 r) :=
  fold_replay now tid r r0 h0 hn

/-- Sentence 2 under the exact guard `replayExact` (every time that travels in an event is real, every result is as
    `ReportWriter` leaves it): the aggregation of the replayed stream is the original report — same start / end,
    same setup / teardown, and the suites exactly as the accessors present them.

    Full-strength statement (`∀ r, …`) is false: see `zero_time_becomes_now`, and, for the unfixed code,
    `unfixed_replay_gives_unfinished_step_an_end_time`. -/
theorem replay_roundtrip_partial (now : Time) (tid : Nat) (r r0 : Report)
    (h0 : r0.suites = [] ∧ r0.setup = none ∧ r0.teardown = none ∧ r0.endTime = none)
    (hn : namesOk r = true) (he : replayExact r = true) :
    fold (replay now tid r) r0 =
      .ok { r0 with startTime := r.startTime, endTime := r.endTime, setup := r.setup, teardown := r.teardown,
                    suites := view r } := by
  rw [fold_replay now tid r r0 h0.1 hn, replayImage_of_exact now r0 r h0.1 he]
  simp [h0.2.1, h0.2.2.1, h0.2.2.2]

/-! ### non-vacuity: a finished report with nested suites, setup, all log kinds, a skipped and a failed test, and an
    in-progress report with an unfinished step, satisfy the guards -/

def md (name : String) (rank : Nat) : Meta :=
  { name := name, description := "d", tags := ["t"], properties := [("k", "v")], links := [("u", none)], rank := rank }

def stepA : Step :=
  { description := "a", startTime := some 11, endTime := some 15,
    entries := [.log .info "m" 12, .check "c" false (some "d") 13, .attachment "x" "f.png" true 14, .url "h" "http://x" 14] }

def doneTest (name : String) (rank : Nat) : TestResult :=
  { md := md name rank,
    result := { steps := [stepA], startTime := some 10, endTime := some 16, status := some .failed, statusDetails := none } }

def skippedTest : TestResult :=
  { md := md "sk" 0,
    result := { steps := [], startTime := some 17, endTime := some 17, status := some .skipped, statusDetails := some "why" } }

def finishedReport : Report :=
  { Report.empty with
      startTime := some 1, endTime := some 30,
      setup := some { steps := [], startTime := some 2, endTime := some 3, status := some .passed, statusDetails := none },
      suites := [.mk (md "s" 1) (some 4) (some 29) none none [doneTest "b" 2, skippedTest]
                    [.mk (md "sub" 0) (some 18) (some 28) none none [doneTest "c" 0] []],
                 .mk (md "r" 0) (some 4) (some 5) none none [] []] }

def runningReport : Report :=
  { Report.empty with
      startTime := some 1, endTime := none,
      suites := [.mk (md "s" 0) (some 4) none none none
                    [{ md := md "t" 0,
                       result := { steps := [{ stepA with endTime := none }], startTime := some 10, endTime := none,
                                   status := none, statusDetails := none } }] []] }

example : finished finishedReport = true ∧ namesOk finishedReport = true ∧ replayExact finishedReport = true := by decide
example : finished runningReport = false ∧ namesOk runningReport = true ∧ replayExact runningReport = true := by decide

/-! ### refutations -/

def twoTests (firstEnd : Option Time) : Report :=
  { Report.empty with
      startTime := some 1, endTime := firstEnd.map (fun _ => 30),
      suites := [.mk (md "s" 0) (some 4) (firstEnd.map (fun _ => 29)) none none
                    [{ md := md "a" 0, result := { steps := [], startTime := some 10, endTime := firstEnd,
                                                   status := firstEnd.map (fun _ => .passed), statusDetails := none } },
                     doneTest "b" 1] []] }

/-- an in-progress test followed by another test (a snapshot of a parallel run): its replay is accepted by the
    parallel grammar as a prefix, but it is NOT sequential — and the same report with the first test ended is -/
theorem replay_of_unfinished_test_not_sequential :
    ¬ Sequential (replay 99 1 (twoTests none)) ∧ WellFormedPrefix (replay 99 1 (twoTests none)) ∧
    Sequential (replay 99 1 (twoTests (some 11))) := by decide

def strayStep : Report :=
  { Report.empty with
      startTime := some 1, endTime := some 30,
      suites := [.mk (md "s" 0) (some 4) (some 29) none none
                    [{ md := md "a" 0,
                       result := { steps := [{ stepA with endTime := none }, stepA], startTime := some 10, endTime := some 16,
                                   status := some .failed, statusDetails := none } }] []] }

/-- a step without end time followed by another step (steps of two threads inside one test): the replayed stream is
    contained but not well-formed — the single replay thread opens a second step while its first is still open -/
theorem replay_of_stray_unfinished_step_not_wellformed :
    ¬ WellFormedPrefix (replay 99 1 strayStep) ∧ Contained (replay 99 1 strayStep) := by decide

/-- … although its aggregation still is the report itself (with the D6 fix) -/
theorem replay_of_stray_unfinished_step_still_exact : replayExact strayStep = true ∧ namesOk strayStep = true := by decide

def firstStepEnd (r : Except WriterErr Report) : Option (Option Time) :=
  match r with
  | .ok r => match r.suites with
    | (.mk _ _ _ _ _ (t :: _) _) :: _ => match t.result.steps with
      | s :: _ => some s.endTime
      | _ => none
    | _ => none
  | .error _ => none

/-- D6 (`C18/replay/unfinished-step-acquires-end-time`), the code BEFORE the fix: `_replay_step` fires
    `StepEndEvent(event_time=None)` for a step without end time, so the rebuilt step ends "now" (99);
    with the guard the rebuilt step has no end time, like the original. -/
theorem unfixed_replay_gives_unfinished_step_an_end_time :
    let pre : List Event := [.sessionStart 1, .suiteStart ["s"] (md "s" 0) 4, .testStart ["s", "t"] (md "t" 0) 10]
    let s : Step := { stepA with endTime := none }
    firstStepEnd (fold (pre ++ replayStepUnfixed 99 1 (.test ["s", "t"]) s)) = some (some 99) ∧
    firstStepEnd (fold (pre ++ replayStep 99 1 (.test ["s", "t"]) s)) = some none := by decide

def firstLogTime (r : Except WriterErr Report) : Option Time :=
  match r with
  | .ok r => match r.suites with
    | (.mk _ _ _ _ _ (t :: _) _) :: _ => match t.result.steps with
      | s :: _ => match s.entries with
        | (.log _ _ t) :: _ => some t
        | _ => none
      | _ => none
    | _ => none
  | .error _ => none

def zeroLog : Report :=
  { Report.empty with
      startTime := some 1, endTime := some 30,
      suites := [.mk (md "s" 0) (some 4) (some 29) none none
                    [{ md := md "a" 0,
                       result := { steps := [{ stepA with entries := [.log .info "m" 0] }], startTime := some 10,
                                   endTime := some 16, status := some .passed, statusDetails := none } }] []] }

/-- `C18/replay/zero-time-becomes-now` (open finding): a time of exactly 0 is falsy for `event_time or time.time()`;
    the replayed log carries "now" (99) instead -/
theorem zero_time_becomes_now :
    firstLogTime (fold (replay 99 1 zeroLog)) = some 99 ∧ replayExact zeroLog = false := by decide

end LccModel.C18

/-
  C12 — "… including report-based selection": the report a selection is based on is the one that is AT THE PATH WHEN THE
  SELECTION IS MADE — also the second, third, … selection of the same process, after a new run has replaced the report under
  the same path (`Model/ReportStore.lean`), fifth seeded round.

  * `load_after_save`, `load_other_path`, `save_overwrites`: a path holds what was saved there last;
  * `select_in_any_process`, `run_reflects_current_reports`: every selection of a sequence is the reference selection
    (`Filter.selectCli`, characterised by `C12.from_report_iff` / `result_filter_iff`) on the report at that path at that moment,
    for every process history;
  * `selection_after_resave`, `second_selection_uses_second_report`: save R1 → select → save R2 over it → select again gives
    the selection on R2;
  * `selected_iff_accepted_in_current_report`: membership form — a project test is selected by the k-th report-based selection
    iff its path has an accepted result in the report saved last at that path.
-/
import LccModel.Model.ReportStore
import LccModel.Props.C12

namespace LccModel.C12Store
open LccModel.Filter LccModel.ReportStore

/-- a path holds what was saved there last -/
theorem load_after_save (d : Disk) (p : String) (r : List SuiteRes) : (d.save p r).load p = some r := by
  simp [Disk.save, Disk.load]

/-- saving elsewhere does not change what a path holds -/
theorem load_other_path (d : Disk) (p q : String) (r : List SuiteRes) (h : p ≠ q) : (d.save q r).load p = d.load p := by
  have hq : (q == p) = false := by simpa using fun e => h e.symm
  simp only [Disk.save, Disk.load, List.find?_cons, hq, List.find?_filter]
  congr 2
  funext e
  by_cases he : e.1 = p
  · simp [he, h]
  · simp [he]

/-- the second save wins -/
theorem save_overwrites (d : Disk) (p : String) (r1 r2 : List SuiteRes) : ((d.save p r1).save p r2).load p = some r2 :=
  load_after_save _ p r2

/-- **One selection in a process with any history** is the reference selection on the report that is at the path now. -/
theorem select_in_any_process (st : Proc) (d : Disk) (c : Cli) (p : String) (s : List Suite) :
    (selectIn st d c p s).2 = selectNow d c p s := by
  unfold selectIn selectNow loadReport
  by_cases h : c.reportBased = true
  · simp only [h, if_true]
    cases d.load p <;> rfl
  · simp only [h]; rfl

/-- **Every selection of a sequence is based on the report as it is at that moment**, for every process history. -/
theorem run_reflects_current_reports (st : Proc) (d : Disk) (ops : List Op) : run st d ops = runNow d ops := by
  induction ops generalizing st d with
  | nil => rfl
  | cons o rest ih =>
    cases o with
    | save p r => simp only [run, runNow, ih]
    | select c p s => simp only [run, runNow, ih, select_in_any_process]

/-- a report saved over another one, then a report-based selection on that path (whatever was saved or selected before, whatever
    happens to OTHER paths in between): the selection is the reference selection on the report saved last -/
theorem selection_after_resave (st : Proc) (d : Disk) (pre : List Op) (p : String) (r : List SuiteRes) (c : Cli) (s : List Suite)
    (hc : c.reportBased = true) :
    (run st d (pre ++ [.save p r, .select c p s])).getLast? = some (.sel (selectCli c r s)) := by
  rw [run_reflects_current_reports]
  induction pre generalizing d with
  | nil => simp [runNow, selectNow, hc, load_after_save]
  | cons o rest ih =>
    cases o with
    | save q r' => simpa [runNow] using ih (d.save q r')
    | select c' q s' =>
      simp only [List.cons_append, runNow]
      rw [List.getLast?_cons]
      rw [ih d]
      rfl

/-- save R1 → select → save R2 over it → select again: the first selection is the one on R1, the second the one on R2 -/
theorem second_selection_uses_second_report (st : Proc) (d : Disk) (p : String) (r1 r2 : List SuiteRes) (c1 c2 : Cli)
    (s1 s2 : List Suite) (h1 : c1.reportBased = true) (h2 : c2.reportBased = true) :
    run st d [.save p r1, .select c1 p s1, .save p r2, .select c2 p s2]
      = [.sel (selectCli c1 r1 s1), .sel (selectCli c2 r2 s2)] := by
  rw [run_reflects_current_reports]
  simp [runNow, selectNow, h1, h2, load_after_save]

/-- Membership form for any selection of any sequence: with a report-based command line whose filter is accepted, a test is
    selected iff it is a project test whose path has an accepted result in the report that is at the path NOW. -/
theorem selected_iff_accepted_in_current_report (st : Proc) (d : Disk) (c : Cli) (p : String) (S kept : List Suite)
    (R : List SuiteRes) (rf : ResultFilter) (hc : c.reportBased = true) (hrf : makeResultFilter c = .ok rf)
    (hd : d.load p = some R) (hsel : (selectIn st d c p S).2 = .sel (.ok kept)) (t : Hier × Node) :
    t ∈ flattenSuites [] kept ↔
      t ∈ flattenSuites [] S ∧ ∃ r ∈ flattenSuites [] R, rf.sel r.1 r.2 = true ∧ pathOf (resHier r) = pathOf (testHier t) := by
  rw [select_in_any_process] at hsel
  simp only [selectNow, hc, if_true, hd, Out.sel.injEq] at hsel
  simp only [selectCli, makeTestFilter, hc, if_true, hrf] at hsel
  simp only [loadSuites] at hsel
  split at hsel
  · cases hsel
  · simp only [Sel.truthy, if_true] at hsel
    split at hsel
    · cases hsel
    · cases hsel
      exact C12.from_report_iff rf R S t

end LccModel.C12Store

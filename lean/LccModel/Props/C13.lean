/-
  C13 — Suite discovery finds exactly the declared tests at the declared paths.

  Property theorems only (helper lemmas: `Lemmas/Loader*.lean`; model: `Model/Loader.lean`;
  specification `declDir` / `declFiles` / `declClsBody` / `accepts…`: `Model/LoaderSpec.lean`).
  Every theorem quantifies over *all* layouts: arbitrary nesting of directories, modules with or
  without `SUITE`, classes in classes, any mix of hidden / conditional / disabled / parametrized
  tests, any ranks, any attribute names.

  Reading of the property fixed here (see design.d/C13.md):
  * "declared path" = names of the enclosing directories, modules and suite classes, where a module
    whose only visible class is named like the file *is* that class (documented collapse) and a
    directory `x/` next to `x.py` contributes its suites to the suite of `x.py` (documented merge);
  * "declaration order" = rank order; for symbols without explicit `rank=` the global counter makes
    this the textual order (`tests_in_declaration_order`, `classes_in_declaration_order`);
  * hidden = `@lcc.hidden()` or `@lcc.visible_if(c)` with `c(obj)` a *false value* (any Python value:
    `None`, `0`, `''`, `[]`, an instance whose `__bool__`/`__len__` says so, … — `PyVal.truthy`), on a
    test, a class, or a module (`SUITE["visible_if"]`); section 3b.  Hiding a module hides what the *module* declares; a directory of
    the same name is a separate item and is still loaded (under a synthetic suite of that name).
-/
import LccModel.Lemmas.LoaderVis

namespace LccModel.C13
open LccModel.Loader

/-! ## 1. Exactness: the loaded tree flattens to the declared list (order, metadata, parameters) -/

/-- **Main theorem (`Loader.exact`).**  Whenever `load_suites_from_directory` succeeds on a layout,
    the tests of the loaded tree — with their full paths, names, descriptions, ranks, tags,
    properties, links, disabled flags and parameters, *in order* — are exactly the list the layout
    declares. -/
theorem load_directory_exact (d : Dir) (ss : List Suite) (h : loadDir d = .ok ss) :
    Suite.entriesList ss = declDir d := loadDir_entries d ss h

/-- Same for `load_suites_from_files` (no directory recursion, no rank sorting). -/
theorem load_files_exact (mods : List Module) (ss : List Suite) (h : loadFiles mods = .ok ss) :
    Suite.entriesList ss = declFiles mods := loadFiles_entries h

/-- `load_suite_from_file`: the returned suite is hidden exactly when the specification lists no
    item for the file; otherwise name, rank and the entries below it are the declared ones
    (collapse included). -/
theorem load_file_exact (m : Module) (s : Suite) (h : loadFile m = .ok s) :
    declFile m = if s.hidden then none else some ⟨.file m.stem, s.name, s.rank, s.body⟩ :=
  loadFile_declFile h

/-- `load_suite_from_class`: head metadata (name, description, rank, tags, properties, links,
    disabled, hidden flag), own tests and everything below are as declared. -/
theorem load_class_exact (c : Cls) (s : Suite) (h : loadClass c = .ok s) :
    s.head = clsSuiteHead c.head ∧ s.tests = declTests c.tests ∧ s.body = declClsBody c :=
  ⟨(loadClass_good h).head, (loadClass_good h).tests, (loadClass_good h).body⟩

/-! ## 2. Declaration order -/

/-- Tests keep their declaration order: if the ranks increase along the textual order (what the
    global counter produces), the visible tests come out in textual order, whatever the attribute
    names — i.e. whatever order `dir()` lists them in. -/
theorem tests_in_declaration_order (ds : List TestDecl) (h : ds.Pairwise (fun a b => a.rank < b.rank)) :
    declTests ds = ds.flatMap declDecl := declTests_of_increasing ds h

/-- Nested suite classes keep their declaration order under the same hypothesis. -/
theorem classes_in_declaration_order (cs : List Cls) (h : cs.Pairwise (fun a b => a.head.rank < b.head.rank)) :
    flattenKeyed (declClsList cs) = cs.flatMap declCls := classes_of_increasing cs h

/-- In general (explicit `rank=` allowed) discovery is a rank-sorted permutation. -/
theorem discovery_is_rank_sorted_permutation (ds : List TestDecl) :
    (discoverTests ds).Perm ds ∧ (discoverTests ds).Pairwise (fun a b => a.rank ≤ b.rank) :=
  ⟨discover_perm _ _ ds, discover_sorted _ _ ds⟩

/-- Inside a suite: its own tests first, then its nested classes (each in rank order). -/
theorem class_body_order (h : ClsHead) (tests : List TestDecl) (subs : List Cls) :
    declClsBody (.mk h tests subs) = testLeaves (declTests tests) ++ (discoverClasses subs).flatMap declCls :=
  declClsBody_eq h tests subs

/-- Sub-suites coming from *files and directories* are ordered by rank (ties by name): with automatic
    ranks that is alphabetical by file name, module-less directories (rank 0) first; in a suite that
    has both, class-based sub-suites come before file-based ones (`attach_ok_iff`). -/
theorem directory_suites_sorted_by_rank (items : List Item) :
    (orderItems items).Pairwise (fun a b => a.rank ≤ b.rank) := orderItems_sorted items

/-! ## 3. Hidden items, and nothing else, are omitted -/

/-- A test is listed iff it is an expansion of a *visible* test symbol of the body. -/
theorem hidden_tests_only_omitted (ds : List TestDecl) (t : Test) :
    t ∈ declTests ds ↔ ∃ d ∈ ds, d.vis.visible = true ∧ t ∈ expansions d := mem_declTests_iff ds t

/-- An entry is listed below a class iff it is one of its visible tests, or lies below a *visible*
    nested class (recursively).  Disabled items are not omitted: `disabled` occurs nowhere. -/
theorem hidden_classes_only_omitted (h : ClsHead) (tests : List TestDecl) (subs : List Cls) (e : Entry) :
    e ∈ declClsBody (.mk h tests subs) ↔
      (∃ t ∈ declTests tests, e = ([t.name], t)) ∨
      (∃ c ∈ subs, c.head.vis.visible = true ∧ ∃ e' ∈ declClsBody c, e = (c.head.suiteName :: e'.1, e'.2)) :=
  mem_declClsBody_iff h tests subs e

/-- Exactly once: as a multiset the listed tests are the concatenation of the visible expansions of
    every symbol. -/
theorem each_symbol_exactly_once (ds : List TestDecl) : (declTests ds).Perm (ds.flatMap declDecl) :=
  declTests_perm ds

/-! ## 3b. `visible_if`: the truth value of *whatever* the callable returns decides

  Sections 1–3 quantify over every `Vis`, hence over every value `v : PyVal` a condition may return.
  Here the decision itself: closed form, the expression the code evaluates, and its effect at the
  three levels (test, suite class, module). -/

/-- An item carrying `@lcc.visible_if(c)` is declared visible iff `c(obj)` is a true value. -/
theorem visible_if_decided_by_truth_value (st : Bool) (v : PyVal) : (Vis.cond st v).visible = v.truthy := rfl

/-- The false values, exhaustively: `None`, `False`, `0`, `0.0`, `-0.0`, `''`, empty `list` / `tuple` /
    `dict`, an instance whose `__bool__` returns `False`, an instance (without `__bool__`) of length 0.
    Everything else — `'0'`, `'False'`, `[0]`, `nan`, `object()` … — shows the item. -/
theorem falsy_values_exactly (v : PyVal) :
    v.truthy = false ↔
      (v = .none ∨ v = .bool false ∨ v = .int 0 ∨ v = .float (.fin 0) ∨ v = .float .negZero ∨ v = .str "" ∨
       v = .list 0 ∨ v = .tuple 0 ∨ v = .dict 0 ∨ v = .objBool false ∨ v = .objLen 0) :=
  PyVal.truthy_eq_false_iff v

/-- **The loader's expression.**  `hidden = md.condition is not None and not md.condition(obj)`, read by
    `if not x.hidden` (`_load_tests`, `load_suites_from_classes`, `load_suites_from_files`,
    `load_suites_from_directory`): the item is kept iff the returned value is true — for every value and
    every kind of callable (function, lambda, callable instance, callable instance that is itself a false
    value). -/
theorem loader_expression_is_truth_value (st : Bool) (v : PyVal) : (Vis.cond st v).shown = v.truthy := by
  rw [Vis.shown_eq_visible]; rfl

/-- … and in general it is `Vis.visible`: `@lcc.hidden()` hides, no condition shows. -/
theorem loader_expression (vis : Vis) : vis.shown = vis.visible := Vis.shown_eq_visible vis

/-- **D36 (repaired).**  A condition callable that is itself a false value is consulted exactly like any
    other: the item is shown iff the value it returns is true.  (Before the repair `md.condition and …`
    short-circuited on the callable's own truth value and always showed the item.) -/
theorem falsy_callable_condition_consulted (v : PyVal) :
    (Vis.cond false v).shown = v.truthy ∧ (Vis.cond false v).shown = (Vis.cond true v).shown := by
  simp only [Vis.shown_eq_visible]; exact ⟨rfl, rfl⟩

/-- The attribute `.hidden` is always a real boolean (`False` without condition) — never `None`, never
    the condition's own return value, never the callable. -/
theorem hidden_attribute_shape (vis : Vis) : vis.hiddenAttr = .bool (!vis.visible) := Vis.hiddenAttr_bool vis

/-- **Test level.**  What the specification lists for a conditional test symbol … -/
theorem conditional_test_listed_iff_truthy (d : TestDecl) (st : Bool) (v : PyVal) (hv : d.vis = .cond st v) :
    declDecl d = if v.truthy then expansions d else [] := declDecl_cond hv

/-- … and what `_load_tests` yields for it (all its parameter sets, or nothing). -/
theorem conditional_test_yielded_iff_truthy (d : TestDecl) (st : Bool) (v : PyVal) (hv : d.vis = .cond st v)
    (hk : templatesOk d = true) :
    expandDecl d = if v.truthy then (expansions d).map .ok else [] := expandDecl_cond hv hk

/-- **Class level.**  A loaded class suite is flagged hidden iff its condition value is false … -/
theorem conditional_class_hidden_iff_falsy (c : Cls) (s : Suite) (st : Bool) (v : PyVal)
    (hv : c.head.vis = .cond st v) (h : loadClass c = .ok s) : s.hidden = !v.truthy := by
  rw [loadClass_hidden h, hv]; rfl

/-- … the sub-suites kept by `load_suites_from_classes` are exactly the classes whose `Vis` is visible,
    in discovery order, each loaded by `load_suite_from_class` … -/
theorem conditional_classes_kept_iff_visible (c : Cls) (s : Suite) (h : loadClass c = .ok s) :
    Forall₂ (fun c' s' => loadClass c' = .ok s') (visibleClasses c.subs) s.subs := (loadClass_good h).subs

theorem visible_classes_iff (cs : List Cls) (c : Cls) :
    c ∈ visibleClasses cs ↔ c ∈ cs ∧ c.head.vis.visible = true := mem_visibleClasses

/-- … and what the class contributes to the declared list. -/
theorem conditional_class_listed_iff_truthy (c : Cls) (st : Bool) (v : PyVal) (hv : c.head.vis = .cond st v) :
    declCls c = if v.truthy then underSuite c.head.suiteName (declClsBody c) else [] := by
  unfold declCls; rw [hv]; rfl

/-- **Module level.**  `SUITE["visible_if"]`: the loaded module suite is flagged hidden iff the value is
    false; `load_suites_from_directory` enters it in its table iff the value is true, and
    `load_suites_from_files` returns it iff the value is true and the suite is not empty. -/
theorem conditional_module_hidden_iff_falsy (m : Module) (s : Suite) (i : SuiteInfo) (st : Bool) (v : PyVal)
    (hi : m.info = some i) (hv : i.vis = .cond st v) (h : loadFile m = .ok s) : s.hidden = !v.truthy := by
  rw [loadFile_hidden_of_info h hi, hv]; rfl

theorem conditional_module_in_table_iff_truthy (m : Module) (s : Suite) (i : SuiteInfo) (st : Bool) (v : PyVal)
    (hi : m.info = some i) (hv : i.vis = .cond st v) (h : loadFile m = .ok s) :
    loadModTable [m] = .ok (if v.truthy then [(Key.file m.stem, s)] else []) := by
  rw [loadModTable_single h, conditional_module_hidden_iff_falsy m s i st v hi hv h]
  cases v.truthy <;> rfl

theorem conditional_module_in_files_iff_truthy (m : Module) (s : Suite) (i : SuiteInfo) (st : Bool) (v : PyVal)
    (hi : m.info = some i) (hv : i.vis = .cond st v) (h : loadFile m = .ok s) :
    loadFiles [m] = .ok (if v.truthy && !s.isEmpty then [s] else []) := by
  rw [loadFiles_single h, conditional_module_hidden_iff_falsy m s i st v hi hv h]
  cases v.truthy <;> rfl

/-- Non-vacuity: false values that are not `False`, true values that are not `True` — on all levels. -/
example : (declTests [{ attr := "a", rank := 1, vis := .cond true .none }, { attr := "b", rank := 2, vis := .cond true (.str "0") },
                      { attr := "c", rank := 3, vis := .cond true (.int 0) }, { attr := "d", rank := 4, vis := .cond true (.list 1) },
                      { attr := "e", rank := 5, vis := .cond true (.float .negZero) }, { attr := "f", rank := 6, vis := .cond true (.float .nan) }]).map
    (·.name) = ["b", "d", "f"] := by decide

/-! ## 4. Parametrized tests -/

/-- One test per parameter set, in order, each carrying exactly its parameter set. -/
theorem parametrized_once_each (d : TestDecl) (sets : List Params) (n : Naming) (h : d.param = some (sets, n)) :
    (expansions d).map (·.params) = sets := by
  unfold expansions; rw [h]; exact declSets_params _ _ _ _

/-- Default naming scheme: `name_1, name_2, …` / `description #1, #2, …`. -/
theorem parametrized_default_names (d : TestDecl) (sets : List Params) (h : d.param = some (sets, .default)) :
    (expansions d).map (fun t => (t.name, t.desc))
      = (List.range' 1 sets.length).map (fun i => (d.testName ++ "_" ++ toString i, d.testDesc ++ " #" ++ toString i)) := by
  unfold expansions; rw [h]; exact declSets_default_names _ _ _

/-- Format naming scheme: both templates rendered with the parameter set. -/
theorem parametrized_format_names (d : TestDecl) (sets : List Params) (nt dt : List Seg)
    (h : d.param = some (sets, .format nt dt)) :
    (expansions d).map (fun t => (t.name, t.desc)) = sets.map (fun ps => (renderD ps nt, renderD ps dt)) := by
  unfold expansions; rw [h]; exact declSets_format_names _ _ _ _ _

/-- Metadata is carried to every expansion unchanged. -/
theorem metadata_preserved (d : TestDecl) (t : Test) (h : t ∈ expansions d) :
    t.rank = d.rank ∧ t.md = d.md ∧ t.disabled = d.disabled := expansions_meta d t h

/-- The totalised `renderD` of the specification is never what makes a theorem true: a body that
    loads has every template key present (hidden tests included). -/
theorem templates_ok_of_load (ds : List TestDecl) (ts : List Test) (h : loadTests ds = .ok ts) :
    ∀ d ∈ ds, templatesOk d = true := by
  have := ((loadTests_ok_iff ds ts).mp h).1
  unfold acceptsTests at this
  simp only [Bool.and_eq_true, List.all_eq_true] at this
  exact this.1.1

/-! ## 5. Duplicates are rejected — exactly these -/

/-- `Suite.add_test` loop: succeeds iff the stream raises nothing and the incoming tests keep names
    and descriptions pairwise distinct (among themselves and with the tests already there). -/
theorem add_tests_ok_iff (s : List (Except LoadErr Test)) (acc r : List Test) (hacc : NoClashT acc) :
    addAll acc s = .ok r ↔ ∃ ts, s = ts.map .ok ∧ r = acc ++ ts ∧ NoClashT (acc ++ ts) :=
  addAll_ok_iff s acc r hacc

/-- `Suite.add_suite` loop, same statement for sub-suites. -/
theorem add_suites_ok_iff (ss acc r : List Suite) (hacc : NoClashS acc) :
    addSuites acc ss = .ok r ↔ (r = acc ++ ss ∧ NoClashS (acc ++ ss)) := addSuites_ok_iff ss acc r hacc

/-- **Duplicates ⇔ error, class level, both directions** (`Loader.dup_rejected`).
    `load_suite_from_class c` raises iff `acceptsCls c` is false, i.e. iff the constructor raises, or
    a naming template misses a key, or two *visible* expanded tests of one class share a name or a
    description, or two *visible* nested classes of one class share a name or a description — at any
    depth, inside hidden classes too.  Not detected (accepted): a clash with or between hidden
    items; a test and a sub-suite of the same name. -/
theorem load_class_ok_iff (c : Cls) : (∃ s, loadClass c = .ok s) ↔ acceptsCls c = true :=
  loadClass_ok_iff_accepts c

theorem load_class_error_iff (c : Cls) : (∃ e, loadClass c = .error e) ↔ acceptsCls c = false := by
  rcases except_ok_or_error (loadClass c) with ⟨s, hs⟩ | ⟨e, he⟩
  · have := (load_class_ok_iff c).mp ⟨s, hs⟩
    simp [hs, this]
  · have : ¬ acceptsCls c = true := fun h => by
      obtain ⟨s, hs⟩ := (load_class_ok_iff c).mpr h
      rw [he] at hs; cases hs
    simp only [Bool.not_eq_true] at this
    simp [he, this]

/-- Same for a module file (`load_suite_from_file`), plus "the import raises". -/
theorem load_file_ok_iff (m : Module) : (∃ s, loadFile m = .ok s) ↔ acceptsModule m = true :=
  loadFile_exists_iff m

/-- Module + companion directory: adding the directory's non-empty suites `subs` to a suite whose
    sub-suites `ss` are clash-free succeeds iff `ss ++ subs` is clash-free (names, descriptions);
    the directory's suites are appended after the class-based ones. -/
theorem merge_ok_iff (h : SuiteHead) (ts : List Test) (ss subs : List Suite) (s' : Suite) (hno : NoClashS ss) :
    attach (.mk h ts ss) subs = .ok s' ↔ (s' = .mk h ts (ss ++ subs) ∧ NoClashS (ss ++ subs)) :=
  attach_ok_iff h ts ss subs s' hno

/-- A directory loads iff its module table loads, every sub-directory loads, and every merge step
    succeeds (`merge_ok_iff`); all modules of a directory that loads are accepted. -/
theorem load_directory_ok_iff (n : String) (mods : List Module) (dirs : List Dir) (ss : List Suite) :
    loadDir (.mk n mods dirs) = .ok ss ↔
      ∃ t t', loadModTable (sortMods mods) = .ok t ∧
        mergeDirs t ((sortDirs dirs).map (fun d => (d.name, loadDir d))) = .ok t' ∧
        ss = finalSort (t'.map Prod.snd) := loadDir_unfold n mods dirs ss

theorem module_table_ok_iff (ms : List Module) :
    (∃ t, loadModTable ms = .ok t) ↔ ∀ m ∈ ms, acceptsModule m = true := loadModTable_exists_iff ms

theorem load_directory_parts (n : String) (mods : List Module) (dirs : List Dir) (ss : List Suite)
    (h : loadDir (.mk n mods dirs) = .ok ss) :
    (∀ m ∈ mods, acceptsModule m = true) ∧ (∀ d ∈ dirs, ∃ ss', loadDir d = .ok ss') := loadDir_parts h

/-- **No duplicate is ever accepted inside a suite** (closed form, every directory tree): in every
    suite of every tree the loader returns, test names, test descriptions, sub-suite names and
    sub-suite descriptions are pairwise distinct.  (The *top-level* list is not a suite and is not
    checked — see `top_level_duplicates_accepted`.) -/
theorem loaded_tree_unique (d : Dir) (ss : List Suite) (h : loadDir d = .ok ss) : ∀ s ∈ ss, s.Unique :=
  loadDir_unique d ss h

theorem loaded_class_unique (c : Cls) (s : Suite) (h : loadClass c = .ok s) : s.Unique := loadClass_unique c s h

/-! ## 6. Collapse and merge -/

/-- `Loader.collapse`: a module without `SUITE`, without visible test function, whose only visible
    class is named like the file loads as that class (paths start with the name once, not twice). -/
theorem collapse_single_class (m : Module) (c : Cls) (s : Suite)
    (hi : m.info = none) (ht : declTests m.tests = []) (hv : visibleClasses m.classes = [c])
    (hn : c.head.suiteName = m.stem) (h : loadFile m = .ok s) : loadClass c = .ok s :=
  file_collapses hi ht hv hn h

/-- A module with a `SUITE` dict never collapses. -/
theorem no_collapse_with_suite_dict (m : Module) (i : SuiteInfo) (hi : m.info = some i) (hb : m.broken = false) :
    loadFile m = loadModule m := file_no_collapse_with_info hi hb

/-- `Loader.dir_merge`: directory `dn/` next to a (visible) module `dn.py`. -/
theorem dir_merge_into_module (t : Table) (dn : String) (s : Suite) (subs : List Suite)
    (hl : t.lookup (Key.file dn) = some s) :
    mergeDirs t [(dn, .ok subs)] = (attach s subs).map (fun s' => Table.update (Key.file dn) s' t) :=
  merge_into_module subs hl

/-- Directory without (visible) module: a suite named like the directory, description built from
    the name, rank 0, holding the directory's suites. -/
theorem dir_without_module (t : Table) (dn : String) (subs : List Suite) (hl : t.lookup (Key.file dn) = none) :
    mergeDirs t [(dn, .ok subs)] = (attach (synthetic dn) subs).map (fun s' => t ++ [(Key.dir dn, s')]) :=
  merge_without_module subs hl

/-- A hidden module leaves no entry in the table (so a directory of its name is "without module"). -/
theorem hidden_module_dropped (m : Module) (s : Suite) (h : loadFile m = .ok s) (hh : s.hidden = true) :
    loadModTable [m] = .ok [] := hidden_module_not_in_table h hh

/-! ## 7. Non-vacuity: concrete layouts (evaluated by the kernel) -/

def paths (r : Except LoadErr (List Suite)) : Option (List (List String)) :=
  match r with
  | .ok ss => some ((Suite.entriesList ss).map (·.1))
  | .error _ => none

def errOf (r : Except LoadErr α) : Option LoadErr :=
  match r with
  | .ok _ => none
  | .error e => some e

private def t (attr : String) (rank : Int) : TestDecl := { attr := attr, rank := rank }

/-- `suites/`: `a.py` (function `t1`, hidden `t2`, parametrized `t3` ×2, class `K` with nested `N`),
    `a/x.py` (companion directory), `b.py` = only class `b` (collapse), `d/y.py` (no `d.py`),
    `h.py` hidden by a `SUITE["visible_if"]` returning `None`; `K.k2` by a condition returning `0`. -/
def exDir : Dir :=
  .mk "suites"
    [ { stem := "a", autoRank := 9,
        tests := [t "t1" 1, { t "t2" 2 with vis := .hidden },
                  { t "t3" 3 with param := some ([[("i", .int 1)], [("i", .int 2)]], .default) }],
        classes := [.mk { attr := "K", rank := 8 } [t "k1" 4, { t "k2" 5 with vis := .cond true (.int 0) }]
                      [.mk { attr := "N", rank := 7 } [{ t "n1" 6 with disabled := .yes }] []]] },
      { stem := "b", autoRank := 13,
        classes := [.mk { attr := "b", rank := 12, desc := some "The b suite" } [t "b1" 10, t "b2" 11] []] },
      { stem := "h", autoRank := 15, info := some { vis := .cond true .none }, tests := [t "h1" 14] } ]
    [ .mk "a" [{ stem := "x", autoRank := 17, tests := [t "x1" 16] }] [],
      .mk "d" [{ stem := "y", autoRank := 19, tests := [t "y1" 18] }] [] ]

/-- The loader succeeds on `exDir` and finds: `d` first (rank 0), then `a` (own tests, class `K`,
    nested `N`, then the companion directory's `x`), then the collapsed `b`; `t2`, `k2`, `h.h1` omitted;
    the disabled `n1` present. -/
example : paths (loadDir exDir) =
    some [["d", "y", "y1"],
          ["a", "t1"], ["a", "t3_1"], ["a", "t3_2"], ["a", "K", "k1"], ["a", "K", "N", "n1"], ["a", "x", "x1"],
          ["b", "b1"], ["b", "b2"]] := by decide

example : (declDir exDir).map (·.1) =
    [["d", "y", "y1"],
     ["a", "t1"], ["a", "t3_1"], ["a", "t3_2"], ["a", "K", "k1"], ["a", "K", "N", "n1"], ["a", "x", "x1"],
     ["b", "b1"], ["b", "b2"]] := by decide

/-- Sorting really happens: symbols listed in the "wrong" order, and `dir()`-alphabetical order
    differing from rank order. -/
example : (declTests [t "zz" 2, t "aa" 3, t "mm" 1]).map (·.name) = ["mm", "zz", "aa"] := by decide

/-- Duplicate description among visible tests: rejected (description is checked before name). -/
example : errOf (loadClass (.mk { attr := "S", rank := 3 }
    [{ t "a" 1 with desc := some "same" }, { t "b" 2 with desc := some "same" }] [])) = some (.dupTestDesc "same") := by decide

/-- Duplicate name through parametrized expansion (`x_1` declared twice): rejected. -/
example : errOf (loadClass (.mk { attr := "S", rank := 3 }
    [{ t "x" 1 with param := some ([[("i", .int 1)]], .default) }, { t "y" 2 with name := some "x_1" }] []))
    = some (.dupTestName "x_1") := by decide

/-- The same clash with a *hidden* partner is not a duplicate for the loader. -/
example : (errOf (loadClass (.mk { attr := "S", rank := 3 }
    [{ t "a" 1 with desc := some "same" }, { t "b" 2 with desc := some "same", vis := .hidden }] []))) = none := by decide

/-- Two nested classes with the same name: rejected; `acceptsCls` says so. -/
example : errOf (loadClass (.mk { attr := "S", rank := 5 } []
    [.mk { attr := "A", rank := 1, name := some "n" } [] [], .mk { attr := "B", rank := 2, name := some "n", desc := some "other" } [] []]))
    = some (.dupSuiteName "n") := by decide

example : acceptsCls (.mk { attr := "S", rank := 5 } []
    [.mk { attr := "A", rank := 1, name := some "n" } [] [], .mk { attr := "B", rank := 2, name := some "n", desc := some "other" } [] []])
    = false := by decide

/-- A class suite of a module clashing with a suite of its companion directory: rejected at merge. -/
example : errOf (loadDir (.mk "suites"
    [{ stem := "a", autoRank := 3, tests := [t "t0" 0], classes := [.mk { attr := "x", rank := 2 } [t "k" 1] []] }]
    [.mk "a" [{ stem := "x", autoRank := 5, tests := [t "x1" 4] }] []])) = some (.dupSuiteDesc "x" "X") := by decide

/-- Top-level suites are not "within one suite": two modules named alike by `SUITE["name"]` load. -/
theorem top_level_duplicates_accepted : paths (loadDir (.mk "suites"
    [{ stem := "a", autoRank := 2, info := some { name := some "same" }, tests := [t "t1" 1] },
     { stem := "b", autoRank := 4, info := some { name := some "same" }, tests := [t "t2" 3] }] []))
    = some [["same", "t1"], ["same", "t2"]] := by decide

/-- A hidden module's companion directory is still loaded, under a synthetic suite of that name. -/
example : paths (loadDir (.mk "suites"
    [{ stem := "h", autoRank := 2, info := some { vis := .cond true (.str "") }, tests := [t "h1" 1] }]
    [.mk "h" [{ stem := "s", autoRank := 4, tests := [t "s1" 3] }] []])) = some [["h", "s", "s1"]] := by decide

/-- Errors other than duplicates: import failure, constructor failure, missing template key. -/
example : errOf (loadDir (.mk "suites" [{ stem := "a", autoRank := 1, broken := true }] [])) = some (.importError "a") := by decide
example : errOf (loadClass (.mk { attr := "S", rank := 1, ctorFails := true } [] [])) = some (.ctorError "S") := by decide
example : errOf (loadClass (.mk { attr := "S", rank := 2 }
    [{ t "p" 1 with vis := .hidden, param := some ([[("i", .int 1)]], .format [.lit "p_", .field "j"] [.lit "d"]) }] []))
    = some (.formatKeyError "j") := by decide

/-- `Pairwise` hypotheses of section 2 are satisfiable by real bodies. -/
example : [t "b" 1, t "a" 2, t "c" 5].Pairwise (fun a b => a.rank < b.rank) := by decide

/-! ## 8. Known finding D18 (open): `__…`-named members of a suite *class* are silently not discovered

  The theorems above are about the dunder-free core `loadDir` / `loadFiles` / `loadFile` / `loadClass`.
  The real entry points are `load…Real = core ∘ strip…`: `get_object_attributes` drops every attribute
  of a class instance whose name starts with `__` before the loader looks for test methods and
  nested suite classes (module-level names are not filtered).

  FULL-STRENGTH STATEMENT (what the property demands; *refuted* by the code as it is):
      ∀ d ss, loadDirReal d = .ok ss → Suite.entriesList ss = declDir d
  Below: the refutation with a concrete witness, and the `_partial` theorems under the exact
  decidable guard `noDunder…` that excludes the witness class. -/

/-- Witness: `m.py` with class `K` { `__dunder__`, `normal` } — both `@lcc.test`, both visible. -/
def dunderWitness : Dir :=
  .mk "suites" [{ stem := "m", autoRank := 4,
                  classes := [.mk { attr := "K", rank := 3 } [t "__dunder__" 1, t "normal" 2] []] }] []

/-- **Refutation** of the full-strength exactness statement: a declared visible test is not loaded. -/
theorem dunder_member_refutes_exactness :
    ¬ ∀ (d : Dir) (ss : List Suite), loadDirReal d = .ok ss → Suite.entriesList ss = declDir d := by
  intro H
  have hp : paths (loadDirReal dunderWitness) = some [["m", "K", "normal"]] := by decide
  have hd : (declDir dunderWitness).map (·.1) = [["m", "K", "__dunder__"], ["m", "K", "normal"]] := by decide
  cases h : loadDirReal dunderWitness with
  | error e => rw [h] at hp; cases hp
  | ok ss =>
    have := H dunderWitness ss h
    rw [h] at hp
    simp only [paths, this, hd] at hp
    exact absurd hp (by decide)

/-- `load_suites_from_directory`, real entry point, **partial**: exact on every layout in which no
    suite class has a member named `__…` (falsy condition callables included: D36 is repaired, section 9).
    Missing for full strength: exactly that guard. -/
theorem load_directory_exact_partial (d : Dir) (ss : List Suite) (hnd : noDunderDir d = true)
    (h : loadDirReal d = .ok ss) : Suite.entriesList ss = declDir d := by
  unfold loadDirReal at h
  rw [stripDir_eq_self d hnd] at h
  exact load_directory_exact d ss h

theorem load_files_exact_partial (mods : List Module) (ss : List Suite) (hnd : noDunderModules mods = true)
    (h : loadFilesReal mods = .ok ss) : Suite.entriesList ss = declFiles mods := by
  unfold loadFilesReal at h
  rw [stripModules_eq_self mods hnd] at h
  exact load_files_exact mods ss h

theorem load_class_exact_partial (c : Cls) (s : Suite) (hnd : noDunderCls c = true)
    (h : loadClassReal c = .ok s) :
    s.head = clsSuiteHead c.head ∧ s.tests = declTests c.tests ∧ s.body = declClsBody c := by
  unfold loadClassReal at h
  rw [stripCls_eq_self c hnd] at h
  exact load_class_exact c s h

/-- Whatever the names, the real entry point loads exactly what the *stripped* layout declares
    (so nothing but `__…`-named class members is lost), and never accepts a duplicate. -/
theorem load_directory_real_exact_on_stripped (d : Dir) (ss : List Suite) (h : loadDirReal d = .ok ss) :
    Suite.entriesList ss = declDir (stripDir d) ∧ ∀ s ∈ ss, s.Unique :=
  ⟨load_directory_exact (stripDir d) ss h, loaded_tree_unique (stripDir d) ss h⟩

/-- The guard is satisfiable by the non-trivial example layout. -/
example : noDunderDir exDir = true := by decide
example : noDunderDir dunderWitness = false := by decide

/-! ## 9. Finding D36 (repaired): a `visible_if` condition that is itself a false value

  Before the repair `hidden = md.condition and not md.condition(obj)` tested the truth value of the
  *callable* first: a callable instance whose class defines `__bool__` / `__len__` and is false was never
  called, and the item was shown although `condition(obj)` returned a false value.  The repaired code
  tests `md.condition is not None`; the model follows (`Vis.hiddenAttr`), `loader_expression` and
  `falsy_callable_condition_consulted` hold for every callable, and the exactness theorems need no guard
  for this input class.  The former witness stays as a positive example (and as corpus case
  `WITNESS_D36` of the stream). -/

/-- Former witness: `m.py` with a test `gated` under `@lcc.visible_if(c)`, `c` a falsy callable returning `False`. -/
def falsyCondWitness : Dir :=
  .mk "suites" [{ stem := "m", autoRank := 3,
                  tests := [{ t "gated" 1 with vis := .cond false (.bool false) }, t "normal" 2] }] []

/-- The conditionally invisible test is omitted, by the loader and by the specification alike. -/
example : paths (loadDirReal falsyCondWitness) = some [["m", "normal"]] := by decide
example : (declDir falsyCondWitness).map (·.1) = [["m", "normal"]] := by decide

/-- With a falsy callable returning a true value the test is shown. -/
example : paths (loadDirReal (.mk "suites"
    [{ stem := "m", autoRank := 3, tests := [{ t "gated" 1 with vis := .cond false (.str "0") }, t "normal" 2] }] []))
    = some [["m", "gated"], ["m", "normal"]] := by decide

/-- Exactness on the former witness class, as an instance of the main theorem (no guard needed). -/
theorem falsy_condition_callable_exact (ss : List Suite) (h : loadDirReal falsyCondWitness = .ok ss) :
    Suite.entriesList ss = declDir falsyCondWitness :=
  load_directory_exact_partial falsyCondWitness ss (by decide) h

end LccModel.C13

/-
  C07 / C06 (run level, model M5 `Model/Run.lean`) — locality of a task's output.

  Every event a task fires belongs to the task's own report location: it carries that location (steps,
  logs, checks, attachments, urls — whichever thread of the task emits them), or it is the start / end /
  skipped / disabled event of that very test or setup/teardown phase.  Hence the writer, which files events
  by location, can never put a task's log into another test's (or phase's) result, however tasks interleave.
-/
import LccModel.Lemmas.RunTask

namespace LccModel.C07Run
open LccModel.Report LccModel.Session LccModel.Run

/-- the report location an event belongs to (`none`: session start/end and suite start/end events) -/
def evLoc : Event → Option Loc
  | .stepStart l _ _ _ | .stepEnd l _ _ _ | .log l _ _ _ _ _ | .check l _ _ _ _ _ _
  | .attachment l _ _ _ _ _ _ | .url l _ _ _ _ _ => some l
  | .sessionSetupStart _ | .sessionSetupEnd _ => some .sessionSetup
  | .sessionTeardownStart _ | .sessionTeardownEnd _ => some .sessionTeardown
  | .suiteSetupStart p _ | .suiteSetupEnd p _ => some (.suiteSetup p)
  | .suiteTeardownStart p _ | .suiteTeardownEnd p _ => some (.suiteTeardown p)
  | .testStart p _ _ | .testEnd p _ | .testSkipped p _ _ _ | .testDisabled p _ _ _ => some (.test p)
  | .sessionStart _ | .sessionEnd _ | .suiteStart _ _ _ | .suiteEnd _ _ => none

theorem ownEv_iff (L : Loc) (e : Event) : ownEv L e = true ↔ evLoc e = some L := by
  cases e <;> simp [ownEv, innerEv, termEv, evLoc] <;> exact eq_comm

/-- **Locality**: for every task that works at a report location (`taskLoc`: test ↦ `.test path`, suite
    initialization ↦ `.suiteSetup path`, suite teardown ↦ `.suiteTeardown path`, session setup / teardown),
    run or skipped, every event in the task's output belongs to that location. -/
theorem task_events_local (P : Proj) (insts : Insts) (w : Nat) (t : TaskId) (run reason : Bool) (kept : List Td)
    (cut : Option Nat) (L : Loc) (hL : taskLoc t = some L) :
    ∀ e, Item.ev e ∈ (runTask P insts w t run reason kept cut).items → evLoc e = some L := by
  intro e he
  have h := tra_taskProgram_own P (allSuites P) w t run reason kept L hL
  obtain ⟨hs, _, _⟩ := runTask_of_tr P insts w t run reason kept cut h (jt_init _)
  exact (ownEv_iff L e).mp (hs _ he)

/-- **Every exit path of a `thread` act runs `Thread.run`'s epilogue.**  Whatever the script of the `lcc.Thread`
    does — return, call `sys.exit()` (nothing is logged), raise an `Exception` / an `Abort*`, be interrupted, or
    raise a `BaseException` that is neither an `Exception` nor `SystemExit` (`GeneratorExit`, a project's own: an
    error is logged first in all these cases, `threadLogs`; fix D40) — the last session call of the new thread `c` is `threadEnd` (`finally: end_step()`), the act itself
    raises nothing (the test goes on), and what the thread logged is kept.  With
    `C07.no_step_left_open_after_thread_end`: the thread's step is closed in the stream. -/
theorem thread_act_always_runs_the_epilogue (fuel role : Nat) (u : UnitId) (i : Nat) (inner : Script) (ts : TS) :
    let c := ts.nextChild
    let s0 := (exec (sop c .threadRun) (exec (sop role (.threadCreate c)) { ts with nextChild := c + 1 }).2).2
    let r := exec (execScript fuel c (.th u i) inner) s0
    exec (actStep fuel role u i (.thread inner)) ts =
      (none, (exec (sop c .threadEnd) (if threadLogs r.1 then (exec (sop c (.log .error "")) r.2).2 else r.2)).2) := by
  unfold actStep
  simp only [exec_bind, exec_get, exec_modify]
  split <;> rfl

/-- which outcomes of the thread's target `Thread.run` logs as an error: every one except a return and
    `SystemExit` (`sys.exit()` in the thread) — in particular a project's own `BaseException` IS logged (fix D40) -/
theorem thread_logs_iff (r : Option ExcKind) : threadLogs r = true ↔ ∃ k, r = some k ∧ k ≠ .sysExit := by
  cases r with
  | none => simp [threadLogs]
  | some k => cases k <;> simp [threadLogs, ExcKind.caughtByThread]

/-- `sys.exit()` ends the thread silently; a project's own `BaseException` (or `GeneratorExit`) is an uncaught exception
    of the test: logged as an error, i.e. the location the thread was started in is failed (C02; fix D40) -/
example : threadLogs (some .sysExit) = false ∧ threadLogs (some .baseExc) = true ∧ threadLogs (some .exc) = true ∧
    threadLogs (some .abortAll) = true ∧ threadLogs none = false := by decide

/-- the suite begin / end tasks have no location; their single event is located by `C01Run.suite_begin_items`
    and `C01Run.suite_end_items` -/
theorem begin_end_no_loc (t : TaskId) : taskLoc t = none ↔ t.kind = .begin ∨ t.kind = .end_ := by
  unfold taskLoc; cases t.kind <;> simp

/-! Non-vacuity: the sample test task works at `.test ["s","t"]`. -/
example : ∀ e, Item.ev e ∈ (runTask Sample.PA Insts.empty 0 ⟨.test, ["s", "t"]⟩ true false [] (some 3)).items →
    evLoc e = some (.test ["s", "t"]) :=
  task_events_local _ _ _ _ _ _ _ _ _ rfl

end LccModel.C07Run

/-
  C15 — Per-thread fixtures and ThreadedFactory objects are never shared between threads.

  "A per-thread fixture or ThreadedFactory object is created at most once per worker thread, is only ever
   handed to the thread that created it, is reused by later tests on that thread, and every created
   instance is torn down exactly once when its scope ends."

  Property theorems only (helper lemmas: `Lemmas/Threads.lean`; model: `Model/Threads.lean`, namespace
  `LccModel.Threads.Factory`).  One factory instance (`ThreadedFactory` / `_PerThreadFixtureResult`, i.e.
  one per-thread fixture in one scope instance), ANY number of threads.  Every theorem quantifies over all
  interleavings: every list of atomic source-line steps (`Label`) that `step` accepts from `init`, where
  the steps of one thread follow program order and the steps of different threads interleave arbitrarily
  — including every first-access race (a thread's slot read / `setup_object` / slot write / append in the
  middle of another thread's `get_object`).

  The last clause is a theorem at full strength since /repo commit 8e1157b (fix of D31,
  `C15/teardown-raises-skips-remaining-instances`): `teardown_factory` now tears down EVERY object and
  re-raises the first exception after the loop (`teardown_exactly_once`, `teardown_reraises_first_exception`).
  The loop as it was before that commit (a bare `for`, ended by the first raising `teardown_object`) is kept
  as `stepLegacy`/`runLegacy` for documentation only: `teardown_exactly_once_refuted_legacy` shows, with a
  concrete witness, that the OLD loop skipped the remaining instances.
-/
import LccModel.Lemmas.Threads

namespace LccModel.C15
open LccModel.Threads.Factory

/-- observable projection of a run, for the `decide`d concrete statements: `none` = some label rejected -/
def view (r : Except Err St) (f : St → List Nat) : Option (List Nat) :=
  match r with
  | .ok s => some (f s)
  | .error _ => none

/-- States reachable from a fresh factory by any interleaving of any number of threads. -/
def Reachable (s : St) : Prop := ∃ ls, run init ls = .ok s

/-- (auxiliary) every reachable state satisfies the invariant `Inv` of `Lemmas/Threads.lean` -/
theorem reachable_inv {s : St} (h : Reachable s) : Inv s := by
  obtain ⟨ls, h⟩ := h
  exact run_inv inv_init h

/-- (auxiliary) reachability is closed under accepted steps -/
theorem reachable_step {s s' : St} {l : Label} (hs : Reachable s) (h : step s l = .ok s') : Reachable s' := by
  obtain ⟨ls, hls⟩ := hs
  refine ⟨ls ++ [l], ?_⟩
  rw [run_append, hls]
  simp only [run, h]

/-! ### Clause 1 — "is created at most once per worker thread" -/

/-- Clause 1: in every interleaving a thread makes at most one SUCCESSFUL `setup_object` call on a
    factory instance (per thread, per factory instance; raising calls are covered by
    `setup_raise_stores_nothing` / `setup_raise_then_retry`). -/
theorem at_most_one_creation_per_thread {s : St} (hs : Reachable s) (t : Nat) : s.creations t ≤ 1 := by
  rcases (reachable_inv hs).creationsLive t with h | ⟨h, _⟩ <;> omega

/-- Clause 1, in terms of objects: two objects created by the same thread are the same object. -/
theorem one_object_per_thread {s : St} (hs : Reachable s) {t o o' : Nat}
    (h : s.creator o = some t) (h' : s.creator o' = some t) : o = o' := by
  have hi := reachable_inv hs
  rcases hi.creatorLive o t h with a | a <;> rcases hi.creatorLive o' t h' with b | b
  · rw [a] at b; injection b
  · have := (hi.pcCreated t o' b).2.1; rw [a] at this; cases this
  · have := (hi.pcCreated t o a).2.1; rw [b] at this; cases this
  · rw [a] at b; injection b

/-- Clause 1, stepwise: `setup_object` is only ever called by a thread that has no object yet, and its
    success is that thread's first and only creation. -/
theorem creation_only_without_object {s s' : St} {t o : Nat} (hs : Reachable s)
    (h : step s (.setupOk t o) = .ok s') :
    s.slot t = none ∧ s.creations t = 0 ∧ s'.creations t = 1 ∧ s'.creator o = some t := by
  have hi := reachable_inv hs
  obtain ⟨hp, he, rfl⟩ := step_setupOk h
  have hslot := hi.pcMissed t hp
  have h0 : s.creations t = 0 := by
    rcases hi.creationsLive t with h0 | ⟨_, h0 | ⟨o', h0⟩⟩
    · exact h0
    · exact absurd hslot h0
    · rw [hp] at h0; cases h0
  exact ⟨hslot, h0, by simp [h0], by simp⟩

/-- Clause 1, raising `setup_object`: nothing is stored — the thread-local slot, `_objects` and every
    creation record are unchanged and the thread has left `get_object` (the exception propagates). -/
theorem setup_raise_stores_nothing {s s' : St} {t : Nat} (h : step s (.setupRaise t) = .ok s') :
    s'.slot = s.slot ∧ s'.objects = s.objects ∧ s'.next = s.next ∧ s'.creator = s.creator ∧
    s'.creations = s.creations ∧ s'.returned = s.returned ∧ s'.pc t = .idle := by
  obtain ⟨_, rfl⟩ := step_setupRaise h
  exact ⟨rfl, rfl, rfl, rfl, rfl, rfl, by simp⟩

/-- … and the next `get_object` on that thread retries the creation: the slot read misses again (it cannot
    hit), so `setup_object` is called once more. -/
theorem setup_raise_then_retry {s s' : St} {t : Nat} (hs : Reachable s) (h : step s (.setupRaise t) = .ok s') :
    (∃ s'', step s' (.getMiss t) = .ok s'') ∧ ∀ o, step s' (.getHit t o) = .error .slotEmpty := by
  have hi := reachable_inv hs
  obtain ⟨hp, rfl⟩ := step_setupRaise h
  have hslot := hi.pcMissed t hp
  constructor
  · refine ⟨{ s with pc := fun x => if x = t then .missed else if x = t then .idle else s.pc x }, ?_⟩
    simp [step, hslot]
  · intro o; simp [step, hslot]

/-! ### Clause 2 — "is only ever handed to the thread that created it" -/

/-- Clause 2: every object a `get_object` call has returned was created by the calling thread. -/
theorem get_returns_own_object {s : St} (hs : Reachable s) {t o : Nat} (h : (t, o) ∈ s.returned) :
    s.creator o = some t :=
  let hi := reachable_inv hs
  hi.slotCreator t o (hi.returnedSlot t o h)

/-- Clause 2 (exclusivity): no object is ever handed to two different threads. -/
theorem object_never_handed_to_another_thread {s : St} (hs : Reachable s) {t u o : Nat}
    (h : (t, o) ∈ s.returned) (h' : (u, o) ∈ s.returned) : t = u := by
  have a := get_returns_own_object hs h
  have b := get_returns_own_object hs h'
  rw [a] at b; injection b

/-! ### Clause 3 — "is reused by later tests on that thread" -/

/-- Clause 3: all `get_object` calls of one thread return the same object. -/
theorem later_get_returns_same_object {s : St} (hs : Reachable s) {t o o' : Nat}
    (h : (t, o) ∈ s.returned) (h' : (t, o') ∈ s.returned) : o = o' := by
  have hi := reachable_inv hs
  have a := hi.returnedSlot t o h
  have b := hi.returnedSlot t o' h'
  rw [a] at b; injection b

/-- Clause 3, stepwise: once a thread has received an object, its next `get_object` cannot miss (no second
    creation is even started) and a hit returns exactly that object. -/
theorem later_get_is_a_hit_on_same_object {s : St} (hs : Reachable s) {t o : Nat} (h : (t, o) ∈ s.returned) :
    (∀ s', step s (.getMiss t) ≠ .ok s') ∧ ∀ o' s', step s (.getHit t o') = .ok s' → o' = o := by
  have hi := reachable_inv hs
  have a := hi.returnedSlot t o h
  constructor
  · intro s' hm
    have := (step_getMiss hm).2.1
    rw [a] at this; cases this
  · intro o' s' hh
    have := (step_getHit hh).2.1
    rw [a] at this; injection this with this; exact this.symm

/-! ### Clause 4 — "every created instance is torn down exactly once when its scope ends" -/

/-- `_objects` never holds an object twice, and each of its elements was created by exactly one thread
    (`creator` is a function), which still holds it in its thread-local slot. -/
theorem objects_no_duplicates_one_creator {s : St} (hs : Reachable s) :
    s.objects.Nodup ∧ ∀ o ∈ s.objects, ∃ t, s.creator o = some t ∧ s.slot t = some o := by
  have hi := reachable_inv hs
  refine ⟨hi.objNodup, fun o ho => ?_⟩
  obtain ⟨t, ht⟩ := hi.objSlot o ho
  exact ⟨t, hi.slotCreator t o ht, ht⟩

/-- No created object is ever lost: it is in `_objects`, or its creator is still between `setup_object`
    and the append (the window of the first-access race: other threads may append meanwhile). -/
theorem created_object_in_objects_or_in_flight {s : St} (hs : Reachable s) {o : Nat} (ho : o < s.next) :
    o ∈ s.objects ∨ ∃ t, s.creator o = some t ∧ (s.pc t = .created o ∨ s.pc t = .stored o) := by
  have hi := reachable_inv hs
  obtain ⟨t, ht⟩ := hi.ltCreator o ho
  rcases hi.creatorLive o t ht with a | a
  · rcases hi.slotObj t o a with b | b
    · exact Or.inl b
    · exact Or.inr ⟨t, ht, Or.inr b⟩
  · exact Or.inr ⟨t, ht, Or.inl a⟩

/-- When all `get_object` calls have completed, `_objects` is exactly the set of created objects. -/
theorem quiescent_objects_are_all_created {s : St} (hs : Reachable s) (hq : Quiescent s) (o : Nat) :
    o ∈ s.objects ↔ o < s.next := by
  have hi := reachable_inv hs
  constructor
  · intro ho
    obtain ⟨t, ht⟩ := hi.objSlot o ho
    exact hi.creatorLt o t (hi.slotCreator t o ht)
  · intro ho
    rcases created_object_in_objects_or_in_flight hs ho with h | ⟨t, _, h | h⟩
    · exact h
    · rw [hq t] at h; cases h
    · rw [hq t] at h; cases h

/-- One complete `teardown_factory` run, NO guard on raising `teardown_object` calls.  Preconditions, stated
    explicitly: it starts when every `get_object` call has completed (`Quiescent s`) and no `get_object` step
    happens while it runs (`post` consists of teardown steps only) — this is what the runner's on-completion
    dependencies of the suite / session teardown task guarantee (outside the interrupt defect D11); exactly
    one run is started in `post` and it has ended (`Quiescent s'`), by returning or by re-raising.
    Then it called `teardown_object` exactly once more on every created object and on nothing else —
    whether or not some of these calls raised; `_objects` is unchanged. -/
theorem teardown_run_adds_one {s s' : St} {post : List Label}
    (hs : Reachable s) (hq : Quiescent s)
    (hpost : run s post = .ok s') (htd : ∀ l ∈ post, l.isTd = true)
    (hone : s'.tdBegins = s.tdBegins + 1) (hq' : Quiescent s') :
    s'.objects = s.objects ∧ s'.next = s.next ∧
    ∀ o, s'.tdCount o = s.tdCount o + (if o < s.next then 1 else 0) := by
  have hi := reachable_inv hs
  obtain ⟨hf, hph⟩ := td_run_phase htd (frame_refl s) (phase_start hq) hpost
  have hcnt : ∀ o, s.objects.count o = if o < s.next then 1 else 0 := by
    intro o
    rw [count_of_nodup hi.objNodup]
    by_cases h : o < s.next
    · simp [h, (quiescent_objects_are_all_created hs hq o).mpr h]
    · have : ¬ o ∈ s.objects := fun hm => h ((quiescent_objects_are_all_created hs hq o).mp hm)
      simp [h, this]
  cases hph with
  | notStarted _ hb _ _ _ _ _ => omega
  | running t i _ hp _ _ _ _ _ => rw [hq' t] at hp; cases hp
  | finished _ _ hc _ _ _ => exact ⟨hf.objects, hf.next, fun o => by rw [hc o, hcnt o]⟩
  | another hb => omega

/-- Clause 4, full strength: `teardown_factory` run once, after all gets have completed (no teardown step
    before: `pre` contains none), tears every created object down EXACTLY ONCE and nothing else — whatever
    the interleaving of the `get_object` calls was (including the race where thread B appends between A's
    slot write and A's append) and whichever `teardown_object` calls raise. -/
theorem teardown_exactly_once {pre post : List Label} {s s' : St}
    (hpre : run init pre = .ok s) (hnotd : ∀ l ∈ pre, l.isTd = false) (hq : Quiescent s)
    (hpost : run s post = .ok s') (htd : ∀ l ∈ post, l.isTd = true)
    (hone : s'.tdBegins = 1) (hq' : Quiescent s') :
    ∀ o, s'.tdCount o = if o < s.next then 1 else 0 := by
  obtain ⟨c0, b0, _, _⟩ := get_run_td hnotd hpre
  have hb : s.tdBegins = 0 := b0
  have hc : s.tdCount = fun _ => 0 := c0
  obtain ⟨_, _, h⟩ := teardown_run_adds_one ⟨pre, hpre⟩ hq hpost htd (by omega) hq'
  intro o
  rw [h o, hc]; simp

/-- The first exception is re-raised after the loop, for all interleavings: under the same preconditions
    the run ends by re-raising iff some `teardown_object` call raised, the exception it re-raises is the
    one of the FIRST raising call (`firstRaise post`), and it returns normally iff none raised. -/
theorem teardown_reraises_first_exception {s s' : St} {post : List Label}
    (_hs : Reachable s) (hq : Quiescent s)
    (hpost : run s post = .ok s') (htd : ∀ l ∈ post, l.isTd = true)
    (hone : s'.tdBegins = s.tdBegins + 1) (hq' : Quiescent s') :
    s'.tdOutcomes = s.tdOutcomes ++ [firstRaise post] ∧
    (s'.tdRaises = s.tdRaises + 1 ∧ s'.tdEnds = s.tdEnds ↔ ∃ l ∈ post, l.isTdRaise = true) ∧
    (s'.tdEnds = s.tdEnds + 1 ∧ s'.tdRaises = s.tdRaises ↔ ∀ l ∈ post, l.isTdRaise = false) := by
  obtain ⟨_, hph⟩ := td_run_phase htd (frame_refl s) (phase_start hq) hpost
  have hsome := firstRaiseFrom_isSome none post
  simp only [Option.isSome_none, Bool.false_eq_true, false_or] at hsome
  cases hph with
  | notStarted _ hb _ _ _ _ _ => omega
  | running t i _ hp _ _ _ _ _ => rw [hq' t] at hp; cases hp
  | another hb => omega
  | finished _ _ _ he hr ho =>
    refine ⟨ho, ?_, ?_⟩
    · by_cases hfr : (firstRaiseFrom none post).isSome = true
      · simp only [hfr, if_true] at he hr
        exact ⟨fun _ => hsome.mp hfr, fun _ => ⟨hr, he⟩⟩
      · simp only [hfr] at he hr
        constructor
        · intro ⟨h1, _⟩; simp at hr; omega
        · intro hex; exact absurd (hsome.mpr hex) hfr
    · by_cases hfr : (firstRaiseFrom none post).isSome = true
      · simp only [hfr, if_true] at he hr
        constructor
        · intro ⟨h1, _⟩; omega
        · intro hall
          obtain ⟨l, hl, hlr⟩ := hsome.mp hfr
          rw [hall l hl] at hlr; cases hlr
      · simp only [hfr] at he hr
        refine ⟨fun _ l hl => ?_, fun _ => ⟨by simpa using he, by simpa using hr⟩⟩
        cases hlr : l.isTdRaise with
        | false => rfl
        | true => exact absurd (hsome.mpr ⟨l, hl, hlr⟩) hfr

/-! ### LEGACY documentation: the loop as it was BEFORE /repo commit 8e1157b (finding D31, fixed)

    Nothing below is about the code as it is.  `runLegacy` folds `stepLegacy`, which differs from `step` in
    one case: a raising `teardown_object` call ends `teardown_factory` on the spot. -/

/-- LEGACY: clause 4 at full strength, stated for the OLD loop (`runLegacy` during the teardown run). -/
def TeardownExactlyOnceLegacy : Prop :=
  ∀ (pre post : List Label) (s s' : St),
    run init pre = .ok s → (∀ l ∈ pre, l.isTd = false) → Quiescent s →
    runLegacy s post = .ok s' → (∀ l ∈ post, l.isTd = true) → s'.tdBegins = 1 → Quiescent s' →
    ∀ o, o < s.next → s'.tdCount o = 1

/-- D31 witness: two threads create one object each (racing: both are inside `get_object` at once), both
    calls complete, then `teardown_factory` runs and `teardown_object` of the first list element raises. -/
def witnessPre : List Label :=
  [.getMiss 0, .setupOk 0 0, .getMiss 1, .setupOk 1 1, .writeSlot 0, .append 0, .getRet 0 0,
   .writeSlot 1, .append 1, .getRet 1 1]
/-- the teardown part of the witness as the OLD loop executed it: over after the raising call -/
def witnessPostLegacy : List Label := [.tdBegin 0, .tdObj 0 0 false]
/-- the teardown part of the witness as the code executes it NOW: both objects, then the re-raise -/
def witnessPost : List Label := [.tdBegin 0, .tdObj 0 0 false, .tdObj 0 1 true, .tdEnd 0 (some 0)]

/-- fold `run` over `pre`, then `runLegacy` over `post` -/
def runThenLegacy (pre post : List Label) : Except Err St :=
  match run init pre with
  | .error e => .error e
  | .ok s => runLegacy s post

/-- LEGACY (before 8e1157b): what the D31 witness left behind under the OLD loop: `_objects = [0, 1]`, object 0
    torn down once (raising), object 1 NEVER torn down, `teardown_factory` over (by the exception). -/
theorem teardown_raise_skips_remaining_witness_legacy :
    view (runThenLegacy witnessPre witnessPostLegacy)
      (fun s => s.objects ++ [s.tdCount 0, s.tdCount 1, s.tdBegins, s.tdEnds, s.tdRaises, s.next,
                              if s.pc 0 = .idle then 1 else 0, if s.pc 1 = .idle then 1 else 0])
    = some ([0, 1] ++ [1, 0, 1, 0, 1, 2, 1, 1]) ∧
    view (run init witnessPre) (fun s => [if s.pc 0 = .idle then 1 else 0, if s.pc 1 = .idle then 1 else 0, s.next])
      = some [1, 1, 2] := by
  decide

/-- LEGACY (before 8e1157b), finding D31 `C15/teardown-raises-skips-remaining-instances`, now FIXED: for the
    OLD bare loop the full-strength last clause was false — the first raising `teardown_object` ended the loop
    and the remaining instances were never torn down.  (For the code as it is see `teardown_exactly_once`.) -/
theorem teardown_exactly_once_refuted_legacy : ¬ TeardownExactlyOnceLegacy := by
  intro h
  obtain ⟨hw, hi1⟩ := teardown_raise_skips_remaining_witness_legacy
  cases hpre : run init witnessPre with
  | error e => rw [hpre] at hi1; cases hi1
  | ok s =>
    rw [hpre] at hi1
    simp only [view, Option.some.injEq, List.cons.injEq, and_true] at hi1
    obtain ⟨p0, p1, hn⟩ := hi1
    have hq : Quiescent s := by
      intro t
      by_cases e0 : t = 0
      · subst e0; split at p0 <;> simp_all
      · by_cases e1 : t = 1
        · subst e1; split at p1 <;> simp_all
        · have := run_pc_other (t := t) (ls := witnessPre)
            (fun l hl => by
              have : l.thread = 0 ∨ l.thread = 1 := by revert l; decide
              omega) hpre
          rw [this]; rfl
    simp only [runThenLegacy, hpre] at hw
    cases hpost : runLegacy s witnessPostLegacy with
    | error e => rw [hpost] at hw; cases hw
    | ok s' =>
      rw [hpost] at hw
      simp only [view, Option.some.injEq] at hw
      have hl : s'.objects.length = 2 := by
        have := congrArg List.length hw
        simp at this; omega
      have hobj : s'.tdCount 1 = 0 ∧ s'.tdBegins = 1 ∧ s'.pc 0 = .idle ∧ s'.pc 1 = .idle := by
        match hs : s'.objects, hl with
        | [a, b], _ =>
          rw [hs] at hw; simp at hw
          obtain ⟨_, _, _, h1, h2, _, _, _, q0, q1⟩ := hw
          exact ⟨h1, h2, q0, q1⟩
      have hq' : Quiescent s' := by
        intro t
        by_cases e0 : t = 0
        · subst e0; exact hobj.2.2.1
        · by_cases e1 : t = 1
          · subst e1; exact hobj.2.2.2
          · have := runLegacy_pc_other (t := t) (ls := witnessPostLegacy)
              (fun l hl => by
                have : l.thread = 0 := by revert l; decide
                omega) hpost
            rw [this]; exact hq t
      have := h witnessPre witnessPostLegacy s s' hpre (by decide) hq hpost (by decide) hobj.2.1 hq' 1 (by omega)
      omega

/-! ### Clause 5 (documentation of behaviour, not part of the property): calling `teardown_factory` twice -/

/-- `_objects` is never cleared: a SECOND complete `teardown_factory` run tears every created object down a
    second time (raising calls or not).  Not a finding — in the runner every `_PerThreadFixtureResult` is torn
    down once per scope instance (`ScheduledFixtures._teardown_fixture` deletes the result afterwards). -/
theorem teardown_twice_tears_down_twice {pre post1 post2 : List Label} {s s1 s2 : St}
    (hpre : run init pre = .ok s) (hnotd : ∀ l ∈ pre, l.isTd = false) (hq : Quiescent s)
    (h1 : run s post1 = .ok s1) (htd1 : ∀ l ∈ post1, l.isTd = true)
    (hone1 : s1.tdBegins = s.tdBegins + 1) (hq1 : Quiescent s1)
    (h2 : run s1 post2 = .ok s2) (htd2 : ∀ l ∈ post2, l.isTd = true)
    (hone2 : s2.tdBegins = s1.tdBegins + 1) (hq2 : Quiescent s2) :
    ∀ o, s2.tdCount o = if o < s.next then 2 else 0 := by
  obtain ⟨c0, _, _, _⟩ := get_run_td hnotd hpre
  have hc : s.tdCount = fun _ => 0 := c0
  have hs : Reachable s := ⟨pre, hpre⟩
  obtain ⟨_, hn1, a⟩ := teardown_run_adds_one hs hq h1 htd1 hone1 hq1
  have hs1 : Reachable s1 := ⟨pre ++ post1, by rw [run_append, hpre]; exact h1⟩
  obtain ⟨_, _, b⟩ := teardown_run_adds_one hs1 hq1 h2 htd2 hone2 hq2
  intro o
  rw [b o, a o, hn1, hc]
  by_cases h : o < s.next <;> simp [h]

/-! ### Non-vacuity -/

/-- first-access race with B appending between A's slot write and A's append; A retried after a raising
    `setup_object`; both threads get their object again later; one complete non-raising teardown -/
def samplePre : List Label :=
  [.getMiss 0, .setupRaise 0, .getMiss 0, .getMiss 1, .setupOk 0 0, .setupOk 1 1, .writeSlot 0,
   .writeSlot 1, .append 1, .getRet 1 1, .append 0, .getRet 0 0, .getHit 1 1, .getHit 0 0]
def samplePost : List Label := [.tdBegin 2, .tdObj 2 1 true, .tdObj 2 0 true, .tdEnd 2 none]

/-- the sample is an accepted interleaving; thread B's object precedes A's in `_objects`; hypotheses of
    `teardown_exactly_once_partial` and of clauses 1–3 are met on it with non-trivial content -/
example :
    view (run init (samplePre ++ samplePost))
      (fun s => s.objects ++ s.returned.flatMap (fun p => [p.1, p.2]) ++
                [s.creations 0, s.creations 1, s.tdCount 0, s.tdCount 1, s.tdBegins, s.tdEnds, s.tdRaises])
    = some ([1, 0] ++ [1, 1, 0, 0, 1, 1, 0, 0] ++ [1, 1, 1, 1, 1, 1, 0]) := by
  decide

example : (∀ l ∈ samplePre, l.isTd = false) ∧ (∀ l ∈ samplePost, l.isTd = true) ∧
    (∀ l ∈ witnessPre, l.isTd = false) ∧ (∀ l ∈ witnessPost, l.isTd = true) := by decide

/-- the D31 witness on the model of the code AS IT IS: BOTH objects are torn down exactly once and the run ends
    by re-raising the first exception (the one of object 0): hypotheses of `teardown_exactly_once` and of
    `teardown_reraises_first_exception` are met with a raising `teardown_object` call -/
example :
    view (run init (witnessPre ++ witnessPost))
      (fun s => s.objects ++ [s.tdCount 0, s.tdCount 1, s.tdBegins, s.tdEnds, s.tdRaises, s.tdObjRaises, s.next,
                              if s.pc 0 = .idle then 1 else 0, if s.tdOutcomes = [some 0] then 1 else 0])
    = some ([0, 1] ++ [1, 1, 1, 0, 1, 1, 2, 1, 1]) ∧ firstRaise witnessPost = some 0 := by
  decide

/-- the outcome of `tdEnd` is checked: returning normally, or re-raising the exception of the SECOND raising
    call, is rejected when object 0's `teardown_object` raised first -/
example : (match run init (witnessPre ++ [.tdBegin 0, .tdObj 0 0 false, .tdObj 0 1 false, .tdEnd 0 none]) with
           | .ok _ => none | .error e => some e) = some .outcome ∧
          (match run init (witnessPre ++ [.tdBegin 0, .tdObj 0 0 false, .tdObj 0 1 false, .tdEnd 0 (some 1)]) with
           | .ok _ => none | .error e => some e) = some .outcome := by
  decide

/-- a second `get_object` of a thread that already holds an object is rejected as a miss and a foreign
    object is rejected as a hit (the error branches are real, not absorbed) -/
example : (match run init (samplePre ++ [.getMiss 0]) with | .ok _ => none | .error e => some e) = some .slotFull := by
  decide
example : (match run init (samplePre ++ [.getHit 0 1]) with | .ok _ => none | .error e => some e) = some .wrongObject := by
  decide

/-- two complete teardown runs are accepted and count twice (`teardown_twice_tears_down_twice`) -/
example :
    view (run init (samplePre ++ samplePost ++ samplePost))
      (fun s => [s.tdCount 0, s.tdCount 1, s.tdBegins, s.tdEnds]) = some [2, 2, 2, 2] := by
  decide

end LccModel.C15

/-
  C04 — "a test never starts … before its suite's setup has finished": the suites whose OWN tests are all disabled.

  Input class (harness/run/gen.py `p_all_disabled`): a suite — nested at any depth, or top-level — that has a setup phase (setup_suite /
  teardown_suite hook, injected or suite-scoped fixtures) and whose own tests are all disabled (each of them, or the suite, or an
  ancestor), with and without `--force-disabled`.  `allSuites P` lists the suites of every depth, so the statements below hold for
  nested suites as for top-level ones: `forceDisabled` is a fact of the PROJECT (`P.forceDisabled`), the same at every level of
  `suiteTasks` (the real `build_suite_tasks` passes it down its recursion).

  * with `--force-disabled` such a suite HAS a setup task and a teardown task, and every one of its tests waits for the setup task
    (so, by `C04.deps_finished_before_start` / `C01Graph.test_waits_for_setup…`, no test body starts before the setup finished);
  * without the option it has neither (nothing of it runs): the tests wait for the suite beginning task.
-/
import LccModel.Props.C01Graph
import LccModel.Lemmas.C04SetupSample

namespace LccModel.C04Setup
open LccModel.Report LccModel.Run LccModel.Sched LccModel.TaskGraph LccModel.C01Graph LccModel.Run.SetupSample

/-- Under `--force-disabled` EVERY suite with a setup phase — at any depth, whatever is disabled in it or above it, even when none of
    its own tests is enabled — has its setup task and its teardown task in the graph, and each of its tests waits (on success) for
    that setup task first. -/
theorem forced_suite_has_its_setup_task {P : Proj} (hv : Valid P) {sv : SuiteView} (hsv : sv ∈ allSuites P)
    (hforce : P.forceDisabled = true) (hsetup : hasSetupPhase P sv = true) :
    hasInit P sv = true ∧
    (⟨.init, sv.path⟩ : TaskId) ∈ (graphOf P).tasks ∧ (⟨.teardown, sv.path⟩ : TaskId) ∈ (graphOf P).tasks ∧
    ∀ t ∈ sv.spec.tests, ((graphOf P).succDeps ⟨.test, sv.path ++ [t.name]⟩).head? = some ⟨.init, sv.path⟩ := by
  have hi : hasInit P sv = true := by
    unfold hasInit; unfold hasSetupPhase at hsetup; rw [hforce, hsetup]; simp
  have h := (optional_tasks_exist_iff hv).2.2 sv hsv
  refine ⟨hi, h.1.mpr hi, h.2.mpr hi, ?_⟩
  intro t ht
  rw [(test_waits_for_setup hv hsv ht).1, hi]
  rfl

/-- … in particular when all of its own tests are disabled (the case a `force_disabled` that is not passed down would lose). -/
theorem forced_all_disabled_suite_has_its_setup_task {P : Proj} (hv : Valid P) {sv : SuiteView} (hsv : sv ∈ allSuites P)
    (hforce : P.forceDisabled = true) (hsetup : hasSetupPhase P sv = true) (_hdis : hasEnabledTests sv = false) :
    (⟨.init, sv.path⟩ : TaskId) ∈ (graphOf P).tasks ∧
    ∀ t ∈ sv.spec.tests, ((graphOf P).succDeps ⟨.test, sv.path ++ [t.name]⟩).head? = some ⟨.init, sv.path⟩ :=
  let h := forced_suite_has_its_setup_task hv hsv hforce hsetup
  ⟨h.2.1, h.2.2.2⟩

/-- Without the option a suite none of whose own tests is enabled has no setup and no teardown task: its (disabled) tests wait
    for the suite beginning task only. -/
theorem all_disabled_suite_has_no_setup_task {P : Proj} (hv : Valid P) {sv : SuiteView} (hsv : sv ∈ allSuites P)
    (hforce : P.forceDisabled = false) (hdis : hasEnabledTests sv = false) :
    hasInit P sv = false ∧ (⟨.init, sv.path⟩ : TaskId) ∉ (graphOf P).tasks ∧ (⟨.teardown, sv.path⟩ : TaskId) ∉ (graphOf P).tasks ∧
    ∀ t ∈ sv.spec.tests, ((graphOf P).succDeps ⟨.test, sv.path ++ [t.name]⟩).head? = some ⟨.begin, sv.path⟩ := by
  have hi : hasInit P sv = false := by unfold hasInit; rw [hforce, hdis]; rfl
  have h := (optional_tasks_exist_iff hv).2.2 sv hsv
  refine ⟨hi, fun hm => (by rw [h.1.mp hm] at hi; cases hi), fun hm => (by rw [h.2.mp hm] at hi; cases hi), ?_⟩
  intro t ht
  rw [(test_waits_for_setup hv hsv ht).1, hi]
  rfl

/-! ### non-vacuity: a NESTED suite with a setup_suite hook whose only test is disabled, under --force-disabled -/

example : ((allSuites PF).map (·.path)).contains ["s", "sub"] = true ∧ hasSetupPhase PF ⟨["s", "sub"], inner, false⟩ = true ∧
    hasEnabledTests ⟨["s", "sub"], inner, false⟩ = false ∧
    ((buildTasks PF).map (·.id)).contains ⟨.init, ["s", "sub"]⟩ = true := by decide

end LccModel.C04Setup

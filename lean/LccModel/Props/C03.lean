/-
  C03 — fixtures and hooks: set up before use, torn down exactly once after last use.

  Part 1 (task level), for EVERY valid project, every worker count and every interleaving of a run that
  is not interrupted: the suite teardown task (which tears down the suite-scoped fixtures and calls
  `teardown_suite`) starts only after the suite setup task and every test of the suite have finished; the
  suite ends only after its teardown and its sub-suites ended; the session teardown task (session-scoped
  fixtures) starts only after every top-level suite has ended; a test starts only after the setup of its
  suite (theorem `C01Graph.test_starts_after_suite_setup`).  "Exactly once" is `C01Graph.valid_project_tasks_exactly_once`.
  Which fixtures an instance schedules, and in which order, is C14's `scheduled_only_needed` /
  `scheduled_deps_before`.  What happens inside one task (setup loop stops at the first failure and keeps
  exactly the teardowns of the completed setups; teardown loop reversed and exception-proof) is in
  `Props/C03Run.lean`.
  The interrupt path is excluded on purpose: with ≥ 2 workers it tears down under running tests (finding D11).
-/
import LccModel.Props.C01Graph

namespace LccModel.C03
open LccModel.Run LccModel.Sched LccModel.TaskGraph LccModel.C01Graph

/-- The suite teardown starts after the suite setup task and after every test of the suite has finished. -/
theorem suite_teardown_after_setup_and_tests {P : Proj} (hv : Valid P) {sv : SuiteView}
    (hsv : sv ∈ allSuites P) (hinit : hasInit P sv = true)
    (n : Nat) (s : State TaskId) (hr : Reachable (graphOf P) n s) (hna : s.aborted = false)
    (i : Nat) (hi : s.startAt ⟨.teardown, sv.path⟩ = some i) :
    (∃ j, s.finishAt ⟨.init, sv.path⟩ = some j ∧ j < i) ∧
    ∀ t ∈ sv.spec.tests, ∃ j, s.finishAt ⟨.test, sv.path ++ [t.name]⟩ = some j ∧ j < i := by
  have hnf := forced_false_of_not_aborted hr hna
  have hdeps := (teardown_waits_for_tests_and_setup hv hsv hinit).1
  constructor
  · apply C04.deps_finished_before_start (graphOf P) n s hr _ i hi (hnf _)
    apply complDeps_sub_deps; rw [hdeps]; exact List.mem_cons_self
  · intro t ht
    apply C04.deps_finished_before_start (graphOf P) n s hr _ i hi (hnf _)
    apply complDeps_sub_deps; rw [hdeps]
    exact List.mem_cons_of_mem _ (List.mem_map.mpr ⟨t, ht, rfl⟩)

/-- A suite is ended only after it was begun, all its tests finished, its teardown (if any) finished and
    every direct sub-suite ended. -/
theorem suite_end_after_everything_inside {P : Proj} (hv : Valid P) {sv : SuiteView} (hsv : sv ∈ allSuites P)
    (n : Nat) (s : State TaskId) (hr : Reachable (graphOf P) n s) (hna : s.aborted = false)
    (i : Nat) (hi : s.startAt ⟨.end_, sv.path⟩ = some i) :
    (∃ j, s.finishAt ⟨.begin, sv.path⟩ = some j ∧ j < i) ∧
    (∀ t ∈ sv.spec.tests, ∃ j, s.finishAt ⟨.test, sv.path ++ [t.name]⟩ = some j ∧ j < i) ∧
    (hasInit P sv = true → ∃ j, s.finishAt ⟨.teardown, sv.path⟩ = some j ∧ j < i) ∧
    (∀ sub ∈ sv.spec.subs, ∃ j, s.finishAt ⟨.end_, sv.path ++ [sub.name]⟩ = some j ∧ j < i) := by
  have hnf := forced_false_of_not_aborted hr hna
  have hdeps := (end_waits_for_children hv hsv).1
  have key : ∀ d, d ∈ (graphOf P).succDeps ⟨.end_, sv.path⟩ → ∃ j, s.finishAt d = some j ∧ j < i :=
    fun d hd => C04.deps_finished_before_start (graphOf P) n s hr _ i hi (hnf _) d (succDeps_sub_deps _ _ _ hd)
  rw [hdeps] at key
  refine ⟨key _ (by simp), ?_, ?_, ?_⟩
  · intro t ht
    apply key
    simp only [List.cons_append, List.mem_cons, List.mem_append, List.mem_map]
    exact Or.inr (Or.inl (Or.inl ⟨t, ht, rfl⟩))
  · intro hinit
    apply key
    simp [hinit]
  · intro sub hsub
    apply key
    simp only [List.cons_append, List.mem_cons, List.mem_append, List.mem_map]
    exact Or.inr (Or.inr ⟨sub, hsub, rfl⟩)

/-- The session teardown (session-scoped fixtures) starts only after every top-level suite has ended — hence,
    by the previous theorem applied down the tree, after every test of the run and every suite teardown. -/
theorem session_teardown_after_all_suites {P : Proj} (hv : Valid P) (hs : hasSessSetup P = true)
    (n : Nat) (s : State TaskId) (hr : Reachable (graphOf P) n s) (hna : s.aborted = false)
    (i : Nat) (hi : s.startAt ⟨.sessTeardown, []⟩ = some i) :
    ∀ top ∈ P.suites, ∃ j, s.finishAt ⟨.end_, [top.name]⟩ = some j ∧ j < i := by
  have hnf := forced_false_of_not_aborted hr hna
  have hdeps := (session_teardown_waits_for_top_ends hv hs).1
  intro top htop
  apply C04.deps_finished_before_start (graphOf P) n s hr _ i hi (hnf _)
  apply complDeps_sub_deps; rw [hdeps]
  exact List.mem_map.mpr ⟨top, htop, rfl⟩

end LccModel.C03

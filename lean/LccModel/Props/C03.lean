/-
  C03 — fixtures and hooks: set up before use, torn down exactly once after last use.

  Part 1 (task level), for EVERY valid project, every worker count and every interleaving of a run, a
  keyboard interrupt at any moment included: the suite teardown task (which tears down the suite-scoped fixtures and calls
  `teardown_suite`) starts only after the suite setup task and every test of the suite have finished; the
  suite ends only after its teardown and its sub-suites ended; the session teardown task (session-scoped
  fixtures) starts only after every top-level suite has ended; a test starts only after the setup of its
  suite (theorem `C01Graph.test_starts_after_suite_setup`).  "Exactly once" is `C01Graph.valid_project_tasks_exactly_once`.
  Which fixtures an instance schedules, and in which order, is C14's `scheduled_only_needed` /
  `scheduled_deps_before`.  What happens inside one task (setup loop stops at the first failure and keeps
  exactly the teardowns of the completed setups; teardown loop reversed and exception-proof) is in
  `Props/C03Run.lean`.
  The interrupt path is included: `skip_all_tasks` (as repaired by fix D11) releases the teardown / suite-end /
  session-teardown tasks only when the tasks they depend on are completed, so no teardown runs under a test
  that is still in flight.
-/
import LccModel.Props.C01Graph

namespace LccModel.C03
open LccModel.Run LccModel.Sched LccModel.TaskGraph LccModel.C01Graph

/-- The suite teardown starts after the suite setup task and after every test of the suite has finished. -/
theorem suite_teardown_after_setup_and_tests {P : Proj} (hv : Valid P) {sv : SuiteView}
    (hsv : sv ∈ allSuites P) (hinit : hasInit P sv = true)
    (n : Nat) (s : State TaskId) (hr : Reachable (graphOf P) n s)
    (i : Nat) (hi : s.startAt ⟨.teardown, sv.path⟩ = some i) :
    (∃ j, s.finishAt ⟨.init, sv.path⟩ = some j ∧ j < i) ∧
    ∀ t ∈ sv.spec.tests, ∃ j, s.finishAt ⟨.test, sv.path ++ [t.name]⟩ = some j ∧ j < i := by
  have hdeps := (teardown_waits_for_tests_and_setup hv hsv hinit).1
  constructor
  · apply C04.deps_finished_before_start (graphOf P) n s hr _ i hi
    apply complDeps_sub_deps; rw [hdeps]; exact List.mem_cons_self
  · intro t ht
    apply C04.deps_finished_before_start (graphOf P) n s hr _ i hi
    apply complDeps_sub_deps; rw [hdeps]
    exact List.mem_cons_of_mem _ (List.mem_map.mpr ⟨t, ht, rfl⟩)

/-- A suite is ended only after it was begun, all its tests finished, its teardown (if any) finished and
    every direct sub-suite ended. -/
theorem suite_end_after_everything_inside {P : Proj} (hv : Valid P) {sv : SuiteView} (hsv : sv ∈ allSuites P)
    (n : Nat) (s : State TaskId) (hr : Reachable (graphOf P) n s)
    (i : Nat) (hi : s.startAt ⟨.end_, sv.path⟩ = some i) :
    (∃ j, s.finishAt ⟨.begin, sv.path⟩ = some j ∧ j < i) ∧
    (∀ t ∈ sv.spec.tests, ∃ j, s.finishAt ⟨.test, sv.path ++ [t.name]⟩ = some j ∧ j < i) ∧
    (hasInit P sv = true → ∃ j, s.finishAt ⟨.teardown, sv.path⟩ = some j ∧ j < i) ∧
    (∀ sub ∈ sv.spec.subs, ∃ j, s.finishAt ⟨.end_, sv.path ++ [sub.name]⟩ = some j ∧ j < i) := by
  have hdeps := (end_waits_for_children hv hsv).1
  have key : ∀ d, d ∈ (graphOf P).succDeps ⟨.end_, sv.path⟩ → ∃ j, s.finishAt d = some j ∧ j < i :=
    fun d hd => C04.deps_finished_before_start (graphOf P) n s hr _ i hi d (succDeps_sub_deps _ _ _ hd)
  rw [hdeps] at key
  refine ⟨key _ (by simp), ?_, ?_, ?_⟩
  · intro t ht
    apply key
    simp only [List.cons_append, List.mem_cons, List.mem_append, List.mem_map]
    exact Or.inr (Or.inl (Or.inl ⟨t, ht, rfl⟩))
  · intro hinit
    apply key
    simp [hinit]
  · intro sub hsub
    apply key
    simp only [List.cons_append, List.mem_cons, List.mem_append, List.mem_map]
    exact Or.inr (Or.inr ⟨sub, hsub, rfl⟩)

/-- The session teardown (session-scoped fixtures) starts only after every top-level suite has ended — hence,
    by the previous theorem applied down the tree, after every test of the run and every suite teardown. -/
theorem session_teardown_after_all_suites {P : Proj} (hv : Valid P) (hs : hasSessSetup P = true)
    (n : Nat) (s : State TaskId) (hr : Reachable (graphOf P) n s)
    (i : Nat) (hi : s.startAt ⟨.sessTeardown, []⟩ = some i) :
    ∀ top ∈ P.suites, ∃ j, s.finishAt ⟨.end_, [top.name]⟩ = some j ∧ j < i := by
  have hdeps := (session_teardown_waits_for_top_ends hv hs).1
  intro top htop
  apply C04.deps_finished_before_start (graphOf P) n s hr _ i hi
  apply complDeps_sub_deps; rw [hdeps]
  exact List.mem_map.mpr ⟨top, htop, rfl⟩

/-! ### Non-vacuity, on an INTERRUPTED run

    `C01Graph.sampleProj` with 2 workers: the keyboard interrupt arrives while the setup task of suite `a` and the
    beginning task of `a.b` are running.  Everything else is force-skipped — in dependency order: the teardown of
    `a` starts (clock 22) after its setup (finished at 9) and its tests `t1`, `t2` (17, 20); `a` ends (start 34)
    after its teardown (23) and its sub-suites (26, 32); the session teardown starts (46) after both top-level
    suites ended (35, 44).  The hypotheses of the three theorems hold in the final state of this run. -/
def interruptedRun : List (Label TaskId) :=
  [.start ⟨.sessSetup, []⟩ false, .finish ⟨.sessSetup, []⟩ .success, .receive ⟨.sessSetup, []⟩,
   .start ⟨.begin, ["a"]⟩ false, .finish ⟨.begin, ["a"]⟩ .success, .receive ⟨.begin, ["a"]⟩,
   .start ⟨.init, ["a"]⟩ false, .start ⟨.begin, ["a", "b"]⟩ false, .interrupt,
   .finish ⟨.init, ["a"]⟩ .success, .receive ⟨.init, ["a"]⟩,
   .finish ⟨.begin, ["a", "b"]⟩ .success, .receive ⟨.begin, ["a", "b"]⟩,
   .start ⟨.test, ["a", "b", "u1"]⟩ true, .finish ⟨.test, ["a", "b", "u1"]⟩ .skipped, .receive ⟨.test, ["a", "b", "u1"]⟩,
   .start ⟨.test, ["a", "t1"]⟩ true, .finish ⟨.test, ["a", "t1"]⟩ .skipped, .receive ⟨.test, ["a", "t1"]⟩,
   .start ⟨.test, ["a", "t2"]⟩ true, .finish ⟨.test, ["a", "t2"]⟩ .skipped, .receive ⟨.test, ["a", "t2"]⟩,
   .start ⟨.teardown, ["a"]⟩ true, .finish ⟨.teardown, ["a"]⟩ .skipped, .receive ⟨.teardown, ["a"]⟩,
   .start ⟨.end_, ["a", "b"]⟩ true, .finish ⟨.end_, ["a", "b"]⟩ .skipped, .receive ⟨.end_, ["a", "b"]⟩,
   .start ⟨.begin, ["a", "empty"]⟩ true, .finish ⟨.begin, ["a", "empty"]⟩ .skipped, .receive ⟨.begin, ["a", "empty"]⟩,
   .start ⟨.end_, ["a", "empty"]⟩ true, .finish ⟨.end_, ["a", "empty"]⟩ .skipped, .receive ⟨.end_, ["a", "empty"]⟩,
   .start ⟨.end_, ["a"]⟩ true, .finish ⟨.end_, ["a"]⟩ .skipped, .receive ⟨.end_, ["a"]⟩,
   .start ⟨.begin, ["c"]⟩ true, .finish ⟨.begin, ["c"]⟩ .skipped, .receive ⟨.begin, ["c"]⟩,
   .start ⟨.test, ["c", "t1"]⟩ true, .finish ⟨.test, ["c", "t1"]⟩ .skipped, .receive ⟨.test, ["c", "t1"]⟩,
   .start ⟨.end_, ["c"]⟩ true, .finish ⟨.end_, ["c"]⟩ .skipped, .receive ⟨.end_, ["c"]⟩,
   .start ⟨.sessTeardown, []⟩ true, .finish ⟨.sessTeardown, []⟩ .skipped, .receive ⟨.sessTeardown, []⟩]

/-- the run is accepted, interrupted, complete; the teardown of `a` was force-skipped … -/
example : ((run (graphOf sampleProj) 2 (init (graphOf sampleProj) 2) interruptedRun).map
    (fun s => (s.aborted, finalB (graphOf sampleProj) s, s.forced ⟨.teardown, ["a"]⟩, s.mode ⟨.teardown, ["a"]⟩)))
    = some (true, true, true, some .skip) := by decide +kernel

/-- … after the setup and the tests of `a` (`suite_teardown_after_setup_and_tests`) -/
example : ((run (graphOf sampleProj) 2 (init (graphOf sampleProj) 2) interruptedRun).map
    (fun s => (s.finishAt ⟨.init, ["a"]⟩, s.finishAt ⟨.test, ["a", "t1"]⟩, s.finishAt ⟨.test, ["a", "t2"]⟩,
               s.startAt ⟨.teardown, ["a"]⟩))) = some (some 9, some 17, some 20, some 22) := by decide +kernel

/-- `suite_end_after_everything_inside` for `a` -/
example : ((run (graphOf sampleProj) 2 (init (graphOf sampleProj) 2) interruptedRun).map
    (fun s => (s.finishAt ⟨.teardown, ["a"]⟩, s.finishAt ⟨.end_, ["a", "b"]⟩, s.finishAt ⟨.end_, ["a", "empty"]⟩,
               s.startAt ⟨.end_, ["a"]⟩))) = some (some 23, some 26, some 32, some 34) := by decide +kernel

/-- `session_teardown_after_all_suites` -/
example : ((run (graphOf sampleProj) 2 (init (graphOf sampleProj) 2) interruptedRun).map
    (fun s => (s.finishAt ⟨.end_, ["a"]⟩, s.finishAt ⟨.end_, ["c"]⟩, s.startAt ⟨.sessTeardown, []⟩)))
    = some (some 35, some 44, some 46) := by decide +kernel

end LccModel.C03

/-
  C17 — "the sentence recorded for a check determines what was verified", for matcher OBJECTS used over time.

  `Props/C17.lean` speaks about matcher *expressions*.  A test, however, holds matcher *objects*: it builds them once — often on
  mutable expected values (a dict that is completed later) and on each other (`has_entry("k", m)`, `not_(m)`) — and uses them in
  several checks.  The model of that is `Model/MatcherObj.lean`: a store of mutable containers, a heap of objects (constructor calls
  whose arguments are references), and the operations build / mutate / describe / check.  The theorems below quantify over ALL
  worlds (stores, heaps), all sequences of operations, all objects, all transformer states:

  1. `earlier_uses_are_invisible`, `use_changes_nothing`, `objects_never_change` — *history independence*: describing an object
     or checking with it, any number of times, under any transformers, changes neither the store nor any object; everything any
     later operation returns or records is what it would have been without those uses.  (No sentence cached on the object, no memo
     across transformers.)
  2. `describe_reads_current_store`, `check_reads_current_store`, `sentence_and_verdict_from_one_expression` — at every use there
     is ONE expression `e` (the object's constructor calls evaluated on the store as it is now) such that the sentence is
     `describe (build e)` and the verdict is `matchOf (build e)`: the description and the matching read the same value.
     Hence every statement of `Props/C17.lean` about expressions transfers to objects at any moment of any history
     (`sentence_determines_verdict_partial`, `negation_follows_logic_for_objects`).
  3. `mutation_is_seen_by_sentence_and_matching` — after an in-place mutation both the sentence and the accepted set are those of
     the new content.
  4. `reused_object_under_not`, `reused_object_in_clause`, `reused_objects_in_composite` — an object passed to `not_`, to a clause
     host or to `all_of`/`any_of` is worded inside its parent exactly as it words itself (toggled polarity / conjugated / as a
     sibling), for every later store.
  5. `stale_sentence_refuted`, `memo_across_transformers_refuted` — the two other implementations an object could have (a sentence
     rendered once at construction; a sentence memoized per transformer address) violate the property: concrete witnesses.

  Property theorems only (definitions and lemmas: `Model/MatcherObj.lean`, `Lemmas/MatcherObj.lean`).
-/
import LccModel.Lemmas.MatcherObj
import LccModel.Props.C16
import LccModel.Props.C17

namespace LccModel.C17Seq
open LccModel.Matcher LccModel.MatcherObj

/-! ## 1. History independence -/

/-- a use (description, check) changes neither the store nor any object — only the check log grows -/
theorem use_changes_nothing (w : World) (o : Op) (h : o.isUse = true) :
    (step w o).1.store = w.store ∧ (step w o).1.heap = w.heap :=
  step_use_same w o h

/-- **History independence.**  Whatever uses `us` (descriptions under any transformers, checks with any values, of any objects,
    in any number) are inserted after any prefix `pre`, every later operation `post` returns and records exactly what it
    returns and records without them. -/
theorem earlier_uses_are_invisible (w : World) (pre us post : List Op) (hus : ∀ u ∈ us, u.isUse = true) :
    run (exec w (pre ++ us)) post = run (exec w pre) post := by
  rw [exec_append]
  exact (run_same post (exec_uses_same us (exec w pre) hus)).1

/-- in particular the k-th output of a sequence does not depend on the uses that precede it -/
theorem outputs_after_uses (w : World) (pre us post : List Op) (hus : ∀ u ∈ us, u.isUse = true) :
    run w (pre ++ us ++ post) = run w pre ++ run (exec w pre) us ++ run (exec w pre) post := by
  rw [run_append, run_append, earlier_uses_are_invisible w pre us post hus]

/-- objects never change: after any sequence of operations every existing object is the constructor call it was -/
theorem objects_never_change (w : World) (ops : List Op) (i : Nat) (hi : i < w.heap.length) :
    (exec w ops).tmpl i = w.tmpl i := by
  obtain ⟨suffix, h⟩ := exec_heap_prefix ops w
  simp only [World.tmpl, h, List.getD_eq_getElem?_getD, List.getElem?_append_left hi]

/-! ## 2. The sentence and the verdict are read from the same value -/

/-- `m.build_description(t)` now: the description of the expression the constructor calls denote on the CURRENT store; the
    transformer comes back unchanged -/
theorem describe_reads_current_store (w : World) (i : Nat) (t : Tr) :
    (step w (.describe i t)).2 = .text (describe (build (inst w.store (w.tmpl i))) t) t := by
  simp only [step, World.obj, World.expr, C17.transformer_never_altered]

/-- `check_that(hint, actual, m)` now: the checks recorded and the result are those of operations.py applied to the matcher tree
    the constructor calls denote on the CURRENT store -/
theorem check_reads_current_store (w : World) (k : OpKind) (i : Nat) (hint : Option Str) (a : VArg) (quiet : Bool) :
    (step w (.check k i hint a quiet)).2 =
      .checked (k.effect hint (a.read w.store) (build (inst w.store (w.tmpl i))) quiet).1
               (k.effect hint (a.read w.store) (build (inst w.store (w.tmpl i))) quiet).2 :=
  step_check_out w k i hint a quiet

/-- **One expression for the wording and for the matching.**  In every world, for every object there is one public-API expression
    `e` such that, at this moment: every description of the object (any transformer) is `describe (build e)`; every check with
    it records — if it records anything — the sentence `Expect <hint> <describe (build e)>` with the outcome of
    `matchOf (build e)`; and an exception of `matchOf (build e)` is what the operation raises. -/
theorem sentence_and_verdict_from_one_expression (w : World) (i : Nat) :
    ∃ e : Expr,
      (∀ t, (step w (.describe i t)).2 = .text (describe (build e) t) t) ∧
      (∀ k hint a quiet r, matchOf (build e) (a.read w.store) = .ok r →
        ∃ added res, (step w (.check k i hint a quiet)).2 = .checked added res ∧
          (∀ c ∈ added, c.description = checkDescription hint (build e) ∧ c.ok = r.ok) ∧
          (res = .returned r ∨ (res = .abortTest ∧ r.ok = false))) ∧
      (∀ k hint a quiet err, matchOf (build e) (a.read w.store) = .error err →
        (step w (.check k i hint a quiet)).2 = .checked [] (.pyError err)) := by
  refine ⟨inst w.store (w.tmpl i), fun t => describe_reads_current_store w i t, ?_, ?_⟩
  · intro k hint a quiet r hr
    refine ⟨_, _, check_reads_current_store w k i hint a quiet, ?_, ?_⟩
    · intro c hc
      cases k <;> simp only [OpKind.effect, hr] at hc
      · simp only [List.mem_singleton] at hc; subst hc; exact ⟨rfl, rfl⟩
      · simp only [List.mem_singleton] at hc; subst hc; exact ⟨rfl, rfl⟩
      · cases hok : r.ok <;> simp only [hok] at hc
        · simp only [Bool.false_eq_true, if_false, List.mem_singleton] at hc; subst hc; exact ⟨rfl, hok⟩
        · simp at hc
    · cases k <;> cases hok : r.ok <;> simp [OpKind.effect, hr, hok]
  · intro k hint a quiet err he
    rw [check_reads_current_store]
    simp only [OpKind.effect, he]

/-- **Bounded faithfulness for objects** (`_partial`, lifted from `C17.faithful_universe2_partial`): take any two objects, in any
    two worlds reached by any histories.  If what they denote at the moment of their check lies in the universe of
    `Props/C17.lean` outside the two known classes, and the two checks record the same sentence, then they verified the same
    thing (same accepted values of the separating domain). -/
theorem sentence_determines_verdict_partial (w₁ w₂ : World) (i₁ i₂ : Nat)
    (h₁ : w₁.obj i₁ ∈ C17.universe2) (h₂ : w₂.obj i₂ ∈ C17.universe2)
    (c₁ : C17.clean (w₁.obj i₁) = true) (c₂ : C17.clean (w₂.obj i₂) = true) (hint : Option Str)
    (hs : checkDescription hint (w₁.obj i₁) = checkDescription hint (w₂.obj i₂)) :
    ∀ v ∈ C17.domain, C17.accepts (w₁.obj i₁) v = C17.accepts (w₂.obj i₂) v := by
  have hd : describe (w₁.obj i₁) Tr.plain = describe (w₂.obj i₂) Tr.plain := by
    cases hint with
    | none => simpa only [checkDescription, List.append_cancel_left_eq] using hs
    | some h => simpa only [checkDescription, List.append_assoc, List.append_cancel_left_eq] using hs
  exact C17.faithful_universe2_partial _ h₁ _ h₂ c₁ c₂ (by simp only [C17.transformer_never_altered, hd])

/-- **Negation in the wording follows negation in the logic, for objects**: an object `not_(m_i)` built on the existing object
    `m_i` is — at every later moment, whatever was done with `m_i` or with it before — described as `m_i` describes itself at
    that moment with the polarity toggled, and accepts exactly what `m_i` rejects at that moment. -/
theorem negation_follows_logic_for_objects (heap : List OExpr) (i : Nat) (σ : Store) (t : Tr) (v : Val) :
    describe (build (inst σ (link heap (.not_ (.obj i))))) t = describe (build (inst σ (heap.getD i (.pure .anything)))) t.neg ∧
    okE (build (inst σ (link heap (.not_ (.obj i))))) v = notE (okE (build (inst σ (heap.getD i (.pure .anything)))) v) := by
  constructor
  · simp only [link, inst, build, describe]
  · simp only [link, inst, build]; exact C16.not_exact _ v

/-! ## 3. In-place mutation of an expected value -/

/-- after `container_l` was mutated in place, an object built BEFORE on it (`equal_to(container_l)`, possibly long ago) says
    "to be equal to <the new content>" and accepts exactly the values equal to the new content -/
theorem mutation_is_seen_by_sentence_and_matching (w : World) (l : Nat) (μ : Mut) (hl : l < w.store.length) (t : Tr) (v : Val) :
    let w' := (step w (.mutate l μ)).1
    let now := μ.apply (w.store.getD l .none)
    describe (build (inst w'.store (.equal_to (.ref l)))) t = t.apply (c!"to be equal to " ++ jsonify now) ∧
    okE (build (inst w'.store (.equal_to (.ref l)))) v = .ok (pyEq v now) := by
  have hget : (w.store.set l (μ.apply (w.store.getD l .none))).getD l .none = μ.apply (w.store.getD l .none) := by
    simp [List.getD_eq_getElem?_getD, List.getElem?_set_self hl]
  refine ⟨?_, ?_⟩
  · simp only [step, inst, VArg.read, hget, build, describe]
  · simp only [step, inst, VArg.read, hget, build]; exact C16.equal_to_is_eq _ v

/-! ## 4. Objects passed to other constructors -/

/-- `not_(m_i)` — stated on the sentence alone, for every later store -/
theorem reused_object_under_not (heap : List OExpr) (i : Nat) (σ : Store) (t : Tr) :
    describe (build (inst σ (link heap (.not_ (.obj i))))) t = describe (build (inst σ (heap.getD i (.pure .anything)))) t.neg :=
  (negation_follows_logic_for_objects heap i σ t .none).1

/-- `has_item(m_i)`, `has_all_items(m_i)`, `has_length(m_i)`, `has_entry(p, m_i)`, `is_integer(m_i)` …: under every transformer
    state of the parent (positive or under a `not_`), for every later store, the clause about `m_i` is verbatim the sentence
    `m_i` gives of itself (conjugated, its own polarity) -/
theorem reused_object_in_clause (heap : List OExpr) (i : Nat) (σ : Store) (t : Tr) :
    let own := describe (build (inst σ (heap.getD i (.pure .anything)))) Tr.conj
    (∃ pre, describe (build (inst σ (link heap (.has_item (.obj i))))) t = pre ++ own) ∧
    (∃ pre, describe (build (inst σ (link heap (.has_all_items (.obj i))))) t = pre ++ own) ∧
    (∃ pre, describe (build (inst σ (link heap (.has_length (.obj i))))) t = pre ++ own) ∧
    (∀ p, ∃ pre, describe (build (inst σ (link heap (.has_entry p (.obj i))))) t = pre ++ own) ∧
    (∀ ty, ∃ pre, describe (build (inst σ (link heap (.is_type ty (.obj i))))) t = pre ++ own) := by
  have h := C17.clause_wording_independent_of_parent (build (inst σ (heap.getD i (.pure .anything)))) t
  simp only [C17.transformer_never_altered] at h
  simpa only [link, inst, build] using h

/-- `all_of(m_i, m_j)` / `any_of(m_i, m_j)`: the composite's sentence is the rendering of the sentences the two objects give of
    themselves under the same transformer -/
theorem reused_objects_in_composite (heap : List OExpr) (i j : Nat) (σ : Store) (t : Tr) :
    let mi := build (inst σ (heap.getD i (.pure .anything)))
    let mj := build (inst σ (heap.getD j (.pure .anything)))
    describe (build (inst σ (link heap (.all_of [.obj i, .obj j])))) t =
      renderComposite c!"and" ([mi, mj].any M.isComposite) [describe mi t, describe mj t] [describe mi t, describe mj t] ∧
    describe (build (inst σ (link heap (.any_of [.obj i, .obj j])))) t =
      renderComposite c!"or" ([mi, mj].any M.isComposite) [describe mi t, describe mj t] [describe mi t, describe mj t] := by
  simp only [link, linkList, inst, instList, build, buildList, describe, describeList, and_self]

/-! ## 5. What the statements exclude -/

/-- If the sentence were rendered ONCE, from the content the expected value had when the matcher was built, while `matches()`
    reads the live value: after `expected["id"] = 7` the check records the sentence of a matcher (the one built on
    `{"id": null}`) that accepts a different set of values than what was verified. -/
theorem stale_sentence_refuted :
    let σ₀ : Store := [.dict [.str c!"id"] [.none]]
    let σ₁ : Store := (step ⟨σ₀, [], []⟩ (.mutate 0 (.setKey (.str c!"id") (.int 7)))).1.store
    let t : OExpr := .equal_to (.ref 0)
    staleDescribe σ₀ t Tr.plain = describe (build (inst σ₀ t)) Tr.plain ∧
    staleDescribe σ₀ t Tr.plain ≠ describe (build (inst σ₁ t)) Tr.plain ∧
    C17.accepts (build (inst σ₁ t)) (.dict [.str c!"id"] [.int 7]) ≠ C17.accepts (build (inst σ₀ t)) (.dict [.str c!"id"] [.int 7]) := by
  decide

/-- If a composite memoized its sentence per transformer ADDRESS: `m = all_of(greater_than(0), less_than(10))` is described
    top-level (address A, plain); then `not_(m)` is described — `Not` hands `m` a new transformer (negative) that lands on the
    released address A — and gets the sentence of `m`: same sentence, complementary accepted sets. -/
theorem memo_across_transformers_refuted :
    let m : M := .allOf [.cmp (.ord .gt) (.int 0), .cmp (.ord .lt) (.int 10)]
    memoDescribe (some Tr.plain) m Tr.plain.neg = describe m Tr.plain ∧
    describe (.not m) Tr.plain ≠ describe m Tr.plain ∧
    C17.accepts (.not m) (.int 5) ≠ C17.accepts m (.int 5) := by
  decide

/-- non-vacuity: a concrete history — build on a mutable dict, use, complete the dict, build `has_entry("k", m)` and `not_(m)`,
    use all three — and what the model returns -/
example :
    (run ⟨[.dict [.str c!"id"] [.none]], [], []⟩
      [.build (.equal_to (.ref 0)), .describe 0 Tr.plain, .mutate 0 (.setKey (.str c!"id") (.int 7)), .describe 0 Tr.plain,
       .build (.not_ (.obj 0)), .describe 1 Tr.plain, .describe 0 Tr.conj,
       .check .require 1 (some c!"x") (.ref 0) false]).map
      (fun o => match o with
        | .built i => natStr i
        | .mutated v => jsonify v
        | .text d _ => d
        | .checked added r => joinWith c!"|" (added.map (·.description)) ++ (if r = .abortTest then c!" -> AbortTest" else [])) =
    [c!"0", c!"to be equal to {\"id\": null}", c!"{\"id\": 7}", c!"to be equal to {\"id\": 7}", c!"1",
     c!"to not be equal to {\"id\": 7}", c!"is equal to {\"id\": 7}",
     c!"Expect x to not be equal to {\"id\": 7} -> AbortTest"] := by
  decide

end LccModel.C17Seq

/-
  C13 — "loading a project's suites from a directory … yields every visible declared test": for which SPELLINGS of the
  directory path (fifth seeded round).  `Model/PathSpelling.lean` makes the spelling `sp` of the directory argument an input
  and pairs a module with its companion directory the way the code does, by path strings: the module key is the file name
  `glob.glob(os.path.join(sp, "*.py"))` yields (`fileKey`: `os.path.join(head, name)`, `head` = `sp` without ALL its trailing
  separators unless all separators), the lookup is `suites.get(os.path.join(sp, name) + ".py")`.

  Proved: for every accepted spelling (`spellingOk`: non-empty, not ending with `//` unless all separators) the string
  lookup pairs exactly the directory named like the module, a file key never equals a synthetic key, and the loaded forest
  is `Loader.loadDir` of the directory CONTENT — the same for `suites`, `./suites`, `suites/`, `a//b`, an absolute path.

  REFUTED (finding D47): the full-strength statement
      `∀ sp, sp ≠ "" → ∀ d, namesOk d = true → loadDirAt sp d = loadDir d`
  fails for `sp = "suites//"`: the module `api` and its directory `api/` are loaded as two separate suites
  (`repeated_trailing_separator_splits_module_and_directory`, `full_strength_statement_refuted`).

  A sub-directory scan that normalises its paths while the file names keep the caller's spelling (the seeded change)
  breaks the pairing also for accepted spellings (examples at the end).
-/
import LccModel.Model.PathSpelling
import LccModel.Lemmas.PathSpelling
import LccModel.Props.C13

namespace LccModel.C13Spelling
open LccModel.Loader LccModel.PathSpelling

/-- Under an accepted spelling the file name `glob` yields is `os.path.join(sp, name)`. -/
theorem file_key_is_joined_path (sp name : String) (hok : spellingOk sp = true) : fileKey sp name = joinPath sp name :=
  fileKey_eq_joinPath hok name

/-- The string lookup `suites.get(os.path.join(sp, name) + ".py")` hits the key of the file `stem + ".py"` exactly when the
    directory is named like the module — for every accepted spelling `sp`. -/
theorem companion_key_iff (sp name stem : String) (hok : spellingOk sp = true) :
    joinPath sp name ++ ".py" = fileKey sp (stem ++ ".py") ↔ name = stem := by
  rw [fileKey_eq_joinPath hok, ← joinPath_append, joinPath_inj]
  exact ⟨str_append_right_cancel, fun h => by rw [h]⟩

/-- … and with the SAME prefix on both sides, for EVERY spelling (no hypothesis): what the pairing would be if the file
    names were built with `os.path.join(sp, ·)`. -/
theorem companion_key_iff_same_prefix (sp name stem : String) :
    joinPath sp name ++ ".py" = joinPath sp (stem ++ ".py") ↔ name = stem := by
  rw [← joinPath_append, joinPath_inj]
  exact ⟨str_append_right_cancel, fun h => by rw [h]⟩

/-- D47 at the level of keys: with two trailing separators the directory named like the module misses its key. -/
theorem companion_key_missed_after_double_separator :
    joinPath "suites//" "api" ++ ".py" ≠ fileKey "suites//" ("api" ++ ".py") := by decide +kernel

/-- A joined path under a non-empty spelling is never a synthetic key (a bare name without `/`). -/
theorem joined_path_ne_synthetic_key (sp x n : String) (hsp : sp ≠ "") (hn : '/' ∉ n.toList) : joinPath sp x ≠ n :=
  joinPath_ne_of_noSlash hsp x n (by simpa [noSlash] using hn)

/-- A file key (what `glob` yields under a non-empty spelling, accepted or not) is never a synthetic key. -/
theorem file_key_ne_synthetic_key (sp x n : String) (hsp : sp ≠ "") (hn : '/' ∉ n.toList) : fileKey sp x ≠ n :=
  joinPath_ne_of_noSlash (globHead_ne_empty hsp) x n (by simpa [noSlash] using hn)

/-- The spelling handed to the recursion, `os.path.join(sp, name)` with `name` a path component, is accepted again
    (it does not end with a separator), whatever non-empty `sp` was. -/
theorem spellingOk_join (sp name : String) (hsp : sp ≠ "") (hn : compOk name = true) :
    spellingOk (joinPath sp name) = true :=
  PathSpelling.spellingOk_join hsp hn

/-- **One level**: the second loop of `load_suites_from_directory` on the path-keyed dict (lookup
    `joinPath sp dname ++ ".py"`, synthetic insert under `dname`) computes the encoded image of the abstract second loop,
    when the synthetic keys already in the dict and the directory names contain no `/`. -/
theorem mergeDirsAt_simulates (sp : String) (hsp : sp ≠ "") (t : Table)
    (rs : List (String × Except LoadErr (List Suite))) (ht : GoodT t) (hrs : ∀ p ∈ rs, noSlash p.1 = true) :
    mergeDirsAt sp (encT sp t) rs = mapE (encT sp) (mergeDirs t rs) :=
  mergeDirsAt_eq hsp rs t ht hrs

mutual
/-- **The loaded forest is a function of the directory content only**: for every accepted spelling `sp` of the directory
    path, the string-keyed loader returns what the abstract loader returns (same suites, same order, same error). -/
theorem load_invariant_under_spelling' : ∀ (d : Dir) (sp : String), spellingOk sp = true → namesOk d = true →
    loadDirAt sp d = loadDir d
  | .mk n mods dirs, sp, hok, hn => by
    have hsp := ne_empty_of_spellingOk hok
    simp only [namesOk, Bool.and_eq_true] at hn
    have hl := load_list_invariant_under_spelling dirs sp hsp hn.2
    simp only [loadDirAt, loadDir, hl, loadModTableAt_eq hok]
    cases hm : loadModTable (sortMods mods) with
    | error e => rfl
    | ok t =>
      simp only [mapE]
      have hg := loadModTable_good _ t hm
      have hrs : ∀ p ∈ sortDirResults (loadDirList dirs), noSlash p.1 = true := by
        intro p hp
        simp only [sortDirResults, mem_sortBy, loadDirList_eq_map, List.mem_map] at hp
        obtain ⟨d, hd, rfl⟩ := hp
        exact noSlash_of_compOk (names_of_namesOkList dirs hn.2 d hd)
      rw [mergeDirsAt_eq hsp _ t hg hrs]
      cases mergeDirs t (sortDirResults (loadDirList dirs)) with
      | error e => rfl
      | ok t' => simp only [mapE, map_snd_encT]
/-- the recursive calls: any non-empty spelling of the parent will do, `os.path.join(sp, name)` is accepted -/
theorem load_list_invariant_under_spelling : ∀ (ds : List Dir) (sp : String), sp ≠ "" → namesOkList ds = true →
    loadDirListAt sp ds = loadDirList ds
  | [], _, _, _ => rfl
  | d :: ds, sp, hsp, hn => by
    simp only [namesOkList, Bool.and_eq_true] at hn
    simp only [loadDirListAt, loadDirList,
      load_invariant_under_spelling' d (joinPath sp d.name) (PathSpelling.spellingOk_join hsp hn.1.1) hn.1.2,
      load_list_invariant_under_spelling ds sp hsp hn.2]
end

/-- **Main statement** (the partial one that holds): `load_suites_from_directory(sp)` = the abstract loader on the content
    `d`, for every accepted spelling.  The statement for all `sp ≠ ""` is refuted below. -/
theorem load_invariant_under_spelling (sp : String) (hok : spellingOk sp = true) (d : Dir) (hn : namesOk d = true) :
    loadDirAt sp d = loadDir d :=
  load_invariant_under_spelling' d sp hok hn

/-- the same, under the name that says it is partial -/
theorem load_invariant_under_spelling_partial (sp : String) (hok : spellingOk sp = true) (d : Dir)
    (hn : namesOk d = true) : loadDirAt sp d = loadDir d :=
  load_invariant_under_spelling sp hok d hn

/-- Two accepted spellings of the same directory load the same forest. -/
theorem load_same_for_any_two_spellings (sp sp' : String) (hok : spellingOk sp = true) (hok' : spellingOk sp' = true)
    (d : Dir) (hn : namesOk d = true) : loadDirAt sp d = loadDirAt sp' d := by
  rw [load_invariant_under_spelling sp hok d hn, load_invariant_under_spelling sp' hok' d hn]

/-- stripping dunder class members does not touch directory names or module stems -/
theorem namesOk_strip (d : Dir) : namesOk (stripDir d) = namesOk d := namesOk_stripDir d

/-- The real entry point (dunder members of classes skipped), any accepted spelling. -/
theorem load_real_invariant_under_spelling (sp : String) (hok : spellingOk sp = true) (d : Dir)
    (hn : namesOk d = true) : loadDirRealAt sp d = loadDirReal d :=
  load_invariant_under_spelling sp hok (stripDir d) (by rw [namesOk_stripDir]; exact hn)

/-- Property sentence under any accepted spelling: a successful load yields exactly the declared tests of the (stripped)
    directory, each suite duplicate-free. -/
theorem load_real_exact_under_spelling (sp : String) (hok : spellingOk sp = true) (d : Dir) (hn : namesOk d = true)
    (ss : List Suite) (h : loadDirRealAt sp d = .ok ss) :
    Suite.entriesList ss = declDir (stripDir d) ∧ ∀ s ∈ ss, s.Unique := by
  rw [load_real_invariant_under_spelling sp hok d hn] at h
  exact C13.load_directory_real_exact_on_stripped d ss h

/-! ## Refutation of the full-strength statement (finding D47) -/

/-- **`suites//`**: the module `api` and its companion directory `api/` come out as TWO top-level suites (the module
    suite and a synthetic `api`), where the directory content declares one. -/
theorem repeated_trailing_separator_splits_module_and_directory :
    loadDirAt "suites//" exTree ≠ loadDir exTree ∧
    topCount (loadDirAt "suites//" exTree) = some 2 ∧ topCount (loadDir exTree) = some 1 := by
  refine ⟨?_, by decide +kernel, by decide +kernel⟩
  intro h
  have := congrArg topCount h
  revert this
  decide +kernel

/-- the statement "for every non-empty spelling" is false -/
theorem full_strength_statement_refuted :
    ¬ ∀ (sp : String), sp ≠ "" → ∀ d : Dir, namesOk d = true → loadDirAt sp d = loadDir d := by
  intro h
  exact repeated_trailing_separator_splits_module_and_directory.1 (h "suites//" (by decide) exTree (by decide +kernel))

/-- … and so is "any two non-empty spellings load the same forest" -/
theorem two_spellings_differ :
    loadDirAt "suites//" exTree ≠ loadDirAt "suites/" exTree := by
  intro h
  have := congrArg topCount h
  revert this
  decide +kernel

/-! ## Non-vacuity (kernel-evaluated) on `exTree`: module `api` (one test, no `SUITE`) + directory `api` holding `users` -/

example : namesOk exTree = true := by decide +kernel
example : spellingOk "./suites" = true ∧ spellingOk "suites/" = true ∧ spellingOk "a//suites" = true ∧ spellingOk "/" = true
    ∧ spellingOk "//" = true ∧ spellingOk "" = false ∧ spellingOk "suites//" = false ∧ spellingOk ".///suites//" = false := by
  decide +kernel
example : loadDirAt "./suites" exTree = loadDir exTree :=
  load_invariant_under_spelling _ (by decide +kernel) exTree (by decide +kernel)
example : pathsOf (loadDir exTree) = some [["api", "ping"], ["api", "users", "list_users"]] := by decide +kernel
example : pathsOf (loadDirAt "./suites" exTree) = some [["api", "ping"], ["api", "users", "list_users"]] := by decide +kernel
example : pathsOf (loadDirAt "a//suites/" exTree) = some [["api", "ping"], ["api", "users", "list_users"]] := by decide +kernel
example : pathsOf (loadDirAt "/" exTree) = some [["api", "ping"], ["api", "users", "list_users"]] := by decide +kernel
/-- D47: the synthetic `api` (rank 0) comes first, the module suite `api` second -/
example : pathsOf (loadDirAt "suites//" exTree) = some [["api", "users", "list_users"], ["api", "ping"]] := by decide +kernel

/-- the keys: `glob` drops every trailing separator, `os.path.join` keeps them -/
example : fileKey "suites//" "api.py" = "suites/api.py" ∧ joinPath "suites//" "api" ++ ".py" = "suites//api.py" := by
  decide +kernel
example : fileKey "suites/" "api.py" = "suites/api.py" ∧ joinPath "suites/" "api" ++ ".py" = "suites/api.py" := by
  decide +kernel
example : fileKey "//" "api.py" = "//api.py" ∧ joinPath "//" "api" ++ ".py" = "//api.py" := by decide +kernel

/-- A NORMALISING sub-directory scan (`./suites` → `suites`) with file names in the caller's spelling (the seeded change):
    the lookup misses for an ACCEPTED spelling, the directory gets a second, synthetic `api` suite … -/
example : spellingOk "./suites" = true ∧ pathsOf (loadDirAtNormalising dropDotSlash "./suites" exTree)
    = some [["api", "users", "list_users"], ["api", "ping"]] := by decide +kernel
example : loadDirAtNormalising dropDotSlash "./suites" exTree ≠ loadDir exTree := by
  intro h
  have := congrArg pathsOf h
  revert this
  decide +kernel
/-- … while with a spelling the normalisation leaves alone the change is invisible -/
example : pathsOf (loadDirAtNormalising dropDotSlash "suites" exTree)
    = some [["api", "ping"], ["api", "users", "list_users"]] := by decide +kernel

end LccModel.C13Spelling

/-
  C20 — every evaluation of a view on a LIVE report agrees with an enumeration of the report at that moment.

  Property theorems only (definitions: `Model/LiveViews.lean`, `Model/Views.lean`).  Which theorem quantifies over
  the input class "the views evaluated several times on one report object, with results added in between":
  `live_views_count_the_report_as_it_is` (every list of events and evaluations, from every writer state).
-/
import LccModel.Model.LiveViews
import LccModel.Props.C20

namespace LccModel.C20
open LccModel.Report LccModel.Writer LccModel.Views

/-- every evaluation returns the statistics of the report as it is at that moment -/
theorem live_view_is_current (acts : List LiveAct) (w : WriterState) :
    ∀ p ∈ liveRun w acts, p.2 = statsOf p.1 := by
  induction acts generalizing w with
  | nil => intro p hp; cases hp
  | cons a acts ih =>
    intro p hp
    cases a with
    | view =>
      simp only [liveRun, List.mem_cons] at hp
      rcases hp with rfl | hp
      · rfl
      · exact ih w p hp
    | ev e =>
      simp only [liveRun] at hp
      cases hx : Writer.apply w e with
      | error _ => rw [hx] at hp; cases hp
      | ok w' => rw [hx] at hp; exact ih w' p hp

/-- **Every evaluation, however many were made before it on the same report and whatever was added in between, gives
    the counts obtained by enumerating the tests of the report at that moment** (statistics; hence the console summary
    and the JUnit root counters, which are computed from them: `console_summary`, `junit_root_counters`). -/
theorem live_views_count_the_report_as_it_is (acts : List LiveAct) (w : WriterState) :
    ∀ p ∈ liveRun w acts,
      p.2.total = (allTests p.1).length ∧
      p.2.passed = countStatus .passed (allTests p.1) ∧ p.2.failed = countStatus .failed (allTests p.1) ∧
      p.2.skipped = countStatus .skipped (allTests p.1) ∧ p.2.disabled = countStatus .disabled (allTests p.1) := by
  intro p hp
  rw [live_view_is_current acts w p hp]
  obtain ⟨h1, h2, h3, h4, h5, _⟩ := stats_counts p.1
  exact ⟨h1, h2, h3, h4, h5⟩

/-- the evaluations are made on the reports the writer really held: the n-th evaluation sees the report of the events
    before it (no evaluation is skipped or repeated) -/
theorem live_views_number (acts : List LiveAct) (w w' : WriterState)
    (h : Writer.run w (acts.filterMap (fun a => match a with | .ev e => some e | .view => none)) = .ok w') :
    (liveRun w acts).length = (acts.filter (· == .view)).length := by
  induction acts generalizing w with
  | nil => rfl
  | cons a acts ih =>
    cases a with
    | view =>
      simp only [List.filterMap_cons] at h
      simp only [liveRun, List.length_cons, List.filter_cons, beq_self_eq_true, if_true]
      rw [ih w h]
    | ev e =>
      simp only [List.filterMap_cons, Writer.run] at h
      cases hx : Writer.apply w e with
      | error _ => rw [hx] at h; cases h
      | ok w1 =>
        rw [hx] at h
        have : (LiveAct.ev e == LiveAct.view) = false := by
          rw [beq_eq_false_iff_ne]; intro hc; cases hc
        simp only [liveRun, hx, List.filter_cons, this, Bool.false_eq_true, if_false]
        exact ih w1 h

/-! ### Non-vacuity: a memoised `from_report` is told apart -/

def liveMd (n : String) (k : Nat) : Meta := { name := n, description := n, tags := [], properties := [], links := [], rank := k }

/-- one suite, a failed test (the JUnit backend saves: first evaluation), then a passed test, then the end of the run
    (console summary: second evaluation) -/
def liveDemo : List LiveAct :=
  [.ev (.sessionStart 1), .ev (.suiteStart ["s"] (liveMd "s" 0) 2),
   .ev (.testStart ["s", "a"] (liveMd "a" 0) 3),
   .ev (.stepStart (.test ["s", "a"]) "st" 1 4),
   .ev (.check (.test ["s", "a"]) (some "st") 1 "c" false none 5),
   .ev (.stepEnd (.test ["s", "a"]) "st" 1 6), .ev (.testEnd ["s", "a"] 7),
   .view,
   .ev (.testStart ["s", "b"] (liveMd "b" 1) 8), .ev (.testEnd ["s", "b"] 9),
   .ev (.suiteEnd ["s"] 10), .ev (.sessionEnd 11),
   .view]

example : (liveRun (initState) liveDemo).map (fun p => (p.2.total, p.2.passed, p.2.failed)) = [(1, 0, 1), (2, 1, 1)] := by decide

/-- the memoised variant reports the numbers of the FIRST evaluation at the end of the run: one test instead of two -/
theorem cached_views_go_stale :
    (liveRunCached (initState) none liveDemo).map (fun p => (p.2.total, (allTests p.1).length)) = [(1, 1), (1, 2)] := by decide

end LccModel.C20

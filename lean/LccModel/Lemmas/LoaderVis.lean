/-
  Helper lemmas for C13, layer 9: the `visible_if` decision.
  * the expression the loader evaluates (`md.condition and not md.condition(obj)`, read through `not`)
    against `Vis.visible`, for every value the condition may return;
  * on layouts without falsy condition callables the normalisation of the real entry points is the
    identity.
-/
import LccModel.Lemmas.LoaderDunder

namespace LccModel.Loader

theorem pyNot_truthy (v : PyVal) : (pyNot v).truthy = !v.truthy := rfl

theorem pyAnd_truthy (a b : PyVal) : (pyAnd a b).truthy = (a.truthy && b.truthy) := by
  unfold pyAnd
  cases h : a.truthy <;> simp [h]

/-- The expression the code evaluates, read by `not …`, is `Vis.visible` of the normalised condition:
    for every value `c(obj)` may return. -/
theorem Vis.shown_eq_norm (v : Vis) : v.shown = (normVis v).visible := by
  cases v with
  | always => rfl
  | hidden => rfl
  | cond st x =>
    cases st
    · simp only [Vis.shown, Vis.hiddenAttr, pyAnd_truthy, Vis.conditionObj, normVis, Vis.visible]
      simp [PyVal.truthy]
    · simp only [Vis.shown, Vis.hiddenAttr, pyAnd_truthy, pyNot_truthy, Vis.conditionObj, Vis.result, normVis, Vis.visible]
      simp [PyVal.truthy]

/-- `.hidden` is `None` (no condition), one of the two `bool` singletons, or the falsy callable itself. -/
theorem Vis.hiddenAttr_cases (v : Vis) :
    v.hiddenAttr = .none ∨ (∃ b, v.hiddenAttr = .bool b) ∨ (v.falsyCallable = true ∧ v.hiddenAttr = .objBool false) := by
  cases v with
  | always => exact .inl rfl
  | hidden => exact .inr (.inl ⟨true, rfl⟩)
  | cond st x =>
    cases st
    · exact .inr (.inr ⟨rfl, rfl⟩)
    · exact .inr (.inl ⟨!x.truthy, rfl⟩)

theorem normVis_eq_self {v : Vis} (h : v.falsyCallable = false) : normVis v = v := by
  cases v with
  | always => rfl
  | hidden => rfl
  | cond st x => cases st <;> simp_all [Vis.falsyCallable, normVis]

theorem normTests_eq_self : ∀ (ts : List TestDecl), noFalsyTests ts = true → normTests ts = ts
  | [], _ => rfl
  | t :: ts, h => by
    simp only [noFalsyTests, List.all_cons, Bool.and_eq_true, Bool.not_eq_true'] at h
    have ih := normTests_eq_self ts (by simpa [noFalsyTests] using h.2)
    simp only [normTests, normTest, normVis_eq_self h.1, ih]

mutual
theorem normCls_eq_self : ∀ (c : Cls), noFalsyCls c = true → normCls c = c
  | .mk h tests subs, hn => by
    simp only [noFalsyCls, Bool.and_eq_true, Bool.not_eq_true'] at hn
    simp only [normCls, normHead, normVis_eq_self hn.1.1, normTests_eq_self tests hn.1.2, normClsList_eq_self subs hn.2]
theorem normClsList_eq_self : ∀ (cs : List Cls), noFalsyClsList cs = true → normClsList cs = cs
  | [], _ => rfl
  | c :: cs, hn => by
    simp only [noFalsyClsList, Bool.and_eq_true] at hn
    simp only [normClsList, normCls_eq_self c hn.1, normClsList_eq_self cs hn.2]
end

theorem normInfo_eq_self : ∀ (i : Option SuiteInfo), noFalsyInfo i = true → normInfo i = i
  | none, _ => rfl
  | some i, h => by
    simp only [noFalsyInfo, Bool.not_eq_true'] at h
    simp only [normInfo, normVis_eq_self h]

theorem normModule_eq_self (m : Module) (h : noFalsyModule m = true) : normModule m = m := by
  simp only [noFalsyModule, Bool.and_eq_true] at h
  simp only [normModule, normInfo_eq_self _ h.1.1, normTests_eq_self _ h.1.2, normClsList_eq_self _ h.2]

theorem normModules_eq_self : ∀ (ms : List Module), noFalsyModules ms = true → normModules ms = ms
  | [], _ => rfl
  | m :: ms, h => by
    simp only [noFalsyModules, Bool.and_eq_true] at h
    simp only [normModules, normModule_eq_self m h.1, normModules_eq_self ms h.2]

mutual
theorem normDir_eq_self : ∀ (d : Dir), noFalsyDir d = true → normDir d = d
  | .mk n mods dirs, h => by
    simp only [noFalsyDir, Bool.and_eq_true] at h
    simp only [normDir, normModules_eq_self mods h.1, normDirs_eq_self dirs h.2]
theorem normDirs_eq_self : ∀ (ds : List Dir), noFalsyDirs ds = true → normDirs ds = ds
  | [], _ => rfl
  | d :: ds, h => by
    simp only [noFalsyDirs, Bool.and_eq_true] at h
    simp only [normDirs, normDir_eq_self d h.1, normDirs_eq_self ds h.2]
end

/-! ### The three levels: what a `visible_if` value does to a test, a class, a module -/

/-- The false values, exhaustively (Python's truth protocol on the modelled shapes). -/
theorem PyVal.truthy_eq_false_iff (v : PyVal) :
    v.truthy = false ↔
      (v = .none ∨ v = .bool false ∨ v = .int 0 ∨ v = .float (.fin 0) ∨ v = .float .negZero ∨ v = .str "" ∨
       v = .list 0 ∨ v = .tuple 0 ∨ v = .dict 0 ∨ v = .objBool false ∨ v = .objLen 0) := by
  cases v with
  | none => simp [PyVal.truthy]
  | bool b => cases b <;> simp [PyVal.truthy]
  | int i => simp [PyVal.truthy]
  | float f => cases f <;> simp [PyVal.truthy, PyFloat.truthy]
  | str s => by_cases h : s = "" <;> simp [PyVal.truthy, h]
  | list n => simp [PyVal.truthy]
  | tuple n => simp [PyVal.truthy]
  | dict n => simp [PyVal.truthy]
  | obj => simp [PyVal.truthy]
  | objBool b => cases b <;> simp [PyVal.truthy]
  | objLen n => simp [PyVal.truthy]

/-- Test level: what `_load_tests` yields for a conditional test symbol (templates well-formed). -/
theorem expandDecl_cond {d : TestDecl} {st : Bool} {v : PyVal} (hv : d.vis = .cond st v) (hk : templatesOk d = true) :
    expandDecl d = if v.truthy then (expansions d).map .ok else [] := by
  rw [expandDecl_of_ok d hk]
  unfold declDecl
  rw [hv]
  cases h : v.truthy <;> simp [Vis.visible, h]

theorem declDecl_cond {d : TestDecl} {st : Bool} {v : PyVal} (hv : d.vis = .cond st v) :
    declDecl d = if v.truthy then expansions d else [] := by
  unfold declDecl
  rw [hv]
  rfl

/-- Class level: the flag of the loaded suite. -/
theorem loadClass_hidden {c : Cls} {s : Suite} (h : loadClass c = .ok s) : s.hidden = !c.head.vis.visible := by
  have := (loadClass_good h).head
  simp [Suite.hidden, this, clsSuiteHead]

theorem mem_visibleClasses {cs : List Cls} {c : Cls} : c ∈ visibleClasses cs ↔ c ∈ cs ∧ c.head.vis.visible = true := by
  unfold visibleClasses discoverClasses
  rw [List.mem_filter, mem_discover]

/-- Module level. -/
theorem loadFile_hidden_of_info {m : Module} {s : Suite} {i : SuiteInfo} (h : loadFile m = .ok s) (hi : m.info = some i) :
    s.hidden = !i.vis.visible := by
  have hb : m.broken = false := by
    cases hb : m.broken
    · rfl
    · simp [loadFile, hb] at h
  rw [file_no_collapse_with_info hi hb] at h
  obtain ⟨ss, rfl, _⟩ := loadModule_spec h
  simp [Suite.hidden, Suite.head, modSuiteHead, Module.visible, hi]

theorem loadModTable_single {m : Module} {s : Suite} (h : loadFile m = .ok s) :
    loadModTable [m] = .ok (if s.hidden then [] else [(Key.file m.stem, s)]) := by
  simp [loadModTable, h]

theorem loadFiles_single {m : Module} {s : Suite} (h : loadFile m = .ok s) :
    loadFiles [m] = .ok (if !s.hidden && !s.isEmpty then [s] else []) := by
  cases hh : s.hidden <;> cases he : s.isEmpty <;>
    simp [loadFiles, sortMods, sortBy, insertBy, sequenceE, h, List.filter, hh, he]

end LccModel.Loader

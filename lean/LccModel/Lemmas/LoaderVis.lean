/-
  Helper lemmas for C13, layer 9: the `visible_if` decision.
  * the expression the loader evaluates (`md.condition is not None and not md.condition(obj)`, read
    through `not`) against `Vis.visible`, for every value the condition may return and every kind of
    callable (a callable that is itself a false value included: D36, repaired);
  * its effect on a test, a suite class, a module.
-/
import LccModel.Lemmas.LoaderDunder

namespace LccModel.Loader

theorem pyNot_truthy (v : PyVal) : (pyNot v).truthy = !v.truthy := rfl

theorem pyAnd_truthy (a b : PyVal) : (pyAnd a b).truthy = (a.truthy && b.truthy) := by
  unfold pyAnd
  cases h : a.truthy <;> simp [h]

/-- `.hidden` is always one of the two `bool` singletons: `True` iff there is a condition and it returns a
    false value — whatever the truth value of the callable itself. -/
theorem Vis.hiddenAttr_bool (v : Vis) : v.hiddenAttr = .bool (!v.visible) := by
  cases v with
  | always => rfl
  | hidden => rfl
  | cond st x => cases st <;> rfl

/-- The expression the (repaired) code evaluates, read by `not …`, is `Vis.visible`: for every value `c(obj)` may
    return and whatever the truth value of the callable `c` itself. -/
theorem Vis.shown_eq_visible (v : Vis) : v.shown = v.visible := by
  simp [Vis.shown, Vis.hiddenAttr_bool, PyVal.truthy]

/-! ### The three levels: what a `visible_if` value does to a test, a class, a module -/

/-- The false values, exhaustively (Python's truth protocol on the modelled shapes). -/
theorem PyVal.truthy_eq_false_iff (v : PyVal) :
    v.truthy = false ↔
      (v = .none ∨ v = .bool false ∨ v = .int 0 ∨ v = .float (.fin 0) ∨ v = .float .negZero ∨ v = .str "" ∨
       v = .list 0 ∨ v = .tuple 0 ∨ v = .dict 0 ∨ v = .objBool false ∨ v = .objLen 0) := by
  cases v with
  | none => simp [PyVal.truthy]
  | bool b => cases b <;> simp [PyVal.truthy]
  | int i => simp [PyVal.truthy]
  | float f => cases f <;> simp [PyVal.truthy, PyFloat.truthy]
  | str s => by_cases h : s = "" <;> simp [PyVal.truthy, h]
  | list n => simp [PyVal.truthy]
  | tuple n => simp [PyVal.truthy]
  | dict n => simp [PyVal.truthy]
  | obj => simp [PyVal.truthy]
  | objBool b => cases b <;> simp [PyVal.truthy]
  | objLen n => simp [PyVal.truthy]

/-- Test level: what `_load_tests` yields for a conditional test symbol (templates well-formed). -/
theorem expandDecl_cond {d : TestDecl} {st : Bool} {v : PyVal} (hv : d.vis = .cond st v) (hk : templatesOk d = true) :
    expandDecl d = if v.truthy then (expansions d).map .ok else [] := by
  rw [expandDecl_of_ok d hk]
  unfold declDecl
  rw [hv]
  cases h : v.truthy <;> simp [Vis.visible, h]

theorem declDecl_cond {d : TestDecl} {st : Bool} {v : PyVal} (hv : d.vis = .cond st v) :
    declDecl d = if v.truthy then expansions d else [] := by
  unfold declDecl
  rw [hv]
  rfl

/-- Class level: the flag of the loaded suite. -/
theorem loadClass_hidden {c : Cls} {s : Suite} (h : loadClass c = .ok s) : s.hidden = !c.head.vis.visible := by
  have := (loadClass_good h).head
  simp [Suite.hidden, this, clsSuiteHead]

theorem mem_visibleClasses {cs : List Cls} {c : Cls} : c ∈ visibleClasses cs ↔ c ∈ cs ∧ c.head.vis.visible = true := by
  unfold visibleClasses discoverClasses
  rw [List.mem_filter, mem_discover]

/-- Module level. -/
theorem loadFile_hidden_of_info {m : Module} {s : Suite} {i : SuiteInfo} (h : loadFile m = .ok s) (hi : m.info = some i) :
    s.hidden = !i.vis.visible := by
  have hb : m.broken = false := by
    cases hb : m.broken
    · rfl
    · simp [loadFile, hb] at h
  rw [file_no_collapse_with_info hi hb] at h
  obtain ⟨ss, rfl, _⟩ := loadModule_spec h
  simp [Suite.hidden, Suite.head, modSuiteHead, Module.visible, hi]

theorem loadModTable_single {m : Module} {s : Suite} (h : loadFile m = .ok s) :
    loadModTable [m] = .ok (if s.hidden then [] else [(Key.file m.stem, s)]) := by
  simp [loadModTable, h]

theorem loadFiles_single {m : Module} {s : Suite} (h : loadFile m = .ok s) :
    loadFiles [m] = .ok (if !s.hidden && !s.isEmpty then [s] else []) := by
  cases hh : s.hidden <;> cases he : s.isEmpty <;>
    simp [loadFiles, sortMods, sortBy, insertBy, sequenceE, h, List.filter, hh, he]

end LccModel.Loader

import LccModel.Lemmas.Session

/-!
  Step bracketing per thread (C07, C06): projected on one emitting thread, the fired stream is a word of
  `(stepStart stepped* stepEnd)*` possibly followed by an open `stepStart stepped*`, and whether a step is
  currently open in the stream is exactly what the thread's cursor says.
-/
namespace LccModel.Session
open LccModel.Report

/-- what an event means for the step bracketing of thread `a` -/
inductive TK | start | end_ | stepped
deriving DecidableEq, Repr

def kindFor (a : Nat) : Event → Option TK
  | .stepStart _ _ tid _ => if tid = a then some .start else none
  | .stepEnd _ _ tid _ => if tid = a then some .end_ else none
  | .log _ _ tid _ _ _ => if tid = a then some .stepped else none
  | .check _ _ tid _ _ _ _ => if tid = a then some .stepped else none
  | .attachment _ _ tid _ _ _ _ => if tid = a then some .stepped else none
  | .url _ _ tid _ _ _ => if tid = a then some .stepped else none
  | _ => none

def proj (a : Nat) (es : List Event) : List TK := es.filterMap (kindFor a)

theorem proj_append (a : Nat) (l1 l2 : List Event) : proj a (l1 ++ l2) = proj a l1 ++ proj a l2 := by
  unfold proj; exact List.filterMap_append

/-- the bracket automaton: state = "a step is open" -/
def auto (o : Bool) : TK → Option Bool
  | .start => if o then none else some true
  | .end_ => if o then some false else none
  | .stepped => if o then some true else none

def accepts : Bool → List TK → Option Bool
  | o, [] => some o
  | o, k :: ks => match auto o k with
    | some o' => accepts o' ks
    | none => none

theorem accepts_append (o : Bool) (l1 l2 : List TK) :
    accepts o (l1 ++ l2) = (accepts o l1).bind (fun o' => accepts o' l2) := by
  induction l1 generalizing o with
  | nil => rfl
  | cons k ks ih =>
    simp only [List.cons_append, accepts]
    cases auto o k with
    | none => rfl
    | some o' => exact ih o'

/-- the last held event is a step start -/
def hasS (c : Cursor) : Bool := match c.pending.getLast? with | some e => isStepStart e | none => false

/-- the thread has fired a step start that is not closed yet, according to its cursor -/
def openFired (s : St) (a : Nat) : Bool :=
  match getCursor s a with
  | some c => c.step.isSome && !hasS c
  | none => false

/-- shape of a cursor's pending list: phase-start events (no thread id), then at most one step start of
    the cursor's own thread, location and current step -/
def PendOk (t : Nat) (c : Cursor) : Prop :=
  ∃ pre : List Event, (∀ e ∈ pre, holdable e = true ∧ isStepStart e = false) ∧
    (c.pending = pre ∨ ∃ d tm, c.step = some d ∧ c.pending = pre ++ [Event.stepStart c.loc d t tm])

theorem phaseStart_kind (e : Event) (h1 : holdable e = true) (h2 : isStepStart e = false) (a : Nat) :
    kindFor a e = none := by
  cases e <;> simp [holdable, isStepStart] at h1 h2 <;> rfl

theorem proj_pre (a : Nat) (pre : List Event) (h : ∀ e ∈ pre, holdable e = true ∧ isStepStart e = false) :
    proj a pre = [] := by
  unfold proj
  apply List.filterMap_eq_nil_iff.mpr
  intro e he
  exact phaseStart_kind e (h e he).1 (h e he).2 a

theorem getLast?_append_singleton {α : Type} (l : List α) (x : α) : (l ++ [x]).getLast? = some x := by
  simp

theorem dropLast_append_singleton {α : Type} (l : List α) (x : α) : (l ++ [x]).dropLast = l := by
  simp

/-- `hasS` decided by the shape -/
theorem hasS_of_pendOk {t : Nat} {c : Cursor} (h : PendOk t c) :
    (hasS c = false ∧ ∃ pre, (∀ e ∈ pre, holdable e = true ∧ isStepStart e = false) ∧ c.pending = pre) ∨
    (hasS c = true ∧ ∃ pre d tm, (∀ e ∈ pre, holdable e = true ∧ isStepStart e = false) ∧ c.step = some d ∧
        c.pending = pre ++ [Event.stepStart c.loc d t tm]) := by
  obtain ⟨pre, hpre, hc⟩ := h
  rcases hc with hc | ⟨d, tm, hd, hc⟩
  · left
    refine ⟨?_, pre, hpre, hc⟩
    unfold hasS
    rw [hc]
    cases hl : pre.getLast? with
    | none => rfl
    | some e =>
      simp only
      exact (hpre e (List.mem_of_getLast? hl)).2
  · right
    refine ⟨?_, pre, d, tm, hpre, hd, hc⟩
    unfold hasS
    rw [hc, getLast?_append_singleton]
    rfl

end LccModel.Session

namespace LccModel.Session
open LccModel.Report

def copen (c : Cursor) : Bool := c.step.isSome && !hasS c

theorem openFired_eq (s : St) (a : Nat) : openFired s a = match getCursor s a with | some c => copen c | none => false := rfl

theorem getCursor_congr {s s' : St} (h : s'.cursors = s.cursors) (a : Nat) : getCursor s' a = getCursor s a := by
  unfold getCursor; rw [h]

theorem getCursor_setCursor (s : St) (t : Nat) (c : Cursor) (a : Nat) :
    getCursor (setCursor s t c) a = if a = t then some c else getCursor s a := by
  unfold getCursor setCursor
  by_cases h : a = t
  · subst h; simp
  · simp only [h, if_false]
    have h1 : ((t, c).1 == a) = false := by simp; exact fun e => h e.symm
    simp only [List.find?_cons, h1]
    congr 1
    induction s.cursors with
    | nil => rfl
    | cons p ps ih =>
      simp only [List.filter_cons]
      by_cases hp : p.1 = t
      · have : (p.1 != t) = false := by simp [hp]
        simp only [this]
        have h2 : (p.1 == a) = false := by simp [hp]; exact fun e => h e.symm
        simp only [List.find?_cons, h2]
        exact ih
      · have : (p.1 != t) = true := by simp [hp]
        simp only [this, if_true, List.find?_cons]
        cases (p.1 == a) with
        | true => rfl
        | false => exact ih

/-- effect of a cursor-level helper run by thread `t` on a detached cursor -/
structure HL (t : Nat) (s : St) (c : Cursor) (s' : St) (c' : Cursor) : Prop where
  out : ∃ out, s'.fired = s.fired ++ out ∧ (∀ a, a ≠ t → proj a out = []) ∧
          accepts (copen c) (proj t out) = some (copen c')
  pend : PendOk t c'
  cursors : s'.cursors = s.cursors
  saved : s'.saved = s.saved

theorem HL.trans {t : Nat} {s s1 s2 : St} {c c1 c2 : Cursor} (h1 : HL t s c s1 c1) (h2 : HL t s1 c1 s2 c2) :
    HL t s c s2 c2 := by
  obtain ⟨o1, hf1, hp1, ha1⟩ := h1.out
  obtain ⟨o2, hf2, hp2, ha2⟩ := h2.out
  refine ⟨⟨o1 ++ o2, by rw [hf2, hf1, List.append_assoc], ?_, ?_⟩, h2.pend, by rw [h2.cursors, h1.cursors],
          by rw [h2.saved, h1.saved]⟩
  · intro a ha; rw [proj_append, hp1 a ha, hp2 a ha]; rfl
  · rw [proj_append, accepts_append, ha1]; exact ha2

theorem HL.refl_of {t : Nat} {s s' : St} {c : Cursor} (hp : PendOk t c) (hf : s'.fired = s.fired)
    (hc : s'.cursors = s.cursors) (hs : s'.saved = s.saved) : HL t s c s' c :=
  ⟨⟨[], by rw [hf]; simp, fun _ _ => rfl, rfl⟩, hp, hc, hs⟩

/-- firing one event without thread id, or of another kind than step events of `t` -/
theorem HL.fire_neutral {t : Nat} {s : St} {c : Cursor} (hp : PendOk t c) (e : Event)
    (he : ∀ a, kindFor a e = none) : HL t s c (fire s e) c :=
  ⟨⟨[e], rfl, fun a _ => by simp [proj, he a], by simp [proj, he t, accepts]⟩, hp, rfl, rfl⟩

theorem copen_noS {c : Cursor} (h : hasS c = false) : copen c = c.step.isSome := by
  unfold copen; simp [h]

/-- `_end_step_if_any` -/
theorem hl_endStepIfAny (t : Nat) (s : St) (c : Cursor) (hp : PendOk t c) :
    HL t s c (endStepIfAny s t c).1 (endStepIfAny s t c).2 ∧ (endStepIfAny s t c).2.step = none ∧
      hasS (endStepIfAny s t c).2 = false ∧ (endStepIfAny s t c).2.loc = c.loc := by
  unfold endStepIfAny
  cases hs : c.step with
  | none =>
    simp only
    have hns : hasS c = false := by
      rcases hasS_of_pendOk hp with ⟨h, _⟩ | ⟨_, _, d, _, _, hd, _⟩
      · exact h
      · rw [hs] at hd; cases hd
    exact ⟨HL.refl_of hp rfl rfl rfl, hs, hns, trivial⟩
  | some d =>
    simp only
    rcases hasS_of_pendOk hp with ⟨hns, pre, hpre, hpend⟩ | ⟨hS, pre, d', tm, hpre, hd, hpend⟩
    · -- the step start has been fired already: fire the step end
      have hlast : (match c.pending.getLast? with | some l => isStepStart l | none => false) = false := hns
      have hdo : discardOrFire (tick s) c isStepStart (Event.stepEnd c.loc d t s.now) =
          (fire (tick s) (Event.stepEnd c.loc d t s.now), c) := by
        unfold discardOrFire
        cases hl : c.pending.getLast? with
        | none => rfl
        | some l => rw [hl] at hlast; simp only at hlast; simp [hlast]
      rw [hdo]
      simp only
      refine ⟨⟨⟨[Event.stepEnd c.loc d t s.now], rfl, ?_, ?_⟩, ?_, rfl, rfl⟩, trivial, ?_, trivial⟩
      · intro a ha; simp [proj, kindFor, Ne.symm ha]
      · have : copen c = true := by rw [copen_noS hns, hs]; rfl
        rw [this]
        have h2 : hasS { c with step := none } = false := hns
        simp [proj, kindFor, accepts, auto, copen, h2]
      · exact ⟨pre, hpre, Or.inl hpend⟩
      · exact hns
    · -- the step start is still held: discard it, nothing is fired
      have hdo : discardOrFire (tick s) c isStepStart (Event.stepEnd c.loc d t s.now) =
          (tick s, { c with pending := c.pending.dropLast }) := by
        unfold discardOrFire
        rw [hpend, getLast?_append_singleton]
        simp [isStepStart]
      rw [hdo]
      simp only
      have hdl : c.pending.dropLast = pre := by rw [hpend, dropLast_append_singleton]
      have hnoS : hasS { c with pending := c.pending.dropLast, step := none } = false := by
        unfold hasS
        simp only [hdl]
        cases hl : pre.getLast? with
        | none => rfl
        | some e => exact (hpre e (List.mem_of_getLast? hl)).2
      refine ⟨⟨⟨[], by simp, fun _ _ => rfl, ?_⟩, ⟨pre, hpre, Or.inl hdl⟩, rfl, rfl⟩, trivial, hnoS, trivial⟩
      have : copen c = false := by unfold copen; simp [hS]
      rw [this]
      simp [proj, accepts, copen, hnoS]

/-- `_flush_pending_events` -/
theorem hl_flush (t : Nat) (s : St) (c : Cursor) (hp : PendOk t c) :
    HL t s c (flush s c).1 (flush s c).2 ∧ (flush s c).2.pending = [] ∧ (flush s c).2.step = c.step ∧
      (flush s c).2.loc = c.loc := by
  unfold flush
  simp only
  have hnoS : hasS { c with pending := [] } = false := rfl
  refine ⟨⟨⟨c.pending, rfl, ?_, ?_⟩, ⟨[], by simp, Or.inl rfl⟩, rfl, rfl⟩, trivial, trivial, trivial⟩
  · intro a ha
    rcases hasS_of_pendOk hp with ⟨_, pre, hpre, hpend⟩ | ⟨_, pre, d, tm, hpre, _, hpend⟩
    · rw [hpend]; exact proj_pre a pre hpre
    · rw [hpend, proj_append, proj_pre a pre hpre]; simp [proj, kindFor, Ne.symm ha]
  · rcases hasS_of_pendOk hp with ⟨hns, pre, hpre, hpend⟩ | ⟨hS, pre, d, tm, hpre, hd, hpend⟩
    · rw [hpend, proj_pre t pre hpre]
      simp only [accepts]
      rw [copen_noS hns, copen_noS hnoS]
    · rw [hpend, proj_append, proj_pre t pre hpre]
      have h1 : copen c = false := by unfold copen; simp [hS]
      have h2 : copen { c with pending := [] } = true := by rw [copen_noS hnoS]; simp [hd]
      rw [h1, h2]
      simp [proj, kindFor, accepts, auto]

end LccModel.Session


namespace LccModel.Session
open LccModel.Report

structure SInv (s : St) : Prop where
  pend : ∀ t c, getCursor s t = some c → PendOk t c
  bal : ∀ a, accepts false (proj a s.fired) = some (openFired s a)
  saved : ∀ p ∈ s.saved, p.2.1.pending = [] ∧ p.2.1.step = none

/-- The protocol the runner follows: a thread (re)opens a result only when it has no step open in the
    stream, and logs only while a step is current (the runner sets a step before calling user code).
    Entering a `prepare_attachment` block (`attachBegin`) needs nothing; leaving it (`attachEnd`) fires the
    attachment event and therefore needs a current step, exactly like the atomic `attach`. -/
def okOp (s : St) (t : Nat) : Op → Bool
  | .startSessionSetup | .startSessionTeardown | .startSuiteSetup _ | .startSuiteTeardown _
  | .startTest _ _ | .threadRun => !openFired s t
  | .log _ _ | .check _ _ _ | .url _ _ | .attach _ _ _ | .attachEnd =>
    match getCursor s t with | some c => c.step.isSome | none => true
  | _ => true

theorem sinv_init : SInv St.init := by
  constructor
  · intro t c h; simp [getCursor, St.init] at h
  · intro a; simp [St.init, proj, accepts, openFired, getCursor]
  · intro p hp; simp [St.init] at hp

/-- storing back the cursor of thread `t` after helpers ran on it -/
theorem sinv_close {s s1 : St} {t : Nat} {c c1 : Cursor} (hinv : SInv s) (hc : getCursor s t = some c)
    (h : HL t s c s1 c1) : SInv (setCursor s1 t c1) := by
  obtain ⟨out, hf, hpo, hacc⟩ := h.out
  constructor
  · intro a ca hca
    rw [getCursor_setCursor] at hca
    by_cases e : a = t
    · subst e; simp at hca; subst hca; exact h.pend
    · simp only [e, if_false] at hca
      rw [getCursor_congr h.cursors] at hca
      exact hinv.pend a ca hca
  · intro a
    simp only [setCursor_fired, hf, proj_append, accepts_append, hinv.bal a]
    simp only [Option.bind]
    by_cases e : a = t
    · subst e
      have h1 : openFired s a = copen c := by rw [openFired_eq, hc]
      have h2 : openFired (setCursor s1 a c1) a = copen c1 := by rw [openFired_eq, getCursor_setCursor]; simp
      rw [h1, h2]; exact hacc
    · rw [hpo a e]
      have : openFired (setCursor s1 t c1) a = openFired s a := by
        rw [openFired_eq, openFired_eq, getCursor_setCursor]; simp only [e, if_false]
        rw [getCursor_congr h.cursors]
      rw [this]; rfl
  · intro p hp; simp only [setCursor_saved] at hp; rw [h.saved] at hp; exact hinv.saved p hp

/-- thread `t` installs a fresh cursor (it has no step open in the stream) -/
theorem sinv_new {s s1 : St} {t : Nat} {c1 : Cursor} (hinv : SInv s) (hopen : openFired s t = false)
    (out : List Event) (hf : s1.fired = s.fired ++ out) (hout : ∀ a, proj a out = [])
    (hcur : s1.cursors = s.cursors) (hsaved : ∀ p ∈ s1.saved, p ∈ s.saved)
    (hp : PendOk t c1) (hc1 : copen c1 = false) : SInv (setCursor s1 t c1) := by
  constructor
  · intro a ca hca
    rw [getCursor_setCursor] at hca
    by_cases e : a = t
    · subst e; simp at hca; subst hca; exact hp
    · simp only [e, if_false] at hca
      rw [getCursor_congr hcur] at hca
      exact hinv.pend a ca hca
  · intro a
    simp only [setCursor_fired, hf, proj_append, hout a, List.append_nil, hinv.bal a]
    congr 1
    by_cases e : a = t
    · subst e
      rw [hopen, openFired_eq, getCursor_setCursor]; simp [hc1]
    · rw [openFired_eq, openFired_eq, getCursor_setCursor]; simp only [e, if_false]
      rw [getCursor_congr hcur]
  · intro p hp'; simp only [setCursor_saved] at hp'; exact hinv.saved p (hsaved p hp')

/-- an op that fires thread-neutral events and leaves all cursors alone -/
theorem sinv_neutral {s s1 : St} (hinv : SInv s) (out : List Event) (hf : s1.fired = s.fired ++ out)
    (hout : ∀ a, proj a out = []) (hcur : s1.cursors = s.cursors) (hsaved : s1.saved = s.saved) : SInv s1 := by
  constructor
  · intro a ca hca; rw [getCursor_congr hcur] at hca; exact hinv.pend a ca hca
  · intro a
    rw [hf, proj_append, hout a, List.append_nil, hinv.bal a, openFired_eq, openFired_eq, getCursor_congr hcur]
  · intro p hp; rw [hsaved] at hp; exact hinv.saved p hp

theorem sinv_fire_neutral {s : St} (hinv : SInv s) (e : Event) (he : ∀ a, kindFor a e = none) :
    SInv (fire (tick s) e) :=
  sinv_neutral hinv [e] rfl (fun a => by simp [proj, he a]) rfl rfl

theorem pendOk_phase (t : Nat) (loc : Loc) (e : Event) (h1 : holdable e = true) (h2 : isStepStart e = false) :
    PendOk t { loc := loc, step := none, pending := [e] } :=
  ⟨[e], by intro x hx; simp at hx; subst hx; exact ⟨h1, h2⟩, Or.inl rfl⟩

theorem sinv_startPhase {s : St} {t : Nat} (hinv : SInv s) (hopen : openFired s t = false) (loc : Loc)
    (mk : Nat → Event) (h1 : holdable (mk s.now) = true) (h2 : isStepStart (mk s.now) = false) :
    SInv (startPhase s t loc mk) := by
  unfold startPhase
  refine sinv_new (s1 := tick s) hinv hopen [] (by simp) (fun _ => rfl) rfl (fun p hp => hp)
    (pendOk_phase t loc _ h1 h2) ?_
  simp [copen]

theorem hl_discardPhase (t : Nat) (s : St) (c : Cursor) (hp : PendOk t c) (hnoS : hasS c = false)
    (isC : Event → Bool) (e : Event) (he : ∀ a, kindFor a e = none) :
    HL t s c (discardOrFire s c isC e).1 (discardOrFire s c isC e).2 ∧
      (discardOrFire s c isC e).2.step = c.step ∧ hasS (discardOrFire s c isC e).2 = false := by
  rcases hasS_of_pendOk hp with ⟨_, pre, hpre, hpend⟩ | ⟨hS, _⟩
  · unfold discardOrFire
    cases hl : c.pending.getLast? with
    | none => simp only; exact ⟨HL.fire_neutral hp e he, trivial, hnoS⟩
    | some last =>
      simp only
      by_cases hc : isC last = true
      · simp only [hc, if_true]
        have hpre' : ∀ x ∈ pre.dropLast, holdable x = true ∧ isStepStart x = false :=
          fun x hx => hpre x (List.dropLast_subset _ hx)
        have hnS : hasS { c with pending := c.pending.dropLast } = false := by
          unfold hasS; simp only [hpend]
          cases hl2 : pre.dropLast.getLast? with
          | none => rfl
          | some x => exact (hpre' x (List.mem_of_getLast? hl2)).2
        refine ⟨⟨⟨[], by simp, fun _ _ => rfl, ?_⟩, ⟨pre.dropLast, hpre', Or.inl (by simp [hpend])⟩, rfl, rfl⟩, trivial, hnS⟩
        simp [proj, accepts, copen, hnoS, hnS]
      · simp only [hc]
        exact ⟨HL.fire_neutral hp e he, rfl, hnoS⟩
  · rw [hnoS] at hS; cases hS

theorem hl_tick (t : Nat) (s : St) (c : Cursor) (hp : PendOk t c) : HL t s c (tick s) c :=
  HL.refl_of hp rfl rfl rfl

theorem sinv_endPhase {s s' : St} {t : Nat} (hinv : SInv s) (isC : Event → Bool) (mk : Nat → Event)
    (hmk : ∀ n a, kindFor a (mk n) = none) (h : endPhase s t isC mk = .ok s') : SInv s' := by
  unfold endPhase withCursor at h
  cases hc : getCursor s t with
  | none => rw [hc] at h; cases h
  | some c =>
    rw [hc] at h; simp only at h; injection h with h; subst h
    have hp := hinv.pend t c hc
    obtain ⟨h1, _, hnoS, _⟩ := hl_endStepIfAny t s c hp
    have h2 := hl_tick t (endStepIfAny s t c).1 (endStepIfAny s t c).2 h1.pend
    obtain ⟨h3, _, _⟩ := hl_discardPhase t (tick (endStepIfAny s t c).1) (endStepIfAny s t c).2 h1.pend hnoS isC
      (mk (endStepIfAny s t c).1.now) (hmk _)
    exact sinv_close hinv hc ((h1.trans h2).trans h3)

theorem sinv_stepped {s s' : St} {t : Nat} (hinv : SInv s) (failing : Bool)
    (mk : Loc → Option String → Nat → Event)
    (hmk : ∀ l st n a, kindFor a (mk l st n) = if t = a then some TK.stepped else none)
    (hok : match getCursor s t with | some c => c.step.isSome = true | none => True)
    (h : stepped s t failing mk = .ok s') : SInv s' := by
  unfold stepped withCursor at h
  cases hc : getCursor s t with
  | none => rw [hc] at h; cases h
  | some c =>
    rw [hc] at h; simp only at h; injection h with h; subst h
    rw [hc] at hok
    have hp := hinv.pend t c hc
    obtain ⟨h1, hpend, hstep, _⟩ := hl_flush t s c hp
    -- after the flush the step is open in the stream
    have hopen : copen (flush s c).2 = true := by
      unfold copen hasS; rw [hpend, hstep]; simp [hok]
    have h2 : HL t (flush s c).1 (flush s c).2
        (fire (tick (if failing = true then markFailed (flush s c).1 (flush s c).2.loc else (flush s c).1))
          (mk (flush s c).2.loc (flush s c).2.step
            (if failing = true then markFailed (flush s c).1 (flush s c).2.loc else (flush s c).1).now))
        (flush s c).2 := by
      refine ⟨⟨[mk (flush s c).2.loc (flush s c).2.step
            (if failing = true then markFailed (flush s c).1 (flush s c).2.loc else (flush s c).1).now], ?_, ?_, ?_⟩,
          h1.pend, ?_, ?_⟩
      · cases failing <;> simp
      · intro a ha; simp [proj, hmk, Ne.symm ha]
      · rw [hopen]; simp [proj, hmk, accepts, auto]
      · cases failing <;> simp
      · cases failing <;> simp
    exact sinv_close hinv hc (h1.trans h2)

end LccModel.Session


namespace LccModel.Session
open LccModel.Report

theorem sinv_step {s s' : St} {t : Nat} {op : Op} (hinv : SInv s) (hok : okOp s t op = true)
    (h : step s t op = .ok s') : SInv s' := by
  cases op with
  | startTestSession => simp only [step] at h; injection h with h; subst h; exact sinv_fire_neutral hinv _ (fun _ => rfl)
  | endTestSession => simp only [step] at h; injection h with h; subst h; exact sinv_fire_neutral hinv _ (fun _ => rfl)
  | startSessionSetup =>
    simp only [step] at h; injection h with h; subst h
    exact sinv_startPhase hinv (by simpa [okOp] using hok) _ _ rfl rfl
  | endSessionSetup => simp only [step] at h; exact sinv_endPhase hinv _ _ (fun _ _ => rfl) h
  | startSessionTeardown =>
    simp only [step] at h; injection h with h; subst h
    exact sinv_startPhase hinv (by simpa [okOp] using hok) _ _ rfl rfl
  | endSessionTeardown => simp only [step] at h; exact sinv_endPhase hinv _ _ (fun _ _ => rfl) h
  | startSuite p md => simp only [step] at h; injection h with h; subst h; exact sinv_fire_neutral hinv _ (fun _ => rfl)
  | endSuite p => simp only [step] at h; injection h with h; subst h; exact sinv_fire_neutral hinv _ (fun _ => rfl)
  | startSuiteSetup p =>
    simp only [step] at h; injection h with h; subst h
    exact sinv_startPhase hinv (by simpa [okOp] using hok) _ _ rfl rfl
  | endSuiteSetup p => simp only [step] at h; exact sinv_endPhase hinv _ _ (fun _ _ => rfl) h
  | startSuiteTeardown p =>
    simp only [step] at h; injection h with h; subst h
    exact sinv_startPhase hinv (by simpa [okOp] using hok) _ _ rfl rfl
  | endSuiteTeardown p => simp only [step] at h; exact sinv_endPhase hinv _ _ (fun _ _ => rfl) h
  | startTest p md =>
    simp only [step] at h; injection h with h; subst h
    refine sinv_new (s1 := fire (tick s) (.testStart p md s.now)) hinv (by simpa [okOp] using hok)
      [.testStart p md s.now] rfl (fun a => by simp [proj, kindFor]) rfl (fun q hq => hq)
      ⟨[], by simp, Or.inl rfl⟩ (by simp [copen])
  | endTest p =>
    simp only [step, withCursor] at h
    cases hc : getCursor s t with
    | none => rw [hc] at h; cases h
    | some c =>
      rw [hc] at h; simp only at h; injection h with h; subst h
      obtain ⟨h1, _, _, _⟩ := hl_endStepIfAny t s c (hinv.pend t c hc)
      have h2 := hl_tick t (endStepIfAny s t c).1 (endStepIfAny s t c).2 h1.pend
      have h3 : HL t (tick (endStepIfAny s t c).1) (endStepIfAny s t c).2
          (fire (tick (endStepIfAny s t c).1) (.testEnd p (endStepIfAny s t c).1.now)) (endStepIfAny s t c).2 :=
        HL.fire_neutral h1.pend _ (fun _ => rfl)
      exact sinv_close hinv hc ((h1.trans h2).trans h3)
  | skipTest p md reason =>
    simp only [step] at h; injection h with h; subst h
    exact sinv_neutral hinv [.testSkipped p md reason s.now] (by simp) (fun a => by simp [proj, kindFor])
      (by simp) (by simp)
  | disableTest p md reason =>
    simp only [step] at h; injection h with h; subst h; exact sinv_fire_neutral hinv _ (fun _ => rfl)
  | setStep d =>
    simp only [step, withCursor] at h
    cases hc : getCursor s t with
    | none => rw [hc] at h; cases h
    | some c =>
      rw [hc] at h; simp only at h; injection h with h; subst h
      obtain ⟨h1, hstep, hnoS, _⟩ := hl_endStepIfAny t s c (hinv.pend t c hc)
      -- hold the new step start
      have hopen0 : copen (endStepIfAny s t c).2 = false := by unfold copen; simp [hstep]
      have h2 : HL t (endStepIfAny s t c).1 (endStepIfAny s t c).2 (tick (endStepIfAny s t c).1)
          { loc := (endStepIfAny s t c).2.loc, step := some d,
            pending := (endStepIfAny s t c).2.pending ++
              [Event.stepStart (endStepIfAny s t c).2.loc d t (endStepIfAny s t c).1.now] } := by
        rcases hasS_of_pendOk h1.pend with ⟨_, pre, hpre, hpend⟩ | ⟨hS, _⟩
        · refine ⟨⟨[], by simp, fun _ _ => rfl, ?_⟩, ⟨pre, hpre, Or.inr ⟨d, (endStepIfAny s t c).1.now, rfl, by simp [hpend]⟩⟩, rfl, rfl⟩
          rw [hopen0]
          simp [proj, accepts, copen, hasS, isStepStart]
        · rw [hnoS] at hS; cases hS
      exact sinv_close hinv hc (h1.trans h2)
  | endStep =>
    simp only [step, withCursor] at h
    cases hc : getCursor s t with
    | none => rw [hc] at h; cases h
    | some c =>
      rw [hc] at h; simp only at h
      cases hst : c.step with
      | none => rw [hst] at h; cases h
      | some d =>
        rw [hst] at h; simp only at h; injection h with h; subst h
        exact sinv_close hinv hc (hl_endStepIfAny t s c (hinv.pend t c hc)).1
  | log level msg =>
    simp only [step] at h
    refine sinv_stepped hinv (level == .error) _ ?_ ?_ h
    · intro l st n a; simp only [kindFor]
    · simp only [okOp] at hok; cases hc : getCursor s t with
      | none => trivial
      | some c => rw [hc] at hok; exact hok
  | check d ok details =>
    simp only [step] at h
    refine sinv_stepped hinv (ok == false) _ ?_ ?_ h
    · intro l st n a; simp only [kindFor]
    · simp only [okOp] at hok; cases hc : getCursor s t with
      | none => trivial
      | some c => rw [hc] at hok; exact hok
  | url u d =>
    simp only [step] at h
    refine sinv_stepped hinv false _ ?_ ?_ h
    · intro l st n a; simp only [kindFor]
    · simp only [okOp] at hok; cases hc : getCursor s t with
      | none => trivial
      | some c => rw [hc] at hok; exact hok
  | attach filename d asImage =>
    simp only [step] at h
    have hinv' : SInv { s with attachCount := s.attachCount + 1 } :=
      ⟨fun a c hc => hinv.pend a c hc, fun a => hinv.bal a, fun p hp => hinv.saved p hp⟩
    refine sinv_stepped hinv' false _ ?_ ?_ h
    · intro l st n a; simp only [kindFor]
    · simp only [okOp] at hok
      show match getCursor s t with | some c => c.step.isSome = true | none => True
      cases hc : getCursor s t with
      | none => trivial
      | some c => rw [hc] at hok; exact hok
  | attachBegin filename d asImage =>
    simp only [step] at h; injection h with h; subst h
    exact ⟨fun a c hc => hinv.pend a c hc, fun a => hinv.bal a, fun p hp => hinv.saved p hp⟩
  | attachEnd =>
    simp only [step] at h
    cases hf : s.prepared.find? (fun p => p.tid == t) with
    | none => rw [hf] at h; cases h
    | some p =>
      rw [hf] at h; simp only at h
      have hinv' : SInv { s with prepared := s.prepared.eraseP (fun p => p.tid == t) } :=
        ⟨fun a c hc => hinv.pend a c hc, fun a => hinv.bal a, fun p hp => hinv.saved p hp⟩
      refine sinv_stepped hinv' false _ ?_ ?_ h
      · intro l st n a; simp only [kindFor]
      · simp only [okOp] at hok
        show match getCursor s t with | some c => c.step.isSome = true | none => True
        cases hc : getCursor s t with
        | none => trivial
        | some c => rw [hc] at hok; exact hok
  | threadCreate newTid =>
    simp only [step, withCursor] at h
    cases hc : getCursor s t with
    | none => rw [hc] at h; cases h
    | some c =>
      rw [hc] at h; simp only at h
      split at h
      · cases h
      · injection h with h; subst h
        have hp := hinv.pend t c hc
        have key : ∀ (s1 : St) (c1 : Cursor), HL t s c s1 c1 →
            SInv { (setCursor s1 t c1) with
                  saved := (newTid, { loc := c1.loc, step := none, pending := [] }, c1.step) ::
                           (setCursor s1 t c1).saved.filter (fun p => p.1 != newTid) } := by
          intro s1 c1 hh
          have h0 := sinv_close hinv hc hh
          exact ⟨fun a ca hca => h0.pend a ca hca, fun a => h0.bal a, by
            intro p hp'
            rcases List.mem_cons.mp hp' with e1 | hp'
            · subst e1; exact ⟨rfl, rfl⟩
            · exact h0.saved p (List.mem_filter.mp hp').1⟩
        cases hpend : c.pending with
        | nil =>
          simp only [hpend]
          exact key s c (HL.refl_of hp rfl rfl rfl)
        | cons e rest =>
          simp only [hpend]
          by_cases hss : isStepStart e = true
          · simp only [hss, if_true]
            exact key s c (HL.refl_of hp rfl rfl rfl)
          · simp only [hss]
            have hss' : isStepStart e = false := by simpa using hss
            -- e is the first pending event and not a step start: it is a phase start from `pre`
            obtain ⟨pre, hpre, hshape⟩ := hp
            have hpre_ne : ∃ pre', pre = e :: pre' := by
              rcases hshape with hq | ⟨d, tm, _, hq⟩
              · rw [hpend] at hq; exact ⟨rest, hq.symm⟩
              · rw [hpend] at hq
                cases pre with
                | nil => simp at hq; rw [hq.1] at hss'; simp [isStepStart] at hss'
                | cons x xs => simp at hq; exact ⟨xs, by rw [hq.1]⟩
            obtain ⟨pre', hpre'⟩ := hpre_ne
            have hek : ∀ a, kindFor a e = none := fun a =>
              phaseStart_kind e (hpre e (by rw [hpre']; simp)).1 hss' a
            have hpre2 : ∀ x ∈ pre', holdable x = true ∧ isStepStart x = false :=
              fun x hx => hpre x (by rw [hpre']; exact List.mem_cons_of_mem _ hx)
            have hrest : PendOk t { c with pending := rest } := by
              refine ⟨pre', hpre2, ?_⟩
              rcases hshape with hq | ⟨d, tm, hd, hq⟩
              · left; rw [hpend, hpre'] at hq; simpa using hq
              · right; refine ⟨d, tm, hd, ?_⟩; rw [hpend, hpre'] at hq; simpa using hq
            have hcop : copen { c with pending := rest } = copen c := by
              unfold copen hasS
              simp only [hpend]
              cases rest with
              | nil =>
                -- then pending = [e] with e not a step start: no S either way
                simp [List.getLast?, hss']
              | cons y ys => simp [List.getLast?_cons_cons]
            refine key (fire s e) { c with pending := rest } ⟨⟨[e], rfl, fun a _ => by simp [proj, hek a], ?_⟩, hrest, rfl, rfl⟩
            simp [proj, hek t, accepts, hcop]
  | threadRun =>
    simp only [step] at h
    cases hf : s.saved.find? (fun p => p.1 == t) with
    | none => rw [hf] at h; cases h
    | some p =>
      rw [hf] at h
      obtain ⟨t0, c, dflt⟩ := p
      simp only at h
      cases dflt with
      | none => cases h
      | some d =>
        simp only at h; injection h with h; subst h
        have hsv := hinv.saved _ (List.mem_of_find?_eq_some hf)
        simp only at hsv
        refine sinv_new (s1 := tick { s with saved := s.saved.filter (fun p => p.1 != t) }) hinv
          (by simpa [okOp] using hok) [] (by simp) (fun _ => rfl) rfl
          (fun q hq => (List.mem_filter.mp hq).1) ?_ ?_
        · exact ⟨[], by simp, Or.inr ⟨d, s.now, rfl, by simp [hsv.1]⟩⟩
        · simp [copen, hasS, hsv.1, isStepStart]
  | threadEnd =>
    simp only [step, withCursor] at h
    cases hc : getCursor s t with
    | none => rw [hc] at h; cases h
    | some c =>
      rw [hc] at h; simp only at h
      cases hst : c.step with
      | none => rw [hst] at h; cases h
      | some d =>
        rw [hst] at h; simp only at h; injection h with h; subst h
        exact sinv_close hinv hc (hl_endStepIfAny t s c (hinv.pend t c hc)).1

theorem discardOrFire_step (s : St) (c : Cursor) (isC : Event → Bool) (e : Event) :
    (discardOrFire s c isC e).2.step = c.step := by
  unfold discardOrFire
  cases c.pending.getLast? with
  | none => rfl
  | some last => simp only; split <;> rfl

theorem endStepIfAny_step_none (s : St) (t : Nat) (c : Cursor) : (endStepIfAny s t c).2.step = none := by
  unfold endStepIfAny
  cases hs : c.step with
  | none => exact hs
  | some d => rfl

theorem endPhase_step_none {s s' : St} {t : Nat} {isC : Event → Bool} {mk : Nat → Event}
    (h : endPhase s t isC mk = .ok s') {c' : Cursor} (hc' : getCursor s' t = some c') : c'.step = none := by
  unfold endPhase withCursor at h
  cases hc : getCursor s t with
  | none => rw [hc] at h; cases h
  | some c =>
    rw [hc] at h; simp only at h; injection h with h; subst h
    rw [getCursor_setCursor] at hc'; simp at hc'; subst hc'
    rw [discardOrFire_step]; exact endStepIfAny_step_none s t c

end LccModel.Session

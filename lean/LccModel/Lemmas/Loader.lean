/-
  Helper lemmas for C13 (model M9 `Loader`).  Core Lean only.
  Layer 1: the stable insertion sort (`sortBy`, `discover`).
-/
import LccModel.Model.Loader
import LccModel.Model.LoaderSpec

namespace LccModel.Loader

open List

/-! ## Layer 1 — sorting -/

theorem insertBy_perm (le : α → α → Bool) (a : α) : ∀ l, insertBy le a l ~ a :: l
  | [] => Perm.refl _
  | b :: bs => by
    unfold insertBy
    split
    · exact Perm.refl _
    · exact ((insertBy_perm le a bs).cons b).trans (Perm.swap a b bs)

theorem sortBy_perm (le : α → α → Bool) : ∀ l, sortBy le l ~ l
  | [] => Perm.refl _
  | a :: as => (insertBy_perm le a _).trans ((sortBy_perm le as).cons a)

theorem mem_sortBy {le : α → α → Bool} {l : List α} {x : α} : x ∈ sortBy le l ↔ x ∈ l :=
  (sortBy_perm le l).mem_iff

theorem insertBy_map {le : α → α → Bool} {le' : β → β → Bool} (f : α → β)
    (h : ∀ a b, le' (f a) (f b) = le a b) (a : α) :
    ∀ l, insertBy le' (f a) (l.map f) = (insertBy le a l).map f
  | [] => rfl
  | b :: bs => by
    simp only [List.map, insertBy, h]
    split
    · rfl
    · simp only [List.map, insertBy_map f h a bs]

/-- Sorting commutes with a map that preserves the comparison. -/
theorem sortBy_map {le : α → α → Bool} {le' : β → β → Bool} (f : α → β)
    (h : ∀ a b, le' (f a) (f b) = le a b) : ∀ l, sortBy le' (l.map f) = (sortBy le l).map f
  | [] => rfl
  | a :: as => by
    simp only [List.map, sortBy, sortBy_map f h as, insertBy_map f h]

theorem insertBy_pairwise {le : α → α → Bool} (total : ∀ a b, le a b = true ∨ le b a = true)
    (trans : ∀ a b c, le a b = true → le b c = true → le a c = true) (a : α) :
    ∀ l, l.Pairwise (fun x y => le x y = true) → (insertBy le a l).Pairwise (fun x y => le x y = true)
  | [], _ => by simp [insertBy]
  | b :: bs, h => by
    unfold insertBy
    split
    · rename_i hab
      refine List.Pairwise.cons ?_ h
      intro x hx
      rcases List.mem_cons.mp hx with rfl | hx
      · exact hab
      · exact trans a b x hab (List.rel_of_pairwise_cons h hx)
    · rename_i hab
      have hba : le b a = true := by
        rcases total a b with h1 | h1
        · exact absurd h1 hab
        · exact h1
      refine List.Pairwise.cons ?_ (insertBy_pairwise total trans a bs h.tail)
      intro x hx
      rcases List.mem_cons.mp ((insertBy_perm le a bs).mem_iff.mp hx) with rfl | hx
      · exact hba
      · exact List.rel_of_pairwise_cons h hx

theorem sortBy_pairwise {le : α → α → Bool} (total : ∀ a b, le a b = true ∨ le b a = true)
    (trans : ∀ a b c, le a b = true → le b c = true → le a c = true) :
    ∀ l, (sortBy le l).Pairwise (fun x y => le x y = true)
  | [] => List.Pairwise.nil
  | a :: as => insertBy_pairwise total trans a _ (sortBy_pairwise total trans as)

/-- A list already sorted is left alone (stability is not even needed here). -/
theorem insertBy_of_le {le : α → α → Bool} (a : α) :
    ∀ l, (∀ x ∈ l, le a x = true) → insertBy le a l = a :: l
  | [], _ => rfl
  | b :: bs, h => by
    unfold insertBy
    simp [h b (List.mem_cons_self)]

theorem sortBy_of_pairwise {le : α → α → Bool} :
    ∀ l, l.Pairwise (fun x y => le x y = true) → sortBy le l = l
  | [], _ => rfl
  | a :: as, h => by
    simp only [sortBy, sortBy_of_pairwise as h.tail]
    exact insertBy_of_le a as (fun x hx => List.rel_of_pairwise_cons h hx)

theorem intLe_total (f : α → Int) (a b : α) : intLe (f a) (f b) = true ∨ intLe (f b) (f a) = true := by
  simp only [intLe, decide_eq_true_eq]; omega

theorem intLe_trans (f : α → Int) (a b c : α) :
    intLe (f a) (f b) = true → intLe (f b) (f c) = true → intLe (f a) (f c) = true := by
  simp only [intLe, decide_eq_true_eq]; omega

theorem rank_inj_of_pairwise (rank : α → Int) :
    ∀ {l : List α}, l.Pairwise (fun x y => rank x < rank y) → ∀ a b, a ∈ l → b ∈ l → rank a = rank b → a = b
  | [], _, a, _, ha, _, _ => by cases ha
  | x :: xs, hl, a, b, ha, hb, hab => by
    rcases List.mem_cons.mp ha with rfl | ha' <;> rcases List.mem_cons.mp hb with rfl | hb'
    · rfl
    · have := List.rel_of_pairwise_cons hl hb'; omega
    · have := List.rel_of_pairwise_cons hl ha'; omega
    · exact rank_inj_of_pairwise rank hl.tail a b ha' hb' hab

/-- If `l` lists its items with strictly increasing ranks, any rank sort of any permutation of `l`
    (whatever order `dir()` produced) gives `l` back. -/
theorem sortBy_rank_eq_of_perm (rank : α → Int) {l l' : List α} (hp : l' ~ l)
    (hl : l.Pairwise (fun x y => rank x < rank y)) :
    sortBy (fun a b => intLe (rank a) (rank b)) l' = l := by
  have hs := sortBy_pairwise (le := fun a b => intLe (rank a) (rank b)) (intLe_total rank) (intLe_trans rank) l'
  have hperm : sortBy (fun a b => intLe (rank a) (rank b)) l' ~ l := (sortBy_perm _ l').trans hp
  have hl' : l.Pairwise (fun x y => intLe (rank x) (rank y) = true) :=
    hl.imp (fun h => by simp only [intLe, decide_eq_true_eq]; omega)
  have hinj := rank_inj_of_pairwise rank hl
  refine List.Perm.eq_of_pairwise (le := fun x y => intLe (rank x) (rank y) = true) ?_ hs hl' hperm
  intro a b ha hb h1 h2
  simp only [intLe, decide_eq_true_eq] at h1 h2
  exact hinj a b (hperm.mem_iff.mp ha) hb (by omega)

theorem discover_perm (attr : α → String) (rank : α → Int) (l : List α) : discover attr rank l ~ l :=
  (sortBy_perm _ _).trans (sortBy_perm _ _)

theorem mem_discover {attr : α → String} {rank : α → Int} {l : List α} {x : α} :
    x ∈ discover attr rank l ↔ x ∈ l := (discover_perm attr rank l).mem_iff

/-- **Declaration order.**  When the ranks increase strictly along the textual order `l` — what the
    global counter guarantees for items without an explicit `rank=` — discovery returns `l` itself,
    whatever the attribute names (i.e. whatever order `dir()` lists them in). -/
theorem discover_eq_of_increasing (attr : α → String) (rank : α → Int) (l : List α)
    (h : l.Pairwise (fun x y => rank x < rank y)) : discover attr rank l = l :=
  sortBy_rank_eq_of_perm rank (sortBy_perm _ l) h

/-- The result of discovery is ordered by rank. -/
theorem discover_sorted (attr : α → String) (rank : α → Int) (l : List α) :
    (discover attr rank l).Pairwise (fun x y => rank x ≤ rank y) :=
  (sortBy_pairwise (le := fun a b => intLe (rank a) (rank b)) (intLe_total rank) (intLe_trans rank) _).imp
    (fun h => by simpa [intLe] using h)

theorem discover_map (f : α → β) (attr : α → String) (rank : α → Int) (attr' : β → String) (rank' : β → Int)
    (ha : ∀ a, attr' (f a) = attr a) (hr : ∀ a, rank' (f a) = rank a) (l : List α) :
    discover attr' rank' (l.map f) = (discover attr rank l).map f := by
  unfold discover
  rw [sortBy_map (le := fun a b => strLe (attr a) (attr b)) f (by intro a b; simp [ha]),
      sortBy_map (le := fun a b => intLe (rank a) (rank b)) f (by intro a b; simp [hr])]

end LccModel.Loader

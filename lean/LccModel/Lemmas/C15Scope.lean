/-
  Definitions for `Props/C15Scope.lean`: a project in which a test marked disabled uses a suite-scoped
  per-thread fixture and the run is made with `--force-disabled`, and the task-graph VARIANT in which the
  suite teardown task only waits for the enabled tests of its suite (kept for the refutation theorem).
-/
import LccModel.Lemmas.Graph

namespace LccModel.C15Scope
open LccModel.Run LccModel.Sched LccModel.TaskGraph

/-- is the test task `d` the task of a test that is marked disabled (itself or through its suites)? -/
def isDisabledTestTask (P : Proj) (d : TaskId) : Bool :=
  d.kind == .test &&
    (allSuites P).any (fun sv => sv.spec.tests.any (fun t => sv.path ++ [t.name] == d.path && !testEnabled sv t))

/-- the graph of `build_tasks` with ONE change: the on-completion dependencies of a suite teardown task
    leave out the tests that are marked disabled ("a disabled test is only reported as such") -/
def teardownWaitsForEnabledOnly (P : Proj) : Graph TaskId :=
  { tasks := (graphOf P).tasks
    succDeps := (graphOf P).succDeps
    complDeps := fun t =>
      if t.kind = .teardown then ((graphOf P).complDeps t).filter (fun d => !isDisabledTestTask P d)
      else (graphOf P).complDeps t }

/-- suite `s` uses the suite-scoped per-thread generator fixture `pu` in an enabled test `e` and in a test
    `d` marked `@lcc.disabled()`; the run is made with `--force-disabled` on two workers -/
def forcedProj : Proj :=
  { fixtures := [{ name := "pu", func := "pu", scope := .suite, perThread := true, params := [],
                   gen := true, setup := [], teardown := [] }]
    suites :=
      [ .mk "s" 0 false none none none none []
          [{ name := "e", rank := 1, disabled := false, disabledReason := false, deps := [], fixtures := ["pu"], script := [] },
           { name := "d", rank := 2, disabled := true, disabledReason := false, deps := [], fixtures := ["pu"], script := [] }]
          [] ]
    nbThreads := 2, forceDisabled := true, stopOnFailure := false }

end LccModel.C15Scope

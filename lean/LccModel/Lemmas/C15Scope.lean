/-
  Definitions for `Props/C15Scope.lean`: a project in which a test marked disabled uses a suite-scoped
  per-thread fixture and the run is made with `--force-disabled`, and the task-graph VARIANT in which the
  suite teardown task only waits for the enabled tests of its suite (kept for the refutation theorem).
-/
import LccModel.Lemmas.Graph

namespace LccModel.C15Scope
open LccModel.Run LccModel.Sched LccModel.TaskGraph

/-- is the test task `d` the task of a test that is marked disabled (itself or through its suites)? -/
def isDisabledTestTask (P : Proj) (d : TaskId) : Bool :=
  d.kind == .test &&
    (allSuites P).any (fun sv => sv.spec.tests.any (fun t => sv.path ++ [t.name] == d.path && !testEnabled sv t))

/-- the graph of `build_tasks` with ONE change: the on-completion dependencies of a suite teardown task
    leave out the tests that are marked disabled ("a disabled test is only reported as such") -/
def teardownWaitsForEnabledOnly (P : Proj) : Graph TaskId :=
  { tasks := (graphOf P).tasks
    succDeps := (graphOf P).succDeps
    complDeps := fun t =>
      if t.kind = .teardown then ((graphOf P).complDeps t).filter (fun d => !isDisabledTestTask P d)
      else (graphOf P).complDeps t }

/-- suite `s` uses the suite-scoped per-thread generator fixture `pu` in an enabled test `e` and in a test
    `d` marked `@lcc.disabled()`; the run is made with `--force-disabled` on two workers -/
def forcedProj : Proj :=
  { fixtures := [{ name := "pu", func := "pu", scope := .suite, perThread := true, params := [],
                   gen := true, setup := [], teardown := [] }]
    suites :=
      [ .mk "s" 0 false none none none none []
          [{ name := "e", rank := 1, disabled := false, disabledReason := false, deps := [], fixtures := ["pu"], script := [] },
           { name := "d", rank := 2, disabled := true, disabledReason := false, deps := [], fixtures := ["pu"], script := [] }]
          [] ]
    nbThreads := 2, forceDisabled := true, stopOnFailure := false }

/-- suite `s` uses the SESSION-scoped per-thread generator fixture `ps` in its two tests; two workers -/
def sessionProj : Proj :=
  { fixtures := [{ name := "ps", func := "ps", scope := .session, perThread := true, params := [],
                   gen := true, setup := [], teardown := [] }]
    suites :=
      [ .mk "s" 0 false none none none none []
          [{ name := "a", rank := 1, disabled := false, disabledReason := false, deps := [], fixtures := ["ps"], script := [] },
           { name := "b", rank := 2, disabled := false, disabledReason := false, deps := [], fixtures := ["ps"], script := [] }]
          [] ]
    nbThreads := 2, forceDisabled := false, stopOnFailure := false }

/-- what a `pop_runnable_tasks` that only looks at the on-completion dependencies sees -/
def onCompletionOnly (g : Graph TaskId) : Graph TaskId := { g with succDeps := fun _ => [] }

/-- the scheduler with ONE change (kept for the refutation theorem): after a keyboard interrupt `skip_all_tasks`
    releases a remaining task as soon as its ON-COMPLETION dependencies are completed ("nothing is going to be run
    anymore, the outcome of the other dependencies does not matter") -/
def stepReleaseOnCompletionOnly (g : Graph TaskId) (n : Nat) (s : State TaskId) : Label TaskId → Option (State TaskId)
  | .receive t =>
    if t ∈ g.tasks ∧ s.phase t = .done then
      let s1 := { s with phase := fun x => if x = t then .completed else s.phase x, clock := s.clock + 1 }
      some (if s.aborted then release (onCompletionOnly g) s1 else dispatch g s1 n)
    else none
  | .interrupt =>
    if s.aborted = false then
      some (release (onCompletionOnly g) { s with aborted := true, clock := s.clock + 1 })
    else none
  | l => step g n s l

def runReleaseOnCompletionOnly (g : Graph TaskId) (n : Nat) : State TaskId → List (Label TaskId) → Option (State TaskId)
  | s, [] => some s
  | s, l :: ls => match stepReleaseOnCompletionOnly g n s l with
    | none => none
    | some s' => runReleaseOnCompletionOnly g n s' ls

/-- Ctrl-C while the tests `a` and `b` are running on the two workers; `a` ends, its worker skips the suite ending
    task, then the session teardown task — `b` is still running -/
def interruptedSessionTrace : List (Label TaskId) :=
  [.start ⟨.sessSetup, []⟩ false, .finish ⟨.sessSetup, []⟩ .success, .receive ⟨.sessSetup, []⟩,
   .start ⟨.begin, ["s"]⟩ false, .finish ⟨.begin, ["s"]⟩ .success, .receive ⟨.begin, ["s"]⟩,
   .start ⟨.test, ["s", "a"]⟩ false, .start ⟨.test, ["s", "b"]⟩ false, .interrupt,
   .finish ⟨.test, ["s", "a"]⟩ .success,
   .start ⟨.end_, ["s"]⟩ true, .finish ⟨.end_, ["s"]⟩ .skipped, .receive ⟨.end_, ["s"]⟩,
   .start ⟨.sessTeardown, []⟩ true]

end LccModel.C15Scope

/-
  C05 helpers, part 4: a successful writer step as a *micro step* — what it reads from `active_steps`, the one tree
  operation it performs on the report, the binding it pushes on `active_steps` — and the two facts about micro steps:

  * `Micro.comm`: independent micro steps commute up to `StEq`;
  * `Micro.congr`: the same micro step on two `StEq` states gives `StEq` states.
-/
import LccModel.Lemmas.WriterCongr
set_option linter.unusedSimpArgs false
set_option linter.unusedVariables false
namespace LccModel.Writer
open LccModel.Report

/-- Two writer states with the same content: reports `SameContent`; `active_steps` equal as a mapping (every thread is bound
    to the same step reference), the two binding histories being permutations of each other. -/
structure StEq (w w' : WriterState) : Prop where
  report : SameContent w.report w'.report
  active : ∀ tid, w.active.lookup tid = w'.active.lookup tid
  perm : w.active.Perm w'.active

theorem StEq.refl (w : WriterState) : StEq w w := ⟨SameContent.refl _, fun _ => rfl, List.Perm.refl _⟩
theorem StEq.symm {w w' : WriterState} (h : StEq w w') : StEq w' w := ⟨h.1.symm, fun t => (h.2 t).symm, h.3.symm⟩
theorem StEq.trans {a b c : WriterState} (h : StEq a b) (h' : StEq b c) : StEq a c :=
  ⟨h.1.trans h'.1, fun t => (h.2 t).trans (h'.2 t), h.3.trans h'.3⟩

structure Micro where
  read : Option (Nat × StepRef)        -- requires `active_steps[tid]` to be this reference
  tree : Option (Path × Leaf)          -- the mutation of the report
  push : Option (Nat × StepRef)        -- `active_steps[tid] = …`

def Micro.treeRun (m : Micro) (r : Report) : Except WriterErr Report :=
  match m.tree with
  | none => .ok r
  | some (p, lf) => liftSuites r (topOp p lf r.suites)

def pushOpt (b : Option (Nat × StepRef)) (act : List (Nat × StepRef)) : List (Nat × StepRef) :=
  match b with
  | none => act
  | some x => x :: act

def Micro.Steps (m : Micro) (w w' : WriterState) : Prop :=
  (∀ tid ref, m.read = some (tid, ref) → w.active.lookup tid = some ref) ∧
  m.treeRun w.report = .ok w'.report ∧
  w'.active = pushOpt m.push w.active

/-- independence of two micro steps: independent footprints; the threads whose binding one reads or writes are not the
    threads whose binding the other writes -/
structure Micro.Indep (m₁ m₂ : Micro) : Prop where
  foot : ∀ p a q b, m₁.tree = some (p, a) → m₂.tree = some (q, b) → footIndep p a.field q b.field
  push_read : ∀ t r t' r', m₁.push = some (t, r) → m₂.read = some (t', r') → t ≠ t'
  read_push : ∀ t r t' r', m₁.read = some (t, r) → m₂.push = some (t', r') → t ≠ t'
  push_push : ∀ t r t' r', m₁.push = some (t, r) → m₂.push = some (t', r') → t ≠ t'

theorem liftSuites_ok' {r r' : Report} {x : Except WriterErr (List SuiteResult)} (h : liftSuites r x = .ok r') :
    ∃ ss, x = .ok ss ∧ r' = { r with suites := ss } := by
  cases x with
  | ok ss => simp only [liftSuites] at h; cases h; exact ⟨ss, rfl, rfl⟩
  | error e => simp [liftSuites] at h

theorem sameContent_suites (r : Report) {ss ss' : List SuiteResult} (h : SameSuites ss ss') :
    SameContent { r with suites := ss } { r with suites := ss' } :=
  ⟨rfl, rfl, rfl, rfl, rfl, rfl, rfl, rfl, h⟩

theorem Micro.treeRun_comm (m₁ m₂ : Micro)
    (h : ∀ p a q b, m₁.tree = some (p, a) → m₂.tree = some (q, b) → footIndep p a.field q b.field) :
    Comm SameContent m₁.treeRun m₂.treeRun := by
  intro r x y h1 h2
  unfold Micro.treeRun at *
  cases ht1 : m₁.tree with
  | none =>
    simp only [ht1] at h1 ⊢
    cases h1
    exact ⟨y, y, h2, rfl, SameContent.refl _⟩
  | some pa =>
    obtain ⟨p, a⟩ := pa
    simp only [ht1] at h1 ⊢
    obtain ⟨ss, hss, rfl⟩ := liftSuites_ok' h1
    cases ht2 : m₂.tree with
    | none =>
      simp only [ht2] at h2 ⊢
      cases h2
      exact ⟨r, _, rfl, by simp [hss, liftSuites], SameContent.refl _⟩
    | some qb =>
      obtain ⟨q, b⟩ := qb
      simp only [ht2] at h2 ⊢
      obtain ⟨ss2, hss2, rfl⟩ := liftSuites_ok' h2
      obtain ⟨x', y', h3, h4, h5⟩ := topOp_comm p a q b (h p a q b ht1 ht2) r.suites ss ss2 hss hss2
      exact ⟨{ r with suites := x' }, { r with suites := y' }, by simp [h3, liftSuites], by simp [h4, liftSuites],
        sameContent_suites r h5⟩

theorem Micro.treeRun_congr (m : Micro) {r r' r₁ : Report} (hs : SameContent r r') (hu : uniqL r.suites)
    (h : m.treeRun r = .ok r₁) : ∃ r₁', m.treeRun r' = .ok r₁' ∧ SameContent r₁ r₁' := by
  unfold Micro.treeRun at *
  cases ht : m.tree with
  | none => simp only [ht] at h ⊢; cases h; exact ⟨r', rfl, hs⟩
  | some pa =>
    obtain ⟨p, a⟩ := pa
    simp only [ht] at h ⊢
    obtain ⟨ss, hss, rfl⟩ := liftSuites_ok' h
    obtain ⟨y', h1, h2⟩ := topOp_congr p a r.suites r'.suites ss hs.suites hu hss
    exact ⟨{ r' with suites := y' }, by simp [h1, liftSuites],
      ⟨hs.1, hs.2, hs.3, hs.4, hs.5, hs.6, hs.7, hs.8, h2⟩⟩

theorem Micro.treeRun_uniq_back (m : Micro) {r r₁ : Report} (h : m.treeRun r = .ok r₁) (hu : uniqL r₁.suites) :
    uniqL r.suites := by
  unfold Micro.treeRun at h
  cases ht : m.tree with
  | none => simp only [ht] at h; cases h; exact hu
  | some pa =>
    obtain ⟨p, a⟩ := pa
    simp only [ht] at h
    obtain ⟨ss, hss, rfl⟩ := liftSuites_ok' h
    exact topOp_uniq_back p a _ _ hss hu

theorem lookup_pushOpt_ne (b : Option (Nat × StepRef)) (act : List (Nat × StepRef)) (tid : Nat)
    (h : ∀ t r, b = some (t, r) → t ≠ tid) : (pushOpt b act).lookup tid = act.lookup tid := by
  cases b with
  | none => rfl
  | some x =>
    obtain ⟨t, r⟩ := x
    have : (tid == t) = false := by simpa using (h t r rfl).symm
    simp [pushOpt, List.lookup, this]

theorem lookup_pushOpt_congr (b : Option (Nat × StepRef)) {act act' : List (Nat × StepRef)}
    (h : ∀ tid, act.lookup tid = act'.lookup tid) (tid : Nat) :
    (pushOpt b act).lookup tid = (pushOpt b act').lookup tid := by
  cases b with
  | none => exact h tid
  | some x =>
    obtain ⟨t, r⟩ := x
    simp only [pushOpt, List.lookup]
    split
    · rfl
    · exact h tid

theorem lookup_push_push (b₁ b₂ : Option (Nat × StepRef)) (act : List (Nat × StepRef))
    (h : ∀ t r t' r', b₁ = some (t, r) → b₂ = some (t', r') → t ≠ t') (tid : Nat) :
    (pushOpt b₂ (pushOpt b₁ act)).lookup tid = (pushOpt b₁ (pushOpt b₂ act)).lookup tid := by
  cases b₁ with
  | none => rfl
  | some x =>
    cases b₂ with
    | none => rfl
    | some y =>
      obtain ⟨t, r⟩ := x
      obtain ⟨t', r'⟩ := y
      have hne := h t r t' r' rfl rfl
      simp only [pushOpt, List.lookup]
      by_cases h1 : tid = t
      · subst h1
        have : (tid == t') = false := by simpa using hne
        simp [this]
      · have : (tid == t) = false := by simpa using h1
        simp [this]

theorem perm_pushOpt (b : Option (Nat × StepRef)) {act act' : List (Nat × StepRef)} (h : act.Perm act') :
    (pushOpt b act).Perm (pushOpt b act') := by
  cases b with
  | none => exact h
  | some x => exact h.cons x

theorem perm_push_push (b₁ b₂ : Option (Nat × StepRef)) (act : List (Nat × StepRef)) :
    (pushOpt b₂ (pushOpt b₁ act)).Perm (pushOpt b₁ (pushOpt b₂ act)) := by
  cases b₁ <;> cases b₂ <;> simp only [pushOpt] <;> first | exact List.Perm.refl _ | exact List.Perm.swap _ _ _

/-- **independent micro steps commute**: if `m₁` then `m₂` succeeds from `w`, so does `m₂` then `m₁`, and the final states
    have the same content. -/
theorem Micro.comm {m₁ m₂ : Micro} (hi : m₁.Indep m₂) {w w₁ w₂ : WriterState} (h1 : m₁.Steps w w₁) (h2 : m₂.Steps w₁ w₂) :
    ∃ w₁' w₂', m₂.Steps w w₁' ∧ m₁.Steps w₁' w₂' ∧ StEq w₂ w₂' := by
  obtain ⟨hr1, ht1, ha1⟩ := h1
  obtain ⟨hr2, ht2, ha2⟩ := h2
  obtain ⟨x', y', h3, h4, h5⟩ := m₁.treeRun_comm m₂ hi.foot _ _ _ ht1 ht2
  refine ⟨⟨x', pushOpt m₂.push w.active⟩, ⟨y', pushOpt m₁.push (pushOpt m₂.push w.active)⟩, ⟨?_, h3, rfl⟩, ⟨?_, h4, rfl⟩, ?_, ?_, ?_⟩
  · intro tid ref hrd
    have := hr2 tid ref hrd
    rw [ha1, lookup_pushOpt_ne _ _ _ (fun t r hp => hi.push_read t r tid ref hp hrd)] at this
    exact this
  · intro tid ref hrd
    show (pushOpt m₂.push w.active).lookup tid = some ref
    rw [lookup_pushOpt_ne _ _ _ (fun t r hp => (hi.read_push tid ref t r hrd hp).symm)]
    exact hr1 tid ref hrd
  · exact h5
  · intro tid
    rw [ha2, ha1]
    exact lookup_push_push _ _ _ hi.push_push tid
  · rw [ha2, ha1]
    exact perm_push_push _ _ _

/-- **the same micro step on two states with the same content** (unique sibling names) -/
theorem Micro.congr (m : Micro) {w w' w₁ : WriterState} (hs : StEq w w') (hu : uniqL w.report.suites) (h : m.Steps w w₁) :
    ∃ w₁', m.Steps w' w₁' ∧ StEq w₁ w₁' := by
  obtain ⟨hr, ht, ha⟩ := h
  obtain ⟨r₁', h1, h2⟩ := m.treeRun_congr hs.report hu ht
  refine ⟨⟨r₁', pushOpt m.push w'.active⟩, ⟨?_, h1, rfl⟩, h2, ?_, ?_⟩
  · intro tid ref hrd; rw [← hs.active]; exact hr tid ref hrd
  · intro tid; rw [ha]; exact lookup_pushOpt_congr _ hs.active tid
  · rw [ha]; exact perm_pushOpt _ hs.perm

end LccModel.Writer

/-
  C05 helpers, part 6: independence of two events, the correspondence handler ↔ micro step, and the commutation and
  congruence of `apply` itself (under the discipline `disc`).
-/
import LccModel.Lemmas.WriterEvents
set_option linter.unusedSimpArgs false
set_option linter.unusedVariables false
namespace LccModel.Writer
open LccModel.Report

/-! ### footprints and threads of events -/

/-- the footprint of the result at a location -/
def locFoot : Loc → Option (Path × Field)
  | .suiteSetup p => some (p, .setup)
  | .suiteTeardown p => some (p, .teardown)
  | .test p =>
    match p.getLast? with
    | some last => some (p.dropLast, .test last)
    | none => none
  | _ => none

/-- **The footprint of an event**: the suite it addresses and the field of that suite it touches. Session-level events
    (and events located in the session setup / teardown) have none: they are never declared independent of anything. -/
def evFoot : Event → Option (Path × Field)
  | .suiteStart path md _ => some (path.dropLast, .child md.name)
  | .suiteEnd path _ => some (path, .endTime)
  | .suiteSetupStart path _ => some (path, .setup)
  | .suiteSetupEnd path _ => some (path, .setup)
  | .suiteTeardownStart path _ => some (path, .teardown)
  | .suiteTeardownEnd path _ => some (path, .teardown)
  | .testStart path md _ => some (path.dropLast, .test md.name)
  | .testSkipped path md _ _ => some (path.dropLast, .test md.name)
  | .testDisabled path md _ _ => some (path.dropLast, .test md.name)
  | .testEnd path _ => locFoot (.test path)
  | .stepStart loc _ _ _ => locFoot loc
  | .stepEnd loc _ _ _ => locFoot loc
  | .log loc _ _ _ _ _ => locFoot loc
  | .check loc _ _ _ _ _ _ => locFoot loc
  | .attachment loc _ _ _ _ _ _ => locFoot loc
  | .url loc _ _ _ _ _ => locFoot loc
  | _ => none

/-- the thread whose `active_steps` binding the event reads or writes -/
def evTid : Event → Option Nat
  | .stepStart _ _ tid _ => some tid
  | .stepEnd _ _ tid _ => some tid
  | .log _ _ tid _ _ _ => some tid
  | .check _ _ tid _ _ _ _ => some tid
  | .attachment _ _ tid _ _ _ _ => some tid
  | .url _ _ tid _ _ _ => some tid
  | _ => none

/-- **Independence of two events**: both are inside the suite tree, their footprints are independent (`footIndep`:
    different (suite, field) pairs, and neither event creates a suite on the path of the other), and if both are
    step / log events they are emitted by different threads. -/
def Indep (e₁ e₂ : Event) : Prop :=
  match evFoot e₁, evFoot e₂ with
  | some (p, a), some (q, b) =>
    footIndep p a q b ∧
    (match evTid e₁, evTid e₂ with
     | some t₁, some t₂ => t₁ ≠ t₂
     | _, _ => True)
  | _, _ => False

instance (e₁ e₂ : Event) : Decidable (Indep e₁ e₂) := by
  unfold Indep
  split
  · split <;> exact inferInstance
  · exact inferInstance

theorem Indep.symm {e₁ e₂ : Event} (h : Indep e₁ e₂) : Indep e₂ e₁ := by
  unfold Indep at h ⊢
  cases h1 : evFoot e₁ with
  | none => simp [h1] at h
  | some pa =>
    cases h2 : evFoot e₂ with
    | none => simp [h1, h2] at h
    | some qb =>
      obtain ⟨p, a⟩ := pa
      obtain ⟨q, b⟩ := qb
      simp only [h1, h2] at h ⊢
      refine ⟨footIndep_symm _ _ _ _ h.1, ?_⟩
      have h' := h.2
      cases ht1 : evTid e₁ <;> cases ht2 : evTid e₂ <;> simp only [ht1, ht2] at h' ⊢
      exact Ne.symm h'

theorem Indep.unpack {e₁ e₂ : Event} (h : Indep e₁ e₂) :
    ∃ p a q b, evFoot e₁ = some (p, a) ∧ evFoot e₂ = some (q, b) ∧ footIndep p a q b ∧
      ∀ t₁ t₂, evTid e₁ = some t₁ → evTid e₂ = some t₂ → t₁ ≠ t₂ := by
  unfold Indep at h
  cases h1 : evFoot e₁ with
  | none => simp [h1] at h
  | some pa =>
    cases h2 : evFoot e₂ with
    | none => simp [h1, h2] at h
    | some qb =>
      obtain ⟨p, a⟩ := pa
      obtain ⟨q, b⟩ := qb
      simp only [h1, h2] at h
      refine ⟨p, a, q, b, rfl, rfl, h.1, ?_⟩
      intro t₁ t₂ ht1 ht2
      have h' := h.2
      simp only [ht1, ht2] at h'
      exact h'

/-! ### the micro steps of an event -/

inductive MicroOf : Event → Micro → Prop
  | suiteStart (path : Path) (md : Meta) (t : Time) :
      MicroOf (.suiteStart path md t) ⟨none, some (path.dropLast, .child (initSuite md t)), none⟩
  | suiteEnd (path : Path) (t : Time) : MicroOf (.suiteEnd path t) ⟨none, some (path, .endTime (some t)), none⟩
  | start {e : Event} {loc : Loc} {p : Path} {lf : Leaf} : startOf e = some (loc, p, lf) → MicroOf e ⟨none, some (p, lf), none⟩
  | fin {e : Event} {loc : Loc} {t : Time} {tr : Path × Leaf} : endOf e = some (loc, t) → locLeaf loc (finF t) = some tr →
      MicroOf e ⟨none, some tr, none⟩
  | stepStart (loc : Loc) (d : String) (tid : Nat) (t : Time) (n : Nat) {tr : Path × Leaf} :
      locLeaf loc (stepF n (newStep d t)) = some tr →
      MicroOf (.stepStart loc d tid t) ⟨none, some tr, some (tid, ⟨some (loc, n), none⟩)⟩
  | stepEndDetached (loc : Loc) (s : String) (tid : Nat) (t : Time) (ref : StepRef) : ref.target = none →
      MicroOf (.stepEnd loc s tid t) ⟨some (tid, ref), none, some (tid, { ref with endTime := some t })⟩
  | stepEndAt (loc : Loc) (s : String) (tid : Nat) (t : Time) (ref : StepRef) (idx : Nat) {tr : Path × Leaf} :
      ref.target = some (loc, idx) → locLeaf loc (endStepF t idx) = some tr →
      MicroOf (.stepEnd loc s tid t) ⟨some (tid, ref), some tr, some (tid, { ref with endTime := some t })⟩
  | entryDetached {e : Event} {loc : Loc} {tid : Nat} {en : Entry} (ref : StepRef) {tr : Path × Leaf} :
      entryOf e = some (loc, tid, en) → ref.target = none → truthyTime ref.endTime = false →
      locLeaf loc .ok = some tr → MicroOf e ⟨some (tid, ref), some tr, none⟩
  | entryAt {e : Event} {loc : Loc} {tid : Nat} {en : Entry} (ref : StepRef) (idx : Nat) {tr : Path × Leaf} :
      entryOf e = some (loc, tid, en) → ref.target = some (loc, idx) → locLeaf loc (addEntryAt idx en) = some tr →
      MicroOf e ⟨some (tid, ref), some tr, none⟩

theorem locLeaf_foot {loc : Loc} {f : Result → Except WriterErr Result} {p : Path} {lf : Leaf}
    (h : locLeaf loc f = some (p, lf)) : locFoot loc = some (p, lf.field) := by
  cases loc <;> simp only [locLeaf, locFoot, reduceCtorEq, Option.some.injEq, Prod.mk.injEq] at h ⊢
  · obtain ⟨rfl, rfl⟩ := h; exact ⟨rfl, rfl⟩
  · obtain ⟨rfl, rfl⟩ := h; exact ⟨rfl, rfl⟩
  · split at h
    · rename_i last hl
      simp only [Option.some.injEq, Prod.mk.injEq] at h
      obtain ⟨rfl, rfl⟩ := h
      simp [hl, Leaf.field]
    · cases h

theorem locFoot_leaf {loc : Loc} {p : Path} {a : Field} (h : locFoot loc = some (p, a)) (f : Result → Except WriterErr Result) :
    ∃ tr, locLeaf loc f = some tr := by
  cases loc <;> simp only [locLeaf, locFoot, reduceCtorEq] at h ⊢
  · exact ⟨_, rfl⟩
  · exact ⟨_, rfl⟩
  · split at h
    · rename_i last hl; simp [hl]
    · cases h

theorem startOf_foot {e : Event} {loc : Loc} {p : Path} {lf : Leaf} (h : startOf e = some (loc, p, lf)) :
    evFoot e = some (p, lf.field) ∧ evTid e = none ∧ locFoot loc = some (p, lf.field) := by
  cases e <;> simp only [startOf, Option.some.injEq, Prod.mk.injEq, reduceCtorEq] at h
  all_goals obtain ⟨rfl, rfl, rfl⟩ := h
  all_goals simp [evFoot, evTid, locFoot, Leaf.field, initTest, bypassTest]

theorem endOf_foot {e : Event} {loc : Loc} {t : Time} (h : endOf e = some (loc, t)) :
    evFoot e = locFoot loc ∧ evTid e = none := by
  cases e <;> simp only [endOf, Option.some.injEq, Prod.mk.injEq, reduceCtorEq] at h
  all_goals obtain ⟨rfl, rfl⟩ := h
  all_goals simp [evFoot, evTid, locFoot]

theorem entryOf_foot {e : Event} {loc : Loc} {tid : Nat} {en : Entry} (h : entryOf e = some (loc, tid, en)) :
    evFoot e = locFoot loc ∧ evTid e = some tid ∧ tidLocOf e = some (loc, tid) ∧ startOf e = none := by
  cases e <;> simp only [entryOf, Option.some.injEq, Prod.mk.injEq, reduceCtorEq] at h
  all_goals obtain ⟨rfl, rfl, rfl⟩ := h
  all_goals simp [evFoot, evTid, tidLocOf, entryOf, startOf]

theorem none_ne {α : Type} {x : α} {P : Prop} (h : (none : Option α) = some x) : P := by cases h

/-- what a micro step of `e` can touch -/
theorem MicroOf.wf {e : Event} {m : Micro} (h : MicroOf e m) :
    (∀ p lf, m.tree = some (p, lf) → evFoot e = some (p, lf.field)) ∧
    (∀ t r, m.read = some (t, r) → evTid e = some t) ∧
    (∀ t r, m.push = some (t, r) → evTid e = some t) := by
  cases h with
  | suiteStart path md t =>
    refine ⟨?_, fun _ _ h => none_ne h, fun _ _ h => none_ne h⟩
    intro p lf h; cases h; rfl
  | suiteEnd path t =>
    refine ⟨?_, fun _ _ h => none_ne h, fun _ _ h => none_ne h⟩
    intro p lf h; cases h; rfl
  | start hs =>
    refine ⟨?_, fun _ _ h => none_ne h, fun _ _ h => none_ne h⟩
    intro p lf h; cases h; exact (startOf_foot hs).1
  | fin he hl =>
    refine ⟨?_, fun _ _ h => none_ne h, fun _ _ h => none_ne h⟩
    intro p lf h; cases h; rw [(endOf_foot he).1]; exact locLeaf_foot hl
  | stepStart loc d tid t n hl =>
    refine ⟨?_, fun _ _ h => none_ne h, ?_⟩
    · intro p lf h; cases h; exact locLeaf_foot hl
    · intro t r h; cases h; rfl
  | stepEndDetached loc s tid t ref ht =>
    refine ⟨fun _ _ h => none_ne h, ?_, ?_⟩
    · intro t r h; cases h; rfl
    · intro t r h; cases h; rfl
  | stepEndAt loc s tid t ref idx ht hl =>
    refine ⟨?_, ?_, ?_⟩
    · intro p lf h; cases h; exact locLeaf_foot hl
    · intro t r h; cases h; rfl
    · intro t r h; cases h; rfl
  | entryDetached ref he ht htt hl =>
    refine ⟨?_, ?_, fun _ _ h => none_ne h⟩
    · intro p lf h; cases h; rw [(entryOf_foot he).1]; exact locLeaf_foot hl
    · intro t r h; cases h; exact (entryOf_foot he).2.1
  | entryAt ref idx he ht hl =>
    refine ⟨?_, ?_, fun _ _ h => none_ne h⟩
    · intro p lf h; cases h; rw [(entryOf_foot he).1]; exact locLeaf_foot hl
    · intro t r h; cases h; exact (entryOf_foot he).2.1

theorem MicroOf.indep {e₁ e₂ : Event} {m₁ m₂ : Micro} (hi : Indep e₁ e₂) (h1 : MicroOf e₁ m₁) (h2 : MicroOf e₂ m₂) :
    m₁.Indep m₂ := by
  obtain ⟨p, a, q, b, hf1, hf2, hfi, ht⟩ := hi.unpack
  obtain ⟨w1, r1, p1⟩ := h1.wf
  obtain ⟨w2, r2, p2⟩ := h2.wf
  refine ⟨?_, ?_, ?_, ?_⟩
  · intro p' a' q' b' ht1 ht2
    have e1 := w1 p' a' ht1
    have e2 := w2 q' b' ht2
    rw [hf1] at e1; rw [hf2] at e2
    cases e1; cases e2
    exact hfi
  · intro t r t' r' hp hr; exact ht t t' (p1 t r hp) (r2 t' r' hr)
  · intro t r t' r' hr hp; exact ht t t' (r1 t r hr) (p2 t' r' hp)
  · intro t r t' r' hp hp'; exact ht t t' (p1 t r hp) (p2 t' r' hp')

/-! ### handler ↔ micro step -/

theorem modifyResult_id {loc : Loc} {r r0 : Report} (h : modifyResult .ok loc r = .ok r0) : r0 = r := by
  rcases modifyResult_factor loc r with ⟨e, he⟩ | ⟨x, put, hput, hf⟩
  · rw [he] at h; cases h
  · rw [hf] at h; simp only at h; cases h; exact hput

theorem modifyResult_ok_of_ok {loc : Loc} {r r' : Report} {f : Result → Except WriterErr Result}
    (h : modifyResult f loc r = .ok r') : ∃ r0, modifyResult .ok loc r = .ok r0 := by
  rcases modifyResult_factor loc r with ⟨e, he⟩ | ⟨x, put, hput, hf⟩
  · rw [he] at h; cases h
  · exact ⟨put x, by rw [hf]⟩

theorem WriterState.eq_mk {w : WriterState} {r : Report} {a : List (Nat × StepRef)} (h1 : w.report = r) (h2 : w.active = a) :
    w = ⟨r, a⟩ := by cases w; simp only at h1 h2; subst h1; subst h2; rfl

theorem startOf_tidLoc {e : Event} {x : Loc × Path × Leaf} (h : startOf e = some x) : tidLocOf e = none := by
  cases e <;> simp only [startOf, reduceCtorEq] at h <;> rfl

theorem endOf_tidLoc {e : Event} {x : Loc × Time} (h : endOf e = some x) : tidLocOf e = none ∧ startOf e = none := by
  cases e <;> simp only [endOf, reduceCtorEq] at h <;> exact ⟨rfl, rfl⟩

theorem located_of_lookup {act : List (Nat × StepRef)} {loc : Loc} {tid : Nat} {ref : StepRef}
    (hl : act.lookup tid = some ref) (h : located act loc tid = true) :
    ref.target = none ∨ ∃ idx, ref.target = some (loc, idx) := by
  simp only [located, hl, refAt] at h
  cases ht : ref.target with
  | none => exact Or.inl rfl
  | some li =>
    obtain ⟨l, i⟩ := li
    simp only [ht, beq_iff_eq] at h
    subst h
    exact Or.inr ⟨i, rfl⟩

/-- **every successful disciplined handler is a micro step of its event** -/
theorem apply_micro {w w' : WriterState} {e : Event} (h : apply w e = .ok w') (hd : disc w e = true)
    (hf : (evFoot e).isSome = true) : ∃ m, MicroOf e m ∧ m.Steps w w' := by
  simp only [disc, Bool.and_eq_true] at hd
  obtain ⟨hfresh, hplace⟩ := hd
  cases hs : startOf e with
  | some x =>
    obtain ⟨loc, p, lf⟩ := x
    obtain ⟨r', h1, rfl⟩ := (apply_start_iff hs w w').mp h
    simp only [startsFresh, hs] at hfresh
    rw [detach_of_noRefs loc _ hfresh]
    exact ⟨_, .start hs, (steps_tree_iff p lf w _).mpr ⟨r', h1, rfl⟩⟩
  | none =>
  cases he : endOf e with
  | some x =>
    obtain ⟨loc, t⟩ := x
    rw [apply_end_eq he, onReport_iff] at h
    obtain ⟨r', h1, rfl⟩ := h
    rw [(endOf_foot he).1] at hf
    obtain ⟨pa, hpa⟩ := Option.isSome_iff_exists.mp hf
    obtain ⟨tr, htr⟩ := locFoot_leaf (p := pa.1) (a := pa.2) hpa (finF t)
    obtain ⟨p, lf⟩ := tr
    rw [modifyResult_eq_tree htr] at h1
    exact ⟨_, .fin he htr, (steps_tree_iff p lf w _).mpr ⟨r', h1, rfl⟩⟩
  | none =>
  cases hen : entryOf e with
  | some x =>
    obtain ⟨loc, tid, en⟩ := x
    rw [apply_entry_eq hen, addEntry_iff] at h
    obtain ⟨⟨r0, hr0⟩, ref, hl, hcase⟩ := h
    obtain ⟨hfoot, _, htl, _⟩ := entryOf_foot hen
    simp only [emitsInPlace, htl] at hplace
    rw [hfoot] at hf
    obtain ⟨pa, hpa⟩ := Option.isSome_iff_exists.mp hf
    rcases hcase with ⟨ht, htt, rfl⟩ | ⟨l, idx, r', ht, hm, rfl⟩
    · obtain ⟨tr, htr⟩ := locFoot_leaf (p := pa.1) (a := pa.2) hpa .ok
      refine ⟨_, .entryDetached ref hen ht htt htr, ?_, ?_, rfl⟩
      · intro t r hh; cases hh; exact hl
      · obtain ⟨p, lf⟩ := tr
        simp only [Micro.treeRun]
        rw [← modifyResult_eq_tree htr, hr0, modifyResult_id hr0]
    · rcases located_of_lookup hl hplace with hn | ⟨idx', hi⟩
      · rw [hn] at ht; cases ht
      · rw [hi] at ht; cases ht
        obtain ⟨tr, htr⟩ := locFoot_leaf (p := pa.1) (a := pa.2) hpa (addEntryAt idx en)
        refine ⟨_, .entryAt ref idx hen hi htr, ?_, ?_, rfl⟩
        · intro t r hh; cases hh; exact hl
        · obtain ⟨p, lf⟩ := tr
          simp only [Micro.treeRun]
          rw [← modifyResult_eq_tree htr, hm]
  | none =>
  cases e <;> simp only [startOf, endOf, entryOf, evFoot, reduceCtorEq, Option.isSome_none, Bool.false_eq_true] at hs he hen hf
  · -- suiteStart
    exact ⟨_, .suiteStart _ _ _, (apply_suiteStart_iff _ _ _ _ _).mp h⟩
  · -- suiteEnd
    exact ⟨_, .suiteEnd _ _, (apply_suiteEnd_iff _ _ _ _).mp h⟩
  · -- stepStart
    rename_i loc d tid t
    obtain ⟨n, r', h1, rfl⟩ := (apply_stepStart_iff _ _ _ _ _ _).mp h
    obtain ⟨pa, hpa⟩ := Option.isSome_iff_exists.mp hf
    obtain ⟨tr, htr⟩ := locFoot_leaf (p := pa.1) (a := pa.2) hpa (stepF n (newStep d t))
    refine ⟨_, .stepStart loc d tid t n htr, ?_, ?_, rfl⟩
    · intro t r hh; cases hh
    · obtain ⟨p, lf⟩ := tr
      simp only [Micro.treeRun]
      rw [← modifyResult_eq_tree htr, h1]
  · -- stepEnd
    rename_i loc s tid t
    obtain ⟨ref, hl, hcase⟩ := (apply_stepEnd_iff _ _ _ _ _ _).mp h
    simp only [emitsInPlace, tidLocOf] at hplace
    rcases hcase with ⟨ht, rfl⟩ | ⟨l, idx, r', ht, hm, rfl⟩
    · refine ⟨_, .stepEndDetached loc s tid t ref ht, ?_, rfl, rfl⟩
      intro t r hh; cases hh; exact hl
    · rcases located_of_lookup hl hplace with hn | ⟨idx', hi⟩
      · rw [hn] at ht; cases ht
      · rw [hi] at ht; cases ht
        obtain ⟨pa, hpa⟩ := Option.isSome_iff_exists.mp hf
        obtain ⟨tr, htr⟩ := locFoot_leaf (p := pa.1) (a := pa.2) hpa (endStepF t idx)
        refine ⟨_, .stepEndAt loc s tid t ref idx hi htr, ?_, ?_, rfl⟩
        · intro t r hh; cases hh; exact hl
        · obtain ⟨p, lf⟩ := tr
          simp only [Micro.treeRun]
          rw [← modifyResult_eq_tree htr, hm]

theorem located_of_ref {act : List (Nat × StepRef)} {loc : Loc} {tid : Nat} {ref : StepRef}
    (hl : act.lookup tid = some ref) (h : ref.target = none ∨ ∃ idx, ref.target = some (loc, idx)) :
    located act loc tid = true := by
  simp only [located, hl, refAt]
  rcases h with h | ⟨idx, h⟩ <;> simp [h]

/-- **every micro step of an event is that event's handler succeeding** (and the step-end / log discipline holds) -/
theorem micro_apply {w w' : WriterState} {e : Event} {m : Micro} (hm : MicroOf e m) (hs : m.Steps w w')
    (hfresh : startsFresh w e = true) : apply w e = .ok w' ∧ disc w e = true := by
  simp only [disc, hfresh, Bool.true_and]
  obtain ⟨hr, ht, ha⟩ := hs
  cases hm with
  | suiteStart path md t =>
    exact ⟨(apply_suiteStart_iff _ _ _ _ _).mpr ⟨hr, ht, ha⟩, rfl⟩
  | suiteEnd path t =>
    exact ⟨(apply_suiteEnd_iff _ _ _ _).mpr ⟨hr, ht, ha⟩, rfl⟩
  | @start _ loc p lf hst =>
    refine ⟨?_, by simp only [emitsInPlace, startOf_tidLoc hst]⟩
    obtain ⟨r', h1, rfl⟩ := (steps_tree_iff p lf w w').mp ⟨hr, ht, ha⟩
    simp only [startsFresh, hst] at hfresh
    refine (apply_start_iff hst w _).mpr ⟨r', h1, ?_⟩
    rw [detach_of_noRefs loc _ hfresh]
  | @fin _ loc t tr he hl =>
    refine ⟨?_, by simp only [emitsInPlace, (endOf_tidLoc he).1]⟩
    obtain ⟨p, lf⟩ := tr
    obtain ⟨r', h1, rfl⟩ := (steps_tree_iff p lf w w').mp ⟨hr, ht, ha⟩
    rw [apply_end_eq he, onReport_iff]
    exact ⟨r', by rw [modifyResult_eq_tree hl]; exact h1, rfl⟩
  | @stepStart loc d tid t n tr hl =>
    refine ⟨?_, rfl⟩
    obtain ⟨p, lf⟩ := tr
    simp only [Micro.treeRun, pushOpt] at ht ha
    refine (apply_stepStart_iff _ _ _ _ _ _).mpr ⟨n, w'.report, ?_, WriterState.eq_mk rfl ha⟩
    rw [modifyResult_eq_tree hl]; exact ht
  | stepEndDetached loc s tid t ref htg =>
    have hl := hr tid ref rfl
    simp only [Micro.treeRun, pushOpt] at ht ha
    have ht' : w'.report = w.report := by injection ht with h; exact h.symm
    refine ⟨(apply_stepEnd_iff _ _ _ _ _ _).mpr ⟨ref, hl, Or.inl ⟨htg, WriterState.eq_mk ht' ha⟩⟩, ?_⟩
    simp only [emitsInPlace, tidLocOf]
    exact located_of_ref hl (Or.inl htg)
  | @stepEndAt loc s tid t ref idx tr htg hlf =>
    have hl := hr tid ref rfl
    obtain ⟨p, lf⟩ := tr
    simp only [Micro.treeRun, pushOpt] at ht ha
    refine ⟨(apply_stepEnd_iff _ _ _ _ _ _).mpr ⟨ref, hl, Or.inr ⟨loc, idx, w'.report, htg, ?_, WriterState.eq_mk rfl ha⟩⟩, ?_⟩
    · rw [modifyResult_eq_tree hlf]; exact ht
    · simp only [emitsInPlace, tidLocOf]
      exact located_of_ref hl (Or.inr ⟨idx, htg⟩)
  | @entryDetached _ loc tid en ref tr hen htg htt hlf =>
    have hl := hr tid ref rfl
    obtain ⟨p, lf⟩ := tr
    simp only [Micro.treeRun, pushOpt] at ht ha
    rw [← modifyResult_eq_tree hlf] at ht
    have hrep := modifyResult_id ht
    have hw : w' = w := by
      cases w; cases w'; simp only at hrep ha; subst hrep; subst ha; rfl
    refine ⟨?_, ?_⟩
    · rw [apply_entry_eq hen, addEntry_iff]
      exact ⟨⟨_, ht⟩, ref, hl, Or.inl ⟨htg, htt, hw⟩⟩
    · simp only [emitsInPlace, (entryOf_foot hen).2.2.1]
      exact located_of_ref hl (Or.inl htg)
  | @entryAt _ loc tid en ref idx tr hen htg hlf =>
    have hl := hr tid ref rfl
    obtain ⟨p, lf⟩ := tr
    simp only [Micro.treeRun, pushOpt] at ht ha
    rw [← modifyResult_eq_tree hlf] at ht
    refine ⟨?_, ?_⟩
    · rw [apply_entry_eq hen, addEntry_iff]
      refine ⟨modifyResult_ok_of_ok ht, ref, hl, Or.inr ⟨loc, idx, w'.report, htg, ht, ?_⟩⟩
      cases w; cases w'; simp only at ha; subst ha; rfl
    · simp only [emitsInPlace, (entryOf_foot hen).2.2.1]
      exact located_of_ref hl (Or.inr ⟨idx, htg⟩)

end LccModel.Writer

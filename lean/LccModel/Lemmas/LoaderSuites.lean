/-
  Helper lemmas for C13, layer 3: `Suite.add_suite`, `load_suites_from_classes`,
  `load_suite_from_class` — result and exact success condition, by induction over nested classes.
-/
import LccModel.Lemmas.LoaderTests

namespace LccModel.Loader

open List

/-! ### Induction over nested classes -/

mutual
theorem Cls.ind {P : Cls → Prop}
    (step : ∀ (h : ClsHead) (tests : List TestDecl) (subs : List Cls), (∀ c ∈ subs, P c) → P (.mk h tests subs)) : ∀ c, P c
  | .mk h tests subs => step h tests subs (Cls.indList step subs)
theorem Cls.indList {P : Cls → Prop}
    (step : ∀ (h : ClsHead) (tests : List TestDecl) (subs : List Cls), (∀ c ∈ subs, P c) → P (.mk h tests subs)) : ∀ (cs : List Cls), ∀ c ∈ cs, P c
  | [], _, hc => by cases hc
  | c :: cs, x, hx => by
    rcases List.mem_cons.mp hx with h | hx
    · rw [h]; exact Cls.ind step c
    · exact Cls.indList step cs x hx
end

/-! ### Generic list lemmas -/

/-- Two lists related element by element. -/
inductive Forall₂ (R : α → β → Prop) : List α → List β → Prop
  | nil : Forall₂ R [] []
  | cons {a b l₁ l₂} : R a b → Forall₂ R l₁ l₂ → Forall₂ R (a :: l₁) (b :: l₂)

theorem Forall₂.imp {R S : α → β → Prop} (H : ∀ a b, R a b → S a b) :
    ∀ {l₁ : List α} {l₂ : List β}, Forall₂ R l₁ l₂ → Forall₂ S l₁ l₂
  | _, _, .nil => .nil
  | _, _, .cons h t => .cons (H _ _ h) (Forall₂.imp H t)

theorem sequenceE_ok_iff {ε : Type} : ∀ (l : List (Except ε α)) (r : List α),
    sequenceE l = .ok r ↔ l = r.map .ok
  | [], r => by
    simp only [sequenceE, Except.ok.injEq]
    cases r <;> simp
  | .error e :: rest, r => by
    simp only [sequenceE]
    cases r <;> simp
  | .ok a :: rest, r => by
    simp only [sequenceE]
    cases h : sequenceE rest with
    | error e =>
      simp only
      constructor
      · intro h'; cases h'
      · intro h'
        cases r with
        | nil => simp at h'
        | cons b bs =>
          simp only [List.map_cons, List.cons.injEq] at h'
          rw [(sequenceE_ok_iff rest bs).mpr h'.2] at h
          cases h
    | ok as =>
      have := (sequenceE_ok_iff rest as).mp h
      simp only [Except.ok.injEq]
      constructor
      · intro h'; subst h'; simp [this]
      · intro h'
        cases r with
        | nil => simp at h'
        | cons b bs =>
          simp only [List.map_cons, List.cons.injEq, Except.ok.injEq] at h'
          obtain ⟨rfl, h2⟩ := h'
          rw [this] at h2
          rw [map_ok_inj h2]

theorem forall2_of_map_ok {ε : Type} (f : α → Except ε β) : ∀ (l : List α) (ys : List β),
    l.map f = ys.map .ok → Forall₂ (fun x y => x ∈ l ∧ f x = .ok y) l ys
  | [], [], _ => .nil
  | [], _ :: _, h => by simp at h
  | _ :: _, [], h => by simp at h
  | x :: xs, y :: ys, h => by
    simp only [List.map_cons, List.cons.injEq] at h
    refine .cons ⟨List.mem_cons_self, h.1⟩ ?_
    exact (forall2_of_map_ok f xs ys h.2).imp (fun _ _ hab => ⟨List.mem_cons_of_mem _ hab.1, hab.2⟩)

theorem map_ok_of_forall2 {ε : Type} (f : α → Except ε β) : ∀ (l : List α) (ys : List β),
    Forall₂ (fun x y => f x = .ok y) l ys → l.map f = ys.map .ok
  | _, _, .nil => rfl
  | _, _, .cons h t => by simp [h, map_ok_of_forall2 f _ _ t]

theorem exists_map_ok {ε : Type} (f : α → Except ε β) : ∀ (l : List α),
    (∀ x ∈ l, ∃ y, f x = .ok y) → ∃ ys : List β, l.map f = ys.map .ok
  | [], _ => ⟨[], rfl⟩
  | x :: xs, h => by
    obtain ⟨y, hy⟩ := h x List.mem_cons_self
    obtain ⟨ys, hys⟩ := exists_map_ok f xs (fun a ha => h a (List.mem_cons_of_mem _ ha))
    exact ⟨y :: ys, by simp [hy, hys]⟩

theorem forall2_map_eq {R : α → β → Prop} {g : β → γ} {h : α → γ} :
    ∀ {l : List α} {ys : List β}, Forall₂ R l ys → (∀ x y, R x y → g y = h x) → ys.map g = l.map h
  | _, _, .nil, _ => rfl
  | _, _, .cons hxy t, H => by simp [H _ _ hxy, forall2_map_eq t H]

theorem forall2_filter {R : α → β → Prop} {p : β → Bool} {q : α → Bool} :
    ∀ {l : List α} {ys : List β}, Forall₂ R l ys → (∀ x y, R x y → p y = q x) →
      Forall₂ R (l.filter q) (ys.filter p)
  | _, _, .nil, _ => .nil
  | x :: _, y :: _, .cons hxy t, H => by
    have := H _ _ hxy
    cases hq : q x
    · simp only [List.filter_cons, hq, this, Bool.false_eq_true, if_false]; exact forall2_filter t H
    · simp only [List.filter_cons, hq, this, if_true]; exact .cons hxy (forall2_filter t H)

theorem forall2_flatMap_eq {R : α → β → Prop} {G : β → List γ} {H : α → List γ} :
    ∀ {l : List α} {ys : List β}, Forall₂ R l ys → (∀ x y, R x y → G y = H x) → ys.flatMap G = l.flatMap H
  | _, _, .nil, _ => rfl
  | _, _, .cons hxy t, K => by simp [List.flatMap_cons, K _ _ hxy, forall2_flatMap_eq t K]

theorem forall2_exists_left {R : α → β → Prop} :
    ∀ {l : List α} {ys : List β}, Forall₂ R l ys → ∀ x ∈ l, ∃ y ∈ ys, R x y
  | _, _, .nil, _, hx => by cases hx
  | _, _, .cons hxy t, x, hx => by
    rcases List.mem_cons.mp hx with rfl | hx
    · exact ⟨_, List.mem_cons_self, hxy⟩
    · obtain ⟨y, hy, hr⟩ := forall2_exists_left t x hx
      exact ⟨y, List.mem_cons_of_mem _ hy, hr⟩

theorem forall2_exists_right {R : α → β → Prop} :
    ∀ {l : List α} {ys : List β}, Forall₂ R l ys → ∀ y ∈ ys, ∃ x ∈ l, R x y
  | _, _, .nil, _, hy => by cases hy
  | _, _, .cons hxy t, y, hy => by
    rcases List.mem_cons.mp hy with rfl | hy
    · exact ⟨_, List.mem_cons_self, hxy⟩
    · obtain ⟨x, hx, hr⟩ := forall2_exists_right t y hy
      exact ⟨x, List.mem_cons_of_mem _ hx, hr⟩

/-! ### `Suite.add_suite` -/

/-- "No two sub-suites share a name, no two share a description." -/
def NoClashS (l : List Suite) : Prop := (l.map Suite.name).Nodup ∧ (l.map Suite.desc).Nodup

theorem addSuite_ok_iff (acc : List Suite) (s : Suite) (r : List Suite) :
    addSuite acc s = .ok r ↔ (r = acc ++ [s] ∧ s.desc ∉ acc.map Suite.desc ∧ s.name ∉ acc.map Suite.name) := by
  unfold addSuite
  by_cases h1 : acc.any (fun u => u.desc == s.desc) = true
  · simp only [h1, if_true]
    constructor
    · intro h; cases h
    · rintro ⟨_, h, _⟩
      exfalso; apply h
      simp only [List.any_eq_true, beq_iff_eq] at h1
      obtain ⟨u, hu, hd⟩ := h1
      exact List.mem_map.mpr ⟨u, hu, hd⟩
  · have h1' : s.desc ∉ acc.map Suite.desc := by
      intro hm
      obtain ⟨u, hu, hd⟩ := List.mem_map.mp hm
      apply h1
      simp only [List.any_eq_true, beq_iff_eq]
      exact ⟨u, hu, hd⟩
    simp only [h1, Bool.false_eq_true, if_false]
    by_cases h2 : acc.any (fun u => u.name == s.name) = true
    · simp only [h2, if_true]
      constructor
      · intro h; cases h
      · rintro ⟨_, _, h⟩
        exfalso; apply h
        simp only [List.any_eq_true, beq_iff_eq] at h2
        obtain ⟨u, hu, hd⟩ := h2
        exact List.mem_map.mpr ⟨u, hu, hd⟩
    · have h2' : s.name ∉ acc.map Suite.name := by
        intro hm
        obtain ⟨u, hu, hd⟩ := List.mem_map.mp hm
        apply h2
        simp only [List.any_eq_true, beq_iff_eq]
        exact ⟨u, hu, hd⟩
      simp only [h2, Bool.false_eq_true, if_false, Except.ok.injEq]
      constructor
      · intro h; exact ⟨h.symm, h1', h2'⟩
      · rintro ⟨h, _, _⟩; exact h.symm

/-- Adding the suites `ss` to a suite whose sub-suites `acc` are clash-free succeeds iff `acc ++ ss`
    is clash-free; the result is `acc ++ ss` (order kept). -/
theorem addSuites_ok_iff : ∀ (ss acc r : List Suite), NoClashS acc →
    (addSuites acc ss = .ok r ↔ (r = acc ++ ss ∧ NoClashS (acc ++ ss)))
  | [], acc, r, hacc => by
    simp only [addSuites, Except.ok.injEq, List.append_nil]
    constructor
    · intro h; exact ⟨h.symm, hacc⟩
    · intro h; exact h.1.symm
  | s :: rest, acc, r, hacc => by
    simp only [addSuites]
    cases hadd : addSuite acc s with
    | error e =>
      simp only
      constructor
      · intro h; cases h
      · rintro ⟨_, hno⟩
        exfalso
        have : addSuite acc s = .ok (acc ++ [s]) := by
          rw [addSuite_ok_iff]
          refine ⟨rfl, ?_, ?_⟩
          · have := hno.2
            rw [show acc ++ s :: rest = (acc ++ [s]) ++ rest by simp, List.map_append] at this
            exact ((nodup_map_snoc _ acc s).mp (List.nodup_append.mp this).1).2
          · have := hno.1
            rw [show acc ++ s :: rest = (acc ++ [s]) ++ rest by simp, List.map_append] at this
            exact ((nodup_map_snoc _ acc s).mp (List.nodup_append.mp this).1).2
        rw [hadd] at this; cases this
    | ok acc' =>
      simp only
      obtain ⟨rfl, hd, hn⟩ := (addSuite_ok_iff acc s acc').mp hadd
      have hacc' : NoClashS (acc ++ [s]) :=
        ⟨(nodup_map_snoc _ acc s).mpr ⟨hacc.1, hn⟩, (nodup_map_snoc _ acc s).mpr ⟨hacc.2, hd⟩⟩
      rw [addSuites_ok_iff rest (acc ++ [s]) r hacc']
      simp only [List.append_assoc, List.cons_append, List.nil_append]

theorem noClashS_nil : NoClashS [] := ⟨List.nodup_nil, List.nodup_nil⟩

/-! ### Flattening -/

theorem entriesList_eq_flatMap : ∀ (ss : List Suite), Suite.entriesList ss = ss.flatMap Suite.entries
  | [] => rfl
  | s :: rest => by
    simp only [Suite.entriesList, List.flatMap_cons, entriesList_eq_flatMap rest]
    rfl

theorem body_mk (h : SuiteHead) (ts : List Test) (ss : List Suite) :
    (Suite.mk h ts ss).body = testLeaves ts ++ Suite.entriesList ss := by
  simp [Suite.body]

theorem isEmpty_iff_body : ∀ (s : Suite), s.isEmpty = true ↔ s.body = [] := by
  suffices h : (∀ s : Suite, s.isEmpty = true ↔ s.body = []) ∧
      (∀ ss : List Suite, Suite.allEmpty ss = true ↔ Suite.entriesList ss = []) from h.1
  -- structural recursion over the nested tree, through an auxiliary size induction
  have key : ∀ n, (∀ s : Suite, sizeOf s < n → (s.isEmpty = true ↔ s.body = [])) ∧
      (∀ ss : List Suite, sizeOf ss < n → (Suite.allEmpty ss = true ↔ Suite.entriesList ss = [])) := by
    intro n
    induction n with
    | zero => exact ⟨fun _ h => by omega, fun _ h => by omega⟩
    | succ n ih =>
      refine ⟨?_, ?_⟩
      · intro s hs
        cases s with
        | mk h ts ss =>
          have hss : sizeOf ss < n := by simp only [Suite.mk.sizeOf_spec] at hs; omega
          simp only [Suite.isEmpty, Suite.body, Bool.and_eq_true, List.append_eq_nil_iff, ih.2 ss hss]
          cases ts <;> simp [testLeaves]
      · intro ss hs
        cases ss with
        | nil => simp [Suite.allEmpty, Suite.entriesList]
        | cons s rest =>
          have h1 : sizeOf s < n := by simp only [List.cons.sizeOf_spec] at hs; omega
          have h2 : sizeOf rest < n := by simp only [List.cons.sizeOf_spec] at hs; omega
          simp only [Suite.allEmpty, Suite.entriesList, Bool.and_eq_true, List.append_eq_nil_iff,
            ih.1 s h1, ih.2 rest h2, underSuite, List.map_eq_nil_iff]
  exact ⟨fun s => (key (sizeOf s + 1)).1 s (by omega), fun ss => (key (sizeOf ss + 1)).2 ss (by omega)⟩

/-! ### `load_suites_from_classes` and `load_suite_from_class` -/

def keyedLoad (c : Cls) : Keyed (Except LoadErr Suite) := ⟨c.head.attr, c.head.rank, loadClass c⟩

theorem loadClassList_eq_map : ∀ cs, loadClassList cs = cs.map keyedLoad
  | [] => rfl
  | c :: cs => by simp [loadClassList, keyedLoad, loadClassList_eq_map cs]

def keyedDecl (c : Cls) : Keyed (List Entry) := ⟨c.head.attr, c.head.rank, declCls c⟩

theorem declClsList_eq_map : ∀ cs, declClsList cs = cs.map keyedDecl
  | [] => rfl
  | c :: cs => by simp [declClsList, keyedDecl, declCls, declClsList_eq_map cs]

theorem flattenKeyed_declClsList (cs : List Cls) :
    flattenKeyed (declClsList cs) = (discoverClasses cs).flatMap declCls := by
  unfold flattenKeyed discoverClasses
  rw [declClsList_eq_map,
      discover_map keyedDecl (fun c => c.head.attr) (fun c => c.head.rank) Keyed.attr Keyed.rank
        (fun _ => rfl) (fun _ => rfl)]
  simp [List.flatMap_map, keyedDecl]

theorem loadSubSuites_unfold (cs : List Cls) :
    loadSubSuites (loadClassList cs) =
      match sequenceE ((discoverClasses cs).map loadClass) with
      | .error e => .error e
      | .ok loaded => addSuites [] (loaded.filter (fun s => !s.hidden)) := by
  unfold loadSubSuites discoverClasses
  rw [loadClassList_eq_map,
      discover_map keyedLoad (fun c => c.head.attr) (fun c => c.head.rank) Keyed.attr Keyed.rank
        (fun _ => rfl) (fun _ => rfl)]
  simp only [List.map_map]
  rfl

/-- What the loop over the nested classes of one body produces. -/
theorem loadSubSuites_ok_iff (cs : List Cls) (ss : List Suite) :
    loadSubSuites (loadClassList cs) = .ok ss ↔
      ∃ loaded : List Suite, (discoverClasses cs).map loadClass = loaded.map .ok ∧
        ss = loaded.filter (fun s => !s.hidden) ∧ NoClashS ss := by
  rw [loadSubSuites_unfold]
  cases hseq : sequenceE ((discoverClasses cs).map loadClass) with
  | error e =>
    simp only
    constructor
    · intro h; cases h
    · rintro ⟨loaded, hl, _⟩
      rw [(sequenceE_ok_iff _ loaded).mpr hl] at hseq; cases hseq
  | ok loaded =>
    simp only
    have hl := (sequenceE_ok_iff _ loaded).mp hseq
    rw [addSuites_ok_iff _ [] ss noClashS_nil]
    simp only [List.nil_append]
    constructor
    · rintro ⟨rfl, hno⟩; exact ⟨loaded, hl, rfl, hno⟩
    · rintro ⟨loaded', hl', rfl, hno⟩
      rw [hl] at hl'
      rw [← map_ok_inj hl'] at hno ⊢
      exact ⟨rfl, hno⟩

/-- The suite head `load_suite_from_class` builds from the class metadata. -/
def clsSuiteHead (h : ClsHead) : SuiteHead :=
  { name := h.suiteName, desc := h.suiteDesc, rank := h.rank, md := h.md, disabled := h.disabled,
    hidden := !h.vis.visible }

/-- The loaded suite `s` is what class `c` declares. -/
structure Good (c : Cls) (s : Suite) : Prop where
  head : s.head = clsSuiteHead c.head
  tests : s.tests = declTests c.tests
  subs : Forall₂ (fun c' s' => loadClass c' = .ok s') (visibleClasses c.subs) s.subs
  below : Suite.entriesList s.subs = flattenKeyed (declClsList c.subs)

theorem Good.body {c : Cls} {s : Suite} (g : Good c s) : s.body = declClsBody c := by
  cases s with
  | mk h ts ss =>
    cases c with
    | mk ch ct cs =>
      have h1 := g.tests
      have h2 := g.below
      simp only [Suite.tests, Cls.tests, Suite.subs, Cls.subs] at h1 h2
      simp [Suite.body, declClsBody, h1, h2]

theorem Good.entries {c : Cls} {s : Suite} (g : Good c s) :
    (if s.hidden then [] else s.entries) = declCls c := by
  have hh := g.head
  unfold declCls Suite.entries Suite.hidden Suite.name
  rw [hh, g.body]
  simp only [clsSuiteHead]
  by_cases hv : c.head.vis.visible = true <;> simp [hv]

/-- Nested classes of one body: if every class symbol satisfies the induction hypothesis, the
    loaded sub-suites are the visible classes, in discovery order, each loaded by `loadClass`. -/
theorem loadSubSuites_spec (cs : List Cls) (ss : List Suite)
    (h : loadSubSuites (loadClassList cs) = .ok ss) (ih : ∀ c ∈ cs, ∀ s, loadClass c = .ok s → Good c s) :
    Forall₂ (fun c s => loadClass c = .ok s) (visibleClasses cs) ss ∧
    Suite.entriesList ss = flattenKeyed (declClsList cs) ∧
    (∀ c ∈ cs, ∃ s, loadClass c = .ok s) ∧ NoClashS ss := by
  obtain ⟨loaded, hl, rfl, hno⟩ := (loadSubSuites_ok_iff cs ss).mp h
  have f2 := forall2_of_map_ok loadClass _ _ hl
  have f2g : Forall₂ (fun c s => loadClass c = .ok s ∧ Good c s) (discoverClasses cs) loaded :=
    f2.imp (fun c s hcs => ⟨hcs.2, ih c (mem_discover.mp hcs.1) s hcs.2⟩)
  refine ⟨?_, ?_, ?_, hno⟩
  · unfold visibleClasses
    refine (forall2_filter f2g ?_).imp (fun _ _ h => h.1)
    intro c s hcs
    have := hcs.2.head
    simp [Suite.hidden, this, clsSuiteHead]
  · rw [entriesList_eq_flatMap, flattenKeyed_declClsList]
    have : ∀ l : List Suite, (l.filter (fun s => !s.hidden)).flatMap Suite.entries
        = l.flatMap (fun s => if s.hidden then [] else s.entries) := by
      intro l
      induction l with
      | nil => rfl
      | cons a as ih =>
        cases ha : a.hidden <;> simp [ha, ih]
    rw [this]
    exact forall2_flatMap_eq f2g (fun c s hcs => hcs.2.entries)
  · intro c hc
    obtain ⟨s, _, hs⟩ := forall2_exists_left f2 c (mem_discover.mpr hc)
    exact ⟨s, hs.2⟩

theorem acceptsClsList_iff : ∀ cs, acceptsClsList cs = true ↔ ∀ c ∈ cs, acceptsCls c = true
  | [] => by simp [acceptsClsList]
  | c :: cs => by simp [acceptsClsList, acceptsClsList_iff cs]

/-- Existence direction for one body: accepted classes with clash-free visible names load. -/
theorem loadSubSuites_exists (cs : List Cls)
    (ih : ∀ c ∈ cs, (∀ s, loadClass c = .ok s → Good c s) ∧ ((∃ s, loadClass c = .ok s) ↔ acceptsCls c = true))
    (hacc : acceptsClsList cs = true)
    (hn : nodupB ((visibleClasses cs).map (fun c => c.head.suiteName)) = true)
    (hd : nodupB ((visibleClasses cs).map (fun c => c.head.suiteDesc)) = true) :
    ∃ ss, loadSubSuites (loadClassList cs) = .ok ss := by
  have hall : ∀ c ∈ discoverClasses cs, ∃ s, loadClass c = .ok s := fun c hc =>
    (ih c (mem_discover.mp hc)).2.mpr ((acceptsClsList_iff cs).mp hacc c (mem_discover.mp hc))
  obtain ⟨loaded, hl⟩ := exists_map_ok loadClass _ hall
  refine ⟨loaded.filter (fun s => !s.hidden), (loadSubSuites_ok_iff cs _).mpr ⟨loaded, hl, rfl, ?_⟩⟩
  have f2 := forall2_of_map_ok loadClass _ _ hl
  have f2g : Forall₂ (fun c s => Good c s) (discoverClasses cs) loaded :=
    f2.imp (fun c s hcs => (ih c (mem_discover.mp hcs.1)).1 s hcs.2)
  have f2v : Forall₂ (fun c s => Good c s) (visibleClasses cs) (loaded.filter (fun s => !s.hidden)) := by
    unfold visibleClasses
    refine forall2_filter f2g ?_
    intro c s g
    simp [Suite.hidden, g.head, clsSuiteHead]
  rw [nodupB_iff] at hn hd
  refine ⟨?_, ?_⟩
  · rw [forall2_map_eq f2v (g := Suite.name) (h := fun c => c.head.suiteName)
      (fun c s g => by simp [Suite.name, g.head, clsSuiteHead])]
    exact hn
  · rw [forall2_map_eq f2v (g := Suite.desc) (h := fun c => c.head.suiteDesc)
      (fun c s g => by simp [Suite.desc, g.head, clsSuiteHead])]
    exact hd

/-- Necessity direction for one body. -/
theorem loadSubSuites_accepts (cs : List Cls) (ss : List Suite)
    (ih : ∀ c ∈ cs, (∀ s, loadClass c = .ok s → Good c s) ∧ ((∃ s, loadClass c = .ok s) ↔ acceptsCls c = true))
    (h : loadSubSuites (loadClassList cs) = .ok ss) :
    acceptsClsList cs = true ∧
    nodupB ((visibleClasses cs).map (fun c => c.head.suiteName)) = true ∧
    nodupB ((visibleClasses cs).map (fun c => c.head.suiteDesc)) = true := by
  obtain ⟨f2, _, hex, hno⟩ := loadSubSuites_spec cs ss h (fun c hc => (ih c hc).1)
  have f2g : Forall₂ (fun c s => Good c s) (visibleClasses cs) ss := by
    have hsub : ∀ c ∈ visibleClasses cs, c ∈ cs := fun c hc => mem_discover.mp (List.mem_filter.mp hc).1
    have : Forall₂ (fun c s => c ∈ visibleClasses cs ∧ loadClass c = .ok s) (visibleClasses cs) ss :=
      forall2_of_map_ok loadClass _ _ (map_ok_of_forall2 loadClass _ _ f2)
    exact this.imp (fun c s hcs => (ih c (hsub c hcs.1)).1 s hcs.2)
  refine ⟨(acceptsClsList_iff cs).mpr (fun c hc => (ih c hc).2.mp (hex c hc)), ?_, ?_⟩
  · rw [nodupB_iff, ← forall2_map_eq f2g (g := Suite.name) (h := fun c => c.head.suiteName)
      (fun c s g => by simp [Suite.name, g.head, clsSuiteHead])]
    exact hno.1
  · rw [nodupB_iff, ← forall2_map_eq f2g (g := Suite.desc) (h := fun c => c.head.suiteDesc)
      (fun c s g => by simp [Suite.desc, g.head, clsSuiteHead])]
    exact hno.2

/-- **`load_suite_from_class`, for every class**: what a successful load returns, and exactly when
    it succeeds. -/
theorem loadClass_spec : ∀ c : Cls,
    (∀ s, loadClass c = .ok s → Good c s) ∧ ((∃ s, loadClass c = .ok s) ↔ acceptsCls c = true) := by
  apply Cls.ind
  intro h tests subs ih
  refine ⟨?_, ?_, ?_⟩
  · intro s hs
    unfold loadClass at hs
    cases hc : h.ctorFails
    · simp only [hc, Bool.false_eq_true, if_false] at hs
      cases ht : loadTests tests with
      | error e => simp [ht] at hs
      | ok ts =>
        cases hsub : loadSubSuites (loadClassList subs) with
        | error e => simp [ht, hsub] at hs
        | ok ss =>
          simp only [ht, hsub, Except.ok.injEq] at hs
          subst hs
          obtain ⟨f2, hb, _, _⟩ := loadSubSuites_spec subs ss hsub (fun c hc => (ih c hc).1)
          exact ⟨rfl, ((loadTests_ok_iff tests ts).mp ht).2, f2, hb⟩
    · simp [hc] at hs
  · rintro ⟨s, hs⟩
    unfold loadClass at hs
    cases hc : h.ctorFails
    · simp only [hc, Bool.false_eq_true, if_false] at hs
      cases ht : loadTests tests with
      | error e => simp [ht] at hs
      | ok ts =>
        cases hsub : loadSubSuites (loadClassList subs) with
        | error e => simp [ht, hsub] at hs
        | ok ss =>
          obtain ⟨h1, h2, h3⟩ := loadSubSuites_accepts subs ss ih hsub
          simp [acceptsCls, hc, ((loadTests_ok_iff tests ts).mp ht).1, h1, h2, h3]
    · simp [hc] at hs
  · intro hacc
    simp only [acceptsCls, Bool.and_eq_true, Bool.not_eq_true'] at hacc
    obtain ⟨⟨⟨⟨hc, ht⟩, hl⟩, hn⟩, hd⟩ := hacc
    obtain ⟨ss, hss⟩ := loadSubSuites_exists subs ih hl hn hd
    have htl := (loadTests_ok_iff tests (declTests tests)).mpr ⟨ht, rfl⟩
    exact ⟨.mk (clsSuiteHead h) (declTests tests) ss, by simp [loadClass, hc, htl, hss, clsSuiteHead]⟩

end LccModel.Loader

/-
  Helper lemmas about M7 (`Model/Deps.lean`).  Core Lean only.
-/
import LccModel.Model.Deps
import LccModel.Lemmas.Loops

namespace LccModel.Deps
open LccModel.Loops

/-- the loop body of `_resolve_test_dependencies` -/
def step (sched all : List T) (fuel : Nat) (t : T) (ref : List String)
    (acc : List String) (it : Except Err T) : Except Err (List String) :=
  match it with
  | .error e => .error e
  | .ok d =>
    if d.path ∈ t.path :: ref then .error (.circular t.path d.path)
    else if d.path ∉ paths sched then .error (.notScheduled t.path d.path)
    else match resolveT sched all fuel d (t.path :: ref) with
      | .error e => .error e
      | .ok _ => .ok (acc ++ [d.path])

theorem resolveT_succ (sched all : List T) (fuel : Nat) (t : T) (ref : List String) :
    resolveT sched all (fuel + 1) t ref = foldE (step sched all fuel t ref) (items all t) [] := rfl

theorem find_path {all : List T} {p : String} {u : T} (h : find all p = some u) : u.path = p := by
  have := List.find?_some h
  simpa using this

theorem find_mem {all : List T} {p : String} {u : T} (h : find all p = some u) : u ∈ all :=
  List.mem_of_find?_eq_some h

theorem find_isSome_iff {all : List T} {p : String} : (find all p).isSome = true ↔ p ∈ paths all := by
  unfold find paths
  rw [List.find?_isSome]
  simp

/-- the tests the generator yields are tests of the project, and never the depending test itself
    when they come from a callable -/
theorem mem_items_ok {all : List T} {t d : T} (h : Except.ok d ∈ items all t) : d ∈ all := by
  unfold items at h
  rw [List.mem_flatMap] at h
  obtain ⟨dep, _, h⟩ := h
  cases dep with
  | path p =>
    simp only at h
    cases hf : find all p with
    | none => simp [hf] at h
    | some u =>
      simp only [hf, List.mem_singleton] at h
      injection h with h; subst h; exact find_mem hf
  | pred sel =>
    simp only [List.mem_map] at h
    obtain ⟨u, hu, e⟩ := h
    injection e with e; subst e
    exact (List.mem_filter.mp hu).1

theorem mem_items_error {all : List T} {t : T} {e : Err} (h : Except.error e ∈ items all t) :
    ∃ p, e = .unknown t.path p ∧ Dep.path p ∈ t.deps ∧ find all p = none := by
  unfold items at h
  rw [List.mem_flatMap] at h
  obtain ⟨dep, hdep, h⟩ := h
  cases dep with
  | path p =>
    simp only at h
    cases hf : find all p with
    | none =>
      simp only [hf, List.mem_singleton] at h
      injection h with h
      exact ⟨p, h, hdep, hf⟩
    | some u => simp [hf] at h
  | pred sel =>
    simp only [List.mem_map] at h
    obtain ⟨u, _, e⟩ := h
    cases e

/-- `TPath all a b`: `b` is reachable from `a` through at least one resolved dependency -/
inductive TPath (all : List T) : T → T → Prop where
  | edge {a b : T} : Except.ok b ∈ items all a → TPath all a b
  | cons {a b c : T} : Except.ok b ∈ items all a → TPath all b c → TPath all a c

theorem TPath.snoc {all : List T} {a b c : T} (h : TPath all a b) (hc : Except.ok c ∈ items all b) :
    TPath all a c := by
  induction h with
  | edge h => exact .cons h (.edge hc)
  | cons h _ ih => exact .cons h (ih hc)

theorem resolveT_ok_inv {sched all : List T} {fuel : Nat} {t : T} {ref l : List String}
    (h : resolveT sched all (fuel + 1) t ref = .ok l) :
    ∀ it ∈ items all t, ∃ d, it = .ok d ∧ d.path ∉ t.path :: ref ∧ d.path ∈ paths sched ∧
      ∃ l', resolveT sched all fuel d (t.path :: ref) = .ok l' := by
  rw [resolveT_succ] at h
  intro it hit
  obtain ⟨b₁, b₂, hs⟩ := foldE_ok_steps _ _ _ h it hit
  unfold step at hs
  cases it with
  | error e => simp at hs
  | ok d =>
    simp only at hs
    split at hs
    · cases hs
    · rename_i h1
      split at hs
      · cases hs
      · rename_i h2
        cases hr : resolveT sched all fuel d (t.path :: ref) with
        | error e => simp [hr] at hs
        | ok l' => exact ⟨d, rfl, h1, by simpa using h2, l', hr⟩

/-- a successful call never has a dependency path back into its reference chain (itself included) -/
theorem resolveT_ok_no_path_to_ref {sched all : List T} {m x : T} (hp : TPath all m x) :
    ∀ (fuel : Nat) (ref l : List String), resolveT sched all fuel m ref = .ok l → x.path ∉ m.path :: ref := by
  induction hp with
  | @edge a b hb =>
    intro fuel ref l h
    cases fuel with
    | zero => simp [resolveT] at h
    | succ fuel =>
      obtain ⟨d, e, hno, _, _⟩ := resolveT_ok_inv h _ hb
      injection e with e; subst e; exact hno
  | @cons a b c hb _ ih =>
    intro fuel ref l h
    cases fuel with
    | zero => simp [resolveT] at h
    | succ fuel =>
      obtain ⟨d, e, _, _, l', hl'⟩ := resolveT_ok_inv h _ hb
      injection e with e; subst e
      have := ih fuel (a.path :: ref) l' hl'
      intro hc
      exact this (List.mem_cons_of_mem _ hc)

/-! ### termination -/

theorem length_le_of_nodup_subset : ∀ (l L : List String), l.Nodup → (∀ x ∈ l, x ∈ L) → l.length ≤ L.length := by
  intro l
  induction l with
  | nil => intro L _ _; simp
  | cons a t ih =>
    intro L hnd hsub
    rw [List.nodup_cons] at hnd
    have haL : a ∈ L := hsub a (by simp)
    have := ih (L.erase a) hnd.2 (fun x hx => by
      have hne : x ≠ a := by intro e; subst e; exact hnd.1 hx
      exact (List.mem_erase_of_ne hne).mpr (hsub x (by simp [hx])))
    rw [List.length_erase_of_mem haL] at this
    have hpos : 0 < L.length := List.length_pos_of_mem haL
    simp only [List.length_cons]
    omega

/-- The model never runs out of fuel, on ANY input (cyclic graphs included): the chain of callers is
    duplicate-free because the circular-dependency test runs before every recursive call. -/
theorem resolveT_not_outOfFuel (sched all : List T) (root : String) :
    ∀ (fuel : Nat) (t : T) (ref : List String),
      (t.path :: ref).Nodup → (∀ r ∈ t.path :: ref, r ∈ root :: paths all) →
      all.length + 2 ≤ fuel + ref.length →
      resolveT sched all fuel t ref ≠ .error .outOfFuel := by
  intro fuel
  induction fuel with
  | zero =>
    intro t ref hnd hsub hlen
    have := length_le_of_nodup_subset _ _ hnd hsub
    simp [paths] at this
    omega
  | succ fuel ih =>
    intro t ref hnd hsub hlen h
    rw [resolveT_succ] at h
    obtain ⟨acc, it, hit, hs⟩ := foldE_error _ _ _ h
    unfold step at hs
    cases it with
    | error e =>
      simp only at hs
      injection hs with hs; subst hs
      obtain ⟨p, hp, _⟩ := mem_items_error hit
      cases hp
    | ok d =>
      simp only at hs
      split at hs
      · cases hs
      · rename_i h1
        split at hs
        · cases hs
        · cases hr : resolveT sched all fuel d (t.path :: ref) with
          | ok l' => simp [hr] at hs
          | error e =>
            simp only [hr] at hs
            injection hs with hs; subst hs
            refine ih d (t.path :: ref) ?_ ?_ ?_ hr
            · exact List.nodup_cons.mpr ⟨h1, hnd⟩
            · intro r hr'
              rcases List.mem_cons.mp hr' with rfl | hr'
              · exact List.mem_cons_of_mem _ (List.mem_map_of_mem (mem_items_ok hit))
              · exact hsub r hr'
            · simp only [List.length_cons]; omega

/-! ### what an error means -/

/-- the project's tests have distinct paths and the scheduled tests are among them -/
structure WF (sched all : List T) : Prop where
  nodup : (paths all).Nodup
  sub : ∀ t ∈ sched, t ∈ all

theorem eq_of_path_eq {all : List T} (hnd : (paths all).Nodup) {a b : T} (ha : a ∈ all) (hb : b ∈ all)
    (h : a.path = b.path) : a = b := by
  unfold paths at hnd
  induction all with
  | nil => cases ha
  | cons c rest ih =>
    simp only [List.map_cons, List.nodup_cons] at hnd
    rcases List.mem_cons.mp ha with ea | ha <;> rcases List.mem_cons.mp hb with eb | hb
    · rw [ea, eb]
    · exfalso; apply hnd.1; rw [← ea, h]; exact List.mem_map_of_mem hb
    · exfalso; apply hnd.1; rw [← eb, ← h]; exact List.mem_map_of_mem ha
    · exact ih hnd.2 ha hb

theorem mem_sched_of_path {sched all : List T} (wf : WF sched all) {d : T} (hd : d ∈ all)
    (hp : d.path ∈ paths sched) : d ∈ sched := by
  unfold paths at hp
  obtain ⟨s, hs, e⟩ := List.mem_map.mp hp
  have := eq_of_path_eq wf.nodup (wf.sub s hs) hd e
  subst this; exact hs

/-- Every error of a call on a scheduled test whose reference chain is a chain of callers is either
    the fuel bound, or witnessed by a real defect of the dependency graph of the scheduled tests. -/
theorem resolveT_error_cases (sched all : List T) (wf : WF sched all) :
    ∀ (fuel : Nat) (t : T) (ref : List String) (e : Err),
      t ∈ sched → (∀ r ∈ ref, ∃ a ∈ sched, a.path = r ∧ TPath all a t) →
      resolveT sched all fuel t ref = .error e →
      e = .outOfFuel ∨
      (∃ (a : T) (p : String), e = .unknown a.path p ∧ a ∈ sched ∧ Dep.path p ∈ a.deps ∧ find all p = none) ∨
      (∃ (a d : T), e = .circular a.path d.path ∧ ∃ x ∈ sched, ∃ y, TPath all x y ∧ y.path = x.path) ∨
      (∃ (a d : T), e = .notScheduled a.path d.path ∧ a ∈ sched ∧ Except.ok d ∈ items all a ∧ d.path ∉ paths sched) := by
  intro fuel
  induction fuel with
  | zero => intro t ref e _ _ h; simp [resolveT] at h; exact .inl h.symm
  | succ fuel ih =>
    intro t ref e ht hchain h
    rw [resolveT_succ] at h
    obtain ⟨acc, it, hit, hs⟩ := foldE_error _ _ _ h
    unfold step at hs
    cases it with
    | error e' =>
      simp only at hs
      injection hs with hs; subst hs
      obtain ⟨p, hp, hdep, hf⟩ := mem_items_error hit
      exact .inr (.inl ⟨t, p, hp, ht, hdep, hf⟩)
    | ok d =>
      simp only at hs
      split at hs
      · rename_i h1
        injection hs with hs; subst hs
        refine .inr (.inr (.inl ⟨t, d, rfl, ?_⟩))
        rcases List.mem_cons.mp h1 with h1 | h1
        · exact ⟨t, ht, d, .edge hit, h1⟩
        · obtain ⟨a, ha, hpa, hpath⟩ := hchain _ h1
          exact ⟨a, ha, d, hpath.snoc hit, hpa.symm⟩
      · rename_i h1
        split at hs
        · rename_i h2
          injection hs with hs; subst hs
          exact .inr (.inr (.inr ⟨t, d, rfl, ht, hit, h2⟩))
        · rename_i h2
          cases hr : resolveT sched all fuel d (t.path :: ref) with
          | ok l' => simp [hr] at hs
          | error e' =>
            simp only [hr] at hs
            injection hs with hs; subst hs
            have hd : d ∈ sched := mem_sched_of_path wf (mem_items_ok hit) (by simpa using h2)
            refine ih d (t.path :: ref) _ hd ?_ hr
            intro r hr'
            rcases List.mem_cons.mp hr' with rfl | hr'
            · exact ⟨t, ht, rfl, .edge hit⟩
            · obtain ⟨a, ha, hpa, hpath⟩ := hchain r hr'
              exact ⟨a, ha, hpa, hpath.snoc hit⟩

/-! ### what a successful resolution returns -/

/-- the paths of the tests the generator yields (unknown paths dropped) -/
def targets (all : List T) (t : T) : List String :=
  (items all t).filterMap (fun it => match it with | .ok d => some d.path | .error _ => none)

theorem foldE_step_ok_eq {sched all : List T} {fuel : Nat} {t : T} {ref : List String} :
    ∀ (its : List (Except Err T)) (acc l : List String),
      foldE (step sched all fuel t ref) its acc = .ok l →
      l = acc ++ its.filterMap (fun it => match it with | .ok d => some d.path | .error _ => none) := by
  intro its
  induction its with
  | nil => intro acc l h; simp [foldE] at h; simp [h]
  | cons it its ih =>
    intro acc l h
    unfold foldE at h
    cases hs : step sched all fuel t ref acc it with
    | error e => rw [hs] at h; cases h
    | ok acc' =>
      rw [hs] at h
      have := ih acc' l h
      unfold step at hs
      cases it with
      | error e => simp at hs
      | ok d =>
        simp only at hs
        split at hs
        · cases hs
        · split at hs
          · cases hs
          · cases hr : resolveT sched all fuel d (t.path :: ref) with
            | error e => simp [hr] at hs
            | ok l' =>
              simp only [hr] at hs
              injection hs with hs; subst hs
              simp [this]

/-- `resolved_dependencies` of an accepted test = everything its declared dependencies denote, in order -/
theorem resolveT_ok_eq {sched all : List T} {fuel : Nat} {t : T} {ref l : List String}
    (h : resolveT sched all fuel t ref = .ok l) : l = targets all t := by
  cases fuel with
  | zero => simp [resolveT] at h
  | succ fuel =>
    rw [resolveT_succ] at h
    simpa [targets] using foldE_step_ok_eq _ _ _ h

/-! ### declarative specification and the completeness of `resolve_tests_dependencies` -/

/-- what the declarations `@lcc.depends_on(...)` of `t` denote: a test of the project named by path,
    or selected by a callable among the *other* tests -/
def DependsOn (all : List T) (t d : T) : Prop :=
  d ∈ all ∧ ((Dep.path d.path ∈ t.deps) ∨ (∃ sel, Dep.pred sel ∈ t.deps ∧ d.path ∈ sel ∧ d.path ≠ t.path))

theorem find_eq_some_iff {all : List T} (hnd : (paths all).Nodup) {p : String} {u : T} :
    find all p = some u ↔ u ∈ all ∧ u.path = p :=
  find_eq_some_iff_of_nodup T.path all hnd p u

theorem mem_items_ok_iff {all : List T} (hnd : (paths all).Nodup) {t d : T} :
    Except.ok d ∈ items all t ↔ DependsOn all t d := by
  unfold items DependsOn
  rw [List.mem_flatMap]
  constructor
  · rintro ⟨dep, hdep, h⟩
    cases dep with
    | path p =>
      simp only at h
      cases hf : find all p with
      | none => simp [hf] at h
      | some u =>
        simp only [hf, List.mem_singleton] at h
        injection h with h; subst h
        obtain ⟨hm, hp⟩ := (find_eq_some_iff hnd).mp hf
        exact ⟨hm, .inl (by rw [hp]; exact hdep)⟩
    | pred sel =>
      simp only [List.mem_map] at h
      obtain ⟨u, hu, e⟩ := h
      injection e with e; subst e
      obtain ⟨hm, hq⟩ := List.mem_filter.mp hu
      simp only [Bool.and_eq_true, decide_eq_true_eq] at hq
      exact ⟨hm, .inr ⟨sel, hdep, hq.2, hq.1⟩⟩
  · rintro ⟨hm, h | ⟨sel, hdep, hs, hne⟩⟩
    · refine ⟨_, h, ?_⟩
      simp only
      rw [(find_eq_some_iff hnd).mpr ⟨hm, rfl⟩]
      simp
    · refine ⟨_, hdep, ?_⟩
      simp only [List.mem_map]
      exact ⟨d, List.mem_filter.mpr ⟨hm, by simp [hs, hne]⟩, rfl⟩

theorem path_dep_item {all : List T} {t : T} {p : String} (h : Dep.path p ∈ t.deps) :
    (∃ u, find all p = some u ∧ Except.ok u ∈ items all t) ∨
    (find all p = none ∧ Except.error (Err.unknown t.path p) ∈ items all t) := by
  unfold items
  cases hf : find all p with
  | none =>
    refine .inr ⟨rfl, ?_⟩
    rw [List.mem_flatMap]
    exact ⟨_, h, by simp [hf]⟩
  | some u =>
    refine .inl ⟨u, rfl, ?_⟩
    rw [List.mem_flatMap]
    exact ⟨_, h, by simp [hf]⟩

/-- every path dependency of a scheduled test names a test of the project -/
def Known (sched all : List T) : Prop := ∀ t ∈ sched, ∀ p, Dep.path p ∈ t.deps → p ∈ paths all
/-- everything a scheduled test depends on is itself scheduled -/
def AllScheduled (sched all : List T) : Prop := ∀ t ∈ sched, ∀ d, Except.ok d ∈ items all t → d.path ∈ paths sched
/-- no scheduled test reaches itself through dependencies -/
def Acyclic (sched all : List T) : Prop := ∀ t ∈ sched, ∀ y, TPath all t y → y.path ≠ t.path

theorem resolve_ok_iff' (sched all : List T) :
    (∃ r, resolve sched all = .ok r) ↔ ∀ t ∈ sched, ∃ l, resolveT sched all (fuelFor all) t [] = .ok l := by
  unfold resolve
  constructor
  · rintro ⟨r, h⟩ t ht
    obtain ⟨b₁, b₂, hs⟩ := foldE_ok_steps _ _ _ h t ht
    cases hr : resolveT sched all (fuelFor all) t [] with
    | error e => simp [hr] at hs
    | ok l => exact ⟨l, rfl⟩
  · intro h
    apply foldE_ok_of_steps
    intro b t ht
    obtain ⟨l, hl⟩ := h t ht
    exact ⟨b ++ [(t.path, l)], by simp [hl]⟩

theorem resolveT_top_not_outOfFuel (sched all : List T) (t : T) :
    resolveT sched all (fuelFor all) t [] ≠ .error .outOfFuel := by
  apply resolveT_not_outOfFuel sched all t.path
  · simp
  · intro r hr; simp at hr; subst hr; simp
  · simp [fuelFor]

theorem resolve_ok_iff (sched all : List T) (wf : WF sched all) :
    (∃ r, resolve sched all = .ok r) ↔ Known sched all ∧ AllScheduled sched all ∧ Acyclic sched all := by
  rw [resolve_ok_iff']
  constructor
  · intro h
    refine ⟨?_, ?_, ?_⟩
    · intro t ht p hp
      obtain ⟨l, hl⟩ := h t ht
      unfold fuelFor at hl
      rcases path_dep_item (all := all) hp with ⟨u, hf, _⟩ | ⟨_, hitem⟩
      · exact find_isSome_iff.mp (by simp [hf])
      · obtain ⟨d, e, _⟩ := resolveT_ok_inv hl _ hitem
        cases e
    · intro t ht d hd
      obtain ⟨l, hl⟩ := h t ht
      unfold fuelFor at hl
      obtain ⟨d', e, _, hs, _⟩ := resolveT_ok_inv hl _ hd
      injection e with e; subst e; exact hs
    · intro t ht y hp
      obtain ⟨l, hl⟩ := h t ht
      have := resolveT_ok_no_path_to_ref hp _ _ _ hl
      simpa using this
  · rintro ⟨hk, hs, hac⟩ t ht
    cases hr : resolveT sched all (fuelFor all) t [] with
    | ok l => exact ⟨l, rfl⟩
    | error e =>
      exfalso
      rcases resolveT_error_cases sched all wf _ t [] e ht (by simp) hr with h | ⟨a, p, _, ha, hp, hf⟩ |
          ⟨_, _, _, x, hx, y, hp, hy⟩ | ⟨a, d, _, ha, hd, hns⟩
      · subst h; exact resolveT_top_not_outOfFuel sched all t hr
      · have := find_isSome_iff.mpr (hk a ha p hp)
        rw [hf] at this; cases this
      · exact hac x hx y hp hy
      · exact hns (hs a ha d hd)

theorem resolve_not_outOfFuel (sched all : List T) : resolve sched all ≠ .error .outOfFuel := by
  intro h
  unfold resolve at h
  obtain ⟨b, t, _, hs⟩ := foldE_error _ _ _ h
  cases hr : resolveT sched all (fuelFor all) t [] with
  | ok l => simp [hr] at hs
  | error e =>
    simp only [hr] at hs
    injection hs with hs; subst hs
    exact resolveT_top_not_outOfFuel sched all t hr

/-- the value of `resolved_dependencies` for every scheduled test of an accepted project -/
theorem resolve_ok_eq (sched all : List T) : ∀ {r}, resolve sched all = .ok r →
    r = sched.map (fun t => (t.path, targets all t)) := by
  unfold resolve
  suffices ∀ (l : List T) (acc r : List (String × List String)),
      foldE (fun acc t => match resolveT sched all (fuelFor all) t [] with
        | .error e => .error e
        | .ok r => .ok (acc ++ [(t.path, r)])) l acc = .ok r →
      r = acc ++ l.map (fun t => (t.path, targets all t)) by
    intro r h; simpa using this sched [] r h
  intro l
  induction l with
  | nil => intro acc r h; simp [foldE] at h; simp [h]
  | cons t rest ih =>
    intro acc r h
    unfold foldE at h
    cases hr : resolveT sched all (fuelFor all) t [] with
    | error e => simp [hr] at h
    | ok l' =>
      simp only [hr] at h
      have := ih _ r h
      rw [this, resolveT_ok_eq hr]
      simp


end LccModel.Deps

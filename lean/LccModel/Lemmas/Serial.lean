/-
  Lemmas for C09: the JSON and XML serialize / unserialize pairs of `Model/Serial.lean` are inverse to
  each other, component by component.
-/
import LccModel.Model.Serial
import LccModel.Lemmas.Sort
set_option linter.unusedSimpArgs false
set_option linter.unusedVariables false

namespace LccModel.Serial
open LccModel.Report LccModel.Writer

theorem mapExcept_map {α β γ ε : Type} (f : α → β) (g : β → Except ε γ) (h : α → γ) :
    ∀ l : List α, (∀ x ∈ l, g (f x) = .ok (h x)) → mapExcept g (l.map f) = .ok (l.map h)
  | [], _ => rfl
  | x :: xs, hx => by
    have h1 := hx x (by simp)
    have h2 := mapExcept_map f g h xs (fun y hy => hx y (by simp [hy]))
    simp [mapExcept, h1, h2]

theorem mapExcept_map_id {α β ε : Type} (f : α → β) (g : β → Except ε α) (l : List α)
    (h : ∀ x ∈ l, g (f x) = .ok x) : mapExcept g (l.map f) = .ok l := by
  have := mapExcept_map f g id l (by simpa using h)
  simpa using this

@[simp] theorem parseLevel_levelName (l : LogLevel) : parseLevel (levelName l) = .ok l := by cases l <;> rfl
@[simp] theorem parseStatus_statusName (s : Status) : parseStatus (statusName s) = .ok s := by cases s <;> rfl
@[simp] theorem asOptStr_jOptStr (o : Option String) : asOptStr (jOptStr o) = .ok o := by cases o <;> rfl
@[simp] theorem asTime_jTime (o : Option Time) : asTime (jTime o) = .ok o := by cases o <;> rfl
@[simp] theorem asStatus_jStatus (o : Option Status) : asStatus (jStatus o) = .ok o := by
  cases o with
  | none => rfl
  | some s => simp [jStatus, asStatus]

theorem entry_rt (e : Entry) : fromJsonEntry (toJsonEntry e) = .ok e := by
  cases e <;> simp [fromJsonEntry, toJsonEntry, JVal.get, lookupKey, asStr, asBool, asReqTime, bind, Except.bind, pure, Except.pure]

theorem step_rt (s : Step) : fromJsonStep (toJsonStep s) = .ok s := by
  simp [fromJsonStep, toJsonStep, JVal.get, lookupKey, asStr, asArr, bind, Except.bind, pure, Except.pure,
    mapExcept_map_id toJsonEntry fromJsonEntry s.entries (fun e _ => entry_rt e)]


theorem result_of_lookups (r : Result) (kvs : List (String × JVal))
    (h1 : lookupKey "status" kvs = some (jStatus r.status))
    (h2 : lookupKey "status_details" kvs = some (jOptStr r.statusDetails))
    (h3 : lookupKey "start_time" kvs = some (jTime r.startTime))
    (h4 : lookupKey "end_time" kvs = some (jTime r.endTime))
    (h5 : lookupKey "steps" kvs = some (.arr (r.steps.map toJsonStep))) :
    fromJsonResult (.obj kvs) = .ok r := by
  simp [fromJsonResult, JVal.get, JVal.get?, h1, h2, h3, h4, h5, asArr, bind, Except.bind, pure, Except.pure,
    mapExcept_map_id toJsonStep fromJsonStep r.steps (fun e _ => step_rt e)]

theorem result_rt (r : Result) : fromJsonResult (toJsonResult r) = .ok r := by
  apply result_of_lookups <;> simp [resultFields, lookupKey]

theorem props_rt (ps : List (String × String)) :
    mapExcept fromJsonProp (ps.map (fun (k, v) => (k, JVal.str v))) = .ok ps :=
  mapExcept_map_id _ _ ps (fun p _ => by cases p; simp [fromJsonProp, asStr])

theorem links_rt (ls : List (String × Option String)) :
    mapExcept fromJsonLink (ls.map (fun (u, n) => JVal.obj [("name", jOptStr n), ("url", .str u)])) = .ok ls :=
  mapExcept_map_id _ _ ls (fun p _ => by
    cases p; simp [fromJsonLink, JVal.get, lookupKey, asStr, bind, Except.bind, pure, Except.pure])

theorem tags_rt (ts : List String) : mapExcept asStr (ts.map JVal.str) = .ok ts :=
  mapExcept_map_id _ _ ts (fun _ _ => rfl)

theorem meta_of_lookups (m : Meta) (kvs : List (String × JVal))
    (h1 : lookupKey "name" kvs = some (.str m.name))
    (h2 : lookupKey "description" kvs = some (.str m.description))
    (h3 : lookupKey "tags" kvs = some (.arr (m.tags.map .str)))
    (h4 : lookupKey "properties" kvs = some (.obj (m.properties.map (fun (k, v) => (k, .str v)))))
    (h5 : lookupKey "links" kvs = some (.arr (m.links.map (fun (u, n) => .obj [("name", jOptStr n), ("url", .str u)])))) :
    fromJsonMeta (.obj kvs) = .ok (zeroRank m) := by
  simp [fromJsonMeta, JVal.get, h1, h2, h3, h4, h5, asArr, asStr, asObj, bind, Except.bind, pure, Except.pure,
    props_rt, links_rt, tags_rt, zeroRank]

theorem test_rt (t : TestResult) : fromJsonTest (toJsonTest t) = .ok (clearTest t) := by
  have hm : fromJsonMeta (toJsonTest t) = .ok (zeroRank t.md) := by
    apply meta_of_lookups <;> simp [resultFields, metaFields, lookupKey]
  have hr : fromJsonResult (toJsonTest t) = .ok t.result := by
    apply result_of_lookups <;> simp [resultFields, metaFields, lookupKey]
  simp [fromJsonTest, hm, hr, bind, Except.bind, pure, Except.pure, clearTest]

/-! ### representability -/

theorem distinctNames_iff : ∀ names : List String, distinctNames names = true ↔ names.Nodup
  | [] => by simp [distinctNames]
  | n :: rest => by
    simp [distinctNames, distinctNames_iff rest, List.nodup_cons]

theorem dictFromList_of_distinct {α : Type} (key : α → String) (xs : List α)
    (h : distinctNames (xs.map key) = true) : dictFromList key xs = xs := by
  have := foldl_dictSet key xs [] (by simpa using (distinctNames_iff _).mp h)
  simpa [dictFromList] using this

theorem suitesRepr_iff : ∀ ss : List SuiteResult, suitesRepr ss = true ↔ ∀ s ∈ ss, suiteRepr s = true
  | [] => by simp [suitesRepr]
  | s :: ss => by simp [suitesRepr, suitesRepr_iff ss]

theorem distinctNames_perm {l l' : List String} (h : l.Perm l') : distinctNames l = true → distinctNames l' = true := by
  rw [distinctNames_iff, distinctNames_iff]
  exact h.nodup_iff.mp

mutual
theorem suiteRepr_sortDeep : ∀ s : SuiteResult, suiteRepr s = true → suiteRepr (sortDeep s) = true
  | .mk md st en su td ts ss => by
    intro h
    simp only [suiteRepr, Bool.and_eq_true] at h
    obtain ⟨⟨⟨h1, h2⟩, h3⟩, h4⟩ := h
    simp only [sortDeep, suiteRepr, Bool.and_eq_true]
    refine ⟨⟨⟨h1, ?_⟩, ?_⟩, ?_⟩
    · exact distinctNames_perm ((sortByRank_perm testRank ts).map testName).symm h2
    · rw [all_sortByRank]; exact h3
    · rw [suitesRepr_iff]
      intro s hs
      rw [mem_sortByRank] at hs
      exact (suitesRepr_iff _).mp (suitesRepr_sortDeepList ss h4) s hs
theorem suitesRepr_sortDeepList : ∀ ss : List SuiteResult, suitesRepr ss = true → suitesRepr (sortDeepList ss) = true
  | [] => by simp [sortDeepList]
  | s :: ss => by
    intro h
    simp only [suitesRepr, Bool.and_eq_true] at h
    simp only [sortDeepList, suitesRepr, Bool.and_eq_true]
    exact ⟨suiteRepr_sortDeep s h.1, suitesRepr_sortDeepList ss h.2⟩
end

theorem suitesRepr_view (r : Report) (h : representable r = true) : suitesRepr (view r) = true := by
  rw [suitesRepr_iff]
  intro s hs
  unfold view at hs
  rw [mem_sortByRank] at hs
  exact (suitesRepr_iff _).mp (suitesRepr_sortDeepList r.suites h) s hs

/-! ### JSON: suites and the report -/

mutual
def suiteDepth : SuiteResult → Nat
  | .mk _ _ _ _ _ _ ss => suiteDepthList ss + 1
def suiteDepthList : List SuiteResult → Nat
  | [] => 0
  | s :: ss => max (suiteDepth s) (suiteDepthList ss)
end

theorem depthKvs_ge : ∀ (kvs : List (String × JVal)) (k : String) (v : JVal), (k, v) ∈ kvs → v.depth ≤ depthKvs kvs
  | [], _, _, h => by simp at h
  | (k', v') :: r, k, v, h => by
    simp only [depthKvs]
    rcases List.mem_cons.mp h with h | h
    · cases h; omega
    · have := depthKvs_ge r k v h; omega

mutual
theorem suiteDepth_le : ∀ s : SuiteResult, suiteDepth s ≤ (toJsonSuite s).depth
  | .mk md st en su td ts ss => by
    have h1 := suiteDepthList_le ss
    have h2 := depthKvs_ge
      ([("start_time", jTime st), ("end_time", jTime en), ("tests", JVal.arr (ts.map toJsonTest)),
        ("suites", JVal.arr (toJsonSuites ss))] ++ metaFields md ++ optField "suite_setup" su ++ optField "suite_teardown" td)
      "suites" (.arr (toJsonSuites ss)) (by simp)
    simp only [suiteDepth, toJsonSuite, JVal.depth] at *
    omega
theorem suiteDepthList_le : ∀ ss : List SuiteResult, suiteDepthList ss ≤ depthList (toJsonSuites ss)
  | [] => by simp [suiteDepthList, toJsonSuites, depthList]
  | s :: ss => by
    have h1 := suiteDepth_le s
    have h2 := suiteDepthList_le ss
    simp only [suiteDepthList, toJsonSuites, depthList]
    omega
end

theorem optResult_rt (k : String) (kvs : List (String × JVal)) (o : Option Result)
    (h : lookupKey k kvs = o.map toJsonResult) : fromJsonOptResult k (.obj kvs) = .ok o := by
  cases o with
  | none => simp [fromJsonOptResult, JVal.get?, h]
  | some r => simp [fromJsonOptResult, JVal.get?, h, result_rt]

theorem mapExcept_tests (ts : List TestResult) : mapExcept fromJsonTest (ts.map toJsonTest) = .ok (ts.map clearTest) :=
  mapExcept_map _ _ _ ts (fun t _ => test_rt t)

mutual
theorem suite_rt : ∀ (s : SuiteResult) (fuel : Nat), suiteDepth s ≤ fuel → suiteRepr s = true →
    fromJsonSuite fuel (toJsonSuite s) = .ok (clearRanks s)
  | .mk md st en su td ts ss, fuel, hf, hr => by
    cases fuel with
    | zero => simp [suiteDepth] at hf
    | succ f =>
      simp only [suiteDepth] at hf
      simp only [suiteRepr, Bool.and_eq_true] at hr
      obtain ⟨⟨⟨_, hnames⟩, _⟩, hsub⟩ := hr
      have hm : fromJsonMeta (toJsonSuite (.mk md st en su td ts ss)) = .ok (zeroRank md) := by
        apply meta_of_lookups <;> simp [metaFields, lookupKey]
      have hsu : fromJsonOptResult "suite_setup" (toJsonSuite (.mk md st en su td ts ss)) = .ok su := by
        apply optResult_rt
        cases su <;> cases td <;> simp [metaFields, optField, lookupKey]
      have htd : fromJsonOptResult "suite_teardown" (toJsonSuite (.mk md st en su td ts ss)) = .ok td := by
        apply optResult_rt
        cases su <;> cases td <;> simp [metaFields, optField, lookupKey]
      have hss := suites_rt ss f (by omega) hsub
      have hd : dictFromList testName (ts.map clearTest) = ts.map clearTest := by
        apply dictFromList_of_distinct
        have : (ts.map clearTest).map testName = ts.map testName := by rw [List.map_map]; rfl
        rw [this]; exact hnames
      simp only [fromJsonSuite, hm, hsu, htd, bind, Except.bind, pure, Except.pure]
      simp [toJsonSuite, JVal.get, lookupKey, asArr, mapExcept_tests, hss, hd, clearRanks]
theorem suites_rt : ∀ (ss : List SuiteResult) (fuel : Nat), suiteDepthList ss ≤ fuel → suitesRepr ss = true →
    mapExcept (fromJsonSuite fuel) (toJsonSuites ss) = .ok (clearRanksList ss)
  | [], _, _, _ => rfl
  | s :: ss, fuel, hf, hr => by
    simp only [suiteDepthList] at hf
    simp only [suitesRepr, Bool.and_eq_true] at hr
    simp [toJsonSuites, mapExcept, suite_rt s fuel (by omega) hr.1, suites_rt ss fuel (by omega) hr.2, clearRanksList]
end

theorem info_rt (info : List (String × String)) :
    mapExcept fromJsonInfo (info.map (fun (n, v) => JVal.arr [.str n, .str v])) = .ok info :=
  mapExcept_map_id _ _ info (fun p _ => by cases p; simp [fromJsonInfo, asArr, asStr, bind, Except.bind, pure, Except.pure])

@[simp] theorem asStr_str (s : String) : asStr (.str s) = .ok s := rfl
@[simp] theorem asNat_num (n : Nat) : asNat (.num n) = .ok n := rfl
@[simp] theorem asArr_arr (xs : List JVal) : asArr (.arr xs) = .ok xs := rfl

theorem json_roundtrip_fuel (g : Time) (r : Report) (fuel : Nat) (hf : suiteDepthList (view r) ≤ fuel)
    (hr : representable r = true) : fromJsonFuel fuel (toJson g r) = .ok (loaded g r) := by
  have hsu : fromJsonOptResult "test_session_setup" (toJson g r) = .ok r.setup := by
    apply optResult_rt
    cases hs : r.setup <;> cases ht : r.teardown <;> simp [toJson, hs, ht, optField, lookupKey]
  have htd : fromJsonOptResult "test_session_teardown" (toJson g r) = .ok r.teardown := by
    apply optResult_rt
    cases hs : r.setup <;> cases ht : r.teardown <;> simp [toJson, hs, ht, optField, lookupKey]
  have hss := suites_rt (view r) fuel hf (suitesRepr_view r hr)
  have hsuites : (toJson g r).get "suites" = .ok (.arr (toJsonSuites (view r))) := by
    cases hs : r.setup <;> cases ht : r.teardown <;> simp [toJson, hs, ht, optField, JVal.get, lookupKey]
  simp only [fromJsonFuel, hsu, htd, hsuites, bind, Except.bind, pure, Except.pure]
  simp [toJson, JVal.get, JVal.get?, lookupKey, hss, info_rt, loaded]
  rfl

/-! ### XML: the text layer is the identity on clean documents -/

def valClean : XVal → Bool
  | .text s => attrOk s
  | .time _ => true
  | .num _ => true

mutual
def XmlClean : XElem → Bool
  | .mk _ attrs text cs => attrs.all (fun a => valClean a.2) && optTextOk text && XmlCleanList cs
def XmlCleanList : List XElem → Bool
  | [] => true
  | x :: xs => XmlClean x && XmlCleanList xs
end

theorem normEol_of_noCR : ∀ l : List Char, (∀ c ∈ l, c ≠ '\r') → normEol l = l
  | [], _ => rfl
  | c :: rest, h => by
    have hc : c ≠ '\r' := h c (by simp)
    have ih := normEol_of_noCR rest (fun d hd => h d (by simp [hd]))
    unfold normEol
    split
    · simp at *
    · simp_all
    · simp_all
    · rename_i heq; cases heq; rw [ih]

theorem normText_of_ok (s : String) (h : textOk s = true) : normText s = some s := by
  simp only [textOk, Bool.and_eq_true, List.all_eq_true] at h
  have hne : s.isEmpty = false := by simpa using h.1
  have hcr : ∀ c ∈ s.toList, c ≠ '\r' := by
    intro c hc; have := (h.2 c hc); simp at this; exact this.2
  simp [normText, hne, normEol_of_noCR _ hcr]

mutual
theorem normElem_of_clean : ∀ x : XElem, XmlClean x = true → normElem x = x
  | .mk tag attrs text cs, h => by
    simp only [XmlClean, Bool.and_eq_true] at h
    have hcs := normElems_of_clean cs h.2
    cases text with
    | none => simp [normElem, hcs]
    | some s => simp [normElem, hcs, normText_of_ok s (by simpa [optTextOk] using h.1.2)]
theorem normElems_of_clean : ∀ xs : List XElem, XmlCleanList xs = true → normElems xs = xs
  | [], _ => rfl
  | x :: xs, h => by
    simp only [XmlCleanList, Bool.and_eq_true] at h
    simp [normElems, normElem_of_clean x h.1, normElems_of_clean xs h.2]
end

mutual
theorem chars_of_clean : ∀ x : XElem, XmlClean x = true → ∀ c ∈ x.chars, charOk c = true
  | .mk tag attrs text cs, h => by
    simp only [XmlClean, Bool.and_eq_true, List.all_eq_true] at h
    intro c hc
    simp only [XElem.chars, List.mem_append, List.mem_flatMap] at hc
    rcases hc with (⟨a, ha, hca⟩ | hc) | hc
    · have := h.1.1 a ha
      cases hv : a.2 with
      | text s => rw [hv] at this hca; simp only [valClean, attrOk, List.all_eq_true] at this; exact this c (by simpa [valChars] using hca)
      | time t => rw [hv] at hca; simp [valChars] at hca
      | num t => rw [hv] at hca; simp [valChars] at hca
    · cases text with
      | none => simp at hc
      | some s =>
        have := h.1.2
        simp only [optTextOk, textOk, Bool.and_eq_true, List.all_eq_true] at this
        exact (this.2 c (by simpa using hc)).1
    · exact charsList_of_clean cs h.2 c hc
theorem charsList_of_clean : ∀ xs : List XElem, XmlCleanList xs = true → ∀ c ∈ charsList xs, charOk c = true
  | [], _ => by simp [charsList]
  | x :: xs, h => by
    simp only [XmlCleanList, Bool.and_eq_true] at h
    intro c hc
    simp only [charsList, List.mem_append] at hc
    rcases hc with hc | hc
    · exact chars_of_clean x h.1 c hc
    · exact charsList_of_clean xs h.2 c hc
end

/-- on a document without hostile text the XML text layer is the identity -/
theorem etNorm_of_clean (x : XElem) (h : XmlClean x = true) : etNorm x = .ok x := by
  have hc := chars_of_clean x h
  have h1 : x.chars.any isSurrogateCarrier = false := by
    rw [Bool.eq_false_iff]; intro hh
    obtain ⟨c, hc1, hc2⟩ := List.any_eq_true.mp hh
    have := hc c hc1; simp [charOk, hc2] at this
  have h2 : x.chars.any (fun c => !isXmlChar c) = false := by
    rw [Bool.eq_false_iff]; intro hh
    obtain ⟨c, hc1, hc2⟩ := List.any_eq_true.mp hh
    have := hc c hc1; simp [charOk] at this; simp [this.1] at hc2
  simp [etNorm, h1, h2, normElem_of_clean x h]


/-! ### XML: serialize then unserialize -/

theorem mapExcept_rt' {α β γ ε ε' : Type} (f : α → Except ε β) (g : β → Except ε' γ) (k : α → γ) (P : β → Prop) :
    ∀ l : List α, (∀ a ∈ l, ∃ b, f a = .ok b ∧ g b = .ok (k a) ∧ P b) →
      ∃ bs, mapExcept f l = .ok bs ∧ mapExcept g bs = .ok (l.map k) ∧ ∀ b ∈ bs, P b
  | [], _ => ⟨[], rfl, rfl, by simp⟩
  | a :: l, h => by
    obtain ⟨b, hb1, hb2, hb3⟩ := h a (by simp)
    obtain ⟨bs, h1, h2, h3⟩ := mapExcept_rt' f g k P l (fun x hx => h x (by simp [hx]))
    refine ⟨b :: bs, by simp [mapExcept, hb1, h1], by simp [mapExcept, hb2, h2], ?_⟩
    intro x hx
    rcases List.mem_cons.mp hx with rfl | hx
    · exact hb3
    · exact h3 x hx

theorem mapExcept_rt {α β ε ε' : Type} (f : α → Except ε β) (g : β → Except ε' α) (P : β → Prop) :
    ∀ l : List α, (∀ a ∈ l, ∃ b, f a = .ok b ∧ g b = .ok a ∧ P b) →
      ∃ bs, mapExcept f l = .ok bs ∧ mapExcept g bs = .ok l ∧ ∀ b ∈ bs, P b
  | [], _ => ⟨[], rfl, rfl, by simp⟩
  | a :: l, h => by
    obtain ⟨b, hb1, hb2, hb3⟩ := h a (by simp)
    obtain ⟨bs, h1, h2, h3⟩ := mapExcept_rt f g P l (fun x hx => h x (by simp [hx]))
    refine ⟨b :: bs, by simp [mapExcept, hb1, h1], by simp [mapExcept, hb2, h2], ?_⟩
    intro x hx
    rcases List.mem_cons.mp hx with rfl | hx
    · exact hb3
    · exact h3 x hx

theorem XmlCleanList_iff : ∀ xs : List XElem, XmlCleanList xs = true ↔ ∀ x ∈ xs, XmlClean x = true
  | [] => by simp [XmlCleanList]
  | x :: xs => by simp [XmlCleanList, XmlCleanList_iff xs]

theorem XmlCleanList_append (xs ys : List XElem) : XmlCleanList (xs ++ ys) = (XmlCleanList xs && XmlCleanList ys) := by
  induction xs with
  | nil => simp [XmlCleanList]
  | cons x xs ih => simp [XmlCleanList, ih, Bool.and_assoc]

theorem filter_tag_eq (t : String) (l : List XElem) (h : ∀ x ∈ l, x.tag = t) : l.filter (fun c => c.tag == t) = l := by
  rw [List.filter_eq_self]; intro x hx; simp [h x hx]

theorem filter_tag_ne (t : String) (l : List XElem) (h : ∀ x ∈ l, x.tag ≠ t) : l.filter (fun c => c.tag == t) = [] := by
  rw [List.filter_eq_nil_iff]; intro x hx; simp [h x hx]

theorem find_tag_ne (t : String) (l l' : List XElem) (h : ∀ x ∈ l, x.tag ≠ t) :
    (l ++ l').find? (fun c => c.tag == t) = l'.find? (fun c => c.tag == t) := by
  induction l with
  | nil => rfl
  | cons x xs ih =>
    have hx : (x.tag == t) = false := by simpa using h x (by simp)
    simp [List.find?, hx, ih (fun y hy => h y (by simp [hy]))]

@[simp] theorem parseBool_boolText (b : Bool) : parseBool (if b then "true" else "false") = .ok b := by cases b <;> rfl

theorem xentry_rt (e : Entry) (h : entrySafe e = true) :
    XmlClean (toXmlEntry e) = true ∧ fromXmlEntry (toXmlEntry e) = .ok e ∧ (toXmlEntry e).tag ∈ ["log", "attachment", "url", "check"] := by
  cases e with
  | log level msg t =>
    simp only [entrySafe] at h
    refine ⟨by simp [toXmlEntry, leaf, XmlClean, XmlCleanList, valClean, optTextOk, h, attrOk, levelName]; cases level <;> decide, ?_, by simp [toXmlEntry, leaf, XElem.tag]⟩
    simp [fromXmlEntry, toXmlEntry, leaf, XElem.tag, attrText, attrTime, attr?, XElem.attrs, List.lookup, reqText, XElem.text,
      bind, Except.bind, pure, Except.pure]
  | check d ok det t =>
    simp only [entrySafe, Bool.and_eq_true] at h
    refine ⟨by simp [toXmlEntry, leaf, XmlClean, XmlCleanList, valClean, h, boolText]; cases ok <;> decide, ?_, by simp [toXmlEntry, leaf, XElem.tag]⟩
    simp [fromXmlEntry, toXmlEntry, leaf, XElem.tag, attrText, attrTime, attr?, XElem.attrs, List.lookup, XElem.text, boolText,
      bind, Except.bind, pure, Except.pure]
  | attachment d f img t =>
    simp only [entrySafe, Bool.and_eq_true] at h
    refine ⟨by simp [toXmlEntry, leaf, XmlClean, XmlCleanList, valClean, optTextOk, h, boolText]; cases img <;> decide, ?_, by simp [toXmlEntry, leaf, XElem.tag]⟩
    simp [fromXmlEntry, toXmlEntry, leaf, XElem.tag, attrText, attrTime, attr?, XElem.attrs, List.lookup, reqText, XElem.text, boolText,
      bind, Except.bind, pure, Except.pure]
  | url d u t =>
    simp only [entrySafe, Bool.and_eq_true] at h
    refine ⟨by simp [toXmlEntry, leaf, XmlClean, XmlCleanList, valClean, optTextOk, h], ?_, by simp [toXmlEntry, leaf, XElem.tag]⟩
    simp [fromXmlEntry, toXmlEntry, leaf, XElem.tag, attrText, attrTime, attr?, XElem.attrs, List.lookup, reqText, XElem.text,
      bind, Except.bind, pure, Except.pure]


theorem xstep_rt (s : Step) (h : stepSafe s = true) :
    ∃ x, toXmlStep s = .ok x ∧ fromXmlStep x = .ok s ∧ (XmlClean x = true ∧ x.tag = "step") := by
  simp only [stepSafe, Bool.and_eq_true, List.all_eq_true] at h
  obtain ⟨⟨hst, hd⟩, he⟩ := h
  obtain ⟨st, hst⟩ := Option.isSome_iff_exists.mp hst
  refine ⟨.mk "step" ([("description", .text s.description), ("start-time", .time st)] ++ endAttr s.endTime) none
      (s.entries.map toXmlEntry), by simp [toXmlStep, hst], ?_, ?_, rfl⟩
  · have hes := mapExcept_map_id toXmlEntry fromXmlEntry s.entries (fun e he' => (xentry_rt e (he e he')).2.1)
    cases hen : s.endTime <;>
      simp [fromXmlStep, attrText, attrTime, attrOptTime, attr?, XElem.attrs, List.lookup, endAttr, XElem.children, hes,
        bind, Except.bind, pure, Except.pure, ← hst, ← hen]
  · have hcl : XmlCleanList (s.entries.map toXmlEntry) = true := by
      rw [XmlCleanList_iff]; intro x hx
      obtain ⟨e, he', rfl⟩ := List.mem_map.mp hx
      exact (xentry_rt e (he e he')).1
    cases hen : s.endTime <;> simp [XmlClean, valClean, hd, optTextOk, hcl, endAttr]


theorem xsteps_rt (steps : List Step) (h : ∀ s ∈ steps, stepSafe s = true) :
    ∃ xs, mapExcept toXmlStep steps = .ok xs ∧ mapExcept fromXmlStep xs = .ok steps ∧
      ∀ x ∈ xs, XmlClean x = true ∧ x.tag = "step" :=
  mapExcept_rt toXmlStep fromXmlStep _ steps (fun s hs => xstep_rt s (h s hs))

theorem xresult_of (r : Result) (x : XElem) (st : Time) (hst : r.startTime = some st)
    (h1 : attr? "status" x = r.status.map (fun s => XVal.text (statusName s)))
    (h2 : attr? "status-details" x = r.statusDetails.map XVal.text)
    (h3 : attr? "start-time" x = some (.time st))
    (h4 : attr? "end-time" x = r.endTime.map XVal.time)
    (h5 : mapExcept fromXmlStep (findall "step" x) = .ok r.steps) : fromXmlResult x = .ok r := by
  cases hs : r.status <;> cases hd : r.statusDetails <;> cases he : r.endTime <;>
    simp [fromXmlResult, attrOptText, attrTime, attrOptTime, h1, h2, h3, h4, h5, hs, hd, he, bind, Except.bind, pure, Except.pure,
      ← hst] <;>
    (cases r; simp_all)


@[simp] theorem attrOk_statusName (s : Status) : attrOk (statusName s) = true := by cases s <;> decide
@[simp] theorem attrOk_levelName (s : LogLevel) : attrOk (levelName s) = true := by cases s <;> decide

theorem attrs_clean_result (r : Result) (a : List (String × XVal)) (h : resultAttrs r = .ok a) (hs : resultSafe r = true) :
    a.all (fun p => valClean p.2) = true := by
  simp only [resultSafe, Bool.and_eq_true] at hs
  obtain ⟨⟨hst, hd⟩, _⟩ := hs
  obtain ⟨st, hst⟩ := Option.isSome_iff_exists.mp hst
  simp only [resultAttrs, hst] at h
  cases h
  cases hs : r.status <;> cases hdd : r.statusDetails <;> cases he : r.endTime <;>
    simp [optAttr, endAttr, valClean, hdd, optAttrOk] at * <;> simp [hd]

theorem lookup_append' {β : Type} (k : String) : ∀ (pre l : List (String × β)),
    (pre ++ l).lookup k = (pre.lookup k).or (l.lookup k)
  | [], l => by simp
  | (k', v) :: ps, l => by
    by_cases hk : k = k'
    · subst hk; simp [List.lookup]
    · have : (k == k') = false := by simpa using hk
      simp [List.lookup, this, lookup_append' k ps l]

/-- the attribute lookups `_unserialize_result` performs, on `pre ++ resultAttrs r` where `pre` holds other keys -/
theorem resultAttrs_lookups (r : Result) (a pre : List (String × XVal)) (st : Time) (hst : r.startTime = some st)
    (h : resultAttrs r = .ok a) (hd : optAttrOk r.statusDetails = true)
    (hpre : ∀ k ∈ ["status", "status-details", "start-time", "end-time"], pre.lookup k = none) :
    (pre ++ a).lookup "status" = r.status.map (fun s => XVal.text (statusName s)) ∧
    (pre ++ a).lookup "status-details" = r.statusDetails.map XVal.text ∧
    (pre ++ a).lookup "start-time" = some (.time st) ∧
    (pre ++ a).lookup "end-time" = r.endTime.map XVal.time := by
  simp only [resultAttrs, hst] at h
  cases h
  simp only [lookup_append', hpre _ (by simp : "status" ∈ _), hpre _ (by simp : "status-details" ∈ _),
    hpre _ (by simp : "start-time" ∈ _), hpre _ (by simp : "end-time" ∈ _), Option.none_or]
  cases r.status <;> cases r.statusDetails <;> cases r.endTime <;> simp [optAttr, endAttr, List.lookup]


theorem resultAttrs_ok (r : Result) (h : resultSafe r = true) :
    ∃ st a, r.startTime = some st ∧ resultAttrs r = .ok a := by
  simp only [resultSafe, Bool.and_eq_true] at h
  obtain ⟨st, hst⟩ := Option.isSome_iff_exists.mp h.1.1
  refine ⟨st, optAttr "status" (r.status.map statusName) ++ optAttr "status-details" r.statusDetails
                     ++ [("start-time", .time st)] ++ endAttr r.endTime, hst, by simp [resultAttrs, hst]⟩

theorem xresult_rt (tag : String) (r : Result) (h : resultSafe r = true) :
    ∃ x, toXmlResult tag r = .ok x ∧ fromXmlResult x = .ok r ∧ XmlClean x = true ∧ x.tag = tag := by
  obtain ⟨st, a, hst, ha⟩ := resultAttrs_ok r h
  have hs := h
  simp only [resultSafe, Bool.and_eq_true, List.all_eq_true] at hs
  obtain ⟨xs, hxs, hback, hprop⟩ := xsteps_rt r.steps hs.2
  refine ⟨.mk tag a none xs, by simp [toXmlResult, ha, hxs], ?_, ?_, rfl⟩
  · obtain ⟨l1, l2, l3, l4⟩ := resultAttrs_lookups r a [] st hst ha hs.1.2 (by simp)
    apply xresult_of r _ st hst
    · simpa [attr?, XElem.attrs] using l1
    · simpa [attr?, XElem.attrs] using l2
    · simpa [attr?, XElem.attrs] using l3
    · simpa [attr?, XElem.attrs] using l4
    · simp only [findall, XElem.children]
      rw [filter_tag_eq "step" xs (fun x hx => (hprop x hx).2)]; exact hback
  · simp only [XmlClean, Bool.and_eq_true]
    refine ⟨⟨attrs_clean_result r a ha h, rfl⟩, ?_⟩
    rw [XmlCleanList_iff]; exact fun x hx => (hprop x hx).1

theorem find_none_of_tag_ne (t : String) (l : List XElem) (h : ∀ x ∈ l, x.tag ≠ t) :
    l.find? (fun c => c.tag == t) = none := by
  rw [List.find?_eq_none]; intro x hx; simp [h x hx]

theorem xoptresult_rt (tag : String) (o : Option Result) (h : optResultSafe o = true) :
    ∃ xs, toXmlOptResult tag o = .ok xs ∧ XmlCleanList xs = true ∧ (∀ x ∈ xs, x.tag = tag) ∧
      ∀ (x : XElem) (pre post : List XElem), x.children = pre ++ xs ++ post → (∀ c ∈ pre, c.tag ≠ tag) →
        (∀ c ∈ post, c.tag ≠ tag) → fromXmlOptResult tag x = .ok o := by
  cases o with
  | none =>
    refine ⟨[], rfl, rfl, by simp, ?_⟩
    intro x pre post hch hpre hpost
    simp [fromXmlOptResult, find?, hch, List.find?_append, find_none_of_tag_ne tag pre hpre, find_none_of_tag_ne tag post hpost]
  | some r =>
    obtain ⟨c, hc, hback, hcl, htag⟩ := xresult_rt tag r h
    refine ⟨[c], by simp [toXmlOptResult, hc], by simp [XmlCleanList, hcl], by simp [htag], ?_⟩
    intro x pre post hch hpre hpost
    simp [fromXmlOptResult, find?, hch, List.find?_append, find_none_of_tag_ne tag pre hpre, List.find?, htag, hback]

theorem filter_map_tag_eq {α : Type} (t : String) (f : α → XElem) (l : List α) (h : ∀ a, (f a).tag = t) :
    (l.map f).filter (fun c => c.tag == t) = l.map f :=
  filter_tag_eq t _ (by intro x hx; obtain ⟨a, _, rfl⟩ := List.mem_map.mp hx; exact h a)

theorem filter_map_tag_ne {α : Type} (t : String) (f : α → XElem) (l : List α) (h : ∀ a, (f a).tag ≠ t) :
    (l.map f).filter (fun c => c.tag == t) = [] :=
  filter_tag_ne t _ (by intro x hx; obtain ⟨a, _, rfl⟩ := List.mem_map.mp hx; exact h a)

theorem metaChildren_tags (m : Meta) : ∀ x ∈ metaChildren m, x.tag = "tag" ∨ x.tag = "property" ∨ x.tag = "link" := by
  intro x hx
  simp only [metaChildren, List.mem_append, List.mem_map] at hx
  rcases hx with (⟨_, _, rfl⟩ | ⟨_, _, rfl⟩) | ⟨_, _, rfl⟩ <;> simp [toXmlTag, toXmlProp, toXmlLink, leaf, XElem.tag]

theorem metaChildren_clean (m : Meta) (h : metaSafe m = true) : XmlCleanList (metaChildren m) = true := by
  simp only [metaSafe, Bool.and_eq_true, List.all_eq_true] at h
  obtain ⟨⟨⟨⟨_, _⟩, ht⟩, hp⟩, hl⟩ := h
  rw [XmlCleanList_iff]
  intro x hx
  simp only [metaChildren, List.mem_append, List.mem_map] at hx
  rcases hx with (⟨t, htm, rfl⟩ | ⟨p, hpm, rfl⟩) | ⟨l, hlm, rfl⟩
  · simp [toXmlTag, leaf, XmlClean, XmlCleanList, optTextOk, ht t htm]
  · have := hp p hpm
    simp [toXmlProp, leaf, XmlClean, XmlCleanList, optTextOk, valClean, this]
  · have := hl l hlm
    obtain ⟨u, n⟩ := l
    cases n with
    | none => simp [toXmlLink, leaf, XmlClean, XmlCleanList, optTextOk, optAttr, this.1]
    | some n =>
      have h2 := this.2
      simp only [optAttrOk] at h2
      simp [toXmlLink, leaf, XmlClean, XmlCleanList, optTextOk, optAttr, this.1, valClean, h2]

theorem xmeta_rt (m : Meta) (x : XElem) (rest : List XElem) (hsafe : metaSafe m = true) (hrepr : metaRepr m = true)
    (hname : attr? "name" x = some (.text m.name)) (hdesc : attr? "description" x = some (.text m.description))
    (hch : x.children = metaChildren m ++ rest)
    (hrest : ∀ c ∈ rest, c.tag ≠ "tag" ∧ c.tag ≠ "property" ∧ c.tag ≠ "link") :
    fromXmlMeta x = .ok (zeroRank m) := by
  simp only [metaSafe, Bool.and_eq_true, List.all_eq_true] at hsafe
  obtain ⟨⟨⟨⟨_, _⟩, _⟩, _⟩, hl⟩ := hsafe
  have e1 : findall "tag" x = m.tags.map toXmlTag := by
    simp only [findall, hch, metaChildren, List.filter_append]
    rw [filter_map_tag_eq "tag" _ _ (fun _ => rfl), filter_map_tag_ne "tag" _ m.properties (fun _ => by simp [toXmlProp, leaf, XElem.tag]),
      filter_map_tag_ne "tag" _ m.links (fun _ => by simp [toXmlLink, leaf, XElem.tag]), filter_tag_ne "tag" rest (fun c hc => (hrest c hc).1)]
    simp only [List.append_nil]
  have e2 : findall "property" x = m.properties.map toXmlProp := by
    simp only [findall, hch, metaChildren, List.filter_append]
    rw [filter_map_tag_ne "property" _ m.tags (fun _ => by simp [toXmlTag, leaf, XElem.tag]), filter_map_tag_eq "property" _ _ (fun _ => rfl),
      filter_map_tag_ne "property" _ m.links (fun _ => by simp [toXmlLink, leaf, XElem.tag]),
      filter_tag_ne "property" rest (fun c hc => (hrest c hc).2.1)]
    simp only [List.append_nil, List.nil_append]
  have e3 : findall "link" x = m.links.map toXmlLink := by
    simp only [findall, hch, metaChildren, List.filter_append]
    rw [filter_map_tag_ne "link" _ m.tags (fun _ => by simp [toXmlTag, leaf, XElem.tag]),
      filter_map_tag_ne "link" _ m.properties (fun _ => by simp [toXmlProp, leaf, XElem.tag]), filter_map_tag_eq "link" _ _ (fun _ => rfl),
      filter_tag_ne "link" rest (fun c hc => (hrest c hc).2.2)]
    simp only [List.append_nil, List.nil_append]
  have r1 : mapExcept (reqText "tag") (m.tags.map toXmlTag) = .ok m.tags :=
    mapExcept_map_id _ _ _ (fun _ _ => rfl)
  have r2 : mapExcept fromXmlProp (m.properties.map toXmlProp) = .ok m.properties :=
    mapExcept_map_id _ _ _ (fun p _ => by
      obtain ⟨k, v⟩ := p
      simp [fromXmlProp, toXmlProp, leaf, attrText, attr?, XElem.attrs, List.lookup, reqText, XElem.text, bind, Except.bind, pure, Except.pure])
  have r3 : mapExcept fromXmlLink (m.links.map toXmlLink) = .ok m.links :=
    mapExcept_map_id _ _ _ (fun p hp => by
      obtain ⟨u, n⟩ := p
      have := hl _ hp
      simp only [toXmlLink]
      cases n <;>
        simp [fromXmlLink, leaf, attrOptText, attr?, XElem.attrs, List.lookup, reqText, XElem.text, optAttr, bind, Except.bind, pure, Except.pure])
  have hd : dictFromList propKey m.properties = m.properties := dictFromList_of_distinct _ _ hrepr
  simp only [fromXmlMeta, attrText, hname, hdesc, e1, e2, e3, r1, r2, r3, hd, bind, Except.bind, pure, Except.pure]
  rfl


theorem metaAttrs_clean (m : Meta) (h : metaSafe m = true) : (metaAttrs m).all (fun p => valClean p.2) = true := by
  simp only [metaSafe, Bool.and_eq_true] at h
  simp [metaAttrs, valClean, h.1.1.1.1, h.1.1.1.2]

theorem xtest_rt (t : TestResult) (hs : testSafe t = true) (hr : testRepr t = true) :
    ∃ x, toXmlTest t = .ok x ∧ fromXmlTest x = .ok (clearTest t) ∧ (XmlClean x = true ∧ x.tag = "test") := by
  simp only [testSafe, Bool.and_eq_true] at hs
  obtain ⟨hms, hrs⟩ := hs
  obtain ⟨st, a, hst, ha⟩ := resultAttrs_ok t.result hrs
  have hrs' := hrs
  simp only [resultSafe, Bool.and_eq_true, List.all_eq_true] at hrs'
  obtain ⟨xs, hxs, hback, hprop⟩ := xsteps_rt t.result.steps hrs'.2
  refine ⟨.mk "test" (metaAttrs t.md ++ a) none (metaChildren t.md ++ xs), by simp [toXmlTest, ha, hxs], ?_, ?_, rfl⟩
  · have hres : fromXmlResult (.mk "test" (metaAttrs t.md ++ a) none (metaChildren t.md ++ xs)) = .ok t.result := by
      obtain ⟨l1, l2, l3, l4⟩ := resultAttrs_lookups t.result a (metaAttrs t.md) st hst ha hrs'.1.2
        (by simp [metaAttrs, List.lookup])
      apply xresult_of t.result _ st hst
      · simpa [attr?, XElem.attrs] using l1
      · simpa [attr?, XElem.attrs] using l2
      · simpa [attr?, XElem.attrs] using l3
      · simpa [attr?, XElem.attrs] using l4
      · simp only [findall, XElem.children, List.filter_append]
        rw [filter_tag_ne "step" (metaChildren t.md) (fun x hx => by rcases metaChildren_tags _ x hx with h | h | h <;> simp [h]),
          filter_tag_eq "step" xs (fun x hx => (hprop x hx).2)]
        simpa using hback
    have hmeta : fromXmlMeta (.mk "test" (metaAttrs t.md ++ a) none (metaChildren t.md ++ xs)) = .ok (zeroRank t.md) :=
      xmeta_rt t.md _ xs hms hr (by simp [attr?, XElem.attrs, metaAttrs, List.lookup])
        (by simp [attr?, XElem.attrs, metaAttrs, List.lookup]) rfl (fun c hc => by simp [(hprop c hc).2])
    have hn : attrText "name" (.mk "test" (metaAttrs t.md ++ a) none (metaChildren t.md ++ xs)) = .ok t.md.name := by
      simp [attrText, attr?, XElem.attrs, metaAttrs, List.lookup]
    have hdsc : attrText "description" (.mk "test" (metaAttrs t.md ++ a) none (metaChildren t.md ++ xs)) = .ok t.md.description := by
      simp [attrText, attr?, XElem.attrs, metaAttrs, List.lookup]
    simp only [fromXmlTest, hn, hdsc, hres, hmeta, bind, Except.bind, pure, Except.pure, clearTest]
  · simp only [XmlClean, Bool.and_eq_true, List.all_append, XmlCleanList_append]
    refine ⟨⟨⟨metaAttrs_clean _ hms, attrs_clean_result _ a ha hrs⟩, rfl⟩, metaChildren_clean _ hms, ?_⟩
    rw [XmlCleanList_iff]; exact fun x hx => (hprop x hx).1


theorem xtests_rt (ts : List TestResult) (hs : ∀ t ∈ ts, testSafe t = true) (hr : ∀ t ∈ ts, testRepr t = true) :
    ∃ xs, mapExcept toXmlTest ts = .ok xs ∧ mapExcept fromXmlTest xs = .ok (ts.map clearTest) ∧
      ∀ x ∈ xs, XmlClean x = true ∧ x.tag = "test" :=
  mapExcept_rt' toXmlTest fromXmlTest clearTest _ ts (fun t ht => xtest_rt t (hs t ht) (hr t ht))

theorem xdepthList_append (xs ys : List XElem) : xdepthList (xs ++ ys) = max (xdepthList xs) (xdepthList ys) := by
  induction xs with
  | nil => simp [xdepthList]
  | cons x xs ih => simp [xdepthList, ih, Nat.max_assoc]

mutual
theorem xsuite_rt : ∀ (s : SuiteResult) (fuel : Nat), suiteDepth s ≤ fuel → suiteSafe s = true → suiteRepr s = true →
    ∃ x, toXmlSuite s = .ok x ∧ fromXmlSuite fuel x = .ok (clearRanks s) ∧ XmlClean x = true ∧ x.tag = "suite" ∧
      suiteDepth s ≤ x.depth
  | .mk md st en su td ts ss, fuel, hf, hs, hr => by
    cases fuel with
    | zero => simp [suiteDepth] at hf
    | succ f =>
      simp only [suiteDepth] at hf
      simp only [suiteSafe, Bool.and_eq_true, List.all_eq_true] at hs
      obtain ⟨⟨⟨⟨⟨hms, hst⟩, hsu⟩, htd⟩, hts⟩, hss⟩ := hs
      simp only [suiteRepr, Bool.and_eq_true, List.all_eq_true] at hr
      obtain ⟨⟨⟨hmr, hnames⟩, htr⟩, hsr⟩ := hr
      obtain ⟨stv, rfl⟩ := Option.isSome_iff_exists.mp hst
      obtain ⟨xsu, e1, c1, t1, f1⟩ := xoptresult_rt "suite-setup" su hsu
      obtain ⟨xtd, e2, c2, t2, f2⟩ := xoptresult_rt "suite-teardown" td htd
      obtain ⟨xts, e3, b3, p3⟩ := xtests_rt ts hts htr
      obtain ⟨xss, e4, b4, c4, t4, d4⟩ := xsuites_rt ss f (by omega) hss hsr
      let x : XElem := .mk "suite" (metaAttrs md ++ [("start-time", .time stv)] ++ endAttr en) none
        (metaChildren md ++ xsu ++ xts ++ xss ++ xtd)
      have hmt : ∀ c ∈ metaChildren md, c.tag = "tag" ∨ c.tag = "property" ∨ c.tag = "link" := metaChildren_tags md
      refine ⟨x, by simp [toXmlSuite, e1, e2, e3, e4, x], ?_, ?_, rfl, ?_⟩
      · have hn : attrText "name" x = .ok md.name := by simp [x, attrText, attr?, XElem.attrs, metaAttrs, List.lookup]
        have hd : attrText "description" x = .ok md.description := by
          simp [x, attrText, attr?, XElem.attrs, metaAttrs, List.lookup]
        have hstart : attrTime "start-time" x = .ok stv := by simp [x, attrTime, attr?, XElem.attrs, metaAttrs, List.lookup]
        have hend : attrOptTime "end-time" x = .ok en := by
          cases en <;> simp [x, attrOptTime, attr?, XElem.attrs, metaAttrs, List.lookup, endAttr]
        have hmeta : fromXmlMeta x = .ok (zeroRank md) :=
          xmeta_rt md x (xsu ++ xts ++ xss ++ xtd) hms hmr (by simp [x, attr?, XElem.attrs, metaAttrs, List.lookup])
            (by simp [x, attr?, XElem.attrs, metaAttrs, List.lookup]) (by simp [x, XElem.children, List.append_assoc])
            (fun c hc => by
              simp only [List.mem_append] at hc
              rcases hc with ((hc | hc) | hc) | hc
              · simp [t1 c hc]
              · simp [(p3 c hc).2]
              · simp [t4 c hc]
              · simp [t2 c hc])
        have hsetup : fromXmlOptResult "suite-setup" x = .ok su :=
          f1 x (metaChildren md) (xts ++ xss ++ xtd) (by simp [x, XElem.children, List.append_assoc])
            (fun c hc => by rcases hmt c hc with h | h | h <;> simp [h])
            (fun c hc => by
              simp only [List.mem_append] at hc
              rcases hc with (hc | hc) | hc
              · simp [(p3 c hc).2]
              · simp [t4 c hc]
              · simp [t2 c hc])
        have hteardown : fromXmlOptResult "suite-teardown" x = .ok td :=
          f2 x (metaChildren md ++ xsu ++ xts ++ xss) [] (by simp [x, XElem.children, List.append_assoc])
            (fun c hc => by
              simp only [List.mem_append] at hc
              rcases hc with ((hc | hc) | hc) | hc
              · rcases hmt c hc with h | h | h <;> simp [h]
              · simp [t1 c hc]
              · simp [(p3 c hc).2]
              · simp [t4 c hc])
            (by simp)
        have htests : findall "test" x = xts := by
          simp only [x, findall, XElem.children, List.filter_append]
          rw [filter_tag_ne "test" (metaChildren md) (fun c hc => by rcases hmt c hc with h | h | h <;> simp [h]),
            filter_tag_ne "test" xsu (fun c hc => by simp [t1 c hc]), filter_tag_eq "test" xts (fun c hc => (p3 c hc).2),
            filter_tag_ne "test" xss (fun c hc => by simp [t4 c hc]), filter_tag_ne "test" xtd (fun c hc => by simp [t2 c hc])]
          simp
        have hsuites : findall "suite" x = xss := by
          simp only [x, findall, XElem.children, List.filter_append]
          rw [filter_tag_ne "suite" (metaChildren md) (fun c hc => by rcases hmt c hc with h | h | h <;> simp [h]),
            filter_tag_ne "suite" xsu (fun c hc => by simp [t1 c hc]), filter_tag_ne "suite" xts (fun c hc => by simp [(p3 c hc).2]),
            filter_tag_eq "suite" xss (fun c hc => t4 c hc), filter_tag_ne "suite" xtd (fun c hc => by simp [t2 c hc])]
          simp
        have hdict : dictFromList testName (ts.map clearTest) = ts.map clearTest := by
          apply dictFromList_of_distinct
          have : (ts.map clearTest).map testName = ts.map testName := by rw [List.map_map]; rfl
          rw [this]; exact hnames
        simp only [fromXmlSuite, hn, hd, hstart, hend, hmeta, hsetup, hteardown, htests, hsuites, b3, b4, hdict,
          bind, Except.bind, pure, Except.pure, clearRanks]
      · simp only [x, XmlClean, Bool.and_eq_true, List.all_append, XmlCleanList_append]
        have hxts : XmlCleanList xts = true := by rw [XmlCleanList_iff]; exact fun c hc => (p3 c hc).1
        refine ⟨⟨⟨⟨metaAttrs_clean _ hms, by simp [valClean]⟩, by cases en <;> simp [endAttr, valClean]⟩, rfl⟩,
          ⟨⟨⟨metaChildren_clean _ hms, c1⟩, hxts⟩, c4⟩, c2⟩
      · simp only [x, suiteDepth, XElem.depth, xdepthList_append]
        omega
theorem xsuites_rt : ∀ (ss : List SuiteResult) (fuel : Nat), suiteDepthList ss ≤ fuel → suitesSafe ss = true →
    suitesRepr ss = true →
    ∃ xs, toXmlSuites ss = .ok xs ∧ mapExcept (fromXmlSuite fuel) xs = .ok (clearRanksList ss) ∧ XmlCleanList xs = true ∧
      (∀ x ∈ xs, x.tag = "suite") ∧ suiteDepthList ss ≤ xdepthList xs
  | [], _, _, _, _ => ⟨[], rfl, rfl, rfl, by simp, by simp [suiteDepthList]⟩
  | s :: ss, fuel, hf, hs, hr => by
    simp only [suiteDepthList] at hf
    simp only [suitesSafe, Bool.and_eq_true] at hs
    simp only [suitesRepr, Bool.and_eq_true] at hr
    obtain ⟨x, e1, b1, c1, t1, d1⟩ := xsuite_rt s fuel (by omega) hs.1 hr.1
    obtain ⟨xs, e2, b2, c2, t2, d2⟩ := xsuites_rt ss fuel (by omega) hs.2 hr.2
    refine ⟨x :: xs, by simp [toXmlSuites, e1, e2], by simp [mapExcept, b1, b2, clearRanksList], by simp [XmlCleanList, c1, c2],
      ?_, ?_⟩
    · intro y hy
      rcases List.mem_cons.mp hy with rfl | hy
      · exact t1
      · exact t2 y hy
    · simp only [suiteDepthList, xdepthList]; omega
end


theorem suitesSafe_iff : ∀ ss : List SuiteResult, suitesSafe ss = true ↔ ∀ s ∈ ss, suiteSafe s = true
  | [] => by simp [suitesSafe]
  | s :: ss => by simp [suitesSafe, suitesSafe_iff ss]

mutual
theorem suiteSafe_sortDeep : ∀ s : SuiteResult, suiteSafe s = true → suiteSafe (sortDeep s) = true
  | .mk md st en su td ts ss => by
    intro h
    simp only [suiteSafe, Bool.and_eq_true] at h
    obtain ⟨⟨⟨⟨⟨h1, h2⟩, h3⟩, h4⟩, h5⟩, h6⟩ := h
    simp only [sortDeep, suiteSafe, Bool.and_eq_true]
    refine ⟨⟨⟨⟨⟨h1, h2⟩, h3⟩, h4⟩, ?_⟩, ?_⟩
    · rw [all_sortByRank]; exact h5
    · rw [suitesSafe_iff]
      intro s hs
      rw [mem_sortByRank] at hs
      exact (suitesSafe_iff _).mp (suitesSafe_sortDeepList ss h6) s hs
theorem suitesSafe_sortDeepList : ∀ ss : List SuiteResult, suitesSafe ss = true → suitesSafe (sortDeepList ss) = true
  | [] => by simp [sortDeepList]
  | s :: ss => by
    intro h
    simp only [suitesSafe, Bool.and_eq_true] at h
    simp only [sortDeepList, suitesSafe, Bool.and_eq_true]
    exact ⟨suiteSafe_sortDeep s h.1, suitesSafe_sortDeepList ss h.2⟩
end

theorem suitesSafe_view (r : Report) (h : suitesSafe r.suites = true) : suitesSafe (view r) = true := by
  rw [suitesSafe_iff]
  intro s hs
  unfold view at hs
  rw [mem_sortByRank] at hs
  exact (suitesSafe_iff _).mp (suitesSafe_sortDeepList r.suites h) s hs

theorem xml_roundtrip_core (g : Time) (r : Report) (hs : xmlSafe r = true) (hr : representable r = true) :
    ∃ x, toXml g r = .ok x ∧ XmlClean x = true ∧ fromXml x = .ok (loaded g r) := by
  simp only [xmlSafe, Bool.and_eq_true, List.all_eq_true] at hs
  obtain ⟨⟨⟨⟨⟨hst, htitle⟩, hinfo⟩, hsu⟩, htd⟩, hss⟩ := hs
  obtain ⟨stv, hstv⟩ := Option.isSome_iff_exists.mp hst
  obtain ⟨xsu, e1, c1, t1, f1⟩ := xoptresult_rt "test-session-setup" r.setup hsu
  obtain ⟨xtd, e2, c2, t2, f2⟩ := xoptresult_rt "test-session-teardown" r.teardown htd
  have hfuelSelf : ∀ fuel, suiteDepthList (view r) ≤ fuel → ∃ xss, toXmlSuites (view r) = .ok xss ∧
      mapExcept (fromXmlSuite fuel) xss = .ok (clearRanksList (view r)) ∧ XmlCleanList xss = true ∧
      (∀ x ∈ xss, x.tag = "suite") ∧ suiteDepthList (view r) ≤ xdepthList xss :=
    fun fuel hf => xsuites_rt (view r) fuel hf (suitesSafe_view r hss) (suitesRepr_view r hr)
  obtain ⟨xss, e4, _, c4, t4, d4⟩ := hfuelSelf _ (Nat.le_refl _)
  let x : XElem := .mk "lemoncheesecake-report"
      ([("lemoncheesecake-version", .text "lcc"), ("report-version", .text "1.1"), ("start-time", .time stv)]
        ++ endAttr r.endTime ++ [("generation-time", .time g), ("nb-threads", .num r.nbThreads)])
      none ([leaf "title" [] (some r.title)] ++ r.info.map toXmlInfo ++ xsu ++ xss ++ xtd)
  have hx : toXml g r = .ok x := by simp [toXml, hstv, e1, e2, e4, x]
  have hdepth : suiteDepthList (view r) ≤ x.depth := by
    simp only [x, XElem.depth, xdepthList_append]; omega
  obtain ⟨xss', e4', b4, _, _, _⟩ := hfuelSelf x.depth hdepth
  have hxe : xss' = xss := by rw [e4] at e4'; cases e4'; rfl
  rw [hxe] at b4
  have hinfoTags : ∀ c ∈ r.info.map toXmlInfo, c.tag = "info" := by
    intro c hc; obtain ⟨p, _, rfl⟩ := List.mem_map.mp hc; rfl
  refine ⟨x, hx, ?_, ?_⟩
  · simp only [x, XmlClean, Bool.and_eq_true, List.all_append, XmlCleanList_append]
    have hi : XmlCleanList (r.info.map toXmlInfo) = true := by
      rw [XmlCleanList_iff]; intro c hc
      obtain ⟨p, hp, rfl⟩ := List.mem_map.mp hc
      have := hinfo p hp
      simp [toXmlInfo, leaf, XmlClean, XmlCleanList, valClean, optTextOk, this]
    refine ⟨⟨⟨⟨by simp [valClean]; decide, by cases he : r.endTime <;> simp [endAttr, valClean]⟩,
      by simp [valClean]⟩, rfl⟩, ⟨⟨⟨⟨?_, hi⟩, c1⟩, c4⟩, c2⟩⟩
    simp [XmlCleanList, leaf, XmlClean, optTextOk, htitle]
  · have hver : attrText "report-version" x = .ok "1.1" := by simp [x, attrText, attr?, XElem.attrs, List.lookup]
    have hstart : attrTime "start-time" x = .ok stv := by simp [x, attrTime, attr?, XElem.attrs, List.lookup]
    have hend : attrOptTime "end-time" x = .ok r.endTime := by
      cases he : r.endTime <;> simp [x, attrOptTime, attr?, XElem.attrs, List.lookup, endAttr, he]
    have hgen : attrOptTime "generation-time" x = .ok (some g) := by
      cases he : r.endTime <;> simp [x, attrOptTime, attr?, XElem.attrs, List.lookup, endAttr, he]
    have hnb : attrNum "nb-threads" x = .ok r.nbThreads := by
      cases he : r.endTime <;> simp [x, attrNum, attr?, XElem.attrs, List.lookup, endAttr, he]
    have htitleF : find? "title" x = some (leaf "title" [] (some r.title)) := by
      simp [x, find?, XElem.children, List.find?, leaf, XElem.tag]
    have hinfoF : findall "info" x = r.info.map toXmlInfo := by
      simp only [x, findall, XElem.children, List.filter_append]
      rw [filter_tag_eq "info" _ hinfoTags, filter_tag_ne "info" xsu (fun c hc => by simp [t1 c hc]),
        filter_tag_ne "info" xss (fun c hc => by simp [t4 c hc]), filter_tag_ne "info" xtd (fun c hc => by simp [t2 c hc])]
      simp [leaf, XElem.tag]
    have hinfoR : mapExcept fromXmlInfo (r.info.map toXmlInfo) = .ok r.info :=
      mapExcept_map_id _ _ _ (fun p _ => by
        simp [fromXmlInfo, toXmlInfo, leaf, attrText, attr?, XElem.attrs, List.lookup, reqText, XElem.text, bind, Except.bind, pure,
          Except.pure])
    have hsetup : fromXmlOptResult "test-session-setup" x = .ok r.setup :=
      f1 x ([leaf "title" [] (some r.title)] ++ r.info.map toXmlInfo) (xss ++ xtd) (by simp [x, XElem.children, List.append_assoc])
        (fun c hc => by
          simp only [List.mem_append, List.mem_singleton] at hc
          rcases hc with rfl | hc
          · simp [leaf, XElem.tag]
          · simp [hinfoTags c hc])
        (fun c hc => by
          simp only [List.mem_append] at hc
          rcases hc with hc | hc
          · simp [t4 c hc]
          · simp [t2 c hc])
    have hteardown : fromXmlOptResult "test-session-teardown" x = .ok r.teardown :=
      f2 x ([leaf "title" [] (some r.title)] ++ r.info.map toXmlInfo ++ xsu ++ xss) [] (by simp [x, XElem.children, List.append_assoc])
        (fun c hc => by
          simp only [List.mem_append, List.mem_singleton] at hc
          rcases hc with ((rfl | hc) | hc) | hc
          · simp [leaf, XElem.tag]
          · simp [hinfoTags c hc]
          · simp [t1 c hc]
          · simp [t4 c hc])
        (by simp)
    have hsuites : findall "suite" x = xss := by
      simp only [x, findall, XElem.children, List.filter_append]
      rw [filter_tag_ne "suite" (r.info.map toXmlInfo) (fun c hc => by simp [hinfoTags c hc]),
        filter_tag_ne "suite" xsu (fun c hc => by simp [t1 c hc]), filter_tag_eq "suite" xss t4,
        filter_tag_ne "suite" xtd (fun c hc => by simp [t2 c hc])]
      simp [leaf, XElem.tag]
    have htag : x.tag = "lemoncheesecake-report" := rfl
    simp only [fromXml, fromXmlFuel, htag, hver, hstart, hend, hgen, hnb, htitleF, hinfoF, hinfoR, hsetup,
      hteardown, hsuites, b4, bind, Except.bind, pure, Except.pure, loaded]
    simp [reqText, leaf, XElem.text, hstv]

/-! ### a report that was loaded is a fixed point of `loaded` -/

theorem ranksZeroList_iff : ∀ ss : List SuiteResult, ranksZeroList ss = true ↔ ∀ s ∈ ss, ranksZero s = true
  | [] => by simp [ranksZeroList]
  | s :: ss => by simp [ranksZeroList, ranksZeroList_iff ss]

theorem ranksZero_rank (s : SuiteResult) (h : ranksZero s = true) : suiteRank s = 0 := by
  cases s with
  | mk md st en su td ts ss => simp only [ranksZero, Bool.and_eq_true] at h; simpa [suiteRank, SuiteResult.md] using h.1.1

mutual
theorem sortDeep_of_zero : ∀ s : SuiteResult, ranksZero s = true → sortDeep s = s
  | .mk md st en su td ts ss => by
    intro h
    simp only [ranksZero, Bool.and_eq_true, List.all_eq_true] at h
    have h1 := sortDeepList_of_zero ss h.2
    have h2 : sortByRank testRank ts = ts := sortByRank_of_const testRank 0 ts (fun t ht => by simpa [testRank] using h.1.2 t ht)
    have h3 : sortByRank suiteRank ss = ss :=
      sortByRank_of_const suiteRank 0 ss (fun s hs => ranksZero_rank s ((ranksZeroList_iff ss).mp h.2 s hs))
    simp [sortDeep, h1, h2, h3]
theorem sortDeepList_of_zero : ∀ ss : List SuiteResult, ranksZeroList ss = true → sortDeepList ss = ss
  | [] => by simp [sortDeepList]
  | s :: ss => by
    intro h
    simp only [ranksZeroList, Bool.and_eq_true] at h
    simp [sortDeepList, sortDeep_of_zero s h.1, sortDeepList_of_zero ss h.2]
end

mutual
theorem clearRanks_of_zero : ∀ s : SuiteResult, ranksZero s = true → clearRanks s = s
  | .mk md st en su td ts ss => by
    intro h
    simp only [ranksZero, Bool.and_eq_true, List.all_eq_true] at h
    have hm : zeroRank md = md := by
      have : md.rank = 0 := by simpa using h.1.1
      cases md; simp_all [zeroRank]
    have ht : ts.map clearTest = ts := by
      have : ∀ l : List TestResult, (∀ t ∈ l, (t.md.rank == 0) = true) → l.map clearTest = l := by
        intro l
        induction l with
        | nil => intro _; rfl
        | cons t l ih =>
          intro hl
          have h0 : t.md.rank = 0 := by simpa using hl t (by simp)
          have : clearTest t = t := by
            cases t with
            | mk md res => cases md; simp_all [clearTest, zeroRank]
          simp [this, ih (fun x hx => hl x (by simp [hx]))]
      exact this ts h.1.2
    simp [clearRanks, hm, ht, clearRanksList_of_zero ss h.2]
theorem clearRanksList_of_zero : ∀ ss : List SuiteResult, ranksZeroList ss = true → clearRanksList ss = ss
  | [] => by simp [clearRanksList]
  | s :: ss => by
    intro h
    simp only [ranksZeroList, Bool.and_eq_true] at h
    simp [clearRanksList, clearRanks_of_zero s h.1, clearRanksList_of_zero ss h.2]
end

end LccModel.Serial

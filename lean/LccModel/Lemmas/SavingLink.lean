/-
  C10, link to C07's stream grammar: a stream accepted by `Grammar.WellFormedPrefix` (strict, parallel mode)
  in which no result location and no suite path is started twice (`Grammar.Fresh`) is a `SafeStream`
  (every event targets nothing finished).

  Everything is phrased through two observation functions of the report — `hdr q` (the end time of the
  suite found at path `q`) and `resultAt loc` (the result `report.get(loc)` finds) — for which every writer
  handler has an exact frame specification.
-/
import LccModel.Lemmas.Saving
import LccModel.Model.Grammar

namespace LccModel.Saving
open LccModel.Report LccModel.Writer

/-! ### `find?` by name after `modifyFirst` -/

theorem find_modifyFirst_same {n : String} (F : SuiteResult → Except WriterErr SuiteResult) (nf : WriterErr) :
    ∀ (ss ss' : List SuiteResult), modifyFirst (fun s => s.md.name == n) F nf ss = .ok ss' →
      (∀ s s', F s = .ok s' → s'.md.name = s.md.name) →
      ∃ x x', ss.find? (fun s => s.md.name == n) = some x ∧ F x = .ok x' ∧
        ss'.find? (fun s => s.md.name == n) = some x'
  | [], _, h, _ => by simp [modifyFirst] at h
  | y :: ys, ss', h, hname => by
    simp only [modifyFirst] at h
    by_cases hy : (y.md.name == n) = true
    · simp only [hy, if_true] at h
      cases hF : F y with
      | error e => rw [hF] at h; cases h
      | ok y' =>
        rw [hF] at h
        injection h with h
        subst h
        have : (y'.md.name == n) = true := by rw [hname y y' hF]; exact hy
        exact ⟨y, y', by simp [List.find?, hy], hF, by simp [List.find?, this]⟩
    · simp only [hy, Bool.false_eq_true, if_false] at h
      cases hr : modifyFirst (fun s => s.md.name == n) F nf ys with
      | error e => rw [hr] at h; cases h
      | ok zs =>
        rw [hr] at h
        injection h with h
        subst h
        obtain ⟨x, x', h1, h2, h3⟩ := find_modifyFirst_same F nf ys zs hr hname
        simp only [Bool.not_eq_true] at hy
        exact ⟨x, x', by simp [List.find?, hy, h1], h2, by simp [List.find?, hy, h3]⟩

theorem find_modifyFirst_other {n m : String} (hnm : m ≠ n) (F : SuiteResult → Except WriterErr SuiteResult)
    (nf : WriterErr) :
    ∀ (ss ss' : List SuiteResult), modifyFirst (fun s => s.md.name == n) F nf ss = .ok ss' →
      (∀ s s', F s = .ok s' → s'.md.name = s.md.name) →
      ss'.find? (fun s => s.md.name == m) = ss.find? (fun s => s.md.name == m)
  | [], _, h, _ => by simp [modifyFirst] at h
  | y :: ys, ss', h, hname => by
    simp only [modifyFirst] at h
    by_cases hy : (y.md.name == n) = true
    · simp only [hy, if_true] at h
      cases hF : F y with
      | error e => rw [hF] at h; cases h
      | ok y' =>
        rw [hF] at h
        injection h with h
        subst h
        have e1 : y.md.name = n := by simpa using hy
        have h1 : (y.md.name == m) = false := by simp [e1]; exact fun h => hnm h.symm
        have h2 : (y'.md.name == m) = false := by rw [hname y y' hF]; exact h1
        simp [List.find?, h1, h2]
    · simp only [hy, Bool.false_eq_true, if_false] at h
      cases hr : modifyFirst (fun s => s.md.name == n) F nf ys with
      | error e => rw [hr] at h; cases h
      | ok zs =>
        rw [hr] at h
        injection h with h
        subst h
        have ih := find_modifyFirst_other hnm F nf ys zs hr hname
        simp only [List.find?]
        rw [ih]

/-! ### what `find_suite` finds before and after `modifySuite` -/

/-- everything but the sub-suites is the same -/
def shallowEq (y y' : SuiteResult) : Prop :=
  y'.md = y.md ∧ y'.startTime = y.startTime ∧ y'.endTime = y.endTime ∧ y'.setup = y.setup ∧
    y'.teardown = y.teardown ∧ y'.tests = y.tests

theorem shallowEq_refl (y : SuiteResult) : shallowEq y y := ⟨rfl, rfl, rfl, rfl, rfl, rfl⟩

theorem shallowEq_setSuites (y : SuiteResult) (sub : List SuiteResult) : shallowEq y (y.setSuites sub) := by
  cases y; exact ⟨rfl, rfl, rfl, rfl, rfl, rfl⟩

def FoundRel (R : SuiteResult → SuiteResult → Prop) : Option SuiteResult → Option SuiteResult → Prop
  | none, none => True
  | some y, some y' => R y y'
  | _, _ => False

theorem FoundRel_of_eq {R : SuiteResult → SuiteResult → Prop} (hR : ∀ y, R y y) {a b : Option SuiteResult}
    (h : b = a) : FoundRel R a b := by
  subst h
  cases b with
  | none => trivial
  | some y => exact hR y

theorem findSuite_cons2 (m m2 : String) (rest : Path) (ss : List SuiteResult) :
    findSuite (m :: m2 :: rest) ss =
      match ss.find? (fun s => s.md.name == m) with
      | some s => findSuite (m2 :: rest) s.suites
      | none => none := by
  rfl

/-- the function `modifySuite` applies to the first suite on a path of length ≥ 2 -/
def liftSub (f : SuiteResult → Except WriterErr SuiteResult) (rest : Path) (s : SuiteResult) :
    Except WriterErr SuiteResult :=
  match modifySuite f rest s.suites with
  | .ok sub => .ok (s.setSuites sub)
  | .error e => .error e

theorem modifySuite_cons2 (f : SuiteResult → Except WriterErr SuiteResult) (n m : String) (rest : Path)
    (ss : List SuiteResult) :
    modifySuite f (n :: m :: rest) ss =
      modifyFirst (fun s => s.md.name == n) (liftSub f (m :: rest)) (.lookupSuite n) ss := by
  rw [modifySuite]; rfl

theorem liftSub_ok {f : SuiteResult → Except WriterErr SuiteResult} {rest : Path} {s s' : SuiteResult}
    (h : liftSub f rest s = .ok s') : ∃ sub, modifySuite f rest s.suites = .ok sub ∧ s' = s.setSuites sub := by
  unfold liftSub at h
  split at h
  · rename_i sub hsub; injection h with h; exact ⟨sub, hsub, h.symm⟩
  · cases h

theorem liftSub_name {f : SuiteResult → Except WriterErr SuiteResult} {rest : Path} (s s' : SuiteResult)
    (h : liftSub f rest s = .ok s') : s'.md.name = s.md.name := by
  obtain ⟨sub, _, rfl⟩ := liftSub_ok h
  cases s; rfl

/-- `modifySuite f p` with an `f` that keeps the metadata and the sub-suites of its target: at `p` the old
    suite is replaced by its image; everywhere else the suite found is the same up to its sub-suites. -/
theorem findSuite_modifySuite (f : SuiteResult → Except WriterErr SuiteResult)
    (hf : ∀ s s', f s = .ok s' → s'.md = s.md ∧ s'.suites = s.suites) :
    ∀ (p : Path) (ss ss' : List SuiteResult), modifySuite f p ss = .ok ss' →
      (∃ x, findSuite p ss = some x) ∧
      ∀ q, FoundRel (fun y y' => if q = p then f y = .ok y' else shallowEq y y') (findSuite q ss) (findSuite q ss')
  | [], _, _, h => by simp [modifySuite] at h
  | [n], ss, ss', h => by
    simp only [modifySuite] at h
    have hname : ∀ s s', f s = .ok s' → s'.md.name = s.md.name := fun s s' e => by rw [(hf s s' e).1]
    obtain ⟨x, x', hx, hfx, hx'⟩ := find_modifyFirst_same f _ ss ss' h hname
    refine ⟨⟨x, by simpa [findSuite] using hx⟩, ?_⟩
    intro q
    match q with
    | [] => simp [findSuite, FoundRel]
    | [m] =>
      by_cases hmn : m = n
      · subst hmn
        simp only [findSuite, hx, hx', FoundRel, if_true]
        exact hfx
      · have := find_modifyFirst_other hmn f _ ss ss' h hname
        have hq : ([m] : Path) ≠ [n] := by simpa using hmn
        simp only [findSuite, hq, if_false]
        exact FoundRel_of_eq shallowEq_refl this
    | m :: m2 :: rest =>
      have hq : (m :: m2 :: rest : Path) ≠ [n] := by simp
      simp only [hq, if_false]
      apply FoundRel_of_eq shallowEq_refl
      rw [findSuite_cons2, findSuite_cons2]
      by_cases hmn : m = n
      · subst hmn
        rw [hx, hx']
        simp only
        rw [(hf x x' hfx).2]
      · rw [find_modifyFirst_other hmn f _ ss ss' h hname]
  | n :: n2 :: prest, ss, ss', h => by
    rw [modifySuite_cons2] at h
    have hname := @liftSub_name f (n2 :: prest)
    obtain ⟨x, x', hx, hfx, hx'⟩ := find_modifyFirst_same _ _ ss ss' h hname
    obtain ⟨sub, hsub, rfl⟩ := liftSub_ok hfx
    obtain ⟨⟨y, hy⟩, ih⟩ := findSuite_modifySuite f hf (n2 :: prest) x.suites sub hsub
    refine ⟨⟨y, by rw [findSuite_cons2, hx]; exact hy⟩, ?_⟩
    intro q
    match q with
    | [] => simp [findSuite, FoundRel]
    | [m] =>
      have hq : ([m] : Path) ≠ n :: n2 :: prest := by simp
      simp only [hq, if_false]
      by_cases hmn : m = n
      · subst hmn
        simp only [findSuite, hx, hx', FoundRel]
        exact shallowEq_setSuites x sub
      · have := find_modifyFirst_other hmn _ _ ss ss' h hname
        simp only [findSuite]
        exact FoundRel_of_eq shallowEq_refl this
    | m :: m2 :: rest =>
      by_cases hmn : m = n
      · subst hmn
        rw [findSuite_cons2, findSuite_cons2, hx, hx']
        have hsub' : (x.setSuites sub).suites = sub := by cases x; rfl
        simp only [hsub']
        have := ih (m2 :: rest)
        simpa only [List.cons.injEq, true_and] using this
      · have hq : (m :: m2 :: rest : Path) ≠ n :: n2 :: prest := by
          intro e; injection e with e1 _; exact hmn e1
        simp only [hq, if_false]
        apply FoundRel_of_eq shallowEq_refl
        rw [findSuite_cons2, findSuite_cons2, find_modifyFirst_other hmn _ _ ss ss' h hname]

end LccModel.Saving

/-
  C10, link to C07's stream grammar: a stream accepted by `Grammar.WellFormedPrefix` (strict, parallel mode)
  in which no result location and no suite path is started twice (`Grammar.Fresh`) is a `SafeStream`
  (every event targets nothing finished).

  Everything is phrased through two observation functions of the report — `hdr q` (the end time of the
  suite found at path `q`) and `resultAt loc` (the result `report.get(loc)` finds) — for which every writer
  handler has an exact frame specification.
-/
import LccModel.Lemmas.Saving
import LccModel.Model.Grammar

namespace LccModel.Saving
open LccModel.Report LccModel.Writer

/-! ### `find?` by name after `modifyFirst` -/

theorem find_modifyFirst_same {n : String} (F : SuiteResult → Except WriterErr SuiteResult) (nf : WriterErr) :
    ∀ (ss ss' : List SuiteResult), modifyFirst (fun s => s.md.name == n) F nf ss = .ok ss' →
      (∀ s s', F s = .ok s' → s'.md.name = s.md.name) →
      ∃ x x', ss.find? (fun s => s.md.name == n) = some x ∧ F x = .ok x' ∧
        ss'.find? (fun s => s.md.name == n) = some x'
  | [], _, h, _ => by simp [modifyFirst] at h
  | y :: ys, ss', h, hname => by
    simp only [modifyFirst] at h
    by_cases hy : (y.md.name == n) = true
    · simp only [hy, if_true] at h
      cases hF : F y with
      | error e => rw [hF] at h; cases h
      | ok y' =>
        rw [hF] at h
        injection h with h
        subst h
        have : (y'.md.name == n) = true := by rw [hname y y' hF]; exact hy
        exact ⟨y, y', by simp [List.find?, hy], hF, by simp [List.find?, this]⟩
    · simp only [hy, Bool.false_eq_true, if_false] at h
      cases hr : modifyFirst (fun s => s.md.name == n) F nf ys with
      | error e => rw [hr] at h; cases h
      | ok zs =>
        rw [hr] at h
        injection h with h
        subst h
        obtain ⟨x, x', h1, h2, h3⟩ := find_modifyFirst_same F nf ys zs hr hname
        simp only [Bool.not_eq_true] at hy
        exact ⟨x, x', by simp [List.find?, hy, h1], h2, by simp [List.find?, hy, h3]⟩

theorem find_modifyFirst_other {n m : String} (hnm : m ≠ n) (F : SuiteResult → Except WriterErr SuiteResult)
    (nf : WriterErr) :
    ∀ (ss ss' : List SuiteResult), modifyFirst (fun s => s.md.name == n) F nf ss = .ok ss' →
      (∀ s s', F s = .ok s' → s'.md.name = s.md.name) →
      ss'.find? (fun s => s.md.name == m) = ss.find? (fun s => s.md.name == m)
  | [], _, h, _ => by simp [modifyFirst] at h
  | y :: ys, ss', h, hname => by
    simp only [modifyFirst] at h
    by_cases hy : (y.md.name == n) = true
    · simp only [hy, if_true] at h
      cases hF : F y with
      | error e => rw [hF] at h; cases h
      | ok y' =>
        rw [hF] at h
        injection h with h
        subst h
        have e1 : y.md.name = n := by simpa using hy
        have h1 : (y.md.name == m) = false := by simp [e1]; exact fun h => hnm h.symm
        have h2 : (y'.md.name == m) = false := by rw [hname y y' hF]; exact h1
        simp [List.find?, h1, h2]
    · simp only [hy, Bool.false_eq_true, if_false] at h
      cases hr : modifyFirst (fun s => s.md.name == n) F nf ys with
      | error e => rw [hr] at h; cases h
      | ok zs =>
        rw [hr] at h
        injection h with h
        subst h
        have ih := find_modifyFirst_other hnm F nf ys zs hr hname
        simp only [List.find?]
        rw [ih]

/-! the same for tests -/

theorem findT_modifyFirst_same {n : String} (F : TestResult → Except WriterErr TestResult) (nf : WriterErr) :
    ∀ (ss ss' : List TestResult), modifyFirst (fun s => s.md.name == n) F nf ss = .ok ss' →
      (∀ s s', F s = .ok s' → s'.md.name = s.md.name) →
      ∃ x x', ss.find? (fun s => s.md.name == n) = some x ∧ F x = .ok x' ∧
        ss'.find? (fun s => s.md.name == n) = some x'
  | [], _, h, _ => by simp [modifyFirst] at h
  | y :: ys, ss', h, hname => by
    simp only [modifyFirst] at h
    by_cases hy : (y.md.name == n) = true
    · simp only [hy, if_true] at h
      cases hF : F y with
      | error e => rw [hF] at h; cases h
      | ok y' =>
        rw [hF] at h
        injection h with h
        subst h
        have : (y'.md.name == n) = true := by rw [hname y y' hF]; exact hy
        exact ⟨y, y', by simp [List.find?, hy], hF, by simp [List.find?, this]⟩
    · simp only [hy, Bool.false_eq_true, if_false] at h
      cases hr : modifyFirst (fun s => s.md.name == n) F nf ys with
      | error e => rw [hr] at h; cases h
      | ok zs =>
        rw [hr] at h
        injection h with h
        subst h
        obtain ⟨x, x', h1, h2, h3⟩ := findT_modifyFirst_same F nf ys zs hr hname
        simp only [Bool.not_eq_true] at hy
        exact ⟨x, x', by simp [List.find?, hy, h1], h2, by simp [List.find?, hy, h3]⟩

theorem findT_modifyFirst_other {n m : String} (hnm : m ≠ n) (F : TestResult → Except WriterErr TestResult)
    (nf : WriterErr) :
    ∀ (ss ss' : List TestResult), modifyFirst (fun s => s.md.name == n) F nf ss = .ok ss' →
      (∀ s s', F s = .ok s' → s'.md.name = s.md.name) →
      ss'.find? (fun s => s.md.name == m) = ss.find? (fun s => s.md.name == m)
  | [], _, h, _ => by simp [modifyFirst] at h
  | y :: ys, ss', h, hname => by
    simp only [modifyFirst] at h
    by_cases hy : (y.md.name == n) = true
    · simp only [hy, if_true] at h
      cases hF : F y with
      | error e => rw [hF] at h; cases h
      | ok y' =>
        rw [hF] at h
        injection h with h
        subst h
        have e1 : y.md.name = n := by simpa using hy
        have h1 : (y.md.name == m) = false := by simp [e1]; exact fun h => hnm h.symm
        have h2 : (y'.md.name == m) = false := by rw [hname y y' hF]; exact h1
        simp [List.find?, h1, h2]
    · simp only [hy, Bool.false_eq_true, if_false] at h
      cases hr : modifyFirst (fun s => s.md.name == n) F nf ys with
      | error e => rw [hr] at h; cases h
      | ok zs =>
        rw [hr] at h
        injection h with h
        subst h
        have ih := findT_modifyFirst_other hnm F nf ys zs hr hname
        simp only [List.find?]
        rw [ih]

/-! ### what `find_suite` finds before and after `modifySuite` -/

/-- everything but the sub-suites is the same -/
def shallowEq (y y' : SuiteResult) : Prop :=
  y'.md = y.md ∧ y'.startTime = y.startTime ∧ y'.endTime = y.endTime ∧ y'.setup = y.setup ∧
    y'.teardown = y.teardown ∧ y'.tests = y.tests

theorem shallowEq_refl (y : SuiteResult) : shallowEq y y := ⟨rfl, rfl, rfl, rfl, rfl, rfl⟩

theorem shallowEq_setSuites (y : SuiteResult) (sub : List SuiteResult) : shallowEq y (y.setSuites sub) := by
  cases y; exact ⟨rfl, rfl, rfl, rfl, rfl, rfl⟩

def FoundRel (R : SuiteResult → SuiteResult → Prop) : Option SuiteResult → Option SuiteResult → Prop
  | none, none => True
  | some y, some y' => R y y'
  | _, _ => False

theorem FoundRel_of_eq {R : SuiteResult → SuiteResult → Prop} (hR : ∀ y, R y y) {a b : Option SuiteResult}
    (h : b = a) : FoundRel R a b := by
  subst h
  cases b with
  | none => trivial
  | some y => exact hR y

theorem findSuite_cons2 (m m2 : String) (rest : Path) (ss : List SuiteResult) :
    findSuite (m :: m2 :: rest) ss =
      match ss.find? (fun s => s.md.name == m) with
      | some s => findSuite (m2 :: rest) s.suites
      | none => none := by
  rfl

/-- the function `modifySuite` applies to the first suite on a path of length ≥ 2 -/
def liftSub (f : SuiteResult → Except WriterErr SuiteResult) (rest : Path) (s : SuiteResult) :
    Except WriterErr SuiteResult :=
  match modifySuite f rest s.suites with
  | .ok sub => .ok (s.setSuites sub)
  | .error e => .error e

theorem modifySuite_cons2 (f : SuiteResult → Except WriterErr SuiteResult) (n m : String) (rest : Path)
    (ss : List SuiteResult) :
    modifySuite f (n :: m :: rest) ss =
      modifyFirst (fun s => s.md.name == n) (liftSub f (m :: rest)) (.lookupSuite n) ss := by
  rw [modifySuite]; rfl

theorem liftSub_ok {f : SuiteResult → Except WriterErr SuiteResult} {rest : Path} {s s' : SuiteResult}
    (h : liftSub f rest s = .ok s') : ∃ sub, modifySuite f rest s.suites = .ok sub ∧ s' = s.setSuites sub := by
  unfold liftSub at h
  split at h
  · rename_i sub hsub; injection h with h; exact ⟨sub, hsub, h.symm⟩
  · cases h

theorem liftSub_name {f : SuiteResult → Except WriterErr SuiteResult} {rest : Path} (s s' : SuiteResult)
    (h : liftSub f rest s = .ok s') : s'.md.name = s.md.name := by
  obtain ⟨sub, _, rfl⟩ := liftSub_ok h
  cases s; rfl

/-- `modifySuite f p` with an `f` that keeps the metadata and the sub-suites of its target: at `p` the old
    suite is replaced by its image; everywhere else the suite found is the same up to its sub-suites. -/
theorem findSuite_modifySuite (f : SuiteResult → Except WriterErr SuiteResult)
    (hf : ∀ s s', f s = .ok s' → s'.md = s.md ∧ s'.suites = s.suites) :
    ∀ (p : Path) (ss ss' : List SuiteResult), modifySuite f p ss = .ok ss' →
      (∃ x, findSuite p ss = some x) ∧
      ∀ q, FoundRel (fun y y' => if q = p then f y = .ok y' else shallowEq y y') (findSuite q ss) (findSuite q ss')
  | [], _, _, h => by simp [modifySuite] at h
  | [n], ss, ss', h => by
    simp only [modifySuite] at h
    have hname : ∀ s s', f s = .ok s' → s'.md.name = s.md.name := fun s s' e => by rw [(hf s s' e).1]
    obtain ⟨x, x', hx, hfx, hx'⟩ := find_modifyFirst_same f _ ss ss' h hname
    refine ⟨⟨x, by simpa [findSuite] using hx⟩, ?_⟩
    intro q
    match q with
    | [] => simp [findSuite, FoundRel]
    | [m] =>
      by_cases hmn : m = n
      · subst hmn
        simp only [findSuite, hx, hx', FoundRel, if_true]
        exact hfx
      · have := find_modifyFirst_other hmn f _ ss ss' h hname
        have hq : ([m] : Path) ≠ [n] := by simpa using hmn
        simp only [findSuite, hq, if_false]
        exact FoundRel_of_eq shallowEq_refl this
    | m :: m2 :: rest =>
      have hq : (m :: m2 :: rest : Path) ≠ [n] := by simp
      simp only [hq, if_false]
      apply FoundRel_of_eq shallowEq_refl
      rw [findSuite_cons2, findSuite_cons2]
      by_cases hmn : m = n
      · subst hmn
        rw [hx, hx']
        simp only
        rw [(hf x x' hfx).2]
      · rw [find_modifyFirst_other hmn f _ ss ss' h hname]
  | n :: n2 :: prest, ss, ss', h => by
    rw [modifySuite_cons2] at h
    have hname := @liftSub_name f (n2 :: prest)
    obtain ⟨x, x', hx, hfx, hx'⟩ := find_modifyFirst_same _ _ ss ss' h hname
    obtain ⟨sub, hsub, rfl⟩ := liftSub_ok hfx
    obtain ⟨⟨y, hy⟩, ih⟩ := findSuite_modifySuite f hf (n2 :: prest) x.suites sub hsub
    refine ⟨⟨y, by rw [findSuite_cons2, hx]; exact hy⟩, ?_⟩
    intro q
    match q with
    | [] => simp [findSuite, FoundRel]
    | [m] =>
      have hq : ([m] : Path) ≠ n :: n2 :: prest := by simp
      simp only [hq, if_false]
      by_cases hmn : m = n
      · subst hmn
        simp only [findSuite, hx, hx', FoundRel]
        exact shallowEq_setSuites x sub
      · have := find_modifyFirst_other hmn _ _ ss ss' h hname
        simp only [findSuite]
        exact FoundRel_of_eq shallowEq_refl this
    | m :: m2 :: rest =>
      by_cases hmn : m = n
      · subst hmn
        rw [findSuite_cons2, findSuite_cons2, hx, hx']
        have hsub' : (x.setSuites sub).suites = sub := by cases x; rfl
        simp only [hsub']
        have := ih (m2 :: rest)
        simpa only [List.cons.injEq, true_and] using this
      · have hq : (m :: m2 :: rest : Path) ≠ n :: n2 :: prest := by
          intro e; injection e with e1 _; exact hmn e1
        simp only [hq, if_false]
        apply FoundRel_of_eq shallowEq_refl
        rw [findSuite_cons2, findSuite_cons2, find_modifyFirst_other hmn _ _ ss ss' h hname]

/-! ### appending a new (empty) suite -/

/-- what is found at `q` after a suite `new` was appended so that it sits at path `target`: what was found
    before is still found (same up to sub-suites); what was not found is still not found, except `new` itself -/
def AppendRel (new : SuiteResult) (target q : Path) (a b : Option SuiteResult) : Prop :=
  match a with
  | some y => ∃ y', b = some y' ∧ shallowEq y y'
  | none => b = if q = target then some new else none

theorem AppendRel_of_eq {new : SuiteResult} {target q : Path} {a b : Option SuiteResult} (h : b = a)
    (hq : q ≠ target) : AppendRel new target q a b := by
  subst h
  cases b with
  | none => simp [AppendRel, hq]
  | some y => exact ⟨y, rfl, shallowEq_refl y⟩

theorem find_append (ss : List SuiteResult) (new : SuiteResult) (m : String) :
    (ss ++ [new]).find? (fun s => s.md.name == m) =
      match ss.find? (fun s => s.md.name == m) with
      | some s => some s
      | none => if new.md.name == m then some new else none := by
  rw [List.find?_append]
  cases ss.find? (fun s => s.md.name == m) with
  | some s => rfl
  | none =>
    simp only [List.find?, Option.none_or]
    cases new.md.name == m <;> rfl

theorem findSuite_nil : ∀ q : Path, findSuite q [] = none
  | [] => rfl
  | [_] => rfl
  | _ :: _ :: _ => rfl

theorem findSuite_append (new : SuiteResult) (hnew : new.suites = []) (ss : List SuiteResult) :
    ∀ q, AppendRel new [new.md.name] q (findSuite q ss) (findSuite q (ss ++ [new]))
  | [] => by simp [findSuite, AppendRel]
  | [m] => by
    simp only [findSuite, find_append]
    cases h : ss.find? (fun s => s.md.name == m) with
    | some y => exact ⟨y, rfl, shallowEq_refl y⟩
    | none =>
      simp only [AppendRel]
      by_cases hm : new.md.name = m
      · simp [hm]
      · have : ¬ (m = new.md.name) := fun e => hm e.symm
        simp [hm, this]
  | m :: m2 :: rest => by
    have hq : (m :: m2 :: rest : Path) ≠ [new.md.name] := by simp
    apply AppendRel_of_eq _ hq
    rw [findSuite_cons2, findSuite_cons2, find_append]
    cases h : ss.find? (fun s => s.md.name == m) with
    | some y => rfl
    | none =>
      dsimp only
      by_cases hm : (new.md.name == m) = true
      · rw [if_pos hm]
        show findSuite (m2 :: rest) new.suites = none
        rw [hnew, findSuite_nil]
      · rw [if_neg hm]

def appendSub (new : SuiteResult) (s : SuiteResult) : Except WriterErr SuiteResult :=
  .ok (s.setSuites (s.suites ++ [new]))

theorem findSuite_modifySuite_append (new : SuiteResult) (hnew : new.suites = []) :
    ∀ (p : Path) (ss ss' : List SuiteResult), modifySuite (appendSub new) p ss = .ok ss' →
      (∃ x, findSuite p ss = some x) ∧
      ∀ q, AppendRel new (p ++ [new.md.name]) q (findSuite q ss) (findSuite q ss')
  | [], _, _, h => by simp [modifySuite] at h
  | [n], ss, ss', h => by
    simp only [modifySuite] at h
    have hname : ∀ s s', appendSub new s = .ok s' → s'.md.name = s.md.name := by
      intro s s' e; simp only [appendSub] at e; injection e with e; subst e; cases s; rfl
    obtain ⟨x, x', hx, hfx, hx'⟩ := find_modifyFirst_same _ _ ss ss' h hname
    simp only [appendSub] at hfx
    injection hfx with hfx
    subst hfx
    refine ⟨⟨x, by simpa [findSuite] using hx⟩, ?_⟩
    intro q
    match q with
    | [] => simp [findSuite, AppendRel]
    | [m] =>
      by_cases hmn : m = n
      · subst hmn
        simp only [findSuite, hx, hx']
        exact ⟨_, rfl, shallowEq_setSuites x _⟩
      · have := find_modifyFirst_other hmn _ _ ss ss' h hname
        have hq : ([m] : Path) ≠ [n] ++ [new.md.name] := by simp
        simp only [findSuite]
        exact AppendRel_of_eq this hq
    | m :: m2 :: rest =>
      rw [findSuite_cons2, findSuite_cons2]
      by_cases hmn : m = n
      · subst hmn
        rw [hx, hx']
        have hs : (x.setSuites (x.suites ++ [new])).suites = x.suites ++ [new] := by cases x; rfl
        simp only [hs]
        have := findSuite_append new hnew x.suites (m2 :: rest)
        simpa only [AppendRel, List.cons_append, List.nil_append, List.cons.injEq, true_and] using this
      · have hq : (m :: m2 :: rest : Path) ≠ [n] ++ [new.md.name] := by
          intro e; simp only [List.cons_append, List.nil_append, List.cons.injEq] at e; exact hmn e.1
        apply AppendRel_of_eq _ hq
        rw [find_modifyFirst_other hmn _ _ ss ss' h hname]
  | n :: n2 :: prest, ss, ss', h => by
    rw [modifySuite_cons2] at h
    have hname := @liftSub_name (appendSub new) (n2 :: prest)
    obtain ⟨x, x', hx, hfx, hx'⟩ := find_modifyFirst_same _ _ ss ss' h hname
    obtain ⟨sub, hsub, rfl⟩ := liftSub_ok hfx
    obtain ⟨⟨y, hy⟩, ih⟩ := findSuite_modifySuite_append new hnew (n2 :: prest) x.suites sub hsub
    refine ⟨⟨y, by rw [findSuite_cons2, hx]; exact hy⟩, ?_⟩
    intro q
    match q with
    | [] => simp [findSuite, AppendRel]
    | [m] =>
      have hq : ([m] : Path) ≠ (n :: n2 :: prest) ++ [new.md.name] := by simp
      by_cases hmn : m = n
      · subst hmn
        simp only [findSuite, hx, hx']
        exact ⟨_, rfl, shallowEq_setSuites x sub⟩
      · have := find_modifyFirst_other hmn _ _ ss ss' h hname
        simp only [findSuite]
        exact AppendRel_of_eq this hq
    | m :: m2 :: rest =>
      rw [findSuite_cons2, findSuite_cons2]
      by_cases hmn : m = n
      · subst hmn
        rw [hx, hx']
        have hsub' : (x.setSuites sub).suites = sub := by cases x; rfl
        simp only [hsub']
        have := ih (m2 :: rest)
        simpa only [AppendRel, List.cons_append, List.cons.injEq, true_and] using this
      · have hq : (m :: m2 :: rest : Path) ≠ (n :: n2 :: prest) ++ [new.md.name] := by
          intro e; simp only [List.cons_append, List.cons.injEq] at e; exact hmn e.1
        apply AppendRel_of_eq _ hq
        rw [find_modifyFirst_other hmn _ _ ss ss' h hname]

/-! ### the two observations of a report: suite headers and results -/

/-- the end time of the suite `find_suite` finds at `q` (`none`: no such suite) -/
def hdr (q : Path) (r : Report) : Option (Option Time) := (findSuite q r.suites).map (·.endTime)

/-- the result of location `loc` inside the suite that owns it -/
def resultIn : Loc → SuiteResult → Option Result
  | .suiteSetup _, s => s.setup
  | .suiteTeardown _, s => s.teardown
  | .test p, s =>
    match p.getLast? with
    | some last => (s.tests.find? (fun t => t.md.name == last)).map (·.result)
    | none => none
  | .sessionSetup, _ => none
  | .sessionTeardown, _ => none

/-- `report.get(loc)` (`none`: nothing there) -/
def resultAt (loc : Loc) (r : Report) : Option Result :=
  match loc with
  | .sessionSetup => r.setup
  | .sessionTeardown => r.teardown
  | loc =>
    match Grammar.ownerSuite loc with
    | some q => (findSuite q r.suites).bind (resultIn loc)
    | none => none

theorem resultAt_suite {loc : Loc} {q : Path} (r : Report) (h : Grammar.ownerSuite loc = some q) :
    resultAt loc r = (findSuite q r.suites).bind (resultIn loc) := by
  cases loc <;> simp_all [resultAt, Grammar.ownerSuite]

theorem resultIn_shallowEq {y y' : SuiteResult} (h : shallowEq y y') (loc : Loc) : resultIn loc y' = resultIn loc y := by
  obtain ⟨_, _, _, h4, h5, h6⟩ := h
  cases loc <;> simp [resultIn, h4, h5, h6]

theorem dropLast_append_last {l : Path} {a : String} (h : l.getLast? = some a) : l.dropLast ++ [a] = l := by
  obtain ⟨ys, rfl⟩ := List.getLast?_eq_some_iff.mp h
  simp

theorem path_eq_of_last {p p' : Path} (h1 : p'.dropLast = p.dropLast) (h2 : p'.getLast? = p.getLast?) : p' = p := by
  cases hp : p.getLast? with
  | none =>
    rw [hp] at h2
    simp only [List.getLast?_eq_none_iff] at hp h2
    rw [hp, h2]
  | some a =>
    rw [hp] at h2
    have e1 := dropLast_append_last hp
    have e2 := dropLast_append_last h2
    rw [← e1, ← e2, h1]

/-- Effect on the observations of `modifySuite f p` for an `f` that keeps metadata and sub-suites. -/
theorem obs_modifySuite (f : SuiteResult → Except WriterErr SuiteResult)
    (hf : ∀ s s', f s = .ok s' → s'.md = s.md ∧ s'.suites = s.suites)
    (p : Path) (r : Report) (ss' : List SuiteResult) (h : modifySuite f p r.suites = .ok ss') :
    ∃ x x', findSuite p r.suites = some x ∧ f x = .ok x' ∧ findSuite p ss' = some x' ∧
      (∀ q, q ≠ p → hdr q { r with suites := ss' } = hdr q r) ∧
      (∀ loc q, Grammar.ownerSuite loc = some q → q ≠ p → resultAt loc { r with suites := ss' } = resultAt loc r) := by
  obtain ⟨⟨x, hx⟩, hall⟩ := findSuite_modifySuite f hf p r.suites ss' h
  have hp := hall p
  rw [hx] at hp
  cases hx' : findSuite p ss' with
  | none => rw [hx'] at hp; simp [FoundRel] at hp
  | some x' =>
    rw [hx'] at hp
    simp only [FoundRel, if_true] at hp
    refine ⟨x, x', hx, hp, rfl, ?_, ?_⟩
    · intro q hq
      have := hall q
      simp only [hq, if_false] at this
      simp only [hdr]
      cases h1 : findSuite q r.suites with
      | none =>
        rw [h1] at this
        cases h2 : findSuite q ss' with
        | none => rfl
        | some y' => rw [h2] at this; simp [FoundRel] at this
      | some y =>
        rw [h1] at this
        cases h2 : findSuite q ss' with
        | none => rw [h2] at this; simp [FoundRel] at this
        | some y' => rw [h2] at this; simp only [FoundRel] at this; simp [this.2.2.1]
    · intro loc q hown hq
      rw [resultAt_suite _ hown, resultAt_suite _ hown]
      have := hall q
      simp only [hq, if_false] at this
      dsimp only
      cases h1 : findSuite q r.suites with
      | none =>
        rw [h1] at this
        cases h2 : findSuite q ss' with
        | none => rfl
        | some y' => rw [h2] at this; simp [FoundRel] at this
      | some y =>
        rw [h1] at this
        cases h2 : findSuite q ss' with
        | none => rw [h2] at this; simp [FoundRel] at this
        | some y' =>
          rw [h2] at this
          simp only [FoundRel] at this
          simp only [Option.bind_some]
          exact resultIn_shallowEq this loc

theorem resultAt_session_suites (r : Report) (ss' : List SuiteResult) (loc : Loc)
    (h : Grammar.ownerSuite loc = none) : resultAt loc { r with suites := ss' } = resultAt loc r := by
  cases loc <;> simp_all [resultAt, Grammar.ownerSuite]

theorem hdr_suites_eq (r r' : Report) (h : r'.suites = r.suites) (q : Path) : hdr q r' = hdr q r := by
  simp [hdr, h]

theorem resultAt_suites_eq (r r' : Report) (h : r'.suites = r.suites) {loc : Loc} {q : Path}
    (ho : Grammar.ownerSuite loc = some q) : resultAt loc r' = resultAt loc r := by
  rw [resultAt_suite _ ho, resultAt_suite _ ho, h]

theorem owner_cases (loc : Loc) :
    (loc = .sessionSetup ∨ loc = .sessionTeardown) ∨ ∃ q, Grammar.ownerSuite loc = some q := by
  cases loc <;> simp [Grammar.ownerSuite]

/-- what a modification of the setup of suite `p` does to the observations -/
theorem obs_setSetup (F : SuiteResult → Except WriterErr SuiteResult) (p : Path) (r : Report) (ss' : List SuiteResult)
    (hF : ∀ s s', F s = .ok s' → ∃ o, s' = s.setSetup o)
    (h : modifySuite F p r.suites = .ok ss') :
    ∃ x o, findSuite p r.suites = some x ∧ F x = .ok (x.setSetup o) ∧
      resultAt (.suiteSetup p) r = x.setup ∧ resultAt (.suiteSetup p) { r with suites := ss' } = o ∧
      (∀ loc', loc' ≠ .suiteSetup p → resultAt loc' { r with suites := ss' } = resultAt loc' r) ∧
      (∀ q, hdr q { r with suites := ss' } = hdr q r) := by
  have hf : ∀ s s', F s = .ok s' → s'.md = s.md ∧ s'.suites = s.suites := by
    intro s s' e; obtain ⟨o, rfl⟩ := hF s s' e; cases s; exact ⟨rfl, rfl⟩
  obtain ⟨x, x', hx, hfx, hx', hh, hr⟩ := obs_modifySuite F hf p r ss' h
  obtain ⟨o, rfl⟩ := hF x _ hfx
  refine ⟨x, o, hx, hfx, ?_, ?_, ?_, ?_⟩
  · rw [resultAt_suite r (q := p) rfl, hx]; rfl
  · rw [resultAt_suite _ (q := p) rfl]
    show (findSuite p ss').bind _ = _
    rw [hx']; cases x; rfl
  · intro loc' hne
    rcases owner_cases loc' with hs | ⟨q, hq⟩
    · rcases hs with rfl | rfl <;> rfl
    · by_cases hqp : q = p
      · subst hqp
        rw [resultAt_suite _ hq, resultAt_suite _ hq]
        show (findSuite q ss').bind _ = (findSuite q r.suites).bind _
        rw [hx, hx']
        cases loc' with
        | suiteSetup p' => simp only [Grammar.ownerSuite, Option.some.injEq] at hq; subst hq; exact absurd rfl hne
        | suiteTeardown p' => cases x; rfl
        | test p' => cases x; rfl
        | sessionSetup => simp [Grammar.ownerSuite] at hq
        | sessionTeardown => simp [Grammar.ownerSuite] at hq
      · exact hr loc' q hq hqp
  · intro q
    by_cases hqp : q = p
    · subst hqp
      simp only [hdr, hx, hx']
      cases x; rfl
    · exact hh q hqp

theorem obs_setTeardown (F : SuiteResult → Except WriterErr SuiteResult) (p : Path) (r : Report) (ss' : List SuiteResult)
    (hF : ∀ s s', F s = .ok s' → ∃ o, s' = s.setTeardown o)
    (h : modifySuite F p r.suites = .ok ss') :
    ∃ x o, findSuite p r.suites = some x ∧ F x = .ok (x.setTeardown o) ∧
      resultAt (.suiteTeardown p) r = x.teardown ∧ resultAt (.suiteTeardown p) { r with suites := ss' } = o ∧
      (∀ loc', loc' ≠ .suiteTeardown p → resultAt loc' { r with suites := ss' } = resultAt loc' r) ∧
      (∀ q, hdr q { r with suites := ss' } = hdr q r) := by
  have hf : ∀ s s', F s = .ok s' → s'.md = s.md ∧ s'.suites = s.suites := by
    intro s s' e; obtain ⟨o, rfl⟩ := hF s s' e; cases s; exact ⟨rfl, rfl⟩
  obtain ⟨x, x', hx, hfx, hx', hh, hr⟩ := obs_modifySuite F hf p r ss' h
  obtain ⟨o, rfl⟩ := hF x _ hfx
  refine ⟨x, o, hx, hfx, ?_, ?_, ?_, ?_⟩
  · rw [resultAt_suite r (q := p) rfl, hx]; rfl
  · rw [resultAt_suite _ (q := p) rfl]
    show (findSuite p ss').bind _ = _
    rw [hx']; cases x; rfl
  · intro loc' hne
    rcases owner_cases loc' with hs | ⟨q, hq⟩
    · rcases hs with rfl | rfl <;> rfl
    · by_cases hqp : q = p
      · subst hqp
        rw [resultAt_suite _ hq, resultAt_suite _ hq]
        show (findSuite q ss').bind _ = (findSuite q r.suites).bind _
        rw [hx, hx']
        cases loc' with
        | suiteTeardown p' => simp only [Grammar.ownerSuite, Option.some.injEq] at hq; subst hq; exact absurd rfl hne
        | suiteSetup p' => cases x; rfl
        | test p' => cases x; rfl
        | sessionSetup => simp [Grammar.ownerSuite] at hq
        | sessionTeardown => simp [Grammar.ownerSuite] at hq
      · exact hr loc' q hq hqp
  · intro q
    by_cases hqp : q = p
    · subst hqp
      simp only [hdr, hx, hx']
      cases x; rfl
    · exact hh q hqp

/-- what a modification of the test list of suite `parent` does: only tests named `name` may be affected -/
theorem obs_setTests (F : SuiteResult → Except WriterErr SuiteResult) (parent : Path) (name : String) (r : Report)
    (ss' : List SuiteResult)
    (hF : ∀ s s', F s = .ok s' → ∃ ts, s' = s.setTests ts ∧
      ∀ m, m ≠ name → ts.find? (fun t => t.md.name == m) = s.tests.find? (fun t => t.md.name == m))
    (h : modifySuite F parent r.suites = .ok ss') :
    ∃ x ts, findSuite parent r.suites = some x ∧ F x = .ok (x.setTests ts) ∧
      resultAt (.test (parent ++ [name])) r = (x.tests.find? (fun t => t.md.name == name)).map (·.result) ∧
      resultAt (.test (parent ++ [name])) { r with suites := ss' } = (ts.find? (fun t => t.md.name == name)).map (·.result) ∧
      (∀ loc', loc' ≠ .test (parent ++ [name]) → resultAt loc' { r with suites := ss' } = resultAt loc' r) ∧
      (∀ q, hdr q { r with suites := ss' } = hdr q r) := by
  have hf : ∀ s s', F s = .ok s' → s'.md = s.md ∧ s'.suites = s.suites := by
    intro s s' e; obtain ⟨ts, rfl, _⟩ := hF s s' e; cases s; exact ⟨rfl, rfl⟩
  obtain ⟨x, x', hx, hfx, hx', hh, hr⟩ := obs_modifySuite F hf parent r ss' h
  obtain ⟨ts, rfl, hts⟩ := hF x _ hfx
  have hown : Grammar.ownerSuite (.test (parent ++ [name])) = some parent := by simp [Grammar.ownerSuite]
  have hlast : (parent ++ [name]).getLast? = some name := by simp
  refine ⟨x, ts, hx, hfx, ?_, ?_, ?_, ?_⟩
  · rw [resultAt_suite r hown, hx]; simp [resultIn, hlast]
  · rw [resultAt_suite _ hown]
    show (findSuite parent ss').bind _ = _
    rw [hx']; cases x; simp [resultIn, hlast, SuiteResult.setTests, SuiteResult.tests]
  · intro loc' hne
    rcases owner_cases loc' with hs | ⟨q, hq⟩
    · rcases hs with rfl | rfl <;> rfl
    · by_cases hqp : q = parent
      · subst hqp
        rw [resultAt_suite _ hq, resultAt_suite _ hq]
        show (findSuite q ss').bind _ = (findSuite q r.suites).bind _
        rw [hx, hx']
        cases loc' with
        | suiteSetup p' => cases x; rfl
        | suiteTeardown p' => cases x; rfl
        | test p' =>
          simp only [Grammar.ownerSuite, Option.some.injEq] at hq
          simp only [Option.bind_some, resultIn]
          cases hl : p'.getLast? with
          | none => rfl
          | some last =>
            have hne' : last ≠ name := by
              intro e; subst e
              apply hne
              have := dropLast_append_last hl
              rw [hq] at this
              rw [this]
            have : (x.setTests ts).tests = ts := by cases x; rfl
            simp only [this, hts last hne']
        | sessionSetup => simp [Grammar.ownerSuite] at hq
        | sessionTeardown => simp [Grammar.ownerSuite] at hq
      · exact hr loc' q hq hqp
  · intro q
    by_cases hqp : q = parent
    · subst hqp
      simp only [hdr, hx, hx']
      cases x; rfl
    · exact hh q hqp

theorem setSetup_inj {s : SuiteResult} {o o' : Option Result} (h : s.setSetup o = s.setSetup o') : o = o' := by
  cases s; simp only [SuiteResult.setSetup] at h; injection h

theorem setTeardown_inj {s : SuiteResult} {o o' : Option Result} (h : s.setTeardown o = s.setTeardown o') : o = o' := by
  cases s; simp only [SuiteResult.setTeardown] at h; injection h

theorem setTests_inj {s : SuiteResult} {o o' : List TestResult} (h : s.setTests o = s.setTests o') : o = o' := by
  cases s; simp only [SuiteResult.setTests] at h; injection h

/-- the function `modifyResult` applies to the test found by name -/
def liftTest (f : Result → Except WriterErr Result) (t : TestResult) : Except WriterErr TestResult :=
  match f t.result with
  | .ok y => .ok { t with result := y }
  | .error e => .error e

theorem liftTest_name (f : Result → Except WriterErr Result) (t t' : TestResult) (h : liftTest f t = .ok t') :
    t'.md.name = t.md.name := by
  unfold liftTest at h
  split at h
  · injection h with h; subst h; rfl
  · cases h

/-- Effect of `modifyResult f loc`: exactly the result at `loc` is replaced by its image. -/
theorem modifyResult_obs (f : Result → Except WriterErr Result) (loc : Loc) (r r' : Report)
    (h : modifyResult f loc r = .ok r') :
    ∃ x x', resultAt loc r = some x ∧ f x = .ok x' ∧ resultAt loc r' = some x' ∧
      (∀ loc', loc' ≠ loc → resultAt loc' r' = resultAt loc' r) ∧ (∀ q, hdr q r' = hdr q r) ∧
      r'.endTime = r.endTime ∧ r'.startTime = r.startTime := by
  cases loc with
  | sessionSetup =>
    simp only [modifyResult] at h
    split at h
    · cases h
    · rename_i x hx
      split at h
      · rename_i y hy
        injection h with h
        subst h
        refine ⟨x, y, hx, hy, rfl, ?_, fun q => rfl, rfl, rfl⟩
        intro loc' hne
        cases loc' <;> first | rfl | exact absurd rfl hne
      · cases h
  | sessionTeardown =>
    simp only [modifyResult] at h
    split at h
    · cases h
    · rename_i x hx
      split at h
      · rename_i y hy
        injection h with h
        subst h
        refine ⟨x, y, hx, hy, rfl, ?_, fun q => rfl, rfl, rfl⟩
        intro loc' hne
        cases loc' <;> first | rfl | exact absurd rfl hne
      · cases h
  | suiteSetup p =>
    simp only [modifyResult] at h
    obtain ⟨ss', hss, rfl⟩ := liftSuites_ok h
    obtain ⟨xs, o, _, hF, h1, h2, h3, h4⟩ := obs_setSetup _ p r ss' (by
      intro s s' e
      split at e
      · cases e
      · split at e
        · injection e with e; exact ⟨_, e.symm⟩
        · cases e) hss
    split at hF
    · cases hF
    · rename_i x hx
      split at hF
      · rename_i y hy
        injection hF with hF
        have := setSetup_inj hF
        subst this
        exact ⟨x, y, by rw [h1, hx], hy, h2, h3, h4, rfl, rfl⟩
      · cases hF
  | suiteTeardown p =>
    simp only [modifyResult] at h
    obtain ⟨ss', hss, rfl⟩ := liftSuites_ok h
    obtain ⟨xs, o, _, hF, h1, h2, h3, h4⟩ := obs_setTeardown _ p r ss' (by
      intro s s' e
      split at e
      · cases e
      · split at e
        · injection e with e; exact ⟨_, e.symm⟩
        · cases e) hss
    split at hF
    · cases hF
    · rename_i x hx
      split at hF
      · rename_i y hy
        injection hF with hF
        have := setTeardown_inj hF
        subst this
        exact ⟨x, y, by rw [h1, hx], hy, h2, h3, h4, rfl, rfl⟩
      · cases hF
  | test p =>
    simp only [modifyResult] at h
    obtain ⟨ss', hss, rfl⟩ := liftSuites_ok h
    simp only [modifyTest] at hss
    split at hss
    · cases hss
    · rename_i last hl
      have hp : p.dropLast ++ [last] = p := dropLast_append_last hl
      obtain ⟨xs, ts, _, hF, h1, h2, h3, h4⟩ := obs_setTests _ p.dropLast last r ss' (by
        intro s s' e
        split at e
        · rename_i ts hts
          injection e with e
          refine ⟨ts, e.symm, ?_⟩
          intro m hm
          exact findT_modifyFirst_other hm (liftTest f) _ s.tests ts hts (liftTest_name f)
        · cases e) hss
      rw [hp] at h1 h2 h3
      split at hF
      · rename_i ts' hts'
        injection hF with hF
        have := setTests_inj hF
        subst this
        obtain ⟨t, t', ht, hft, ht'⟩ := findT_modifyFirst_same (liftTest f) _ xs.tests ts' hts' (liftTest_name f)
        unfold liftTest at hft
        split at hft
        · rename_i y hy
          injection hft with hft
          subst hft
          exact ⟨t.result, y, by rw [h1, ht]; rfl, hy, by rw [h2, ht']; rfl, h3, h4, rfl, rfl⟩
        · cases hft
      · cases hF

/-! ### `add_test`, suite start, suite end -/

theorem find_dictSet_same (tr : TestResult) : ∀ ts : List TestResult,
    (dictSet (fun t => t.md.name) tr ts).find? (fun t => t.md.name == tr.md.name) = some tr
  | [] => by simp [dictSet]
  | y :: ys => by
    simp only [dictSet]
    by_cases hy : (y.md.name == tr.md.name) = true
    · simp [hy]
    · simp only [hy, Bool.false_eq_true, if_false, List.find?]
      exact find_dictSet_same tr ys

theorem find_dictSet_other (tr : TestResult) {m : String} (hm : m ≠ tr.md.name) : ∀ ts : List TestResult,
    (dictSet (fun t => t.md.name) tr ts).find? (fun t => t.md.name == m) = ts.find? (fun t => t.md.name == m)
  | [] => by
    have : (tr.md.name == m) = false := by simp; exact fun e => hm e.symm
    simp [dictSet, List.find?, this]
  | y :: ys => by
    simp only [dictSet]
    by_cases hy : (y.md.name == tr.md.name) = true
    · have e1 : y.md.name = tr.md.name := by simpa using hy
      have h1 : (tr.md.name == m) = false := by simp; exact fun e => hm e.symm
      have h2 : (y.md.name == m) = false := by rw [e1]; exact h1
      simp [hy, List.find?, h1, h2]
    · simp only [hy, Bool.false_eq_true, if_false, List.find?]
      rw [find_dictSet_other tr hm ys]

/-- `add_test`: the test location `parent ++ [name]` now holds the new result, nothing else changes -/
theorem addTest_obs (parent : Path) (tr : TestResult) (r r' : Report) (h : addTest parent tr r = .ok r') :
    (∃ x, findSuite parent r.suites = some x) ∧
      resultAt (.test (parent ++ [tr.md.name])) r' = some tr.result ∧
      (∀ loc', loc' ≠ .test (parent ++ [tr.md.name]) → resultAt loc' r' = resultAt loc' r) ∧
      (∀ q, hdr q r' = hdr q r) ∧ r'.endTime = r.endTime ∧ r'.startTime = r.startTime := by
  unfold addTest at h
  split at h
  · cases h
  · obtain ⟨ss', hss, rfl⟩ := liftSuites_ok h
    obtain ⟨x, ts, hx, hF, _, h2, h3, h4⟩ := obs_setTests _ parent tr.md.name r ss' (by
      intro s s' e
      injection e with e
      exact ⟨_, e.symm, fun m hm => find_dictSet_other tr hm s.tests⟩) hss
    injection hF with hF
    have := setTests_inj hF
    subst this
    rw [find_dictSet_same] at h2
    exact ⟨⟨x, hx⟩, h2, h3, h4, rfl, rfl⟩

theorem resultIn_initSuite (md : Meta) (t : Time) (loc : Loc) : resultIn loc (initSuite md t) = none := by
  cases loc <;> simp [resultIn, initSuite, SuiteResult.setup, SuiteResult.teardown, SuiteResult.tests]
  split <;> rfl

/-- what appending the new suite does to the observations, given the `AppendRel` of every path -/
theorem obs_of_appendRel (md : Meta) (t : Time) (P : Path) (r : Report) (ss' : List SuiteResult)
    (h : ∀ q, AppendRel (initSuite md t) P q (findSuite q r.suites) (findSuite q ss')) :
    (∀ q v, hdr q r = some v → hdr q { r with suites := ss' } = some v) ∧
    (∀ q, hdr q r = none → hdr q { r with suites := ss' } = if q = P then some none else none) ∧
    (∀ loc, resultAt loc { r with suites := ss' } = resultAt loc r) := by
  refine ⟨?_, ?_, ?_⟩
  · intro q v hv
    have := h q
    simp only [hdr] at hv ⊢
    cases h1 : findSuite q r.suites with
    | none => rw [h1] at hv; simp at hv
    | some y =>
      rw [h1] at this hv
      obtain ⟨y', hy', hsh⟩ := this
      show (findSuite q ss').map _ = _
      rw [hy']
      simp only [Option.map_some, Option.some.injEq] at hv ⊢
      rw [hsh.2.2.1, hv]
  · intro q hv
    have := h q
    simp only [hdr] at hv ⊢
    cases h1 : findSuite q r.suites with
    | some y => rw [h1] at hv; simp at hv
    | none =>
      rw [h1] at this
      simp only [AppendRel] at this
      show (findSuite q ss').map _ = _
      rw [this]
      split <;> rfl
  · intro loc
    rcases owner_cases loc with hs | ⟨q, hq⟩
    · rcases hs with rfl | rfl <;> rfl
    · rw [resultAt_suite _ hq, resultAt_suite _ hq]
      show (findSuite q ss').bind _ = _
      have := h q
      cases h1 : findSuite q r.suites with
      | some y =>
        rw [h1] at this
        obtain ⟨y', hy', hsh⟩ := this
        rw [hy']
        simp only [Option.bind_some]
        exact resultIn_shallowEq hsh loc
      | none =>
        rw [h1] at this
        simp only [AppendRel] at this
        rw [this]
        split
        · simp only [Option.bind_some, Option.bind_none]; exact resultIn_initSuite md t loc
        · rfl

/-- `on_suite_end` -/
theorem suiteEnd_obs (p : Path) (t : Time) (r : Report) (ss' : List SuiteResult)
    (h : modifySuite (fun s => .ok (s.setEndTime (some t))) p r.suites = .ok ss') :
    (∃ x, findSuite p r.suites = some x) ∧ hdr p { r with suites := ss' } = some (some t) ∧
      (∀ q, q ≠ p → hdr q { r with suites := ss' } = hdr q r) ∧
      (∀ loc, resultAt loc { r with suites := ss' } = resultAt loc r) := by
  have hf : ∀ s s', (fun s => Except.ok (SuiteResult.setEndTime s (some t)) : SuiteResult → Except WriterErr SuiteResult) s = .ok s' →
      s'.md = s.md ∧ s'.suites = s.suites := by
    intro s s' e; injection e with e; subst e; cases s; exact ⟨rfl, rfl⟩
  obtain ⟨x, x', hx, hfx, hx', hh, hr⟩ := obs_modifySuite _ hf p r ss' h
  injection hfx with hfx
  subst hfx
  refine ⟨⟨x, hx⟩, ?_, hh, ?_⟩
  · simp only [hdr, hx']; cases x; rfl
  · intro loc
    rcases owner_cases loc with hs | ⟨q, hq⟩
    · rcases hs with rfl | rfl <;> rfl
    · by_cases hqp : q = p
      · subst hqp
        rw [resultAt_suite _ hq, resultAt_suite _ hq]
        show (findSuite q ss').bind _ = (findSuite q r.suites).bind _
        rw [hx, hx']
        cases x; cases loc <;> rfl
      · exact hr loc q hq hqp

/-! ### from observations back to the `safe` guards -/

theorem suiteOpen_of (g : SuiteResult → Bool) : ∀ (p : Path) (ss : List SuiteResult), p ≠ [] →
    (∀ k, k < p.length → (findSuite (p.take (k + 1)) ss).map (·.endTime) = some none) →
    (∀ s, findSuite p ss = some s → g s = true) → suiteOpen g p ss = true
  | [], _, h, _, _ => absurd rfl h
  | [n], ss, _, hk, hg => by
    have h0 := hk 0 (by simp)
    simp only [List.take, findSuite] at h0
    cases hf : ss.find? (fun s => s.md.name == n) with
    | none => rw [hf] at h0; simp at h0
    | some s =>
      rw [hf] at h0
      simp only [Option.map_some, Option.some.injEq] at h0
      simp only [suiteOpen, hf, h0, Option.isNone_none, Bool.true_and]
      exact hg s (by simpa [findSuite] using hf)
  | n :: m :: rest, ss, _, hk, hg => by
    have h0 := hk 0 (by simp)
    simp only [List.take, findSuite] at h0
    cases hf : ss.find? (fun s => s.md.name == n) with
    | none => rw [hf] at h0; simp at h0
    | some s =>
      rw [hf] at h0
      simp only [Option.map_some, Option.some.injEq] at h0
      simp only [suiteOpen, hf, h0, Option.isNone_none, Bool.true_and]
      refine suiteOpen_of g (m :: rest) s.suites (by simp) ?_ ?_
      · intro k hkl
        have := hk (k + 1) (by simp at hkl ⊢; omega)
        simp only [List.take_succ_cons] at this ⊢
        rw [findSuite_cons2, hf] at this
        exact this
      · intro s' hs'
        apply hg s'
        rw [findSuite_cons2, hf]
        exact hs'

theorem take_dropLast {l : Path} {k : Nat} (h : k + 2 ≤ l.length) : (l.take (k + 2)).dropLast = l.take (k + 1) := by
  by_cases hlt : k + 2 < l.length
  · rw [List.dropLast_take hlt]; rfl
  · have : k + 2 = l.length := by omega
    rw [List.take_of_length_le (by omega), List.dropLast_eq_take]
    congr 1
    omega

/-! ### association lists (`openSteps`, `active_steps`) -/

theorem lookup_mem {β : Type} : ∀ {l : List (Nat × β)} {t : Nat} {b : β}, l.lookup t = some b → (t, b) ∈ l
  | [], _, _, h => by simp [List.lookup] at h
  | (k, v) :: l, t, b, h => by
    simp only [List.lookup] at h
    by_cases hk : t = k
    · subst hk
      simp only [beq_self_eq_true] at h
      injection h with h
      subst h
      simp
    · have : (t == k) = false := by simpa using hk
      simp only [this] at h
      exact List.mem_cons_of_mem _ (lookup_mem h)

theorem lookup_none_keys {β : Type} : ∀ {l : List (Nat × β)} {t : Nat}, l.lookup t = none → t ∉ l.map (·.1)
  | [], _, _ => by simp
  | (k, v) :: l, t, h => by
    simp only [List.lookup] at h
    by_cases hk : t = k
    · subst hk; simp at h
    · have : (t == k) = false := by simpa using hk
      simp only [this] at h
      simp only [List.map_cons, List.mem_cons, not_or]
      exact ⟨hk, lookup_none_keys h⟩

theorem lookup_of_mem_nodup {β : Type} : ∀ {l : List (Nat × β)} {t : Nat} {b : β}, (l.map (·.1)).Nodup →
    (t, b) ∈ l → l.lookup t = some b
  | [], _, _, _, h => by simp at h
  | (k, v) :: l, t, b, hn, h => by
    simp only [List.map_cons, List.nodup_cons] at hn
    simp only [List.lookup]
    rcases List.mem_cons.mp h with heq | hm
    · injection heq with h1 h2
      subst h1 h2
      simp
    · have hk : t ≠ k := by
        intro e; subst e
        exact hn.1 (List.mem_map.mpr ⟨(t, b), hm, rfl⟩)
      have : (t == k) = false := by simpa using hk
      simp only [this]
      exact lookup_of_mem_nodup hn.2 hm

theorem lookup_erase_other {β : Type} [BEq β] [LawfulBEq β] : ∀ {l : List (Nat × β)} {t t' : Nat} {b : β}, t' ≠ t →
    (l.erase (t, b)).lookup t' = l.lookup t'
  | [], _, _, _, _ => rfl
  | (k, v) :: l, t, t', b, hne => by
    by_cases hkv : (k, v) = (t, b)
    · injection hkv with h1 h2
      subst h1 h2
      have : (t' == k) = false := by simpa using hne
      simp [List.lookup, this]
    · have : ((k, v) == (t, b)) = false := by simpa using hkv
      rw [List.erase_cons, this]
      simp only [Bool.false_eq_true, if_false, List.lookup]
      rw [lookup_erase_other hne]

theorem nodup_of_map {α β : Type} (f : α → β) : ∀ l : List α, (l.map f).Nodup → l.Nodup
  | [], _ => List.nodup_nil
  | a :: l, h => by
    simp only [List.map_cons, List.nodup_cons] at h ⊢
    exact ⟨fun hm => h.1 (List.mem_map.mpr ⟨a, hm, rfl⟩), nodup_of_map f l h.2⟩

theorem lookup_erase_self {β : Type} [BEq β] [LawfulBEq β] {l : List (Nat × β)} {t : Nat} {b : β}
    (hn : (l.map (·.1)).Nodup) (h : l.lookup t = some b) : (l.erase (t, b)).lookup t = none := by
  cases hx : (l.erase (t, b)).lookup t with
  | none => rfl
  | some b' =>
    exfalso
    have hm' := lookup_mem hx
    have hn' : ((l.erase (t, b)).map (·.1)).Nodup := List.Nodup.sublist (List.Sublist.map _ List.erase_sublist) hn
    have hmem : (t, b') ∈ l := List.mem_of_mem_erase hm'
    have := lookup_of_mem_nodup hn hmem
    rw [h] at this
    injection this with this
    subst this
    -- (t, b) is still in the erased list although the keys are distinct: impossible
    have hpair : l.Nodup := nodup_of_map _ l hn
    exact ((List.Nodup.mem_erase_iff hpair).mp hm').1 rfl

/-! ### invariants of the grammar state (strict mode) -/

structure GInv (g : Grammar.GState) : Prop where
  suitesNodup : g.openSuites.Nodup
  resultsNodup : g.openResults.Nodup
  stepKeysNodup : (g.openSteps.map (·.1)).Nodup
  stepInResult : ∀ x ∈ g.openSteps, x.2 ∈ g.openResults
  resultInSuite : ∀ loc ∈ g.openResults, ∀ q, Grammar.ownerSuite loc = some q → q ∈ g.openSuites
  parentOpen : ∀ p ∈ g.openSuites, p ≠ [] ∧ (p.dropLast ≠ [] → p.dropLast ∈ g.openSuites)

theorem ginv_init : GInv Grammar.init := by
  constructor <;> simp [Grammar.init]

theorem openResult_spec {g g' : Grammar.GState} {loc : Loc} (h : Grammar.openResult .parallel g loc = some g') :
    loc ∉ g.openResults ∧ g' = { g with openResults := loc :: g.openResults } := by
  simp only [Grammar.openResult, Grammar.Mode.parallel, Grammar.whenB, Bool.not_true, Bool.false_or, Bool.not_false,
    Bool.true_or, Bool.and_true] at h
  split at h
  · rename_i hc
    injection h with h
    refine ⟨?_, h.symm⟩
    simpa using hc
  · cases h

theorem closeResult_spec {g g' : Grammar.GState} {loc : Loc} (h : Grammar.closeResult .parallel g loc = some g') :
    loc ∈ g.openResults ∧ (∀ x ∈ g.openSteps, x.2 ≠ loc) ∧ g' = { g with openResults := g.openResults.erase loc } := by
  simp only [Grammar.closeResult, Grammar.Mode.parallel, Grammar.whenB, Bool.not_true, Bool.false_or] at h
  split at h
  · rename_i hc
    injection h with h
    simp only [Bool.and_eq_true, Grammar.stepOpenAt, Bool.not_eq_true', List.any_eq_false, beq_iff_eq] at hc
    refine ⟨by simpa using hc.1, ?_, h.symm⟩
    intro x hx
    exact hc.2 x hx
  · cases h

theorem ginv_open {g g' : Grammar.GState} {loc : Loc} (G : GInv g) (h : Grammar.openResult .parallel g loc = some g')
    (ho : ∀ q, Grammar.ownerSuite loc = some q → q ∈ g.openSuites) : GInv g' := by
  obtain ⟨hn, rfl⟩ := openResult_spec h
  exact {
    suitesNodup := G.suitesNodup
    resultsNodup := List.nodup_cons.mpr ⟨hn, G.resultsNodup⟩
    stepKeysNodup := G.stepKeysNodup
    stepInResult := fun x hx => List.mem_cons_of_mem _ (G.stepInResult x hx)
    resultInSuite := by
      intro l hl q hq
      rcases List.mem_cons.mp hl with rfl | hl
      · exact ho q hq
      · exact G.resultInSuite l hl q hq
    parentOpen := G.parentOpen }

theorem ginv_close {g g' : Grammar.GState} {loc : Loc} (G : GInv g) (h : Grammar.closeResult .parallel g loc = some g') :
    GInv g' := by
  obtain ⟨_, hs, rfl⟩ := closeResult_spec h
  exact {
    suitesNodup := G.suitesNodup
    resultsNodup := G.resultsNodup.erase _
    stepKeysNodup := G.stepKeysNodup
    stepInResult := fun x hx => (List.mem_erase_of_ne (hs x hx)).mpr (G.stepInResult x hx)
    resultInSuite := fun l hl q hq => G.resultInSuite l (List.mem_of_mem_erase hl) q hq
    parentOpen := G.parentOpen }

/-! ### the invariant linking the grammar state, the writer state and the history -/

structure Link (IR : List Loc) (IS : List Path) (g : Grammar.GState) (w : WriterState) : Prop where
  ginv : GInv g
  notEnded : g.phase ≠ .ended → w.report.endTime = none
  notStarted : g.phase = .notStarted → w.report.startTime = none
  suiteL : ∀ p ∈ g.openSuites, hdr p w.report = some none
  resultL : ∀ loc ∈ g.openResults, ∃ x, resultAt loc w.report = some x ∧ unfinished x = true
  stepL : ∀ tid loc, g.openSteps.lookup tid = some loc →
    ∃ idx, w.active.lookup tid = some ⟨some (loc, idx), none⟩ ∧
      ∃ x st, resultAt loc w.report = some x ∧ x.steps[idx]? = some st ∧ st.endTime = none
  stepDistinct : ∀ t1 t2 loc i1 i2, t1 ≠ t2 → g.openSteps.lookup t1 = some loc → g.openSteps.lookup t2 = some loc →
    w.active.lookup t1 = some ⟨some (loc, i1), none⟩ → w.active.lookup t2 = some ⟨some (loc, i2), none⟩ → i1 ≠ i2
  histR : ∀ loc, (resultAt loc w.report).isSome = true → loc ∈ IR
  histS : ∀ q, (hdr q w.report).isSome = true → q ∈ IS

/-- an initial report with nothing in it yet (title, info, thread count are free) -/
def Blank (r0 : Report) : Prop :=
  r0.suites = [] ∧ r0.setup = none ∧ r0.teardown = none ∧ r0.startTime = none ∧ r0.endTime = none

theorem hdr_blank {r0 : Report} (h : Blank r0) (q : Path) : hdr q r0 = none := by
  simp [hdr, h.1, findSuite_nil]

theorem resultAt_blank {r0 : Report} (h : Blank r0) (loc : Loc) : resultAt loc r0 = none := by
  cases loc <;> simp [resultAt, Grammar.ownerSuite, h.1, h.2.1, h.2.2.1, findSuite_nil]

theorem link_init {r0 : Report} (h : Blank r0) : Link [] [] Grammar.init (initState r0) := by
  refine ⟨ginv_init, fun _ => h.2.2.2.2, fun _ => h.2.2.2.1, ?_, ?_, ?_, ?_, ?_, ?_⟩
  · intro p hp; simp [Grammar.init] at hp
  · intro l hl; simp [Grammar.init] at hl
  · intro t l hl; simp [Grammar.init] at hl
  · intro t1 t2 l i1 i2 _ h1; simp [Grammar.init] at h1
  · intro l hl; rw [show (initState r0).report = r0 from rfl, resultAt_blank h] at hl; simp at hl
  · intro q hq; rw [show (initState r0).report = r0 from rfl, hdr_blank h] at hq; simp at hq

/-- all non-empty prefixes of an open suite path are open -/
theorem prefixes_open {g : Grammar.GState} (G : GInv g) {p : Path} (hp : p ∈ g.openSuites) :
    ∀ k, k < p.length → p.take (k + 1) ∈ g.openSuites := by
  intro k0 hk0
  -- induction on the distance to the full length
  have : ∀ d k, k + 1 + d = p.length → p.take (k + 1) ∈ g.openSuites := by
    intro d
    induction d with
    | zero => intro k hk; rw [List.take_of_length_le (by omega)]; exact hp
    | succ d ih =>
      intro k hk
      have hmem := ih (k + 1) (by omega)
      have hdl := take_dropLast (l := p) (k := k) (by omega)
      have hne : (p.take (k + 1 + 1)).dropLast ≠ [] := by
        rw [hdl]
        intro e
        have h2 : (p.take (k + 1)).length = 0 := by rw [e]; rfl
        rw [List.length_take] at h2
        omega
      have := (G.parentOpen _ hmem).2 hne
      rw [hdl] at this
      exact this
  exact this (p.length - (k0 + 1)) k0 (by omega)

theorem pathOpen_of_mem {IR IS g w} (L : Link IR IS g w) {p : Path} (hp : p ∈ g.openSuites) :
    p ≠ [] ∧ ∀ k, k < p.length → hdr (p.take (k + 1)) w.report = some none :=
  ⟨(L.ginv.parentOpen p hp).1, fun k hk => L.suiteL _ (prefixes_open L.ginv hp k hk)⟩

theorem suiteOpen_of_link {IR IS g w} (L : Link IR IS g w) (g0 : SuiteResult → Bool) {p : Path}
    (hp : p ∈ g.openSuites) (hg : ∀ s, findSuite p w.report.suites = some s → g0 s = true) :
    suiteOpen g0 p w.report.suites = true := by
  obtain ⟨hne, hk⟩ := pathOpen_of_mem L hp
  exact suiteOpen_of g0 p w.report.suites hne hk hg

theorem resultOpen_of (gr : Result → Bool) (loc : Loc) (r : Report) (x : Result)
    (hpath : ∀ q, Grammar.ownerSuite loc = some q → q ≠ [] ∧ ∀ k, k < q.length → hdr (q.take (k + 1)) r = some none)
    (hx : resultAt loc r = some x) (hg : gr x = true) : resultOpen gr loc r = true := by
  cases loc with
  | sessionSetup => simp only [resultAt] at hx; simp [resultOpen, hx, optResultIs, hg]
  | sessionTeardown => simp only [resultAt] at hx; simp [resultOpen, hx, optResultIs, hg]
  | suiteSetup p =>
    obtain ⟨hne, hk⟩ := hpath p rfl
    rw [resultAt_suite r (q := p) rfl] at hx
    refine suiteOpen_of _ p r.suites hne hk ?_
    intro s hs
    rw [hs] at hx
    simp only [Option.bind_some, resultIn] at hx
    simp [hx, optResultIs, hg]
  | suiteTeardown p =>
    obtain ⟨hne, hk⟩ := hpath p rfl
    rw [resultAt_suite r (q := p) rfl] at hx
    refine suiteOpen_of _ p r.suites hne hk ?_
    intro s hs
    rw [hs] at hx
    simp only [Option.bind_some, resultIn] at hx
    simp [hx, optResultIs, hg]
  | test p =>
    obtain ⟨hne, hk⟩ := hpath p.dropLast rfl
    rw [resultAt_suite r (q := p.dropLast) rfl] at hx
    simp only [resultOpen]
    cases hl : p.getLast? with
    | none =>
      exfalso
      cases hf : findSuite p.dropLast r.suites with
      | none => rw [hf] at hx; simp at hx
      | some s => rw [hf] at hx; simp [resultIn, hl] at hx
    | some last =>
      refine suiteOpen_of _ p.dropLast r.suites hne hk ?_
      intro s hs
      rw [hs] at hx
      simp only [Option.bind_some, resultIn, hl] at hx
      cases hft : s.tests.find? (fun t => t.md.name == last) with
      | none => rw [hft] at hx; simp at hx
      | some t =>
        rw [hft] at hx
        simp only [Option.map_some, Option.some.injEq] at hx
        simp [hx, hg]

theorem resultOpen_of_link {IR IS g w} (L : Link IR IS g w) (gr : Result → Bool) {loc : Loc} {x : Result}
    (ho : ∀ q, Grammar.ownerSuite loc = some q → q ∈ g.openSuites)
    (hx : resultAt loc w.report = some x) (hg : gr x = true) : resultOpen gr loc w.report = true :=
  resultOpen_of gr loc w.report x (fun q hq => pathOpen_of_mem L (ho q hq)) hx hg

/-! ### an accepted event targets nothing finished -/

theorem resultAt_none_of_fresh {IR IS g w} (L : Link IR IS g w) {loc : Loc} (h : loc ∉ IR) :
    resultAt loc w.report = none := by
  cases hx : resultAt loc w.report with
  | none => rfl
  | some x => exact absurd (L.histR loc (by rw [hx]; rfl)) h

theorem owner_open {IR IS g w} (L : Link IR IS g w) {loc : Loc} (h : loc ∈ g.openResults) :
    ∀ q, Grammar.ownerSuite loc = some q → q ∈ g.openSuites := L.ginv.resultInSuite loc h

/-- ending / extending the result at an open location is safe -/
theorem resultOpen_open {IR IS g w} (L : Link IR IS g w) {loc : Loc} (h : loc ∈ g.openResults) :
    resultOpen unfinished loc w.report = true := by
  obtain ⟨x, hx, hu⟩ := L.resultL loc h
  exact resultOpen_of_link L unfinished (owner_open L h) hx hu

/-- a new test in an open suite: no test of that name yet -/
theorem newTestOk_of {IR IS g w} (L : Link IR IS g w) {p : Path} {name : String}
    (hp : p.dropLast ∈ g.openSuites) (hlast : p.getLast? = some name) (hfr : Loc.test p ∉ IR) :
    newTestOk p.dropLast name w.report = true := by
  refine suiteOpen_of_link L _ hp ?_
  intro s hs
  have := resultAt_none_of_fresh L hfr
  rw [resultAt_suite _ (q := p.dropLast) rfl, hs] at this
  simp only [Option.bind_some, resultIn, hlast, Option.map_eq_none_iff] at this
  simp only [List.all_eq_true, bne_iff_ne, ne_eq]
  intro t ht
  have := List.find?_eq_none.mp this t ht
  simpa using this

/-- the step the grammar has open for `tid` is an open step of an unfinished result in open suites -/
theorem refOpen_of {IR IS g w} (L : Link IR IS g w) {tid : Nat} {loc : Loc}
    (h : g.openSteps.lookup tid = some loc) : refOpen w tid = true := by
  obtain ⟨idx, ha, x, st, hx, hst, hend⟩ := L.stepL tid loc h
  have hmem : loc ∈ g.openResults := L.ginv.stepInResult _ (lookup_mem h)
  obtain ⟨x', hx', hu⟩ := L.resultL loc hmem
  rw [hx] at hx'
  injection hx' with hx'
  subst hx'
  simp only [refOpen, ha]
  refine resultOpen_of_link L _ (owner_open L hmem) hx ?_
  simp [hu, stepOpenAt, hst, Step.finished, hend]

theorem contains_mem {α : Type} [BEq α] [LawfulBEq α] {l : List α} {a : α} (h : l.contains a = true) : a ∈ l :=
  List.contains_iff_mem.mp h

/-- what the grammar (strict, parallel) says when it accepts an event other than the session start -/
theorem step_running {g g' : Grammar.GState} {e : Event} (h : Grammar.step .parallel g e = some g')
    (hne : ∀ t, e ≠ .sessionStart t) : g.phase = .running := by
  unfold Grammar.step at h
  split at h
  · cases h
  · split at h
    · rename_i t _; exact absurd rfl (hne t)
    · split at h
      · cases h
      · rename_i hp; simpa using hp

theorem link_safe {IR : List Loc} {IS : List Path} {g g' : Grammar.GState} {w : WriterState} {e : Event}
    (L : Link IR IS g w) (hg : Grammar.step .parallel g e = some g')
    (hfr : ∀ loc, Grammar.introduces e = some loc → loc ∉ IR) : safe w e = true := by
  cases e with
  | sessionStart t =>
    simp only [Grammar.step] at hg
    split at hg
    · cases hg
    · split at hg
      · rename_i hp
        have hp : g.phase = .notStarted := by simpa using hp
        simp [safe, L.notEnded (by rw [hp]; simp), L.notStarted hp]
      · cases hg
  | sessionEnd t =>
    have hr := step_running hg (by simp)
    simp [safe, L.notEnded (by rw [hr]; simp)]
  | sessionSetupStart t =>
    have hr := step_running hg (by simp)
    have := resultAt_none_of_fresh L (hfr .sessionSetup rfl)
    simp only [resultAt] at this
    simp [safe, L.notEnded (by rw [hr]; simp), this]
  | sessionTeardownStart t =>
    have hr := step_running hg (by simp)
    have := resultAt_none_of_fresh L (hfr .sessionTeardown rfl)
    simp only [resultAt] at this
    simp [safe, L.notEnded (by rw [hr]; simp), this]
  | sessionSetupEnd t =>
    have hr := step_running hg (by simp)
    simp only [Grammar.step, hr] at hg
    split at hg
    · cases hg
    · simp only [bne_self_eq_false, Bool.false_eq_true, if_false] at hg
      simp [safe, L.notEnded (by rw [hr]; simp), resultOpen_open L (closeResult_spec hg).1]
  | sessionTeardownEnd t =>
    have hr := step_running hg (by simp)
    simp only [Grammar.step, hr] at hg
    split at hg
    · cases hg
    · simp only [bne_self_eq_false, Bool.false_eq_true, if_false] at hg
      simp [safe, L.notEnded (by rw [hr]; simp), resultOpen_open L (closeResult_spec hg).1]
  | suiteSetupEnd p t =>
    have hr := step_running hg (by simp)
    simp only [Grammar.step, hr] at hg
    split at hg
    · cases hg
    · simp only [bne_self_eq_false, Bool.false_eq_true, if_false] at hg
      simp [safe, L.notEnded (by rw [hr]; simp), resultOpen_open L (closeResult_spec hg).1]
  | suiteTeardownEnd p t =>
    have hr := step_running hg (by simp)
    simp only [Grammar.step, hr] at hg
    split at hg
    · cases hg
    · simp only [bne_self_eq_false, Bool.false_eq_true, if_false] at hg
      simp [safe, L.notEnded (by rw [hr]; simp), resultOpen_open L (closeResult_spec hg).1]
  | testEnd p t =>
    have hr := step_running hg (by simp)
    simp only [Grammar.step, hr] at hg
    split at hg
    · cases hg
    · simp only [bne_self_eq_false, Bool.false_eq_true, if_false] at hg
      simp [safe, L.notEnded (by rw [hr]; simp), resultOpen_open L (closeResult_spec hg).1]
  | suiteStart p md t =>
    have hr := step_running hg (by simp)
    simp only [Grammar.step, hr] at hg
    split at hg
    · cases hg
    · simp only [bne_self_eq_false, Bool.false_eq_true, if_false] at hg
      split at hg
      · rename_i hc
        simp only [Bool.and_eq_true, Grammar.parentOpen, Bool.or_eq_true] at hc
        simp only [safe, L.notEnded (by rw [hr]; simp), Option.isNone_none, Bool.true_and]
        cases hd : p.dropLast with
        | nil => rfl
        | cons a b =>
          have hmem : p.dropLast ∈ g.openSuites := by
            rcases hc.1.1.1.2 with h1 | h1
            · rw [hd] at h1; simp at h1
            · exact contains_mem h1
          have := suiteOpen_of_link L (fun _ => true) hmem (fun _ _ => rfl)
          rw [hd] at this
          exact this
      · cases hg
  | suiteEnd p t =>
    have hr := step_running hg (by simp)
    simp only [Grammar.step, hr] at hg
    split at hg
    · cases hg
    · simp only [bne_self_eq_false, Bool.false_eq_true, if_false] at hg
      split at hg
      · rename_i hc
        simp only [Bool.and_eq_true] at hc
        simp [safe, L.notEnded (by rw [hr]; simp),
          suiteOpen_of_link L (fun _ => true) (contains_mem hc.1.1) (fun _ _ => rfl)]
      · cases hg
  | suiteSetupStart p t =>
    have hr := step_running hg (by simp)
    simp only [Grammar.step, hr] at hg
    split at hg
    · cases hg
    · simp only [bne_self_eq_false, Bool.false_eq_true, if_false] at hg
      split at hg
      · rename_i hc
        have hfresh := resultAt_none_of_fresh L (hfr (.suiteSetup p) rfl)
        simp only [safe, L.notEnded (by rw [hr]; simp), Option.isNone_none, Bool.true_and]
        refine suiteOpen_of_link L _ (contains_mem hc) ?_
        intro s hs
        rw [resultAt_suite _ (q := p) rfl, hs] at hfresh
        simp only [Option.bind_some, resultIn] at hfresh
        simp [hfresh]
      · cases hg
  | suiteTeardownStart p t =>
    have hr := step_running hg (by simp)
    simp only [Grammar.step, hr] at hg
    split at hg
    · cases hg
    · simp only [bne_self_eq_false, Bool.false_eq_true, if_false] at hg
      split at hg
      · rename_i hc
        have hfresh := resultAt_none_of_fresh L (hfr (.suiteTeardown p) rfl)
        simp only [safe, L.notEnded (by rw [hr]; simp), Option.isNone_none, Bool.true_and]
        refine suiteOpen_of_link L _ (contains_mem hc) ?_
        intro s hs
        rw [resultAt_suite _ (q := p) rfl, hs] at hfresh
        simp only [Option.bind_some, resultIn] at hfresh
        simp [hfresh]
      · cases hg
  | testStart p md t =>
    have hr := step_running hg (by simp)
    simp only [Grammar.step, hr] at hg
    split at hg
    · cases hg
    · simp only [bne_self_eq_false, Bool.false_eq_true, if_false] at hg
      split at hg
      · rename_i hc
        simp only [Bool.and_eq_true, Grammar.named, beq_iff_eq] at hc
        simp only [safe, L.notEnded (by rw [hr]; simp), Option.isNone_none, Bool.true_and]
        exact newTestOk_of L (contains_mem hc.1.2) hc.2 (hfr (.test p) rfl)
      · cases hg
  | testSkipped p md reason t =>
    have hr := step_running hg (by simp)
    simp only [Grammar.step, hr, Grammar.bypass] at hg
    split at hg
    · cases hg
    · simp only [bne_self_eq_false, Bool.false_eq_true, if_false] at hg
      split at hg
      · rename_i hc
        simp only [Bool.and_eq_true, Grammar.named, beq_iff_eq] at hc
        simp only [safe, L.notEnded (by rw [hr]; simp), Option.isNone_none, Bool.true_and]
        exact newTestOk_of L (contains_mem hc.1.1.1.2) hc.1.1.2 (hfr (.test p) rfl)
      · cases hg
  | testDisabled p md reason t =>
    have hr := step_running hg (by simp)
    simp only [Grammar.step, hr, Grammar.bypass] at hg
    split at hg
    · cases hg
    · simp only [bne_self_eq_false, Bool.false_eq_true, if_false] at hg
      split at hg
      · rename_i hc
        simp only [Bool.and_eq_true, Grammar.named, beq_iff_eq] at hc
        simp only [safe, L.notEnded (by rw [hr]; simp), Option.isNone_none, Bool.true_and]
        exact newTestOk_of L (contains_mem hc.1.1.1.2) hc.1.1.2 (hfr (.test p) rfl)
      · cases hg
  | stepStart loc d tid t =>
    have hr := step_running hg (by simp)
    simp only [Grammar.step, hr] at hg
    split at hg
    · cases hg
    · simp only [bne_self_eq_false, Bool.false_eq_true, if_false] at hg
      split at hg
      · rename_i hc
        simp only [Bool.and_eq_true] at hc
        simp [safe, L.notEnded (by rw [hr]; simp), resultOpen_open L (contains_mem hc.1)]
      · cases hg
  | stepEnd loc d tid t =>
    have hr := step_running hg (by simp)
    simp only [Grammar.step, hr] at hg
    split at hg
    · cases hg
    · simp only [bne_self_eq_false, Bool.false_eq_true, if_false] at hg
      split at hg
      · rename_i hc
        simp [safe, L.notEnded (by rw [hr]; simp), refOpen_of L (by simpa using hc)]
      · cases hg
  | log loc st tid level msg t =>
    have hr := step_running hg (by simp)
    simp only [Grammar.step, hr, Grammar.logOk] at hg
    split at hg
    · cases hg
    · simp only [bne_self_eq_false, Bool.false_eq_true, if_false] at hg
      split at hg
      · rename_i hc
        simp [safe, L.notEnded (by rw [hr]; simp), refOpen_of L (by simpa using hc)]
      · cases hg
  | check loc st tid d ok det t =>
    have hr := step_running hg (by simp)
    simp only [Grammar.step, hr, Grammar.logOk] at hg
    split at hg
    · cases hg
    · simp only [bne_self_eq_false, Bool.false_eq_true, if_false] at hg
      split at hg
      · rename_i hc
        simp [safe, L.notEnded (by rw [hr]; simp), refOpen_of L (by simpa using hc)]
      · cases hg
  | attachment loc st tid path d img t =>
    have hr := step_running hg (by simp)
    simp only [Grammar.step, hr, Grammar.logOk] at hg
    split at hg
    · cases hg
    · simp only [bne_self_eq_false, Bool.false_eq_true, if_false] at hg
      split at hg
      · rename_i hc
        simp [safe, L.notEnded (by rw [hr]; simp), refOpen_of L (by simpa using hc)]
      · cases hg
  | url loc st tid u d t =>
    have hr := step_running hg (by simp)
    simp only [Grammar.step, hr, Grammar.logOk] at hg
    split at hg
    · cases hg
    · simp only [bne_self_eq_false, Bool.false_eq_true, if_false] at hg
      split at hg
      · rename_i hc
        simp [safe, L.notEnded (by rw [hr]; simp), refOpen_of L (by simpa using hc)]
      · cases hg

/-! ### small facts needed for the preservation proof -/

theorem lookup_detach {loc : Loc} : ∀ {act : List (Nat × StepRef)} {tid : Nat} {l : Loc} {idx : Nat} {en : Option Time},
    act.lookup tid = some ⟨some (l, idx), en⟩ → l ≠ loc → (detach loc act).lookup tid = some ⟨some (l, idx), en⟩
  | [], _, _, _, _, h, _ => by simp [List.lookup] at h
  | (k, ref) :: act, tid, l, idx, en, h, hne => by
    simp only [List.lookup] at h
    simp only [detach, List.map_cons]
    by_cases hk : tid = k
    · subst hk
      simp only [beq_self_eq_true] at h
      injection h with h
      subst h
      simp [List.lookup, hne]
    · have hb : (tid == k) = false := by simpa using hk
      simp only [hb] at h
      have ih := lookup_detach (loc := loc) h hne
      simp only [detach] at ih
      cases hr : ref.target with
      | none => simp [List.lookup, hb, ih]
      | some tg =>
        obtain ⟨l', i'⟩ := tg
        by_cases hl : l' = loc <;> simp [List.lookup, hb, ih, hl]

theorem getElem?_modifyNth {α : Type} (f : α → α) : ∀ (n : Nat) (xs : List α) (j : Nat),
    (modifyNth f n xs)[j]? = if j = n then (xs[j]?).map f else xs[j]?
  | _, [], j => by simp [modifyNth]
  | 0, x :: xs, j => by
    cases j with
    | zero => simp [modifyNth]
    | succ j => simp [modifyNth]
  | n + 1, x :: xs, j => by
    cases j with
    | zero => simp [modifyNth]
    | succ j =>
      simp only [modifyNth, List.getElem?_cons_succ, Nat.add_right_cancel_iff]
      exact getElem?_modifyNth f n xs j

theorem obs_times (r r' : Report) (h1 : r'.suites = r.suites) (h2 : r'.setup = r.setup) (h3 : r'.teardown = r.teardown) :
    (∀ q, hdr q r' = hdr q r) ∧ ∀ loc, resultAt loc r' = resultAt loc r := by
  refine ⟨fun q => by simp [hdr, h1], ?_⟩
  intro loc
  rcases owner_cases loc with hs | ⟨q, hq⟩
  · rcases hs with rfl | rfl <;> simp [resultAt, h2, h3]
  · rw [resultAt_suite _ hq, resultAt_suite _ hq, h1]

/-! error propagation: `stepCount` reads the length of the step list of the very result `modifyResult` addresses -/

theorem modifyFirst_err {α ε : Type} (p : α → Bool) (F1 F2 : α → Except ε α) (nf : ε) (e : ε) :
    ∀ (xs ys : List α), modifyFirst p F1 nf xs = .ok ys →
      (∀ x, xs.find? p = some x → F2 x = .error e) → modifyFirst p F2 nf xs = .error e
  | [], _, h, _ => by simp [modifyFirst] at h
  | x :: xs, ys, h, h2 => by
    simp only [modifyFirst] at h ⊢
    by_cases hp : p x = true
    · simp only [hp, if_true]
      rw [h2 x (by simp [List.find?, hp])]
    · simp only [hp, Bool.false_eq_true, if_false] at h ⊢
      cases hr : modifyFirst p F1 nf xs with
      | error e' => rw [hr] at h; cases h
      | ok zs =>
        rw [modifyFirst_err p F1 F2 nf e xs zs hr (fun y hy => h2 y (by
          simp only [Bool.not_eq_true] at hp
          simp [List.find?, hp, hy]))]

theorem modifySuite_err (F1 F2 : SuiteResult → Except WriterErr SuiteResult) (e : WriterErr) :
    ∀ (p : Path) (ss ss' : List SuiteResult), modifySuite F1 p ss = .ok ss' →
      (∀ x, findSuite p ss = some x → F2 x = .error e) → modifySuite F2 p ss = .error e
  | [], _, _, h, _ => by simp [modifySuite] at h
  | [n], ss, ss', h, h2 => by
    simp only [modifySuite] at h ⊢
    exact modifyFirst_err _ F1 F2 _ e ss ss' h (fun x hx => h2 x (by simpa [findSuite] using hx))
  | n :: m :: rest, ss, ss', h, h2 => by
    rw [modifySuite_cons2] at h ⊢
    refine modifyFirst_err _ _ _ _ e ss ss' h ?_
    intro x hx
    obtain ⟨y, y', hy, hFy, _⟩ := find_modifyFirst_same _ _ ss ss' h (@liftSub_name F1 (m :: rest))
    rw [hx] at hy
    injection hy with hy
    subst hy
    obtain ⟨sub, hsub, _⟩ := liftSub_ok hFy
    unfold liftSub
    rw [modifySuite_err F1 F2 e (m :: rest) x.suites sub hsub (fun z hz => h2 z (by
      rw [findSuite_cons2, hx]; exact hz))]

theorem liftSuites_err (r : Report) (e : WriterErr) : liftSuites r (.error e) = .error e := rfl

/-- if `modifyResult f1 loc` gets through, `modifyResult f2 loc` fails exactly as `f2` fails on the result at `loc` -/
theorem modifyResult_err (f1 f2 : Result → Except WriterErr Result) (e : WriterErr) (loc : Loc) (r r1 : Report)
    (h : modifyResult f1 loc r = .ok r1) (h2 : ∀ x, resultAt loc r = some x → f2 x = .error e) :
    modifyResult f2 loc r = .error e := by
  cases loc with
  | sessionSetup =>
    simp only [modifyResult] at h ⊢
    split at h
    · cases h
    · rename_i x hx
      rw [h2 x (by simpa [resultAt] using hx)]
  | sessionTeardown =>
    simp only [modifyResult] at h ⊢
    split at h
    · cases h
    · rename_i x hx
      rw [h2 x (by simpa [resultAt] using hx)]
  | suiteSetup p =>
    simp only [modifyResult] at h ⊢
    obtain ⟨ss', hss, _⟩ := liftSuites_ok h
    rw [modifySuite_err _ _ e p r.suites ss' hss ?_]
    · rfl
    · intro s hs
      obtain ⟨⟨y, hy⟩, hall⟩ := findSuite_modifySuite _ (by
        intro s s' e'
        split at e'
        · cases e'
        · split at e'
          · injection e' with e'; subst e'; cases s; exact ⟨rfl, rfl⟩
          · cases e') p r.suites ss' hss
      have hp := hall p
      rw [hs] at hp
      cases hx' : findSuite p ss' with
      | none => rw [hx'] at hp; simp [FoundRel] at hp
      | some s' =>
        rw [hx'] at hp
        simp only [FoundRel, if_true] at hp
        split at hp
        · cases hp
        · rename_i x hx
          rw [h2 x (by rw [resultAt_suite r (q := p) rfl, hs]; simpa [resultIn] using hx)]
  | suiteTeardown p =>
    simp only [modifyResult] at h ⊢
    obtain ⟨ss', hss, _⟩ := liftSuites_ok h
    rw [modifySuite_err _ _ e p r.suites ss' hss ?_]
    · rfl
    · intro s hs
      obtain ⟨⟨y, hy⟩, hall⟩ := findSuite_modifySuite _ (by
        intro s s' e'
        split at e'
        · cases e'
        · split at e'
          · injection e' with e'; subst e'; cases s; exact ⟨rfl, rfl⟩
          · cases e') p r.suites ss' hss
      have hp := hall p
      rw [hs] at hp
      cases hx' : findSuite p ss' with
      | none => rw [hx'] at hp; simp [FoundRel] at hp
      | some s' =>
        rw [hx'] at hp
        simp only [FoundRel, if_true] at hp
        split at hp
        · cases hp
        · rename_i x hx
          rw [h2 x (by rw [resultAt_suite r (q := p) rfl, hs]; simpa [resultIn] using hx)]
  | test p =>
    simp only [modifyResult] at h ⊢
    obtain ⟨ss', hss, _⟩ := liftSuites_ok h
    simp only [modifyTest] at hss ⊢
    split at hss
    · cases hss
    · rename_i last hl
      rw [modifySuite_err _ _ e p.dropLast r.suites ss' hss ?_]
      · rfl
      · intro s hs
        obtain ⟨⟨y, hy⟩, hall⟩ := findSuite_modifySuite _ (by
          intro s s' e'
          split at e'
          · injection e' with e'; subst e'; cases s; exact ⟨rfl, rfl⟩
          · cases e') p.dropLast r.suites ss' hss
        have hp := hall p.dropLast
        rw [hs] at hp
        cases hx' : findSuite p.dropLast ss' with
        | none => rw [hx'] at hp; simp [FoundRel] at hp
        | some s' =>
          rw [hx'] at hp
          simp only [FoundRel, if_true] at hp
          split at hp
          · rename_i ts hts
            rw [modifyFirst_err _ _ _ _ e s.tests ts hts ?_]
            intro t ht
            have := h2 t.result (by
              rw [resultAt_suite r (q := p.dropLast) rfl, hs]
              simp [resultIn, hl, ht])
            simp only [this]
          · cases hp

theorem stepCount_spec {loc : Loc} {r r' : Report} {n : Nat} {f : Result → Except WriterErr Result}
    (hc : stepCount loc r = .ok n) (hm : modifyResult f loc r = .ok r') :
    ∃ x, resultAt loc r = some x ∧ n = x.steps.length := by
  obtain ⟨x, _, hx, _⟩ := modifyResult_obs f loc r r' hm
  refine ⟨x, hx, ?_⟩
  have := modifyResult_err f (fun y => .error (.probe y.steps.length)) (.probe x.steps.length) loc r r' hm (by
    intro y hy
    rw [hx] at hy
    injection hy with hy
    subst hy
    rfl)
  simp only [stepCount, this] at hc
  injection hc with hc
  exact hc.symm

/-! ### preservation of the invariant, by kind of event -/

theorem onReport_active {w w' : WriterState} {x : Except WriterErr Report} (h : onReport w x = .ok w') :
    w'.active = w.active := by
  cases x with
  | error e => simp [onReport] at h
  | ok r => simp only [onReport] at h; injection h with h; subst h; rfl

theorem onResultStart_active {loc : Loc} {w w' : WriterState} {x : Except WriterErr Report}
    (h : onResultStart loc w x = .ok w') : w'.active = detach loc w.active := by
  cases x with
  | error e => simp [onResultStart] at h
  | ok r => simp only [onResultStart] at h; injection h with h; subst h; rfl

/-- a result ends -/
theorem link_resultEnd {IR : List Loc} {IS : List Path} {g g' : Grammar.GState} {w w' : WriterState} {loc : Loc}
    {t : Time} (L : Link IR IS g w) (hg : Grammar.closeResult .parallel g loc = some g')
    (hw : onReport w (modifyResult (fun x => .ok (finalizeResult t x)) loc w.report) = .ok w')
    (hrun : g.phase = .running) : Link IR IS g' w' := by
  have G' := ginv_close L.ginv hg
  obtain ⟨hmem, hsteps, rfl⟩ := closeResult_spec hg
  have hact := onReport_active hw
  obtain ⟨x, x', hx, _, hx', hother, hhdr, hend, hstart⟩ := modifyResult_obs _ loc w.report w'.report (onReport_ok hw)
  refine ⟨G', ?_, ?_, ?_, ?_, ?_, ?_, ?_, ?_⟩
  · intro hp; rw [hend]; exact L.notEnded hp
  · intro hp; simp only at hp; rw [hrun] at hp; cases hp
  · intro p hp; rw [hhdr]; exact L.suiteL p hp
  · intro l hl
    have := (List.Nodup.mem_erase_iff L.ginv.resultsNodup).mp hl
    rw [hother l this.1]
    exact L.resultL l this.2
  · intro tid l hl
    have hne : l ≠ loc := hsteps _ (lookup_mem hl)
    rw [hact, hother l hne]
    exact L.stepL tid l hl
  · intro t1 t2 l i1 i2 hne h1 h2
    rw [hact]
    exact L.stepDistinct t1 t2 l i1 i2 hne h1 h2
  · intro l hl
    by_cases hll : l = loc
    · subst hll; exact L.histR l (by rw [hx]; rfl)
    · rw [hother l hll] at hl; exact L.histR l hl
  · intro q hq; rw [hhdr] at hq; exact L.histS q hq

/-- a new result appears at `loc` (a start, or a skipped / disabled test) -/
theorem link_newResult {IR : List Loc} {IS : List Path} {g g' : Grammar.GState} {w w' : WriterState} {loc : Loc}
    {x0 : Result} (L : Link IR IS g w) (G' : GInv g') (hphase : g'.phase = g.phase)
    (hsu : g'.openSuites = g.openSuites) (hst : g'.openSteps = g.openSteps) (hnot : loc ∉ g.openResults)
    (hres : ∀ l ∈ g'.openResults, l ∈ g.openResults ∨ (l = loc ∧ unfinished x0 = true))
    (hact : w'.active = detach loc w.active) (hx0 : resultAt loc w'.report = some x0)
    (hother : ∀ l, l ≠ loc → resultAt l w'.report = resultAt l w.report)
    (hh : ∀ q, hdr q w'.report = hdr q w.report)
    (hend : w'.report.endTime = w.report.endTime) (hstart : w'.report.startTime = w.report.startTime) :
    Link (IR ++ [loc]) IS g' w' := by
  have hstep_ne : ∀ tid l, g.openSteps.lookup tid = some l → l ≠ loc := by
    intro tid l hl e
    subst e
    exact hnot (L.ginv.stepInResult _ (lookup_mem hl))
  refine ⟨G', ?_, ?_, ?_, ?_, ?_, ?_, ?_, ?_⟩
  · intro hp; rw [hend]; exact L.notEnded (by rw [← hphase]; exact hp)
  · intro hp; rw [hstart]; exact L.notStarted (by rw [← hphase]; exact hp)
  · intro p hp; rw [hh]; exact L.suiteL p (by rw [← hsu]; exact hp)
  · intro l hl
    rcases hres l hl with h1 | ⟨rfl, hu⟩
    · have hne : l ≠ loc := fun e => hnot (e ▸ h1)
      rw [hother l hne]; exact L.resultL l h1
    · exact ⟨x0, hx0, hu⟩
  · intro tid l hl
    rw [hst] at hl
    have hne := hstep_ne tid l hl
    obtain ⟨idx, ha, rest⟩ := L.stepL tid l hl
    refine ⟨idx, ?_, ?_⟩
    · rw [hact]; exact lookup_detach ha hne
    · rw [hother l hne]; exact rest
  · intro t1 t2 l i1 i2 hne h1 h2 a1 a2
    rw [hst] at h1 h2
    have hne1 := hstep_ne t1 l h1
    obtain ⟨j1, b1, _⟩ := L.stepL t1 l h1
    obtain ⟨j2, b2, _⟩ := L.stepL t2 l h2
    rw [hact, lookup_detach b1 hne1] at a1
    rw [hact, lookup_detach b2 hne1] at a2
    injection a1 with a1; injection a1 with a1; injection a1 with a1; injection a1 with _ a1
    injection a2 with a2; injection a2 with a2; injection a2 with a2; injection a2 with _ a2
    subst a1 a2
    exact L.stepDistinct t1 t2 l j1 j2 hne h1 h2 b1 b2
  · intro l hl
    by_cases hll : l = loc
    · subst hll; simp
    · rw [hother l hll] at hl
      exact List.mem_append_left _ (L.histR l hl)
  · intro q hq; rw [hh] at hq; exact L.histS q hq

theorem initSuite_suites (md : Meta) (t : Time) : (initSuite md t).suites = [] := rfl
theorem initSuite_name (md : Meta) (t : Time) : (initSuite md t).md.name = md.name := rfl

/-- a suite starts -/
theorem link_suiteStart {IR : List Loc} {IS : List Path} {g : Grammar.GState} {w w' : WriterState} {p : Path}
    {md : Meta} {t : Time} (L : Link IR IS g w) (hp : p ∉ g.openSuites) (hne : p ≠ [])
    (hpar : p.dropLast ≠ [] → p.dropLast ∈ g.openSuites) (hnamed : p.getLast? = some md.name) (hfs : p ∉ IS)
    (hw : Writer.apply w (.suiteStart p md t) = .ok w') :
    Link IR (IS ++ [p]) { g with openSuites := p :: g.openSuites } w' := by
  have hP : p.dropLast ++ [md.name] = p := dropLast_append_last hnamed
  -- the effect on the observations
  have heff : w'.active = w.active ∧ w'.report.endTime = w.report.endTime ∧ w'.report.startTime = w.report.startTime ∧
      (∀ q v, hdr q w.report = some v → hdr q w'.report = some v) ∧
      (∀ q, hdr q w.report = none → hdr q w'.report = if q = p then some none else none) ∧
      (∀ loc, resultAt loc w'.report = resultAt loc w.report) := by
    simp only [Writer.apply] at hw
    split at hw
    · rename_i hd
      injection hw with hw
      subst hw
      have hrel := findSuite_append (initSuite md t) (initSuite_suites md t) w.report.suites
      rw [initSuite_name] at hrel
      have : ([md.name] : Path) = p := by rw [← hP, hd]; rfl
      rw [this] at hrel
      obtain ⟨h1, h2, h3⟩ := obs_of_appendRel md t p w.report _ hrel
      exact ⟨rfl, rfl, rfl, h1, h2, h3⟩
    · rename_i parent hd
      obtain ⟨ss', hss, hr⟩ := liftSuites_ok (onReport_ok hw)
      have hact := onReport_active hw
      obtain ⟨_, hrel⟩ := findSuite_modifySuite_append (initSuite md t) (initSuite_suites md t) p.dropLast w.report.suites ss' hss
      rw [initSuite_name, hP] at hrel
      obtain ⟨h1, h2, h3⟩ := obs_of_appendRel md t p w.report ss' hrel
      rw [hr]
      exact ⟨hact, rfl, rfl, h1, h2, h3⟩
  obtain ⟨hact, hend, hstart, hsome, hnone, hres⟩ := heff
  have hnew : hdr p w.report = none := by
    cases hx : hdr p w.report with
    | none => rfl
    | some v => exact absurd (L.histS p (by rw [hx]; rfl)) hfs
  have G' : GInv { g with openSuites := p :: g.openSuites } := {
    suitesNodup := List.nodup_cons.mpr ⟨hp, L.ginv.suitesNodup⟩
    resultsNodup := L.ginv.resultsNodup
    stepKeysNodup := L.ginv.stepKeysNodup
    stepInResult := L.ginv.stepInResult
    resultInSuite := fun l hl q hq => List.mem_cons_of_mem _ (L.ginv.resultInSuite l hl q hq)
    parentOpen := by
      intro q hq
      rcases List.mem_cons.mp hq with rfl | hq
      · exact ⟨hne, fun h => List.mem_cons_of_mem _ (hpar h)⟩
      · exact ⟨(L.ginv.parentOpen q hq).1, fun h => List.mem_cons_of_mem _ ((L.ginv.parentOpen q hq).2 h)⟩ }
  refine ⟨G', ?_, ?_, ?_, ?_, ?_, ?_, ?_, ?_⟩
  · intro hph; rw [hend]; exact L.notEnded hph
  · intro hph; rw [hstart]; exact L.notStarted hph
  · intro q hq
    rcases List.mem_cons.mp hq with rfl | hq
    · rw [hnone q hnew]; simp
    · exact hsome q none (L.suiteL q hq)
  · intro l hl; rw [hres]; exact L.resultL l hl
  · intro tid l hl; rw [hact, hres]; exact L.stepL tid l hl
  · intro t1 t2 l i1 i2 hne' h1 h2; rw [hact]; exact L.stepDistinct t1 t2 l i1 i2 hne' h1 h2
  · intro l hl; rw [hres] at hl; exact L.histR l hl
  · intro q hq
    cases hx : hdr q w.report with
    | some v => exact List.mem_append_left _ (L.histS q (by rw [hx]; rfl))
    | none =>
      rw [hnone q hx] at hq
      by_cases hqp : q = p
      · subst hqp; simp
      · simp [hqp] at hq

/-- a suite ends -/
theorem link_suiteEnd {IR : List Loc} {IS : List Path} {g : Grammar.GState} {w w' : WriterState} {p : Path} {t : Time}
    (L : Link IR IS g w) (hp : p ∈ g.openSuites) (hin : Grammar.insideClosed g p = true)
    (hw : Writer.apply w (.suiteEnd p t) = .ok w') :
    Link IR IS { g with openSuites := g.openSuites.erase p } w' := by
  simp only [Writer.apply] at hw
  obtain ⟨ss', hss, hr⟩ := liftSuites_ok (onReport_ok hw)
  have hact := onReport_active hw
  obtain ⟨_, hhp, hhq, hres⟩ := suiteEnd_obs p t w.report ss' hss
  simp only [Grammar.insideClosed, Bool.and_eq_true, List.all_eq_true, Bool.not_eq_true', Bool.and_eq_false_iff,
    beq_eq_false_iff_ne, ne_eq, bne_iff_ne] at hin
  have hmem : ∀ q, q ∈ g.openSuites.erase p ↔ q ≠ p ∧ q ∈ g.openSuites := fun q =>
    List.Nodup.mem_erase_iff L.ginv.suitesNodup
  have G' : GInv { g with openSuites := g.openSuites.erase p } := {
    suitesNodup := L.ginv.suitesNodup.erase _
    resultsNodup := L.ginv.resultsNodup
    stepKeysNodup := L.ginv.stepKeysNodup
    stepInResult := L.ginv.stepInResult
    resultInSuite := by
      intro l hl q hq
      refine (hmem q).mpr ⟨?_, L.ginv.resultInSuite l hl q hq⟩
      intro e; subst e
      exact hin.2 l hl hq
    parentOpen := by
      intro q hq
      obtain ⟨hqp, hq⟩ := (hmem q).mp hq
      refine ⟨(L.ginv.parentOpen q hq).1, fun h => (hmem _).mpr ⟨?_, (L.ginv.parentOpen q hq).2 h⟩⟩
      intro e
      rcases hin.1 q hq with h1 | h1
      · exact h1 e
      · have := (L.ginv.parentOpen q hq).1
        simp at h1
        exact this h1 }
  have hend : w'.report.endTime = w.report.endTime := by rw [hr]
  have hstart : w'.report.startTime = w.report.startTime := by rw [hr]
  rw [← hr] at hhp hhq hres
  refine ⟨G', ?_, ?_, ?_, ?_, ?_, ?_, ?_, ?_⟩
  · intro hph; rw [hend]; exact L.notEnded hph
  · intro hph; rw [hstart]; exact L.notStarted hph
  · intro q hq
    obtain ⟨hqp, hq⟩ := (hmem q).mp hq
    rw [hhq q hqp]; exact L.suiteL q hq
  · intro l hl; rw [hres]; exact L.resultL l hl
  · intro tid l hl; rw [hact, hres]; exact L.stepL tid l hl
  · intro t1 t2 l i1 i2 hne' h1 h2; rw [hact]; exact L.stepDistinct t1 t2 l i1 i2 hne' h1 h2
  · intro l hl; rw [hres] at hl; exact L.histR l hl
  · intro q hq
    by_cases hqp : q = p
    · subst hqp
      exact L.histS q (by rw [L.suiteL q hp]; rfl)
    · rw [hhq q hqp] at hq; exact L.histS q hq

theorem lookup_cons_ne {β : Type} {l : List (Nat × β)} {k t : Nat} {v : β} (h : t ≠ k) :
    ((k, v) :: l).lookup t = l.lookup t := by
  have : (t == k) = false := by simpa using h
  simp [List.lookup, this]

theorem lookup_cons_self {β : Type} {l : List (Nat × β)} {k : Nat} {v : β} : ((k, v) :: l).lookup k = some v := by
  simp [List.lookup]

theorem unfinished_steps {x : Result} {steps : List Step} (h : unfinished x = true) :
    unfinished { x with steps := steps } = true := h

/-- a step starts -/
theorem link_stepStart {IR : List Loc} {IS : List Path} {g : Grammar.GState} {w w' : WriterState} {loc : Loc}
    {d : String} {tid : Nat} {t : Time} (L : Link IR IS g w) (hloc : loc ∈ g.openResults)
    (hfree : g.openSteps.lookup tid = none) (hw : Writer.apply w (.stepStart loc d tid t) = .ok w') :
    Link IR IS { g with openSteps := (tid, loc) :: g.openSteps } w' := by
  simp only [Writer.apply] at hw
  split at hw
  · cases hw
  · rename_i n hn
    split at hw
    · cases hw
    · rename_i r' hm
      injection hw with hw
      subst hw
      obtain ⟨x, hx, hnlen⟩ := stepCount_spec hn hm
      obtain ⟨x1, x', hx1, hfx, hx', hother, hhdr, hend, hstart⟩ := modifyResult_obs _ loc w.report r' hm
      rw [hx] at hx1
      injection hx1 with hx1
      subst hx1
      injection hfx with hfx
      subst hfx
      obtain ⟨xu, hxu, hu⟩ := L.resultL loc hloc
      rw [hx] at hxu
      injection hxu with hxu
      subst hxu
      have G' : GInv { g with openSteps := (tid, loc) :: g.openSteps } := {
        suitesNodup := L.ginv.suitesNodup
        resultsNodup := L.ginv.resultsNodup
        stepKeysNodup := List.nodup_cons.mpr ⟨lookup_none_keys hfree, L.ginv.stepKeysNodup⟩
        stepInResult := by
          intro y hy
          rcases List.mem_cons.mp hy with rfl | hy
          · exact hloc
          · exact L.ginv.stepInResult y hy
        resultInSuite := L.ginv.resultInSuite
        parentOpen := L.ginv.parentOpen }
      -- what the grammar and the writer hold for a thread other than `tid`
      have hold : ∀ t' l', t' ≠ tid → g.openSteps.lookup t' = some l' →
          ∃ idx, w.active.lookup t' = some ⟨some (l', idx), none⟩ ∧
            ∃ y st, resultAt l' r' = some y ∧ y.steps[idx]? = some st ∧ st.endTime = none ∧ (l' = loc → idx < n) := by
        intro t' l' hne hl
        obtain ⟨idx, ha, y, st, hy, hst, hen⟩ := L.stepL t' l' hl
        refine ⟨idx, ha, ?_⟩
        by_cases hll : l' = loc
        · rw [hll] at hy ⊢
          rw [hx] at hy
          injection hy with hy
          rw [← hy] at hst
          have hlt : idx < x.steps.length := (List.getElem?_eq_some_iff.mp hst).1
          refine ⟨_, st, hx', ?_, hen, fun _ => by omega⟩
          simp only
          rw [List.getElem?_append_left hlt]
          exact hst
        · rw [hother l' hll]
          exact ⟨y, st, hy, hst, hen, fun e => absurd e hll⟩
      refine ⟨G', ?_, ?_, ?_, ?_, ?_, ?_, ?_, ?_⟩
      · intro hph; simp only; rw [hend]; exact L.notEnded hph
      · intro hph; simp only; rw [hstart]; exact L.notStarted hph
      · intro p hp; simp only; rw [hhdr]; exact L.suiteL p hp
      · intro l hl
        by_cases hll : l = loc
        · subst hll; exact ⟨_, hx', unfinished_steps hu⟩
        · simp only; rw [hother l hll]; exact L.resultL l hl
      · intro t' l' hl
        by_cases ht : t' = tid
        · subst ht
          simp only [lookup_cons_self, Option.some.injEq] at hl
          subst hl
          refine ⟨n, lookup_cons_self, _, { description := d, startTime := some t, endTime := none, entries := [] },
            hx', ?_, rfl⟩
          simp [hnlen]
        · simp only [lookup_cons_ne ht] at hl ⊢
          obtain ⟨idx, ha, y, st, hy, hst, hen, _⟩ := hold t' l' ht hl
          exact ⟨idx, ha, y, st, hy, hst, hen⟩
      · intro t1 t2 l i1 i2 hne h1 h2 a1 a2
        by_cases ht1 : t1 = tid
        · subst ht1
          have ht2 : t2 ≠ t1 := fun e => hne e.symm
          simp only [lookup_cons_self, Option.some.injEq] at h1 a1
          simp only [lookup_cons_ne ht2] at h2 a2
          obtain ⟨idx, ha, _, _, _, _, _, hlt⟩ := hold t2 l ht2 h2
          rw [ha] at a2
          injection a2 with a2; injection a2 with a2; injection a2 with a2; injection a2 with _ a2
          injection a1 with a1; injection a1 with a1; injection a1 with _ a1
          have := hlt h1.symm
          omega
        · by_cases ht2 : t2 = tid
          · subst ht2
            simp only [lookup_cons_self, Option.some.injEq] at h2 a2
            simp only [lookup_cons_ne ht1] at h1 a1
            obtain ⟨idx, ha, _, _, _, _, _, hlt⟩ := hold t1 l ht1 h1
            rw [ha] at a1
            injection a1 with a1; injection a1 with a1; injection a1 with a1; injection a1 with _ a1
            injection a2 with a2; injection a2 with a2; injection a2 with _ a2
            have := hlt h2.symm
            omega
          · simp only [lookup_cons_ne ht1] at h1 a1
            simp only [lookup_cons_ne ht2] at h2 a2
            exact L.stepDistinct t1 t2 l i1 i2 hne h1 h2 a1 a2
      · intro l hl
        by_cases hll : l = loc
        · subst hll; exact L.histR l (by rw [hx]; rfl)
        · simp only at hl; rw [hother l hll] at hl; exact L.histR l hl
      · intro q hq; simp only at hq; rw [hhdr] at hq; exact L.histS q hq

/-- a step ends -/
theorem link_stepEnd {IR : List Loc} {IS : List Path} {g : Grammar.GState} {w w' : WriterState} {loc : Loc}
    {d : String} {tid : Nat} {t : Time} (L : Link IR IS g w) (hopen : g.openSteps.lookup tid = some loc)
    (hw : Writer.apply w (.stepEnd loc d tid t) = .ok w') :
    Link IR IS { g with openSteps := g.openSteps.erase (tid, loc) } w' := by
  obtain ⟨idx, ha, x, st, hx, hst, hen⟩ := L.stepL tid loc hopen
  have hlocmem : loc ∈ g.openResults := L.ginv.stepInResult _ (lookup_mem hopen)
  obtain ⟨xu, hxu, hu⟩ := L.resultL loc hlocmem
  rw [hx] at hxu
  injection hxu with hxu
  subst hxu
  simp only [Writer.apply, ha] at hw
  split at hw
  · rename_i r' hm
    injection hw with hw
    subst hw
    obtain ⟨x1, x', hx1, hfx, hx', hother, hhdr, hend, hstart⟩ := modifyResult_obs _ loc w.report r' hm
    rw [hx] at hx1
    injection hx1 with hx1
    subst hx1
    injection hfx with hfx
    subst hfx
    have G' : GInv { g with openSteps := g.openSteps.erase (tid, loc) } := {
      suitesNodup := L.ginv.suitesNodup
      resultsNodup := L.ginv.resultsNodup
      stepKeysNodup := List.Nodup.sublist (List.Sublist.map _ List.erase_sublist) L.ginv.stepKeysNodup
      stepInResult := fun y hy => L.ginv.stepInResult y (List.mem_of_mem_erase hy)
      resultInSuite := L.ginv.resultInSuite
      parentOpen := L.ginv.parentOpen }
    -- threads that still have a step open
    have hold : ∀ t' l', (g.openSteps.erase (tid, loc)).lookup t' = some l' → t' ≠ tid ∧ g.openSteps.lookup t' = some l' := by
      intro t' l' hl
      have hne : t' ≠ tid := by
        intro e; subst e
        rw [lookup_erase_self L.ginv.stepKeysNodup hopen] at hl
        cases hl
      exact ⟨hne, by rw [lookup_erase_other hne] at hl; exact hl⟩
    refine ⟨G', ?_, ?_, ?_, ?_, ?_, ?_, ?_, ?_⟩
    · intro hph; simp only; rw [hend]; exact L.notEnded hph
    · intro hph; simp only; rw [hstart]; exact L.notStarted hph
    · intro p hp; simp only; rw [hhdr]; exact L.suiteL p hp
    · intro l hl
      by_cases hll : l = loc
      · subst hll; exact ⟨_, hx', unfinished_steps hu⟩
      · simp only; rw [hother l hll]; exact L.resultL l hl
    · intro t' l' hl
      obtain ⟨hne, hl⟩ := hold t' l' hl
      obtain ⟨idx', ha', y, st', hy, hst', hen'⟩ := L.stepL t' l' hl
      refine ⟨idx', by simp only [lookup_cons_ne hne]; exact ha', ?_⟩
      by_cases hll : l' = loc
      · rw [hll] at hy hl ha' ⊢
        rw [hx] at hy
        injection hy with hy
        rw [← hy] at hst'
        have hidx : idx' ≠ idx := L.stepDistinct t' tid loc idx' idx hne hl hopen ha' ha
        refine ⟨_, st', hx', ?_, hen'⟩
        simp only
        rw [getElem?_modifyNth, if_neg hidx]
        exact hst'
      · simp only; rw [hother l' hll]; exact ⟨y, st', hy, hst', hen'⟩
    · intro t1 t2 l i1 i2 hne h1 h2 a1 a2
      obtain ⟨hn1, h1⟩ := hold t1 l h1
      obtain ⟨hn2, h2⟩ := hold t2 l h2
      simp only [lookup_cons_ne hn1] at a1
      simp only [lookup_cons_ne hn2] at a2
      exact L.stepDistinct t1 t2 l i1 i2 hne h1 h2 a1 a2
    · intro l hl
      by_cases hll : l = loc
      · subst hll; exact L.histR l (by rw [hx]; rfl)
      · simp only at hl; rw [hother l hll] at hl; exact L.histR l hl
    · intro q hq; simp only at hq; rw [hhdr] at hq; exact L.histS q hq
  · cases hw

/-- a log / check / attachment / url goes into the open step of its thread -/
theorem link_addEntry {IR : List Loc} {IS : List Path} {g : Grammar.GState} {w w' : WriterState} {loc : Loc}
    {tid : Nat} {e : Entry} (L : Link IR IS g w) (hopen : g.openSteps.lookup tid = some loc)
    (hw : addEntry w loc tid e = .ok w') : Link IR IS g w' := by
  obtain ⟨idx, ha, x, st, hx, hst, hen⟩ := L.stepL tid loc hopen
  have hlocmem : loc ∈ g.openResults := L.ginv.stepInResult _ (lookup_mem hopen)
  obtain ⟨xu, hxu, hu⟩ := L.resultL loc hlocmem
  rw [hx] at hxu
  injection hxu with hxu
  subst hxu
  unfold addEntry at hw
  split at hw
  · cases hw
  · simp only [ha] at hw
    split at hw
    · rename_i r' hm
      injection hw with hw
      subst hw
      obtain ⟨x1, x', hx1, hfx, hx', hother, hhdr, hend, hstart⟩ := modifyResult_obs _ loc w.report r' hm
      rw [hx] at hx1
      injection hx1 with hx1
      subst hx1
      have hfx := addEntryAt_ok hfx
      subst hfx
      refine ⟨L.ginv, ?_, ?_, ?_, ?_, ?_, ?_, ?_, ?_⟩
      · intro hph; simp only; rw [hend]; exact L.notEnded hph
      · intro hph; simp only; rw [hstart]; exact L.notStarted hph
      · intro p hp; simp only; rw [hhdr]; exact L.suiteL p hp
      · intro l hl
        by_cases hll : l = loc
        · subst hll; exact ⟨_, hx', unfinished_steps hu⟩
        · simp only; rw [hother l hll]; exact L.resultL l hl
      · intro t' l' hl
        obtain ⟨idx', ha', y, st', hy, hst', hen'⟩ := L.stepL t' l' hl
        refine ⟨idx', ha', ?_⟩
        by_cases hll : l' = loc
        · rw [hll] at hy ⊢
          rw [hx] at hy
          injection hy with hy
          rw [← hy] at hst'
          by_cases hidx : idx' = idx
          · refine ⟨_, addEntryToStep e st', hx', ?_, hen'⟩
            simp only
            rw [getElem?_modifyNth, if_pos hidx, hst']
            rfl
          · refine ⟨_, st', hx', ?_, hen'⟩
            simp only
            rw [getElem?_modifyNth, if_neg hidx]
            exact hst'
        · simp only; rw [hother l' hll]; exact ⟨y, st', hy, hst', hen'⟩
      · exact L.stepDistinct
      · intro l hl
        by_cases hll : l = loc
        · subst hll; exact L.histR l (by rw [hx]; rfl)
        · simp only at hl; rw [hother l hll] at hl; exact L.histR l hl
      · intro q hq; simp only at hq; rw [hhdr] at hq; exact L.histS q hq
    · cases hw
    · cases hw

/-! ### every accepted event preserves the invariant -/

theorem resultAt_other_session {r r' : Report} (hs : r'.suites = r.suites) {l : Loc} :
    (∃ q, Grammar.ownerSuite l = some q) → resultAt l r' = resultAt l r := by
  rintro ⟨q, hq⟩
  exact resultAt_suites_eq r r' hs hq

theorem link_step {IR : List Loc} {IS : List Path} {g g' : Grammar.GState} {w w' : WriterState} {e : Event}
    (L : Link IR IS g w) (hg : Grammar.step .parallel g e = some g') (hw : Writer.apply w e = .ok w')
    (hfr : ∀ loc, Grammar.introduces e = some loc → loc ∉ IR)
    (hfs : ∀ p, Grammar.introducedSuite e = some p → p ∉ IS) :
    Link (IR ++ (Grammar.introduces e).toList) (IS ++ (Grammar.introducedSuite e).toList) g' w' := by
  cases e with
  | sessionStart t =>
    simp only [Grammar.step] at hg
    split at hg
    · cases hg
    · split at hg
      · injection hg with hg
        subst hg
        simp only [Writer.apply] at hw
        injection hw with hw
        subst hw
        obtain ⟨hh, hr⟩ := obs_times w.report { w.report with startTime := some t } rfl rfl rfl
        simp only [Grammar.introduces, Grammar.introducedSuite, Option.toList_none, List.append_nil]
        refine ⟨⟨L.ginv.suitesNodup, L.ginv.resultsNodup, L.ginv.stepKeysNodup, L.ginv.stepInResult,
          L.ginv.resultInSuite, L.ginv.parentOpen⟩, ?_, ?_, ?_, ?_, ?_, ?_, ?_, ?_⟩
        · intro _; exact L.notEnded (by rename_i hp _; simp at hp; rw [hp]; simp)
        · intro hp; cases hp
        · intro p hp; simp only; rw [hh]; exact L.suiteL p hp
        · intro l hl; simp only; rw [hr]; exact L.resultL l hl
        · intro tid l hl; simp only; rw [hr]; exact L.stepL tid l hl
        · exact L.stepDistinct
        · intro l hl; simp only at hl; rw [hr] at hl; exact L.histR l hl
        · intro q hq; simp only at hq; rw [hh] at hq; exact L.histS q hq
      · cases hg
  | sessionEnd t =>
    have hrun := step_running hg (by simp)
    simp only [Grammar.step, hrun] at hg
    split at hg
    · cases hg
    · simp only [bne_self_eq_false, Bool.false_eq_true, if_false] at hg
      split at hg
      · injection hg with hg
        subst hg
        simp only [Writer.apply] at hw
        injection hw with hw
        subst hw
        obtain ⟨hh, hr⟩ := obs_times w.report { w.report with endTime := some t } rfl rfl rfl
        simp only [Grammar.introduces, Grammar.introducedSuite, Option.toList_none, List.append_nil]
        refine ⟨⟨L.ginv.suitesNodup, L.ginv.resultsNodup, L.ginv.stepKeysNodup, L.ginv.stepInResult,
          L.ginv.resultInSuite, L.ginv.parentOpen⟩, ?_, ?_, ?_, ?_, ?_, ?_, ?_, ?_⟩
        · intro hp; exact absurd rfl hp
        · intro hp; cases hp
        · intro p hp; simp only; rw [hh]; exact L.suiteL p hp
        · intro l hl; simp only; rw [hr]; exact L.resultL l hl
        · intro tid l hl; simp only; rw [hr]; exact L.stepL tid l hl
        · exact L.stepDistinct
        · intro l hl; simp only at hl; rw [hr] at hl; exact L.histR l hl
        · intro q hq; simp only at hq; rw [hh] at hq; exact L.histS q hq
      · cases hg
  | sessionSetupStart t =>
    have hrun := step_running hg (by simp)
    simp only [Grammar.step, hrun] at hg
    split at hg
    · cases hg
    · simp only [bne_self_eq_false, Bool.false_eq_true, if_false] at hg
      have G' := ginv_open L.ginv hg (by intro q hq; simp [Grammar.ownerSuite] at hq)
      obtain ⟨hnot, rfl⟩ := openResult_spec hg
      simp only [Writer.apply] at hw
      injection hw with hw
      subst hw
      simp only [Grammar.introduces, Grammar.introducedSuite, Option.toList_none, Option.toList_some, List.append_nil]
      refine link_newResult (x0 := initResult t) L G' rfl rfl rfl hnot ?_ rfl rfl ?_ (fun q => rfl) rfl rfl
      · intro l hl
        rcases List.mem_cons.mp hl with rfl | hl
        · exact .inr ⟨rfl, rfl⟩
        · exact .inl hl
      · intro l hne
        cases l <;> first | rfl | exact absurd rfl hne
  | sessionTeardownStart t =>
    have hrun := step_running hg (by simp)
    simp only [Grammar.step, hrun] at hg
    split at hg
    · cases hg
    · simp only [bne_self_eq_false, Bool.false_eq_true, if_false] at hg
      have G' := ginv_open L.ginv hg (by intro q hq; simp [Grammar.ownerSuite] at hq)
      obtain ⟨hnot, rfl⟩ := openResult_spec hg
      simp only [Writer.apply] at hw
      injection hw with hw
      subst hw
      simp only [Grammar.introduces, Grammar.introducedSuite, Option.toList_none, Option.toList_some, List.append_nil]
      refine link_newResult (x0 := initResult t) L G' rfl rfl rfl hnot ?_ rfl rfl ?_ (fun q => rfl) rfl rfl
      · intro l hl
        rcases List.mem_cons.mp hl with rfl | hl
        · exact .inr ⟨rfl, rfl⟩
        · exact .inl hl
      · intro l hne
        cases l <;> first | rfl | exact absurd rfl hne
  | sessionSetupEnd t =>
    have hrun := step_running hg (by simp)
    simp only [Grammar.step, hrun] at hg
    split at hg
    · cases hg
    · simp only [bne_self_eq_false, Bool.false_eq_true, if_false] at hg
      simp only [Writer.apply] at hw
      simpa [Grammar.introduces, Grammar.introducedSuite] using link_resultEnd L hg hw hrun
  | sessionTeardownEnd t =>
    have hrun := step_running hg (by simp)
    simp only [Grammar.step, hrun] at hg
    split at hg
    · cases hg
    · simp only [bne_self_eq_false, Bool.false_eq_true, if_false] at hg
      simp only [Writer.apply] at hw
      simpa [Grammar.introduces, Grammar.introducedSuite] using link_resultEnd L hg hw hrun
  | suiteSetupEnd p t =>
    have hrun := step_running hg (by simp)
    simp only [Grammar.step, hrun] at hg
    split at hg
    · cases hg
    · simp only [bne_self_eq_false, Bool.false_eq_true, if_false] at hg
      simp only [Writer.apply] at hw
      simpa [Grammar.introduces, Grammar.introducedSuite] using link_resultEnd L hg hw hrun
  | suiteTeardownEnd p t =>
    have hrun := step_running hg (by simp)
    simp only [Grammar.step, hrun] at hg
    split at hg
    · cases hg
    · simp only [bne_self_eq_false, Bool.false_eq_true, if_false] at hg
      simp only [Writer.apply] at hw
      simpa [Grammar.introduces, Grammar.introducedSuite] using link_resultEnd L hg hw hrun
  | testEnd p t =>
    have hrun := step_running hg (by simp)
    simp only [Grammar.step, hrun] at hg
    split at hg
    · cases hg
    · simp only [bne_self_eq_false, Bool.false_eq_true, if_false] at hg
      simp only [Writer.apply] at hw
      simpa [Grammar.introduces, Grammar.introducedSuite] using link_resultEnd L hg hw hrun
  | suiteStart p md t =>
    have hrun := step_running hg (by simp)
    simp only [Grammar.step, hrun] at hg
    split at hg
    · cases hg
    · simp only [bne_self_eq_false, Bool.false_eq_true, if_false] at hg
      split at hg
      · rename_i hc
        injection hg with hg
        subst hg
        simp only [Bool.and_eq_true, Grammar.parentOpen, Bool.or_eq_true, Grammar.named, beq_iff_eq, Grammar.whenB,
          Grammar.Mode.parallel, Bool.not_true, Bool.false_or, Bool.not_eq_true', Bool.not_false, Bool.true_or,
          and_true] at hc
        have hne : p ≠ [] := by
          intro e; subst e; simp at hc
        have hpar : p.dropLast ≠ [] → p.dropLast ∈ g.openSuites := by
          intro h
          rcases hc.1.1.2 with h1 | h1
          · simp at h1; exact absurd h1 h
          · exact contains_mem h1
        have hnot : p ∉ g.openSuites := by
          intro hm
          have := List.contains_iff_mem.mpr hm
          rw [this] at hc
          simp at hc
        simpa [Grammar.introduces, Grammar.introducedSuite, hrun] using
          link_suiteStart L hnot hne hpar hc.1.2 (hfs p rfl) hw
      · cases hg
  | suiteEnd p t =>
    have hrun := step_running hg (by simp)
    simp only [Grammar.step, hrun] at hg
    split at hg
    · cases hg
    · simp only [bne_self_eq_false, Bool.false_eq_true, if_false] at hg
      split at hg
      · rename_i hc
        injection hg with hg
        subst hg
        simp only [Bool.and_eq_true, Grammar.whenB, Grammar.Mode.parallel, Bool.not_true, Bool.false_or,
          Bool.not_false, Bool.true_or, and_true] at hc
        simpa [Grammar.introduces, Grammar.introducedSuite, hrun] using link_suiteEnd L (contains_mem hc.1) hc.2 hw
      · cases hg
  | suiteSetupStart p t =>
    have hrun := step_running hg (by simp)
    simp only [Grammar.step, hrun] at hg
    split at hg
    · cases hg
    · simp only [bne_self_eq_false, Bool.false_eq_true, if_false] at hg
      split at hg
      · rename_i hc
        have hpm := contains_mem hc
        have G' := ginv_open L.ginv hg (by
          intro q hq; simp only [Grammar.ownerSuite, Option.some.injEq] at hq; subst hq; exact hpm)
        obtain ⟨hnot, rfl⟩ := openResult_spec hg
        simp only [Writer.apply] at hw
        have hact := onResultStart_active hw
        obtain ⟨ss', hss, hr⟩ := liftSuites_ok (onResultStart_ok hw)
        obtain ⟨x, o, _, hF, _, h2, h3, h4⟩ := obs_setSetup _ p w.report ss' (by
          intro s s' e; injection e with e; exact ⟨_, e.symm⟩) hss
        injection hF with hF
        have ho := setSetup_inj hF
        rw [← hr] at h2 h3 h4
        simp only [Grammar.introduces, Grammar.introducedSuite, Option.toList_none, Option.toList_some, List.append_nil]
        refine link_newResult (x0 := initResult t) L G' rfl rfl rfl hnot ?_ hact (by rw [h2, ← ho]) h3 h4
          (by rw [hr]) (by rw [hr])
        intro l hl
        rcases List.mem_cons.mp hl with rfl | hl
        · exact .inr ⟨rfl, rfl⟩
        · exact .inl hl
      · cases hg
  | suiteTeardownStart p t =>
    have hrun := step_running hg (by simp)
    simp only [Grammar.step, hrun] at hg
    split at hg
    · cases hg
    · simp only [bne_self_eq_false, Bool.false_eq_true, if_false] at hg
      split at hg
      · rename_i hc
        have hpm := contains_mem hc
        have G' := ginv_open L.ginv hg (by
          intro q hq; simp only [Grammar.ownerSuite, Option.some.injEq] at hq; subst hq; exact hpm)
        obtain ⟨hnot, rfl⟩ := openResult_spec hg
        simp only [Writer.apply] at hw
        have hact := onResultStart_active hw
        obtain ⟨ss', hss, hr⟩ := liftSuites_ok (onResultStart_ok hw)
        obtain ⟨x, o, _, hF, _, h2, h3, h4⟩ := obs_setTeardown _ p w.report ss' (by
          intro s s' e; injection e with e; exact ⟨_, e.symm⟩) hss
        injection hF with hF
        have ho := setTeardown_inj hF
        rw [← hr] at h2 h3 h4
        simp only [Grammar.introduces, Grammar.introducedSuite, Option.toList_none, Option.toList_some, List.append_nil]
        refine link_newResult (x0 := initResult t) L G' rfl rfl rfl hnot ?_ hact (by rw [h2, ← ho]) h3 h4
          (by rw [hr]) (by rw [hr])
        intro l hl
        rcases List.mem_cons.mp hl with rfl | hl
        · exact .inr ⟨rfl, rfl⟩
        · exact .inl hl
      · cases hg
  | testStart p md t =>
    have hrun := step_running hg (by simp)
    simp only [Grammar.step, hrun] at hg
    split at hg
    · cases hg
    · simp only [bne_self_eq_false, Bool.false_eq_true, if_false] at hg
      split at hg
      · rename_i hc
        simp only [Bool.and_eq_true, Grammar.named, beq_iff_eq] at hc
        have hpm := contains_mem hc.1.2
        have hP : p.dropLast ++ [md.name] = p := dropLast_append_last hc.2
        have G' := ginv_open L.ginv hg (by
          intro q hq; simp only [Grammar.ownerSuite, Option.some.injEq] at hq; subst hq; exact hpm)
        obtain ⟨hnot, rfl⟩ := openResult_spec hg
        simp only [Writer.apply] at hw
        rw [hP] at hw
        have hact := onResultStart_active hw
        obtain ⟨_, h2, h3, h4, h5, h6⟩ := addTest_obs p.dropLast (initTest md t) w.report w'.report (onResultStart_ok hw)
        rw [show (initTest md t).md.name = md.name from rfl, hP] at h2 h3
        simp only [Grammar.introduces, Grammar.introducedSuite, Option.toList_none, Option.toList_some, List.append_nil]
        refine link_newResult (x0 := initResult t) L G' rfl rfl rfl hnot ?_ hact h2 h3 h4 h5 h6
        intro l hl
        rcases List.mem_cons.mp hl with rfl | hl
        · exact .inr ⟨rfl, rfl⟩
        · exact .inl hl
      · cases hg
  | testSkipped p md reason t =>
    have hrun := step_running hg (by simp)
    simp only [Grammar.step, hrun, Grammar.bypass] at hg
    split at hg
    · cases hg
    · simp only [bne_self_eq_false, Bool.false_eq_true, if_false] at hg
      split at hg
      · rename_i hc
        injection hg with hg
        subst hg
        simp only [Bool.and_eq_true, Grammar.named, beq_iff_eq, Grammar.whenB, Grammar.Mode.parallel, Bool.not_true,
          Bool.false_or, Bool.not_eq_true', Bool.not_false, Bool.true_or, and_true] at hc
        have hP : p.dropLast ++ [md.name] = p := dropLast_append_last hc.1.2
        have hnot : Loc.test p ∉ g.openResults := by
          intro hm
          have := List.contains_iff_mem.mpr hm
          rw [this] at hc
          simp at hc
        simp only [Writer.apply] at hw
        rw [hP] at hw
        have hact := onResultStart_active hw
        obtain ⟨_, h2, h3, h4, h5, h6⟩ :=
          addTest_obs p.dropLast (bypassTest md .skipped reason t) w.report w'.report (onResultStart_ok hw)
        rw [show (bypassTest md .skipped reason t).md.name = md.name from rfl, hP] at h2 h3
        simp only [Grammar.introduces, Grammar.introducedSuite, Option.toList_none, Option.toList_some, List.append_nil]
        exact link_newResult L L.ginv rfl rfl rfl hnot (fun l hl => .inl hl) hact h2 h3 h4 h5 h6
      · cases hg
  | testDisabled p md reason t =>
    have hrun := step_running hg (by simp)
    simp only [Grammar.step, hrun, Grammar.bypass] at hg
    split at hg
    · cases hg
    · simp only [bne_self_eq_false, Bool.false_eq_true, if_false] at hg
      split at hg
      · rename_i hc
        injection hg with hg
        subst hg
        simp only [Bool.and_eq_true, Grammar.named, beq_iff_eq, Grammar.whenB, Grammar.Mode.parallel, Bool.not_true,
          Bool.false_or, Bool.not_eq_true', Bool.not_false, Bool.true_or, and_true] at hc
        have hP : p.dropLast ++ [md.name] = p := dropLast_append_last hc.1.2
        have hnot : Loc.test p ∉ g.openResults := by
          intro hm
          have := List.contains_iff_mem.mpr hm
          rw [this] at hc
          simp at hc
        simp only [Writer.apply] at hw
        rw [hP] at hw
        have hact := onResultStart_active hw
        obtain ⟨_, h2, h3, h4, h5, h6⟩ :=
          addTest_obs p.dropLast (bypassTest md .disabled reason t) w.report w'.report (onResultStart_ok hw)
        rw [show (bypassTest md .disabled reason t).md.name = md.name from rfl, hP] at h2 h3
        simp only [Grammar.introduces, Grammar.introducedSuite, Option.toList_none, Option.toList_some, List.append_nil]
        exact link_newResult L L.ginv rfl rfl rfl hnot (fun l hl => .inl hl) hact h2 h3 h4 h5 h6
      · cases hg
  | stepStart loc d tid t =>
    have hrun := step_running hg (by simp)
    simp only [Grammar.step, hrun] at hg
    split at hg
    · cases hg
    · simp only [bne_self_eq_false, Bool.false_eq_true, if_false] at hg
      split at hg
      · rename_i hc
        injection hg with hg
        subst hg
        simp only [Bool.and_eq_true, Grammar.whenB, Grammar.Mode.parallel, Bool.not_true, Bool.false_or,
          Option.isNone_iff_eq_none] at hc
        simpa [Grammar.introduces, Grammar.introducedSuite, hrun] using link_stepStart L (contains_mem hc.1) hc.2 hw
      · cases hg
  | stepEnd loc d tid t =>
    have hrun := step_running hg (by simp)
    simp only [Grammar.step, hrun] at hg
    split at hg
    · cases hg
    · simp only [bne_self_eq_false, Bool.false_eq_true, if_false] at hg
      split at hg
      · rename_i hc
        injection hg with hg
        subst hg
        simpa [Grammar.introduces, Grammar.introducedSuite, hrun] using link_stepEnd L (by simpa using hc) hw
      · cases hg
  | log loc st tid level msg t =>
    have hrun := step_running hg (by simp)
    simp only [Grammar.step, hrun, Grammar.logOk] at hg
    split at hg
    · cases hg
    · simp only [bne_self_eq_false, Bool.false_eq_true, if_false] at hg
      split at hg
      · rename_i hc
        injection hg with hg
        subst hg
        simp only [Writer.apply] at hw
        simpa [Grammar.introduces, Grammar.introducedSuite] using link_addEntry L (by simpa using hc) hw
      · cases hg
  | check loc st tid d ok det t =>
    have hrun := step_running hg (by simp)
    simp only [Grammar.step, hrun, Grammar.logOk] at hg
    split at hg
    · cases hg
    · simp only [bne_self_eq_false, Bool.false_eq_true, if_false] at hg
      split at hg
      · rename_i hc
        injection hg with hg
        subst hg
        simp only [Writer.apply] at hw
        simpa [Grammar.introduces, Grammar.introducedSuite] using link_addEntry L (by simpa using hc) hw
      · cases hg
  | attachment loc st tid path d img t =>
    have hrun := step_running hg (by simp)
    simp only [Grammar.step, hrun, Grammar.logOk] at hg
    split at hg
    · cases hg
    · simp only [bne_self_eq_false, Bool.false_eq_true, if_false] at hg
      split at hg
      · rename_i hc
        injection hg with hg
        subst hg
        simp only [Writer.apply] at hw
        simpa [Grammar.introduces, Grammar.introducedSuite] using link_addEntry L (by simpa using hc) hw
      · cases hg
  | url loc st tid u d t =>
    have hrun := step_running hg (by simp)
    simp only [Grammar.step, hrun, Grammar.logOk] at hg
    split at hg
    · cases hg
    · simp only [bne_self_eq_false, Bool.false_eq_true, if_false] at hg
      split at hg
      · rename_i hc
        injection hg with hg
        subst hg
        simp only [Writer.apply] at hw
        simpa [Grammar.introduces, Grammar.introducedSuite] using link_addEntry L (by simpa using hc) hw
      · cases hg

/-! ### the whole stream -/

theorem filterMap_cons_toList {α β : Type} (f : α → Option β) (a : α) (l : List α) :
    (a :: l).filterMap f = (f a).toList ++ l.filterMap f := by
  simp only [List.filterMap_cons]
  cases f a <;> rfl

theorem nodup_split {α : Type} {A B : List α} {o : Option α} (h : (A ++ (o.toList ++ B)).Nodup) :
    (∀ a, o = some a → a ∉ A) ∧ ((A ++ o.toList) ++ B).Nodup := by
  refine ⟨?_, by rw [List.append_assoc]; exact h⟩
  intro a ha hm
  subst ha
  rw [List.nodup_append] at h
  exact h.2.2 a hm a (by simp) rfl

/-- A stream accepted by the strict grammar from a linked state, whose start events introduce only new
    locations / paths, is safe. -/
theorem safeRun_of_link : ∀ (es : List Event) (IR : List Loc) (IS : List Path) (g : Grammar.GState) (w : WriterState),
    Link IR IS g w → (Grammar.run .parallel g es).isSome = true →
    (IR ++ es.filterMap Grammar.introduces).Nodup → (IS ++ es.filterMap Grammar.introducedSuite).Nodup →
    safeRun w es = true
  | [], _, _, _, _, _, _, _, _ => rfl
  | e :: es, IR, IS, g, w, L, hrun, hn1, hn2 => by
    simp only [Grammar.run] at hrun
    cases hg : Grammar.step .parallel g e with
    | none => rw [hg] at hrun; simp at hrun
    | some g' =>
      rw [hg] at hrun
      rw [filterMap_cons_toList] at hn1 hn2
      obtain ⟨hfr, hn1'⟩ := nodup_split hn1
      obtain ⟨hfs, hn2'⟩ := nodup_split hn2
      simp only [safeRun, Bool.and_eq_true]
      refine ⟨link_safe L hg hfr, ?_⟩
      cases hw : Writer.apply w e with
      | error err => rfl
      | ok w' =>
        exact safeRun_of_link es _ _ g' w' (link_step L hg hw hfr hfs) hrun hn1' hn2'

/-- **C07's grammar implies `safeRun`**: a stream the strict grammar accepts (`WellFormedPrefix`) in which no
    result location and no suite path is started twice (`Fresh`) targets nothing finished, at every event. -/
theorem safeRun_of_grammar (es : List Event) (r0 : Report) (hb : Blank r0)
    (hwf : Grammar.WellFormedPrefix es) (hfresh : Grammar.Fresh es) : safeRun (initState r0) es = true :=
  safeRun_of_link es [] [] Grammar.init (initState r0) (link_init hb) hwf (by simpa using hfresh.1)
    (by simpa using hfresh.2)

end LccModel.Saving

/-
  Helper lemmas for C13, layer 2: tests of one class / module body —
  `_load_tests` as a lazy stream, `Suite.add_test`, and their exact success condition.
-/
import LccModel.Lemmas.Loader

namespace LccModel.Loader

open List

theorem nodupB_iff [DecidableEq α] : ∀ (l : List α), nodupB l = true ↔ l.Nodup
  | [] => by simp [nodupB]
  | a :: as => by simp [nodupB, List.nodup_cons, nodupB_iff as]

theorem nodup_map_snoc (f : α → β) (acc : List α) (t : α) :
    ((acc ++ [t]).map f).Nodup ↔ (acc.map f).Nodup ∧ f t ∉ acc.map f := by
  simp only [List.map_append, List.map_cons, List.map_nil, List.nodup_append, List.nodup_cons,
    List.not_mem_nil, not_false_eq_true, List.nodup_nil, and_self, true_and, List.mem_cons, or_false]
  constructor
  · rintro ⟨h1, h2⟩
    exact ⟨h1, fun hm => h2 _ hm _ rfl rfl⟩
  · rintro ⟨h1, h2⟩
    refine ⟨h1, ?_⟩
    intro a ha b hb hab
    subst hb; subst hab; exact h2 ha

theorem map_ok_inj {ε : Type} : ∀ {l₁ l₂ : List α},
    l₁.map (Except.ok (ε := ε)) = l₂.map Except.ok → l₁ = l₂
  | [], [], _ => rfl
  | [], _ :: _, h => by simp at h
  | _ :: _, [], h => by simp at h
  | a :: as, b :: bs, h => by
    simp only [List.map_cons, List.cons.injEq, Except.ok.injEq] at h
    rw [h.1, map_ok_inj h.2]

/-! ### `Suite.add_test` -/

/-- "No two tests of the suite share a name, no two share a description." -/
def NoClashT (l : List Test) : Prop := (l.map (·.name)).Nodup ∧ (l.map (·.desc)).Nodup

theorem addTest_ok_iff (acc : List Test) (t : Test) (r : List Test) :
    addTest acc t = .ok r ↔ (r = acc ++ [t] ∧ t.desc ∉ acc.map (·.desc) ∧ t.name ∉ acc.map (·.name)) := by
  unfold addTest
  by_cases h1 : acc.any (fun u => u.desc == t.desc) = true
  · simp only [h1, if_true]
    constructor
    · intro h; cases h
    · rintro ⟨_, h, _⟩
      exfalso; apply h
      simp only [List.any_eq_true, beq_iff_eq] at h1
      obtain ⟨u, hu, hd⟩ := h1
      exact List.mem_map.mpr ⟨u, hu, hd⟩
  · have h1' : t.desc ∉ acc.map (·.desc) := by
      intro hm
      obtain ⟨u, hu, hd⟩ := List.mem_map.mp hm
      apply h1
      simp only [List.any_eq_true, beq_iff_eq]
      exact ⟨u, hu, hd⟩
    simp only [h1, Bool.false_eq_true, if_false]
    by_cases h2 : acc.any (fun u => u.name == t.name) = true
    · simp only [h2, if_true]
      constructor
      · intro h; cases h
      · rintro ⟨_, _, h⟩
        exfalso; apply h
        simp only [List.any_eq_true, beq_iff_eq] at h2
        obtain ⟨u, hu, hd⟩ := h2
        exact List.mem_map.mpr ⟨u, hu, hd⟩
    · have h2' : t.name ∉ acc.map (·.name) := by
        intro hm
        obtain ⟨u, hu, hd⟩ := List.mem_map.mp hm
        apply h2
        simp only [List.any_eq_true, beq_iff_eq]
        exact ⟨u, hu, hd⟩
      simp only [h2, Bool.false_eq_true, if_false, Except.ok.injEq]
      constructor
      · intro h; exact ⟨h.symm, h1', h2'⟩
      · rintro ⟨h, _, _⟩; exact h.symm

/-- `addAll` succeeds exactly when the stream carries no exception and the tests it yields keep the
    suite free of duplicate names and duplicate descriptions; it then appends them in order. -/
theorem addAll_ok_iff : ∀ (s : List (Except LoadErr Test)) (acc r : List Test), NoClashT acc →
    (addAll acc s = .ok r ↔ ∃ ts, s = ts.map .ok ∧ r = acc ++ ts ∧ NoClashT (acc ++ ts))
  | [], acc, r, hacc => by
    simp only [addAll, Except.ok.injEq]
    constructor
    · intro h; exact ⟨[], rfl, by simp [h], by simpa using hacc⟩
    · rintro ⟨ts, hts, hr, _⟩
      cases ts with
      | nil => simp [hr]
      | cons _ _ => simp at hts
  | .error e :: rest, acc, r, _ => by
    simp only [addAll]
    constructor
    · intro h; cases h
    · rintro ⟨ts, hts, _⟩
      cases ts with
      | nil => simp at hts
      | cons _ _ => simp at hts
  | .ok t :: rest, acc, r, hacc => by
    simp only [addAll]
    cases hadd : addTest acc t with
    | error e =>
      simp only
      constructor
      · intro h; cases h
      · rintro ⟨ts, hts, _, hno⟩
        exfalso
        cases ts with
        | nil => simp at hts
        | cons u us =>
          simp only [List.map_cons, List.cons.injEq, Except.ok.injEq] at hts
          obtain ⟨rfl, _⟩ := hts
          have : addTest acc t = .ok (acc ++ [t]) := by
            rw [addTest_ok_iff]
            refine ⟨rfl, ?_, ?_⟩
            · have := hno.2
              rw [show acc ++ t :: us = (acc ++ [t]) ++ us by simp, List.map_append] at this
              exact ((nodup_map_snoc _ acc t).mp (List.nodup_append.mp this).1).2
            · have := hno.1
              rw [show acc ++ t :: us = (acc ++ [t]) ++ us by simp, List.map_append] at this
              exact ((nodup_map_snoc _ acc t).mp (List.nodup_append.mp this).1).2
          rw [hadd] at this; cases this
    | ok acc' =>
      simp only
      obtain ⟨rfl, hd, hn⟩ := (addTest_ok_iff acc t acc').mp hadd
      have hacc' : NoClashT (acc ++ [t]) :=
        ⟨(nodup_map_snoc _ acc t).mpr ⟨hacc.1, hn⟩, (nodup_map_snoc _ acc t).mpr ⟨hacc.2, hd⟩⟩
      rw [addAll_ok_iff rest (acc ++ [t]) r hacc']
      constructor
      · rintro ⟨ts, hts, hr, hno⟩
        exact ⟨t :: ts, by simp [hts], by simp [hr], by simpa using hno⟩
      · rintro ⟨ts, hts, hr, hno⟩
        cases ts with
        | nil => simp at hts
        | cons u us =>
          simp only [List.map_cons, List.cons.injEq, Except.ok.injEq] at hts
          obtain ⟨rfl, hrest⟩ := hts
          exact ⟨us, hrest, by simp [hr], by simpa using hno⟩

/-! ### Templates and the lazy stream -/

theorem renderSeg_of_ok (ps : Params) (s : Seg) (h : segOk ps s = true) :
    renderSeg ps s = .ok (renderSegD ps s) := by
  cases s with
  | lit s => rfl
  | field k =>
    simp only [segOk] at h
    simp only [renderSeg, renderSegD]
    cases hl : ps.lookup k with
    | none => simp [hl] at h
    | some v => rfl

theorem renderSeg_of_not_ok (ps : Params) (s : Seg) (h : segOk ps s = false) :
    ∃ k, renderSeg ps s = .error (.formatKeyError k) := by
  cases s with
  | lit s => simp [segOk] at h
  | field k =>
    simp only [segOk] at h
    simp only [renderSeg]
    cases hl : ps.lookup k with
    | none => exact ⟨k, rfl⟩
    | some v => simp [hl] at h

theorem render_of_ok (ps : Params) : ∀ segs, segs.all (segOk ps) = true → render ps segs = .ok (renderD ps segs)
  | [], _ => rfl
  | s :: rest, h => by
    simp only [List.all_cons, Bool.and_eq_true] at h
    simp only [render, renderD, renderSeg_of_ok ps s h.1, render_of_ok ps rest h.2]

theorem render_of_not_ok (ps : Params) : ∀ segs, segs.all (segOk ps) = false →
    ∃ k, render ps segs = .error (.formatKeyError k)
  | [], h => by simp at h
  | s :: rest, h => by
    simp only [render]
    cases hs : segOk ps s with
    | false =>
      obtain ⟨k, hk⟩ := renderSeg_of_not_ok ps s hs
      exact ⟨k, by rw [hk]⟩
    | true =>
      rw [renderSeg_of_ok ps s hs]
      simp only [List.all_cons, hs, Bool.true_and] at h
      obtain ⟨k, hk⟩ := render_of_not_ok ps rest h
      exact ⟨k, by simp only [hk]⟩

theorem applyNaming_of_ok (n : Naming) (name desc : String) (ps : Params) (nb : Nat)
    (h : namingOk n ps = true) : applyNaming n name desc ps nb = .ok (namingD n name desc ps nb) := by
  cases n with
  | default => rfl
  | format nt dt =>
    simp only [namingOk, Bool.and_eq_true] at h
    simp only [applyNaming, namingD, render_of_ok ps nt h.1, render_of_ok ps dt h.2]

theorem applyNaming_of_not_ok (n : Naming) (name desc : String) (ps : Params) (nb : Nat)
    (h : namingOk n ps = false) : ∃ k, applyNaming n name desc ps nb = .error (.formatKeyError k) := by
  cases n with
  | default => simp [namingOk] at h
  | format nt dt =>
    simp only [applyNaming]
    cases h1 : nt.all (segOk ps) with
    | false =>
      obtain ⟨k, hk⟩ := render_of_not_ok ps nt h1
      exact ⟨k, by rw [hk]⟩
    | true =>
      rw [render_of_ok ps nt h1]
      simp only [namingOk, h1, Bool.true_and] at h
      obtain ⟨k, hk⟩ := render_of_not_ok ps dt h
      exact ⟨k, by simp only [hk]⟩

def IsOk (x : Except LoadErr α) : Prop := ∃ a, x = .ok a

theorem expandSets_of_ok (b : Test) (vis : Bool) (n : Naming) : ∀ (nb : Nat) (sets : List Params),
    sets.all (namingOk n) = true →
    expandSets b vis n nb sets = (if vis then declSets b n nb sets else []).map .ok
  | _, [], _ => by cases vis <;> rfl
  | nb, ps :: rest, h => by
    simp only [List.all_cons, Bool.and_eq_true] at h
    have ih := expandSets_of_ok b vis n (nb + 1) rest h.2
    simp only [expandSets, applyNaming_of_ok n b.name b.desc ps nb h.1, ih]
    cases vis <;> simp [declSets]

theorem expandSets_all_ok (b : Test) (vis : Bool) (n : Naming) : ∀ (nb : Nat) (sets : List Params),
    (∀ x ∈ expandSets b vis n nb sets, IsOk x) → sets.all (namingOk n) = true
  | _, [], _ => rfl
  | nb, ps :: rest, h => by
    cases hn : namingOk n ps with
    | false =>
      exfalso
      obtain ⟨k, hk⟩ := applyNaming_of_not_ok n b.name b.desc ps nb hn
      have := h (.error (.formatKeyError k)) (by simp [expandSets, hk])
      obtain ⟨a, ha⟩ := this
      cases ha
    | true =>
      simp only [List.all_cons, hn, Bool.true_and]
      apply expandSets_all_ok b vis n (nb + 1) rest
      intro x hx
      apply h
      simp only [expandSets, applyNaming_of_ok n b.name b.desc ps nb hn]
      cases vis
      · simpa using hx
      · simp only [if_true, List.mem_cons]; exact Or.inr hx

theorem expandDecl_of_ok (d : TestDecl) (h : templatesOk d = true) :
    expandDecl d = (declDecl d).map .ok := by
  unfold expandDecl declDecl expansions
  unfold templatesOk at h
  cases hp : d.param with
  | none => cases d.vis.visible <;> simp
  | some p =>
    obtain ⟨sets, n⟩ := p
    rw [hp] at h
    simp only at h ⊢
    rw [expandSets_of_ok _ _ _ _ _ h]

theorem expandDecl_all_ok (d : TestDecl) (h : ∀ x ∈ expandDecl d, IsOk x) : templatesOk d = true := by
  unfold templatesOk
  unfold expandDecl at h
  cases hp : d.param with
  | none => rfl
  | some p =>
    obtain ⟨sets, n⟩ := p
    rw [hp] at h
    exact expandSets_all_ok _ _ _ _ _ h

theorem flatMap_expandDecl_of_ok : ∀ (ds : List TestDecl), (∀ d ∈ ds, templatesOk d = true) →
    ds.flatMap expandDecl = (ds.flatMap declDecl).map .ok
  | [], _ => rfl
  | d :: rest, h => by
    simp only [List.flatMap_cons, List.map_append]
    rw [expandDecl_of_ok d (h d List.mem_cons_self),
        flatMap_expandDecl_of_ok rest (fun x hx => h x (List.mem_cons_of_mem _ hx))]

/-- **Exact success condition of the test-loading loop** of one class / module body, and its
    result: `loadTests ds` succeeds iff `acceptsTests ds`, and then yields `declTests ds`. -/
theorem loadTests_ok_iff (ds : List TestDecl) (ts : List Test) :
    loadTests ds = .ok ts ↔ (acceptsTests ds = true ∧ ts = declTests ds) := by
  unfold loadTests
  rw [addAll_ok_iff _ [] ts ⟨List.nodup_nil, List.nodup_nil⟩]
  simp only [List.nil_append]
  constructor
  · rintro ⟨ts', hs, rfl, hno⟩
    have hall : ∀ d ∈ ds, templatesOk d = true := by
      intro d hd
      apply expandDecl_all_ok
      intro x hx
      have hx' : x ∈ (discoverTests ds).flatMap expandDecl :=
        List.mem_flatMap.mpr ⟨d, mem_discover.mpr hd, hx⟩
      rw [hs] at hx'
      obtain ⟨t, _, ht⟩ := List.mem_map.mp hx'
      exact ⟨t, ht.symm⟩
    have heq : ts = declTests ds := by
      apply map_ok_inj (ε := LoadErr)
      rw [← hs, flatMap_expandDecl_of_ok (discoverTests ds) (fun d hd => hall d (mem_discover.mp hd))]
      rfl
    refine ⟨?_, heq⟩
    unfold acceptsTests
    simp only [Bool.and_eq_true, List.all_eq_true, nodupB_iff]
    rw [← heq]
    exact ⟨⟨hall, hno.1⟩, hno.2⟩
  · rintro ⟨hacc, rfl⟩
    unfold acceptsTests at hacc
    simp only [Bool.and_eq_true, List.all_eq_true, nodupB_iff] at hacc
    refine ⟨declTests ds, ?_, rfl, hacc.1.2, hacc.2⟩
    rw [flatMap_expandDecl_of_ok (discoverTests ds) (fun d hd => hacc.1.1 d (mem_discover.mp hd))]
    rfl

end LccModel.Loader

/-
  Lemmas for `Props/C08Exit.lean`: naming a result of the report by WHERE it sits in the tree — "the teardown of
  suite `s`", `s` a suite at any depth — and showing that it is one of the results `Report.is_successful()` /
  the exit code look at (`ExitCode.rawResults`).
-/
import LccModel.Lemmas.ExitCode

namespace LccModel.ExitCode
open LccModel.Report LccModel.Writer

/-- `InSuites s ss`: `s` is one of the suites `ss` or a sub-suite, at any depth, of one of them -/
inductive InSuites : SuiteResult → List SuiteResult → Prop
  | top {s : SuiteResult} {ss : List SuiteResult} : s ∈ ss → InSuites s ss
  | sub {s p : SuiteResult} {ss : List SuiteResult} : p ∈ ss → InSuites s p.suites → InSuites s ss

theorem rawSuite_eq (s : SuiteResult) : rawSuite s = own s ++ rawSuites s.suites := by
  cases s with
  | mk md st en su td ts ss => rw [rawSuite]; rfl

theorem rawSuites_of_mem {s : SuiteResult} {ss : List SuiteResult} (h : s ∈ ss) {a : AnyResult} (ha : a ∈ rawSuite s) :
    a ∈ rawSuites ss := by
  induction ss with
  | nil => cases h
  | cons x xs ih =>
    rw [rawSuites]
    rcases List.mem_cons.mp h with e | h
    · subst e; exact List.mem_append_left _ ha
    · exact List.mem_append_right _ (ih h)

/-- what a suite of the tree holds itself (its setup phase, its tests, its teardown phase) is among the results
    of the suites it sits in -/
theorem own_of_inSuites {s : SuiteResult} {ss : List SuiteResult} (h : InSuites s ss) {a : AnyResult} (ha : a ∈ own s) :
    a ∈ rawSuites ss := by
  induction h with
  | top hm => exact rawSuites_of_mem hm (by rw [rawSuite_eq]; exact List.mem_append_left _ ha)
  | sub hp _ ih => exact rawSuites_of_mem hp (by rw [rawSuite_eq]; exact List.mem_append_right _ ih)

theorem mem_rawResults_of_suite {r : Report} {s : SuiteResult} (h : InSuites s r.suites) {a : AnyResult} (ha : a ∈ own s) :
    a ∈ rawResults r := by
  unfold rawResults
  exact List.mem_append_left _ (List.mem_append_right _ (own_of_inSuites h ha))

theorem mem_own_setup {s : SuiteResult} {p : Result} (h : s.setup = some p) : AnyResult.phase p ∈ own s := by
  unfold own; rw [h]; simp [optPhase]

theorem mem_own_teardown {s : SuiteResult} {p : Result} (h : s.teardown = some p) : AnyResult.phase p ∈ own s := by
  unfold own; rw [h]; simp [optPhase]

theorem mem_own_test {s : SuiteResult} {t : TestResult} (h : t ∈ s.tests) : AnyResult.test t ∈ own s := by
  unfold own
  exact List.mem_append_left _ (List.mem_append_right _ (List.mem_map.mpr ⟨t, h, rfl⟩))

theorem mem_rawResults_session_setup {r : Report} {p : Result} (h : r.setup = some p) : AnyResult.phase p ∈ rawResults r := by
  unfold rawResults; rw [h]; simp [optPhase]

theorem mem_rawResults_session_teardown {r : Report} {p : Result} (h : r.teardown = some p) :
    AnyResult.phase p ∈ rawResults r := by
  unfold rawResults; rw [h]; simp [optPhase]

/-! ### sample reports for the non-vacuity examples of `Props/C08Exit.lean` -/
namespace Sample

/-- suite `inner` (nested in `outer`): one passed test, teardown result `td` -/
def nestedSuite : SuiteResult := .mk (md "inner" 1) (some 1) (some 2) none (some (res .failed)) [⟨md "c" 1, res .passed⟩] []

def outerSuite (td : Result) : SuiteResult :=
  .mk (md "outer" 1) (some 1) (some 2) (some (res .passed)) (some (res .passed)) [⟨md "a" 1, res .passed⟩, ⟨md "b" 2, res .passed⟩]
    [.mk (md "inner" 1) (some 1) (some 2) none (some td) [⟨md "c" 1, res .passed⟩] []]

/-- every test passed, the teardown of the NESTED suite failed (an abort raised by its `teardown_suite`) -/
def allPassedTeardownFailed : Report := { Report.empty with suites := [outerSuite (res .failed)] }

/-- the same tests, every teardown passed -/
def allPassed : Report := { Report.empty with suites := [outerSuite (res .passed)] }

/-- every test passed, the SESSION teardown failed (an abort raised by the teardown of a session fixture) -/
def sessionTeardownFailed : Report :=
  { Report.empty with setup := some (res .passed), teardown := some (res .failed), suites := [outerSuite (res .passed)] }

end Sample

end LccModel.ExitCode

/-
  Sample projects of `Props/C02Attach.lean` (property theorem files hold theorems only), parametrized by the exception kind.
-/
import LccModel.Model.RunAccept

namespace LccModel.Run.AttachSample
open LccModel.Report LccModel.Run LccModel.Session

/-- a test whose body is: a block whose content producer raises `k` (nothing written yet), then a log -/
def tBody (k : ExcKind) : TestSpec := ⟨"t", 0, false, false, [], [], [.attachBlock [.log .info, .raise k], .log .info]⟩
/-- … the same inside an `lcc.Thread` of the test -/
def tThread (k : ExcKind) : TestSpec := ⟨"u", 1, false, false, [], [], [.thread [.attachBlock [.raise k], .log .info], .log .info]⟩
def P (k : ExcKind) : Proj :=
  ⟨[], [SuiteSpec.mk "s" 0 false (some ([], [.attachBlock [.attachBlock [.raise k]], .log .info])) none none none [] [tBody k, tThread k] []],
   1, false, false⟩

/-- the body's `exit` record: the script ran to its end -/
def bodyExited (o : TaskOut) (p : Path) : Bool := o.items.contains (Item.user 0 (.body p) "exit")

end LccModel.Run.AttachSample

/-
  Helper lemmas for C13, layer 7: facts about the specification itself (membership = "hidden items and
  nothing else are omitted", one test per parameter set, metadata carried over) and the explicit
  collapse / merge lemmas.
-/
import LccModel.Lemmas.LoaderUnique

namespace LccModel.Loader

open List

/-! ### Parameter sets -/

theorem declSets_params (b : Test) (n : Naming) : ∀ (nb : Nat) (sets : List Params),
    (declSets b n nb sets).map (·.params) = sets
  | _, [] => rfl
  | nb, ps :: rest => by simp [declSets, declSets_params b n (nb + 1) rest]

theorem declSets_default_names (b : Test) : ∀ (nb : Nat) (sets : List Params),
    (declSets b .default nb sets).map (fun t => (t.name, t.desc))
      = (List.range' nb sets.length).map (fun i => (b.name ++ "_" ++ toString i, b.desc ++ " #" ++ toString i))
  | _, [] => rfl
  | nb, ps :: rest => by
    simp [declSets, namingD, List.range'_succ, declSets_default_names b (nb + 1) rest]

theorem declSets_format_names (b : Test) (nt dt : List Seg) : ∀ (nb : Nat) (sets : List Params),
    (declSets b (.format nt dt) nb sets).map (fun t => (t.name, t.desc))
      = sets.map (fun ps => (renderD ps nt, renderD ps dt))
  | _, [] => rfl
  | nb, ps :: rest => by
    simp [declSets, namingD, declSets_format_names b nt dt (nb + 1) rest]

theorem declSets_meta (b : Test) (n : Naming) : ∀ (nb : Nat) (sets : List Params),
    ∀ t ∈ declSets b n nb sets, t.rank = b.rank ∧ t.md = b.md ∧ t.disabled = b.disabled
  | _, [], _, ht => by cases ht
  | nb, ps :: rest, t, ht => by
    simp only [declSets, List.mem_cons] at ht
    rcases ht with rfl | ht
    · exact ⟨rfl, rfl, rfl⟩
    · exact declSets_meta b n (nb + 1) rest t ht

theorem expansions_meta (d : TestDecl) : ∀ t ∈ expansions d, t.rank = d.rank ∧ t.md = d.md ∧ t.disabled = d.disabled := by
  intro t ht
  unfold expansions at ht
  cases hp : d.param with
  | none =>
    simp only [hp, List.mem_singleton] at ht
    subst ht; exact ⟨rfl, rfl, rfl⟩
  | some p =>
    obtain ⟨sets, n⟩ := p
    simp only [hp] at ht
    exact declSets_meta (baseTest d) n 1 sets t ht

/-! ### Membership: what is omitted -/

theorem mem_declTests_iff (ds : List TestDecl) (t : Test) :
    t ∈ declTests ds ↔ ∃ d ∈ ds, d.vis.visible = true ∧ t ∈ expansions d := by
  unfold declTests declDecl
  simp only [List.mem_flatMap]
  constructor
  · rintro ⟨d, hd, ht⟩
    by_cases hv : d.vis.visible = true
    · simp only [hv, if_true] at ht
      exact ⟨d, mem_discover.mp hd, hv, ht⟩
    · simp [hv] at ht
  · rintro ⟨d, hd, hv, ht⟩
    exact ⟨d, mem_discover.mpr hd, by simp [hv, ht]⟩

/-- Each symbol contributes its expansions exactly once (multiset statement). -/
theorem declTests_perm (ds : List TestDecl) : declTests ds ~ ds.flatMap declDecl :=
  (discover_perm TestDecl.attr TestDecl.rank ds).flatMap_right declDecl

theorem declClsBody_eq (h : ClsHead) (tests : List TestDecl) (subs : List Cls) :
    declClsBody (.mk h tests subs) = testLeaves (declTests tests) ++ (discoverClasses subs).flatMap declCls := by
  simp [declClsBody, flattenKeyed_declClsList]

theorem mem_declClsBody_iff (h : ClsHead) (tests : List TestDecl) (subs : List Cls) (e : Entry) :
    e ∈ declClsBody (.mk h tests subs) ↔
      (∃ t ∈ declTests tests, e = ([t.name], t)) ∨
      (∃ c ∈ subs, c.head.vis.visible = true ∧ ∃ e' ∈ declClsBody c, e = (c.head.suiteName :: e'.1, e'.2)) := by
  rw [declClsBody_eq]
  simp only [List.mem_append, testLeaves, List.mem_map, List.mem_flatMap, declCls, underSuite]
  constructor
  · rintro (⟨t, ht, rfl⟩ | ⟨c, hc, he⟩)
    · exact Or.inl ⟨t, ht, rfl⟩
    · by_cases hv : c.head.vis.visible = true
      · simp only [hv, if_true, List.mem_map] at he
        obtain ⟨e', he', rfl⟩ := he
        exact Or.inr ⟨c, mem_discover.mp hc, hv, e', he', rfl⟩
      · simp [hv] at he
  · rintro (⟨t, ht, rfl⟩ | ⟨c, hc, hv, e', he', rfl⟩)
    · exact Or.inl ⟨t, ht, rfl⟩
    · refine Or.inr ⟨c, mem_discover.mpr hc, ?_⟩
      simp only [hv, if_true, List.mem_map]
      exact ⟨e', he', rfl⟩

/-! ### Declaration order -/

theorem declTests_of_increasing (ds : List TestDecl) (h : ds.Pairwise (fun a b => a.rank < b.rank)) :
    declTests ds = ds.flatMap declDecl := by
  unfold declTests discoverTests
  rw [discover_eq_of_increasing _ _ ds h]

theorem classes_of_increasing (cs : List Cls) (h : cs.Pairwise (fun a b => a.head.rank < b.head.rank)) :
    flattenKeyed (declClsList cs) = cs.flatMap declCls := by
  rw [flattenKeyed_declClsList]
  unfold discoverClasses
  rw [discover_eq_of_increasing _ _ cs h]

theorem orderItems_sorted (items : List Item) : (orderItems items).Pairwise (fun a b => a.rank ≤ b.rank) :=
  (sortBy_pairwise (le := fun (a b : Item) => intLe a.rank b.rank) (intLe_total _) (intLe_trans _) _).imp
    (fun h => by simpa [intLe] using h)

/-! ### Collapse -/

theorem file_collapses {m : Module} {c : Cls} {s : Suite}
    (hi : m.info = none) (ht : declTests m.tests = []) (hv : visibleClasses m.classes = [c])
    (hn : c.head.suiteName = m.stem) (h : loadFile m = .ok s) : loadClass c = .ok s := by
  unfold loadFile at h
  cases hb : m.broken
  · simp only [hb, Bool.false_eq_true, if_false] at h
    cases hm : loadModule m with
    | error e => simp [hm] at h
    | ok s0 =>
      simp only [hm, Except.ok.injEq] at h
      obtain ⟨ss, rfl, f2, _, _, _⟩ := loadModule_spec hm
      rw [hv] at f2
      obtain ⟨s', bs, rfl, hcs, f2'⟩ := forall2_cons_left f2
      have := forall2_nil_left f2'; subst this
      have hname : s'.name = m.stem := by
        rw [← hn]; simp [Suite.name, (loadClass_good hcs).head, clsSuiteHead]
      rw [ht] at h
      simp only [collapse, hi, hname, if_true] at h
      rw [← h]; exact hcs
  · simp [hb] at h

theorem file_no_collapse_with_info {m : Module} {i : SuiteInfo} (hi : m.info = some i) (hb : m.broken = false) :
    loadFile m = loadModule m := by
  unfold loadFile
  simp only [hb, Bool.false_eq_true, if_false]
  cases hm : loadModule m with
  | error e => rfl
  | ok s => simp [collapse, hi]

/-! ### Merge -/

theorem merge_into_module {t : Table} {dn : String} {s : Suite} (subs : List Suite)
    (hl : t.lookup (Key.file dn) = some s) :
    mergeDirs t [(dn, .ok subs)] = (attach s subs).map (fun s' => Table.update (Key.file dn) s' t) := by
  simp only [mergeDirs, hl]
  cases attach s subs <;> rfl

theorem merge_without_module {t : Table} {dn : String} (subs : List Suite)
    (hl : t.lookup (Key.file dn) = none) :
    mergeDirs t [(dn, .ok subs)] = (attach (synthetic dn) subs).map (fun s' => t ++ [(Key.dir dn, s')]) := by
  simp only [mergeDirs, hl]
  cases attach (synthetic dn) subs <;> rfl

theorem merge_subdir_error {t : Table} {dn : String} (e : LoadErr) (rest) :
    mergeDirs t ((dn, .error e) :: rest) = .error e := rfl

theorem hidden_module_not_in_table {m : Module} {s : Suite} (h : loadFile m = .ok s) (hh : s.hidden = true) :
    loadModTable [m] = .ok [] := by
  simp [loadModTable, h, hh]

theorem loadDir_unfold (n : String) (mods : List Module) (dirs : List Dir) (ss : List Suite) :
    loadDir (.mk n mods dirs) = .ok ss ↔
      ∃ t t', loadModTable (sortMods mods) = .ok t ∧
        mergeDirs t ((sortDirs dirs).map (fun d => (d.name, loadDir d))) = .ok t' ∧
        ss = finalSort (t'.map Prod.snd) := by
  have e : loadDir (.mk n mods dirs) =
      match loadModTable (sortMods mods) with
      | .error e => .error e
      | .ok t =>
        match mergeDirs t (sortDirResults (loadDirList dirs)) with
        | .error e => .error e
        | .ok t' => .ok (finalSort (t'.map Prod.snd)) := by first | rfl | simp only [loadDir]
  rw [e, sortDirResults_loadDirList]
  cases ht : loadModTable (sortMods mods) with
  | error e => simp
  | ok t =>
    cases hm : mergeDirs t ((sortDirs dirs).map (fun d => (d.name, loadDir d))) with
    | error e =>
      simp only [hm]; simp
      intro x hx; rw [hm] at hx; cases hx
    | ok t' =>
      simp only [hm, Except.ok.injEq]
      constructor
      · intro h; exact ⟨t, t', rfl, hm, h.symm⟩
      · rintro ⟨t0, t0', h1, h2, h3⟩
        subst h1; rw [hm] at h2; injection h2 with h2; subst h2; exact h3.symm

theorem loadDir_parts {n : String} {mods : List Module} {dirs : List Dir} {ss : List Suite}
    (h : loadDir (.mk n mods dirs) = .ok ss) :
    (∀ m ∈ mods, acceptsModule m = true) ∧ (∀ d ∈ dirs, ∃ ss', loadDir d = .ok ss') := by
  obtain ⟨t, t', ht, hm, _⟩ := (loadDir_unfold n mods dirs ss).mp h
  refine ⟨?_, ?_⟩
  · intro m hm'
    exact (loadModTable_exists_iff (sortMods mods)).mp ⟨t, ht⟩ m (mem_sortBy.mpr hm')
  · intro d hd
    have := mergeDirs_all_ok _ t t' hm (d.name, loadDir d)
      (List.mem_map.mpr ⟨d, mem_sortBy.mpr hd, rfl⟩)
    exact this

theorem except_ok_or_error {ε α : Type} (x : Except ε α) : (∃ a, x = .ok a) ∨ (∃ e, x = .error e) := by
  cases x with
  | ok a => exact Or.inl ⟨a, rfl⟩
  | error e => exact Or.inr ⟨e, rfl⟩

end LccModel.Loader

/-
  Lemmas about `Model/Writer.lean` meant for reuse (C02, C07, C10, C20):

  * `resultInv` / `reportInv`: a result "as `ReportWriter` leaves it" (status = verdict of the logs, finished results
    have only ended steps, skipped / disabled have no steps);
  * `eventOk` / `runDisciplined`: what a well-formed stream guarantees when an event arrives, stated on the writer's
    own state (end events hit an in-progress result whose steps ended; step starts hit an in-progress result);
  * `apply_inv`, `runDisciplined_inv`, `status_passed_iff`: under that discipline every result of the aggregated report
    satisfies `resultInv`; `resultInv_passed_iff`, `resultInv_failed_iff`: what that means per result;
  * `apply_stepStart_active`, `log_lands_in_own_step`, `addEntry_active`: where a log lands;
  * `modifyResult_inv`, `modifyResult_congr`, `modifyResult_guarded`: generic facts about the path lookups
    (`find_suite` / `find_test` / `ReportLocation.get`) as in-place modifications.

  NOT proved here (validated by stream `C18.writer` instead): that every stream accepted by `Grammar.run .parallel` obeys
  `eventOk` at every step — it needs a location-indexed simulation between the acceptor's open sets and the report.
-/
import LccModel.Model.Writer
import LccModel.Lemmas.Sort
set_option linter.unusedSimpArgs false
set_option linter.unusedVariables false
namespace LccModel.Writer
open LccModel.Report

/-! ### the status invariant of `ReportWriter` -/

def stepEnded (s : Step) : Bool := truthyTime s.endTime

/-- A result as `ReportWriter` leaves it:
    in progress (no status) — nothing is claimed;
    passed — all steps ended and every log is successful;
    failed — all steps ended and some log is an error log or a failed check;
    skipped / disabled — no steps. -/
def resultInv (x : Result) : Bool :=
  match x.status with
  | none => true
  | some .passed => x.steps.all stepEnded && x.steps.all Step.ok
  | some .failed => x.steps.all stepEnded && !x.steps.all Step.ok
  | some .skipped => x.steps.isEmpty
  | some .disabled => x.steps.isEmpty

def optResultInv : Option Result → Bool
  | none => true
  | some x => resultInv x

mutual
def suiteInv : SuiteResult → Bool
  | .mk _ _ _ su td ts ss => optResultInv su && optResultInv td && ts.all (fun t => resultInv t.result) && suitesInv ss
def suitesInv : List SuiteResult → Bool
  | [] => true
  | s :: ss => suiteInv s && suitesInv ss
end

/-- every result of the report (session / suite setups and teardowns, tests) is as the writer leaves it -/
def reportInv (r : Report) : Bool := optResultInv r.setup && optResultInv r.teardown && suitesInv r.suites

theorem suitesInv_append (a b : List SuiteResult) : suitesInv (a ++ b) = (suitesInv a && suitesInv b) := by
  induction a with
  | nil => simp [suitesInv]
  | cons x xs ih => simp [suitesInv, ih, Bool.and_assoc]

/-! ### lookups preserve what they do not touch -/

theorem modifyFirst_all {α ε : Type} (p : α → Bool) (f : α → Except ε α) (nf : ε) (Q : α → Bool) :
    ∀ (l l' : List α), modifyFirst p f nf l = .ok l' → l.all Q = true → (∀ x x', Q x = true → f x = .ok x' → Q x' = true) →
      l'.all Q = true
  | [], l', h, _, _ => by simp [modifyFirst] at h
  | x :: xs, l', h, hq, hf => by
    simp only [List.all_cons, Bool.and_eq_true] at hq
    unfold modifyFirst at h
    split at h
    · split at h
      · cases h; simp [hf x _ hq.1 (by assumption), hq.2]
      · cases h
    · split at h
      · rename_i ys hys
        cases h
        simp [hq.1, modifyFirst_all p f nf Q xs ys hys hq.2 hf]
      · cases h

theorem suitesInv_iff_all (ss : List SuiteResult) : suitesInv ss = ss.all suiteInv := by
  induction ss with
  | nil => rfl
  | cons s ss ih => simp [suitesInv, ih]

theorem modifySuite_inv (f : SuiteResult → Except WriterErr SuiteResult)
    (hf : ∀ s s', suiteInv s = true → f s = .ok s' → suiteInv s' = true) :
    ∀ (p : Path) (ss ss' : List SuiteResult), modifySuite f p ss = .ok ss' → suitesInv ss = true → suitesInv ss' = true
  | [], ss, ss', h, _ => by simp [modifySuite] at h
  | [n], ss, ss', h, hi => by
    rw [suitesInv_iff_all] at hi ⊢
    exact modifyFirst_all _ f _ suiteInv ss ss' (by simpa [modifySuite] using h) hi hf
  | n :: m :: rest, ss, ss', h, hi => by
    rw [suitesInv_iff_all] at hi ⊢
    refine modifyFirst_all _ _ _ suiteInv ss ss' (by simpa [modifySuite] using h) hi ?_
    intro s s' hs hfs
    split at hfs
    · rename_i sub hsub
      cases hfs
      cases s with
      | mk md st en su td ts subs =>
        simp only [suiteInv, Bool.and_eq_true] at hs
        have := modifySuite_inv f hf (m :: rest) subs sub hsub hs.2
        simp [SuiteResult.setSuites, suiteInv, hs.1.1.1, hs.1.1.2, hs.1.2, this]
    · cases hfs



theorem modifyTest_inv (f : TestResult → Except WriterErr TestResult)
    (hf : ∀ t t', resultInv t.result = true → f t = .ok t' → resultInv t'.result = true) :
    ∀ (p : Path) (ss ss' : List SuiteResult), modifyTest f p ss = .ok ss' → suitesInv ss = true → suitesInv ss' = true := by
  intro p ss ss' h hi
  unfold modifyTest at h
  split at h
  · cases h
  · rename_i last _
    refine modifySuite_inv _ ?_ _ ss ss' h hi
    intro s s' hs hfs
    split at hfs
    · rename_i ts hts
      cases hfs
      cases s with
      | mk md st en su td tests subs =>
        simp only [suiteInv, Bool.and_eq_true] at hs
        have := modifyFirst_all _ f _ (fun t => resultInv t.result) tests ts hts hs.1.2 hf
        simp [SuiteResult.setTests, suiteInv, hs.1.1.1, hs.1.1.2, hs.2, this]
    · cases hfs

theorem liftSuites_ok {r : Report} {x : Except WriterErr (List SuiteResult)} {r' : Report} (h : liftSuites r x = .ok r') :
    ∃ ss, x = .ok ss ∧ r' = { r with suites := ss } := by
  cases x with
  | ok ss => simp only [liftSuites] at h; cases h; exact ⟨ss, rfl, rfl⟩
  | error e => simp [liftSuites] at h

/-- a mutation `f` of one result that keeps the invariant keeps it for the whole report -/
theorem modifyResult_inv (f : Result → Except WriterErr Result)
    (hf : ∀ x y, resultInv x = true → f x = .ok y → resultInv y = true)
    (loc : Loc) (r r' : Report) (h : modifyResult f loc r = .ok r') (hi : reportInv r = true) : reportInv r' = true := by
  simp only [reportInv, Bool.and_eq_true] at hi
  obtain ⟨⟨h1, h2⟩, h3⟩ := hi
  cases loc with
  | sessionSetup =>
    simp only [modifyResult] at h
    split at h
    · cases h
    · rename_i x hx
      split at h
      · rename_i y hy
        cases h
        rw [hx] at h1
        simp only [reportInv, Bool.and_eq_true]
        exact ⟨⟨by simpa [optResultInv] using hf x y h1 hy, h2⟩, h3⟩
      · cases h
  | sessionTeardown =>
    simp only [modifyResult] at h
    split at h
    · cases h
    · rename_i x hx
      split at h
      · rename_i y hy
        cases h
        rw [hx] at h2
        simp only [reportInv, Bool.and_eq_true]
        exact ⟨⟨h1, by simpa [optResultInv] using hf x y h2 hy⟩, h3⟩
      · cases h
  | suiteSetup p =>
    simp only [modifyResult] at h
    obtain ⟨ss, hss, rfl⟩ := liftSuites_ok h
    have := modifySuite_inv _ (by
      intro s s' hs hfs
      split at hfs
      · cases hfs
      · rename_i x hx
        split at hfs
        · rename_i y hy
          cases hfs
          cases s with
          | mk md st en su td ts subs =>
            simp only [SuiteResult.setup] at hx
            subst hx
            simp only [suiteInv, Bool.and_eq_true, optResultInv] at hs
            simp [SuiteResult.setSetup, suiteInv, optResultInv, hf x y hs.1.1.1 hy, hs.1.1.2, hs.1.2, hs.2]
        · cases hfs) p r.suites ss hss h3
    simp [reportInv, h1, h2, this]
  | suiteTeardown p =>
    simp only [modifyResult] at h
    obtain ⟨ss, hss, rfl⟩ := liftSuites_ok h
    have := modifySuite_inv _ (by
      intro s s' hs hfs
      split at hfs
      · cases hfs
      · rename_i x hx
        split at hfs
        · rename_i y hy
          cases hfs
          cases s with
          | mk md st en su td ts subs =>
            simp only [SuiteResult.teardown] at hx
            subst hx
            simp only [suiteInv, Bool.and_eq_true, optResultInv] at hs
            simp [SuiteResult.setTeardown, suiteInv, optResultInv, hf x y hs.1.1.2 hy, hs.1.1.1, hs.1.2, hs.2]
        · cases hfs) p r.suites ss hss h3
    simp [reportInv, h1, h2, this]
  | test p =>
    simp only [modifyResult] at h
    obtain ⟨ss, hss, rfl⟩ := liftSuites_ok h
    have := modifyTest_inv _ (by
      intro t t' ht hft
      split at hft
      · rename_i y hy
        cases hft
        exact hf _ y ht hy
      · cases hft) p r.suites ss hss h3
    simp [reportInv, h1, h2, this]



/-! ### two mutations through the same lookup reach the same object -/

theorem modifyFirst_congr {α ε : Type} (p : α → Bool) (G F F' : α → Except ε α) (nf : ε) :
    ∀ (l l0 : List α), modifyFirst p G nf l = .ok l0 → (∀ x y, G x = .ok y → F x = F' x) →
      modifyFirst p F nf l = modifyFirst p F' nf l
  | [], _, h, _ => by simp [modifyFirst] at h
  | x :: xs, l0, h, hfg => by
    unfold modifyFirst at h ⊢
    split at h
    · rename_i hp
      split at h
      · rename_i y hy
        simp only [hp, if_true, hfg x y hy]
      · cases h
    · rename_i hp
      split at h
      · rename_i ys hys
        simp only [hp, if_false, Bool.false_eq_true, modifyFirst_congr p G F F' nf xs ys hys hfg]
      · cases h

theorem modifySuite_congr (G F F' : SuiteResult → Except WriterErr SuiteResult)
    (hfg : ∀ s y, G s = .ok y → F s = F' s) :
    ∀ (p : Path) (ss ss0 : List SuiteResult), modifySuite G p ss = .ok ss0 → modifySuite F p ss = modifySuite F' p ss
  | [], _, _, h => by simp [modifySuite] at h
  | [n], ss, ss0, h => by
    simp only [modifySuite] at h ⊢
    exact modifyFirst_congr _ G F F' _ ss ss0 h hfg
  | n :: m :: rest, ss, ss0, h => by
    simp only [modifySuite] at h ⊢
    refine modifyFirst_congr _ _ _ _ _ ss ss0 h ?_
    intro s y hy
    split at hy
    · rename_i sub hsub
      rw [modifySuite_congr G F F' hfg (m :: rest) s.suites sub hsub]
    · cases hy

theorem modifyTest_congr (G F F' : TestResult → Except WriterErr TestResult) (hfg : ∀ t y, G t = .ok y → F t = F' t)
    (p : Path) (ss ss0 : List SuiteResult) (h : modifyTest G p ss = .ok ss0) : modifyTest F p ss = modifyTest F' p ss := by
  unfold modifyTest at h ⊢
  split at h
  · rfl
  · rename_i last _
    refine modifySuite_congr _ _ _ ?_ _ ss ss0 h
    intro s y hy
    split at hy
    · rename_i ts hts
      rw [modifyFirst_congr _ G F F' _ s.tests ts hts hfg]
    · cases hy

/-- if the lookup of `loc` succeeds with `G`, then `F` and `F'`, which agree wherever `G` succeeds, give the same report -/
theorem modifyResult_congr (G F F' : Result → Except WriterErr Result) (hfg : ∀ x y, G x = .ok y → F x = F' x)
    (loc : Loc) (r r0 : Report) (h : modifyResult G loc r = .ok r0) : modifyResult F loc r = modifyResult F' loc r := by
  cases loc with
  | sessionSetup =>
    simp only [modifyResult] at h ⊢
    split at h
    · cases h
    · rename_i x hx
      split at h
      · rename_i y hy; simp [hfg x y hy]
      · cases h
  | sessionTeardown =>
    simp only [modifyResult] at h ⊢
    split at h
    · cases h
    · rename_i x hx
      split at h
      · rename_i y hy; simp [hfg x y hy]
      · cases h
  | suiteSetup p =>
    simp only [modifyResult] at h ⊢
    obtain ⟨ss, hss, _⟩ := liftSuites_ok h
    rw [modifySuite_congr _ _ _ ?_ p r.suites ss hss]
    intro s y hy
    split at hy
    · cases hy
    · rename_i x hx
      split at hy
      · rename_i z hz; simp [hx, hfg x z hz]
      · cases hy
  | suiteTeardown p =>
    simp only [modifyResult] at h ⊢
    obtain ⟨ss, hss, _⟩ := liftSuites_ok h
    rw [modifySuite_congr _ _ _ ?_ p r.suites ss hss]
    intro s y hy
    split at hy
    · cases hy
    · rename_i x hx
      split at hy
      · rename_i z hz; simp [hx, hfg x z hz]
      · cases hy
  | test p =>
    simp only [modifyResult] at h ⊢
    obtain ⟨ss, hss, _⟩ := liftSuites_ok h
    rw [modifyTest_congr _ _ _ ?_ p r.suites ss hss]
    intro t y hy
    split at hy
    · rename_i z hz; simp [hfg t.result z hz]
    · cases hy

/-- run `f` only where `pre` holds -/
def guardF (pre : Result → Bool) (f : Result → Except WriterErr Result) (x : Result) : Except WriterErr Result :=
  if pre x then f x else .error .internal

/-- the result `loc` denotes exists and satisfies `pre` -/
def resultSatisfies (pre : Result → Bool) (loc : Loc) (r : Report) : Bool :=
  match modifyResult (guardF pre .ok) loc r with
  | .ok _ => true
  | .error _ => false

theorem modifyResult_guarded (pre : Result → Bool) (f : Result → Except WriterErr Result) (loc : Loc) (r : Report)
    (h : resultSatisfies pre loc r = true) : modifyResult f loc r = modifyResult (guardF pre f) loc r := by
  unfold resultSatisfies at h
  split at h
  · rename_i r0 hr0
    refine modifyResult_congr (guardF pre .ok) f (guardF pre f) ?_ loc r r0 hr0
    intro x y hy
    unfold guardF at hy ⊢
    split at hy
    · rename_i hp; simp [hp]
    · cases hy
  · cases h



/-! ### the discipline a well-formed stream obeys, and the invariant it yields -/

def openAndStepsEnded (x : Result) : Bool := x.status.isNone && x.steps.all stepEnded
def isOpen (x : Result) : Bool := x.status.isNone

/-- What the stream grammar guarantees about the writer's state when an event arrives, stated on that state:
    an END event addresses a result that is in progress and whose steps have all ended;
    a STEP START addresses a result that is in progress; a STEP END carries a real time.
    (Logs need no condition: the writer itself refuses to log into an ended step.) -/
def eventOk (w : WriterState) : Event → Bool
  | .sessionSetupEnd _ => resultSatisfies openAndStepsEnded .sessionSetup w.report
  | .sessionTeardownEnd _ => resultSatisfies openAndStepsEnded .sessionTeardown w.report
  | .suiteSetupEnd p _ => resultSatisfies openAndStepsEnded (.suiteSetup p) w.report
  | .suiteTeardownEnd p _ => resultSatisfies openAndStepsEnded (.suiteTeardown p) w.report
  | .testEnd p _ => resultSatisfies openAndStepsEnded (.test p) w.report
  | .stepStart loc _ _ _ => resultSatisfies isOpen loc w.report
  | .stepEnd _ _ _ t => t != 0
  | _ => true

/-- `run`, checking the discipline before every event (`none`: the discipline is broken) -/
def runDisciplined (w : WriterState) : List Event → Option (Except WriterErr WriterState)
  | [] => some (.ok w)
  | e :: es =>
    if eventOk w e then
      match apply w e with
      | .ok w' => runDisciplined w' es
      | .error err => some (.error err)
    else none

theorem resultInv_init (t : Time) : resultInv (initResult t) = true := rfl

theorem finalize_inv (t : Time) (x y : Result) (h : guardF openAndStepsEnded (fun x => .ok (finalizeResult t x)) x = .ok y) :
    resultInv y = true := by
  unfold guardF at h
  split at h
  · rename_i hp
    cases h
    simp only [openAndStepsEnded, Bool.and_eq_true, Option.isNone_iff_eq_none] at hp
    simp only [finalizeResult, Result.ok, hp.1]
    by_cases hok : x.steps.all Step.ok = true
    · simp [resultInv, hok, hp.2]
    · simp only [Bool.not_eq_true] at hok
      simp [resultInv, hok, hp.2]
  · cases h

theorem dictSet_all {α : Type} (key : α → String) (Q : α → Bool) (x : α) (hx : Q x = true) :
    ∀ l : List α, l.all Q = true → (dictSet key x l).all Q = true
  | [], _ => by simp [dictSet, hx]
  | y :: ys, h => by
    simp only [List.all_cons, Bool.and_eq_true] at h
    unfold dictSet
    split
    · simp [hx, h.2]
    · simp [h.1, dictSet_all key Q x hx ys h.2]

theorem addTest_inv (parent : Path) (tr : TestResult) (htr : resultInv tr.result = true) (r r' : Report)
    (h : addTest parent tr r = .ok r') (hi : reportInv r = true) : reportInv r' = true := by
  simp only [reportInv, Bool.and_eq_true] at hi
  cases parent with
  | nil => simp [addTest] at h
  | cons a rest =>
    simp only [addTest] at h
    obtain ⟨ss, hss, rfl⟩ := liftSuites_ok h
    have := modifySuite_inv _ (by
      intro s s' hs hfs
      cases hfs
      cases s with
      | mk md st en su td ts subs =>
        simp only [suiteInv, Bool.and_eq_true] at hs
        have hd := dictSet_all (fun t => t.md.name) (fun t => resultInv t.result) tr htr ts hs.1.2
        simp only [SuiteResult.setTests, SuiteResult.tests, suiteInv, Bool.and_eq_true]
        exact ⟨⟨⟨hs.1.1.1, hs.1.1.2⟩, hd⟩, hs.2⟩) (a :: rest) r.suites ss hss hi.2
    simp [reportInv, hi.1.1, hi.1.2, this]

theorem suiteMod_inv (g : SuiteResult → SuiteResult) (hg : ∀ s, suiteInv s = true → suiteInv (g s) = true)
    (p : Path) (r r' : Report) (h : liftSuites r (modifySuite (fun s => .ok (g s)) p r.suites) = .ok r') (hi : reportInv r = true) :
    reportInv r' = true := by
  simp only [reportInv, Bool.and_eq_true] at hi
  obtain ⟨ss, hss, rfl⟩ := liftSuites_ok h
  have := modifySuite_inv _ (by intro s s' hs hfs; cases hfs; exact hg s hs) p r.suites ss hss hi.2
  simp [reportInv, hi.1.1, hi.1.2, this]

theorem modifyNth_all {α : Type} (f : α → α) (Q : α → Bool) (hf : ∀ x, Q x = true → Q (f x) = true) :
    ∀ (n : Nat) (l : List α), l.all Q = true → (modifyNth f n l).all Q = true
  | _, [], _ => by simp [modifyNth]
  | 0, x :: xs, h => by
    simp only [List.all_cons, Bool.and_eq_true] at h
    simp [modifyNth, hf x h.1, h.2]
  | n + 1, x :: xs, h => by
    simp only [List.all_cons, Bool.and_eq_true] at h
    simp [modifyNth, h.1, modifyNth_all f Q hf n xs h.2]

theorem modifyNth_all_eq {α : Type} (f : α → α) (Q : α → Bool) (hf : ∀ x, Q (f x) = Q x) :
    ∀ (n : Nat) (l : List α), (modifyNth f n l).all Q = l.all Q
  | _, [] => by simp [modifyNth]
  | 0, x :: xs => by simp [modifyNth, hf x]
  | n + 1, x :: xs => by simp [modifyNth, modifyNth_all_eq f Q hf n xs]

theorem modifyNth_isEmpty {α : Type} (f : α → α) : ∀ (n : Nat) (l : List α), (modifyNth f n l).isEmpty = l.isEmpty
  | _, [] => by simp [modifyNth]
  | 0, x :: xs => by simp [modifyNth]
  | n + 1, x :: xs => by simp [modifyNth]

theorem stepEnd_inv (t : Time) (ht : t ≠ 0) (idx : Nat) (x : Result) (h : resultInv x = true) :
    resultInv { x with steps := modifyNth (setStepEnd t) idx x.steps } = true := by
  have hended : ∀ l : List Step, l.all stepEnded = true → (modifyNth (setStepEnd t) idx l).all stepEnded = true :=
    fun l hl => modifyNth_all _ _ (fun s _ => by simp [setStepEnd, stepEnded, truthyTime, ht]) idx l hl
  have hok : (modifyNth (setStepEnd t) idx x.steps).all Step.ok = x.steps.all Step.ok :=
    modifyNth_all_eq _ _ (fun s => by simp [setStepEnd, Step.ok]) idx x.steps
  unfold resultInv at h ⊢
  cases hs : x.status with
  | none => simp
  | some st =>
    rw [hs] at h
    cases st <;> simp only [Bool.and_eq_true, modifyNth_isEmpty] at h ⊢
    · exact ⟨hended _ h.1, by rw [hok]; exact h.2⟩
    · exact ⟨hended _ h.1, by rw [hok]; exact h.2⟩
    · exact h
    · exact h

theorem getElem_of_all {α : Type} (Q : α → Bool) : ∀ (l : List α) (n : Nat) (x : α), l[n]? = some x → l.all Q = true → Q x = true
  | [], n, x, h, _ => by simp at h
  | y :: ys, 0, x, h, hq => by simp at h; subst h; simp at hq; exact hq.1
  | y :: ys, n + 1, x, h, hq => by
    simp at h hq
    exact getElem_of_all Q ys n x h (by simpa using hq.2)

theorem addEntryAt_inv (idx : Nat) (e : Entry) (x y : Result) (h : resultInv x = true) (hy : addEntryAt idx e x = .ok y) :
    resultInv y = true := by
  unfold addEntryAt at hy
  split at hy
  · cases hy
  · rename_i s hs
    split at hy
    · cases hy
    · rename_i hne
      cases hy
      -- the step is not ended, hence the result is in progress
      have hnotall : x.steps.all stepEnded = true → False := by
        intro hall
        have := getElem_of_all stepEnded x.steps idx s hs hall
        simp [stepEnded] at this; simp [this] at hne
      have hnonempty : x.steps.isEmpty = true → False := by
        intro he; simp only [List.isEmpty_iff] at he; simp [he] at hs
      unfold resultInv at h ⊢
      cases hst : x.status with
      | none => simp
      | some st =>
        rw [hst] at h
        cases st <;> simp only [Bool.and_eq_true] at h
        · exact absurd h.1 hnotall
        · exact absurd h.1 hnotall
        · exact absurd h hnonempty
        · exact absurd h hnonempty



theorem onReport_ok {w w' : WriterState} {x : Except WriterErr Report} (h : onReport w x = .ok w') :
    ∃ r', x = .ok r' ∧ w'.report = r' := by
  cases x with
  | ok r' => simp only [onReport] at h; cases h; exact ⟨r', rfl, rfl⟩
  | error e => simp [onReport] at h

theorem onResultStart_ok {loc : Loc} {w w' : WriterState} {x : Except WriterErr Report} (h : onResultStart loc w x = .ok w') :
    ∃ r', x = .ok r' ∧ w'.report = r' := by
  cases x with
  | ok r' => simp only [onResultStart] at h; cases h; exact ⟨r', rfl, rfl⟩
  | error e => simp [onResultStart] at h

theorem end_inv (w w' : WriterState) (loc : Loc) (t : Time) (hi : reportInv w.report = true)
    (hok : resultSatisfies openAndStepsEnded loc w.report = true)
    (h : onReport w (modifyResult (fun x => .ok (finalizeResult t x)) loc w.report) = .ok w') : reportInv w'.report = true := by
  obtain ⟨r', hr', he⟩ := onReport_ok h
  rw [modifyResult_guarded openAndStepsEnded _ loc w.report hok] at hr'
  rw [he]
  exact modifyResult_inv _ (fun x y _ hy => finalize_inv t x y hy) loc w.report r' hr' hi

theorem entry_inv (w w' : WriterState) (loc : Loc) (tid : Nat) (e : Entry) (hi : reportInv w.report = true)
    (h : addEntry w loc tid e = .ok w') : reportInv w'.report = true := by
  unfold addEntry at h
  split at h
  · cases h
  · split at h
    · cases h
    · split at h
      · split at h
        · cases h
        · cases h; exact hi
      · rename_i l idx _
        split at h
        · rename_i r' hr'
          cases h
          exact modifyResult_inv _ (fun x y hx hy => addEntryAt_inv idx e x y hx hy) l w.report r' hr' hi
        · cases h
        · cases h

/-- one event, handled under the discipline, keeps every result as the writer leaves it -/
theorem apply_inv (w w' : WriterState) (e : Event) (hi : reportInv w.report = true) (hok : eventOk w e = true)
    (h : apply w e = .ok w') : reportInv w'.report = true := by
  have hi' := hi
  simp only [reportInv, Bool.and_eq_true] at hi'
  cases e with
  | sessionStart t => simp only [apply] at h; cases h; simpa [reportInv] using hi
  | sessionEnd t => simp only [apply] at h; cases h; simpa [reportInv] using hi
  | sessionSetupStart t =>
    simp only [apply] at h; cases h
    simp only [reportInv, Bool.and_eq_true]; exact ⟨⟨rfl, hi'.1.2⟩, hi'.2⟩
  | sessionTeardownStart t =>
    simp only [apply] at h; cases h
    simp only [reportInv, Bool.and_eq_true]; exact ⟨⟨hi'.1.1, rfl⟩, hi'.2⟩
  | sessionSetupEnd t => exact end_inv w w' _ t hi hok h
  | sessionTeardownEnd t => exact end_inv w w' _ t hi hok h
  | suiteSetupEnd p t => exact end_inv w w' _ t hi hok h
  | suiteTeardownEnd p t => exact end_inv w w' _ t hi hok h
  | testEnd p t => exact end_inv w w' _ t hi hok h
  | suiteStart path md t =>
    simp only [apply] at h
    split at h
    · cases h
      simp only [reportInv, Bool.and_eq_true, suitesInv_append]
      exact ⟨⟨hi'.1.1, hi'.1.2⟩, hi'.2, by simp [suitesInv, initSuite, suiteInv, optResultInv]⟩
    · obtain ⟨r', hr', he⟩ := onReport_ok h
      rw [he]
      refine suiteMod_inv (fun s => s.setSuites (s.suites ++ [initSuite md t])) ?_ _ w.report r' hr' hi
      intro s hs
      cases s with
      | mk m st en su td ts subs =>
        simp only [suiteInv, Bool.and_eq_true] at hs
        simp only [SuiteResult.setSuites, SuiteResult.suites, suiteInv, suitesInv_append, Bool.and_eq_true]
        exact ⟨⟨⟨hs.1.1.1, hs.1.1.2⟩, hs.1.2⟩, hs.2, by simp [suitesInv, initSuite, suiteInv, optResultInv]⟩
  | suiteEnd path t =>
    simp only [apply] at h
    obtain ⟨r', hr', he⟩ := onReport_ok h
    rw [he]
    refine suiteMod_inv (fun s => s.setEndTime (some t)) ?_ _ w.report r' hr' hi
    intro s hs; cases s; simpa [SuiteResult.setEndTime, suiteInv] using hs
  | suiteSetupStart path t =>
    simp only [apply] at h
    obtain ⟨r', hr', he⟩ := onResultStart_ok h
    rw [he]
    refine suiteMod_inv (fun s => s.setSetup (some (initResult t))) ?_ _ w.report r' hr' hi
    intro s hs
    cases s with
    | mk m st en su td ts subs =>
      simp only [suiteInv, Bool.and_eq_true] at hs
      simp only [SuiteResult.setSetup, suiteInv, Bool.and_eq_true]
      exact ⟨⟨⟨rfl, hs.1.1.2⟩, hs.1.2⟩, hs.2⟩
  | suiteTeardownStart path t =>
    simp only [apply] at h
    obtain ⟨r', hr', he⟩ := onResultStart_ok h
    rw [he]
    refine suiteMod_inv (fun s => s.setTeardown (some (initResult t))) ?_ _ w.report r' hr' hi
    intro s hs
    cases s with
    | mk m st en su td ts subs =>
      simp only [suiteInv, Bool.and_eq_true] at hs
      simp only [SuiteResult.setTeardown, suiteInv, Bool.and_eq_true]
      exact ⟨⟨⟨hs.1.1.1, rfl⟩, hs.1.2⟩, hs.2⟩
  | testStart path md t =>
    simp only [apply] at h
    obtain ⟨r', hr', he⟩ := onResultStart_ok h
    rw [he]; exact addTest_inv _ _ rfl w.report r' hr' hi
  | testSkipped path md reason t =>
    simp only [apply] at h
    obtain ⟨r', hr', he⟩ := onResultStart_ok h
    rw [he]; exact addTest_inv _ _ rfl w.report r' hr' hi
  | testDisabled path md reason t =>
    simp only [apply] at h
    obtain ⟨r', hr', he⟩ := onResultStart_ok h
    rw [he]; exact addTest_inv _ _ rfl w.report r' hr' hi
  | stepStart loc d tid t =>
    simp only [apply] at h
    split at h
    · cases h
    · split at h
      · cases h
      · rename_i r' hr'
        cases h
        simp only [eventOk] at hok
        rw [modifyResult_guarded isOpen _ loc w.report hok] at hr'
        refine modifyResult_inv _ ?_ loc w.report r' hr' hi
        intro x y _ hy
        unfold guardF at hy
        split at hy
        · rename_i hp
          cases hy
          simp only [isOpen, Option.isNone_iff_eq_none] at hp
          simp [resultInv, hp]
        · cases hy
  | stepEnd loc d tid t =>
    simp only [eventOk, bne_iff_ne, ne_eq] at hok
    simp only [apply] at h
    split at h
    · cases h
    · split at h
      · cases h; exact hi
      · rename_i l idx _
        split at h
        · rename_i r' hr'
          cases h
          exact modifyResult_inv _ (fun x y hx hy => by cases hy; exact stepEnd_inv t hok idx x hx) l w.report r' hr' hi
        · cases h
  | log loc st tid level msg t => exact entry_inv w w' loc tid _ hi h
  | check loc st tid d ok det t => exact entry_inv w w' loc tid _ hi h
  | attachment loc st tid path d img t => exact entry_inv w w' loc tid _ hi h
  | url loc st tid u d t => exact entry_inv w w' loc tid _ hi h

/-- the invariant over a whole disciplined stream -/
theorem runDisciplined_inv : ∀ (es : List Event) (w w' : WriterState), reportInv w.report = true →
    runDisciplined w es = some (.ok w') → reportInv w'.report = true
  | [], w, w', hi, h => by simp only [runDisciplined] at h; cases h; exact hi
  | e :: es, w, w', hi, h => by
    simp only [runDisciplined] at h
    split at h
    · rename_i hok
      split at h
      · rename_i w1 hw1
        exact runDisciplined_inv es w1 w' (apply_inv w w1 e hi hok hw1) h
      · cases h
    · cases h

theorem runDisciplined_run : ∀ (es : List Event) (w : WriterState) (x : Except WriterErr WriterState),
    runDisciplined w es = some x → run w es = x
  | [], w, x, h => by simp only [runDisciplined] at h; cases h; rfl
  | e :: es, w, x, h => by
    simp only [runDisciplined] at h
    split at h
    · split at h
      · rename_i w1 hw1; simp only [run, hw1]; exact runDisciplined_run es w1 x h
      · rename_i err herr; cases h; simp only [run, herr]
    · cases h



/-! ### the named results -/

/-- **status_passed_iff** (per result): a finished result (status passed or failed) is `passed` exactly when every
    log of every step is successful — no error log, no failed check. -/
theorem resultInv_passed_iff (x : Result) (h : resultInv x = true)
    (hfin : x.status = some .passed ∨ x.status = some .failed) :
    x.status = some .passed ↔ x.steps.all Step.ok = true := by
  unfold resultInv at h
  rcases hfin with hs | hs <;> rw [hs] at h <;> simp only [Bool.and_eq_true] at h
  · simp [hs, h.2]
  · have : x.steps.all Step.ok = false := by simpa using h.2
    simp [hs, this]

/-- … and `failed` exactly when some log is an error log or a failed check -/
theorem resultInv_failed_iff (x : Result) (h : resultInv x = true)
    (hfin : x.status = some .passed ∨ x.status = some .failed) :
    x.status = some .failed ↔ ∃ s ∈ x.steps, ∃ e ∈ s.entries, e.ok = false := by
  have hp := resultInv_passed_iff x h hfin
  have : x.steps.all Step.ok = true ↔ ¬ ∃ s ∈ x.steps, ∃ e ∈ s.entries, e.ok = false := by
    simp [List.all_eq_true, Step.ok]
  rcases hfin with hs | hs
  · have h1 := hp.mp hs
    rw [hs]
    constructor
    · intro h2; cases h2
    · intro h2; exact absurd h2 (this.mp h1)
  · have h1 : ¬ x.steps.all Step.ok = true := fun h2 => by have := hp.mpr h2; rw [hs] at this; cases this
    rw [hs]
    constructor
    · intro _; exact Classical.not_not.mp (fun hn => h1 (this.mpr hn))
    · intro _; rfl

theorem suitesInv_iff (ss : List SuiteResult) : suitesInv ss = true ↔ ∀ s ∈ ss, suiteInv s = true := by
  rw [suitesInv_iff_all]; simp [List.all_eq_true]

mutual
theorem suiteInv_sortDeep : ∀ s : SuiteResult, suiteInv s = true → suiteInv (sortDeep s) = true
  | .mk md st en su td ts ss => by
    intro h
    simp only [suiteInv, Bool.and_eq_true] at h
    simp only [sortDeep, suiteInv, Bool.and_eq_true]
    refine ⟨⟨⟨h.1.1.1, h.1.1.2⟩, ?_⟩, ?_⟩
    · rw [all_sortByRank]; exact h.1.2
    · rw [suitesInv_iff]
      intro s hs
      rw [mem_sortByRank] at hs
      exact (suitesInv_iff _).mp (suitesInv_sortDeepList ss h.2) s hs
theorem suitesInv_sortDeepList : ∀ ss : List SuiteResult, suitesInv ss = true → suitesInv (sortDeepList ss) = true
  | [] => by simp [sortDeepList]
  | s :: ss => by
    intro h
    simp only [suitesInv, Bool.and_eq_true] at h
    simp only [sortDeepList, suitesInv, Bool.and_eq_true]
    exact ⟨suiteInv_sortDeep s h.1, suitesInv_sortDeepList ss h.2⟩
end

mutual
theorem flattenSuite_inv : ∀ s : SuiteResult, suiteInv s = true → ∀ x ∈ flattenSuite s, suiteInv x = true
  | .mk md st en su td ts ss, h, x, hx => by
    simp only [flattenSuite, List.mem_cons] at hx
    rcases hx with rfl | hx
    · exact h
    · simp only [suiteInv, Bool.and_eq_true] at h
      exact flattenSuites_inv ss h.2 x hx
theorem flattenSuites_inv : ∀ ss : List SuiteResult, suitesInv ss = true → ∀ x ∈ flattenSuites ss, suiteInv x = true
  | [], _, x, hx => by simp [flattenSuites] at hx
  | s :: ss, h, x, hx => by
    simp only [suitesInv, Bool.and_eq_true] at h
    simp only [flattenSuites, List.mem_append] at hx
    rcases hx with hx | hx
    · exact flattenSuite_inv s h.1 x hx
    · exact flattenSuites_inv ss h.2 x hx
end

/-- every test any reader enumerates (`Report.all_tests()`) is as the writer leaves it -/
theorem allTests_inv (r : Report) (h : reportInv r = true) : ∀ t ∈ allTests r, resultInv t.result = true := by
  simp only [reportInv, Bool.and_eq_true] at h
  intro t ht
  simp only [allTests, List.mem_flatMap] at ht
  obtain ⟨s, hs, hts⟩ := ht
  have hsi := flattenSuites_inv _ (suitesInv_sortDeepList r.suites h.2) s hs
  cases s with
  | mk md st en su td ts ss =>
    simp only [suiteInv, Bool.and_eq_true, List.all_eq_true] at hsi
    exact hsi.1.2 t hts

/-- **status_passed_iff** (for `fold` outputs): after any stream handled under the discipline of `eventOk`, starting
    from a report without results, every test of the aggregated report that is passed or failed is `passed` exactly when
    all its logs are successful. -/
theorem status_passed_iff (es : List Event) (r0 : Report) (w' : WriterState) (h0 : reportInv r0 = true)
    (h : runDisciplined (initState r0) es = some (.ok w')) :
    fold es r0 = .ok w'.report ∧ reportInv w'.report = true ∧
    ∀ t ∈ allTests w'.report, t.result.status = some .passed ∨ t.result.status = some .failed →
      (t.result.status = some .passed ↔ t.result.steps.all Step.ok = true) := by
  have hinv := runDisciplined_inv es (initState r0) w' h0 h
  refine ⟨by simp [fold, runDisciplined_run es _ _ h], hinv, ?_⟩
  intro t ht hfin
  exact resultInv_passed_iff t.result (allTests_inv _ hinv t ht) hfin

theorem reportInv_empty : reportInv Report.empty = true := rfl

/-! ### where a log lands -/

/-- a step start binds the emitting thread to the step it appends: index = number of steps the result had -/
theorem apply_stepStart_active (w w' : WriterState) (loc : Loc) (d : String) (tid : Nat) (t : Time)
    (h : apply w (.stepStart loc d tid t) = .ok w') :
    ∃ n, stepCount loc w.report = .ok n ∧ w'.active.lookup tid = some { target := some (loc, n), endTime := none } ∧
      modifyResult (fun x => .ok { x with steps := x.steps ++ [(⟨d, some t, none, []⟩ : Step)] }) loc w.report
        = .ok w'.report := by
  simp only [apply] at h
  split at h
  · cases h
  · rename_i n hn
    split at h
    · cases h
    · rename_i r' hr'
      cases h
      exact ⟨n, hn, by simp [List.lookup], hr'⟩

/-- **log_lands_in_own_step**: a log / check / attachment / url event of thread `tid` is appended to the step that
    thread's binding points to (the one opened by its latest step start), wherever the event says it is -/
theorem log_lands_in_own_step (w w' : WriterState) (loc l : Loc) (tid idx : Nat) (en : Option Time) (e : Entry)
    (hb : w.active.lookup tid = some { target := some (l, idx), endTime := en })
    (h : addEntry w loc tid e = .ok w') :
    modifyResult (addEntryAt idx e) l w.report = .ok w'.report ∧ w'.active = w.active := by
  unfold addEntry at h
  split at h
  · cases h
  · rw [hb] at h
    simp only at h
    split at h
    · rename_i r' hr'; cases h; exact ⟨hr', rfl⟩
    · cases h
    · cases h

/-- a log event never rebinds any thread -/
theorem addEntry_active (w w' : WriterState) (loc : Loc) (tid : Nat) (e : Entry) (h : addEntry w loc tid e = .ok w') :
    w'.active = w.active := by
  unfold addEntry at h
  split at h
  · cases h
  · split at h
    · cases h
    · split at h
      · split at h
        · cases h
        · cases h; rfl
      · split at h
        · cases h; rfl
        · cases h
        · cases h

end LccModel.Writer

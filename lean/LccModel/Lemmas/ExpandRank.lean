/-
  Ranks of loaded tests after fix N5 (`Model/Expand.lean`: `Test.key = (rank, sub)`, `keyLt`, `denseRank`, `toSpecTests`):
  the variants of one parametrized declaration are strictly increasing in parameter-set order, the tests of a suite whose
  declarations have pairwise distinct ranks are strictly increasing in load order, and the natural-number ranks the run-level
  project carries (`denseRank`) are strictly increasing as well — pairwise distinct.  Helper lemmas of `Props/C05Decl.lean`.
-/
import LccModel.Lemmas.ExpandDeco

namespace LccModel.Expand
open LccModel.Report (Path)
open LccModel.Loader (PVal Params Seg Meta Disabled LoadErr)

theorem keyLt_iff {a b : Test} : keyLt a b = true ↔ a.rank < b.rank ∨ (a.rank = b.rank ∧ a.sub < b.sub) := by
  unfold keyLt; simp

theorem keyLt_irrefl (a : Test) : keyLt a a = false := by
  cases h : keyLt a a with
  | false => rfl
  | true => rcases keyLt_iff.mp h with h | ⟨_, h⟩ <;> omega

theorem keyLt_trans {a b c : Test} (h₁ : keyLt a b = true) (h₂ : keyLt b c = true) : keyLt a c = true := by
  rw [keyLt_iff] at *
  rcases h₁ with h₁ | ⟨e₁, h₁⟩ <;> rcases h₂ with h₂ | ⟨e₂, h₂⟩
  · exact .inl (by omega)
  · exact .inl (by omega)
  · exact .inl (by omega)
  · exact .inr ⟨by omega, by omega⟩

theorem keyLt_ne {a b : Test} (h : keyLt a b = true) : a.key ≠ b.key := by
  intro e
  have e1 : a.rank = b.rank := congrArg Prod.fst e
  have e2 : a.sub = b.sub := congrArg Prod.snd e
  rcases keyLt_iff.mp h with h | ⟨_, h⟩ <;> omega

/-- every variant sits at its declaration's rank, numbered from `nb` upwards -/
theorem sub_expandSets (b : Test) (n : Naming) : ∀ (sets : List Params) (nb : Nat) (t : Test), t ∈ expandSets b n nb sets →
    t.rank = b.rank ∧ nb ≤ t.sub
  | [], _, t, h => by simp [expandSets] at h
  | ps :: rest, nb, t, h => by
    rw [expandSets] at h
    rcases List.mem_cons.mp h with e | h
    · rw [e]; exact ⟨rfl, Nat.le_refl _⟩
    · obtain ⟨h1, h2⟩ := sub_expandSets b n rest (nb + 1) t h
      exact ⟨h1, by omega⟩

/-- the variants are strictly increasing in parameter-set order -/
theorem expandSets_pairwise (b : Test) (n : Naming) : ∀ (sets : List Params) (nb : Nat),
    (expandSets b n nb sets).Pairwise (fun a c => keyLt a c = true)
  | [], _ => by simp [expandSets]
  | ps :: rest, nb => by
    rw [expandSets, List.pairwise_cons]
    refine ⟨?_, expandSets_pairwise b n rest (nb + 1)⟩
    intro c hc
    obtain ⟨h1, h2⟩ := sub_expandSets b n rest (nb + 1) c hc
    exact keyLt_iff.mpr (.inr ⟨h1.symm, by simp only; omega⟩)

theorem expand_pairwise (d : TestDecl) : (expand d).Pairwise (fun a c => keyLt a c = true) := by
  unfold expand
  split
  · exact List.Pairwise.nil
  · split
    · simp
    · exact expandSets_pairwise _ _ _ _

theorem rank_of_mem_expand {d : TestDecl} {t : Test} (h : t ∈ expand d) : t.rank = d.rank := by
  unfold expand at h
  split at h
  · cases h
  · split at h
    · simp only [List.mem_singleton] at h; subst h; rfl
    · exact (sub_expandSets _ _ _ _ t h).1

/-- declarations of strictly increasing ranks give tests of strictly increasing ranks -/
theorem flatMap_expand_pairwise : ∀ (ds : List TestDecl), ds.Pairwise (fun a b => a.rank < b.rank) →
    (ds.flatMap expand).Pairwise (fun a c => keyLt a c = true)
  | [], _ => by simp
  | d :: rest, h => by
    rw [List.pairwise_cons] at h
    rw [List.flatMap_cons, List.pairwise_append]
    refine ⟨expand_pairwise d, flatMap_expand_pairwise rest h.2, ?_⟩
    intro a ha c hc
    obtain ⟨e, he, hce⟩ := List.mem_flatMap.mp hc
    have := h.1 e he
    exact keyLt_iff.mpr (.inl (by rw [rank_of_mem_expand ha, rank_of_mem_expand hce]; exact this))

/-- `_get_test_symbols` puts declarations of pairwise distinct ranks in strictly increasing rank order -/
theorem testOrder_strict (ds : List TestDecl) (hn : (ds.map (·.rank)).Nodup) :
    (testOrder ds).Pairwise (fun a b => a.rank < b.rank) := by
  unfold testOrder
  have hs := Loader.discover_sorted TestDecl.attr (fun d : TestDecl => (d.rank : Int)) ds
  have hp := Loader.discover_perm TestDecl.attr (fun d : TestDecl => (d.rank : Int)) ds
  have hn' : ((Loader.discover TestDecl.attr (fun d : TestDecl => (d.rank : Int)) ds).map (·.rank)).Nodup :=
    (hp.map _).nodup_iff.mpr hn
  have hne : (Loader.discover TestDecl.attr (fun d : TestDecl => (d.rank : Int)) ds).Pairwise (fun a b => a.rank ≠ b.rank) := by
    rw [List.Nodup, List.pairwise_map] at hn'
    exact hn'
  exact (hs.and hne).imp (fun ⟨h1, h2⟩ => by omega)

/-! ### the natural-number ranks of the run-level project -/

theorem denseRank_lt {ts : List Test} {a b : Test} (ha : a ∈ ts) (h : keyLt a b = true) : denseRank ts a < denseRank ts b := by
  unfold denseRank
  apply Deps.countP_lt_of_imp
  · intro u _ hu
    exact keyLt_trans hu h
  · exact ⟨a, ha, h, keyLt_irrefl a⟩

/-- strictly increasing loaded ranks give strictly increasing run-level ranks -/
theorem toSpecTests_ranks_increasing (ts : List Test) (h : ts.Pairwise (fun a c => keyLt a c = true)) :
    ((toSpecTests ts).map (·.rank)).Pairwise (· < ·) := by
  unfold toSpecTests
  rw [List.map_map, List.pairwise_map]
  have : ∀ l : List Test, (∀ x ∈ l, x ∈ ts) → l.Pairwise (fun a c => keyLt a c = true) →
      l.Pairwise (fun a c => denseRank ts a < denseRank ts c) := by
    intro l
    induction l with
    | nil => intro _ _; exact List.Pairwise.nil
    | cons x rest ih =>
      intro hsub hp
      rw [List.pairwise_cons] at hp ⊢
      exact ⟨fun c hc => denseRank_lt (hsub x (List.mem_cons_self ..)) (hp.1 c hc),
             ih (fun y hy => hsub y (List.mem_cons_of_mem _ hy)) hp.2⟩
  exact this ts (fun _ hx => hx) h

theorem pairwise_lt_nodup : ∀ (l : List Nat), l.Pairwise (· < ·) → l.Nodup := by
  intro l h
  exact h.imp (fun hab => by omega)

end LccModel.Expand

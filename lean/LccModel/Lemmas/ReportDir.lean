import LccModel.Model.ReportDir

namespace LccModel.ReportDir

/-- Invariant of every state reachable from the empty project directory. -/
structure Inv (s : St) : Prop where
  bound      : ∀ n, s.hi ≤ n → s.arch n = none
  ltNext     : ∀ n m, s.arch n = some m → m < s.next
  curLtNext  : ∀ m, s.current = some m → m < s.next
  sorted     : ∀ i j a b, i < j → s.arch i = some a → s.arch j = some b → b < a
  curNewest  : ∀ m n a, s.current = some m → s.arch n = some a → a < m
  slot0      : s.arch 0 = none      -- `reports/report-0` is never produced by a run

theorem inv_init : Inv init := by
  constructor <;> simp [init]

/-- What `_rotate_directory` does to the slot table: the contiguous chain `num .. g-1` moves up by one
    into `num+1 .. g`, slot `num` becomes free, every other slot is untouched, and slot `g` was free. -/
theorem rotateDir_spec : ∀ (fuel num : Nat) (a a' : Arch), rotateDir fuel num a = some a' →
    ∃ g, num < g ∧ a g = none ∧
      ∀ n, a' n = if n = num then none else if num < n ∧ n ≤ g then a (n - 1) else a n := by
  intro fuel
  induction fuel with
  | zero => intro num a a' h; simp [rotateDir] at h
  | succ fuel ih =>
    intro num a a' h
    simp only [rotateDir] at h
    split at h
    · rename_i hs
      cases hr : rotateDir fuel (num + 1) a with
      | none => rw [hr] at h; cases h
      | some a'' =>
        rw [hr] at h
        injection h with h
        obtain ⟨g, hg, hfree, hspec⟩ := ih (num + 1) a a'' hr
        refine ⟨g, by omega, hfree, ?_⟩
        intro n
        subst h
        simp only [rename]
        by_cases h1 : n = num + 1
        · subst h1
          have : a'' num = a num := by
            rw [hspec num]; simp; omega
          simp [this]; omega
        · by_cases h2 : n = num
          · subst h2; simp
          · rw [hspec n]
            simp [h1, h2]
            by_cases h3 : num + 1 < n ∧ n ≤ g
            · have : num < n ∧ n ≤ g := by omega
              simp [h3, this]
            · have : ¬ (num < n ∧ n ≤ g) := by omega
              simp [h3, this]
    · rename_i hs
      injection h with h
      subst h
      refine ⟨num + 1, by omega, by simpa using hs, ?_⟩
      intro n
      simp only [rename]
      by_cases h1 : n = num + 1
      · subst h1; simp
      · by_cases h2 : n = num
        · subst h2; simp
        · have : ¬ (num < n ∧ n ≤ num + 1) := by omega
          simp [h1, h2, this]

/-- The recursion of `_rotate_directory` terminates within `hi + 1 - num` calls when every slot
    from `hi` on is free. -/
theorem rotateDir_fuel : ∀ (fuel num hi : Nat) (a : Arch), (∀ n, hi ≤ n → a n = none) →
    hi < num + fuel → 0 < fuel → (rotateDir fuel num a).isSome = true := by
  intro fuel
  induction fuel with
  | zero => intro num hi a _ _ h; omega
  | succ fuel ih =>
    intro num hi a hb hlt _
    simp only [rotateDir]
    split
    · rename_i hs
      have hnum : num + 1 < hi := by
        apply Classical.byContradiction
        intro hc
        have := hb (num + 1) (by omega)
        rw [this] at hs; simp at hs
      have := ih (num + 1) hi a hb (by omega) (by omega)
      cases hr : rotateDir fuel (num + 1) a with
      | none => rw [hr] at this; simp at this
      | some a' => simp
    · simp

theorem removeObsolete_sub (limit : Option Nat) (a : Arch) (n : Nat) (m : Nat)
    (h : removeObsolete limit a n = some m) : a n = some m := by
  unfold removeObsolete at h
  cases limit with
  | none => simpa using h
  | some L =>
    simp only at h
    split at h
    · exact h
    · by_cases hl : L ≤ n
      · simp [hl] at h
      · simpa [hl] using h

theorem rotateDirs_spec (fuel : Nat) (a a' : Arch) (h : rotateDirs fuel a = some a') :
    (a' = a ∧ a 1 = none) ∨
    ∃ g, 1 < g ∧ a g = none ∧
      ∀ n, a' n = if n = 1 then none else if 1 < n ∧ n ≤ g then a (n - 1) else a n := by
  unfold rotateDirs at h
  split at h
  · right; exact rotateDir_spec fuel 1 a a' h
  · left
    rename_i hs
    injection h with h
    exact ⟨h.symm, by simpa using hs⟩

/-- After `_rotate_directories` slot 1 is always free. -/
theorem rotateDirs_slot1 (fuel : Nat) (a a' : Arch) (h : rotateDirs fuel a = some a') : a' 1 = none := by
  rcases rotateDirs_spec fuel a a' h with ⟨he, h1⟩ | ⟨g, _, _, hs⟩
  · rw [he]; exact h1
  · rw [hs 1]; simp

/-- Rotation loses nothing: every archive is still there afterwards, and relocation is monotone. -/
theorem rotateDirs_keeps (fuel : Nat) (a a' : Arch) (h : rotateDirs fuel a = some a')
    (k : Nat) (x : Nat) (hk : a k = some x) :
    ∃ k', a' k' = some x ∧ k ≤ k' ∧ k' ≤ k + 1 ∧ 1 < k' ∨ (k' = k ∧ k = 0 ∧ a' k' = some x) := by
  rcases rotateDirs_spec fuel a a' h with ⟨he, h1⟩ | ⟨g, hg, hfree, hs⟩
  · subst he
    by_cases hk0 : k = 0
    · exact ⟨k, Or.inr ⟨rfl, hk0, hk⟩⟩
    · refine ⟨k, Or.inl ⟨hk, by omega, by omega, ?_⟩⟩
      have : k ≠ 1 := by intro e; subst e; rw [h1] at hk; cases hk
      omega
  · by_cases hk0 : k = 0
    · subst hk0
      refine ⟨0, Or.inr ⟨rfl, rfl, ?_⟩⟩
      rw [hs 0]; simpa using hk
    · by_cases hkg : k < g
      · refine ⟨k + 1, Or.inl ⟨?_, by omega, by omega, by omega⟩⟩
        rw [hs (k + 1)]
        have : 1 < k + 1 ∧ k + 1 ≤ g := by omega
        simp [this]
        exact ⟨hk0, hk⟩
      · have hne : k ≠ g := by intro e; subst e; rw [hfree] at hk; cases hk
        refine ⟨k, Or.inl ⟨?_, by omega, by omega, by omega⟩⟩
        rw [hs k]
        have h1 : k ≠ 1 := by omega
        have h2 : ¬ (1 < k ∧ k ≤ g) := by omega
        simp [h1, h2, hk]

/-- Every archive present after rotation was present before, at the same slot or one below. -/
theorem rotateDirs_from (fuel : Nat) (a a' : Arch) (h : rotateDirs fuel a = some a')
    (k' : Nat) (x : Nat) (hk : a' k' = some x) :
    ∃ k, a k = some x ∧ (k = k' ∨ k + 1 = k') := by
  rcases rotateDirs_spec fuel a a' h with ⟨he, _⟩ | ⟨g, hg, _, hs⟩
  · subst he; exact ⟨k', hk, Or.inl rfl⟩
  · rw [hs k'] at hk
    by_cases h1 : k' = 1
    · simp [h1] at hk
    · by_cases h2 : 1 < k' ∧ k' ≤ g
      · simp [h1, h2] at hk
        exact ⟨k' - 1, hk, Or.inr (by omega)⟩
      · simp [h1, h2] at hk
        exact ⟨k', hk, Or.inl rfl⟩

/-- Rotation preserves the slot order of the archives (strictly monotone relocation). -/
theorem rotateDirs_sorted (fuel : Nat) (a a' : Arch) (h : rotateDirs fuel a = some a')
    (hs : ∀ i j x y, i < j → a i = some x → a j = some y → y < x) :
    ∀ i j x y, i < j → a' i = some x → a' j = some y → y < x := by
  intro i j x y hij hi hj
  rcases rotateDirs_spec fuel a a' h with ⟨he, _⟩ | ⟨g, hg, hfree, hspec⟩
  · subst he; exact hs i j x y hij hi hj
  · rw [hspec i] at hi
    rw [hspec j] at hj
    by_cases i1 : i = 1
    · simp [i1] at hi
    · by_cases j1 : j = 1
      · simp [j1] at hj
      · by_cases ic : 1 < i ∧ i ≤ g <;> by_cases jc : 1 < j ∧ j ≤ g
        · simp [i1, j1, ic, jc] at hi hj
          exact hs (i - 1) (j - 1) x y (by omega) hi hj
        · simp [i1, j1, ic, jc] at hi hj
          exact hs (i - 1) j x y (by omega) hi hj
        · simp [i1, j1, ic, jc] at hi hj
          have hjg : j - 1 ≠ g ∨ True := Or.inr trivial
          -- i ∉ (1, g], i ≠ 1, j ∈ (1, g] and i < j ⇒ i = 0
          exact hs i (j - 1) x y (by omega) hi hj
        · simp [i1, j1, ic, jc] at hi hj
          exact hs i j x y hij hi hj

theorem rotateDirs_bound (fuel : Nat) (a a' : Arch) (hi : Nat) (h : rotateDirs fuel a = some a')
    (hb : ∀ n, hi ≤ n → a n = none) : ∀ n, hi + 1 ≤ n → a' n = none := by
  intro n hn
  cases hq : a' n with
  | none => rfl
  | some x =>
    obtain ⟨k, hk, hkk⟩ := rotateDirs_from fuel a a' h n x hq
    have := hb k (by omega)
    rw [this] at hk; cases hk

theorem rotateDirs_total (a : Arch) (hi : Nat) (hb : ∀ n, hi ≤ n → a n = none) :
    (rotateDirs (hi + 1) a).isSome = true := by
  unfold rotateDirs
  split
  · exact rotateDir_fuel (hi + 1) 1 hi a hb (by omega) (by omega)
  · rfl

theorem removeObsolete_bound (limit : Option Nat) (a : Arch) (hi : Nat)
    (hb : ∀ n, hi ≤ n → a n = none) : ∀ n, hi ≤ n → removeObsolete limit a n = none := by
  intro n hn
  cases hq : removeObsolete limit a n with
  | none => rfl
  | some x =>
    have := removeObsolete_sub limit a n x hq
    rw [hb n hn] at this; cases this

/-- `run` never gets stuck (the recursion bound of the model always suffices). -/
theorem run_total (l : Option Nat) (s : St) (hinv : Inv s) : (run l s).isSome = true := by
  unfold run
  cases hc : s.current with
  | none => simp
  | some m =>
    simp only
    have := rotateDirs_total (removeObsolete l s.arch) s.hi (removeObsolete_bound l s.arch s.hi hinv.bound)
    cases hr : rotateDirs (s.hi + 1) (removeObsolete l s.arch) with
    | none => rw [hr] at this; simp at this
    | some a => simp

theorem run_inv (l : Option Nat) (s s' : St) (hinv : Inv s) (h : run l s = some s') : Inv s' := by
  unfold run at h
  cases hc : s.current with
  | none =>
    rw [hc] at h
    injection h with h
    subst h
    constructor <;> dsimp only
    · exact hinv.bound
    · intro n m hm; have := hinv.ltNext n m hm; omega
    · intro m hm; injection hm with hm; omega
    · exact hinv.sorted
    · intro m n a hm ha
      injection hm with hm
      have := hinv.ltNext n a ha
      omega
    · exact hinv.slot0
  | some m =>
    rw [hc] at h
    dsimp only at h
    cases hr : rotateDirs (s.hi + 1) (removeObsolete l s.arch) with
    | none => rw [hr] at h; cases h
    | some a =>
      rw [hr] at h
      injection h with h
      subst h
      have hsub : ∀ n x, a n = some x → ∃ k, s.arch k = some x := by
        intro n x hx
        obtain ⟨k, hk, _⟩ := rotateDirs_from _ _ _ hr n x hx
        exact ⟨k, removeObsolete_sub l s.arch k x hk⟩
      have hsortedRO : ∀ i j x y, i < j → removeObsolete l s.arch i = some x →
          removeObsolete l s.arch j = some y → y < x := by
        intro i j x y hij hi hj
        exact hinv.sorted i j x y hij (removeObsolete_sub _ _ _ _ hi) (removeObsolete_sub _ _ _ _ hj)
      have hsortedA := rotateDirs_sorted _ _ _ hr hsortedRO
      have hboundA := rotateDirs_bound _ _ _ s.hi hr (removeObsolete_bound l s.arch s.hi hinv.bound)
      have ha0 : a 0 = none := by
        cases hq : a 0 with
        | none => rfl
        | some x =>
          obtain ⟨k, hk, hkk⟩ := rotateDirs_from _ _ _ hr 0 x hq
          have hk0 : k = 0 := by omega
          subst hk0
          have := removeObsolete_sub l s.arch 0 x hk
          rw [hinv.slot0] at this; cases this
      constructor <;> dsimp only
      · intro n hn
        have h1 : n ≠ 1 := by omega
        simp only [h1, if_false]
        exact hboundA n (by omega)
      · intro n x hx
        by_cases h1 : n = 1
        · simp only [h1, if_true] at hx
          injection hx with hx; subst hx
          have := hinv.curLtNext m hc
          omega
        · simp only [h1, if_false] at hx
          obtain ⟨k, hk⟩ := hsub n x hx
          have := hinv.ltNext k x hk
          omega
      · intro x hx; injection hx with hx; omega
      · intro i j x y hij hi hj
        by_cases i1 : i = 1
        · simp only [i1, if_true] at hi
          injection hi with hi; subst hi
          have j1 : j ≠ 1 := by omega
          simp only [j1, if_false] at hj
          obtain ⟨k, hk⟩ := hsub j y hj
          exact hinv.curNewest m k y hc hk
        · simp only [i1, if_false] at hi
          by_cases j1 : j = 1
          · -- i < 1 ⇒ i = 0, but slot 0 is free
            exfalso
            have hi0 : i = 0 := by omega
            subst hi0
            rw [ha0] at hi; cases hi
          · simp only [j1, if_false] at hj
            exact hsortedA i j x y hij hi hj
      · intro x n y hx hy
        injection hx with hx; subst hx
        by_cases n1 : n = 1
        · simp only [n1, if_true] at hy
          injection hy with hy; subst hy
          exact hinv.curLtNext m hc
        · simp only [n1, if_false] at hy
          obtain ⟨k, hk⟩ := hsub n y hy
          exact hinv.ltNext k y hk
      · simp only [show (0 : Nat) ≠ 1 by omega, if_false]
        exact ha0

theorem delete_inv (n : Nat) (s : St) (hinv : Inv s) : Inv (delete n s) := by
  have hsub : ∀ k x, (delete n s).arch k = some x → s.arch k = some x := by
    intro k x h
    simp only [delete] at h
    by_cases hk : k = n
    · simp [hk] at h
    · simpa [hk] using h
  constructor
  · intro k hk
    simp only [delete]
    by_cases e : k = n
    · simp [e]
    · simp only [e, if_false]; exact hinv.bound k hk
  · intro k x h; exact hinv.ltNext k x (hsub k x h)
  · exact hinv.curLtNext
  · intro i j a b hij hi hj; exact hinv.sorted i j a b hij (hsub i a hi) (hsub j b hj)
  · intro m k a hm ha; exact hinv.curNewest m k a hm (hsub k a ha)
  · simp only [delete]
    by_cases e : 0 = n
    · simp [e]
    · simp only [e, if_false]; exact hinv.slot0

theorem deleteCurrent_inv (s : St) (hinv : Inv s) : Inv (deleteCurrent s) := by
  constructor
  · exact hinv.bound
  · exact hinv.ltNext
  · intro m hm; simp [deleteCurrent] at hm
  · exact hinv.sorted
  · intro m n a hm; simp [deleteCurrent] at hm
  · exact hinv.slot0

theorem step_inv (s s' : St) (op : Op) (hinv : Inv s) (h : step s op = some s') : Inv s' := by
  cases op with
  | run l => exact run_inv l s s' hinv h
  | delete n => simp only [step] at h; injection h with h; subst h; exact delete_inv n s hinv
  | deleteCurrent => simp only [step] at h; injection h with h; subst h; exact deleteCurrent_inv s hinv

theorem step_total (s : St) (op : Op) (hinv : Inv s) : (step s op).isSome = true := by
  cases op with
  | run l => exact run_total l s hinv
  | delete n => rfl
  | deleteCurrent => rfl

theorem runOps_inv : ∀ (ops : List Op) (s s' : St), Inv s → runOps s ops = some s' → Inv s' := by
  intro ops
  induction ops with
  | nil => intro s s' hinv h; simp only [runOps] at h; injection h with h; subst h; exact hinv
  | cons op ops ih =>
    intro s s' hinv h
    simp only [runOps] at h
    cases hs : step s op with
    | none => rw [hs] at h; cases h
    | some s1 => rw [hs] at h; exact ih s1 s' (step_inv s s1 op hinv hs) h

theorem runOps_total : ∀ (ops : List Op) (s : St), Inv s → (runOps s ops).isSome = true := by
  intro ops
  induction ops with
  | nil => intro s _; rfl
  | cons op ops ih =>
    intro s hinv
    simp only [runOps]
    have := step_total s op hinv
    cases hs : step s op with
    | none => rw [hs] at this; cases this
    | some s1 => exact ih s1 (step_inv s s1 op hinv hs)

end LccModel.ReportDir

/-
  Resolution of a report location goes by the FULL PATH from the top level (C06, round 3).

  `WriterIso.getSuite` / `getResult` are the read side of `find_suite` / `find_test` / `ReportLocation.get`: at every level
  the first child with the name.  This file relates them to the tree itself:

  * `nodes` enumerates every suite NODE of a forest (every position of the tree) together with its full name path from the
    top level; `resultsOf` every result node (session setup / teardown, suite setup / teardown, tests) with its location;
  * in a forest whose SIBLING names are distinct (`Writer.uniqNames` — the loader guarantees it; names are free to repeat
    across levels and under different parents)
      - `getSuite_of_node` / `getResult_of_node`: every node is what the lookup of its own full path returns,
      - `nodes_paths_nodup` / `resultsOf_locs_nodup`: different nodes have different full paths — so no two nodes can be
        taken for one another by a lookup, whatever names they share;
  * `node_of_getSuite` / `node_of_getResult` (no hypothesis): whatever a lookup returns is the node at that full path;
  * `modifyResult_nodes`, `addEntry_nodes`: a mutation / a record addressed to location `l` changes the node at `l` and
    leaves EVERY other node of the tree as it was;
  * `getSuiteAnyDepth`: the variant that looks the first element of the path up among the suites of any depth
    (`Report.all_suites()`), for the refutation in `Props/C06.lean`.
  Core Lean only.
-/
import LccModel.Lemmas.WriterIso
import LccModel.Lemmas.WriterCongr

namespace LccModel.WriterLoc
open LccModel.Report LccModel.Writer LccModel.WriterIso

/-! ### the nodes of a forest with their full paths -/

mutual
/-- the suite `s` and every suite below it, each with its name path starting at `s` -/
def nodesOf : SuiteResult → List (Path × SuiteResult)
  | .mk md st en su td ts subs =>
    ([md.name], .mk md st en su td ts subs) :: (nodes subs).map (fun px => (md.name :: px.1, px.2))
/-- every suite node of a forest with its full name path from the top level (parents first, depth first) -/
def nodes : List SuiteResult → List (Path × SuiteResult)
  | [] => []
  | s :: ss => nodesOf s ++ nodes ss
end

theorem nodesOf_eq (s : SuiteResult) :
    nodesOf s = ([s.md.name], s) :: (nodes s.suites).map (fun px => (s.md.name :: px.1, px.2)) := by
  cases s; simp [nodesOf, SuiteResult.md, SuiteResult.suites]

theorem mem_nodesOf {s : SuiteResult} {p : Path} {x : SuiteResult} :
    (p, x) ∈ nodesOf s ↔ (p = [s.md.name] ∧ x = s) ∨ ∃ q, p = s.md.name :: q ∧ (q, x) ∈ nodes s.suites := by
  rw [nodesOf_eq]
  simp only [List.mem_cons, Prod.mk.injEq, List.mem_map, Prod.exists]
  constructor
  · rintro (h | ⟨q, y, h1, h2, h3⟩)
    · exact Or.inl h
    · subst h2; subst h3; exact Or.inr ⟨q, rfl, h1⟩
  · rintro (h | ⟨q, h1, h2⟩)
    · exact Or.inl h
    · exact Or.inr ⟨q, x, h2, h1.symm, rfl⟩

theorem mem_nodes {ss : List SuiteResult} {p : Path} {x : SuiteResult} :
    (p, x) ∈ nodes ss ↔ ∃ s, s ∈ ss ∧ (p, x) ∈ nodesOf s := by
  induction ss with
  | nil => simp [nodes]
  | cons a rest ih => simp [nodes, ih]

/-- a node's path starts with the name of the top-level suite it sits in, and is never empty -/
theorem node_head {ss : List SuiteResult} {p : Path} {x : SuiteResult} (h : (p, x) ∈ nodes ss) :
    ∃ s q, s ∈ ss ∧ p = s.md.name :: q := by
  obtain ⟨s, hs, hp⟩ := mem_nodes.mp h
  rcases mem_nodesOf.mp hp with ⟨h1, _⟩ | ⟨q, h1, _⟩
  · exact ⟨s, [], hs, h1⟩
  · exact ⟨s, q, hs, h1⟩

/-! ### sibling-name uniqueness, one level at a time -/

theorem uniqL_cons {s : SuiteResult} {ss : List SuiteResult} (h : uniqL (s :: ss)) :
    sname s ∉ ss.map sname ∧ uniqNamesSuite s = true ∧ uniqL ss := by
  obtain ⟨h1, h2⟩ := h
  simp only [List.map_cons, List.nodup_cons] at h1
  simp only [uniqNamesSuites, Bool.and_eq_true] at h2
  exact ⟨h1.1, h2.1, h1.2, h2.2⟩

theorem uniqL_mem {ss : List SuiteResult} (h : uniqL ss) {s : SuiteResult} (hs : s ∈ ss) :
    uniqNamesSuite s = true := (uniqNamesSuites_iff ss).mp h.2 s hs

theorem uniq_sub {s : SuiteResult} (h : uniqNamesSuite s = true) : (s.tests.map tname).Nodup ∧ uniqL s.suites := by
  cases s; exact uniqNamesSuite_mk.mp h

/-- with distinct sibling names, the lookup of a sibling's name finds that sibling -/
theorem find?_sibling {ss : List SuiteResult} (hn : (ss.map sname).Nodup) {s : SuiteResult} (hs : s ∈ ss) :
    ss.find? (fun y => y.md.name == s.md.name) = some s := by
  induction ss with
  | nil => cases hs
  | cons a rest ih =>
    simp only [List.map_cons, List.nodup_cons] at hn
    rcases List.mem_cons.mp hs with h | h
    · subst h; simp [List.find?]
    · have hne : (a.md.name == s.md.name) = false := by
        apply beq_false_of_ne
        intro e
        apply hn.1
        have : sname a = sname s := e
        rw [this]
        exact List.mem_map.mpr ⟨s, h, rfl⟩
      simp only [List.find?, hne]
      exact ih hn.2 h

theorem findTest_sibling {ts : List TestResult} (hn : (ts.map tname).Nodup) {t : TestResult} (ht : t ∈ ts) :
    findTest t.md.name ts = some t := by
  unfold findTest
  induction ts with
  | nil => cases ht
  | cons a rest ih =>
    simp only [List.map_cons, List.nodup_cons] at hn
    rcases List.mem_cons.mp ht with h | h
    · subst h; simp [List.find?]
    · have hne : (a.md.name == t.md.name) = false := by
        apply beq_false_of_ne
        intro e
        apply hn.1
        have : tname a = tname t := e
        rw [this]
        exact List.mem_map.mpr ⟨t, h, rfl⟩
      simp only [List.find?, hne]
      exact ih hn.2 h

/-! ### suites: every node is found by its own full path, and by no other -/

/-- **Completeness of the lookup.**  In a forest with distinct sibling names, the node at full path `p` is what
    `find_suite(p)` returns — however often its name occurs at other levels or under other parents. -/
theorem getSuite_of_node : ∀ (p : Path) (ss : List SuiteResult) (x : SuiteResult), uniqL ss → (p, x) ∈ nodes ss →
    getSuite p ss = some x
  | [], ss, x, _, h => by
    obtain ⟨s, q, _, hp⟩ := node_head h
    cases hp
  | n :: q, ss, x, hu, h => by
    obtain ⟨s, hs, hp⟩ := mem_nodes.mp h
    have hfind := find?_sibling hu.1 hs
    rcases mem_nodesOf.mp hp with ⟨h1, h2⟩ | ⟨q', h1, h2⟩
    · injection h1 with h1 h3
      subst h1; subst h3; subst h2
      rw [getSuite_one]; exact hfind
    · injection h1 with h1 h3
      subst h1; subst h3
      obtain ⟨s2, q2, _, hq⟩ := node_head h2
      subst hq
      rw [getSuite_two, hfind]
      exact getSuite_of_node _ s.suites x (uniq_sub (uniqL_mem hu hs)).2 h2

/-- the node found at a full path has itself distinct sibling names below it -/
theorem uniq_of_node : ∀ (p : Path) (ss : List SuiteResult) (x : SuiteResult), uniqL ss → (p, x) ∈ nodes ss →
    uniqNamesSuite x = true
  | [], ss, x, _, h => by
    obtain ⟨s, q, _, hp⟩ := node_head h
    cases hp
  | n :: q, ss, x, hu, h => by
    obtain ⟨s, hs, hp⟩ := mem_nodes.mp h
    rcases mem_nodesOf.mp hp with ⟨_, h2⟩ | ⟨q', h1, h2⟩
    · subst h2; exact uniqL_mem hu hs
    · injection h1 with h1 h3
      subst h3
      exact uniq_of_node _ s.suites x (uniq_sub (uniqL_mem hu hs)).2 h2

/-- **Soundness of the lookup** (no hypothesis on names): whatever `find_suite(p)` returns is the node whose full path,
    from the top level, is `p`. -/
theorem node_of_getSuite : ∀ (p : Path) (ss : List SuiteResult) (x : SuiteResult), getSuite p ss = some x →
    (p, x) ∈ nodes ss
  | [], ss, x, h => by rw [getSuite_nil] at h; cases h
  | [n], ss, x, h => by
    rw [getSuite_one] at h
    have hm := List.mem_of_find?_eq_some h
    have hn := List.find?_some h
    have hn : x.md.name = n := by simpa using hn
    exact mem_nodes.mpr ⟨x, hm, mem_nodesOf.mpr (Or.inl ⟨by rw [hn], rfl⟩)⟩
  | n :: m :: rest, ss, x, h => by
    rw [getSuite_two] at h
    cases hf : ss.find? (fun s => s.md.name == n) with
    | none => rw [hf] at h; cases h
    | some s =>
      rw [hf] at h
      have hm := List.mem_of_find?_eq_some hf
      have hn := List.find?_some hf
      have hn : s.md.name = n := by simpa using hn
      have ih := node_of_getSuite (m :: rest) s.suites x h
      exact mem_nodes.mpr ⟨s, hm, mem_nodesOf.mpr (Or.inr ⟨m :: rest, by rw [hn], ih⟩)⟩

/-- paths of the nodes under one suite all start with that suite's name -/
theorem nodesOf_head {s : SuiteResult} {p : Path} (h : p ∈ (nodesOf s).map Prod.fst) : ∃ q, p = s.md.name :: q := by
  obtain ⟨⟨p', x⟩, hx, hp⟩ := List.mem_map.mp h
  simp only at hp; subst hp
  rcases mem_nodesOf.mp hx with ⟨h1, _⟩ | ⟨q, h1, _⟩
  · exact ⟨[], h1⟩
  · exact ⟨q, h1⟩

mutual
/-- **Different nodes have different full paths** (sibling names distinct): the path list of the enumeration has no
    duplicate — a full path identifies ONE position of the tree. -/
theorem nodesOf_paths_nodup : (s : SuiteResult) → uniqNamesSuite s = true → ((nodesOf s).map Prod.fst).Nodup
  | .mk md st en su td ts subs, h => by
    have hsub : uniqL subs := (uniqNamesSuite_mk.mp h).2
    have ih := nodes_paths_nodup subs hsub
    simp only [nodesOf, List.map_cons, List.map_map, List.nodup_cons]
    constructor
    · intro hin
      obtain ⟨⟨q, x⟩, hx, hq⟩ := List.mem_map.mp hin
      simp only [Function.comp] at hq
      injection hq with _ hq
      subst hq
      obtain ⟨_, _, _, e⟩ := node_head hx
      cases e
    · have : (List.map (Prod.fst ∘ fun px : Path × SuiteResult => (md.name :: px.1, px.2)) (nodes subs))
          = ((nodes subs).map Prod.fst).map (fun q => md.name :: q) := by
        simp [List.map_map, Function.comp]
      rw [this]
      unfold List.Nodup at ih ⊢
      rw [List.pairwise_map]
      exact ih.imp (fun hne e => hne (List.cons.inj e).2)
theorem nodes_paths_nodup : (ss : List SuiteResult) → uniqL ss → ((nodes ss).map Prod.fst).Nodup
  | [], _ => by simp [nodes]
  | s :: ss, h => by
    obtain ⟨h1, h2, h3⟩ := uniqL_cons h
    have i1 := nodesOf_paths_nodup s h2
    have i2 := nodes_paths_nodup ss h3
    simp only [nodes, List.map_append]
    refine List.nodup_append.mpr ⟨i1, i2, ?_⟩
    intro p hp1 q hq2 e
    subst e
    obtain ⟨q1, e1⟩ := nodesOf_head hp1
    obtain ⟨⟨p', x⟩, hx, hp⟩ := List.mem_map.mp hq2
    simp only at hp; subst hp
    obtain ⟨s2, q2, hs2, e2⟩ := node_head hx
    rw [e1] at e2
    injection e2 with e2 _
    apply h1
    have : sname s = sname s2 := e2
    rw [this]
    exact List.mem_map.mpr ⟨s2, hs2, rfl⟩
end

/-! ### results: every result node with its location -/

def optLoc (l : Loc) : Option Result → List (Loc × Result)
  | none => []
  | some r => [(l, r)]

/-- the result nodes held by the suite node at full path `p` -/
def leafResults (p : Path) (s : SuiteResult) : List (Loc × Result) :=
  optLoc (.suiteSetup p) s.setup ++ s.tests.map (fun t => (Loc.test (p ++ [t.md.name]), t.result)) ++
  optLoc (.suiteTeardown p) s.teardown

/-- every result node of the report with its location: the suite / test paths are FULL paths from the top level -/
def resultsOf (r : Report) : List (Loc × Result) :=
  optLoc .sessionSetup r.setup ++ (nodes r.suites).flatMap (fun px => leafResults px.1 px.2) ++
  optLoc .sessionTeardown r.teardown

theorem mem_optLoc {l l' : Loc} {o : Option Result} {x : Result} : (l', x) ∈ optLoc l o ↔ l' = l ∧ o = some x := by
  cases o <;> simp [optLoc]
  intro _; exact eq_comm

theorem mem_leafResults {p : Path} {s : SuiteResult} {l : Loc} {x : Result} :
    (l, x) ∈ leafResults p s ↔
      (l = .suiteSetup p ∧ s.setup = some x) ∨ (∃ t, t ∈ s.tests ∧ l = .test (p ++ [t.md.name]) ∧ x = t.result) ∨
      (l = .suiteTeardown p ∧ s.teardown = some x) := by
  simp only [leafResults, List.mem_append, mem_optLoc, List.mem_map, Prod.mk.injEq]
  constructor
  · rintro ((h | ⟨t, h1, h2, h3⟩) | h)
    · exact Or.inl h
    · exact Or.inr (Or.inl ⟨t, h1, h2.symm, h3.symm⟩)
    · exact Or.inr (Or.inr h)
  · rintro (h | ⟨t, h1, h2, h3⟩ | h)
    · exact Or.inl (Or.inl h)
    · exact Or.inl (Or.inr ⟨t, h1, h2.symm, h3.symm⟩)
    · exact Or.inr h

theorem mem_resultsOf {r : Report} {l : Loc} {x : Result} :
    (l, x) ∈ resultsOf r ↔
      (l = .sessionSetup ∧ r.setup = some x) ∨ (∃ p s, (p, s) ∈ nodes r.suites ∧ (l, x) ∈ leafResults p s) ∨
      (l = .sessionTeardown ∧ r.teardown = some x) := by
  simp only [resultsOf, List.mem_append, mem_optLoc, List.mem_flatMap, Prod.exists]
  constructor
  · rintro ((h | h) | h)
    · exact Or.inl h
    · exact Or.inr (Or.inl h)
    · exact Or.inr (Or.inr h)
  · rintro (h | h | h)
    · exact Or.inl (Or.inl h)
    · exact Or.inl (Or.inr h)
    · exact Or.inr h

theorem getLast?_concat' (p : Path) (n : String) : (p ++ [n]).getLast? = some n := by simp
theorem dropLast_concat' (p : Path) (n : String) : (p ++ [n]).dropLast = p := by simp

/-- **Every result node is found at its own full location** (sibling names distinct): `report.get(location)` for the
    location made of the node's full path returns that node — same-named suites and tests elsewhere in the tree do not
    matter. -/
theorem getResult_of_node {r : Report} (hu : uniqNames r = true) {l : Loc} {x : Result} (h : (l, x) ∈ resultsOf r) :
    getResult l r = some x := by
  have hu := (uniqNames_iff r).mp hu
  rcases mem_resultsOf.mp h with ⟨h1, h2⟩ | ⟨p, s, hn, hl⟩ | ⟨h1, h2⟩
  · subst h1; exact h2
  · have hs := getSuite_of_node p r.suites s hu hn
    have hus := uniq_of_node p r.suites s hu hn
    rcases mem_leafResults.mp hl with ⟨h1, h2⟩ | ⟨t, ht, h1, h2⟩ | ⟨h1, h2⟩
    · subst h1; simp only [getResult, suiteLeaf, hs, leafOf]; exact h2
    · subst h1; subst h2
      simp only [getResult, getLast?_concat', dropLast_concat', suiteLeaf, hs, leafOf]
      rw [findTest_sibling (uniq_sub hus).1 ht]; rfl
    · subst h1; simp only [getResult, suiteLeaf, hs, leafOf]; exact h2
  · subst h1; exact h2

/-- **Whatever `report.get(location)` returns is the node at that full location** (no hypothesis on names). -/
theorem node_of_getResult {r : Report} {l : Loc} {x : Result} (h : getResult l r = some x) : (l, x) ∈ resultsOf r := by
  apply mem_resultsOf.mpr
  cases l with
  | sessionSetup => exact Or.inl ⟨rfl, h⟩
  | sessionTeardown => exact Or.inr (Or.inr ⟨rfl, h⟩)
  | suiteSetup p =>
    simp only [getResult, suiteLeaf] at h
    cases hs : getSuite p r.suites with
    | none => rw [hs] at h; simp [leafOf] at h
    | some s =>
      rw [hs] at h; simp only [leafOf] at h
      exact Or.inr (Or.inl ⟨p, s, node_of_getSuite p _ s hs, mem_leafResults.mpr (Or.inl ⟨rfl, h⟩)⟩)
  | suiteTeardown p =>
    simp only [getResult, suiteLeaf] at h
    cases hs : getSuite p r.suites with
    | none => rw [hs] at h; simp [leafOf] at h
    | some s =>
      rw [hs] at h; simp only [leafOf] at h
      exact Or.inr (Or.inl ⟨p, s, node_of_getSuite p _ s hs, mem_leafResults.mpr (Or.inr (Or.inr ⟨rfl, h⟩))⟩)
  | test p =>
    simp only [getResult] at h
    cases hq : p.getLast? with
    | none => rw [hq] at h; cases h
    | some last =>
      rw [hq] at h; simp only [suiteLeaf] at h
      cases hs : getSuite p.dropLast r.suites with
      | none => rw [hs] at h; simp [leafOf, findTest] at h
      | some s =>
        rw [hs] at h; simp only [leafOf] at h
        cases hf : findTest last s.tests with
        | none => rw [hf] at h; cases h
        | some t =>
          rw [hf] at h; simp only [Option.map] at h; injection h with h
          unfold findTest at hf
          have hm := List.mem_of_find?_eq_some hf
          have hn := List.find?_some hf
          have hn : t.md.name = last := by simpa using hn
          refine Or.inr (Or.inl ⟨p.dropLast, s, node_of_getSuite _ _ s hs, mem_leafResults.mpr (Or.inr (Or.inl ⟨t, hm, ?_, h.symm⟩))⟩)
          rw [hn]; exact congrArg Loc.test (path_split hq)

/-! ### different result nodes have different locations -/

theorem optLoc_fst {l : Loc} {o : Option Result} {a : Loc × Result} (h : a ∈ optLoc l o) : a.1 = l := by
  cases o with
  | none => cases h
  | some r => simp only [optLoc, List.mem_singleton] at h; rw [h]

theorem optLoc_pairwise (l : Loc) (o : Option Result) : (optLoc l o).Pairwise (fun a b => a.1 ≠ b.1) := by
  cases o <;> simp [optLoc]

theorem leaf_fst {p : Path} {s : SuiteResult} {a : Loc × Result} (h : a ∈ leafResults p s) :
    a.1 = .suiteSetup p ∨ (∃ n, a.1 = .test (p ++ [n])) ∨ a.1 = .suiteTeardown p := by
  obtain ⟨l, x⟩ := a
  rcases mem_leafResults.mp h with ⟨h1, _⟩ | ⟨t, _, h1, _⟩ | ⟨h1, _⟩
  · exact Or.inl h1
  · exact Or.inr (Or.inl ⟨_, h1⟩)
  · exact Or.inr (Or.inr h1)

theorem leafResults_pairwise {p : Path} {s : SuiteResult} (hn : (s.tests.map tname).Nodup) :
    (leafResults p s).Pairwise (fun a b => a.1 ≠ b.1) := by
  unfold leafResults
  rw [List.pairwise_append, List.pairwise_append]
  refine ⟨⟨optLoc_pairwise _ _, ?_, ?_⟩, optLoc_pairwise _ _, ?_⟩
  · rw [List.pairwise_map]
    unfold List.Nodup at hn
    rw [List.pairwise_map] at hn
    refine hn.imp ?_
    intro t u hne e
    apply hne
    injection e with e
    exact (append_singleton_inj e).2
  · intro a ha b hb e
    rw [optLoc_fst ha] at e
    obtain ⟨t, _, ht⟩ := List.mem_map.mp hb
    rw [← ht] at e; cases e
  · intro a ha b hb e
    rw [optLoc_fst hb] at e
    rcases List.mem_append.mp ha with h | h
    · rw [optLoc_fst h] at e; cases e
    · obtain ⟨t, _, ht⟩ := List.mem_map.mp h
      rw [← ht] at e; cases e

/-- results held by suite nodes at different full paths have different locations -/
theorem leaf_disjoint {p q : Path} (hpq : p ≠ q) {s s' : SuiteResult} {a b : Loc × Result}
    (ha : a ∈ leafResults p s) (hb : b ∈ leafResults q s') : a.1 ≠ b.1 := by
  intro e
  rcases leaf_fst ha with h1 | ⟨n, h1⟩ | h1 <;> rcases leaf_fst hb with h2 | ⟨m, h2⟩ | h2 <;> rw [h1, h2] at e <;>
    first
      | cases e; done
      | (injection e with e; exact hpq e)
      | (injection e with e; exact hpq (append_singleton_inj e).1)

/-- **Different result nodes have different locations** (sibling names distinct): the location list of the enumeration of
    all result nodes has no duplicate.  With `getResult_of_node`: locations and result nodes correspond one to one, so a
    lookup by full path can never take the result of one test for the result of another — whatever names they share. -/
theorem resultsOf_locs_nodup {r : Report} (hu : uniqNames r = true) : ((resultsOf r).map Prod.fst).Nodup := by
  have hu := (uniqNames_iff r).mp hu
  unfold List.Nodup
  rw [List.pairwise_map]
  unfold resultsOf
  rw [List.pairwise_append, List.pairwise_append]
  refine ⟨⟨optLoc_pairwise _ _, ?_, ?_⟩, optLoc_pairwise _ _, ?_⟩
  · rw [List.pairwise_flatMap]
    constructor
    · intro ⟨p, s⟩ hps
      exact leafResults_pairwise (uniq_sub (uniq_of_node p _ s hu hps)).1
    · have hn := nodes_paths_nodup r.suites hu
      unfold List.Nodup at hn
      rw [List.pairwise_map] at hn
      refine hn.imp ?_
      intro a b hne x hx y hy
      exact leaf_disjoint hne hx hy
  · intro a ha b hb e
    rw [optLoc_fst ha] at e
    obtain ⟨⟨p, s⟩, _, hb⟩ := List.mem_flatMap.mp hb
    rcases leaf_fst hb with h | ⟨n, h⟩ | h <;> rw [h] at e <;> cases e
  · intro a ha b hb e
    rw [optLoc_fst hb] at e
    rcases List.mem_append.mp ha with h | h
    · rw [optLoc_fst h] at e; cases e
    · obtain ⟨⟨p, s⟩, _, h⟩ := List.mem_flatMap.mp h
      rcases leaf_fst h with h | ⟨n, h⟩ | h <;> rw [h] at e <;> cases e

/-! ### a mutation / a record addressed to `l` leaves every other node of the tree as it was -/

/-- **`report.get(l)` + mutation, on the nodes of the tree** (sibling names distinct): the node at full location `l` is
    the one that changes (`x ↦ y`, `f x = ok y`); every other result node of the report — under whatever suite names — is
    still there, unchanged, at its own location. -/
theorem modifyResult_nodes {f : Result → Except WriterErr Result} {l : Loc} {r r' : Report}
    (hu : uniqNames r = true) (h : modifyResult f l r = .ok r') :
    (∃ x y, (l, x) ∈ resultsOf r ∧ f x = .ok y ∧ (l, y) ∈ resultsOf r') ∧
    ∀ l' z, l' ≠ l → (l', z) ∈ resultsOf r → (l', z) ∈ resultsOf r' := by
  obtain ⟨x, y, h1, h2, h3, h4⟩ := modifyResult_spec h
  refine ⟨⟨x, y, node_of_getResult h1, h2, node_of_getResult h3⟩, ?_⟩
  intro l' z hne hz
  apply node_of_getResult
  rw [h4 l' hne]
  exact getResult_of_node hu hz

/-- `_add_step_log` through a step reference into the result at `l0`: frame on whole results -/
theorem addEntry_frame {w w' : WriterState} {l : Loc} {t : Nat} {en : Entry} (h : addEntry w l t en = .ok w')
    {l0 : Loc} {idx : Nat} {et : Option Time} (href : w.active.lookup t = some { target := some (l0, idx), endTime := et }) :
    (∃ x y, getResult l0 w.report = some x ∧ getResult l0 w'.report = some y ∧
      y.steps = modifyNth (addEntryToStep en) idx x.steps) ∧
    ∀ l', l' ≠ l0 → getResult l' w'.report = getResult l' w.report := by
  unfold addEntry at h
  cases hc : checkLocation l w.report with
  | error e => rw [hc] at h; cases h
  | ok u =>
    rw [hc, href] at h; dsimp only at h
    cases hm : modifyResult (addEntryAt idx en) l0 w.report with
    | error e => rw [hm] at h; cases e <;> cases h
    | ok r' =>
      rw [hm] at h; injection h with h; subst h
      obtain ⟨x, y, g1, g2, g3, g4⟩ := modifyResult_spec hm
      refine ⟨⟨x, y, g1, g3, ?_⟩, g4⟩
      unfold addEntryAt at g2
      cases hs : x.steps[idx]? with
      | none => rw [hs] at g2; cases g2
      | some st =>
        rw [hs] at g2; dsimp only at g2
        split at g2
        · cases g2
        · injection g2 with g2; subst g2; rfl

/-- **A record changes the node at its own full location only**: every other result node of the tree is unchanged. -/
theorem addEntry_nodes {w w' : WriterState} {l : Loc} {t : Nat} {en : Entry} (hu : uniqNames w.report = true)
    (h : addEntry w l t en = .ok w')
    {l0 : Loc} {idx : Nat} {et : Option Time} (href : w.active.lookup t = some { target := some (l0, idx), endTime := et }) :
    (∃ x y, (l0, x) ∈ resultsOf w.report ∧ (l0, y) ∈ resultsOf w'.report ∧
      y.steps = modifyNth (addEntryToStep en) idx x.steps) ∧
    ∀ l' z, l' ≠ l0 → (l', z) ∈ resultsOf w.report → (l', z) ∈ resultsOf w'.report := by
  obtain ⟨⟨x, y, h1, h2, h3⟩, h4⟩ := addEntry_frame h href
  refine ⟨⟨x, y, node_of_getResult h1, node_of_getResult h2, h3⟩, ?_⟩
  intro l' z hne hz
  apply node_of_getResult
  rw [h4 l' hne]
  exact getResult_of_node hu hz

/-! ### the variant that matches the first element of a path against the suites of ANY depth -/

/-- `find_suite(report.all_suites(), path)`: the first element of the path is looked up, depth first, among ALL suites of
    the report (`flatten_suites`), the rest below the suite found.  NOT what the code does — kept for the refutation
    `LccModel.C06.any_depth_lookup_confuses_paths`. -/
def getSuiteAnyDepth (p : Path) (ss : List SuiteResult) : Option SuiteResult := getSuite p (flattenSuites ss)

end LccModel.WriterLoc

/-
  C05 helpers, part 10: thread ids are only KEYS of `active_steps` — a re-labelling `ρ : Loc → Nat → Nat` of the thread id of
  every step / log event (new id from the event's result location and its old id) that is injective on the
  (location, thread id) pairs of the stream leaves the folded report unchanged, provided the stream obeys the discipline.

  The simulation: the renamed state has the same report, and its `active_steps` history is the original one with every
  binding `(t, ref)` re-keyed to `(ρ l t, ref)`, `l` being the location of the step `ref` points to.  Bindings the original
  run overwrote (a worker that went on to another test) survive under their own key in the renamed state; the discipline
  (`emitsInPlace`: a step end / log of thread `t` at location `l` finds a step opened at `l`) says they are never looked up.

  Injectivity is sufficient, not necessary: `dapplyT_sim` only needs the renamed state to find the same binding at every
  lookup (`LookupAgrees`), and `tidSimB` decides that on the stream alone (needed for real thread ids: CPython re-uses the
  idents of ended threads, so a table may have to merge the ids of two threads that ran one after the other).

  One clause had to be added to the discipline for this (`sessionFresh`, giving `dapplyT` / `drunT`): the session setup /
  teardown result is started while no step binding points into it.  (`disc` demands that of suite setups / teardowns and
  tests only.  A second `sessionSetupStart` would DETACH the bindings of the steps of the first one; a detached binding has
  lost its location, the original writer accepts a log of that thread at any location, the renamed one does not find the
  binding: `sessionFresh_needed` in Props/C05.lean.)
-/
import LccModel.Lemmas.WriterLabels
set_option linter.unusedSimpArgs false
set_option linter.unusedVariables false
namespace LccModel.Writer
open LccModel.Report

/-- the (result location, thread id) under which an event reads or writes `active_steps` -/
def evTidLoc : Event → Option (Loc × Nat)
  | .stepStart loc _ tid _ => some (loc, tid)
  | .stepEnd loc _ tid _ => some (loc, tid)
  | .log loc _ tid _ _ _ => some (loc, tid)
  | .check loc _ tid _ _ _ _ => some (loc, tid)
  | .attachment loc _ tid _ _ _ _ => some (loc, tid)
  | .url loc _ tid _ _ _ => some (loc, tid)
  | _ => none

/-- re-label the thread id of the events that carry one: new id from the event's location and its old id -/
def relabelTid (ρ : Loc → Nat → Nat) : Event → Event
  | .stepStart loc d tid t => .stepStart loc d (ρ loc tid) t
  | .stepEnd loc s tid t => .stepEnd loc s (ρ loc tid) t
  | .log loc s tid level m t => .log loc s (ρ loc tid) level m t
  | .check loc s tid d ok det t => .check loc s (ρ loc tid) d ok det t
  | .attachment loc s tid path d img t => .attachment loc s (ρ loc tid) path d img t
  | .url loc s tid u d t => .url loc s (ρ loc tid) u d t
  | e => e

/-- `ρ` is injective on the (location, thread id) pairs in `S` -/
def TidInj (ρ : Loc → Nat → Nat) (S : Loc → Nat → Prop) : Prop :=
  ∀ l t l' t', S l t → S l' t' → ρ l t = ρ l' t' → l = l' ∧ t = t'

/-! ### the strengthened discipline -/

/-- the session setup / teardown result is started while no step binding points into it -/
def sessionFresh (w : WriterState) : Event → Bool
  | .sessionSetupStart _ => noRefs w.active .sessionSetup
  | .sessionTeardownStart _ => noRefs w.active .sessionTeardown
  | _ => true

def dapplyT (w : WriterState) (e : Event) : Except WriterErr WriterState :=
  if sessionFresh w e then dapply w e else .error .internal

/-- `run` within the discipline `disc` + unique sibling names + `sessionFresh` -/
def drunT (w : WriterState) : List Event → Except WriterErr WriterState
  | [] => .ok w
  | e :: es =>
    match dapplyT w e with
    | .ok w' => drunT w' es
    | .error x => .error x

theorem dapplyT_iff {w w' : WriterState} {e : Event} :
    dapplyT w e = .ok w' ↔ sessionFresh w e = true ∧ dapply w e = .ok w' := by
  unfold dapplyT
  cases sessionFresh w e <;> simp

theorem drunT_cons {w w' : WriterState} {e : Event} {es : List Event} :
    drunT w (e :: es) = .ok w' ↔ ∃ wm, dapplyT w e = .ok wm ∧ drunT wm es = .ok w' := by
  simp only [drunT]
  cases dapplyT w e with
  | error x => simp
  | ok wm => simp

/-- the strengthened discipline implies the discipline -/
theorem drun_of_drunT : ∀ {es : List Event} {w w' : WriterState}, drunT w es = .ok w' → drun w es = .ok w'
  | [], w, w', h => by simpa [drunT, drun] using h
  | e :: es, w, w', h => by
    obtain ⟨wm, h1, h2⟩ := drunT_cons.mp h
    exact drun_cons.mpr ⟨wm, (dapplyT_iff.mp h1).2, drun_of_drunT h2⟩

/-! ### the renamed state -/

def renBind (ρ : Loc → Nat → Nat) (b : Nat × StepRef) : Nat × StepRef :=
  match b.2.target with
  | some (l, _) => (ρ l b.1, b.2)
  | none => b

def renAct (ρ : Loc → Nat → Nat) (act : List (Nat × StepRef)) : List (Nat × StepRef) := act.map (renBind ρ)

def renState (ρ : Loc → Nat → Nat) (w : WriterState) : WriterState := { report := w.report, active := renAct ρ w.active }

/-- every binding of the history points into the report, at a (location, thread) pair of `S` -/
def Tracked (S : Loc → Nat → Prop) (act : List (Nat × StepRef)) : Prop :=
  ∀ b ∈ act, ∃ l idx, b.2.target = some (l, idx) ∧ S l b.1

theorem renBind_snd (ρ : Loc → Nat → Nat) (b : Nat × StepRef) : (renBind ρ b).2 = b.2 := by
  unfold renBind
  split <;> rfl

theorem renBind_of_target {ρ : Loc → Nat → Nat} {t : Nat} {ref : StepRef} {l : Loc} {idx : Nat}
    (h : ref.target = some (l, idx)) : renBind ρ (t, ref) = (ρ l t, ref) := by
  simp only [renBind, h]

theorem noRefs_ren (ρ : Loc → Nat → Nat) (act : List (Nat × StepRef)) (loc : Loc) :
    noRefs (renAct ρ act) loc = noRefs act loc := by
  simp only [noRefs, renAct, List.all_map]
  congr 1
  funext b
  simp only [Function.comp, renBind_snd]

theorem lookup_mem {t : Nat} {ref : StepRef} : ∀ {act : List (Nat × StepRef)}, act.lookup t = some ref → (t, ref) ∈ act
  | [], h => by cases h
  | (t0, r0) :: rest, h => by
    simp only [List.lookup] at h
    split at h
    · rename_i heq
      have : t = t0 := by simpa using heq
      subst this
      cases h
      exact List.mem_cons_self
    · exact List.mem_cons_of_mem _ (lookup_mem h)

/-- **a binding the original finds under `t`, pointing to location `l`, is found by the renamed state under `ρ l t`** -/
theorem lookup_ren {ρ : Loc → Nat → Nat} {S : Loc → Nat → Prop} (hinj : TidInj ρ S) {t : Nat} {ref : StepRef} {l : Loc}
    {idx : Nat} : ∀ {act : List (Nat × StepRef)}, Tracked S act → act.lookup t = some ref → ref.target = some (l, idx) →
      (renAct ρ act).lookup (ρ l t) = some ref
  | [], _, h, _ => by cases h
  | (t0, r0) :: rest, htr, h, htg => by
    have hS : S l t := by
      obtain ⟨l', idx', h1, h2⟩ := htr _ (lookup_mem h)
      simp only at h1 h2
      rw [htg] at h1
      cases h1
      exact h2
    obtain ⟨l0, i0, h0, hS0⟩ := htr (t0, r0) List.mem_cons_self
    simp only at h0 hS0
    have htr' : Tracked S rest := fun b hb => htr b (List.mem_cons_of_mem _ hb)
    simp only [renAct, List.map_cons, renBind_of_target h0, List.lookup]
    simp only [List.lookup] at h
    split at h
    · rename_i heq
      have e1 : t = t0 := by simpa using heq
      subst e1
      cases h
      rw [htg] at h0
      cases h0
      simp
    · rename_i hne
      have e1 : t ≠ t0 := by simpa using hne
      have e2 : (ρ l t == ρ l0 t0) = false := by
        apply beq_false_of_ne
        intro heq
        exact e1 (hinj l t l0 t0 hS hS0 heq).2
      rw [e2]
      exact lookup_ren hinj htr' h htg

theorem relabelTid_of_noTid (ρ : Loc → Nat → Nat) {e : Event} (h : evTidLoc e = none) : relabelTid ρ e = e := by
  cases e <;> first | rfl | (simp [evTidLoc] at h)

theorem evTidLoc_of_start {e : Event} {x : Loc × Path × Leaf} (h : startOf e = some x) : evTidLoc e = none := by
  cases e <;> first | rfl | (simp [startOf] at h)

theorem evTidLoc_of_end {e : Event} {x : Loc × Time} (h : endOf e = some x) : evTidLoc e = none := by
  cases e <;> first | rfl | (simp [endOf] at h)

theorem entryOf_relabel {ρ : Loc → Nat → Nat} {e : Event} {loc : Loc} {tid : Nat} {en : Entry}
    (h : entryOf e = some (loc, tid, en)) :
    entryOf (relabelTid ρ e) = some (loc, ρ loc tid, en) ∧ evTidLoc e = some (loc, tid) := by
  cases e <;> simp only [entryOf, Option.some.injEq, Prod.mk.injEq, reduceCtorEq] at h
  all_goals obtain ⟨rfl, rfl, rfl⟩ := h
  all_goals exact ⟨rfl, rfl⟩

theorem renState_report (ρ : Loc → Nat → Nat) (w : WriterState) : (renState ρ w).report = w.report := rfl
theorem renState_active (ρ : Loc → Nat → Nat) (w : WriterState) : (renState ρ w).active = renAct ρ w.active := rfl

theorem detach_ren_of_noRefs (ρ : Loc → Nat → Nat) {act : List (Nat × StepRef)} {loc : Loc} (h : noRefs act loc = true) :
    detach loc (renAct ρ act) = renAct ρ (detach loc act) := by
  rw [detach_of_noRefs loc act h, detach_of_noRefs loc _ (by rw [noRefs_ren]; exact h)]

theorem tracked_push {S : Loc → Nat → Prop} {act : List (Nat × StepRef)} {t : Nat} {ref : StepRef} {l : Loc} {idx : Nat}
    (h : Tracked S act) (htg : ref.target = some (l, idx)) (hS : S l t) : Tracked S ((t, ref) :: act) := by
  intro b hb
  rcases List.mem_cons.mp hb with rfl | hb
  · exact ⟨l, idx, htg, hS⟩
  · exact h b hb

/-- the binding a successful, disciplined step-end / log event finds points to the event's own location -/
theorem target_of_located {S : Loc → Nat → Prop} {act : List (Nat × StepRef)} {loc : Loc} {tid : Nat} {ref : StepRef}
    (htr : Tracked S act) (hl : act.lookup tid = some ref) (hloc : located act loc tid = true) :
    ∃ idx, ref.target = some (loc, idx) := by
  obtain ⟨l, idx, h1, _⟩ := htr _ (lookup_mem hl)
  simp only at h1
  rcases located_of_lookup hl hloc with hn | ⟨idx', hi⟩
  · rw [hn] at h1; cases h1
  · exact ⟨idx', hi⟩

theorem located_ren {ρ : Loc → Nat → Nat} {act : List (Nat × StepRef)} {loc : Loc} {tid : Nat} {ref : StepRef} {idx : Nat}
    (hl : (renAct ρ act).lookup (ρ loc tid) = some ref) (htg : ref.target = some (loc, idx)) :
    located (renAct ρ act) loc (ρ loc tid) = true :=
  located_of_ref hl (Or.inr ⟨idx, htg⟩)

/-! ### the three classes of events -/

/-- events whose handler only mutates the report -/
def reportOp : Event → Option (Report → Except WriterErr Report)
  | .sessionStart t => some fun r => .ok { r with startTime := some t }
  | .sessionEnd t => some fun r => .ok { r with endTime := some t }
  | .sessionSetupEnd t => some (modifyResult (fun x => .ok (finalizeResult t x)) .sessionSetup)
  | .sessionTeardownEnd t => some (modifyResult (fun x => .ok (finalizeResult t x)) .sessionTeardown)
  | .suiteStart path md t => some fun r =>
      match path.dropLast with
      | [] => .ok { r with suites := r.suites ++ [initSuite md t] }
      | parent => liftSuites r (modifySuite (fun s => .ok (s.setSuites (s.suites ++ [initSuite md t]))) parent r.suites)
  | .suiteEnd path t => some fun r => liftSuites r (modifySuite (fun s => .ok (s.setEndTime (some t))) path r.suites)
  | .suiteSetupEnd path t => some (modifyResult (fun x => .ok (finalizeResult t x)) (.suiteSetup path))
  | .suiteTeardownEnd path t => some (modifyResult (fun x => .ok (finalizeResult t x)) (.suiteTeardown path))
  | .testEnd path t => some (modifyResult (fun x => .ok (finalizeResult t x)) (.test path))
  | _ => none

/-- events that create / replace the result at a location (and detach the step bindings into the old one) -/
def startOp : Event → Option (Loc × (Report → Except WriterErr Report))
  | .sessionSetupStart t => some (.sessionSetup, fun r => .ok { r with setup := some (initResult t) })
  | .sessionTeardownStart t => some (.sessionTeardown, fun r => .ok { r with teardown := some (initResult t) })
  | .suiteSetupStart path t =>
    some (.suiteSetup path, fun r => liftSuites r (modifySuite (fun s => .ok (s.setSetup (some (initResult t)))) path r.suites))
  | .suiteTeardownStart path t =>
    some (.suiteTeardown path,
      fun r => liftSuites r (modifySuite (fun s => .ok (s.setTeardown (some (initResult t)))) path r.suites))
  | .testStart path md t => some (.test (path.dropLast ++ [md.name]), fun r => addTest path.dropLast (initTest md t) r)
  | .testSkipped path md reason t =>
    some (.test (path.dropLast ++ [md.name]), fun r => addTest path.dropLast (bypassTest md .skipped reason t) r)
  | .testDisabled path md reason t =>
    some (.test (path.dropLast ++ [md.name]), fun r => addTest path.dropLast (bypassTest md .disabled reason t) r)
  | _ => none

theorem apply_reportOp {e : Event} {g : Report → Except WriterErr Report} (h : reportOp e = some g) (w : WriterState) :
    apply w e = onReport w (g w.report) := by
  cases e <;> simp only [reportOp, Option.some.injEq, reduceCtorEq] at h <;> subst h <;> try rfl
  rename_i path md t
  simp only [apply]
  cases path.dropLast with
  | nil => rfl
  | cons n rest => rfl

theorem reportOp_facts {e : Event} (h : (reportOp e).isSome = true) :
    startOf e = none ∧ tidLocOf e = none ∧ evTidLoc e = none ∧ ∀ w, sessionFresh w e = true := by
  cases e <;> first | exact ⟨rfl, rfl, rfl, fun _ => rfl⟩ | (simp [reportOp] at h)

theorem apply_startOp {e : Event} {loc : Loc} {g : Report → Except WriterErr Report} (h : startOp e = some (loc, g))
    (w : WriterState) : apply w e = onResultStart loc w (g w.report) := by
  cases e <;> simp only [startOp, Option.some.injEq, Prod.mk.injEq, reduceCtorEq] at h
  all_goals obtain ⟨rfl, rfl⟩ := h
  all_goals rfl

theorem startOp_facts {e : Event} {loc : Loc} {g : Report → Except WriterErr Report} (h : startOp e = some (loc, g)) :
    tidLocOf e = none ∧ evTidLoc e = none ∧ ∀ w, (startsFresh w e && sessionFresh w e) = noRefs w.active loc := by
  cases e <;> simp only [startOp, Option.some.injEq, Prod.mk.injEq, reduceCtorEq] at h
  all_goals obtain ⟨rfl, rfl⟩ := h
  all_goals refine ⟨rfl, rfl, fun w => ?_⟩
  all_goals simp [startsFresh, startOf, sessionFresh]

theorem event_classes (e : Event) :
    (reportOp e).isSome = true ∨ (startOp e).isSome = true ∨ (∃ loc d tid t, e = .stepStart loc d tid t) ∨
      (∃ loc s tid t, e = .stepEnd loc s tid t) ∨ (∃ x, entryOf e = some x) := by
  cases e <;> simp [reportOp, startOp, entryOf]

/-! ### the simulation -/

/-- the binding an event pushes on `active_steps` (step start: a new one; step end: the ended one), as (location, thread) -/
def pushKey : Event → Option (Loc × Nat)
  | .stepStart loc _ tid _ => some (loc, tid)
  | .stepEnd loc _ tid _ => some (loc, tid)
  | _ => none

/-- how the history of bindings grows -/
def ActiveAfter (w w' : WriterState) (e : Event) : Prop :=
  match pushKey e with
  | some (l, t) => ∃ ref idx, ref.target = some (l, idx) ∧ w'.active = (t, ref) :: w.active
  | none => w'.active = w.active

theorem pushKey_of_noTid {e : Event} (h : evTidLoc e = none) : pushKey e = none := by
  cases e <;> first | rfl | (simp [evTidLoc] at h)

theorem pushKey_of_entry {e : Event} {x : Loc × Nat × Entry} (h : entryOf e = some x) : pushKey e = none := by
  cases e <;> first | rfl | (simp [entryOf] at h)

/-- the renamed state finds, under `ρ l t`, the binding the original finds under `t` — for the (location, thread) pair the
    event reads -/
def LookupAgrees (ρ : Loc → Nat → Nat) (w : WriterState) (e : Event) : Prop :=
  ∀ l t ref idx, tidLocOf e = some (l, t) → w.active.lookup t = some ref → ref.target = some (l, idx) →
    (renAct ρ w.active).lookup (ρ l t) = some ref

/-- **One step of the simulation.**  Every binding of the history is tracked in `S`, the event's own (location, thread) pair
    is in `S`, and the renamed state finds the binding the event reads (`LookupAgrees`): if the handler succeeds within the
    strengthened discipline, then so does the handler of the re-labelled event on the renamed state, the result is the
    renamed new state (SAME report), and the new history is tracked. -/
theorem dapplyT_sim {ρ : Loc → Nat → Nat} {S : Loc → Nat → Prop} {w w' : WriterState} {e : Event}
    (htr : Tracked S w.active) (hS : ∀ l t, evTidLoc e = some (l, t) → S l t) (hlook : LookupAgrees ρ w e)
    (h : dapplyT w e = .ok w') :
    dapplyT (renState ρ w) (relabelTid ρ e) = .ok (renState ρ w') ∧ Tracked S w'.active ∧ ActiveAfter w w' e := by
  obtain ⟨hsf, hd⟩ := dapplyT_iff.mp h
  obtain ⟨hdisc, ha, hu⟩ := dapply_iff.mp hd
  have hdisc' := hdisc
  simp only [disc, Bool.and_eq_true] at hdisc'
  obtain ⟨hfresh, hplace⟩ := hdisc'
  suffices hh : sessionFresh (renState ρ w) (relabelTid ρ e) = true ∧ disc (renState ρ w) (relabelTid ρ e) = true ∧
      apply (renState ρ w) (relabelTid ρ e) = .ok (renState ρ w') ∧ Tracked S w'.active ∧ ActiveAfter w w' e by
    obtain ⟨h1, h2, h3, h4, h5⟩ := hh
    exact ⟨dapplyT_iff.mpr ⟨h1, dapply_iff.mpr ⟨h2, h3, hu⟩⟩, h4, h5⟩
  rcases event_classes e with hA | hB | ⟨loc, d, tid, t, rfl⟩ | ⟨loc, s, tid, t, rfl⟩ | ⟨⟨loc, tid, en⟩, hen⟩
  · -- the handler only mutates the report
    obtain ⟨g, hg⟩ := Option.isSome_iff_exists.mp hA
    obtain ⟨f1, f2, f3, f4⟩ := reportOp_facts hA
    rw [relabelTid_of_noTid ρ f3]
    rw [apply_reportOp hg] at ha
    obtain ⟨r', h1, rfl⟩ := onReport_iff.mp ha
    refine ⟨f4 _, ?_, ?_, htr, ?_⟩
    · simp only [disc, startsFresh, emitsInPlace, f1, f2, Bool.and_self]
    · rw [apply_reportOp hg]
      exact onReport_iff.mpr ⟨r', h1, rfl⟩
    · simp only [ActiveAfter, pushKey_of_noTid f3]
  · -- a result is started: no binding points into it, `detach` changes nothing
    obtain ⟨⟨l, g⟩, hg⟩ := Option.isSome_iff_exists.mp hB
    obtain ⟨f2, f3, f4⟩ := startOp_facts hg
    have hno : noRefs w.active l = true := by rw [← f4 w, hfresh, hsf]; rfl
    have hno' : noRefs (renState ρ w).active l = true := by rw [renState_active, noRefs_ren]; exact hno
    rw [relabelTid_of_noTid ρ f3]
    rw [apply_startOp hg] at ha
    obtain ⟨r', h1, rfl⟩ := onResultStart_iff.mp ha
    have hf' := f4 (renState ρ w)
    rw [hno', Bool.and_eq_true] at hf'
    refine ⟨hf'.2, ?_, ?_, ?_, ?_⟩
    · simp only [disc, emitsInPlace, f2, hf'.1, Bool.and_self]
    · rw [apply_startOp hg]
      refine onResultStart_iff.mpr ⟨r', h1, ?_⟩
      simp only [renState, detach_ren_of_noRefs ρ hno]
    · simp only [detach_of_noRefs l _ hno]
      exact htr
    · simp only [ActiveAfter, pushKey_of_noTid f3, detach_of_noRefs l _ hno]
  · -- stepStart
    obtain ⟨n, r', h1, rfl⟩ := (apply_stepStart_iff _ _ _ _ _ _).mp ha
    have hSe : S loc tid := hS loc tid rfl
    refine ⟨rfl, rfl, ?_, tracked_push htr rfl hSe, ⟨_, n, rfl, rfl⟩⟩
    refine (apply_stepStart_iff _ _ _ _ _ _).mpr ⟨n, r', h1, ?_⟩
    simp only [renState, renAct, List.map_cons, renBind]
  · -- stepEnd
    obtain ⟨ref, hl, hcase⟩ := (apply_stepEnd_iff _ _ _ _ _ _).mp ha
    have hSe : S loc tid := hS loc tid rfl
    simp only [emitsInPlace, tidLocOf] at hplace
    obtain ⟨idx, htg⟩ := target_of_located htr hl hplace
    have hl' := hlook loc tid ref idx rfl hl htg
    have hpush : renAct ρ ((tid, { ref with endTime := some t }) :: w.active)
        = (ρ loc tid, { ref with endTime := some t }) :: renAct ρ w.active := by
      simp only [renAct, List.map_cons, renBind, htg]
    rcases hcase with ⟨hn, _⟩ | ⟨l, idx', r', ht, hm, rfl⟩
    · rw [hn] at htg; cases htg
    · rw [htg] at ht
      cases ht
      refine ⟨rfl, ?_, ?_, tracked_push htr (ref := { ref with endTime := some t }) htg hSe,
        ⟨{ ref with endTime := some t }, idx, htg, rfl⟩⟩
      · simp only [disc, startsFresh, startOf, relabelTid, emitsInPlace, tidLocOf, Bool.true_and]
        exact located_ren hl' htg
      · refine (apply_stepEnd_iff _ _ _ _ _ _).mpr ⟨ref, hl', Or.inr ⟨loc, idx, r', htg, hm, ?_⟩⟩
        simp only [renState, hpush]
  · -- log / check / attachment / url
    obtain ⟨hen', hev⟩ := entryOf_relabel (ρ := ρ) hen
    have hSe : S loc tid := hS loc tid hev
    rw [apply_entry_eq hen, addEntry_iff] at ha
    obtain ⟨hr0, ref, hl, hcase⟩ := ha
    obtain ⟨_, _, htl, hso⟩ := entryOf_foot hen
    obtain ⟨_, _, htl', hso'⟩ := entryOf_foot hen'
    simp only [emitsInPlace, htl] at hplace
    obtain ⟨idx, htg⟩ := target_of_located htr hl hplace
    have hl' := hlook loc tid ref idx htl hl htg
    have hsf' : sessionFresh (renState ρ w) (relabelTid ρ e) = true := by
      cases e <;> first | rfl | (simp [entryOf] at hen)
    rcases hcase with ⟨hn, _⟩ | ⟨l, idx', r', ht, hm, rfl⟩
    · rw [hn] at htg; cases htg
    · rw [htg] at ht
      cases ht
      refine ⟨hsf', ?_, ?_, htr, ?_⟩
      · simp only [disc, startsFresh, hso', emitsInPlace, htl', Bool.true_and]
        exact located_ren hl' htg
      · rw [apply_entry_eq hen', addEntry_iff]
        exact ⟨hr0, ref, hl', Or.inr ⟨loc, idx, r', htg, hm, rfl⟩⟩
      · simp only [ActiveAfter, pushKey_of_entry hen]

/-- the injective case: `LookupAgrees` comes from `lookup_ren` -/
theorem dapplyT_ren {ρ : Loc → Nat → Nat} {S : Loc → Nat → Prop} (hinj : TidInj ρ S) {w w' : WriterState} {e : Event}
    (htr : Tracked S w.active) (hS : ∀ l t, evTidLoc e = some (l, t) → S l t) (h : dapplyT w e = .ok w') :
    dapplyT (renState ρ w) (relabelTid ρ e) = .ok (renState ρ w') ∧ Tracked S w'.active := by
  obtain ⟨h1, h2, _⟩ := dapplyT_sim (ρ := ρ) htr hS (fun l t ref idx _ hl htg => lookup_ren hinj htr hl htg) h
  exact ⟨h1, h2⟩

/-! ### the general side condition: the two key sequences agree at every lookup

  Injectivity is sufficient, not necessary.  CPython re-uses `threading.get_ident()` values of threads that have ended, so
  the real thread ids of one run may identify two threads (`lcc.Thread`s of one test, one after the other) that the other
  run tells apart: the matching then MERGES two ids.  Merging is not invariant in general
  (`C05.injectivity_per_location_is_not_enough`), but it is whenever every lookup still finds the same binding — which
  can be read off the stream alone: `tidSimFrom` keeps the sequence of keys pushed so far, original and re-labelled, and
  demands at every read that the first occurrence of the original key and of the new key are at the same position. -/

def tidSimFrom (ρ : Loc → Nat → Nat) (ks ks' : List Nat) : List Event → Bool
  | [] => true
  | e :: es =>
    (match tidLocOf e with
     | some (l, t) => ks.idxOf t == ks'.idxOf (ρ l t)
     | none => true) &&
    (match pushKey e with
     | some (l, t) => tidSimFrom ρ (t :: ks) (ρ l t :: ks') es
     | none => tidSimFrom ρ ks ks' es)

/-- the re-labelling `ρ` keeps, along the stream `es`, every lookup of `active_steps` on the same binding -/
def tidSimB (ρ : Loc → Nat → Nat) (es : List Event) : Bool := tidSimFrom ρ [] [] es

theorem lookup_of_idx {t k : Nat} {ref : StepRef} : ∀ {act act' : List (Nat × StepRef)},
    act'.map (·.2) = act.map (·.2) → act.lookup t = some ref →
    (act.map (·.1)).idxOf t = (act'.map (·.1)).idxOf k → act'.lookup k = some ref
  | [], _, _, h, _ => by cases h
  | (t0, r0) :: rest, [], hm, _, _ => by cases hm
  | (t0, r0) :: rest, (k0, r0') :: rest', hm, h, hi => by
    simp only [List.map_cons, List.cons.injEq] at hm
    obtain ⟨hr, hm'⟩ := hm
    subst hr
    simp only [List.map_cons, List.idxOf_cons] at hi
    simp only [List.lookup] at h ⊢
    split at h
    · rename_i heq
      have e1 : t = t0 := by simpa using heq
      subst e1
      cases h
      simp only [BEq.rfl, cond_true] at hi
      by_cases hk : k0 = k
      · subst hk; simp
      · have : (k0 == k) = false := beq_false_of_ne hk
        simp [this] at hi
    · rename_i hne
      have e1 : t ≠ t0 := by simpa using hne
      have e2 : (t0 == t) = false := beq_false_of_ne (Ne.symm e1)
      simp only [e2, cond_false] at hi
      by_cases hk : k0 = k
      · subst hk; simp at hi
      · have e3 : (k0 == k) = false := beq_false_of_ne hk
        have e4 : (k == k0) = false := beq_false_of_ne (Ne.symm hk)
        simp only [e3, cond_false, Nat.add_right_cancel_iff] at hi
        rw [e4]
        exact lookup_of_idx hm' h hi

theorem renAct_snd (ρ : Loc → Nat → Nat) (act : List (Nat × StepRef)) : (renAct ρ act).map (·.2) = act.map (·.2) := by
  simp only [renAct, List.map_map]
  apply List.map_congr_left
  intro b _
  exact renBind_snd ρ b

theorem drunT_sim {ρ : Loc → Nat → Nat} :
    ∀ {es : List Event} {w w' : WriterState}, Tracked (fun _ _ => True) w.active →
      tidSimFrom ρ (w.active.map (·.1)) ((renAct ρ w.active).map (·.1)) es = true →
      drunT w es = .ok w' → drunT (renState ρ w) (es.map (relabelTid ρ)) = .ok (renState ρ w')
  | [], w, w', _, _, h => by
    simp only [drunT, Except.ok.injEq] at h
    subst h
    rfl
  | e :: es, w, w', htr, hsim, h => by
    obtain ⟨wm, h1, h2⟩ := drunT_cons.mp h
    simp only [tidSimFrom, Bool.and_eq_true] at hsim
    obtain ⟨hread, hrest⟩ := hsim
    have hlook : LookupAgrees ρ w e := by
      intro l t ref idx htl hl htg
      simp only [htl, beq_iff_eq] at hread
      exact lookup_of_idx (renAct_snd ρ w.active) hl hread
    obtain ⟨h3, h4, h5⟩ := dapplyT_sim (ρ := ρ) htr (fun _ _ _ => trivial) hlook h1
    refine drunT_cons.mpr ⟨_, h3, drunT_sim h4 ?_ h2⟩
    simp only [ActiveAfter] at h5
    cases hp : pushKey e with
    | none =>
      simp only [hp] at h5 hrest
      rw [h5]; exact hrest
    | some lt =>
      obtain ⟨l, t⟩ := lt
      simp only [hp] at h5 hrest
      obtain ⟨ref, idx, htg, hact⟩ := h5
      rw [hact]
      simp only [renAct, List.map_cons, renBind_of_target htg]
      exact hrest

/-- **Thread-id re-labelling invariance, general form.**  A stream handled without error within the strengthened
    discipline, from the empty report, and a re-labelling `ρ` of thread ids that keeps every lookup on the same binding
    (`tidSimB`, a check of the stream alone): the re-labelled stream is handled without error within the strengthened
    discipline, and the final REPORT IS THE SAME. -/
theorem drunT_relabelTid_sim {ρ : Loc → Nat → Nat} {es : List Event} (hsim : tidSimB ρ es = true) {w : WriterState}
    (h : drunT initState es = .ok w) :
    ∃ w', drunT initState (es.map (relabelTid ρ)) = .ok w' ∧ w'.report = w.report :=
  ⟨renState ρ w, drunT_sim (w := initState) (fun b hb => by cases hb) hsim h, rfl⟩

/-- the (location, thread id) pairs of a stream -/
def tidLocs (es : List Event) : List (Loc × Nat) := es.filterMap evTidLoc

theorem mem_tidLocs {es : List Event} {e : Event} {l : Loc} {t : Nat} (he : e ∈ es) (h : evTidLoc e = some (l, t)) :
    (l, t) ∈ tidLocs es :=
  List.mem_filterMap.mpr ⟨e, he, h⟩

theorem drunT_ren {ρ : Loc → Nat → Nat} {S : Loc → Nat → Prop} (hinj : TidInj ρ S) :
    ∀ {es : List Event} {w w' : WriterState}, Tracked S w.active → (∀ e ∈ es, ∀ l t, evTidLoc e = some (l, t) → S l t) →
      drunT w es = .ok w' → drunT (renState ρ w) (es.map (relabelTid ρ)) = .ok (renState ρ w')
  | [], w, w', _, _, h => by
    simp only [drunT, Except.ok.injEq] at h
    subst h
    rfl
  | e :: es, w, w', htr, hS, h => by
    obtain ⟨wm, h1, h2⟩ := drunT_cons.mp h
    obtain ⟨h3, h4⟩ := dapplyT_ren hinj htr (hS e List.mem_cons_self) h1
    exact drunT_cons.mpr ⟨_, h3, drunT_ren hinj h4 (fun e' he' => hS e' (List.mem_cons_of_mem _ he')) h2⟩

/-- `ρ` is injective on the (location, thread id) pairs that occur in `es` -/
def TidInjOn (ρ : Loc → Nat → Nat) (es : List Event) : Prop := TidInj ρ (fun l t => (l, t) ∈ tidLocs es)

/-- **Thread-id re-labelling invariance.**  A stream handled without error within the strengthened discipline, from the empty
    report, and a re-labelling `ρ` of thread ids injective on the (location, thread id) pairs of the stream: the
    re-labelled stream is handled without error within the strengthened discipline, and the final REPORT IS THE SAME (the
    report holds no thread id). -/
theorem drunT_relabelTid {ρ : Loc → Nat → Nat} {es : List Event} (hinj : TidInjOn ρ es) {w : WriterState}
    (h : drunT initState es = .ok w) :
    ∃ w', drunT initState (es.map (relabelTid ρ)) = .ok w' ∧ w'.report = w.report := by
  have := drunT_ren hinj (w := initState) (fun b hb => by cases hb)
    (fun e he l t hlt => mem_tidLocs he hlt) h
  exact ⟨renState ρ w, this, rfl⟩

/-- a stream handled without error within the strengthened discipline, from the empty report -/
def DisciplinedT (es : List Event) : Prop := ∃ w, drunT initState es = .ok w

/-- the side condition of the thread-id re-labelling: injective on the (location, thread id) pairs of the stream, or — more
    generally — keeping every lookup on the same binding -/
def TidOk (ρ : Loc → Nat → Nat) (es : List Event) : Prop := TidInjOn ρ es ∨ tidSimB ρ es = true

theorem drunT_relabelTid_ok {ρ : Loc → Nat → Nat} {es : List Event} (hok : TidOk ρ es) {w : WriterState}
    (h : drunT initState es = .ok w) :
    ∃ w', drunT initState (es.map (relabelTid ρ)) = .ok w' ∧ w'.report = w.report := by
  rcases hok with hinj | hsim
  · exact drunT_relabelTid hinj h
  · exact drunT_relabelTid_sim hsim h

end LccModel.Writer

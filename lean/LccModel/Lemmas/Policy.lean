/-
  Helper lemmas about the metadata-policy model (`Model/Policy.lean`).  Core Lean only.
-/
import LccModel.Model.Policy
import LccModel.Lemmas.Loops

namespace LccModel.Policy
open LccModel.Loops

theorem seqE_ok_iff {ε : Type} (a b : Except ε Unit) : seqE a b = .ok () ↔ a = .ok () ∧ b = .ok () := by
  unfold seqE
  cases a with
  | error e => simp
  | ok u => cases u; simp

theorem seqE_error {ε : Type} {a b : Except ε Unit} {e : ε} (h : seqE a b = .error e) :
    a = .error e ∨ b = .error e := by
  unfold seqE at h
  cases a with
  | error e' => simp at h; exact .inl (by rw [h])
  | ok u => cases u; exact .inr h

/-- `self._properties[k]` / `self._tags[k]` -/
def findProp (P : Policy) (k : String) : Option PropRule := P.props.find? (fun r => decide (r.name = k))
def findTag (P : Policy) (k : String) : Option TagRule := P.tags.find? (fun r => decide (r.name = k))

/-- the policy's rules live in dicts: rule names are distinct -/
structure WF (P : Policy) : Prop where
  props : (P.props.map (·.name)).Nodup
  tags : (P.tags.map (·.name)).Nodup

/-- Declarative reading of the metadata policy for one node. -/
def Compliant (P : Policy) (n : Node) : Prop :=
  (∀ kv ∈ n.props, match findProp P kv.1 with
      | none => P.noUnknownProps = false
      | some r => r.on n.type = true ∧ (r.values = [] ∨ kv.2 ∈ r.values)) ∧
  (∀ r ∈ P.props, r.on n.type = true → r.required = true → r.name ∈ n.props.map (·.1)) ∧
  (∀ t ∈ n.tags, match findTag P t with
      | none => P.noUnknownTags = false
      | some r => r.on n.type = true)

theorem checkNode_ok_iff (P : Policy) (wf : WF P) (n : Node) : checkNode P n = .ok () ↔ Compliant P n := by
  unfold checkNode Compliant
  simp only [seqE_ok_iff]
  have hfp : ∀ k r, findProp P k = some r ↔ r ∈ P.props ∧ r.name = k :=
    fun k r => find_eq_some_iff_of_nodup PropRule.name P.props wf.props k r
  have hft : ∀ k r, findTag P k = some r ↔ r ∈ P.tags ∧ r.name = k :=
    fun k r => find_eq_some_iff_of_nodup TagRule.name P.tags wf.tags k r
  have hfa : ∀ k r, (availableProps P n.type).find? (fun r => decide (r.name = k)) = some r ↔
      (r ∈ P.props ∧ r.on n.type = true) ∧ r.name = k := by
    intro k r
    have := find_eq_some_iff_of_nodup PropRule.name (availableProps P n.type)
      (nodup_map_filter PropRule.name _ _ wf.props) k r
    rw [this]
    simp [availableProps, List.mem_filter]
  constructor
  · rintro ⟨h1, h2, h3, h4, h5, h6⟩
    refine ⟨?_, ?_, ?_⟩
    · intro kv hkv
      cases hf : findProp P kv.1 with
      | none =>
        simp only
        cases hu : P.noUnknownProps with
        | false => rfl
        | true =>
          exfalso
          rw [hu] at h1; simp only [if_true] at h1
          have := (forE_ok_iff _ _).mp h1 kv hkv
          split at this
          · rename_i hin
            simp only [availableProps, List.mem_map, List.mem_filter] at hin
            obtain ⟨r, ⟨hr, _⟩, hn⟩ := hin
            exact (find_eq_none_iff PropRule.name P.props kv.1).mp hf r hr hn
          · cases this
      | some r =>
        simp only
        obtain ⟨hr, hn⟩ := (hfp _ _).mp hf
        have hon : r.on n.type = true := by
          cases hon : r.on n.type with
          | true => rfl
          | false =>
            exfalso
            have := (forE_ok_iff _ _).mp h2 kv hkv
            split at this
            · cases this
            · rename_i hnot
              apply hnot
              simp only [forbiddenProps, List.mem_map, List.mem_filter]
              exact ⟨r, ⟨hr, by simp [hon]⟩, hn⟩
        refine ⟨hon, ?_⟩
        have := (forE_ok_iff _ _).mp h4 kv hkv
        rw [(hfa kv.1 r).mpr ⟨⟨hr, hon⟩, hn⟩] at this
        simp only at this
        split at this
        · cases this
        · rename_i hc
          by_cases hv : r.values = []
          · exact .inl hv
          · right
            apply Classical.byContradiction
            intro hnot
            exact hc ⟨hv, hnot⟩
    · intro r hr hon hreq
      have := (forE_ok_iff _ _).mp h3 r (by simp [availableProps, List.mem_filter, hr, hon, hreq])
      split at this
      · assumption
      · cases this
    · intro t ht
      cases hf : findTag P t with
      | none =>
        simp only
        cases hu : P.noUnknownTags with
        | false => rfl
        | true =>
          exfalso
          rw [hu] at h5; simp only [if_true] at h5
          have := (forE_ok_iff _ _).mp h5 t ht
          split at this
          · rename_i hin
            simp only [availableTags, List.mem_map, List.mem_filter] at hin
            obtain ⟨r, ⟨hr, _⟩, hn⟩ := hin
            exact (find_eq_none_iff TagRule.name P.tags t).mp hf r hr hn
          · cases this
      | some r =>
        simp only
        obtain ⟨hr, hn⟩ := (hft _ _).mp hf
        cases hon : r.on n.type with
        | true => rfl
        | false =>
          exfalso
          have := (forE_ok_iff _ _).mp h6 t ht
          split at this
          · cases this
          · rename_i hnot
            apply hnot
            simp only [forbiddenTags, List.mem_map, List.mem_filter]
            exact ⟨r, ⟨hr, by simp [hon]⟩, hn⟩
  · rintro ⟨hp, hreq, htg⟩
    refine ⟨?_, ?_, ?_, ?_, ?_, ?_⟩
    · split
      · rename_i hu
        rw [forE_ok_iff]
        intro kv hkv
        have := hp kv hkv
        cases hf : findProp P kv.1 with
        | none => rw [hf] at this; simp only at this; rw [hu] at this; cases this
        | some r =>
          rw [hf] at this; simp only at this
          obtain ⟨hr, hn⟩ := (hfp _ _).mp hf
          rw [if_pos]
          simp only [availableProps, List.mem_map, List.mem_filter]
          exact ⟨r, ⟨hr, this.1⟩, hn⟩
      · rfl
    · rw [forE_ok_iff]
      intro kv hkv
      rw [if_neg]
      intro hin
      simp only [forbiddenProps, List.mem_map, List.mem_filter] at hin
      obtain ⟨r, ⟨hr, hoff⟩, hn⟩ := hin
      have := hp kv hkv
      rw [(hfp kv.1 r).mpr ⟨hr, hn⟩] at this
      simp only at this
      rw [this.1] at hoff; simp at hoff
    · rw [forE_ok_iff]
      intro r hr
      simp only [availableProps, List.mem_filter] at hr
      rw [if_pos (hreq r hr.1.1 hr.1.2 hr.2)]
    · rw [forE_ok_iff]
      intro kv hkv
      cases hf : (availableProps P n.type).find? (fun r => decide (r.name = kv.1)) with
      | none => rfl
      | some r =>
        simp only
        obtain ⟨⟨hr, hon⟩, hn⟩ := (hfa _ _).mp hf
        have := hp kv hkv
        rw [(hfp kv.1 r).mpr ⟨hr, hn⟩] at this
        simp only at this
        rw [if_neg]
        rintro ⟨hv, hnot⟩
        rcases this.2 with h | h
        · exact hv h
        · exact hnot h
    · split
      · rename_i hu
        rw [forE_ok_iff]
        intro t ht
        have := htg t ht
        cases hf : findTag P t with
        | none => rw [hf] at this; simp only at this; rw [hu] at this; cases this
        | some r =>
          rw [hf] at this; simp only at this
          obtain ⟨hr, hn⟩ := (hft _ _).mp hf
          rw [if_pos]
          simp only [availableTags, List.mem_map, List.mem_filter]
          exact ⟨r, ⟨hr, this⟩, hn⟩
      · rfl
    · rw [forE_ok_iff]
      intro t ht
      rw [if_neg]
      intro hin
      simp only [forbiddenTags, List.mem_map, List.mem_filter] at hin
      obtain ⟨r, ⟨hr, hoff⟩, hn⟩ := hin
      have := htg t ht
      rw [(hft t r).mpr ⟨hr, hn⟩] at this
      simp only at this
      rw [this] at hoff; simp at hoff

end LccModel.Policy

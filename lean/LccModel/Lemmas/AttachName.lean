/-
  Lemmas about the attachment name function (`Model/AttachName.lean`): the numeral is recovered from the stored
  name (`value_pad4_digits`), it contains no `_`, hence the stored name determines BOTH the counter and the given
  name.  Core Lean only.
-/
import LccModel.Model.AttachName

namespace LccModel.AttachName

theorem charVal_digitChar {d : Nat} (h : d < 10) : charVal (digitChar d) = d := by
  match d, h with
  | 0, _ => rfl | 1, _ => rfl | 2, _ => rfl | 3, _ => rfl | 4, _ => rfl
  | 5, _ => rfl | 6, _ => rfl | 7, _ => rfl | 8, _ => rfl | 9, _ => rfl

theorem digitChar_ne_underscore (d : Nat) : digitChar d ≠ '_' := by
  unfold digitChar; split <;> decide

theorem value_snoc (xs : List Char) (c : Char) : value (xs ++ [c]) = 10 * value xs + charVal c := by
  simp [value, List.foldl_append]

theorem value_digitsF : ∀ (fuel n : Nat), n < fuel → value (digitsF fuel n) = n
  | 0, _, h => by omega
  | fuel + 1, n, h => by
    unfold digitsF
    split
    · rename_i h10
      simp [value, charVal_digitChar h10]
    · rename_i h10
      rw [value_snoc, value_digitsF fuel (n / 10) (by omega), charVal_digitChar (by omega)]
      omega

theorem value_digits (n : Nat) : value (digits n) = n := value_digitsF _ _ (by omega)

theorem foldl_zeros (k : Nat) : List.foldl (fun a c => 10 * a + charVal c) 0 (List.replicate k '0') = 0 := by
  induction k with
  | zero => rfl
  | succ k ih => simpa [List.replicate_succ, charVal] using ih

theorem value_pad4 (ds : List Char) : value (pad4 ds) = value ds := by
  simp [value, pad4, List.foldl_append, foldl_zeros]

theorem value_pad4_digits (n : Nat) : value (pad4 (digits n)) = n := by rw [value_pad4, value_digits]

theorem digitsF_no_underscore : ∀ (fuel n : Nat), '_' ∉ digitsF fuel n
  | 0, _ => by simp [digitsF]
  | fuel + 1, n => by
    unfold digitsF
    split
    · simp [Ne.symm (digitChar_ne_underscore n)]
    · simp only [List.mem_append, List.mem_singleton, not_or]
      exact ⟨digitsF_no_underscore fuel _, Ne.symm (digitChar_ne_underscore _)⟩

theorem pad4_digits_no_underscore (n : Nat) : '_' ∉ pad4 (digits n) := by
  simp only [pad4, List.mem_append, List.mem_replicate, not_or]
  exact ⟨fun h => absurd h.2 (by decide), digitsF_no_underscore _ _⟩

/-- a separator that occurs in neither prefix splits a list in one way only -/
theorem append_cons_inj {α : Type} {a : α} : ∀ {xs xs' ys ys' : List α}, a ∉ xs → a ∉ xs' →
    xs ++ a :: ys = xs' ++ a :: ys' → xs = xs' ∧ ys = ys'
  | [], [], _, _, _, _, h => by simpa using h
  | [], x' :: xs', _, _, _, h', h => by
    simp only [List.nil_append, List.cons_append, List.cons.injEq] at h
    exact absurd (by simp [h.1]) h'
  | x :: xs, [], _, _, h', _, h => by
    simp only [List.nil_append, List.cons_append, List.cons.injEq] at h
    exact absurd (by simp [h.1]) h'
  | x :: xs, x' :: xs', ys, ys', hx, hx', h => by
    simp only [List.cons_append, List.cons.injEq] at h
    have := append_cons_inj (xs := xs) (xs' := xs') (fun m => hx (List.mem_cons_of_mem _ m))
      (fun m => hx' (List.mem_cons_of_mem _ m)) h.2
    exact ⟨by rw [h.1, this.1], this.2⟩

theorem stored_inj {n m : Nat} {f g : List Char} (h : stored n f = stored m g) : n = m ∧ f = g := by
  have := append_cons_inj (pad4_digits_no_underscore n) (pad4_digits_no_underscore m) h
  refine ⟨?_, this.2⟩
  have hv := congrArg value this.1
  rwa [value_pad4_digits, value_pad4_digits] at hv

end LccModel.AttachName

/-
  Helper lemmas for C10 (`Props/C10.lean`): reflexivity / transitivity of `Prefix`, the frame lemmas of
  the writer's handlers ("a handler changes only what it targets, and only by extending it"), the
  file-session invariant and the file-system lemmas.
-/
import LccModel.Model.Saving

namespace LccModel.Saving
open LccModel.Report LccModel.Writer

/-! ### `listPrefixB` -/

theorem listPrefixB_refl {α : Type} {R : α → α → Bool} (h : ∀ x, R x x = true) :
    ∀ xs, listPrefixB R xs xs = true
  | [] => rfl
  | x :: xs => by simp [listPrefixB, h x, listPrefixB_refl h xs]

theorem listPrefixB_trans {α : Type} {R : α → α → Bool}
    (h : ∀ x y z, R x y = true → R y z = true → R x z = true) :
    ∀ xs ys zs, listPrefixB R xs ys = true → listPrefixB R ys zs = true → listPrefixB R xs zs = true
  | [], _, _, _, _ => by simp [listPrefixB]
  | _ :: _, [], _, h1, _ => by simp [listPrefixB] at h1
  | _ :: _, _ :: _, [], _, h2 => by simp [listPrefixB] at h2
  | x :: xs, y :: ys, z :: zs, h1, h2 => by
    simp only [listPrefixB, Bool.and_eq_true] at h1 h2 ⊢
    exact ⟨h x y z h1.1 h2.1, listPrefixB_trans h xs ys zs h1.2 h2.2⟩

theorem listPrefixB_append {α : Type} {R : α → α → Bool} (h : ∀ x, R x x = true) :
    ∀ xs ys, listPrefixB R xs (xs ++ ys) = true
  | [], _ => rfl
  | x :: xs, ys => by simp [listPrefixB, h x, listPrefixB_append h xs ys]

theorem listPrefixB_modifyNth {α : Type} {R : α → α → Bool} (h : ∀ x, R x x = true) (f : α → α) :
    ∀ (n : Nat) (xs : List α), (∀ x, xs[n]? = some x → R x (f x) = true) →
      listPrefixB R xs (modifyNth f n xs) = true
  | _, [], _ => rfl
  | 0, x :: xs, hx => by
    simp only [modifyNth, listPrefixB, Bool.and_eq_true]
    exact ⟨hx x (by simp), listPrefixB_refl h xs⟩
  | n + 1, x :: xs, hx => by
    simp only [modifyNth, listPrefixB, Bool.and_eq_true]
    exact ⟨h x, listPrefixB_modifyNth h f n xs (fun y hy => hx y (by simpa using hy))⟩

theorem listPrefixB_modifyFirst {α ε : Type} {R : α → α → Bool} (h : ∀ x, R x x = true)
    (p : α → Bool) (f : α → Except ε α) (nf : ε) :
    ∀ (xs ys : List α), modifyFirst p f nf xs = .ok ys →
      (∀ x y, xs.find? p = some x → f x = .ok y → R x y = true) → listPrefixB R xs ys = true
  | [], _, hm, _ => by simp [modifyFirst] at hm
  | x :: xs, ys, hm, hx => by
    simp only [modifyFirst] at hm
    by_cases hp : p x = true
    · simp only [hp, if_true] at hm
      cases hf : f x with
      | error e => rw [hf] at hm; cases hm
      | ok y =>
        rw [hf] at hm
        injection hm with hm
        subst hm
        simp only [listPrefixB, Bool.and_eq_true]
        exact ⟨hx x y (by simp [List.find?, hp]) hf, listPrefixB_refl h xs⟩
    · simp only [hp] at hm
      cases hr : modifyFirst p f nf xs with
      | error e => rw [hr] at hm; simp at hm
      | ok zs =>
        rw [hr] at hm
        simp only [Bool.false_eq_true, if_false] at hm
        injection hm with hm
        subst hm
        simp only [listPrefixB, Bool.and_eq_true]
        refine ⟨h x, listPrefixB_modifyFirst h p f nf xs zs hr (fun a b ha hb => hx a b ?_ hb)⟩
        simp only [Bool.not_eq_true] at hp
        simp [List.find?, hp, ha]

/-- `dictSet` with a key that is not there yet appends -/
theorem dictSet_new {α : Type} (key : α → String) (x : α) :
    ∀ xs : List α, (xs.all (fun y => key y != key x)) = true → dictSet key x xs = xs ++ [x]
  | [], _ => rfl
  | y :: ys, h => by
    simp only [List.all_cons, Bool.and_eq_true, bne_iff_ne, ne_eq] at h
    have hne : (key y == key x) = false := by simpa using h.1
    simp only [dictSet, hne, Bool.false_eq_true, if_false, List.cons_append]
    rw [dictSet_new key x ys (by simpa using h.2)]

/-! ### reflexivity -/

theorem optTimePrefixB_refl : ∀ t, optTimePrefixB t t = true
  | none => rfl
  | some _ => by simp [optTimePrefixB]

theorem entries_refl (es : List Entry) : listPrefixB (fun x y => decide (x = y)) es es = true :=
  listPrefixB_refl (by simp) es

theorem stepPrefixB_refl (s : Step) : stepPrefixB s s = true := by
  unfold stepPrefixB
  split <;> simp [entries_refl]

theorem resultPrefixB_refl (x : Result) : resultPrefixB x x = true := by
  unfold resultPrefixB
  split <;> simp [listPrefixB_refl stepPrefixB_refl]

theorem optResultPrefixB_refl : ∀ o, optResultPrefixB o o = true
  | none => rfl
  | some x => by simp [optResultPrefixB, resultPrefixB_refl]

theorem testPrefixB_refl (t : TestResult) : testPrefixB t t = true := by
  simp [testPrefixB, resultPrefixB_refl]

mutual
theorem beqSuite_refl : ∀ s, beqSuite s s = true
  | .mk md st en su td ts ss => by simp [beqSuite, beqSuites_refl ss]
theorem beqSuites_refl : ∀ ss, beqSuites ss ss = true
  | [] => rfl
  | s :: ss => by simp [beqSuites, beqSuite_refl s, beqSuites_refl ss]
end

mutual
theorem beqSuite_eq : ∀ a b, beqSuite a b = true → a = b
  | .mk md st en su td ts ss, .mk md' st' en' su' td' ts' ss', h => by
    simp only [beqSuite, Bool.and_eq_true, decide_eq_true_eq] at h
    obtain ⟨⟨⟨⟨⟨⟨h1, h2⟩, h3⟩, h4⟩, h5⟩, h6⟩, h7⟩ := h
    have := beqSuites_eq ss ss' h7
    subst h1 h2 h3 h4 h5 h6 this
    rfl
theorem beqSuites_eq : ∀ as bs, beqSuites as bs = true → as = bs
  | [], [], _ => rfl
  | a :: as, b :: bs, h => by
    simp only [beqSuites, Bool.and_eq_true] at h
    rw [beqSuite_eq a b h.1, beqSuites_eq as bs h.2]
  | [], _ :: _, h => by simp [beqSuites] at h
  | _ :: _, [], h => by simp [beqSuites] at h
end

mutual
theorem suitePrefixB_refl : ∀ s, suitePrefixB s s = true
  | .mk md st en su td ts ss => by
    unfold suitePrefixB
    split
    · simp [beqSuites_refl ss]
    · simp [optResultPrefixB_refl, listPrefixB_refl testPrefixB_refl, suitesPrefixB_refl ss]
theorem suitesPrefixB_refl : ∀ ss, suitesPrefixB ss ss = true
  | [] => by simp [suitesPrefixB]
  | s :: ss => by simp [suitesPrefixB, suitePrefixB_refl s, suitesPrefixB_refl ss]
end

theorem prefixB_refl (r : Report) : prefixB r r = true := by
  unfold prefixB
  split <;> simp [optTimePrefixB_refl, beqSuites_refl, optResultPrefixB_refl, suitesPrefixB_refl]

/-! ### transitivity -/

theorem optTimePrefixB_trans : ∀ a b c, optTimePrefixB a b = true → optTimePrefixB b c = true →
    optTimePrefixB a c = true
  | none, _, _, _, _ => rfl
  | some _, none, _, h, _ => by simp [optTimePrefixB] at h
  | some _, some _, none, _, h => by simp [optTimePrefixB] at h
  | some a, some b, some c, h1, h2 => by
    simp only [optTimePrefixB, beq_iff_eq] at *
    exact h1.trans h2

theorem entries_trans (a b c : List Entry) :
    listPrefixB (fun x y => decide (x = y)) a b = true → listPrefixB (fun x y => decide (x = y)) b c = true →
    listPrefixB (fun x y => decide (x = y)) a c = true :=
  listPrefixB_trans (by intro x y z h1 h2; simp only [decide_eq_true_eq] at *; exact h1.trans h2) a b c

theorem stepPrefixB_trans (a b c : Step) (h1 : stepPrefixB a b = true) (h2 : stepPrefixB b c = true) :
    stepPrefixB a c = true := by
  unfold stepPrefixB at h1 h2 ⊢
  by_cases ha : Step.finished a = true
  · simp only [ha, if_true, decide_eq_true_eq] at h1 ⊢
    subst h1
    simpa [ha] using h2
  · simp only [ha, Bool.false_eq_true, if_false, Bool.and_eq_true, decide_eq_true_eq] at h1 ⊢
    by_cases hb : Step.finished b = true
    · simp only [hb, if_true, decide_eq_true_eq] at h2
      subst h2
      exact h1
    · simp only [hb, Bool.false_eq_true, if_false, Bool.and_eq_true, decide_eq_true_eq] at h2
      exact ⟨⟨h1.1.1.trans h2.1.1, h1.1.2.trans h2.1.2⟩, entries_trans _ _ _ h1.2 h2.2⟩

theorem resultPrefixB_trans (a b c : Result) (h1 : resultPrefixB a b = true) (h2 : resultPrefixB b c = true) :
    resultPrefixB a c = true := by
  unfold resultPrefixB at h1 h2 ⊢
  by_cases ha : Result.finished a = true
  · simp only [ha, if_true, decide_eq_true_eq] at h1 ⊢
    subst h1
    simpa [ha] using h2
  · simp only [ha, Bool.false_eq_true, if_false, Bool.and_eq_true, decide_eq_true_eq] at h1 ⊢
    by_cases hb : Result.finished b = true
    · simp only [hb, if_true, decide_eq_true_eq] at h2
      subst h2
      exact h1
    · simp only [hb, Bool.false_eq_true, if_false, Bool.and_eq_true, decide_eq_true_eq] at h2
      exact ⟨⟨h1.1.1.trans h2.1.1, h1.1.2.trans h2.1.2⟩,
        listPrefixB_trans stepPrefixB_trans _ _ _ h1.2 h2.2⟩

theorem optResultPrefixB_trans : ∀ a b c, optResultPrefixB a b = true → optResultPrefixB b c = true →
    optResultPrefixB a c = true
  | none, _, _, _, _ => rfl
  | some _, none, _, h, _ => by simp [optResultPrefixB] at h
  | some _, some _, none, _, h => by simp [optResultPrefixB] at h
  | some a, some b, some c, h1, h2 => by
    simp only [optResultPrefixB] at *
    exact resultPrefixB_trans a b c h1 h2

theorem testPrefixB_trans (a b c : TestResult) (h1 : testPrefixB a b = true) (h2 : testPrefixB b c = true) :
    testPrefixB a c = true := by
  simp only [testPrefixB, Bool.and_eq_true, decide_eq_true_eq] at *
  exact ⟨h1.1.trans h2.1, resultPrefixB_trans _ _ _ h1.2 h2.2⟩

mutual
theorem suitePrefixB_trans : ∀ a b c, suitePrefixB a b = true → suitePrefixB b c = true → suitePrefixB a c = true
  | .mk md st en su td ts ss, .mk md' st' en' su' td' ts' ss', .mk md'' st'' en'' su'' td'' ts'' ss'', h1, h2 => by
    unfold suitePrefixB at h1 h2 ⊢
    by_cases ha : en.isSome = true
    · simp only [ha, if_true, Bool.and_eq_true, decide_eq_true_eq] at h1 ⊢
      obtain ⟨⟨⟨⟨⟨⟨e1, e2⟩, e3⟩, e4⟩, e5⟩, e6⟩, e7⟩ := h1
      have e7 := beqSuites_eq _ _ e7
      subst e1 e2 e3 e4 e5 e6 e7
      simpa [ha] using h2
    · simp only [ha, Bool.false_eq_true, if_false, Bool.and_eq_true, decide_eq_true_eq] at h1 ⊢
      obtain ⟨⟨⟨⟨⟨e1, e2⟩, e3⟩, e4⟩, e5⟩, e6⟩ := h1
      by_cases hb : en'.isSome = true
      · simp only [hb, if_true, Bool.and_eq_true, decide_eq_true_eq] at h2
        obtain ⟨⟨⟨⟨⟨⟨f1, f2⟩, f3⟩, f4⟩, f5⟩, f6⟩, f7⟩ := h2
        have f7 := beqSuites_eq _ _ f7
        subst f1 f2 f3 f4 f5 f6 f7
        exact ⟨⟨⟨⟨⟨e1, e2⟩, e3⟩, e4⟩, e5⟩, e6⟩
      · simp only [hb, Bool.false_eq_true, if_false, Bool.and_eq_true, decide_eq_true_eq] at h2
        obtain ⟨⟨⟨⟨⟨f1, f2⟩, f3⟩, f4⟩, f5⟩, f6⟩ := h2
        exact ⟨⟨⟨⟨⟨e1.trans f1, e2.trans f2⟩, optResultPrefixB_trans _ _ _ e3 f3⟩,
          optResultPrefixB_trans _ _ _ e4 f4⟩, listPrefixB_trans testPrefixB_trans _ _ _ e5 f5⟩,
          suitesPrefixB_trans _ _ _ e6 f6⟩
theorem suitesPrefixB_trans : ∀ as bs cs, suitesPrefixB as bs = true → suitesPrefixB bs cs = true →
    suitesPrefixB as cs = true
  | [], _, _, _, _ => by simp [suitesPrefixB]
  | _ :: _, [], _, h1, _ => by simp [suitesPrefixB] at h1
  | _ :: _, _ :: _, [], _, h2 => by simp [suitesPrefixB] at h2
  | a :: as, b :: bs, c :: cs, h1, h2 => by
    simp only [suitesPrefixB, Bool.and_eq_true] at h1 h2 ⊢
    exact ⟨suitePrefixB_trans a b c h1.1 h2.1, suitesPrefixB_trans as bs cs h1.2 h2.2⟩
end

theorem prefixB_trans (a b c : Report) (h1 : prefixB a b = true) (h2 : prefixB b c = true) :
    prefixB a c = true := by
  unfold prefixB at h1 h2 ⊢
  simp only [Bool.and_eq_true, decide_eq_true_eq] at h1 h2 ⊢
  obtain ⟨⟨⟨a1, a2⟩, a3⟩, a5⟩ := h1
  obtain ⟨⟨⟨b1, b2⟩, b3⟩, b5⟩ := h2
  refine ⟨⟨⟨a1.trans b1, a2.trans b2⟩, a3.trans b3⟩, ?_⟩
  by_cases ha : a.endTime.isSome = true
  · simp only [ha, if_true, Bool.and_eq_true, decide_eq_true_eq] at a5 ⊢
    obtain ⟨⟨⟨⟨e0, e1⟩, e2⟩, e3⟩, e4⟩ := a5
    have hb : b.endTime.isSome = true := by rw [← e1]; exact ha
    simp only [hb, if_true, Bool.and_eq_true, decide_eq_true_eq] at b5
    obtain ⟨⟨⟨⟨f0, f1⟩, f2⟩, f3⟩, f4⟩ := b5
    have e4 := beqSuites_eq _ _ e4
    refine ⟨⟨⟨⟨e0.trans f0, e1.trans f1⟩, e2.trans f2⟩, e3.trans f3⟩, ?_⟩
    rw [e4]; exact f4
  · simp only [ha, Bool.false_eq_true, if_false, Bool.and_eq_true] at a5 ⊢
    obtain ⟨⟨⟨e0, e1⟩, e2⟩, e3⟩ := a5
    by_cases hb : b.endTime.isSome = true
    · simp only [hb, if_true, Bool.and_eq_true, decide_eq_true_eq] at b5
      obtain ⟨⟨⟨⟨f0, _⟩, f2⟩, f3⟩, f4⟩ := b5
      have f4 := beqSuites_eq _ _ f4
      rw [← f0, ← f2, ← f3, ← f4]
      exact ⟨⟨⟨e0, e1⟩, e2⟩, e3⟩
    · simp only [hb, Bool.false_eq_true, if_false, Bool.and_eq_true] at b5
      obtain ⟨⟨⟨f0, f1⟩, f2⟩, f3⟩ := b5
      exact ⟨⟨⟨optTimePrefixB_trans _ _ _ e0 f0, optResultPrefixB_trans _ _ _ e1 f1⟩,
        optResultPrefixB_trans _ _ _ e2 f2⟩, suitesPrefixB_trans _ _ _ e3 f3⟩

/-! ### building blocks: a suite / report whose parts were extended -/

theorem suitesPrefixB_eq : ∀ as bs, suitesPrefixB as bs = listPrefixB suitePrefixB as bs
  | [], _ => by simp [suitesPrefixB, listPrefixB]
  | _ :: _, [] => by simp [suitesPrefixB, listPrefixB]
  | a :: as, b :: bs => by simp [suitesPrefixB, listPrefixB, suitesPrefixB_eq as bs]

/-- an open suite whose parts were extended (its end time may have been set) -/
theorem suitePrefixB_open (md : Meta) (st en' : Option Time) (su su' td td' : Option Result)
    (ts ts' : List TestResult) (ss ss' : List SuiteResult)
    (h1 : optResultPrefixB su su' = true) (h2 : optResultPrefixB td td' = true)
    (h3 : listPrefixB testPrefixB ts ts' = true) (h4 : suitesPrefixB ss ss' = true) :
    suitePrefixB (.mk md st none su td ts ss) (.mk md st en' su' td' ts' ss') = true := by
  unfold suitePrefixB
  simp [h1, h2, h3, h4]

theorem tests_refl (ts : List TestResult) : listPrefixB testPrefixB ts ts = true :=
  listPrefixB_refl testPrefixB_refl ts

theorem suitePrefixB_setSuites (s : SuiteResult) (sub : List SuiteResult) (ho : s.endTime = none)
    (h : suitesPrefixB s.suites sub = true) : suitePrefixB s (s.setSuites sub) = true := by
  cases s with
  | mk md st en su td ts ss =>
    simp only [SuiteResult.endTime] at ho
    subst ho
    exact suitePrefixB_open _ _ _ _ _ _ _ _ _ _ _ (optResultPrefixB_refl _) (optResultPrefixB_refl _) (tests_refl _) h

theorem suitePrefixB_setTests (s : SuiteResult) (ts' : List TestResult) (ho : s.endTime = none)
    (h : listPrefixB testPrefixB s.tests ts' = true) : suitePrefixB s (s.setTests ts') = true := by
  cases s with
  | mk md st en su td ts ss =>
    simp only [SuiteResult.endTime] at ho
    subst ho
    exact suitePrefixB_open _ _ _ _ _ _ _ _ _ _ _ (optResultPrefixB_refl _) (optResultPrefixB_refl _) h
      (suitesPrefixB_refl _)

theorem suitePrefixB_setSetup (s : SuiteResult) (su' : Option Result) (ho : s.endTime = none)
    (h : optResultPrefixB s.setup su' = true) : suitePrefixB s (s.setSetup su') = true := by
  cases s with
  | mk md st en su td ts ss =>
    simp only [SuiteResult.endTime] at ho
    subst ho
    exact suitePrefixB_open _ _ _ _ _ _ _ _ _ _ _ h (optResultPrefixB_refl _) (tests_refl _) (suitesPrefixB_refl _)

theorem suitePrefixB_setTeardown (s : SuiteResult) (td' : Option Result) (ho : s.endTime = none)
    (h : optResultPrefixB s.teardown td' = true) : suitePrefixB s (s.setTeardown td') = true := by
  cases s with
  | mk md st en su td ts ss =>
    simp only [SuiteResult.endTime] at ho
    subst ho
    exact suitePrefixB_open _ _ _ _ _ _ _ _ _ _ _ (optResultPrefixB_refl _) h (tests_refl _) (suitesPrefixB_refl _)

theorem suitePrefixB_setEndTime (s : SuiteResult) (en' : Option Time) (ho : s.endTime = none) :
    suitePrefixB s (s.setEndTime en') = true := by
  cases s with
  | mk md st en su td ts ss =>
    simp only [SuiteResult.endTime] at ho
    subst ho
    exact suitePrefixB_open _ _ _ _ _ _ _ _ _ _ _ (optResultPrefixB_refl _) (optResultPrefixB_refl _) (tests_refl _)
      (suitesPrefixB_refl _)

/-- a report of a session that has not ended, whose parts were extended -/
theorem prefixB_open (r r' : Report) (h0 : r.endTime = none) (h1 : r.title = r'.title) (h2 : r.info = r'.info)
    (h3 : r.nbThreads = r'.nbThreads) (h4 : optTimePrefixB r.startTime r'.startTime = true)
    (h5 : optResultPrefixB r.setup r'.setup = true) (h6 : optResultPrefixB r.teardown r'.teardown = true)
    (h7 : suitesPrefixB r.suites r'.suites = true) : prefixB r r' = true := by
  unfold prefixB
  simp [h0, h1, h2, h3, h4, h5, h6, h7]

theorem isNone_eq {α : Type} {o : Option α} (h : o.isNone = true) : o = none := by
  cases o <;> simp_all

/-! ### lifting a local extension through `modifySuite` / `modifyResult` -/

/-- `modifySuite` under `suiteOpen`: if the modification of the target suite is an extension, the whole
    forest is extended (every suite on the way is open, every other suite is untouched). -/
theorem modifySuite_prefix (f : SuiteResult → Except WriterErr SuiteResult) (g : SuiteResult → Bool)
    (hf : ∀ s s', s.endTime = none → g s = true → f s = .ok s' → suitePrefixB s s' = true) :
    ∀ (p : Path) (ss ss' : List SuiteResult), suiteOpen g p ss = true → modifySuite f p ss = .ok ss' →
      suitesPrefixB ss ss' = true
  | [], _, _, ho, _ => by simp [suiteOpen] at ho
  | [n], ss, ss', ho, hm => by
    rw [suitesPrefixB_eq]
    simp only [modifySuite] at hm
    refine listPrefixB_modifyFirst suitePrefixB_refl _ _ _ ss ss' hm ?_
    intro x y hx hy
    simp only [suiteOpen, hx, Bool.and_eq_true] at ho
    exact hf x y (isNone_eq ho.1) ho.2 hy
  | n :: m :: rest, ss, ss', ho, hm => by
    rw [suitesPrefixB_eq]
    simp only [modifySuite] at hm
    refine listPrefixB_modifyFirst suitePrefixB_refl _ _ _ ss ss' hm ?_
    intro x y hx hy
    simp only [suiteOpen, hx, Bool.and_eq_true] at ho
    cases hsub : modifySuite f (m :: rest) x.suites with
    | error e => rw [hsub] at hy; cases hy
    | ok sub =>
      rw [hsub] at hy
      injection hy with hy
      subst hy
      exact suitePrefixB_setSuites x sub (isNone_eq ho.1)
        (modifySuite_prefix f g hf (m :: rest) x.suites sub ho.2 hsub)

theorem liftSuites_ok {r : Report} {x : Except WriterErr (List SuiteResult)} {r' : Report}
    (h : liftSuites r x = .ok r') : ∃ ss, x = .ok ss ∧ r' = { r with suites := ss } := by
  cases x with
  | error e => simp [liftSuites] at h
  | ok ss => simp only [liftSuites] at h; injection h with h; exact ⟨ss, rfl, h.symm⟩

theorem prefixB_suites (r : Report) (ss : List SuiteResult) (h0 : r.endTime = none)
    (h : suitesPrefixB r.suites ss = true) : prefixB r { r with suites := ss } = true :=
  prefixB_open _ _ h0 rfl rfl rfl (optTimePrefixB_refl _) (optResultPrefixB_refl _) (optResultPrefixB_refl _) h

/-- `modifyResult` under `resultOpen`: an extension of the targeted result extends the report. -/
theorem modifyResult_prefix (f : Result → Except WriterErr Result) (g : Result → Bool)
    (hf : ∀ x y, g x = true → f x = .ok y → resultPrefixB x y = true)
    (loc : Loc) (r r' : Report) (h0 : r.endTime = none) (ho : resultOpen g loc r = true)
    (hm : modifyResult f loc r = .ok r') : prefixB r r' = true := by
  cases loc with
  | sessionSetup =>
    simp only [modifyResult] at hm
    simp only [resultOpen] at ho
    cases hs : r.setup with
    | none => rw [hs] at ho; simp [optResultIs] at ho
    | some x =>
      rw [hs] at ho hm
      simp only [optResultIs] at ho
      dsimp only at hm
      cases hfx : f x with
      | error e => rw [hfx] at hm; cases hm
      | ok y =>
        rw [hfx] at hm
        injection hm with hm
        subst hm
        refine prefixB_open _ _ h0 rfl rfl rfl (optTimePrefixB_refl _) ?_ (optResultPrefixB_refl _) (suitesPrefixB_refl _)
        rw [hs]
        exact hf x y ho hfx
  | sessionTeardown =>
    simp only [modifyResult] at hm
    simp only [resultOpen] at ho
    cases hs : r.teardown with
    | none => rw [hs] at ho; simp [optResultIs] at ho
    | some x =>
      rw [hs] at ho hm
      simp only [optResultIs] at ho
      dsimp only at hm
      cases hfx : f x with
      | error e => rw [hfx] at hm; cases hm
      | ok y =>
        rw [hfx] at hm
        injection hm with hm
        subst hm
        refine prefixB_open _ _ h0 rfl rfl rfl (optTimePrefixB_refl _) (optResultPrefixB_refl _) ?_ (suitesPrefixB_refl _)
        rw [hs]
        exact hf x y ho hfx
  | suiteSetup p =>
    simp only [modifyResult] at hm
    simp only [resultOpen] at ho
    obtain ⟨ss, hss, hr⟩ := liftSuites_ok hm
    subst hr
    refine prefixB_suites r ss h0 (modifySuite_prefix _ _ ?_ p r.suites ss ho hss)
    intro s s' hopen hg hfs
    cases hsu : s.setup with
    | none => rw [hsu] at hg; simp [optResultIs] at hg
    | some x =>
      rw [hsu] at hg hfs
      simp only [optResultIs] at hg
      dsimp only at hfs
      cases hfx : f x with
      | error e => rw [hfx] at hfs; cases hfs
      | ok y =>
        rw [hfx] at hfs
        injection hfs with hfs
        subst hfs
        refine suitePrefixB_setSetup s _ hopen ?_
        rw [hsu]
        exact hf x y hg hfx
  | suiteTeardown p =>
    simp only [modifyResult] at hm
    simp only [resultOpen] at ho
    obtain ⟨ss, hss, hr⟩ := liftSuites_ok hm
    subst hr
    refine prefixB_suites r ss h0 (modifySuite_prefix _ _ ?_ p r.suites ss ho hss)
    intro s s' hopen hg hfs
    cases hsu : s.teardown with
    | none => rw [hsu] at hg; simp [optResultIs] at hg
    | some x =>
      rw [hsu] at hg hfs
      simp only [optResultIs] at hg
      dsimp only at hfs
      cases hfx : f x with
      | error e => rw [hfx] at hfs; cases hfs
      | ok y =>
        rw [hfx] at hfs
        injection hfs with hfs
        subst hfs
        refine suitePrefixB_setTeardown s _ hopen ?_
        rw [hsu]
        exact hf x y hg hfx
  | test p =>
    simp only [modifyResult] at hm
    simp only [resultOpen] at ho
    obtain ⟨ss, hss, hr⟩ := liftSuites_ok hm
    subst hr
    simp only [modifyTest] at hss
    cases hl : p.getLast? with
    | none => rw [hl] at ho; simp at ho
    | some last =>
      rw [hl] at ho hss
      simp only at ho hss
      refine prefixB_suites r ss h0 (modifySuite_prefix _ _ ?_ p.dropLast r.suites ss ho hss)
      intro s s' hopen hg hfs
      split at hfs
      · rename_i ts hmt
        injection hfs with hfs
        subst hfs
        refine suitePrefixB_setTests s ts hopen
          (listPrefixB_modifyFirst testPrefixB_refl _ _ _ s.tests ts hmt ?_)
        intro t t' hfind hft
        rw [hfind] at hg
        dsimp only at hg hft
        split at hft
        · rename_i y hfx
          injection hft with hft
          subst hft
          simp only [testPrefixB, decide_true, Bool.true_and]
          exact hf _ y hg hfx
        · cases hft
      · cases hfs

/-! ### the handlers, one by one -/

theorem unfinished_finalize (t : Time) (x : Result) (h : unfinished x = true) :
    resultPrefixB x (finalizeResult t x) = true := by
  simp only [unfinished, Bool.not_eq_true'] at h
  unfold resultPrefixB
  simp [h, finalizeResult, listPrefixB_refl stepPrefixB_refl]

theorem unfinished_addStep (st : Step) (x : Result) (h : unfinished x = true) :
    resultPrefixB x { x with steps := x.steps ++ [st] } = true := by
  simp only [unfinished, Bool.not_eq_true'] at h
  unfold resultPrefixB
  simp [h, listPrefixB_append stepPrefixB_refl]

theorem openStep_modify (f : Step → Step)
    (hf : ∀ s, Step.finished s = false → stepPrefixB s (f s) = true)
    (idx : Nat) (x : Result) (h : (unfinished x && stepOpenAt idx x.steps) = true) :
    resultPrefixB x { x with steps := modifyNth f idx x.steps } = true := by
  simp only [Bool.and_eq_true, unfinished, Bool.not_eq_true'] at h
  unfold resultPrefixB
  simp only [h.1, Bool.false_eq_true, if_false, decide_true, Bool.true_and]
  refine listPrefixB_modifyNth stepPrefixB_refl f idx x.steps ?_
  intro s hs
  have h2 := h.2
  simp only [stepOpenAt, hs, Bool.not_eq_true'] at h2
  exact hf s h2

theorem setStepEnd_prefix (t : Time) (s : Step) (h : Step.finished s = false) :
    stepPrefixB s (setStepEnd t s) = true := by
  unfold stepPrefixB
  simp [h, setStepEnd, entries_refl]

theorem addEntry_prefix (e : Entry) (s : Step) (h : Step.finished s = false) :
    stepPrefixB s (addEntryToStep e s) = true := by
  unfold stepPrefixB
  simp [h, addEntryToStep, listPrefixB_append (R := fun x y => decide (x = y)) (by simp)]

theorem onReport_ok {w w' : WriterState} {x : Except WriterErr Report} (h : onReport w x = .ok w') :
    x = .ok w'.report := by
  cases x with
  | error e => simp [onReport] at h
  | ok r => simp only [onReport] at h; injection h with h; subst h; rfl

theorem onResultStart_ok {loc : Loc} {w w' : WriterState} {x : Except WriterErr Report}
    (h : onResultStart loc w x = .ok w') : x = .ok w'.report := by
  cases x with
  | error e => simp [onResultStart] at h
  | ok r => simp only [onResultStart] at h; injection h with h; subst h; rfl

theorem addEntryAt_ok {idx : Nat} {e : Entry} {x y : Result} (h : addEntryAt idx e x = .ok y) :
    y = { x with steps := modifyNth (addEntryToStep e) idx x.steps } := by
  unfold addEntryAt at h
  split at h
  · cases h
  · split at h
    · cases h
    · injection h with h; exact h.symm

/-- `_add_step_log` -/
theorem addEntry_report (w w' : WriterState) (loc : Loc) (tid : Nat) (e : Entry)
    (h0 : w.report.endTime = none) (hs : refOpen w tid = true) (h : addEntry w loc tid e = .ok w') :
    prefixB w.report w'.report = true := by
  unfold addEntry at h
  split at h
  · cases h
  · split at h
    · cases h
    · rename_i ref hl
      split at h
      · split at h
        · cases h
        · injection h with h; subst h; exact prefixB_refl _
      · rename_i l idx htg
        split at h
        · rename_i r' hm
          injection h with h
          subst h
          simp only [refOpen, hl, htg] at hs
          exact modifyResult_prefix _ _
            (fun x y hg hxy => by
              rw [addEntryAt_ok hxy]
              exact openStep_modify _ (addEntry_prefix e) idx x hg) l w.report r' h0 hs hm
        · cases h
        · cases h

/-- `add_test` of a test whose name is new in its (open) suite -/
theorem addTest_prefix (parent : Path) (tr : TestResult) (r r' : Report) (h0 : r.endTime = none)
    (hs : newTestOk parent tr.md.name r = true) (h : addTest parent tr r = .ok r') : prefixB r r' = true := by
  unfold addTest at h
  split at h
  · cases h
  · obtain ⟨ss, hss, hr⟩ := liftSuites_ok h
    subst hr
    refine prefixB_suites r ss h0 (modifySuite_prefix _ _ ?_ parent r.suites ss hs hss)
    intro s s' hopen hg hfs
    injection hfs with hfs
    subst hfs
    refine suitePrefixB_setTests s _ hopen ?_
    rw [dictSet_new (fun t => t.md.name) tr s.tests hg]
    exact listPrefixB_append testPrefixB_refl _ _

/-- One event: if it targets nothing finished, the report after the handler extends the report before. -/
theorem apply_prefix (w w' : WriterState) (e : Event) (hs : safe w e = true) (h : Writer.apply w e = .ok w') :
    prefixB w.report w'.report = true := by
  simp only [safe, Bool.and_eq_true] at hs
  obtain ⟨h0, hs⟩ := hs
  have h0 : w.report.endTime = none := isNone_eq h0
  cases e with
  | sessionStart t =>
    simp only [Writer.apply] at h
    injection h with h; subst h
    exact prefixB_open _ _ h0 rfl rfl rfl (by simp only [isNone_eq hs]; rfl) (optResultPrefixB_refl _)
      (optResultPrefixB_refl _) (suitesPrefixB_refl _)
  | sessionEnd t =>
    simp only [Writer.apply] at h
    injection h with h; subst h
    exact prefixB_open _ _ h0 rfl rfl rfl (optTimePrefixB_refl _) (optResultPrefixB_refl _)
      (optResultPrefixB_refl _) (suitesPrefixB_refl _)
  | sessionSetupStart t =>
    simp only [Writer.apply] at h
    injection h with h; subst h
    exact prefixB_open _ _ h0 rfl rfl rfl (optTimePrefixB_refl _) (by simp only [isNone_eq hs]; rfl)
      (optResultPrefixB_refl _) (suitesPrefixB_refl _)
  | sessionTeardownStart t =>
    simp only [Writer.apply] at h
    injection h with h; subst h
    exact prefixB_open _ _ h0 rfl rfl rfl (optTimePrefixB_refl _) (optResultPrefixB_refl _)
      (by simp only [isNone_eq hs]; rfl) (suitesPrefixB_refl _)
  | sessionSetupEnd t =>
    simp only [Writer.apply] at h
    exact modifyResult_prefix _ _
      (fun x y hg hxy => by injection hxy with hxy; subst hxy; exact unfinished_finalize t x hg)
      _ _ _ h0 hs (onReport_ok h)
  | sessionTeardownEnd t =>
    simp only [Writer.apply] at h
    exact modifyResult_prefix _ _
      (fun x y hg hxy => by injection hxy with hxy; subst hxy; exact unfinished_finalize t x hg)
      _ _ _ h0 hs (onReport_ok h)
  | suiteSetupEnd p t =>
    simp only [Writer.apply] at h
    exact modifyResult_prefix _ _
      (fun x y hg hxy => by injection hxy with hxy; subst hxy; exact unfinished_finalize t x hg)
      _ _ _ h0 hs (onReport_ok h)
  | suiteTeardownEnd p t =>
    simp only [Writer.apply] at h
    exact modifyResult_prefix _ _
      (fun x y hg hxy => by injection hxy with hxy; subst hxy; exact unfinished_finalize t x hg)
      _ _ _ h0 hs (onReport_ok h)
  | testEnd p t =>
    simp only [Writer.apply] at h
    exact modifyResult_prefix _ _
      (fun x y hg hxy => by injection hxy with hxy; subst hxy; exact unfinished_finalize t x hg)
      _ _ _ h0 hs (onReport_ok h)
  | suiteStart path md t =>
    simp only [Writer.apply] at h
    split at h
    · injection h with h; subst h
      refine prefixB_suites _ _ h0 ?_
      rw [suitesPrefixB_eq]
      exact listPrefixB_append suitePrefixB_refl _ _
    · rename_i parent hne
      have hs' : suiteOpen (fun _ => true) path.dropLast w.report.suites = true := by
        dsimp only at hs
        cases hd : path.dropLast with
        | nil => exact absurd hd hne
        | cons a b => rw [hd] at hs; exact hs
      obtain ⟨ss, hss, hr⟩ := liftSuites_ok (onReport_ok h)
      rw [hr]
      refine prefixB_suites _ ss h0 (modifySuite_prefix _ _ ?_ _ _ ss hs' hss)
      intro s s' hopen _ hfs
      injection hfs with hfs
      subst hfs
      refine suitePrefixB_setSuites s _ hopen ?_
      rw [suitesPrefixB_eq]
      exact listPrefixB_append suitePrefixB_refl _ _
  | suiteEnd path t =>
    simp only [Writer.apply] at h
    obtain ⟨ss, hss, hr⟩ := liftSuites_ok (onReport_ok h)
    rw [hr]
    refine prefixB_suites _ ss h0 (modifySuite_prefix _ _ ?_ _ _ ss hs hss)
    intro s s' hopen _ hfs
    injection hfs with hfs
    subst hfs
    exact suitePrefixB_setEndTime s _ hopen
  | suiteSetupStart path t =>
    simp only [Writer.apply] at h
    obtain ⟨ss, hss, hr⟩ := liftSuites_ok (onResultStart_ok h)
    rw [hr]
    refine prefixB_suites _ ss h0 (modifySuite_prefix _ _ ?_ _ _ ss hs hss)
    intro s s' hopen hg hfs
    injection hfs with hfs
    subst hfs
    refine suitePrefixB_setSetup s _ hopen ?_
    rw [isNone_eq hg]
    rfl
  | suiteTeardownStart path t =>
    simp only [Writer.apply] at h
    obtain ⟨ss, hss, hr⟩ := liftSuites_ok (onResultStart_ok h)
    rw [hr]
    refine prefixB_suites _ ss h0 (modifySuite_prefix _ _ ?_ _ _ ss hs hss)
    intro s s' hopen hg hfs
    injection hfs with hfs
    subst hfs
    refine suitePrefixB_setTeardown s _ hopen ?_
    rw [isNone_eq hg]
    rfl
  | testStart path md t =>
    simp only [Writer.apply] at h
    exact addTest_prefix _ (initTest md t) _ _ h0 hs (onResultStart_ok h)
  | testSkipped path md reason t =>
    simp only [Writer.apply] at h
    exact addTest_prefix _ (bypassTest md .skipped reason t) _ _ h0 hs (onResultStart_ok h)
  | testDisabled path md reason t =>
    simp only [Writer.apply] at h
    exact addTest_prefix _ (bypassTest md .disabled reason t) _ _ h0 hs (onResultStart_ok h)
  | stepStart loc d tid t =>
    simp only [Writer.apply] at h
    split at h
    · cases h
    · split at h
      · cases h
      · rename_i r' hm
        injection h with h
        subst h
        exact modifyResult_prefix _ _
          (fun x y hg hxy => by injection hxy with hxy; subst hxy; exact unfinished_addStep _ x hg)
          _ _ _ h0 hs hm
  | stepEnd loc d tid t =>
    simp only [Writer.apply] at h
    split at h
    · cases h
    · rename_i ref hl
      split at h
      · injection h with h; subst h; exact prefixB_refl _
      · rename_i l idx htg
        split at h
        · rename_i r' hm
          injection h with h
          subst h
          simp only [refOpen, hl, htg] at hs
          exact modifyResult_prefix _ _
            (fun x y hg hxy => by
              injection hxy with hxy
              subst hxy
              exact openStep_modify _ (setStepEnd_prefix t) idx x hg) l w.report r' h0 hs hm
        · cases h
  | log loc st tid level msg t =>
    simp only [Writer.apply] at h
    exact addEntry_report w w' loc tid _ h0 hs h
  | check loc st tid d ok det t =>
    simp only [Writer.apply] at h
    exact addEntry_report w w' loc tid _ h0 hs h
  | attachment loc st tid path d img t =>
    simp only [Writer.apply] at h
    exact addEntry_report w w' loc tid _ h0 hs h
  | url loc st tid u d t =>
    simp only [Writer.apply] at h
    exact addEntry_report w w' loc tid _ h0 hs h

/-! ### whole streams -/

theorem run_append : ∀ (a b : List Event) (w : WriterState),
    Writer.run w (a ++ b) = match Writer.run w a with
      | .ok w1 => Writer.run w1 b
      | .error e => .error e
  | [], _, _ => rfl
  | e :: a, b, w => by
    simp only [List.cons_append, Writer.run]
    cases Writer.apply w e with
    | error err => rfl
    | ok w' => exact run_append a b w'

theorem safeRun_append_left : ∀ (a b : List Event) (w : WriterState), safeRun w (a ++ b) = true → safeRun w a = true
  | [], _, _, _ => rfl
  | e :: a, b, w, h => by
    simp only [List.cons_append, safeRun, Bool.and_eq_true] at h ⊢
    refine ⟨h.1, ?_⟩
    have h2 := h.2
    cases hx : Writer.apply w e with
    | error err => rfl
    | ok w' => rw [hx] at h2; exact safeRun_append_left a b w' h2

theorem safeRun_append_right : ∀ (a b : List Event) (w w1 : WriterState), safeRun w (a ++ b) = true →
    Writer.run w a = .ok w1 → safeRun w1 b = true
  | [], _, _, _, h, hr => by simp only [Writer.run] at hr; injection hr with hr; subst hr; exact h
  | e :: a, b, w, w1, h, hr => by
    simp only [List.cons_append, safeRun, Bool.and_eq_true] at h
    simp only [Writer.run] at hr
    have h2 := h.2
    cases hx : Writer.apply w e with
    | error err => rw [hx] at hr; cases hr
    | ok w' => rw [hx] at hr h2; exact safeRun_append_right a b w' w1 h2 hr

/-- a whole safe stream only extends the report -/
theorem run_prefix : ∀ (es : List Event) (w w' : WriterState), safeRun w es = true → Writer.run w es = .ok w' →
    prefixB w.report w'.report = true
  | [], w, w', _, hr => by simp only [Writer.run] at hr; injection hr with hr; subst hr; exact prefixB_refl _
  | e :: es, w, w', h, hr => by
    simp only [safeRun, Bool.and_eq_true] at h
    simp only [Writer.run] at hr
    have h2 := h.2
    cases hx : Writer.apply w e with
    | error err => rw [hx] at hr; cases hr
    | ok w1 =>
      rw [hx] at hr h2
      exact prefixB_trans _ _ _ (apply_prefix w w1 e h.1 hx) (run_prefix es w1 w' h2 hr)

/-! ### the file session -/

theorem sessStep_ok {strat : Strategy} {clock : Nat → Nat} {s s' : Sess} {e : Event}
    (h : sessStep strat clock s e = .ok s') :
    ∃ w', Writer.apply s.w e = .ok w' ∧
      fileSessionHandle strat clock { s with w := w', handled := s.handled + 1 } e = .ok s' := by
  unfold sessStep at h
  split at h
  · cases h
  · rename_i w' hw; exact ⟨w', hw, h⟩

/-- the file session never touches the report or the event count; it may add one save of the current report -/
theorem fileSessionHandle_spec {strat : Strategy} {clock : Nat → Nat} {s1 s' : Sess} {e : Event}
    (h : fileSessionHandle strat clock s1 e = .ok s') :
    s'.w = s1.w ∧ s'.handled = s1.handled ∧
      (s'.saves = s1.saves ∨ s'.saves = (s1.handled, s1.w.report) :: s1.saves) := by
  unfold fileSessionHandle at h
  split at h
  · injection h with h; subst h; exact ⟨rfl, rfl, .inl rfl⟩
  · injection h with h; subst h; exact ⟨rfl, rfl, .inr rfl⟩
  · split at h
    · injection h with h; subst h; exact ⟨rfl, rfl, .inl rfl⟩
    · dsimp only at h
      cases hws : wantsSave strat e s1.w.report s1.lastSaved (clock s1.tick) with
      | none => rw [hws] at h; cases h
      | some b =>
        rw [hws] at h
        cases b
        · dsimp only at h
          injection h with h; subst h
          refine ⟨?_, ?_, .inl ?_⟩ <;> (split <;> rfl)
        · dsimp only at h
          injection h with h; subst h
          refine ⟨?_, ?_, .inr ?_⟩ <;> (simp only [Sess.save]; split <;> rfl)

/-- what one handled event does to the session state -/
theorem sessStep_spec {strat : Strategy} {clock : Nat → Nat} {s s' : Sess} {e : Event}
    (h : sessStep strat clock s e = .ok s') :
    Writer.apply s.w e = .ok s'.w ∧ s'.handled = s.handled + 1 ∧
      (s'.saves = s.saves ∨ s'.saves = (s.handled + 1, s'.w.report) :: s.saves) := by
  obtain ⟨w', hw, hf⟩ := sessStep_ok h
  obtain ⟨h1, h2, h3⟩ := fileSessionHandle_spec hf
  refine ⟨by rw [h1]; exact hw, h2, ?_⟩
  rw [h1]
  exact h3

/-- Invariant of the handler thread after the events `pre`: the writer holds the report of `pre`, and every
    completed save serialised the report of a prefix of `pre`. -/
structure SessInv (r0 : Report) (pre : List Event) (s : Sess) : Prop where
  handled : s.handled = pre.length
  writer : Writer.run (initState r0) pre = .ok s.w
  saves : ∀ k snap, (k, snap) ∈ s.saves →
    k ≤ pre.length ∧ ∃ wk, Writer.run (initState r0) (pre.take k) = .ok wk ∧ snap = wk.report

theorem sessInv_init (clock : Nat → Nat) (r0 : Report) : SessInv r0 [] (Sess.init clock r0) := by
  constructor
  · rfl
  · rfl
  · intro k snap h; simp [Sess.init] at h

theorem sessInv_step {strat : Strategy} {clock : Nat → Nat} {r0 : Report} {pre : List Event} {s s' : Sess}
    {e : Event} (inv : SessInv r0 pre s) (h : sessStep strat clock s e = .ok s') :
    SessInv r0 (pre ++ [e]) s' := by
  obtain ⟨hw, hh, hsv⟩ := sessStep_spec h
  have hrun : Writer.run (initState r0) (pre ++ [e]) = .ok s'.w := by
    rw [run_append, inv.writer]
    simp only [Writer.run, hw]
  constructor
  · rw [hh, inv.handled]; simp
  · exact hrun
  · intro k snap hm
    have old : ∀ k snap, (k, snap) ∈ s.saves →
        k ≤ (pre ++ [e]).length ∧ ∃ wk, Writer.run (initState r0) ((pre ++ [e]).take k) = .ok wk ∧ snap = wk.report := by
      intro k snap hm
      obtain ⟨hk, wk, hrk, hsn⟩ := inv.saves k snap hm
      refine ⟨by simp; omega, wk, ?_, hsn⟩
      rw [List.take_append_of_le_length hk]
      exact hrk
    rcases hsv with hsv | hsv
    · rw [hsv] at hm; exact old k snap hm
    · rw [hsv] at hm
      rcases List.mem_cons.mp hm with heq | hm
      · injection heq with h1 h2
        subst h1 h2
        refine ⟨by rw [inv.handled]; simp, s'.w, ?_, rfl⟩
        rw [inv.handled]
        have : (pre ++ [e]).take (pre.length + 1) = pre ++ [e] := by
          apply List.take_of_length_le; simp
        rw [this]
        exact hrun
      · exact old k snap hm

theorem sessInv_run {strat : Strategy} {clock : Nat → Nat} {r0 : Report} :
    ∀ (es pre : List Event) (s s' : Sess), SessInv r0 pre s → sessRun strat clock s es = .ok s' →
      SessInv r0 (pre ++ es) s'
  | [], pre, s, s', inv, h => by
    simp only [sessRun] at h; injection h with h; subst h; simpa using inv
  | e :: es, pre, s, s', inv, h => by
    simp only [sessRun] at h
    cases hx : sessStep strat clock s e with
    | error err => rw [hx] at h; cases h
    | ok s1 =>
      rw [hx] at h
      have := sessInv_run es (pre ++ [e]) s1 s' (sessInv_step inv hx) h
      simpa using this

theorem sessRun_append {strat : Strategy} {clock : Nat → Nat} : ∀ (a b : List Event) (s : Sess),
    sessRun strat clock s (a ++ b) = match sessRun strat clock s a with
      | .ok s1 => sessRun strat clock s1 b
      | .error e => .error e
  | [], _, _ => rfl
  | e :: a, b, s => by
    simp only [List.cons_append, sessRun]
    cases sessStep strat clock s e with
    | error err => rfl
    | ok s' => exact sessRun_append a b s'

/-! ### the file system -/

def isTmpOp : FsOp → Bool
  | .createTmp | .writeTmp _ | .closeTmp => true
  | _ => false

theorem fsRun_append (s : FS) (a b : List FsOp) : fsRun s (a ++ b) = fsRun (fsRun s a) b := by
  simp [fsRun, List.foldl_append]

theorem fsRun_tmpOps_file : ∀ (ops : List FsOp) (s : FS), (∀ op ∈ ops, isTmpOp op = true) →
    (fsRun s ops).file = s.file
  | [], _, _ => rfl
  | op :: ops, s, h => by
    have h1 := h op (by simp)
    have : (fsStep s op).file = s.file := by
      cases op <;> simp_all [isTmpOp, fsStep]
    simp only [fsRun, List.foldl_cons]
    have ih := fsRun_tmpOps_file ops (fsStep s op) (fun o ho => h o (by simp [ho]))
    simp only [fsRun] at ih
    rw [ih, this]

theorem fsRun_writeTmp : ∀ (chunks : List Text) (f : Option Text) (t : Text),
    fsRun { file := f, tmp := some t } (chunks.map .writeTmp) = { file := f, tmp := some (t ++ chunks.flatten) }
  | [], _, _ => by simp [fsRun]
  | c :: cs, f, t => by
    simp only [List.map_cons, fsRun, List.foldl_cons, fsStep, Option.map_some, List.flatten_cons]
    have := fsRun_writeTmp cs f (t ++ c)
    simp only [fsRun] at this
    rw [this, List.append_assoc]

theorem fsRun_write : ∀ (chunks : List Text) (t : Text) (tmp : Option Text),
    fsRun { file := some t, tmp := tmp } (chunks.map .write) = { file := some (t ++ chunks.flatten), tmp := tmp }
  | [], _, _ => by simp [fsRun]
  | c :: cs, t, tmp => by
    simp only [List.map_cons, fsRun, List.foldl_cons, fsStep, Option.map_some, List.flatten_cons]
    have := fsRun_write cs (t ++ c) tmp
    simp only [fsRun] at this
    rw [this, List.append_assoc]

/-- everything before the `rename` -/
def atomicPrelude (chunks : List Text) : List FsOp := .createTmp :: (chunks.map .writeTmp ++ [.closeTmp])

theorem saveAtomic_eq (chunks : List Text) : saveAtomic chunks = atomicPrelude chunks ++ [.rename] := by
  simp [saveAtomic, atomicPrelude]

theorem atomicPrelude_tmp (chunks : List Text) : ∀ op ∈ atomicPrelude chunks, isTmpOp op = true := by
  intro op h
  simp only [atomicPrelude, List.mem_cons, List.mem_append, List.mem_map, List.not_mem_nil, or_false] at h
  rcases h with h | ⟨c, _, h⟩ | h <;> subst h <;> rfl

theorem saveAtomic_full (s : FS) (chunks : List Text) :
    (fsRun s (saveAtomic chunks)).file = some chunks.flatten := by
  simp only [saveAtomic, fsRun, List.foldl_cons, fsStep, List.foldl_append, List.foldl_nil]
  have := fsRun_writeTmp chunks s.file []
  simp only [fsRun] at this
  rw [this]
  simp

/-- a crash anywhere inside an atomic save: the report file is what it was, or the new complete text -/
theorem saveAtomic_take (s : FS) (chunks : List Text) (n : Nat) :
    (fsRun s ((saveAtomic chunks).take n)).file =
      if n < (saveAtomic chunks).length then s.file else some chunks.flatten := by
  by_cases hn : n < (saveAtomic chunks).length
  · simp only [hn, if_true]
    rw [saveAtomic_eq] at hn ⊢
    have hle : n ≤ (atomicPrelude chunks).length := by simp at hn; omega
    rw [List.take_append_of_le_length hle]
    exact fsRun_tmpOps_file _ s (fun op h => atomicPrelude_tmp chunks op (List.mem_of_mem_take h))
  · simp only [hn, if_false]
    rw [List.take_of_length_le (by omega)]
    exact saveAtomic_full s chunks

/-- a sequence of atomic saves, interrupted anywhere: the report file is what it was at the beginning or
    the complete text of one of the saves -/
theorem atomicSeq_visible : ∀ (cs : List (List Text)) (s : FS) (n : Nat),
    (fsRun s ((cs.flatMap saveAtomic).take n)).file = s.file ∨
      ∃ c ∈ cs, (fsRun s ((cs.flatMap saveAtomic).take n)).file = some c.flatten
  | [], s, n => by simp [fsRun]
  | c :: cs, s, n => by
    simp only [List.flatMap_cons]
    by_cases hn : n ≤ (saveAtomic c).length
    · rw [List.take_append_of_le_length hn, saveAtomic_take]
      split
      · exact .inl rfl
      · exact .inr ⟨c, by simp, rfl⟩
    · rw [List.take_append, List.take_of_length_le (by omega), fsRun_append]
      rcases atomicSeq_visible cs (fsRun s (saveAtomic c)) (n - (saveAtomic c).length) with h | ⟨c', hc', h⟩
      · right
        refine ⟨c, by simp, ?_⟩
        rw [h, saveAtomic_full]
      · exact .inr ⟨c', by simp [hc'], h⟩

/-- in-place save interrupted after the truncation and `j` of the writes -/
theorem saveInPlace_take (s : FS) (chunks : List Text) (j : Nat) (hj : j ≤ chunks.length) :
    (fsRun s ((saveInPlace chunks).take (j + 1))).file = some (chunks.take j).flatten := by
  simp only [saveInPlace, List.take_succ_cons, fsRun, List.foldl_cons, fsStep]
  rw [List.take_append_of_le_length (by simpa using hj), ← List.map_take]
  have := fsRun_write (chunks.take j) [] s.tmp
  simp only [fsRun] at this
  rw [this]
  simp

end LccModel.Saving

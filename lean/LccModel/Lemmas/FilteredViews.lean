import LccModel.Model.FilteredViews
import LccModel.Lemmas.Views

namespace LccModel.Views
open LccModel.Report LccModel.Writer

/-- the tests a suite of path `ps.1` contributes, tagged with that path -/
abbrev tagTests (ps : Path × SuiteResult) : List (Path × TestResult) := ps.2.tests.map (fun t => (ps.1, t))

/-! ### an empty suite holds no test -/

mutual
theorem empty_no_tests : ∀ (parent : Path) (s : SuiteResult), suiteIsEmpty s = true →
    (flattenWithPath parent s).flatMap tagTests = []
  | parent, .mk md st en su td ts ss, h => by
    simp only [suiteIsEmpty, Bool.and_eq_true, List.isEmpty_iff] at h
    obtain ⟨⟨⟨hts, _⟩, _⟩, hss⟩ := h
    subst hts
    simp [flattenWithPath, tagTests, SuiteResult.tests, empties_no_tests (parent ++ [md.name]) ss hss]
theorem empties_no_tests : ∀ (parent : Path) (ss : List SuiteResult), suitesAreEmpty ss = true →
    (flattenListWithPath parent ss).flatMap tagTests = []
  | _, [], _ => rfl
  | parent, s :: ss, h => by
    simp only [suitesAreEmpty, Bool.and_eq_true] at h
    simp [flattenListWithPath, empty_no_tests parent s h.1, empties_no_tests parent ss h.2]
end

theorem filter_tag (f : RFilter) (p : Path) (ts : List TestResult) :
    (ts.map (fun t => (p, t))).filter (fun pt => f.test pt.1 pt.2) = (ts.filter (f.test p)).map (fun t => (p, t)) := by
  induction ts with
  | nil => rfl
  | cons t ts ih =>
    by_cases h : f.test p t = true
    · simp [h, ih]
    · simp [h, ih]

/-! ### the tests of the filtered forest are the accepted tests of the forest, in order -/

mutual
theorem filterSuite_tests (f : RFilter) : ∀ (parent : Path) (s : SuiteResult),
    (flattenWithPath parent (filterSuite f parent s)).flatMap tagTests =
      ((flattenWithPath parent s).flatMap tagTests).filter (fun pt => f.test pt.1 pt.2)
  | parent, .mk md st en su td ts ss => by
    simp only [filterSuite, flattenWithPath, List.flatMap_cons, List.filter_append, tagTests, SuiteResult.tests]
    rw [filter_tag, ← filterSuiteList_tests f (parent ++ [md.name]) ss]
theorem filterSuiteList_tests (f : RFilter) : ∀ (parent : Path) (ss : List SuiteResult),
    (flattenListWithPath parent (filterSuiteList f parent ss)).flatMap tagTests =
      ((flattenListWithPath parent ss).flatMap tagTests).filter (fun pt => f.test pt.1 pt.2)
  | _, [] => rfl
  | parent, s :: ss => by
    simp only [filterSuiteList, flattenListWithPath, List.flatMap_append, List.filter_append]
    rw [← filterSuite_tests f parent s, ← filterSuiteList_tests f parent ss]
    split
    · rename_i he
      rw [empty_no_tests parent _ he]; rfl
    · simp only [flattenListWithPath, List.flatMap_append]
end

theorem testsWithSuitePath_filter (f : RFilter) (parent : Path) (ss : List SuiteResult) :
    testsWithSuitePath parent (filterSuiteList f parent ss) =
      (testsWithSuitePath parent ss).filter (fun pt => f.test pt.1 pt.2) :=
  filterSuiteList_tests f parent ss

theorem testsWithSuitePath_snd (parent : Path) (ss : List SuiteResult) :
    (testsWithSuitePath parent ss).map Prod.snd = forestTests ss := by
  unfold testsWithSuitePath forestTests
  rw [← flattenListWithPath_snd parent ss]
  simp only [List.map_flatMap, List.flatMap_map, List.map_map]
  congr 1
  funext ps
  induction ps.2.tests with
  | nil => rfl
  | cons t ts ih => simp [ih]

/-! ### `ReportStats.from_suites` -/

theorem statsFromSuites_counts (ss : List SuiteResult) :
    (statsFromSuites ss).total = (forestTests ss).length ∧ (statsFromSuites ss).passed = countStatus .passed (forestTests ss) ∧
    (statsFromSuites ss).failed = countStatus .failed (forestTests ss) ∧
    (statsFromSuites ss).skipped = countStatus .skipped (forestTests ss) ∧
    (statsFromSuites ss).disabled = countStatus .disabled (forestTests ss) := by
  have ht : (flattenResults ss).filterMap anyIsTest = forestTests ss := tests_of_results ss
  unfold statsFromSuites
  simp only [ht]
  exact ⟨trivial, trivial, trivial, trivial, trivial⟩

theorem fromSuitesDurationKnown_iff (par : Bool) (ss : List SuiteResult) :
    fromSuitesDurationKnown par ss = true ↔
      par = false ∧ ∃ a b, firstStart (flattenResults ss) = some (some a) ∧ lastEnd (flattenResults ss) = some (some b) := by
  unfold fromSuitesDurationKnown
  cases par with
  | true => simp
  | false =>
    simp only [Bool.not_false, Bool.true_and, true_and]
    split <;> simp_all

/-! ### the results of a filtered forest are results of the forest -/

abbrev suiteResults (s : SuiteResult) : List AnyResult := optPhase s.setup ++ s.tests.map AnyResult.test ++ optPhase s.teardown

theorem mem_optPhase_filter (p : Result → Bool) (o : Option Result) (a : AnyResult) (h : a ∈ optPhase (o.filter p)) :
    a ∈ optPhase o := by
  cases o with
  | none => simpa using h
  | some r =>
    by_cases hp : p r = true
    · simpa [Option.filter, hp] using h
    · simp [Option.filter, hp, optPhase] at h

mutual
theorem filterSuite_results (f : RFilter) : ∀ (parent : Path) (s : SuiteResult) (a : AnyResult),
    a ∈ (flattenSuite (filterSuite f parent s)).flatMap suiteResults → a ∈ (flattenSuite s).flatMap suiteResults
  | parent, .mk md st en su td ts ss, a, h => by
    simp only [filterSuite, flattenSuite, List.flatMap_cons, List.mem_append, suiteResults, SuiteResult.setup,
      SuiteResult.tests, SuiteResult.teardown] at h ⊢
    rcases h with ((h | h) | h) | h
    · exact Or.inl (Or.inl (Or.inl (mem_optPhase_filter _ _ _ h)))
    · refine Or.inl (Or.inl (Or.inr ?_))
      obtain ⟨t, ht, rfl⟩ := List.mem_map.mp h
      exact List.mem_map.mpr ⟨t, (List.mem_filter.mp ht).1, rfl⟩
    · exact Or.inl (Or.inr (mem_optPhase_filter _ _ _ h))
    · exact Or.inr (filterSuiteList_results f (parent ++ [md.name]) ss a h)
theorem filterSuiteList_results (f : RFilter) : ∀ (parent : Path) (ss : List SuiteResult) (a : AnyResult),
    a ∈ (flattenSuites (filterSuiteList f parent ss)).flatMap suiteResults → a ∈ (flattenSuites ss).flatMap suiteResults
  | _, [], _, h => h
  | parent, s :: ss, a, h => by
    simp only [filterSuiteList] at h
    simp only [flattenSuites, List.flatMap_append, List.mem_append]
    split at h
    · exact Or.inr (filterSuiteList_results f parent ss a h)
    · simp only [flattenSuites, List.flatMap_append, List.mem_append] at h
      rcases h with h | h
      · exact Or.inl (filterSuite_results f parent s a h)
      · exact Or.inr (filterSuiteList_results f parent ss a h)
end

theorem filtered_results_sub (f : RFilter) (parent : Path) (ss : List SuiteResult) (a : AnyResult)
    (h : a ∈ flattenResults (filterSuiteList f parent ss)) : a ∈ flattenResults ss :=
  filterSuiteList_results f parent ss a h

/-! ### `lcc report --short` -/

theorem shown_lines (suites : List SuiteResult) :
    ((flattenListWithPath [] suites).filter (fun ps => !ps.2.tests.isEmpty)).flatMap tagTests = testsWithSuitePath [] suites := by
  unfold testsWithSuitePath
  exact flatMap_filter_nonempty tagTests (fun ps => ps.2.tests) _ (fun a ha => by
    simp only [List.isEmpty_iff] at ha; simp [tagTests, ha])

theorem shown_empty_iff (suites : List SuiteResult) :
    ((flattenListWithPath [] suites).filter (fun ps => !ps.2.tests.isEmpty)).isEmpty = true ↔ testsWithSuitePath [] suites = [] := by
  rw [← shown_lines]
  generalize (flattenListWithPath [] suites) = l
  induction l with
  | nil => simp
  | cons x xs ih =>
    by_cases hx : x.2.tests.isEmpty = true
    · have : x.2.tests = [] := List.isEmpty_iff.mp hx
      simp only [List.filter_cons, hx, Bool.not_true, Bool.false_eq_true, if_false, ih]
    · simp only [Bool.not_eq_true] at hx
      have hne : x.2.tests ≠ [] := by intro e; simp [e] at hx
      obtain ⟨t, ts, hts⟩ := List.exists_cons_of_ne_nil hne
      simp [tagTests, hts]

theorem view_tests_perm (r : Report) : (forestTests (view r)).Perm (allTests r) := by
  unfold forestTests allTests allSuites view
  exact flatMap_perm _ (flattenSuites_perm (sortByRank_perm suiteRank _))

theorem filter_all (l : List (Path × TestResult)) : l.filter (fun pt => RFilter.all.test pt.1 pt.2) = l := by
  simp [RFilter.all]

/-- the numbers of a `Stats` are the counts over `ts` -/
def CountsOf (st : Stats) (ts : List TestResult) : Prop :=
  st.total = ts.length ∧ st.passed = countStatus .passed ts ∧ st.failed = countStatus .failed ts ∧
  st.skipped = countStatus .skipped ts ∧ st.disabled = countStatus .disabled ts

theorem CountsOf.perm {st : Stats} {ts ts' : List TestResult} (h : CountsOf st ts) (hp : ts.Perm ts') : CountsOf st ts' := by
  obtain ⟨h1, h2, h3, h4, h5⟩ := h
  exact ⟨h1.trans hp.length_eq, h2.trans (countStatus_perm _ hp), h3.trans (countStatus_perm _ hp),
    h4.trans (countStatus_perm _ hp), h5.trans (countStatus_perm _ hp)⟩

/-- one unfolding of `print_report_as_test_run`: the lines are the tests of the kept suites, and a summary, when
    printed, is `summaryOf` of statistics that count the tests of the kept suites -/
theorem shortReport_spec (r : Report) (filt : Option RFilter) :
    (shortReport r filt).lines = testsWithSuitePath [] (filterSuiteList (filt.getD RFilter.all) [] (view r)) ∧
    (((shortReport r filt).summary = none ∧ (shortReport r filt).lines = []) ∨
     ((shortReport r filt).lines ≠ [] ∧ ∃ st, (shortReport r filt).summary = some (summaryOf st) ∧
        CountsOf st (forestTests (filterSuiteList (filt.getD RFilter.all) [] (view r))))) := by
  have hl := shown_lines (filterSuiteList (filt.getD RFilter.all) [] (view r))
  have he := shown_empty_iff (filterSuiteList (filt.getD RFilter.all) [] (view r))
  unfold tagTests at hl
  unfold shortReport
  simp only
  split
  · rename_i hemp
    exact ⟨hl, Or.inl ⟨rfl, hl.trans (he.mp hemp)⟩⟩
  · rename_i hemp
    have hne : testsWithSuitePath [] (filterSuiteList (filt.getD RFilter.all) [] (view r)) ≠ [] := fun e => hemp (he.mpr e)
    split
    · refine ⟨hl, Or.inr ⟨by simp only [hl]; exact hne, statsOf r, rfl, ?_⟩⟩
      have hc : CountsOf (statsOf r) (allTests r) := stats_eq_enumeration r
      refine hc.perm ?_
      have : forestTests (filterSuiteList RFilter.all [] (view r)) = forestTests (view r) := by
        rw [← testsWithSuitePath_snd [], testsWithSuitePath_filter, filter_all, testsWithSuitePath_snd]
      simp only [Option.getD_none, this]
      exact (view_tests_perm r).symm
    · exact ⟨hl, Or.inr ⟨by simp only [hl]; exact hne, _, rfl, statsFromSuites_counts _⟩⟩

theorem shortReport_lines (r : Report) (filt : Option RFilter) :
    (shortReport r filt).lines = (testsWithSuitePath [] (view r)).filter (fun pt => (filt.getD RFilter.all).test pt.1 pt.2) := by
  rw [(shortReport_spec r filt).1, testsWithSuitePath_filter]

theorem summaryOf_counts (st : Stats) (ts : List TestResult) (h : CountsOf st ts) :
    (summaryOf st).tests = ts.length ∧ (summaryOf st).successes = countStatus .passed ts ∧
    (summaryOf st).failures = countStatus .failed ts ∧ (summaryOf st).skipped = nonZero (countStatus .skipped ts) ∧
    (summaryOf st).disabled = nonZero (countStatus .disabled ts) := by
  obtain ⟨h1, h2, h3, h4, h5⟩ := h
  simp [summaryOf, h1, h2, h3, h4, h5]

/-- the summary of `lcc report --short` counts exactly the tests displayed above it -/
theorem shortReport_summary (r : Report) (filt : Option RFilter) (sm : Summary) (hs : (shortReport r filt).summary = some sm) :
    sm.tests = (shortReport r filt).lines.length ∧ sm.successes = countStatus .passed ((shortReport r filt).lines.map Prod.snd) ∧
    sm.failures = countStatus .failed ((shortReport r filt).lines.map Prod.snd) ∧
    sm.skipped = nonZero (countStatus .skipped ((shortReport r filt).lines.map Prod.snd)) ∧
    sm.disabled = nonZero (countStatus .disabled ((shortReport r filt).lines.map Prod.snd)) := by
  obtain ⟨hl, hsum⟩ := shortReport_spec r filt
  rcases hsum with ⟨hn, _⟩ | ⟨_, st, hst, hc⟩
  · rw [hn] at hs; cases hs
  · rw [hst] at hs
    cases hs
    have := summaryOf_counts st _ hc
    rw [← testsWithSuitePath_snd [], ← hl, List.length_map] at this
    exact this

theorem shortReport_no_summary_iff (r : Report) (filt : Option RFilter) :
    (shortReport r filt).summary = none ↔ (shortReport r filt).lines = [] := by
  obtain ⟨_, hsum⟩ := shortReport_spec r filt
  rcases hsum with ⟨hn, hl⟩ | ⟨hl, st, hst, _⟩
  · simp [hn, hl]
  · simp [hst, hl]

end LccModel.Views

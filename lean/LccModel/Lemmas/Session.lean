import LccModel.Model.Session

namespace LccModel.Session
open LccModel.Report

/-! ### Which events fail a location -/

/-- an event that marks location `loc` failed: an error log or a failed check emitted there, or the
    skipping of the test at `loc` -/
def failsAt (e : Event) (loc : Loc) : Bool :=
  match e with
  | .log l _ _ level _ _ => l == loc && level == .error
  | .check l _ _ _ ok _ _ => l == loc && ok == false
  | .testSkipped p _ _ _ => Loc.test p == loc
  | _ => false

/-- events that are only ever *held*: step starts and setup/teardown phase starts -/
def holdable : Event → Bool
  | .stepStart .. => true
  | .sessionSetupStart .. => true | .sessionTeardownStart .. => true
  | .suiteSetupStart .. => true | .suiteTeardownStart .. => true
  | _ => false

theorem holdable_not_fails (e : Event) (loc : Loc) (h : holdable e = true) : failsAt e loc = false := by
  cases e <;> simp [holdable] at h <;> simp [failsAt]

/-- the failure set and the fired stream tell the same story -/
def FailSync (s : St) : Prop := ∀ loc, loc ∈ s.failures ↔ ∃ e ∈ s.fired, failsAt e loc = true

/-- everything that is held (in a live cursor or in a not-yet-started `lcc.Thread`) is holdable -/
def HeldOk (s : St) : Prop :=
  (∀ p ∈ s.cursors, ∀ e ∈ p.2.pending, holdable e = true) ∧
  (∀ p ∈ s.saved, ∀ e ∈ p.2.1.pending, holdable e = true)

structure Inv (s : St) : Prop where
  sync : FailSync s
  held : HeldOk s

theorem inv_init : Inv St.init := by
  constructor
  · intro loc; simp [St.init]
  · constructor <;> simp [St.init]

/-! ### Frame lemmas for the primitive state updates -/

@[simp] theorem fire_fired (s : St) (e : Event) : (fire s e).fired = s.fired ++ [e] := rfl
@[simp] theorem fire_failures (s : St) (e : Event) : (fire s e).failures = s.failures := rfl
@[simp] theorem fire_cursors (s : St) (e : Event) : (fire s e).cursors = s.cursors := rfl
@[simp] theorem fire_saved (s : St) (e : Event) : (fire s e).saved = s.saved := rfl
@[simp] theorem fireAll_fired (s : St) (es : List Event) : (fireAll s es).fired = s.fired ++ es := rfl
@[simp] theorem fireAll_failures (s : St) (es : List Event) : (fireAll s es).failures = s.failures := rfl
@[simp] theorem fireAll_cursors (s : St) (es : List Event) : (fireAll s es).cursors = s.cursors := rfl
@[simp] theorem fireAll_saved (s : St) (es : List Event) : (fireAll s es).saved = s.saved := rfl
@[simp] theorem tick_fired (s : St) : (tick s).fired = s.fired := rfl
@[simp] theorem tick_failures (s : St) : (tick s).failures = s.failures := rfl
@[simp] theorem tick_cursors (s : St) : (tick s).cursors = s.cursors := rfl
@[simp] theorem tick_saved (s : St) : (tick s).saved = s.saved := rfl
@[simp] theorem setCursor_fired (s : St) (t : Nat) (c : Cursor) : (setCursor s t c).fired = s.fired := rfl
@[simp] theorem setCursor_failures (s : St) (t : Nat) (c : Cursor) : (setCursor s t c).failures = s.failures := rfl
@[simp] theorem setCursor_saved (s : St) (t : Nat) (c : Cursor) : (setCursor s t c).saved = s.saved := rfl
@[simp] theorem markFailed_fired (s : St) (l : Loc) : (markFailed s l).fired = s.fired := by
  unfold markFailed; split <;> rfl
@[simp] theorem markFailed_cursors (s : St) (l : Loc) : (markFailed s l).cursors = s.cursors := by
  unfold markFailed; split <;> rfl
@[simp] theorem markFailed_saved (s : St) (l : Loc) : (markFailed s l).saved = s.saved := by
  unfold markFailed; split <;> rfl

theorem mem_markFailed (s : St) (l x : Loc) : x ∈ (markFailed s l).failures ↔ x ∈ s.failures ∨ x = l := by
  unfold markFailed
  split
  · rename_i h
    constructor
    · intro hx; exact Or.inl hx
    · intro hx; rcases hx with hx | hx
      · exact hx
      · subst hx; exact h
  · simp

theorem getCursor_mem {s : St} {tid : Nat} {c : Cursor} (h : getCursor s tid = some c) : (tid, c) ∈ s.cursors ∨ ∃ t, (t, c) ∈ s.cursors := by
  unfold getCursor at h
  cases hf : s.cursors.find? (fun p => p.1 == tid) with
  | none => rw [hf] at h; cases h
  | some p =>
    rw [hf] at h
    simp at h
    right
    exact ⟨p.1, by rw [← h]; exact List.mem_of_find?_eq_some hf⟩

theorem pending_holdable {s : St} (h : HeldOk s) {tid : Nat} {c : Cursor} (hc : getCursor s tid = some c) :
    ∀ e ∈ c.pending, holdable e = true := by
  rcases getCursor_mem hc with hm | ⟨t, hm⟩
  · exact h.1 (tid, c) hm
  · exact h.1 (t, c) hm

/-- storing a cursor whose pending events are holdable keeps `HeldOk` -/
theorem heldOk_setCursor {s : St} (h : HeldOk s) (tid : Nat) (c : Cursor)
    (hc : ∀ e ∈ c.pending, holdable e = true) : HeldOk (setCursor s tid c) := by
  constructor
  · intro p hp e he
    simp only [setCursor] at hp
    rcases List.mem_cons.mp hp with e1 | hp
    · subst e1; exact hc e he
    · exact h.1 p (List.mem_filter.mp hp).1 e he
  · exact h.2

/-- `FailSync` is preserved by firing events none of which fails anything -/
theorem failSync_fireAll {s : St} (h : FailSync s) (es : List Event)
    (hes : ∀ e ∈ es, ∀ loc, failsAt e loc = false) : FailSync (fireAll s es) := by
  intro loc
  simp only [fireAll_failures, fireAll_fired]
  rw [h loc]
  constructor
  · rintro ⟨e, he, hf⟩; exact ⟨e, List.mem_append.mpr (Or.inl he), hf⟩
  · rintro ⟨e, he, hf⟩
    rcases List.mem_append.mp he with he | he
    · exact ⟨e, he, hf⟩
    · rw [hes e he loc] at hf; cases hf

theorem failSync_fire {s : St} (h : FailSync s) (e : Event) (he : ∀ loc, failsAt e loc = false) :
    FailSync (fire s e) := by
  have := failSync_fireAll h [e] (by intro x hx loc; simp at hx; subst hx; exact he loc)
  exact this

/-- firing an event that fails exactly `l`, together with marking `l` -/
theorem failSync_markFire {s : St} (h : FailSync s) (e : Event) (l : Loc)
    (he : ∀ loc, failsAt e loc = true ↔ loc = l) : FailSync (fire (markFailed s l) e) := by
  intro loc
  simp only [fire_failures, fire_fired, markFailed_fired]
  rw [mem_markFailed, h loc]
  constructor
  · rintro (⟨x, hx, hf⟩ | hl)
    · exact ⟨x, List.mem_append.mpr (Or.inl hx), hf⟩
    · exact ⟨e, by simp, (he loc).mpr hl⟩
  · rintro ⟨x, hx, hf⟩
    rcases List.mem_append.mp hx with hx | hx
    · exact Or.inl ⟨x, hx, hf⟩
    · simp at hx; subst hx; exact Or.inr ((he loc).mp hf)

theorem failSync_of_eq {s s' : St} (h : FailSync s) (h1 : s'.fired = s.fired) (h2 : s'.failures = s.failures) :
    FailSync s' := by
  intro loc; rw [h1, h2]; exact h loc

end LccModel.Session

namespace LccModel.Session
open LccModel.Report

/-- what the cursor-level helpers guarantee -/
structure Helper (s : St) (c : Cursor) (s' : St) (c' : Cursor) : Prop where
  sync : FailSync s → FailSync s'
  cursors : s'.cursors = s.cursors
  saved : s'.saved = s.saved
  pend : (∀ e ∈ c.pending, holdable e = true) → ∀ e ∈ c'.pending, holdable e = true

theorem stepEnd_not_fails (l : Loc) (d : String) (tid t : Nat) (loc : Loc) : failsAt (.stepEnd l d tid t) loc = false := rfl

theorem helper_discardOrFire (s : St) (c : Cursor) (isC : Event → Bool) (e : Event)
    (he : ∀ loc, failsAt e loc = false) :
    Helper s c (discardOrFire s c isC e).1 (discardOrFire s c isC e).2 := by
  unfold discardOrFire
  cases hl : c.pending.getLast? with
  | none =>
    simp only
    exact ⟨fun h => failSync_fire h e he, rfl, rfl, fun h => h⟩
  | some last =>
    simp only
    by_cases hc : isC last = true
    · simp only [hc, if_true]
      exact ⟨fun h => h, rfl, rfl, fun h x hx => h x (List.dropLast_subset _ hx)⟩
    · simp only [hc]
      exact ⟨fun h => failSync_fire h e he, rfl, rfl, fun h => h⟩

theorem helper_tick (s : St) (c : Cursor) : Helper s c (tick s) c :=
  ⟨fun h => failSync_of_eq h rfl rfl, rfl, rfl, fun h => h⟩

theorem helper_trans {s s1 s2 : St} {c c1 c2 : Cursor} (h1 : Helper s c s1 c1) (h2 : Helper s1 c1 s2 c2) :
    Helper s c s2 c2 :=
  ⟨fun h => h2.sync (h1.sync h), by rw [h2.cursors, h1.cursors], by rw [h2.saved, h1.saved],
   fun h => h2.pend (h1.pend h)⟩

theorem helper_endStepIfAny (s : St) (tid : Nat) (c : Cursor) :
    Helper s c (endStepIfAny s tid c).1 (endStepIfAny s tid c).2 := by
  unfold endStepIfAny
  cases hs : c.step with
  | none => exact ⟨fun h => h, rfl, rfl, fun h => h⟩
  | some d =>
    simp only
    have h1 := helper_tick s c
    have h2 := helper_discardOrFire (tick s) c isStepStart (Event.stepEnd c.loc d tid s.now) (stepEnd_not_fails _ _ _ _)
    have := helper_trans h1 h2
    exact ⟨this.sync, this.cursors, this.saved, this.pend⟩

theorem helper_flush (s : St) (c : Cursor) (hp : ∀ e ∈ c.pending, holdable e = true) :
    Helper s c (flush s c).1 (flush s c).2 := by
  unfold flush
  refine ⟨fun h => failSync_fireAll h c.pending ?_, rfl, rfl, fun _ e he => by simp at he⟩
  intro e he loc
  exact holdable_not_fails e loc (hp e he)

/-- closing an op: store the cursor back -/
theorem inv_store {s s' : St} {c c' : Cursor} (tid : Nat) (hinv : Inv s) (hc : getCursor s tid = some c)
    (h : Helper s c s' c') : Inv (setCursor s' tid c') := by
  constructor
  · exact failSync_of_eq (h.sync hinv.sync) rfl rfl
  · have hh : HeldOk s' := by
      constructor
      · rw [h.cursors]; exact hinv.held.1
      · rw [h.saved]; exact hinv.held.2
    exact heldOk_setCursor hh tid c' (h.pend (pending_holdable hinv.held hc))

theorem inv_of_fire {s : St} (hinv : Inv s) (e : Event) (he : ∀ loc, failsAt e loc = false) :
    Inv (fire (tick s) e) := by
  constructor
  · exact failSync_fire (failSync_of_eq hinv.sync rfl rfl) e he
  · exact ⟨hinv.held.1, hinv.held.2⟩

theorem inv_startPhase {s : St} (hinv : Inv s) (tid : Nat) (loc : Loc) (mk : Nat → Event)
    (hmk : holdable (mk s.now) = true) : Inv (startPhase s tid loc mk) := by
  unfold startPhase
  constructor
  · exact failSync_of_eq hinv.sync rfl rfl
  · apply heldOk_setCursor (s := tick s) ⟨hinv.held.1, hinv.held.2⟩
    intro e he; simp at he; subst he; exact hmk

theorem inv_endPhase {s s' : St} (hinv : Inv s) (tid : Nat) (isC : Event → Bool) (mk : Nat → Event)
    (hmk : ∀ t loc, failsAt (mk t) loc = false) (h : endPhase s tid isC mk = .ok s') : Inv s' := by
  unfold endPhase withCursor at h
  cases hc : getCursor s tid with
  | none => rw [hc] at h; cases h
  | some c =>
    rw [hc] at h
    simp only at h
    injection h with h
    subst h
    have h1 := helper_endStepIfAny s tid c
    have h2 := helper_tick (endStepIfAny s tid c).1 (endStepIfAny s tid c).2
    have h3 := helper_discardOrFire (tick (endStepIfAny s tid c).1) (endStepIfAny s tid c).2 isC
      (mk (endStepIfAny s tid c).1.now) (hmk _)
    exact inv_store tid hinv hc (helper_trans (helper_trans h1 h2) h3)

theorem inv_stepped {s s' : St} (hinv : Inv s) (tid : Nat) (failing : Bool)
    (mk : Loc → Option String → Nat → Event)
    (hmk : ∀ l st t loc, failsAt (mk l st t) loc = true ↔ (failing = true ∧ loc = l))
    (h : stepped s tid failing mk = .ok s') : Inv s' := by
  unfold stepped withCursor at h
  cases hc : getCursor s tid with
  | none => rw [hc] at h; cases h
  | some c =>
    rw [hc] at h
    simp only at h
    injection h with h
    subst h
    have hp := pending_holdable hinv.held hc
    have hf := helper_flush s c hp
    have hsync1 : FailSync (flush s c).1 := hf.sync hinv.sync
    have hheld1 : HeldOk (flush s c).1 := ⟨by rw [hf.cursors]; exact hinv.held.1, by rw [hf.saved]; exact hinv.held.2⟩
    have hloc : (flush s c).2.loc = c.loc := rfl
    constructor
    · cases failing with
      | true =>
        have h1 := failSync_markFire hsync1 (mk c.loc c.step (markFailed (flush s c).1 c.loc).now) c.loc
          (by intro loc; rw [hmk]; simp)
        exact failSync_of_eq h1 rfl rfl
      | false =>
        have h1 := failSync_fire hsync1 (mk c.loc c.step (flush s c).1.now)
          (by intro loc
              cases hx : failsAt (mk c.loc c.step (flush s c).1.now) loc with
              | false => rfl
              | true => have := (hmk _ _ _ loc).mp hx; simp at this)
        exact failSync_of_eq h1 rfl rfl
    · apply heldOk_setCursor
      · cases failing with
        | true =>
          simp only [if_true]
          exact ⟨by simp only [fire_cursors, tick_cursors, markFailed_cursors]; exact hheld1.1,
                 by simp only [fire_saved, tick_saved, markFailed_saved]; exact hheld1.2⟩
        | false =>
          simp only [Bool.false_eq_true, if_false]
          exact ⟨by simp only [fire_cursors, tick_cursors]; exact hheld1.1,
                 by simp only [fire_saved, tick_saved]; exact hheld1.2⟩
      · intro e he; simp [flush] at he

end LccModel.Session

namespace LccModel.Session
open LccModel.Report

theorem inv_step {s s' : St} {tid : Nat} {op : Op} (hinv : Inv s) (h : step s tid op = .ok s') : Inv s' := by
  cases op with
  | startTestSession => simp only [step] at h; injection h with h; subst h; exact inv_of_fire hinv _ (fun _ => rfl)
  | endTestSession => simp only [step] at h; injection h with h; subst h; exact inv_of_fire hinv _ (fun _ => rfl)
  | startSessionSetup => simp only [step] at h; injection h with h; subst h; exact inv_startPhase hinv tid _ _ rfl
  | endSessionSetup => simp only [step] at h; exact inv_endPhase hinv tid _ _ (fun _ _ => rfl) h
  | startSessionTeardown => simp only [step] at h; injection h with h; subst h; exact inv_startPhase hinv tid _ _ rfl
  | endSessionTeardown => simp only [step] at h; exact inv_endPhase hinv tid _ _ (fun _ _ => rfl) h
  | startSuite p md => simp only [step] at h; injection h with h; subst h; exact inv_of_fire hinv _ (fun _ => rfl)
  | endSuite p => simp only [step] at h; injection h with h; subst h; exact inv_of_fire hinv _ (fun _ => rfl)
  | startSuiteSetup p => simp only [step] at h; injection h with h; subst h; exact inv_startPhase hinv tid _ _ rfl
  | endSuiteSetup p => simp only [step] at h; exact inv_endPhase hinv tid _ _ (fun _ _ => rfl) h
  | startSuiteTeardown p => simp only [step] at h; injection h with h; subst h; exact inv_startPhase hinv tid _ _ rfl
  | endSuiteTeardown p => simp only [step] at h; exact inv_endPhase hinv tid _ _ (fun _ _ => rfl) h
  | startTest p md =>
    simp only [step] at h; injection h with h; subst h
    have h1 := inv_of_fire hinv (.testStart p md s.now) (fun _ => rfl)
    constructor
    · exact failSync_of_eq h1.sync rfl rfl
    · exact heldOk_setCursor h1.held tid _ (by intro e he; simp at he)
  | endTest p =>
    simp only [step, withCursor] at h
    cases hc : getCursor s tid with
    | none => rw [hc] at h; cases h
    | some c =>
      rw [hc] at h; simp only at h; injection h with h; subst h
      have h1 := helper_endStepIfAny s tid c
      have h2 : Helper (endStepIfAny s tid c).1 (endStepIfAny s tid c).2
          (fire (tick (endStepIfAny s tid c).1) (.testEnd p (endStepIfAny s tid c).1.now)) (endStepIfAny s tid c).2 :=
        ⟨fun hs => failSync_fire (failSync_of_eq hs rfl rfl) _ (fun _ => rfl), rfl, rfl, fun hp => hp⟩
      exact inv_store tid hinv hc (helper_trans h1 h2)
  | skipTest p md reason =>
    simp only [step] at h; injection h with h; subst h
    constructor
    · -- fire then mark: same facts in the other order
      intro loc
      rw [mem_markFailed]
      simp only [fire_failures, tick_failures, markFailed_fired, fire_fired, tick_fired]
      rw [hinv.sync loc]
      constructor
      · rintro (⟨x, hx, hf⟩ | hl)
        · exact ⟨x, List.mem_append.mpr (Or.inl hx), hf⟩
        · exact ⟨_, List.mem_append.mpr (Or.inr (List.mem_singleton.mpr rfl)), by simp [failsAt, hl]⟩
      · rintro ⟨x, hx, hf⟩
        rcases List.mem_append.mp hx with hx | hx
        · exact Or.inl ⟨x, hx, hf⟩
        · simp at hx; subst hx; simp [failsAt] at hf; exact Or.inr hf.symm
    · exact ⟨by simp only [markFailed_cursors, fire_cursors, tick_cursors]; exact hinv.held.1,
             by simp only [markFailed_saved, fire_saved, tick_saved]; exact hinv.held.2⟩
  | disableTest p md reason => simp only [step] at h; injection h with h; subst h; exact inv_of_fire hinv _ (fun _ => rfl)
  | setStep d =>
    simp only [step, withCursor] at h
    cases hc : getCursor s tid with
    | none => rw [hc] at h; cases h
    | some c =>
      rw [hc] at h; simp only at h; injection h with h; subst h
      have h1 := helper_endStepIfAny s tid c
      have h2 : Helper (endStepIfAny s tid c).1 (endStepIfAny s tid c).2 (tick (endStepIfAny s tid c).1)
          { loc := (endStepIfAny s tid c).2.loc, step := some d,
            pending := (endStepIfAny s tid c).2.pending ++
              [Event.stepStart (endStepIfAny s tid c).2.loc d tid (endStepIfAny s tid c).1.now] } :=
        ⟨fun hs => failSync_of_eq hs rfl rfl, rfl, rfl, by
          intro hp e he
          rcases List.mem_append.mp he with he | he
          · exact hp e he
          · simp at he; subst he; rfl⟩
      exact inv_store tid hinv hc (helper_trans h1 h2)
  | endStep =>
    simp only [step, withCursor] at h
    cases hc : getCursor s tid with
    | none => rw [hc] at h; cases h
    | some c =>
      rw [hc] at h; simp only at h
      cases hst : c.step with
      | none => rw [hst] at h; cases h
      | some d =>
        rw [hst] at h; simp only at h; injection h with h; subst h
        exact inv_store tid hinv hc (helper_endStepIfAny s tid c)
  | log level msg =>
    simp only [step] at h
    refine inv_stepped hinv tid (level == .error) _ ?_ h
    intro l st t loc
    simp only [failsAt, Bool.and_eq_true, beq_iff_eq]
    constructor
    · rintro ⟨h1, h2⟩; exact ⟨by simp [h2], h1.symm⟩
    · rintro ⟨h1, h2⟩; exact ⟨h2.symm, by simpa using h1⟩
  | check d ok details =>
    simp only [step] at h
    refine inv_stepped hinv tid (ok == false) _ ?_ h
    intro l st t loc
    simp only [failsAt, Bool.and_eq_true, beq_iff_eq]
    constructor
    · rintro ⟨h1, h2⟩; exact ⟨by simp [h2], h1.symm⟩
    · rintro ⟨h1, h2⟩; exact ⟨h2.symm, by simpa using h1⟩
  | url u d =>
    simp only [step] at h
    refine inv_stepped hinv tid false _ ?_ h
    intro l st t loc; simp [failsAt]
  | attach filename d asImage =>
    simp only [step] at h
    have hinv' : Inv { s with attachCount := s.attachCount + 1 } :=
      ⟨failSync_of_eq hinv.sync rfl rfl, ⟨hinv.held.1, hinv.held.2⟩⟩
    refine inv_stepped hinv' tid false _ ?_ h
    intro l st t loc; simp [failsAt]
  | attachBegin filename d asImage =>
    simp only [step] at h; injection h with h; subst h
    exact ⟨failSync_of_eq hinv.sync rfl rfl, ⟨hinv.held.1, hinv.held.2⟩⟩
  | attachEnd =>
    simp only [step] at h
    cases hf : s.prepared.find? (fun p => p.tid == tid) with
    | none => rw [hf] at h; cases h
    | some p =>
      rw [hf] at h; simp only at h
      have hinv' : Inv { s with prepared := s.prepared.eraseP (fun p => p.tid == tid) } :=
        ⟨failSync_of_eq hinv.sync rfl rfl, ⟨hinv.held.1, hinv.held.2⟩⟩
      refine inv_stepped hinv' tid false _ ?_ h
      intro l st t loc; simp [failsAt]
  | threadCreate newTid =>
    simp only [step, withCursor] at h
    cases hc : getCursor s tid with
    | none => rw [hc] at h; cases h
    | some c =>
      rw [hc] at h; simp only at h
      split at h
      · cases h
      · injection h with h; subst h
        have hp := pending_holdable hinv.held hc
        -- the (possibly) popped first pending event is holdable, hence fails nothing
        have key : ∀ (s1 : St) (c1 : Cursor), Helper s c s1 c1 →
            Inv { (setCursor s1 tid c1) with
                  saved := (newTid, { loc := c1.loc, step := none, pending := [] }, c1.step) ::
                           (setCursor s1 tid c1).saved.filter (fun p => p.1 != newTid) } := by
          intro s1 c1 hh
          have h0 := inv_store tid hinv hc hh
          constructor
          · exact failSync_of_eq h0.sync rfl rfl
          · constructor
            · exact h0.held.1
            · intro p hp' e he
              rcases List.mem_cons.mp hp' with e1 | hp'
              · subst e1; simp at he
              · exact h0.held.2 p (List.mem_filter.mp hp').1 e he
        cases hpend : c.pending with
        | nil =>
          simp only [hpend]
          exact key s c ⟨fun hs => hs, rfl, rfl, fun h => h⟩
        | cons e rest =>
          simp only [hpend]
          by_cases hss : isStepStart e = true
          · simp only [hss, if_true]
            exact key s c ⟨fun hs => hs, rfl, rfl, fun h => h⟩
          · simp only [hss]
            have he : holdable e = true := hp e (by rw [hpend]; simp)
            exact key (fire s e) { c with pending := rest }
              ⟨fun hs => failSync_fire hs e (fun loc => holdable_not_fails e loc he), rfl, rfl,
               fun hq x hx => hq x (by rw [hpend]; exact List.mem_cons_of_mem _ hx)⟩
  | threadRun =>
    simp only [step] at h
    cases hf : s.saved.find? (fun p => p.1 == tid) with
    | none => rw [hf] at h; cases h
    | some p =>
      rw [hf] at h
      obtain ⟨t0, c, dflt⟩ := p
      simp only at h
      cases dflt with
      | none => cases h
      | some d =>
        simp only at h; injection h with h; subst h
        constructor
        · exact failSync_of_eq hinv.sync rfl rfl
        · apply heldOk_setCursor
          · constructor
            · exact hinv.held.1
            · intro q hq e he
              exact hinv.held.2 q (List.mem_filter.mp hq).1 e he
          · intro e he; simp at he; subst he; rfl
  | threadEnd =>
    simp only [step, withCursor] at h
    cases hc : getCursor s tid with
    | none => rw [hc] at h; cases h
    | some c =>
      rw [hc] at h; simp only at h
      cases hst : c.step with
      | none => rw [hst] at h; cases h
      | some d =>
        rw [hst] at h; simp only at h; injection h with h; subst h
        exact inv_store tid hinv hc (helper_endStepIfAny s tid c)

/-- the atomic `.attach` is `attachBegin` immediately followed by `attachEnd` on the same thread -/
theorem step_attach_eq (s : St) (tid : Nat) (filename d : String) (asImage : Bool) :
    step s tid (.attach filename d asImage) =
      (step s tid (.attachBegin filename d asImage)).bind (fun s1 => step s1 tid .attachEnd) := by
  simp [step, Except.bind]

theorem inv_runOps : ∀ (ops : List (Nat × Op)) (s s' : St), Inv s → runOps s ops = .ok s' → Inv s' := by
  intro ops
  induction ops with
  | nil => intro s s' hinv h; simp only [runOps] at h; injection h with h; subst h; exact hinv
  | cons op ops ih =>
    intro s s' hinv h
    obtain ⟨tid, o⟩ := op
    simp only [runOps] at h
    cases hs : step s tid o with
    | error e => rw [hs] at h; cases h
    | ok s1 => rw [hs] at h; exact ih s1 s' (inv_step hinv hs) h

end LccModel.Session

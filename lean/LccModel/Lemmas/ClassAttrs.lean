/-
  Helper lemmas for `Props/C13Attrs.lean` (the attribute scan of a suite class instance, `Model/ClassAttrs.lean`).
-/
import LccModel.Model.ClassAttrs

namespace LccModel.ClassAttrs
open LccModel.Loader

/-! ## `dedup` -/

theorem mem_dedup {a : String} : ∀ {l : List String}, a ∈ dedup l ↔ a ∈ l
  | [] => by simp [dedup]
  | b :: l => by
    simp only [dedup, List.mem_cons, List.mem_filter, mem_dedup (l := l), bne_iff_ne, ne_eq]
    by_cases h : a = b <;> simp [h]

theorem filter_ne_of_not_mem {p : String} : ∀ {l : List String}, p ∉ l → l.filter (fun b => b != p) = l
  | [], _ => rfl
  | a :: l, h => by
    simp only [List.mem_cons, not_or] at h
    have hap : (a != p) = true := by simp [bne_iff_ne]; exact fun e => h.1 e.symm
    simp [hap, filter_ne_of_not_mem h.2]

/-- A fresh name inserted anywhere into the raw name list appears once in `dedup`, the rest is unchanged. -/
theorem dedup_insert_fresh {p : String} : ∀ (xs ys : List String), p ∉ xs → p ∉ ys →
    ∃ A B, dedup (xs ++ p :: ys) = A ++ p :: B ∧ dedup (xs ++ ys) = A ++ B ∧ p ∉ A ∧ p ∉ B
  | [], ys, _, hy => by
    refine ⟨[], dedup ys, ?_, rfl, by simp, by simpa [mem_dedup] using hy⟩
    have : p ∉ dedup ys := by simpa [mem_dedup] using hy
    simp [dedup, filter_ne_of_not_mem this]
  | x :: xs, ys, hx, hy => by
    simp only [List.mem_cons, not_or] at hx
    obtain ⟨A, B, h1, h2, hA, hB⟩ := dedup_insert_fresh xs ys hx.2 hy
    have hpx : (p != x) = true := by simp [bne_iff_ne]; exact hx.1
    refine ⟨x :: A.filter (fun b => b != x), B.filter (fun b => b != x), ?_, ?_, ?_, ?_⟩
    · simp [dedup, h1, hpx]
    · simp [dedup, h2]
    · simp only [List.mem_cons, List.mem_filter, not_or, not_and]
      exact ⟨hx.1, fun h => absurd h hA⟩
    · simp only [List.mem_filter, not_and]
      exact fun h => absurd h hB

/-! ## `lookup`, `unboundAttr` -/

theorem lookup_of_mem_keys {n : String} : ∀ {d : ClassDict}, n ∈ d.map Prod.fst → ∃ e, d.lookup n = some e
  | [], h => by simp at h
  | (k, e) :: d, h => by
    by_cases hk : n = k
    · subst hk; exact ⟨e, by simp [List.lookup]⟩
    · have h' : n ∈ d.map Prod.fst := by simpa [hk] using h
      obtain ⟨e', he'⟩ := lookup_of_mem_keys h'
      have : (n == k) = false := by simp [hk]
      exact ⟨e', by simp [List.lookup, this, he']⟩

theorem lookup_none_of_not_mem_keys {n : String} : ∀ {d : ClassDict}, n ∉ d.map Prod.fst → d.lookup n = none
  | [], _ => rfl
  | (k, e) :: d, h => by
    simp only [List.map_cons, List.mem_cons, not_or] at h
    have : (n == k) = false := by simp [h.1]
    simp [List.lookup, this, lookup_none_of_not_mem_keys h.2]

theorem mem_dirNames {mro : MRO} {n : String} : n ∈ dirNames mro ↔ ∃ d ∈ mro, n ∈ d.map Prod.fst := by
  simp [dirNames, mem_dedup, List.mem_flatMap]

theorem unboundAttr_nil (n : String) : unboundAttr [] n = none := rfl

theorem unboundAttr_cons (d : ClassDict) (mro : MRO) (n : String) :
    unboundAttr (d :: mro) n = match d.lookup n with | some e => some e | none => unboundAttr mro n := by
  simp only [unboundAttr, List.findSome?_cons]
  cases d.lookup n <;> rfl

theorem unboundAttr_none_of_undefined {n : String} : ∀ {mro : MRO}, (∀ d ∈ mro, n ∉ d.map Prod.fst) →
    unboundAttr mro n = none
  | [], _ => rfl
  | d :: mro, h => by
    rw [unboundAttr_cons, lookup_none_of_not_mem_keys (h d (by simp))]
    exact unboundAttr_none_of_undefined (fun d' hd' => h d' (by simp [hd']))

theorem unboundAttr_append_of_undefined {n : String} (pre post : MRO) (h : ∀ d ∈ pre, n ∉ d.map Prod.fst) :
    unboundAttr (pre ++ post) n = unboundAttr post n := by
  induction pre with
  | nil => rfl
  | cons d pre ih =>
    rw [List.cons_append, unboundAttr_cons, lookup_none_of_not_mem_keys (h d (by simp))]
    exact ih (fun d' hd' => h d' (by simp [hd']))

/-- Every name of `dir()` is defined by some class of the MRO. -/
theorem unboundAttr_of_mem_dirNames {mro : MRO} {n : String} (h : n ∈ dirNames mro) :
    ∃ e, unboundAttr mro n = some e := by
  obtain ⟨d, hd, hn⟩ := mem_dirNames.mp h
  induction mro with
  | nil => simp at hd
  | cons d' mro ih =>
    rw [unboundAttr_cons]
    cases hl : d'.lookup n with
    | some e => exact ⟨e, rfl⟩
    | none =>
      rcases List.mem_cons.mp hd with rfl | hd'
      · obtain ⟨e, he⟩ := lookup_of_mem_keys hn
        rw [he] at hl; cases hl
      · exact ih (mem_dirNames.mpr ⟨d, hd', hn⟩) hd'

/-! ## The scan in closed form -/

theorem scanWith_closed (mro : MRO) : ∀ ns : List String, (∀ n ∈ ns, ∃ e, unboundAttr mro n = some e) →
    scanWith (isProperty mro) (getattr mro) ns = .ok (ns.filterMap (yieldOf mro))
  | [], _ => rfl
  | n :: ns, h => by
    have ih := scanWith_closed mro ns (fun m hm => h m (by simp [hm]))
    obtain ⟨e, he⟩ := h n (by simp)
    by_cases hd : dunder n = true
    · simp [scanWith, yieldOf, hd, ih]
    · have hd' : dunder n = false := by simpa using hd
      cases e with
      | property g => simp [scanWith, yieldOf, hd', isProperty, he, ih]
      | member m => simp [scanWith, yieldOf, hd', isProperty, getattr, he, ih]
      | plain => simp [scanWith, yieldOf, hd', isProperty, getattr, he, ih]

theorem scan_closed (mro : MRO) : objectAttributes mro = .ok ((dirNames mro).filterMap (yieldOf mro)) :=
  scanWith_closed mro _ (fun _ h => unboundAttr_of_mem_dirNames h)

theorem yieldOf_some {mro : MRO} {n : String} {p : String × Got} (h : yieldOf mro n = some p) :
    p.1 = n ∧ dunder n = false ∧ isProperty mro n = false := by
  unfold yieldOf at h
  split at h
  · cases h
  · rename_i hd
    have hd' : dunder n = false := by simpa using hd
    unfold isProperty
    split at h
    · cases h; rename_i he; simp [he, hd']
    · cases h; rename_i he; simp [he, hd']
    · cases h

theorem yieldOf_member (mro : MRO) (n : String) :
    (yieldOf mro n).bind (fun p => p.2.member?) = declaredAt mro n := by
  unfold yieldOf declaredAt
  split
  · rfl
  · split <;> simp_all [Got.member?]

/-! ## Adding a property under a fresh name -/

theorem lookup_insert_ne {n p : String} (e : Entry) (d1 d2 : ClassDict) (h : n ≠ p) :
    (d1 ++ (p, e) :: d2).lookup n = (d1 ++ d2).lookup n := by
  induction d1 with
  | nil =>
    have : (n == p) = false := by simp [h]
    simp [List.lookup, this]
  | cons kv d1 ih =>
    obtain ⟨k, v⟩ := kv
    simp only [List.cons_append, List.lookup]
    cases n == k <;> simp [ih]

theorem lookup_insert_self {p : String} (e : Entry) (d1 d2 : ClassDict) (h : p ∉ d1.map Prod.fst) :
    (d1 ++ (p, e) :: d2).lookup p = some e := by
  induction d1 with
  | nil => simp
  | cons kv d1 ih =>
    obtain ⟨k, v⟩ := kv
    simp only [List.map_cons, List.mem_cons, not_or] at h
    have : (p == k) = false := by simp [h.1]
    simp [List.lookup, this, ih h.2]

theorem unboundAttr_insert_ne {n p : String} (e : Entry) (pre post : MRO) (d1 d2 : ClassDict) (h : n ≠ p) :
    unboundAttr (pre ++ (d1 ++ (p, e) :: d2) :: post) n = unboundAttr (pre ++ (d1 ++ d2) :: post) n := by
  induction pre with
  | nil => simp only [List.nil_append, unboundAttr_cons, lookup_insert_ne e d1 d2 h]
  | cons d pre ih => simp only [List.cons_append, unboundAttr_cons, ih]

theorem unboundAttr_insert_self {p : String} (e : Entry) (pre post : MRO) (d1 d2 : ClassDict)
    (hpre : ∀ d ∈ pre, p ∉ d.map Prod.fst) (h1 : p ∉ d1.map Prod.fst) :
    unboundAttr (pre ++ (d1 ++ (p, e) :: d2) :: post) p = some e := by
  rw [unboundAttr_append_of_undefined pre _ hpre, unboundAttr_cons, lookup_insert_self e d1 d2 h1]

theorem filterMap_congr' {α β : Type} {f g : α → Option β} : ∀ {l : List α}, (∀ x ∈ l, f x = g x) →
    l.filterMap f = l.filterMap g
  | [], _ => rfl
  | a :: l, h => by
    rw [List.filterMap_cons, List.filterMap_cons, h a (by simp), filterMap_congr' (fun x hx => h x (by simp [hx]))]

/-- Inserting `(p, property g)` anywhere into any dict, `p` defined nowhere: the declared members are unchanged. -/
theorem declaredMembers_insert_property (pre post : MRO) (d1 d2 : ClassDict) (p : String) (g : Getter)
    (hfresh : ∀ d ∈ pre ++ (d1 ++ d2) :: post, p ∉ d.map Prod.fst) :
    declaredMembers (pre ++ (d1 ++ (p, .property g) :: d2) :: post) = declaredMembers (pre ++ (d1 ++ d2) :: post) := by
  have hpre : ∀ d ∈ pre, p ∉ d.map Prod.fst := fun d hd => hfresh d (by simp [hd])
  have hpost : ∀ d ∈ post, p ∉ d.map Prod.fst := fun d hd => hfresh d (by simp [hd])
  have h12 : p ∉ (d1 ++ d2).map Prod.fst := hfresh _ (by simp)
  have h1 : p ∉ d1.map Prod.fst := fun h => h12 (by simp only [List.map_append, List.mem_append]; exact Or.inl h)
  have h2 : p ∉ d2.map Prod.fst := fun h => h12 (by simp only [List.map_append, List.mem_append]; exact Or.inr h)
  have hx : p ∉ pre.flatMap (fun d => d.map Prod.fst) ++ d1.map Prod.fst := by
    simp only [List.mem_append, List.mem_flatMap, not_or, not_exists, not_and]
    exact ⟨fun d hd => hpre d hd, h1⟩
  have hy : p ∉ d2.map Prod.fst ++ post.flatMap (fun d => d.map Prod.fst) := by
    simp only [List.mem_append, List.mem_flatMap, not_or, not_exists, not_and]
    exact ⟨h2, fun d hd => hpost d hd⟩
  obtain ⟨A, B, hA, hB, hpA, hpB⟩ := dedup_insert_fresh _ _ hx hy
  have e1 : dirNames (pre ++ (d1 ++ (p, .property g) :: d2) :: post) = A ++ p :: B := by
    rw [← hA]; simp [dirNames, List.flatMap_append, List.flatMap_cons]
  have e2 : dirNames (pre ++ (d1 ++ d2) :: post) = A ++ B := by
    rw [← hB]; simp [dirNames, List.flatMap_append, List.flatMap_cons]
  have hp : declaredAt (pre ++ (d1 ++ (p, .property g) :: d2) :: post) p = none := by
    unfold declaredAt
    rw [unboundAttr_insert_self _ pre post d1 d2 hpre h1]
    split <;> rfl
  have hne : ∀ n, n ≠ p → declaredAt (pre ++ (d1 ++ (p, .property g) :: d2) :: post) n
      = declaredAt (pre ++ (d1 ++ d2) :: post) n := by
    intro n hn
    unfold declaredAt
    rw [unboundAttr_insert_ne _ pre post d1 d2 hn]
  unfold declaredMembers
  rw [e1, e2, List.filterMap_append, List.filterMap_append, List.filterMap_cons, hp]
  congr 1
  · exact filterMap_congr' (fun n hn => hne n (fun e => hpA (e ▸ hn)))
  · exact filterMap_congr' (fun n hn => hne n (fun e => hpB (e ▸ hn)))

/-! ## The decision-table function -/

theorem listedName_fst (mro : MRO) (n : String) :
    (listedName mro n).1 = ((dirNames mro).contains n && (yieldOf mro n).isSome) := by
  unfold listedName listedWith yieldOf isProperty getattr
  cases (dirNames mro).contains n <;> cases dunder n <;> rcases unboundAttr mro n with _ | (g | m | _) <;> simp

theorem listedName_snd (mro : MRO) (n : String) : (listedName mro n).2 = false := by
  unfold listedName listedWith isProperty
  cases (dirNames mro).contains n <;> cases dunder n <;> rcases unboundAttr mro n with _ | (g | m | _) <;> simp

theorem mem_scan_names_iff (mro : MRO) (n : String) :
    n ∈ ((dirNames mro).filterMap (yieldOf mro)).map Prod.fst ↔ n ∈ dirNames mro ∧ (yieldOf mro n).isSome = true := by
  simp only [List.mem_map, List.mem_filterMap]
  constructor
  · rintro ⟨p, ⟨n', hn', hy⟩, hp⟩
    have := (yieldOf_some hy).1
    have e : n' = n := by rw [← this, hp]
    subst e
    exact ⟨hn', by simp [hy]⟩
  · rintro ⟨hn, hy⟩
    obtain ⟨p, hp⟩ := Option.isSome_iff_exists.mp hy
    exact ⟨p, ⟨n, hn, hp⟩, (yieldOf_some hp).1⟩

end LccModel.ClassAttrs

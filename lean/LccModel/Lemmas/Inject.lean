/-
  Helper lemmas for C14 (injected attributes): the dict built by `_load_injected_fixtures`, and the
  correspondence between the declared suite tree (`DSuite`) and its lowering to `Fixture.Suite`.
  Core Lean only.
-/
import LccModel.Model.Inject
import LccModel.Lemmas.FixtureCheck

namespace LccModel.Inject
open LccModel.Prepare

theorem isOk_iff {ε α : Type} (x : Except ε α) : x.isOk = true ↔ ∃ r, x = .ok r := by
  cases x <;> simp [Except.isOk, Except.toBool]

/-! ### `dictAdd` -/

/-- the dict holds attribute `n` under fixture name `x` -/
def Has (d : List (String × List String)) (x n : String) : Prop := ∃ vs, (x, vs) ∈ d ∧ n ∈ vs

theorem mem_keys_dictAdd (d : List (String × List String)) (k v x : String) :
    x ∈ (dictAdd d k v).map (·.1) ↔ x ∈ d.map (·.1) ∨ x = k := by
  induction d with
  | nil => simp [dictAdd]
  | cons kv rest ih =>
    obtain ⟨k', vs⟩ := kv
    unfold dictAdd
    by_cases h : k' = k
    · subst h; simp only [if_true, List.map_cons, List.mem_cons]; grind
    · simp only [if_neg h, List.map_cons, List.mem_cons, ih]; grind

theorem dictAdd_nodup (d : List (String × List String)) (k v : String) (h : (d.map (·.1)).Nodup) :
    ((dictAdd d k v).map (·.1)).Nodup := by
  induction d with
  | nil => simp [dictAdd]
  | cons kv rest ih =>
    obtain ⟨k', vs⟩ := kv
    unfold dictAdd
    simp only [List.map_cons, List.nodup_cons] at h
    by_cases hk : k' = k
    · subst hk; simp only [if_true, List.map_cons, List.nodup_cons]; exact h
    · simp only [if_neg hk, List.map_cons, List.nodup_cons]
      refine ⟨?_, ih h.2⟩
      intro hm
      rcases (mem_keys_dictAdd rest k v k').mp hm with hm | hm
      · exact h.1 hm
      · exact hk hm

theorem has_cons (kv : String × List String) (rest : List (String × List String)) (x n : String) :
    Has (kv :: rest) x n ↔ (kv.1 = x ∧ n ∈ kv.2) ∨ Has rest x n := by
  obtain ⟨k', vs⟩ := kv
  unfold Has
  constructor
  · rintro ⟨ws, hm, hn⟩
    rcases List.mem_cons.mp hm with e | hm
    · injection e with e1 e2; subst e1; subst e2; exact .inl ⟨rfl, hn⟩
    · exact .inr ⟨ws, hm, hn⟩
  · rintro (⟨e, hn⟩ | ⟨ws, hm, hn⟩)
    · simp only at e hn; subst e; exact ⟨vs, List.mem_cons_self, hn⟩
    · exact ⟨ws, List.mem_cons_of_mem _ hm, hn⟩

theorem has_dictAdd (d : List (String × List String)) (k v x n : String) :
    Has (dictAdd d k v) x n ↔ Has d x n ∨ (x = k ∧ n = v) := by
  induction d with
  | nil => simp [dictAdd, Has]; grind
  | cons kv rest ih =>
    obtain ⟨k', vs⟩ := kv
    unfold dictAdd
    by_cases h : k' = k
    · subst h
      simp only [if_true, has_cons, List.mem_append, List.mem_singleton]
      grind
    · simp only [if_neg h, has_cons, ih]
      grind

/-! ### the fold of `_load_injected_fixtures` -/

abbrev step (d : List (String × List String)) (a : Attr) : List (String × List String) := dictAdd d a.key a.name

theorem mem_keys_fold (l : List Attr) : ∀ (acc : List (String × List String)) (x : String),
    x ∈ (l.foldl step acc).map (·.1) ↔ x ∈ acc.map (·.1) ∨ ∃ a ∈ l, a.key = x := by
  induction l with
  | nil => intro acc x; simp
  | cons a rest ih =>
    intro acc x
    simp only [List.foldl_cons, ih, step, mem_keys_dictAdd, List.mem_cons]
    grind

theorem has_fold (l : List Attr) : ∀ (acc : List (String × List String)) (x n : String),
    Has (l.foldl step acc) x n ↔ Has acc x n ∨ ∃ a ∈ l, a.key = x ∧ a.name = n := by
  induction l with
  | nil => intro acc x n; simp
  | cons a rest ih =>
    intro acc x n
    simp only [List.foldl_cons, ih, step, has_dictAdd, List.mem_cons]
    grind

theorem fold_nodup (l : List Attr) : ∀ (acc : List (String × List String)), (acc.map (·.1)).Nodup →
    ((l.foldl step acc).map (·.1)).Nodup := by
  induction l with
  | nil => intro acc h; exact h
  | cons a rest ih => intro acc h; exact ih _ (dictAdd_nodup acc a.key a.name h)

/-! ### facts about `loadInjected` -/

theorem mem_injectedNames (attrs : List Attr) (x : String) :
    x ∈ injectedNames attrs ↔ ∃ a ∈ attrs, a.discovered = true ∧ a.key = x := by
  unfold injectedNames loadInjected
  rw [show (fun d (a : Attr) => dictAdd d a.key a.name) = step from rfl, mem_keys_fold]
  simp only [List.map_nil, List.not_mem_nil, false_or, List.mem_filter]
  constructor
  · rintro ⟨a, ⟨h1, h2⟩, h3⟩; exact ⟨a, h1, h2, h3⟩
  · rintro ⟨a, h1, h2, h3⟩; exact ⟨a, ⟨h1, h2⟩, h3⟩

theorem injectedNames_nodup (attrs : List Attr) : (injectedNames attrs).Nodup := by
  unfold injectedNames loadInjected
  exact fold_nodup _ [] (by simp)

/-- the dict holds attribute `n` under fixture `x` iff a discovered declaration `n = inject_fixture(x)` exists -/
theorem has_loadInjected (attrs : List Attr) (x n : String) :
    Has (loadInjected attrs) x n ↔ ∃ a ∈ attrs, a.discovered = true ∧ a.key = x ∧ a.name = n := by
  unfold loadInjected
  rw [show (fun d (a : Attr) => dictAdd d a.key a.name) = step from rfl, has_fold]
  have h0 : ¬ Has [] x n := by rintro ⟨_, hm, _⟩; cases hm
  simp only [h0, false_or, List.mem_filter]
  constructor
  · rintro ⟨a, ⟨h1, h2⟩, h3⟩; exact ⟨a, h1, h2, h3⟩
  · rintro ⟨a, h1, h2, h3⟩; exact ⟨a, ⟨h1, h2⟩, h3⟩

theorem mem_assigned (attrs : List Attr) (n : String) :
    n ∈ assigned attrs ↔ ∃ a ∈ attrs, a.discovered = true ∧ a.name = n := by
  unfold assigned
  rw [List.mem_flatMap]
  constructor
  · rintro ⟨⟨x, vs⟩, hm, hn⟩
    obtain ⟨a, ha, hd, _, hname⟩ := (has_loadInjected attrs x n).mp ⟨vs, hm, hn⟩
    exact ⟨a, ha, hd, hname⟩
  · rintro ⟨a, ha, hd, hname⟩
    obtain ⟨vs, hm, hn⟩ := (has_loadInjected attrs a.key n).mpr ⟨a, ha, hd, rfl, hname⟩
    exact ⟨(a.key, vs), hm, hn⟩

/-! ### declared tree ↔ lowered tree -/

theorem toFixture_fixtures (d : DSuite) :
    d.toFixture.fixtures = Fixture.oset (injectedNames d.attrs ++ d.setupArgs) := by
  cases d; rfl

theorem toFixture_tests (d : DSuite) : d.toFixture.tests = d.tests.map PTest.toFixture := by
  cases d; rfl

theorem toFixture_path (d : DSuite) : d.toFixture.path = d.path := by
  cases d; rfl

theorem toFixture_disabled (d : DSuite) : d.toFixture.disabled = d.disabled := by
  cases d; rfl

mutual
theorem flatten_lower : ∀ (d : DSuite),
    Fixture.flattenSuite (toFixtureSuite (lower d)) = (flattenD d).map DSuite.toFixture
  | .mk path dis attrs args props tags tests subs => by
    simp only [lower, toFixtureSuite, Fixture.flattenSuite, flattenD, List.map_cons, flatten_lowerL subs]
    rfl
theorem flatten_lowerL : ∀ (S : List DSuite),
    Fixture.flattenSuites (toFixtureSuites (lowerL S)) = (flattenDL S).map DSuite.toFixture
  | [] => rfl
  | d :: rest => by
    simp only [lowerL, toFixtureSuites, Fixture.flattenSuites, flattenDL, List.map_append,
      flatten_lower d, flatten_lowerL rest]
end

mutual
theorem withInh_lower : ∀ (inh : Bool) (d : DSuite),
    Fixture.withInhSuite inh (toFixtureSuite (lower d)) = (withInhD inh d).map (fun p => (p.1, p.2.toFixture))
  | inh, .mk path dis attrs args props tags tests subs => by
    simp only [lower, toFixtureSuite, Fixture.withInhSuite, withInhD, List.map_cons, withInh_lowerL (inh || dis) subs]
    rfl
theorem withInh_lowerL : ∀ (inh : Bool) (S : List DSuite),
    Fixture.withInhSuites inh (toFixtureSuites (lowerL S)) = (withInhDL inh S).map (fun p => (p.1, p.2.toFixture))
  | _, [] => rfl
  | inh, d :: rest => by
    simp only [lowerL, toFixtureSuites, Fixture.withInhSuites, withInhDL, List.map_append,
      withInh_lower inh d, withInh_lowerL inh rest]
end

end LccModel.Inject

/-
  Helper lemmas for C14 (injected attributes): the dict built by `_load_injected_fixtures`, and the
  correspondence between the declared suite tree (`DSuite`) and its lowering to `Fixture.Suite`.
  Core Lean only.
-/
import LccModel.Model.Inject
import LccModel.Lemmas.FixtureCheck

namespace LccModel.Inject
open LccModel.Prepare

theorem isOk_iff {ε α : Type} (x : Except ε α) : x.isOk = true ↔ ∃ r, x = .ok r := by
  cases x <;> simp [Except.isOk, Except.toBool]

/-! ### `dictSet` -/

theorem mem_keys_dictSet (d : List (String × String)) (k v x : String) :
    x ∈ (dictSet d k v).map (·.1) ↔ x ∈ d.map (·.1) ∨ x = k := by
  induction d with
  | nil => simp [dictSet]
  | cons kv rest ih =>
    obtain ⟨k', v'⟩ := kv
    unfold dictSet
    by_cases h : k' = k
    · subst h; simp only [if_true, List.map_cons, List.mem_cons]; grind
    · simp only [if_neg h, List.map_cons, List.mem_cons, ih]; grind

theorem mem_dictSet (d : List (String × String)) (k v : String) (p : String × String) :
    p ∈ dictSet d k v → p ∈ d ∨ p = (k, v) := by
  induction d with
  | nil => simp [dictSet]
  | cons kv rest ih =>
    obtain ⟨k', v'⟩ := kv
    unfold dictSet
    by_cases h : k' = k
    · subst h; simp only [if_true, List.mem_cons]; grind
    · simp only [if_neg h, List.mem_cons]; grind

theorem dictSet_nodup (d : List (String × String)) (k v : String) (h : (d.map (·.1)).Nodup) :
    ((dictSet d k v).map (·.1)).Nodup := by
  induction d with
  | nil => simp [dictSet]
  | cons kv rest ih =>
    obtain ⟨k', v'⟩ := kv
    unfold dictSet
    simp only [List.map_cons, List.nodup_cons] at h
    by_cases hk : k' = k
    · subst hk; simp only [if_true, List.map_cons, List.nodup_cons]; exact h
    · simp only [if_neg hk, List.map_cons, List.nodup_cons]
      refine ⟨?_, ih h.2⟩
      intro hm
      rcases (mem_keys_dictSet rest k v k').mp hm with hm | hm
      · exact h.1 hm
      · exact hk hm

theorem dictSet_of_not_mem (d : List (String × String)) (k v : String) (h : k ∉ d.map (·.1)) :
    dictSet d k v = d ++ [(k, v)] := by
  induction d with
  | nil => rfl
  | cons kv rest ih =>
    obtain ⟨k', v'⟩ := kv
    simp only [List.map_cons, List.mem_cons, not_or] at h
    unfold dictSet
    rw [if_neg (fun e => h.1 e.symm), ih h.2]
    rfl

/-! ### the fold of `_load_injected_fixtures` -/

abbrev step (d : List (String × String)) (a : Attr) : List (String × String) := dictSet d a.key a.name

theorem mem_keys_fold (l : List Attr) : ∀ (acc : List (String × String)) (x : String),
    x ∈ (l.foldl step acc).map (·.1) ↔ x ∈ acc.map (·.1) ∨ ∃ a ∈ l, a.key = x := by
  induction l with
  | nil => intro acc x; simp
  | cons a rest ih =>
    intro acc x
    simp only [List.foldl_cons, ih, step, mem_keys_dictSet, List.mem_cons]
    grind

theorem mem_fold (l : List Attr) : ∀ (acc : List (String × String)) (p : String × String),
    p ∈ l.foldl step acc → p ∈ acc ∨ ∃ a ∈ l, a.key = p.1 ∧ a.name = p.2 := by
  induction l with
  | nil => intro acc p h; exact .inl h
  | cons a rest ih =>
    intro acc p h
    simp only [List.foldl_cons] at h
    rcases ih _ p h with h | ⟨b, hb, e⟩
    · rcases mem_dictSet acc a.key a.name p h with h | h
      · exact .inl h
      · exact .inr ⟨a, List.mem_cons_self, by rw [h], by rw [h]⟩
    · exact .inr ⟨b, List.mem_cons_of_mem _ hb, e⟩

theorem fold_nodup (l : List Attr) : ∀ (acc : List (String × String)), (acc.map (·.1)).Nodup →
    ((l.foldl step acc).map (·.1)).Nodup := by
  induction l with
  | nil => intro acc h; exact h
  | cons a rest ih => intro acc h; exact ih _ (dictSet_nodup acc a.key a.name h)

theorem fold_eq_append (l : List Attr) : ∀ (acc : List (String × String)),
    (acc.map (·.1) ++ l.map Attr.key).Nodup →
    l.foldl step acc = acc ++ l.map (fun a => (a.key, a.name)) := by
  induction l with
  | nil => intro acc _; simp
  | cons a rest ih =>
    intro acc h
    have hk : a.key ∉ acc.map (·.1) := by
      intro hm
      have := (List.nodup_append.mp h).2.2 _ hm a.key (by simp)
      exact this rfl
    simp only [List.foldl_cons, step, dictSet_of_not_mem acc a.key a.name hk]
    rw [ih]
    · simp
    · have : (acc ++ [(a.key, a.name)]).map (·.1) ++ rest.map Attr.key
          = acc.map (·.1) ++ (a :: rest).map Attr.key := by simp
      rw [this]; exact h

/-! ### facts about `loadInjected` -/

theorem mem_injectedNames (attrs : List Attr) (x : String) :
    x ∈ injectedNames attrs ↔ ∃ a ∈ attrs, a.discovered = true ∧ a.key = x := by
  unfold injectedNames loadInjected
  rw [show (fun d (a : Attr) => dictSet d a.key a.name) = step from rfl, mem_keys_fold]
  simp only [List.map_nil, List.not_mem_nil, false_or, List.mem_filter]
  constructor
  · rintro ⟨a, ⟨h1, h2⟩, h3⟩; exact ⟨a, h1, h2, h3⟩
  · rintro ⟨a, h1, h2, h3⟩; exact ⟨a, ⟨h1, h2⟩, h3⟩

theorem injectedNames_nodup (attrs : List Attr) : (injectedNames attrs).Nodup := by
  unfold injectedNames loadInjected
  exact fold_nodup _ [] (by simp)

theorem mem_loadInjected (attrs : List Attr) (p : String × String) (h : p ∈ loadInjected attrs) :
    ∃ a ∈ attrs, a.discovered = true ∧ a.key = p.1 ∧ a.name = p.2 := by
  unfold loadInjected at h
  rcases mem_fold _ [] p h with h | ⟨a, ha, e⟩
  · simp at h
  · obtain ⟨h1, h2⟩ := List.mem_filter.mp ha
    exact ⟨a, h1, h2, e⟩

theorem loadInjected_of_nodup (attrs : List Attr)
    (h : ((attrs.filter Attr.discovered).map Attr.key).Nodup) :
    loadInjected attrs = (attrs.filter Attr.discovered).map (fun a => (a.key, a.name)) := by
  unfold loadInjected
  rw [show (fun d (a : Attr) => dictSet d a.key a.name) = step from rfl, fold_eq_append _ [] (by simpa using h)]
  simp

/-! ### declared tree ↔ lowered tree -/

theorem toFixture_fixtures (d : DSuite) :
    d.toFixture.fixtures = Fixture.oset (injectedNames d.attrs ++ d.setupArgs) := by
  cases d; rfl

theorem toFixture_tests (d : DSuite) : d.toFixture.tests = d.tests.map PTest.toFixture := by
  cases d; rfl

theorem toFixture_path (d : DSuite) : d.toFixture.path = d.path := by
  cases d; rfl

theorem toFixture_disabled (d : DSuite) : d.toFixture.disabled = d.disabled := by
  cases d; rfl

mutual
theorem flatten_lower : ∀ (d : DSuite),
    Fixture.flattenSuite (toFixtureSuite (lower d)) = (flattenD d).map DSuite.toFixture
  | .mk path dis attrs args props tags tests subs => by
    simp only [lower, toFixtureSuite, Fixture.flattenSuite, flattenD, List.map_cons, flatten_lowerL subs]
    rfl
theorem flatten_lowerL : ∀ (S : List DSuite),
    Fixture.flattenSuites (toFixtureSuites (lowerL S)) = (flattenDL S).map DSuite.toFixture
  | [] => rfl
  | d :: rest => by
    simp only [lowerL, toFixtureSuites, Fixture.flattenSuites, flattenDL, List.map_append,
      flatten_lower d, flatten_lowerL rest]
end

mutual
theorem withInh_lower : ∀ (inh : Bool) (d : DSuite),
    Fixture.withInhSuite inh (toFixtureSuite (lower d)) = (withInhD inh d).map (fun p => (p.1, p.2.toFixture))
  | inh, .mk path dis attrs args props tags tests subs => by
    simp only [lower, toFixtureSuite, Fixture.withInhSuite, withInhD, List.map_cons, withInh_lowerL (inh || dis) subs]
    rfl
theorem withInh_lowerL : ∀ (inh : Bool) (S : List DSuite),
    Fixture.withInhSuites inh (toFixtureSuites (lowerL S)) = (withInhDL inh S).map (fun p => (p.1, p.2.toFixture))
  | _, [] => rfl
  | inh, d :: rest => by
    simp only [lowerL, toFixtureSuites, Fixture.withInhSuites, withInhDL, List.map_append,
      withInh_lower inh d, withInh_lowerL inh rest]
end

end LccModel.Inject

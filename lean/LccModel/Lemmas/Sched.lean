import LccModel.Model.Sched

namespace LccModel.Sched

variable {Tid : Type} [DecidableEq Tid]

/-! ### Destructors of `step` -/

theorem step_start {g : Graph Tid} {n : Nat} {s s' : State Tid} {t : Tid} {c : Bool}
    (h : step g n s (.start t c) = some s') :
    t ∈ g.tasks ∧ s.phase t = .queued ∧ nbRunning g s < n ∧
    s' = { s with
        phase := fun x => if x = t then .running else s.phase x
        mode := fun x => if x = t then some (decideMode g s t c) else s.mode x
        clock := s.clock + 1
        startAt := fun x => if x = t then some s.clock else s.startAt x
        starts := fun x => if x = t then s.starts x + 1 else s.starts x } := by
  simp only [step] at h
  split at h
  · rename_i hc; injection h with h; exact ⟨hc.1, hc.2.1, hc.2.2, h.symm⟩
  · cases h

theorem step_finish {g : Graph Tid} {n : Nat} {s s' : State Tid} {t : Tid} {r : Res}
    (h : step g n s (.finish t r) = some s') :
    t ∈ g.tasks ∧ s.phase t = .running ∧ (∃ m, s.mode t = some m ∧ resAllowed m r = true) ∧
    s' = { s with
        phase := fun x => if x = t then .done else s.phase x
        result := fun x => if x = t then some r else s.result x
        clock := s.clock + 1
        finishAt := fun x => if x = t then some s.clock else s.finishAt x } := by
  simp only [step] at h
  split at h
  · rename_i hc; injection h with h; exact ⟨hc.1, hc.2.1, hc.2.2, h.symm⟩
  · cases h

theorem step_receive {g : Graph Tid} {n : Nat} {s s' : State Tid} {t : Tid}
    (h : step g n s (.receive t) = some s') :
    t ∈ g.tasks ∧ s.phase t = .done ∧
    s' = (if s.aborted then
            release g { s with phase := fun x => if x = t then .completed else s.phase x, clock := s.clock + 1 }
          else dispatch g { s with phase := fun x => if x = t then .completed else s.phase x,
                                   clock := s.clock + 1 } n) := by
  simp only [step] at h
  split at h
  · rename_i hc; injection h with h; exact ⟨hc.1, hc.2, h.symm⟩
  · cases h

theorem step_interrupt {g : Graph Tid} {n : Nat} {s s' : State Tid}
    (h : step g n s .interrupt = some s') :
    s.aborted = false ∧
    s' = release g { s with aborted := true, clock := s.clock + 1 } := by
  simp only [step] at h
  split at h
  · rename_i hc; injection h with h; exact ⟨hc, h.symm⟩
  · cases h

/-! ### `dispatch` -/

theorem popped_runnable {g : Graph Tid} {s : State Tid} {n : Nat} {t : Tid} (h : t ∈ popped g s n) :
    runnable g s t = true := by
  unfold popped at h
  exact (List.mem_filter.mp (List.mem_of_mem_take h)).2

theorem popped_sub_tasks {g : Graph Tid} {s : State Tid} {n : Nat} {t : Tid} (h : t ∈ popped g s n) :
    t ∈ g.tasks := by
  unfold popped at h
  exact (List.mem_filter.mp (List.mem_of_mem_take h)).1

theorem dispatch_phase_cases (g : Graph Tid) (s : State Tid) (n : Nat) (t : Tid) :
    ((dispatch g s n).phase t = s.phase t) ∨
    (t ∈ g.tasks ∧ s.phase t = .remaining ∧ (dispatch g s n).phase t = .queued ∧
      ∀ d ∈ g.deps t, s.phase d = .completed) := by
  unfold dispatch
  by_cases h : t ∈ popped g s n
  · right
    have hr := popped_runnable h
    unfold runnable at hr
    simp only [Bool.and_eq_true, decide_eq_true_eq, List.all_eq_true] at hr
    refine ⟨popped_sub_tasks h, hr.1, by simp [h], hr.2⟩
  · left; simp [h]

theorem dispatch_completed (g : Graph Tid) (s : State Tid) (n : Nat) (d : Tid) (h : s.phase d = .completed) :
    (dispatch g s n).phase d = .completed := by
  rcases dispatch_phase_cases g s n d with h' | ⟨_, h', _, _⟩
  · rw [h', h]
  · rw [h] at h'; cases h'

theorem dispatch_of_ne_remaining (g : Graph Tid) (s : State Tid) (n : Nat) (t : Tid) (h : s.phase t ≠ .remaining) :
    (dispatch g s n).phase t = s.phase t := by
  rcases dispatch_phase_cases g s n t with h' | ⟨_, h', _, _⟩
  · exact h'
  · exact absurd h' h

@[simp] theorem dispatch_result (g : Graph Tid) (s : State Tid) (n : Nat) : (dispatch g s n).result = s.result := rfl
@[simp] theorem dispatch_mode (g : Graph Tid) (s : State Tid) (n : Nat) : (dispatch g s n).mode = s.mode := rfl
@[simp] theorem dispatch_forced (g : Graph Tid) (s : State Tid) (n : Nat) : (dispatch g s n).forced = s.forced := rfl
@[simp] theorem dispatch_aborted (g : Graph Tid) (s : State Tid) (n : Nat) : (dispatch g s n).aborted = s.aborted := rfl
@[simp] theorem dispatch_clock (g : Graph Tid) (s : State Tid) (n : Nat) : (dispatch g s n).clock = s.clock := rfl
@[simp] theorem dispatch_startAt (g : Graph Tid) (s : State Tid) (n : Nat) : (dispatch g s n).startAt = s.startAt := rfl
@[simp] theorem dispatch_finishAt (g : Graph Tid) (s : State Tid) (n : Nat) : (dispatch g s n).finishAt = s.finishAt := rfl
@[simp] theorem dispatch_starts (g : Graph Tid) (s : State Tid) (n : Nat) : (dispatch g s n).starts = s.starts := rfl

/-! ### `release` (one round of the repaired `skip_all_tasks`): an unbounded `dispatch` that also marks `forced` -/

theorem release_eq (g : Graph Tid) (s : State Tid) :
    release g s = { dispatch g s g.tasks.length with
                    forced := fun t => if t ∈ popped g s g.tasks.length then true else s.forced t } := rfl

theorem release_phase (g : Graph Tid) (s : State Tid) : (release g s).phase = (dispatch g s g.tasks.length).phase := rfl
@[simp] theorem release_result (g : Graph Tid) (s : State Tid) : (release g s).result = s.result := rfl
@[simp] theorem release_mode (g : Graph Tid) (s : State Tid) : (release g s).mode = s.mode := rfl
@[simp] theorem release_aborted (g : Graph Tid) (s : State Tid) : (release g s).aborted = s.aborted := rfl
@[simp] theorem release_clock (g : Graph Tid) (s : State Tid) : (release g s).clock = s.clock := rfl
@[simp] theorem release_startAt (g : Graph Tid) (s : State Tid) : (release g s).startAt = s.startAt := rfl
@[simp] theorem release_finishAt (g : Graph Tid) (s : State Tid) : (release g s).finishAt = s.finishAt := rfl
@[simp] theorem release_starts (g : Graph Tid) (s : State Tid) : (release g s).starts = s.starts := rfl

/-- a task is marked `forced` by `release` exactly when `release` queues it -/
theorem release_forced_cases (g : Graph Tid) (s : State Tid) (t : Tid) :
    ((release g s).forced t = s.forced t ∧ (release g s).phase t = s.phase t) ∨
    (t ∈ g.tasks ∧ s.phase t = .remaining ∧ (release g s).phase t = .queued ∧ (release g s).forced t = true ∧
      ∀ d ∈ g.deps t, s.phase d = .completed) := by
  by_cases h : t ∈ popped g s g.tasks.length
  · right
    have hr := popped_runnable h
    unfold runnable at hr
    simp only [Bool.and_eq_true, decide_eq_true_eq, List.all_eq_true] at hr
    refine ⟨popped_sub_tasks h, hr.1, by simp [release, h], by simp [release, h], hr.2⟩
  · left; simp [release, h]

/-! ### The invariant -/

/-- Everything the property theorems need, in one invariant of reachable states.  The ordering facts
    (`deps`, `order`) hold for EVERY task, whether it was released by the normal loop or, after a keyboard
    interrupt, by `skip_all_tasks`: there is no exception for interrupted runs. -/
structure Inv (g : Graph Tid) (s : State Tid) : Prop where
  /-- a task that left `remaining_tasks` has all its dependencies completed -/
  deps     : ∀ t, s.phase t ≠ .remaining → ∀ d ∈ g.deps t, s.phase d = .completed
  /-- only the interrupt path forces tasks, and a forced task has left `remaining_tasks` -/
  forcedAb : ∀ t, s.forced t = true → s.aborted = true
  forcedNotRem : ∀ t, s.forced t = true → s.phase t ≠ .remaining
  /-- a task inside a worker, or past it, has its decision recorded -/
  modeSome : ∀ t, (s.phase t = .running ∨ s.phase t = .done ∨ s.phase t = .completed) → ∃ m, s.mode t = some m
  /-- exactly-once bookkeeping -/
  starts   : ∀ t, s.starts t = if (s.phase t).rank ≤ 2 then 1 else 0
  startAtSome : ∀ t, (s.startAt t).isSome = decide ((s.phase t).rank ≤ 2)
  startLt  : ∀ t i, s.startAt t = some i → i < s.clock
  finishSome : ∀ t, (s.phase t = .done ∨ s.phase t = .completed) → ∃ j, s.finishAt t = some j ∧ j < s.clock
  resultSome : ∀ t, (s.phase t = .done ∨ s.phase t = .completed) →
                 ∃ r m, s.result t = some r ∧ s.mode t = some m ∧ resAllowed m r = true
  /-- ordering: a task starts only after every dependency has finished -/
  order    : ∀ t i, s.startAt t = some i →
                 ∀ d ∈ g.deps t, s.phase d = .completed ∧ ∃ j, s.finishAt d = some j ∧ j < i
  /-- a task that was run (not skipped) had every on-success dependency end in success -/
  runOk    : ∀ t, s.mode t = some .run → s.forced t = false ∧
                 ∀ d ∈ g.succDeps t, s.phase d = .completed ∧ s.result d = some .success
  /-- a forced task is always skipped -/
  forcedSkip : ∀ t m, s.forced t = true → s.mode t = some m → m = .skip
  /-- no decision is recorded before a worker picks the task -/
  modeNone : ∀ t, (s.phase t = .remaining ∨ s.phase t = .queued) → s.mode t = none
  /-- a task finishes after it started; nothing finishes before being picked by a worker -/
  finishAfterStart : ∀ t j, s.finishAt t = some j → ∃ i, s.startAt t = some i ∧ i < j

theorem succDeps_sub_deps (g : Graph Tid) (t d : Tid) (h : d ∈ g.succDeps t) : d ∈ g.deps t := by
  unfold Graph.deps; exact List.mem_append.mpr (Or.inr h)

theorem complDeps_sub_deps (g : Graph Tid) (t d : Tid) (h : d ∈ g.complDeps t) : d ∈ g.deps t := by
  unfold Graph.deps; exact List.mem_append.mpr (Or.inl h)

theorem inv_empty (g : Graph Tid) : Inv g empty := by
  constructor <;> simp [empty, Phase.rank]

theorem inv_dispatch (g : Graph Tid) (n : Nat) (s : State Tid) (h : Inv g s) :
    Inv g (dispatch g s n) := by
  have hne : ∀ t, (dispatch g s n).phase t ≠ .remaining → s.phase t ≠ .remaining ∨
      (s.phase t = .remaining ∧ (dispatch g s n).phase t = .queued ∧ ∀ d ∈ g.deps t, s.phase d = .completed) := by
    intro t ht
    rcases dispatch_phase_cases g s n t with h' | ⟨_, h1, h2, h3⟩
    · left; rw [h'] at ht; exact ht
    · right; exact ⟨h1, h2, h3⟩
  have hsame : ∀ t, s.phase t ≠ .remaining → (dispatch g s n).phase t = s.phase t :=
    fun t ht => dispatch_of_ne_remaining g s n t ht
  have hq : ∀ t, s.phase t = .remaining →
      (dispatch g s n).phase t = .remaining ∨ (dispatch g s n).phase t = .queued := by
    intro t ht
    rcases dispatch_phase_cases g s n t with h' | ⟨_, _, h2, _⟩
    · left; rw [h', ht]
    · right; exact h2
  constructor
  · intro t ht d hd
    rcases hne t ht with h1 | ⟨_, _, h3⟩
    · exact dispatch_completed g s n d (h.deps t h1 d hd)
    · exact dispatch_completed g s n d (h3 d hd)
  · intro t ht; simp only [dispatch_forced, dispatch_aborted] at *; exact h.forcedAb t ht
  · intro t ht
    simp only [dispatch_forced] at ht
    rw [hsame t (h.forcedNotRem t ht)]; exact h.forcedNotRem t ht
  · intro t ht
    simp only [dispatch_mode]
    by_cases hr : s.phase t = .remaining
    · rcases hq t hr with h1 | h1 <;> rw [h1] at ht <;> simp at ht
    · rw [hsame t hr] at ht; exact h.modeSome t ht
  · intro t
    simp only [dispatch_starts]
    by_cases hr : s.phase t = .remaining
    · have := h.starts t
      rw [hr] at this
      rcases hq t hr with h1 | h1 <;> rw [h1] <;> simpa [Phase.rank] using this
    · rw [hsame t hr]; exact h.starts t
  · intro t
    simp only [dispatch_startAt]
    by_cases hr : s.phase t = .remaining
    · have := h.startAtSome t
      rw [hr] at this
      rcases hq t hr with h1 | h1 <;> rw [h1] <;> simpa [Phase.rank] using this
    · rw [hsame t hr]; exact h.startAtSome t
  · intro t i hi; simp only [dispatch_startAt, dispatch_clock] at *; exact h.startLt t i hi
  · intro t ht
    simp only [dispatch_finishAt, dispatch_clock]
    by_cases hr : s.phase t = .remaining
    · rcases hq t hr with h1 | h1 <;> rw [h1] at ht <;> simp at ht
    · rw [hsame t hr] at ht; exact h.finishSome t ht
  · intro t ht
    simp only [dispatch_result, dispatch_mode]
    by_cases hr : s.phase t = .remaining
    · rcases hq t hr with h1 | h1 <;> rw [h1] at ht <;> simp at ht
    · rw [hsame t hr] at ht; exact h.resultSome t ht
  · intro t i hi d hd
    simp only [dispatch_startAt, dispatch_finishAt] at *
    obtain ⟨h1, h2⟩ := h.order t i hi d hd
    exact ⟨dispatch_completed g s n d h1, h2⟩
  · intro t ht
    simp only [dispatch_mode, dispatch_forced, dispatch_result] at *
    obtain ⟨h1, h2⟩ := h.runOk t ht
    exact ⟨h1, fun d hd => ⟨dispatch_completed g s n d (h2 d hd).1, (h2 d hd).2⟩⟩
  · intro t m hf hm
    simp only [dispatch_mode, dispatch_forced] at *
    exact h.forcedSkip t m hf hm
  · intro t ht
    simp only [dispatch_mode]
    by_cases hr : s.phase t = .remaining
    · exact h.modeNone t (Or.inl hr)
    · rw [hsame t hr] at ht; exact h.modeNone t ht
  · intro t j hj; simp only [dispatch_finishAt, dispatch_startAt] at *; exact h.finishAfterStart t j hj

theorem inv_init (g : Graph Tid) (n : Nat) : Inv g (init g n) :=
  inv_dispatch g n empty (inv_empty g)

/-- marking queued tasks as `forced` in an aborted state keeps the invariant -/
theorem inv_force (g : Graph Tid) (s : State Tid) (F : Tid → Bool) (h : Inv g s) (hab : s.aborted = true)
    (hF : ∀ t, F t = s.forced t ∨ (F t = true ∧ s.phase t = .queued)) : Inv g { s with forced := F } := by
  constructor <;> dsimp only
  · exact h.deps
  · intro _ _; exact hab
  · intro t ht
    rcases hF t with e | ⟨_, hq⟩
    · exact h.forcedNotRem t (e ▸ ht)
    · rw [hq]; simp
  · exact h.modeSome
  · exact h.starts
  · exact h.startAtSome
  · exact h.startLt
  · exact h.finishSome
  · exact h.resultSome
  · exact h.order
  · intro t ht
    obtain ⟨h1, h2⟩ := h.runOk t ht
    refine ⟨?_, h2⟩
    rcases hF t with e | ⟨_, hq⟩
    · rw [e]; exact h1
    · have := h.modeNone t (Or.inr hq); rw [this] at ht; cases ht
  · intro t m hf hm
    rcases hF t with e | ⟨_, hq⟩
    · exact h.forcedSkip t m (e ▸ hf) hm
    · have := h.modeNone t (Or.inr hq); rw [this] at hm; cases hm
  · exact h.modeNone
  · exact h.finishAfterStart

/-- one round of `skip_all_tasks` keeps the invariant: the tasks it queues have all their dependencies completed -/
theorem inv_release (g : Graph Tid) (s : State Tid) (h : Inv g s) (hab : s.aborted = true) : Inv g (release g s) := by
  rw [release_eq]
  apply inv_force g _ _ (inv_dispatch g g.tasks.length s h) (by simpa using hab)
  intro t
  by_cases hp : t ∈ popped g s g.tasks.length
  · right; exact ⟨by simp [hp], by simp [dispatch, hp]⟩
  · left; simp [hp]

theorem depFailed_false {g : Graph Tid} {s : State Tid} {t : Tid} (h : depFailed g s t = false) :
    ∀ d ∈ g.succDeps t, s.result d = some .success := by
  intro d hd
  unfold depFailed at h
  have := List.any_eq_false.mp h d hd
  simpa using this

theorem decideMode_run {g : Graph Tid} {s : State Tid} {t : Tid} {c : Bool} (h : decideMode g s t c = .run) :
    s.forced t = false ∧ depFailed g s t = false ∧ c = false := by
  unfold decideMode at h
  by_cases h1 : s.forced t = true
  · simp [h1] at h
  · by_cases h2 : depFailed g s t = true
    · simp [h1, h2] at h
    · by_cases h3 : c = true
      · simp [h1, h2, h3] at h
      · exact ⟨by simpa using h1, by simpa using h2, by simpa using h3⟩

theorem decideMode_forced {g : Graph Tid} {s : State Tid} {t : Tid} {c : Bool} (h : s.forced t = true) :
    decideMode g s t c = .skip := by
  unfold decideMode; simp [h]

theorem inv_step (g : Graph Tid) (n : Nat) (s s' : State Tid) (l : Label Tid) (h : Inv g s)
    (hs : step g n s l = some s') : Inv g s' := by
  cases l with
  | start t c =>
    obtain ⟨htm, hq, _, rfl⟩ := step_start hs
    have hph : ∀ x, x ≠ t → (if x = t then Phase.running else s.phase x) = s.phase x := by
      intro x hx; simp [hx]
    constructor <;> dsimp only
    · intro x hx d hd
      have hdc : s.phase d = .completed := by
        by_cases e : x = t
        · subst e; exact h.deps x (by rw [hq]; simp) d hd
        · rw [hph x e] at hx; exact h.deps x hx d hd
      have : d ≠ t := by intro e; subst e; rw [hq] at hdc; cases hdc
      rw [hph d this]; exact hdc
    · exact h.forcedAb
    · intro x hx
      by_cases e : x = t
      · simp [e]
      · rw [hph x e]; exact h.forcedNotRem x hx
    · intro x hx
      by_cases e : x = t
      · simp [e]
      · simp only [e, if_false] at hx ⊢; exact h.modeSome x hx
    · intro x
      by_cases e : x = t
      · subst e
        have := h.starts x
        rw [hq] at this
        simp [Phase.rank] at this ⊢
        omega
      · simp only [e, if_false]; exact h.starts x
    · intro x
      by_cases e : x = t
      · simp [e, Phase.rank]
      · simp only [e, if_false]; exact h.startAtSome x
    · intro x i hi
      by_cases e : x = t
      · simp only [e, if_true] at hi; injection hi with hi; omega
      · simp only [e, if_false] at hi; have := h.startLt x i hi; omega
    · intro x hx
      by_cases e : x = t
      · simp [e] at hx
      · simp only [e, if_false] at hx
        obtain ⟨j, hj, hlt⟩ := h.finishSome x hx
        exact ⟨j, hj, by omega⟩
    · intro x hx
      by_cases e : x = t
      · simp [e] at hx
      · simp only [e, if_false] at hx ⊢
        exact h.resultSome x hx
    · intro x i hi d hd
      by_cases e : x = t
      · subst e
        simp only [if_true] at hi; injection hi with hi; subst hi
        have hdc := h.deps x (by rw [hq]; simp) d hd
        have hdne : d ≠ x := by intro e; subst e; rw [hq] at hdc; cases hdc
        obtain ⟨j, hj, hlt⟩ := h.finishSome d (Or.inr hdc)
        exact ⟨by rw [hph d hdne]; exact hdc, j, hj, hlt⟩
      · simp only [e, if_false] at hi
        obtain ⟨h1, h2⟩ := h.order x i hi d hd
        have hdne : d ≠ t := by intro e; subst e; rw [hq] at h1; cases h1
        exact ⟨by rw [hph d hdne]; exact h1, h2⟩
    · intro x hx
      by_cases e : x = t
      · subst e
        simp only [if_true] at hx; injection hx with hx
        obtain ⟨hf, hdf, _⟩ := decideMode_run hx
        refine ⟨hf, fun d hd => ?_⟩
        have hdc := h.deps x (by rw [hq]; simp) d (succDeps_sub_deps g x d hd)
        have hdne : d ≠ x := by intro e; subst e; rw [hq] at hdc; cases hdc
        exact ⟨by rw [hph d hdne]; exact hdc, depFailed_false hdf d hd⟩
      · simp only [e, if_false] at hx
        obtain ⟨h1, h2⟩ := h.runOk x hx
        refine ⟨h1, fun d hd => ?_⟩
        have hdc := (h2 d hd).1
        have hdne : d ≠ t := by intro e; subst e; rw [hq] at hdc; cases hdc
        exact ⟨by rw [hph d hdne]; exact hdc, (h2 d hd).2⟩
    · intro x m hf hm
      by_cases e : x = t
      · subst e
        simp only [if_true] at hm; injection hm with hm
        rw [decideMode_forced hf] at hm; exact hm.symm
      · simp only [e, if_false] at hm; exact h.forcedSkip x m hf hm
    · intro x hx
      by_cases e : x = t
      · simp [e] at hx
      · simp only [e, if_false] at hx ⊢; exact h.modeNone x hx
    · intro x j hj
      by_cases e : x = t
      · subst e
        -- a queued task has not finished: finishAt x = some j would give startAt x = some _
        obtain ⟨i, hi, _⟩ := h.finishAfterStart x j hj
        have := h.startAtSome x
        rw [hq, hi] at this
        simp [Phase.rank] at this
      · obtain ⟨i, hi, hlt⟩ := h.finishAfterStart x j hj
        exact ⟨i, by simp only [e, if_false]; exact hi, hlt⟩
  | finish t r =>
    obtain ⟨htm, hq, ⟨m, hm, hra⟩, rfl⟩ := step_finish hs
    have hph : ∀ x, x ≠ t → (if x = t then Phase.done else s.phase x) = s.phase x := by
      intro x hx; simp [hx]
    constructor <;> dsimp only
    · intro x hx d hd
      have hdc : s.phase d = .completed := by
        by_cases e : x = t
        · subst e; exact h.deps x (by rw [hq]; simp) d hd
        · rw [hph x e] at hx; exact h.deps x hx d hd
      have : d ≠ t := by intro e; subst e; rw [hq] at hdc; cases hdc
      rw [hph d this]; exact hdc
    · exact h.forcedAb
    · intro x hx
      by_cases e : x = t
      · simp [e]
      · rw [hph x e]; exact h.forcedNotRem x hx
    · intro x hx
      by_cases e : x = t
      · subst e; exact ⟨m, hm⟩
      · simp only [e, if_false] at hx; exact h.modeSome x hx
    · intro x
      by_cases e : x = t
      · subst e
        have := h.starts x
        rw [hq] at this
        simpa [Phase.rank] using this
      · simp only [e, if_false]; exact h.starts x
    · intro x
      by_cases e : x = t
      · subst e
        have := h.startAtSome x
        rw [hq] at this
        simpa [Phase.rank] using this
      · simp only [e, if_false]; exact h.startAtSome x
    · intro x i hi; have := h.startLt x i hi; omega
    · intro x hx
      by_cases e : x = t
      · subst e; exact ⟨s.clock, by simp, by omega⟩
      · simp only [e, if_false] at hx ⊢
        obtain ⟨j, hj, hlt⟩ := h.finishSome x hx
        exact ⟨j, hj, by omega⟩
    · intro x hx
      by_cases e : x = t
      · subst e; exact ⟨r, m, by simp, hm, hra⟩
      · simp only [e, if_false] at hx ⊢
        exact h.resultSome x hx
    · intro x i hi d hd
      obtain ⟨h1, j, hj, hlt⟩ := h.order x i hi d hd
      have hdne : d ≠ t := by intro e; subst e; rw [hq] at h1; cases h1
      exact ⟨by rw [hph d hdne]; exact h1, j, by simp only [hdne, if_false]; exact hj, hlt⟩
    · intro x hx
      obtain ⟨h1, h2⟩ := h.runOk x hx
      refine ⟨h1, fun d hd => ?_⟩
      have hdc := (h2 d hd).1
      have hdne : d ≠ t := by intro e; subst e; rw [hq] at hdc; cases hdc
      exact ⟨by rw [hph d hdne]; exact hdc, by simp only [hdne, if_false]; exact (h2 d hd).2⟩
    · exact h.forcedSkip
    · intro x hx
      by_cases e : x = t
      · simp [e] at hx
      · simp only [e, if_false] at hx; exact h.modeNone x hx
    · intro x j hj
      by_cases e : x = t
      · subst e
        simp only [if_true] at hj; injection hj with hj; subst hj
        have := h.startAtSome x
        rw [hq] at this
        cases hsa : s.startAt x with
        | none => rw [hsa] at this; simp [Phase.rank] at this
        | some i => exact ⟨i, rfl, h.startLt x i hsa⟩
      · simp only [e, if_false] at hj; exact h.finishAfterStart x j hj
  | receive t =>
    obtain ⟨htm, hq, rfl⟩ := step_receive hs
    -- the state before the dispatch / release
    have hph : ∀ x, x ≠ t → (if x = t then Phase.completed else s.phase x) = s.phase x := by
      intro x hx; simp [hx]
    have h1 : Inv g { s with phase := fun x => if x = t then .completed else s.phase x, clock := s.clock + 1 } := by
      constructor <;> dsimp only
      · intro x hx d hd
        have hdc : s.phase d = .completed := by
          by_cases e : x = t
          · subst e; exact h.deps x (by rw [hq]; simp) d hd
          · rw [hph x e] at hx; exact h.deps x hx d hd
        by_cases e : d = t
        · simp [e]
        · rw [hph d e]; exact hdc
      · exact h.forcedAb
      · intro x hx
        by_cases e : x = t
        · simp [e]
        · rw [hph x e]; exact h.forcedNotRem x hx
      · intro x hx
        by_cases e : x = t
        · subst e; exact h.modeSome x (Or.inr (Or.inl hq))
        · simp only [e, if_false] at hx; exact h.modeSome x hx
      · intro x
        by_cases e : x = t
        · subst e
          have := h.starts x
          rw [hq] at this
          simpa [Phase.rank] using this
        · simp only [e, if_false]; exact h.starts x
      · intro x
        by_cases e : x = t
        · subst e
          have := h.startAtSome x
          rw [hq] at this
          simpa [Phase.rank] using this
        · simp only [e, if_false]; exact h.startAtSome x
      · intro x i hi; have := h.startLt x i hi; omega
      · intro x hx
        have : s.phase x = .done ∨ s.phase x = .completed := by
          by_cases e : x = t
          · subst e; exact Or.inl hq
          · simp only [e, if_false] at hx; exact hx
        obtain ⟨j, hj, hlt⟩ := h.finishSome x this
        exact ⟨j, hj, by omega⟩
      · intro x hx
        have : s.phase x = .done ∨ s.phase x = .completed := by
          by_cases e : x = t
          · subst e; exact Or.inl hq
          · simp only [e, if_false] at hx; exact hx
        exact h.resultSome x this
      · intro x i hi d hd
        obtain ⟨h1, h2⟩ := h.order x i hi d hd
        refine ⟨?_, h2⟩
        by_cases e : d = t
        · simp [e]
        · rw [hph d e]; exact h1
      · intro x hx
        obtain ⟨h1, h2⟩ := h.runOk x hx
        refine ⟨h1, fun d hd => ⟨?_, (h2 d hd).2⟩⟩
        by_cases e : d = t
        · simp [e]
        · rw [hph d e]; exact (h2 d hd).1
      · exact h.forcedSkip
      · intro x hx
        by_cases e : x = t
        · simp [e] at hx
        · simp only [e, if_false] at hx; exact h.modeNone x hx
      · exact h.finishAfterStart
    split
    · rename_i hab
      exact inv_release g _ h1 (by simpa using hab)
    · exact inv_dispatch g n _ h1
  | interrupt =>
    obtain ⟨hab, rfl⟩ := step_interrupt hs
    apply inv_release g _ _ rfl
    constructor <;> dsimp only
    · exact h.deps
    · intro _ _; rfl
    · exact h.forcedNotRem
    · exact h.modeSome
    · exact h.starts
    · exact h.startAtSome
    · intro x i hi; have := h.startLt x i hi; omega
    · intro x hx
      obtain ⟨j, hj, hlt⟩ := h.finishSome x hx
      exact ⟨j, hj, by omega⟩
    · exact h.resultSome
    · exact h.order
    · exact h.runOk
    · exact h.forcedSkip
    · exact h.modeNone
    · exact h.finishAfterStart

end LccModel.Sched

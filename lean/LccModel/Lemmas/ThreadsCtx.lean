/-
  Lemmas about M14d (`Model/ThreadsCtx.lean`): the invariant of the thread-keyed slot under every
  sequence of accesses and context copies.
-/
import LccModel.Model.ThreadsCtx

namespace LccModel.Threads.Ctx

/-- invariant of the code as it is (slot keyed by the OS thread) -/
structure Inv (s : St) : Prop where
  slotOwn : ∀ t o, s.slot t = some o → s.creator o = some t ∧ o < s.next
  creatorSlot : ∀ o t, s.creator o = some t → o < s.next ∧ s.slot t = some o
  creat : ∀ t, s.creations t = if (s.slot t).isSome then 1 else 0
  ret : ∀ p ∈ s.returned, s.slot p.1 = some p.2

theorem inv_init : Inv init := by
  constructor <;> simp [init]

theorem step_inv {s : St} (h : Inv s) (e : Ev) : Inv (step .thread s e) := by
  obtain ⟨h1, h2, h3, h4⟩ := h
  cases e with
  | copy c c' => exact ⟨h1, h2, h3, h4⟩
  | get t c =>
    simp only [step, keyOf]
    cases hs : s.slot t with
    | some o =>
      refine ⟨h1, h2, h3, ?_⟩
      intro p hp
      simp only [List.mem_append, List.mem_singleton] at hp
      rcases hp with hp | hp
      · exact h4 p hp
      · subst hp; exact hs
    | none =>
      constructor
      · intro u o hu
        dsimp only at hu ⊢
        by_cases hut : u = t
        · subst hut; simp only [if_true] at hu; injection hu with hu; subst hu; simp
        · simp only [hut, if_false] at hu
          obtain ⟨a, b⟩ := h1 u o hu
          have : o ≠ s.next := by omega
          simp only [this, if_false]; exact ⟨a, by omega⟩
      · intro o u hu
        dsimp only at hu ⊢
        by_cases ho : o = s.next
        · subst ho; simp only [if_true] at hu; injection hu with hu; subst hu; simp
        · simp only [ho, if_false] at hu
          obtain ⟨a, b⟩ := h2 o u hu
          have hut : u ≠ t := by intro e; subst e; rw [hs] at b; cases b
          simp only [hut, if_false]; exact ⟨by omega, b⟩
      · intro u
        dsimp only
        by_cases hut : u = t
        · subst hut; have := h3 u; rw [hs] at this; simp at this; simp [this]
        · simp only [hut, if_false]; exact h3 u
      · intro p hp
        dsimp only at hp ⊢
        simp only [List.mem_append, List.mem_singleton] at hp
        rcases hp with hp | hp
        · have := h4 p hp
          have hpt : p.1 ≠ t := by intro e; rw [e, hs] at this; cases this
          simp only [hpt, if_false]; exact this
        · subst hp; simp

theorem run_inv : ∀ (es : List Ev) {s : St}, Inv s → Inv (run .thread s es)
  | [], _, h => h
  | e :: es, _, h => run_inv es (step_inv h e)

/-- with the thread-keyed slot the contexts play no role at all -/
theorem step_eraseCtx (s : St) (e : Ev) : step .thread s e.eraseCtx = step .thread s e := by
  cases e <;> rfl

theorem run_eraseCtx : ∀ (es : List Ev) (s : St), run .thread s (es.map Ev.eraseCtx) = run .thread s es
  | [], _ => rfl
  | e :: es, s => by simp only [List.map, run, step_eraseCtx]; exact run_eraseCtx es _

end LccModel.Threads.Ctx

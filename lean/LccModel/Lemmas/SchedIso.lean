/-
  M1 is invariant under renaming of task identifiers.

  `drivers/Run.lean` / `Model/RunAccept.lean` run the scheduler on task INDICES (`Graph Nat`), the property
  theorems about projects speak of structured task ids (`Graph TaskId`, `TaskGraph.graphOf P`).  This file
  proves, generically, that an embedding `e : A → B` of a graph `g` into a graph `h` (tasks in the same
  order, dependency lists mapped) carries every execution of `g` to an execution of `h`:

      run g n s ls = some s'  →  run h n (pull r s) (ls.map e) = some (pull r s')

  where `pull r s` reads the state of `b : B` at `r b : A` (`r` = a left inverse of `e` on the tasks).
  Also: a state reached by the scheduler is untouched outside the tasks of the graph (`Outside`), which is
  what makes the driver's re-tabulation (`RunAccept.normalizeSched`) the identity.
  Core Lean only.
-/
import LccModel.Lemmas.SchedProgress

set_option linter.unusedSectionVars false

namespace LccModel.Sched

variable {A B : Type} [DecidableEq A] [DecidableEq B]

/-- `e` embeds the graph `g` into `h`; `r` inverts `e` on the tasks -/
structure Embeds (g : Graph A) (h : Graph B) (e : A → B) (r : B → A) : Prop where
  tasks  : h.tasks = g.tasks.map e
  left   : ∀ a ∈ g.tasks, r (e a) = a
  right  : ∀ b, r b ∈ g.tasks → e (r b) = b
  succ   : ∀ a ∈ g.tasks, h.succDeps (e a) = (g.succDeps a).map e
  compl  : ∀ a ∈ g.tasks, h.complDeps (e a) = (g.complDeps a).map e
  closed : ∀ a ∈ g.tasks, ∀ d ∈ g.deps a, d ∈ g.tasks

/-- the state of `b` is the state of `r b` -/
def State.pull (r : B → A) (s : State A) : State B :=
  { phase := fun b => s.phase (r b), result := fun b => s.result (r b), mode := fun b => s.mode (r b),
    forced := fun b => s.forced (r b), aborted := s.aborted, clock := s.clock,
    startAt := fun b => s.startAt (r b), finishAt := fun b => s.finishAt (r b), starts := fun b => s.starts (r b) }

def Label.map (e : A → B) : Label A → Label B
  | .start t c => .start (e t) c
  | .finish t x => .finish (e t) x
  | .receive t => .receive (e t)
  | .interrupt => .interrupt

theorem all_congr_mem {α : Type} (l : List α) (p q : α → Bool) (hpq : ∀ x ∈ l, p x = q x) : l.all p = l.all q := by
  induction l with
  | nil => rfl
  | cons x l ih =>
    simp only [List.all_cons]
    rw [hpq x List.mem_cons_self, ih (fun y hy => hpq y (List.mem_cons_of_mem _ hy))]

theorem any_congr_mem {α : Type} (l : List α) (p q : α → Bool) (hpq : ∀ x ∈ l, p x = q x) : l.any p = l.any q := by
  induction l with
  | nil => rfl
  | cons x l ih =>
    simp only [List.any_cons]
    rw [hpq x List.mem_cons_self, ih (fun y hy => hpq y (List.mem_cons_of_mem _ hy))]

section
variable {g : Graph A} {h : Graph B} {e : A → B} {r : B → A}

theorem Embeds.deps (E : Embeds g h e r) {a : A} (ha : a ∈ g.tasks) : h.deps (e a) = (g.deps a).map e := by
  unfold Graph.deps
  rw [E.succ a ha, E.compl a ha, List.map_append]

/-- membership in the image of a list of tasks, read through `r` -/
theorem Embeds.mem_map (E : Embeds g h e r) {l : List A} (hl : ∀ a ∈ l, a ∈ g.tasks) (b : B) :
    b ∈ l.map e ↔ r b ∈ l := by
  constructor
  · intro hb
    obtain ⟨a, ha, rfl⟩ := List.mem_map.mp hb
    rw [E.left a (hl a ha)]; exact ha
  · intro hb
    exact List.mem_map.mpr ⟨r b, hb, E.right b (hl _ hb)⟩

theorem Embeds.eq_iff (E : Embeds g h e r) {a : A} (ha : a ∈ g.tasks) (b : B) : b = e a ↔ r b = a := by
  constructor
  · intro hb; rw [hb, E.left a ha]
  · intro hb; have := E.right b (hb ▸ ha); rw [hb] at this; exact this.symm

theorem pull_runnable (E : Embeds g h e r) (s : State A) {a : A} (ha : a ∈ g.tasks) :
    runnable h (s.pull r) (e a) = runnable g s a := by
  unfold runnable
  rw [E.deps ha, List.all_map]
  have h1 : (s.pull r).phase (e a) = s.phase a := by show s.phase (r (e a)) = _; rw [E.left a ha]
  rw [h1]
  have h2 : (g.deps a).all ((fun d => decide ((s.pull r).phase d = .completed)) ∘ e) =
      (g.deps a).all (fun d => decide (s.phase d = .completed)) := by
    apply all_congr_mem
    intro d hd
    show decide (s.phase (r (e d)) = .completed) = _
    rw [E.left d (E.closed a ha d hd)]
  rw [h2]

theorem pull_popped (E : Embeds g h e r) (s : State A) (n : Nat) :
    popped h (s.pull r) n = (popped g s n).map e := by
  unfold popped
  rw [E.tasks, List.filter_map, List.map_take]
  congr 2
  apply List.filter_congr
  intro a ha
  exact pull_runnable E s ha

theorem pull_dispatch (E : Embeds g h e r) (s : State A) (n : Nat) :
    dispatch h (s.pull r) n = (dispatch g s n).pull r := by
  unfold dispatch
  have hm := E.mem_map (l := popped g s n) (fun a ha => popped_sub_tasks ha)
  rw [pull_popped E]
  simp only [State.pull, hm]

theorem pull_release (E : Embeds g h e r) (s : State A) :
    release h (s.pull r) = (release g s).pull r := by
  unfold release
  have hm := E.mem_map (l := popped g s g.tasks.length) (fun a ha => popped_sub_tasks ha)
  have hl : h.tasks.length = g.tasks.length := by rw [E.tasks, List.length_map]
  rw [hl, pull_popped E]
  simp only [State.pull, hm]

theorem pull_nbRunning (E : Embeds g h e r) (s : State A) : nbRunning h (s.pull r) = nbRunning g s := by
  unfold nbRunning
  rw [E.tasks, List.filter_map, List.length_map]
  congr 1
  apply List.filter_congr
  intro a ha
  show decide (s.phase (r (e a)) = .running) = _
  rw [E.left a ha]

theorem pull_depFailed (E : Embeds g h e r) (s : State A) {a : A} (ha : a ∈ g.tasks) :
    depFailed h (s.pull r) (e a) = depFailed g s a := by
  unfold depFailed
  rw [E.succ a ha, List.any_map]
  apply any_congr_mem
  intro d hd
  show (s.result (r (e d)) != some .success) = _
  rw [E.left d (E.closed a ha d (succDeps_sub_deps g a d hd))]

theorem pull_decideMode (E : Embeds g h e r) (s : State A) {a : A} (ha : a ∈ g.tasks) (c : Bool) :
    decideMode h (s.pull r) (e a) c = decideMode g s a c := by
  unfold decideMode
  rw [pull_depFailed E s ha]
  show (if s.forced (r (e a)) = true then _ else _) = _
  rw [E.left a ha]

theorem mem_tasks_of (E : Embeds g h e r) {a : A} (ha : a ∈ g.tasks) : e a ∈ h.tasks := by
  rw [E.tasks]; exact List.mem_map_of_mem ha

/-- **one transition**: a step of `g` is a step of `h` under the renaming -/
theorem pull_step (E : Embeds g h e r) (n : Nat) (s s' : State A) (l : Label A)
    (hs : step g n s l = some s') : step h n (s.pull r) (l.map e) = some (s'.pull r) := by
  cases l with
  | start t c =>
    obtain ⟨ht, hq, hn, rfl⟩ := step_start hs
    have hq' : (s.pull r).phase (e t) = .queued := by show s.phase (r (e t)) = _; rw [E.left t ht]; exact hq
    simp only [Label.map, step, mem_tasks_of E ht, hq', pull_nbRunning E, hn, and_self, if_true,
      pull_decideMode E s ht]
    simp only [State.pull, E.eq_iff ht]
  | finish t x =>
    obtain ⟨ht, hq, ⟨m, hm, hra⟩, rfl⟩ := step_finish hs
    have hq' : (s.pull r).phase (e t) = .running := by show s.phase (r (e t)) = _; rw [E.left t ht]; exact hq
    have hm' : ∃ m, (s.pull r).mode (e t) = some m ∧ resAllowed m x = true :=
      ⟨m, by show s.mode (r (e t)) = _; rw [E.left t ht]; exact hm, hra⟩
    simp only [Label.map, step, mem_tasks_of E ht, hq', hm', and_self, if_true]
    simp only [State.pull, E.eq_iff ht]
  | receive t =>
    obtain ⟨ht, hq, rfl⟩ := step_receive hs
    have hq' : (s.pull r).phase (e t) = .done := by show s.phase (r (e t)) = _; rw [E.left t ht]; exact hq
    simp only [Label.map, step, mem_tasks_of E ht, hq', and_self, if_true]
    have hst : ({ s.pull r with phase := fun x => if x = e t then Phase.completed else (s.pull r).phase x,
                                clock := (s.pull r).clock + 1 } : State B) =
        State.pull r { s with phase := fun x => if x = t then Phase.completed else s.phase x, clock := s.clock + 1 } := by
      simp only [State.pull, E.eq_iff ht]
    rw [hst]
    show some (if s.aborted = true then _ else _) = _
    split
    · rw [pull_release E]
    · rw [pull_dispatch E]
  | interrupt =>
    obtain ⟨ha, rfl⟩ := step_interrupt hs
    have ha' : (s.pull r).aborted = false := ha
    simp only [Label.map, step, ha', if_true]
    have hst : ({ s.pull r with aborted := true, clock := (s.pull r).clock + 1 } : State B) =
        State.pull r { s with aborted := true, clock := s.clock + 1 } := rfl
    rw [hst, pull_release E]

theorem pull_init (E : Embeds g h e r) (n : Nat) : init h n = (init g n).pull r := by
  unfold init
  rw [← pull_dispatch E]
  rfl

/-- **executions**: a run of `g` is a run of `h` under the renaming -/
theorem pull_run (E : Embeds g h e r) (n : Nat) : ∀ (ls : List (Label A)) (s s' : State A),
    run g n s ls = some s' → run h n (s.pull r) (ls.map (Label.map e)) = some (s'.pull r) := by
  intro ls
  induction ls with
  | nil => intro s s' hh; simp only [run] at hh; injection hh with hh; subst hh; rfl
  | cons l ls ih =>
    intro s s' hh
    simp only [run] at hh
    cases hs : step g n s l with
    | none => rw [hs] at hh; cases hh
    | some s1 =>
      rw [hs] at hh
      simp only [List.map_cons, run, pull_step E n s s1 l hs]
      exact ih s1 s' hh

theorem pull_final (E : Embeds g h e r) (s : State A) (hf : Final g s) : Final h (s.pull r) := by
  intro b hb
  rw [E.tasks] at hb
  obtain ⟨a, ha, rfl⟩ := List.mem_map.mp hb
  show s.phase (r (e a)) = _
  rw [E.left a ha]; exact hf a ha

theorem final_of_finalB {g : Graph A} {s : State A} (hf : finalB g s = true) : Final g s := by
  intro t ht
  have := List.all_eq_true.mp hf t ht
  simpa using this

end

/-! ### `run` over a concatenation -/

theorem run_append (g : Graph A) (n : Nat) : ∀ (l1 l2 : List (Label A)) (s : State A),
    run g n s (l1 ++ l2) = (run g n s l1).bind (fun s1 => run g n s1 l2) := by
  intro l1
  induction l1 with
  | nil => intro l2 s; rfl
  | cons l l1 ih =>
    intro l2 s
    simp only [List.cons_append, run]
    cases step g n s l with
    | none => rfl
    | some s1 => exact ih l2 s1

/-! ### Nothing outside the graph is ever touched -/

/-- every field of a non-task is still what `empty` says -/
def Outside (g : Graph A) (s : State A) : Prop :=
  ∀ t, t ∉ g.tasks → s.phase t = .remaining ∧ s.result t = none ∧ s.mode t = none ∧ s.forced t = false ∧
    s.startAt t = none ∧ s.finishAt t = none ∧ s.starts t = 0

theorem outside_empty (g : Graph A) : Outside g empty := fun _ _ => ⟨rfl, rfl, rfl, rfl, rfl, rfl, rfl⟩

theorem outside_dispatch (g : Graph A) (s : State A) (n : Nat) (ho : Outside g s) : Outside g (dispatch g s n) := by
  intro t ht
  have hp : t ∉ popped g s n := fun hp => ht (popped_sub_tasks hp)
  have := ho t ht
  simp only [dispatch, hp, if_false]
  exact this

theorem outside_release (g : Graph A) (s : State A) (ho : Outside g s) : Outside g (release g s) := by
  intro t ht
  have hp : t ∉ popped g s g.tasks.length := fun hp => ht (popped_sub_tasks hp)
  have := ho t ht
  simp only [release, hp, if_false]
  exact this

theorem outside_init (g : Graph A) (n : Nat) : Outside g (init g n) := outside_dispatch g empty n (outside_empty g)

theorem outside_step (g : Graph A) (n : Nat) (s s' : State A) (l : Label A) (ho : Outside g s)
    (hs : step g n s l = some s') : Outside g s' := by
  cases l with
  | start t c =>
    obtain ⟨ht, _, _, rfl⟩ := step_start hs
    intro x hx
    have hne : x ≠ t := fun hh => hx (hh ▸ ht)
    have := ho x hx
    simp only [hne, if_false]
    exact this
  | finish t r =>
    obtain ⟨ht, _, _, rfl⟩ := step_finish hs
    intro x hx
    have hne : x ≠ t := fun hh => hx (hh ▸ ht)
    have := ho x hx
    simp only [hne, if_false]
    exact this
  | receive t =>
    obtain ⟨ht, _, rfl⟩ := step_receive hs
    have h1 : Outside g { s with phase := fun x => if x = t then Phase.completed else s.phase x, clock := s.clock + 1 } := by
      intro x hx
      have hne : x ≠ t := fun hh => hx (hh ▸ ht)
      have := ho x hx
      simp only [hne, if_false]
      exact this
    split
    · exact outside_release g _ h1
    · exact outside_dispatch g _ n h1
  | interrupt =>
    obtain ⟨_, rfl⟩ := step_interrupt hs
    exact outside_release g _ (fun x hx => ho x hx)

theorem outside_run (g : Graph A) (n : Nat) : ∀ (ls : List (Label A)) (s s' : State A),
    Outside g s → run g n s ls = some s' → Outside g s' := by
  intro ls
  induction ls with
  | nil => intro s s' ho hh; simp only [run] at hh; injection hh with hh; subst hh; exact ho
  | cons l ls ih =>
    intro s s' ho hh
    simp only [run] at hh
    cases hs : step g n s l with
    | none => rw [hs] at hh; cases hh
    | some s1 => rw [hs] at hh; exact ih s1 s' (outside_step g n s s1 l ho hs) hh

/-- the context flag handed to `start` matters only through the decision it leads to -/
theorem step_start_congr (g : Graph A) (n : Nat) (s : State A) (t : A) (c1 c2 : Bool)
    (hd : decideMode g s t c1 = decideMode g s t c2) : step g n s (.start t c1) = step g n s (.start t c2) := by
  simp only [step, hd]

end LccModel.Sched

/-
  Helper lemmas for `Props/C17Values.lean`: `jsonifyE` (the real `jsonify` on expected values of any class) is `Matcher.jsonify`
  on the modelled values and raises on everything else; lists containing a NaN.
-/
import LccModel.Model.MatcherXVal

namespace LccModel.Matcher

theorem zipEntries_jsonifyList : ∀ (ks : List DKey) (vs : List Val), zipEntries ks (jsonifyList vs) = jsonifyEntries ks vs
  | [], _ => by simp [zipEntries, jsonifyEntries]
  | _ :: _, [] => by simp [zipEntries, jsonifyEntries, jsonifyList]
  | k :: ks, v :: vs => by simp [zipEntries, jsonifyEntries, jsonifyList, zipEntries_jsonifyList ks vs]

mutual
theorem jsonifyE_eq : ∀ (x : XVal), jsonifyE x =
    match x.toVal? with
    | some v => .ok (jsonify v)
    | none => .error .typeError
  | .plain v => by simp [jsonifyE, XVal.toVal?]
  | .foreign _ _ => by simp [jsonifyE, XVal.toVal?]
  | .list xs => by
    have h := jsonifyEList_eq xs
    simp only [jsonifyE, XVal.toVal?, h]
    cases XVal.toVals? xs <;> simp [jsonify]
  | .dict ks xs => by
    have h := jsonifyEList_eq xs
    simp only [jsonifyE, XVal.toVal?, h]
    cases XVal.toVals? xs <;> simp [jsonify, zipEntries_jsonifyList]
theorem jsonifyEList_eq : ∀ (xs : List XVal), jsonifyEList xs =
    match XVal.toVals? xs with
    | some vs => .ok (jsonifyList vs)
    | none => .error .typeError
  | [] => by simp [jsonifyEList, XVal.toVals?, jsonifyList]
  | x :: xs => by
    have h := jsonifyE_eq x
    have hs := jsonifyEList_eq xs
    simp only [jsonifyEList, XVal.toVals?, h, hs]
    cases XVal.toVal? x <;> cases XVal.toVals? xs <;> simp [jsonifyList]
end

/-- a list with a NaN somewhere is not `==` to the list of the same values built from other objects -/
theorem pyEqList_nan_irreflexive : ∀ (pre post : List Val),
    pyEqList (pre ++ Val.nan :: post) (pre ++ Val.nan :: post) = false
  | [], post => by simp [pyEqList, pyEq, numOf]
  | x :: pre, post => by simp [pyEqList, pyEqList_nan_irreflexive pre post]

theorem pyEq_nan_left : ∀ (v : Val), pyEq .nan v = false := by
  intro v; cases v <;> simp [pyEq, numOf]

theorem pyEq_nan_right : ∀ (v : Val), pyEq v .nan = false := by
  intro v; cases v <;> simp [pyEq, numOf]

end LccModel.Matcher

/-
  Links between the `--grep` criterion of `Model/Filter.lean` and the regular-expression model:
  literal patterns (`re.escape`d words) are case-insensitive containment; `\A…` / `…\Z` patterns.
-/
import LccModel.Model.Filter
import LccModel.Lemmas.Regex

namespace LccModel.Filter
open LccModel.Regex

theorem exists_ctx (p : Option Nat) : ∃ l : Str, l.head? = p := by
  cases p with
  | none => exact ⟨[], rfl⟩
  | some c => exact ⟨[c], rfl⟩

theorem isPrefixCI_iff (lit : Str) (l s : Str) :
    isPrefixCI lit s = true ↔ ∃ m rest, s = m ++ rest ∧ Matches (RE.ofLit lit) l m rest := by
  induction lit generalizing l s with
  | nil =>
    simp only [isPrefixCI, RE.ofLit, true_iff]
    exact ⟨[], s, rfl, .eps _ _⟩
  | cons a lit ih =>
    cases s with
    | nil =>
      simp only [isPrefixCI, RE.ofLit, Bool.false_eq_true, false_iff]
      rintro ⟨m, rest, hs, h⟩
      obtain ⟨m1, m2, hm, h1, _⟩ := seq_inv h
      obtain ⟨c, rfl, _⟩ := lit_inv h1
      subst hm
      simp at hs
    | cons b s =>
      simp only [isPrefixCI, RE.ofLit, Bool.and_eq_true, beq_iff_eq]
      constructor
      · rintro ⟨hab, hp⟩
        obtain ⟨m, rest, hs, h⟩ := (ih (b :: l) s).mp hp
        exact ⟨b :: m, rest, by simp [hs], seq_intro (m1 := [b]) (.lit _ _ _ _ hab) h rfl (by simp) rfl⟩
      · rintro ⟨m, rest, hs, h⟩
        obtain ⟨m1, m2, hm, h1, h2⟩ := seq_inv h
        obtain ⟨c, rfl, hac⟩ := lit_inv h1
        subst hm
        simp only [List.cons_append, List.nil_append, List.cons.injEq] at hs
        obtain ⟨rfl, rfl⟩ := hs
        exact ⟨hac, (ih _ _).mpr ⟨m2, rest, rfl, h2⟩⟩

theorem matchPrefix_ofLit (p : Option Nat) (lit s : Str) : matchPrefix p (RE.ofLit lit) s = isPrefixCI lit s := by
  obtain ⟨l, rfl⟩ := exists_ctx p
  rw [Bool.eq_iff_iff, matchPrefix_iff, isPrefixCI_iff lit l s]

theorem null_ofLit (p n : Option Nat) (lit : Str) : null p n (RE.ofLit lit) = lit.isEmpty := by
  cases lit <;> simp [RE.ofLit, null]

theorem searchFrom_ofLit (p : Option Nat) (lit s : Str) : searchFrom p (RE.ofLit lit) s = containsCI lit s := by
  induction s generalizing p with
  | nil => simp [searchFrom, containsCI, null_ofLit]
  | cons c s ih => simp only [searchFrom, containsCI, matchPrefix_ofLit, ih]

/-- `\A r` finds a match iff `r` matches a prefix of the text. -/
theorem search_bos (r : RE) (s : Str) : search (.seq .bos r) s = matchPrefix none r s := by
  rw [Bool.eq_iff_iff, search_iff, show (none : Option Nat) = ([] : Str).head? from rfl, matchPrefix_iff]
  constructor
  · rintro ⟨pre, m, rest, hs, h⟩
    obtain ⟨m1, m2, hm, h1, h2⟩ := seq_inv h
    obtain ⟨rfl, hp⟩ := bos_inv h1
    have : pre = [] := List.reverse_eq_nil_iff.mp hp
    subst this
    simp only [List.nil_append] at hm
    subst hm
    exact ⟨m, rest, by simpa using hs, by simpa using h2⟩
  · rintro ⟨m, rest, hs, h⟩
    exact ⟨[], m, rest, by simpa using hs, seq_intro (m1 := []) (.bos _ _ rfl) h rfl rfl rfl⟩

/-- `r \Z` finds a match iff `r` matches a suffix of the text. -/
theorem search_eos_iff (r : RE) (s : Str) :
    search (.seq r .eos) s = true ↔ ∃ pre m, s = pre ++ m ∧ Matches r pre.reverse m [] := by
  rw [search_iff]
  constructor
  · rintro ⟨pre, m, rest, hs, h⟩
    obtain ⟨m1, m2, hm, h1, h2⟩ := seq_inv h
    obtain ⟨rfl, rfl⟩ := eos_inv h2
    simp only [List.append_nil] at hm
    subst hm
    exact ⟨pre, m, by simpa using hs, by simpa using h1⟩
  · rintro ⟨pre, m, hs, h⟩
    exact ⟨pre, m, [], by simpa using hs, seq_intro (m2 := []) h (.eos _ _ rfl) (by simp) rfl (by simp)⟩

end LccModel.Filter

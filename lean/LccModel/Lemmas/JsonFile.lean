/-
  Facts about the file layer of the JSON backend (`Model/JsonFile.lean`): framing, `ensure_ascii` escaping,
  encodability.
-/
import LccModel.Model.JsonFile

namespace LccModel.JsonFile

theorem dropPrefix?_append (p s : List Char) : dropPrefix? p (p ++ s) = some s := by
  induction p with
  | nil => cases s <;> rfl
  | cons c cs ih => simp [dropPrefix?, ih]

theorem unframe_prefixed (body : List Char) : unframe (jsPrefix ++ body) = body := by
  simp [unframe, dropPrefix?_append]

/-- a text that does not start with `v` is left alone -/
theorem unframe_of_head_ne {c : Char} {cs : List Char} (h : c ≠ 'v') : unframe (c :: cs) = c :: cs := by
  have hp : jsPrefix = 'v' :: "ar reporting_data = ".toList := by decide
  simp only [unframe, hp, dropPrefix?]
  have : ¬ ('v' = c) := fun e => h e.symm
  simp [this]

theorem hexDigit_range {n : Nat} (h : n < 16) : 32 ≤ hexDigit n ∧ hexDigit n ≤ 126 := by
  unfold hexDigit
  split <;> omega

theorem u4_range (n : Nat) : ∀ x ∈ u4 n, 32 ≤ x ∧ x ≤ 126 := by
  intro x hx
  simp only [u4, List.mem_cons, List.mem_nil_iff, or_false] at hx
  have h16 : ∀ m : Nat, m % 16 < 16 := fun m => Nat.mod_lt _ (by decide)
  rcases hx with rfl | rfl | rfl | rfl | rfl | rfl
  · omega
  · omega
  · exact hexDigit_range (h16 _)
  · exact hexDigit_range (h16 _)
  · exact hexDigit_range (h16 _)
  · exact hexDigit_range (h16 _)

theorem escapeChar_range (c : Nat) : ∀ x ∈ escapeChar c, 32 ≤ x ∧ x ≤ 126 := by
  intro x hx
  unfold escapeChar at hx
  repeat' split at hx
  all_goals first
    | (simp only [List.mem_cons, List.mem_nil_iff, or_false] at hx; omega)
    | (exact u4_range _ x hx)
    | (rcases List.mem_append.mp hx with h | h <;> exact u4_range _ x h)

theorem jsonEscape_range (s : List Nat) : ∀ x ∈ jsonEscape s, 32 ≤ x ∧ x ≤ 126 := by
  intro x hx
  obtain ⟨c, _, hc⟩ := List.mem_flatMap.mp hx
  exact escapeChar_range c x hc

theorem encodable_of_ascii (e : Encoding) {x : Nat} (h : x < 128) : encodable e x = true := by
  cases e <;> simp [encodable] <;> omega

end LccModel.JsonFile

/-
  A concrete project for the non-vacuity example of `Props/C08Exit.lean`: suite `s` with one passing test and a
  `teardown_suite` hook that raises an instance of a project-defined subclass of `AbortSuite`.
-/
import LccModel.Lemmas.RunTask

namespace LccModel.Run.AbortTeardownSample
open LccModel.Report LccModel.Run

def tp : TestSpec := ⟨"p", 0, false, false, [], [], [.log .info]⟩
def spec : SuiteSpec := .mk "s" 0 false none (some [.raise (ExcClass.kind .subAbortSuite), .log .info]) none none [] [tp] []
def P : Proj := ⟨[], [spec], 1, false, false⟩
def sv : SuiteView := ⟨["s"], spec, false⟩
/-- the suite teardown task of `s`, run by worker 0 with the kept teardown list of the suite's setup task -/
def out : TaskOut := runTask P Insts.empty 0 ⟨.teardown, ["s"]⟩ true false [.teardownSuite ["s"]] none

/-- a session-scoped generator fixture whose teardown raises `AbortAllTests`, used by the only test -/
def db : Fx := { name := "db", func := "db", scope := .session, perThread := false, params := [], gen := true,
                 setup := [.log .info], teardown := [.raise .abortAll] }
def tq : TestSpec := ⟨"q", 0, false, false, [], ["db"], [.log .info]⟩
def PS : Proj := ⟨[db], [.mk "s" 0 false none none none none [] [tq] []], 2, false, false⟩
/-- the fixture instances once the session setup task has run -/
def instsS : Insts := Insts.empty.add .session "db"
/-- the session teardown task -/
def outS : TaskOut := runTask PS instsS 0 ⟨.sessTeardown, []⟩ true false [.fixture .session "db"] none

end LccModel.Run.AbortTeardownSample

/-
  The text of the JSON report file is ASCII, whatever the report holds.
-/
import LccModel.Model.JsonRender
import LccModel.Lemmas.JsonFile

namespace LccModel.JsonFile
open LccModel.Serial

def Ascii (l : List Nat) : Prop := ∀ x ∈ l, x < 128

theorem ascii_nil : Ascii [] := fun _ h => by cases h
theorem ascii_cons {x : Nat} {l : List Nat} (hx : x < 128) (hl : Ascii l) : Ascii (x :: l) := by
  intro y hy
  rcases List.mem_cons.mp hy with rfl | h
  · exact hx
  · exact hl y h
theorem ascii_append {a b : List Nat} (ha : Ascii a) (hb : Ascii b) : Ascii (a ++ b) := by
  intro y hy
  rcases List.mem_append.mp hy with h | h
  · exact ha y h
  · exact hb y h

theorem ascii_quoted (s : String) : Ascii (quoted s) := by
  unfold quoted
  refine ascii_cons (by decide) (ascii_append ?_ (ascii_cons (by decide) ascii_nil))
  intro x hx
  have := jsonEscape_range _ x hx
  omega

theorem ascii_nl (p : Bool) (d : Nat) : Ascii (nl p d) := by
  unfold nl
  cases p
  · exact ascii_nil
  · refine ascii_cons (by decide) ?_
    intro x hx
    rw [List.eq_of_mem_replicate hx]
    decide

theorem ascii_sep (p : Bool) (d : Nat) : Ascii (sep p d) := by
  unfold sep
  cases p
  · exact ascii_cons (by decide) (ascii_cons (by decide) ascii_nil)
  · exact ascii_cons (by decide) (ascii_nl _ _)

mutual
theorem ascii_render (a : Atoms) (p : Bool) (d : Nat) : ∀ v : JVal, Ascii (render a p d v)
  | .null => by unfold render; intro x hx; simp at hx; omega
  | .bool true => by unfold render; intro x hx; simp at hx; omega
  | .bool false => by unfold render; intro x hx; simp at hx; omega
  | .num n => by unfold render; exact a.numAscii n
  | .ver major minor => by
    unfold render
    exact ascii_append (a.numAscii major) (ascii_cons (by decide) (a.numAscii minor))
  | .time t => by
    unfold render
    exact ascii_cons (by decide) (ascii_append (a.timeAscii t) (ascii_cons (by decide) ascii_nil))
  | .str s => by unfold render; exact ascii_quoted s
  | .arr [] => by unfold render; intro x hx; simp at hx; omega
  | .arr (x :: xs) => by
    unfold render
    exact ascii_cons (by decide) (ascii_append (ascii_append (ascii_append (ascii_nl _ _) (ascii_renderItems a p (d + 1) (x :: xs)))
      (ascii_nl _ _)) (ascii_cons (by decide) ascii_nil))
  | .obj [] => by unfold render; intro x hx; simp at hx; omega
  | .obj (kv :: kvs) => by
    unfold render
    exact ascii_cons (by decide) (ascii_append (ascii_append (ascii_append (ascii_nl _ _) (ascii_renderPairs a p (d + 1) (kv :: kvs)))
      (ascii_nl _ _)) (ascii_cons (by decide) ascii_nil))
theorem ascii_renderItems (a : Atoms) (p : Bool) (d : Nat) : ∀ l : List JVal, Ascii (renderItems a p d l)
  | [] => by unfold renderItems; exact ascii_nil
  | [x] => by unfold renderItems; exact ascii_render a p d x
  | x :: y :: rest => by
    unfold renderItems
    exact ascii_append (ascii_append (ascii_render a p d x) (ascii_sep _ _)) (ascii_renderItems a p d (y :: rest))
theorem ascii_renderPairs (a : Atoms) (p : Bool) (d : Nat) : ∀ l : List (String × JVal), Ascii (renderPairs a p d l)
  | [] => by unfold renderPairs; exact ascii_nil
  | [(k, v)] => by
    unfold renderPairs
    exact ascii_append (ascii_quoted k) (ascii_cons (by decide) (ascii_cons (by decide) (ascii_render a p d v)))
  | (k, v) :: kv :: rest => by
    unfold renderPairs
    exact ascii_append (ascii_append (ascii_append (ascii_quoted k) (ascii_cons (by decide) (ascii_cons (by decide) (ascii_render a p d v))))
      (ascii_sep _ _)) (ascii_renderPairs a p d (kv :: rest))
end

theorem ascii_fileText (a : Atoms) (o : Opts) (v : JVal) : Ascii (fileText a o v) := by
  unfold fileText
  refine ascii_append ?_ (ascii_render a o.pretty 0 v)
  cases o.jsCompat
  · exact ascii_nil
  · intro x hx
    have : ∀ y ∈ jsPrefix.map Char.toNat, y < 128 := by decide
    exact this x hx

theorem writeOk_of_ascii (e : Encoding) {t : List Nat} (h : Ascii t) : writeOk e t = true := by
  unfold writeOk
  exact List.all_eq_true.mpr (fun x hx => encodable_of_ascii e (h x hx))

end LccModel.JsonFile

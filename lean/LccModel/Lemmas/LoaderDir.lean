/-
  Helper lemmas for C13, layer 5: `load_suites_from_directory` — module table, module/directory merge,
  final ordering — against the specification `declDir`, by induction over nested directories; and the
  uniqueness invariant of every loaded tree.
-/
import LccModel.Lemmas.LoaderFiles

namespace LccModel.Loader

open List

/-! ### Induction over nested directories -/

mutual
theorem Dir.ind {P : Dir → Prop}
    (step : ∀ (n : String) (mods : List Module) (dirs : List Dir), (∀ d ∈ dirs, P d) → P (.mk n mods dirs)) :
    ∀ d, P d
  | .mk n mods dirs => step n mods dirs (Dir.indList step dirs)
theorem Dir.indList {P : Dir → Prop}
    (step : ∀ (n : String) (mods : List Module) (dirs : List Dir), (∀ d ∈ dirs, P d) → P (.mk n mods dirs)) :
    ∀ (ds : List Dir), ∀ d ∈ ds, P d
  | [], _, hd => by cases hd
  | d :: ds, x, hx => by
    rcases List.mem_cons.mp hx with h | hx
    · rw [h]; exact Dir.ind step d
    · exact Dir.indList step ds x hx
end

/-! ### Table ↔ items -/

def absTable (t : Table) : List Item := t.map (fun p => absItem p.1 p.2)

theorem loadModTable_spec : ∀ (ms : List Module) (t : Table), loadModTable ms = .ok t →
    absTable t = ms.filterMap declFile
  | [], t, h => by
    simp only [loadModTable, Except.ok.injEq] at h; subst h; rfl
  | m :: rest, t, h => by
    simp only [loadModTable] at h
    cases hf : loadFile m with
    | error e => simp [hf] at h
    | ok s =>
      cases hr : loadModTable rest with
      | error e => simp [hf, hr] at h
      | ok t0 =>
        simp only [hf, hr, Except.ok.injEq] at h
        have ih := loadModTable_spec rest t0 hr
        subst h
        simp only [List.filterMap_cons, loadFile_declFile hf]
        cases s.hidden <;> simp [absTable, ← ih] <;> rfl

theorem loadModTable_exists_iff : ∀ (ms : List Module),
    (∃ t, loadModTable ms = .ok t) ↔ ∀ m ∈ ms, acceptsModule m = true
  | [] => by simp [loadModTable]
  | m :: rest => by
    simp only [loadModTable, List.mem_cons, forall_eq_or_imp]
    rw [← loadModTable_exists_iff rest, ← loadFile_exists_iff m]
    constructor
    · rintro ⟨t, h⟩
      cases hf : loadFile m with
      | error e => simp [hf] at h
      | ok s =>
        cases hr : loadModTable rest with
        | error e => simp [hf, hr] at h
        | ok t0 => exact ⟨⟨s, rfl⟩, ⟨t0, rfl⟩⟩
    · rintro ⟨⟨s, hs⟩, ⟨t0, ht0⟩⟩
      exact ⟨if s.hidden then t0 else (Key.file m.stem, s) :: t0, by simp only [hs, ht0]⟩

theorem lookup_isSome_absTable (k : Key) : ∀ (t : Table),
    (absTable t).any (fun it => it.key = k) = (t.lookup k).isSome
  | [] => rfl
  | (k', s) :: rest => by
    simp only [absTable, List.map_cons, List.any_cons, List.lookup, absItem]
    by_cases hk : k = k'
    · subst hk; simp
    · have : (k == k') = false := by simpa using hk
      have hk' : ¬ k' = k := fun h => hk h.symm
      simp only [this, hk', decide_false, Bool.false_or]
      exact lookup_isSome_absTable k rest

theorem entriesList_append : ∀ (a b : List Suite),
    Suite.entriesList (a ++ b) = Suite.entriesList a ++ Suite.entriesList b
  | [], b => rfl
  | s :: a, b => by simp [Suite.entriesList, entriesList_append a b]

theorem attach_abs {k : Key} {s s' : Suite} {subs : List Suite} (h : attach s subs = .ok s') :
    absItem k s' = { absItem k s with body := (absItem k s).body ++ Suite.entriesList subs } := by
  cases s with
  | mk hd ts ss =>
    unfold attach at h
    cases ha : addSuites ss subs with
    | error e => simp [ha] at h
    | ok ss' =>
      simp only [ha, Except.ok.injEq] at h
      subst h
      -- `addSuites` appends
      have happ : ss' = ss ++ subs := by
        clear k
        revert ss ss'
        induction subs with
        | nil => intro ss ss' ha; simp [addSuites] at ha; simp [ha]
        | cons x xs ih =>
          intro ss ss' ha
          simp only [addSuites] at ha
          cases hx : addSuite ss x with
          | error e => simp [hx] at ha
          | ok acc' =>
            simp only [hx] at ha
            have := ((addSuite_ok_iff ss x acc').mp hx).1
            subst this
            rw [ih _ _ ha]; simp
      subst happ
      simp [absItem, Suite.name, Suite.rank, Suite.head, body_mk, entriesList_append]

theorem update_abs (k : Key) (s s' : Suite) (es : List Entry)
    (hs' : absItem k s' = { absItem k s with body := (absItem k s).body ++ es }) :
    ∀ (t : Table), t.lookup k = some s →
      absTable (Table.update k s' t) = Item.updateBody k es (absTable t)
  | [], h => by simp [List.lookup] at h
  | (k', s0) :: rest, h => by
    simp only [List.lookup] at h
    by_cases hk : k = k'
    · subst hk
      simp only [beq_self_eq_true] at h
      injection h with h; subst h
      simp [Table.update, absTable, Item.updateBody, absItem] at hs' ⊢
      simp [hs']
    · have hb : (k == k') = false := by simpa using hk
      have hk' : ¬ k' = k := fun h => hk h.symm
      simp only [hb] at h
      have ih := update_abs k s s' es hs' rest h
      simp only [Table.update, hk', if_false, absTable, List.map_cons, Item.updateBody, absItem] at ih ⊢
      rw [ih]

def resEntries : Except LoadErr (List Suite) → List Entry
  | .ok ss => Suite.entriesList ss
  | .error _ => []

theorem resEntries_ok (ss : List Suite) : resEntries (.ok ss) = Suite.entriesList ss := rfl

theorem synthetic_abs (dn : String) : absItem (.dir dn) (synthetic dn) = ⟨.dir dn, dn, 0, []⟩ := by
  simp [absItem, synthetic, Suite.name, Suite.rank, Suite.head, Suite.body, testLeaves, Suite.entriesList]

/-- The second loop of `load_suites_from_directory` against `mergeSpec`. -/
theorem mergeDirs_spec : ∀ (rs : List (String × Except LoadErr (List Suite))) (t t' : Table),
    mergeDirs t rs = .ok t' →
    absTable t' = mergeSpec (absTable t) (rs.map (fun p => (p.1, resEntries p.2)))
  | [], t, t', h => by
    simp only [mergeDirs, Except.ok.injEq] at h; subst h; rfl
  | (dn, r) :: rest, t, t', h => by
    simp only [mergeDirs] at h
    cases r with
    | error e => simp at h
    | ok subs =>
      simp only at h
      simp only [List.map_cons, mergeSpec, resEntries_ok, lookup_isSome_absTable]
      cases hl : t.lookup (Key.file dn) with
      | some s =>
        simp only [hl] at h
        cases ha : attach s subs with
        | error e => simp [ha] at h
        | ok s' =>
          simp only [ha] at h
          have ih := mergeDirs_spec rest _ t' h
          rw [ih, update_abs (Key.file dn) s s' (Suite.entriesList subs) (attach_abs ha) t hl]
          simp
      | none =>
        simp only [hl] at h
        cases ha : attach (synthetic dn) subs with
        | error e => simp [ha] at h
        | ok s' =>
          simp only [ha] at h
          have ih := mergeDirs_spec rest _ t' h
          rw [ih]
          have hs' := attach_abs (k := Key.dir dn) ha
          rw [synthetic_abs] at hs'
          simp only [List.nil_append] at hs'
          simp [absTable, hs']

/-! ### Final ordering -/

def sortPairs (t : Table) : Table :=
  sortBy (fun a b => intLe a.2.rank b.2.rank)
    (sortBy (fun a b => strLe a.2.name b.2.name) (t.filter (fun p => !p.2.isEmpty)))

theorem isEmpty_eq_body_isEmpty (s : Suite) : s.isEmpty = s.body.isEmpty := by
  cases h : s.isEmpty
  · cases hb : s.body with
    | nil => rw [(isEmpty_iff_body s).mpr hb] at h; cases h
    | cons _ _ => rfl
  · rw [(isEmpty_iff_body s).mp h]; rfl

theorem finalSort_eq (t : Table) : finalSort (t.map Prod.snd) = (sortPairs t).map Prod.snd := by
  unfold finalSort sortPairs
  rw [List.filter_map,
      sortBy_map (le := fun (a b : Key × Suite) => strLe a.2.name b.2.name) Prod.snd (fun _ _ => rfl),
      sortBy_map (le := fun (a b : Key × Suite) => intLe a.2.rank b.2.rank) Prod.snd (fun _ _ => rfl)]
  rfl

theorem orderItems_eq (t : Table) : orderItems (absTable t) = absTable (sortPairs t) := by
  unfold orderItems sortPairs absTable
  rw [List.filter_map,
      sortBy_map (le := fun (a b : Key × Suite) => strLe a.2.name b.2.name) (fun p => absItem p.1 p.2) (fun _ _ => rfl),
      sortBy_map (le := fun (a b : Key × Suite) => intLe a.2.rank b.2.rank) (fun p => absItem p.1 p.2) (fun _ _ => rfl)]
  congr 3
  apply List.filter_congr
  intro p _
  simp [absItem, isEmpty_eq_body_isEmpty]

theorem entries_sorted (t : Table) : Suite.entriesList (t.map Prod.snd) = itemsEntries (absTable t) := by
  rw [entriesList_eq_flatMap]
  unfold itemsEntries absTable
  simp [List.flatMap_map, absItem, Suite.entries]

/-! ### Directory lists -/

def sortDirs (ds : List Dir) : List Dir := sortBy (fun a b => strLe a.name b.name) ds

theorem loadDirList_eq_map : ∀ ds, loadDirList ds = ds.map (fun d => (d.name, loadDir d))
  | [] => rfl
  | d :: ds => by simp [loadDirList, loadDirList_eq_map ds]

theorem declDirList_eq_map : ∀ ds, declDirList ds = ds.map (fun d => (d.name, declDir d))
  | [] => rfl
  | d :: ds => by simp [declDirList, declDirList_eq_map ds]

theorem sortDirResults_loadDirList (ds : List Dir) :
    sortDirResults (loadDirList ds) = (sortDirs ds).map (fun d => (d.name, loadDir d)) := by
  unfold sortDirResults sortDirs
  rw [loadDirList_eq_map]
  exact sortBy_map (le := fun (a b : Dir) => strLe a.name b.name)
    (le' := fun (a b : String × Except LoadErr (List Suite)) => strLe a.1 b.1) (fun d : Dir => (d.name, loadDir d)) (fun _ _ => rfl) ds

theorem sort_declDirList (ds : List Dir) :
    sortBy (fun (a b : String × List Entry) => strLe a.1 b.1) (declDirList ds)
      = (sortDirs ds).map (fun d => (d.name, declDir d)) := by
  unfold sortDirs
  rw [declDirList_eq_map]
  exact sortBy_map (le := fun (a b : Dir) => strLe a.name b.name)
    (le' := fun (a b : String × List Entry) => strLe a.1 b.1) (fun d : Dir => (d.name, declDir d)) (fun _ _ => rfl) ds

theorem mergeDirs_all_ok : ∀ (rs : List (String × Except LoadErr (List Suite))) (t t' : Table),
    mergeDirs t rs = .ok t' → ∀ p ∈ rs, ∃ ss, p.2 = .ok ss
  | [], _, _, _, _, hp => by cases hp
  | (dn, r) :: rest, t, t', h, p, hp => by
    simp only [mergeDirs] at h
    cases r with
    | error e => simp at h
    | ok subs =>
      simp only at h
      rcases List.mem_cons.mp hp with rfl | hp
      · exact ⟨subs, rfl⟩
      · cases hl : t.lookup (Key.file dn) with
        | some s =>
          simp only [hl] at h
          cases ha : attach s subs with
          | error e => simp [ha] at h
          | ok s' => simp only [ha] at h; exact mergeDirs_all_ok rest _ t' h p hp
        | none =>
          simp only [hl] at h
          cases ha : attach (synthetic dn) subs with
          | error e => simp [ha] at h
          | ok s' => simp only [ha] at h; exact mergeDirs_all_ok rest _ t' h p hp

/-- **`load_suites_from_directory` against the specification, every directory tree.** -/
theorem loadDir_entries : ∀ (d : Dir) (ss : List Suite), loadDir d = .ok ss → Suite.entriesList ss = declDir d := by
  apply Dir.ind
  intro n mods dirs ih ss h
  unfold loadDir at h
  cases ht : loadModTable (sortMods mods) with
  | error e => simp [ht] at h
  | ok t =>
    cases hm : mergeDirs t (sortDirResults (loadDirList dirs)) with
    | error e => simp [ht, hm] at h
    | ok t' =>
      simp only [ht, hm, Except.ok.injEq] at h
      subst h
      rw [finalSort_eq, entries_sorted, ← orderItems_eq]
      unfold declDir
      rw [mergeDirs_spec _ t t' hm, loadModTable_spec _ t ht, sort_declDirList, sortDirResults_loadDirList]
      congr 3
      rw [List.map_map]
      apply List.map_congr_left
      intro d hd
      have hmem : d ∈ dirs := mem_sortBy.mp hd
      have := mergeDirs_all_ok _ t t' hm (d.name, loadDir d)
        (by rw [sortDirResults_loadDirList]; exact List.mem_map.mpr ⟨d, hd, rfl⟩)
      obtain ⟨ss', hss'⟩ := this
      simp only at hss'
      simp only [Function.comp_def, hss', resEntries, ih d hmem ss' hss']

end LccModel.Loader

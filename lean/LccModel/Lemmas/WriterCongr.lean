/-
  C05 helpers, part 3: tree operations respect `SameSuites` (the same operation applied to two forests with the same
  content gives two forests with the same content) — provided sibling names are unique, because the lookups
  (`find_suite`, the `_tests` dict) take the FIRST child of a given name.

  * `uniqNamesSuite(s)` / `uniqNames`: at every level test names and sub-suite names are pairwise distinct;
  * `uniqNames_of_same`: invariant under `SameSuites`; `topOp_uniq_back`: if the result of an operation has unique names,
    so had its input;
  * `topOp_congr`: the congruence.
-/
import LccModel.Lemmas.WriterComm
set_option linter.unusedSimpArgs false
set_option linter.unusedVariables false
namespace LccModel.Writer
open LccModel.Report

def tname (t : TestResult) : String := t.md.name
def sname (s : SuiteResult) : String := s.md.name

mutual
def uniqNamesSuite : SuiteResult → Bool
  | .mk _ _ _ _ _ ts ss => decide (ts.map tname).Nodup && decide (ss.map sname).Nodup && uniqNamesSuites ss
def uniqNamesSuites : List SuiteResult → Bool
  | [] => true
  | s :: ss => uniqNamesSuite s && uniqNamesSuites ss
end

/-- sibling names are unique at every level of a forest -/
def uniqL (ss : List SuiteResult) : Prop := (ss.map sname).Nodup ∧ uniqNamesSuites ss = true

/-- sibling names are unique at every level of the report (lemoncheesecake refuses to load a project where they are not) -/
def uniqNames (r : Report) : Bool := decide (r.suites.map sname).Nodup && uniqNamesSuites r.suites

theorem uniqNames_iff (r : Report) : uniqNames r = true ↔ uniqL r.suites := by
  simp [uniqNames, uniqL]

theorem uniqNamesSuites_iff : ∀ l : List SuiteResult, uniqNamesSuites l = true ↔ ∀ s ∈ l, uniqNamesSuite s = true
  | [] => by simp [uniqNamesSuites]
  | s :: l => by simp [uniqNamesSuites, uniqNamesSuites_iff l]

theorem uniqNamesSuite_mk {md st en su td ts ss} :
    uniqNamesSuite (.mk md st en su td ts ss) = true ↔ (ts.map tname).Nodup ∧ uniqL ss := by
  simp [uniqNamesSuite, uniqL, and_assoc]

/-! ### invariance under `SameSuites` -/

theorem uniq_of_same_both :
    (∀ s s', SameSuite s s' → uniqNamesSuite s = true → uniqNamesSuite s' = true) ∧
    (∀ l l', SameSuites l l' → (l.map sname).Perm (l'.map sname) ∧ (uniqNamesSuites l = true → uniqNamesSuites l' = true)) := by
  apply SameSuite.mutual_ind
  · intro md st en su td ts ts' ss ss' hp _ ih h
    rw [uniqNamesSuite_mk] at h ⊢
    exact ⟨(hp.map tname).nodup_iff.mp h.1, ih.1.nodup_iff.mp h.2.1, ih.2 h.2.2⟩
  · exact ⟨List.Perm.refl _, fun h => h⟩
  · intro s s' l l' hs _ ih1 ih2
    refine ⟨?_, ?_⟩
    · simp only [List.map_cons, sname, hs.md_eq]; exact ih2.1.cons _
    · simp only [uniqNamesSuites, Bool.and_eq_true]
      exact fun h => ⟨ih1 h.1, ih2.2 h.2⟩
  · intro a b l
    refine ⟨List.Perm.swap _ _ _, ?_⟩
    simp only [uniqNamesSuites, Bool.and_eq_true]
    exact fun h => ⟨h.2.1, h.1, h.2.2⟩
  · intro l₁ l₂ l₃ _ _ ih1 ih2
    exact ⟨ih1.1.trans ih2.1, fun h => ih2.2 (ih1.2 h)⟩

theorem uniqL_of_same {l l' : List SuiteResult} (h : SameSuites l l') (hu : uniqL l) : uniqL l' :=
  ⟨(uniq_of_same_both.2 l l' h).1.nodup_iff.mp hu.1, (uniq_of_same_both.2 l l' h).2 hu.2⟩

theorem uniqNamesSuite_of_same {s s' : SuiteResult} (h : SameSuite s s') (hu : uniqNamesSuite s = true) :
    uniqNamesSuite s' = true := uniq_of_same_both.1 s s' h hu

/-! ### generic list facts -/

theorem modifyFirst_map_key {α β ε : Type} (key : α → β) (p : α → Bool) (F : α → Except ε α) (nf : ε)
    (hF : ∀ a b, F a = .ok b → key b = key a) :
    ∀ (l l' : List α), modifyFirst p F nf l = .ok l' → l'.map key = l.map key
  | [], _, h => by simp [modifyFirst] at h
  | a :: as, l', h => by
    rcases modifyFirst_ok_cons h with ⟨_, b, hb, rfl⟩ | ⟨_, ys, hys, rfl⟩
    · simp [hF a b hb]
    · simp [modifyFirst_map_key key p F nf hF as ys hys]

theorem modifyFirst_all_back {α ε : Type} (p : α → Bool) (F : α → Except ε α) (nf : ε) (Q : α → Prop)
    (hF : ∀ a b, F a = .ok b → Q b → Q a) :
    ∀ (l l' : List α), modifyFirst p F nf l = .ok l' → (∀ x ∈ l', Q x) → ∀ x ∈ l, Q x
  | [], _, h, _ => by simp [modifyFirst] at h
  | a :: as, l', h, hq => by
    rcases modifyFirst_ok_cons h with ⟨_, b, hb, rfl⟩ | ⟨_, ys, hys, rfl⟩
    · intro x hx
      rcases List.mem_cons.mp hx with rfl | hx
      · exact hF _ b hb (hq b (by simp))
      · exact hq x (by simp [hx])
    · intro x hx
      rcases List.mem_cons.mp hx with rfl | hx
      · exact hq _ (by simp)
      · exact modifyFirst_all_back p F nf Q hF as ys hys (fun z hz => hq z (by simp [hz])) x hx

theorem map_dictSet {α : Type} (key : α → String) (x : α) :
    ∀ l : List α, (dictSet key x l).map key = if key x ∈ l.map key then l.map key else l.map key ++ [key x]
  | [] => by simp [dictSet]
  | y :: ys => by
    by_cases h : key y = key x
    · simp [dictSet, h]
    · have h' : (key y == key x) = false := by simpa using h
      have h'' : ¬ key x = key y := fun e => h e.symm
      simp only [dictSet, h', Bool.false_eq_true, if_false, List.map_cons, map_dictSet key x ys, List.mem_cons, h'', false_or]
      split <;> simp

theorem nodup_of_dictSet {α : Type} (key : α → String) (x : α) (l : List α) (h : ((dictSet key x l).map key).Nodup) :
    (l.map key).Nodup := by
  rw [map_dictSet] at h
  split at h
  · exact h
  · exact (List.nodup_append.mp h).1

theorem perm_modifyFirst {α ε : Type} (key : α → String) (n : String) (F : α → Except ε α) (nf : ε)
    {l l' : List α} (hp : l.Perm l') :
    (l.map key).Nodup → ∀ y, modifyFirst (fun a => key a == n) F nf l = .ok y →
      ∃ y', modifyFirst (fun a => key a == n) F nf l' = .ok y' ∧ y.Perm y' := by
  induction hp with
  | nil => intro _ y h; simp [modifyFirst] at h
  | cons a _ ih =>
    intro hn y h
    rcases modifyFirst_ok_cons h with ⟨hpa, b, hb, rfl⟩ | ⟨hpa, ys, hys, rfl⟩
    · rename_i l₁ l₂ hperm
      exact ⟨b :: l₂, modifyFirst_hit hpa hb, hperm.cons b⟩
    · obtain ⟨y', h1, h2⟩ := ih (List.nodup_cons.mp (by simpa using hn)).2 ys hys
      exact ⟨a :: y', modifyFirst_miss hpa h1, h2.cons a⟩
  | swap a b l =>
    intro hn y h
    have hab : key b ≠ key a := by
      simp only [List.map_cons, List.nodup_cons, List.mem_cons, not_or] at hn
      exact hn.1.1
    rcases modifyFirst_ok_cons h with ⟨hpb, c, hc, rfl⟩ | ⟨hpb, ys, hys, rfl⟩
    · have hpa : (key a == n) = false := by
        simp only [beq_iff_eq] at hpb; simp [← hpb, Ne.symm hab]
      exact ⟨a :: c :: l, modifyFirst_miss hpa (modifyFirst_hit hpb hc), List.Perm.swap _ _ _⟩
    · rcases modifyFirst_ok_cons hys with ⟨hpa, c, hc, rfl⟩ | ⟨hpa, zs, hzs, rfl⟩
      · exact ⟨c :: b :: l, modifyFirst_hit hpa hc, List.Perm.swap _ _ _⟩
      · exact ⟨a :: b :: zs, modifyFirst_miss hpa (modifyFirst_miss hpb hzs), List.Perm.swap _ _ _⟩
  | trans h1 _ ih1 ih2 =>
    intro hn y h
    obtain ⟨y', h3, h4⟩ := ih1 hn y h
    obtain ⟨y'', h5, h6⟩ := ih2 ((h1.map key).nodup_iff.mp hn) y' h3
    exact ⟨y'', h5, h4.trans h6⟩

theorem perm_dictSet {α : Type} (key : α → String) (x : α) {l l' : List α} (hp : l.Perm l') :
    (l.map key).Nodup → (dictSet key x l).Perm (dictSet key x l') := by
  induction hp with
  | nil => intro _; exact List.Perm.refl _
  | cons a hperm ih =>
    intro hn
    by_cases h : key a = key x
    · simp only [dictSet, h, beq_self_eq_true, if_true]; exact hperm.cons x
    · have h' : (key a == key x) = false := by simpa using h
      simp only [dictSet, h', Bool.false_eq_true, if_false]
      exact (ih (List.nodup_cons.mp (by simpa using hn)).2).cons a
  | swap a b l =>
    intro hn
    have hab : key b ≠ key a := by
      simp only [List.map_cons, List.nodup_cons, List.mem_cons, not_or] at hn
      exact hn.1.1
    by_cases ha : key a = key x
    · have hb : (key b == key x) = false := by simpa [← ha] using hab
      simp only [dictSet, ha, hb, beq_self_eq_true, if_true, Bool.false_eq_true, if_false]
      exact List.Perm.swap _ _ _
    · have ha' : (key a == key x) = false := by simpa using ha
      by_cases hb : key b = key x
      · simp only [dictSet, ha', hb, beq_self_eq_true, if_true, Bool.false_eq_true, if_false]
        exact List.Perm.swap _ _ _
      · have hb' : (key b == key x) = false := by simpa using hb
        simp only [dictSet, ha', hb', Bool.false_eq_true, if_false]
        exact List.Perm.swap _ _ _
  | trans h1 _ ih1 ih2 =>
    intro hn
    exact (ih1 hn).trans (ih2 ((h1.map key).nodup_iff.mp hn))

/-! ### unique names: the input of an operation whose output has unique names had unique names -/

theorem uniqL_append_left {l k : List SuiteResult} (h : uniqL (l ++ k)) : uniqL l := by
  refine ⟨?_, ?_⟩
  · have := h.1; rw [List.map_append] at this; exact (List.nodup_append.mp this).1
  · rw [uniqNamesSuites_iff]; intro s hs
    exact (uniqNamesSuites_iff _).mp h.2 s (List.mem_append_left _ hs)

theorem Leaf.uniq_back {lf : Leaf} {s t : SuiteResult} (h : lf.run s = .ok t) (hu : uniqNamesSuite t = true) :
    uniqNamesSuite s = true := by
  cases lf <;> simp only [Leaf.run] at h <;> obtain ⟨a, ha, rfl⟩ := Lens.on_ok h <;> cases s <;>
    simp only [suitesL, endL, setupL, teardownL, testsL, SuiteResult.setSuites, SuiteResult.setEndTime, SuiteResult.setSetup,
      SuiteResult.setTeardown, SuiteResult.setTests, SuiteResult.suites, SuiteResult.tests] at ha hu ⊢ <;>
    rw [uniqNamesSuite_mk] at hu ⊢
  · cases ha; exact ⟨hu.1, uniqL_append_left hu.2⟩
  · exact hu
  · exact hu
  · exact hu
  · cases ha; exact ⟨nodup_of_dictSet tname _ _ hu.1, hu.2⟩
  · refine ⟨?_, hu.2⟩
    rw [← modifyFirst_map_key tname _ _ _ (fun _ _ hy => by simp only [tname]; rw [wrapT_md hy]) _ _ ha]
    exact hu.1

theorem nodeOp_uniq_back : ∀ (p : Path) (lf : Leaf) (s t : SuiteResult), nodeOp p lf s = .ok t →
    uniqNamesSuite t = true → uniqNamesSuite s = true
  | [], lf, s, t, h, hu => Leaf.uniq_back h hu
  | n :: rest, lf, s, t, h, hu => by
    simp only [nodeOp] at h
    obtain ⟨a, ha, rfl⟩ := Lens.on_ok h
    cases s
    simp only [suitesL, SuiteResult.setSuites, SuiteResult.suites] at ha hu ⊢
    rw [uniqNamesSuite_mk] at hu ⊢
    refine ⟨hu.1, ?_, ?_⟩
    · rw [← modifyFirst_map_key sname _ _ _ (fun x y hy => by simp only [sname]; exact nodeOp_name rest lf x y hy) _ _ ha]
      exact hu.2.1
    · rw [uniqNamesSuites_iff]
      exact modifyFirst_all_back _ _ _ (fun s => uniqNamesSuite s = true)
        (fun x y hy => nodeOp_uniq_back rest lf x y hy) _ _ ha ((uniqNamesSuites_iff _).mp hu.2.2)

theorem topOp_uniq_back : ∀ (p : Path) (lf : Leaf) (ss ss' : List SuiteResult), topOp p lf ss = .ok ss' →
    uniqL ss' → uniqL ss
  | [], lf, ss, ss', h, hu => by
    cases lf <;> simp only [topOp] at h <;> first | (cases h; done) | skip
    cases h; exact uniqL_append_left hu
  | n :: rest, lf, ss, ss', h, hu => by
    simp only [topOp] at h
    refine ⟨?_, ?_⟩
    · rw [← modifyFirst_map_key sname _ _ _ (fun x y hy => by simp only [sname]; exact nodeOp_name rest lf x y hy) _ _ h]
      exact hu.1
    · rw [uniqNamesSuites_iff]
      exact modifyFirst_all_back _ _ _ (fun s => uniqNamesSuite s = true)
        (fun x y hy => nodeOp_uniq_back rest lf x y hy) _ _ h ((uniqNamesSuites_iff _).mp hu.2)

/-! ### congruence -/

theorem SameSuites.append_right (k : List SuiteResult) {l l' : List SuiteResult} (h : SameSuites l l') :
    SameSuites (l ++ k) (l' ++ k) := by
  refine SameSuites.ind (Q := fun l l' => SameSuites (l ++ k) (l' ++ k)) ?_ ?_ ?_ ?_ h
  · exact SameSuites.refl _
  · intro s s' l l' hs _ ih; exact .cons hs ih
  · intro a b l; exact .swap a b _
  · intro _ _ _ _ _ ih1 ih2; exact .trans ih1 ih2

/-- the lookup of a suite by name respects `SameSuites` when sibling names are unique -/
theorem modifyFirst_congr_same (n : String) (F : SuiteResult → Except WriterErr SuiteResult) (nf : WriterErr)
    (hF : ∀ s s' t, SameSuite s s' → uniqNamesSuite s = true → F s = .ok t → ∃ t', F s' = .ok t' ∧ SameSuite t t')
    {l l' : List SuiteResult} (h : SameSuites l l') :
    uniqL l → ∀ y, modifyFirst (fun s => s.md.name == n) F nf l = .ok y →
      ∃ y', modifyFirst (fun s => s.md.name == n) F nf l' = .ok y' ∧ SameSuites y y' := by
  refine SameSuites.ind (Q := fun l l' => uniqL l → ∀ y, modifyFirst (fun s => s.md.name == n) F nf l = .ok y →
      ∃ y', modifyFirst (fun s => s.md.name == n) F nf l' = .ok y' ∧ SameSuites y y') ?_ ?_ ?_ ?_ h
  · intro _ y h; simp [modifyFirst] at h
  · intro s s' l l' hs hl ih hu y h
    have hus : uniqNamesSuite s = true := (uniqNamesSuites_iff _).mp hu.2 s (by simp)
    have hul : uniqL l := ⟨(List.nodup_cons.mp (by simpa using hu.1)).2, by
      have := hu.2; simp only [uniqNamesSuites, Bool.and_eq_true] at this; exact this.2⟩
    have hp' : ∀ b, (s.md.name == n) = b → (s'.md.name == n) = b := by rw [hs.md_eq]; exact fun _ h => h
    rcases modifyFirst_ok_cons h with ⟨hp, b, hb, rfl⟩ | ⟨hp, ys, hys, rfl⟩
    · obtain ⟨b', hb', hsb⟩ := hF s s' b hs hus hb
      exact ⟨b' :: l', modifyFirst_hit (hp' _ hp) hb', .cons hsb hl⟩
    · obtain ⟨y', h1, h2⟩ := ih hul ys hys
      exact ⟨s' :: y', modifyFirst_miss (hp' _ hp) h1, .cons hs h2⟩
  · intro a b l hu y h
    have hab : b.md.name ≠ a.md.name := by
      have := hu.1
      simp only [List.map_cons, List.nodup_cons, List.mem_cons, not_or, sname] at this
      exact fun e => this.1.1 e.symm
    rcases modifyFirst_ok_cons h with ⟨hpa, c, hc, rfl⟩ | ⟨hpa, ys, hys, rfl⟩
    · have hpb : (b.md.name == n) = false := by
        simp only [beq_iff_eq] at hpa; simp [← hpa, hab]
      exact ⟨b :: c :: l, modifyFirst_miss hpb (modifyFirst_hit hpa hc), .swap _ _ _⟩
    · rcases modifyFirst_ok_cons hys with ⟨hpb, c, hc, rfl⟩ | ⟨hpb, zs, hzs, rfl⟩
      · exact ⟨c :: a :: l, modifyFirst_hit hpb hc, .swap _ _ _⟩
      · exact ⟨b :: a :: zs, modifyFirst_miss hpb (modifyFirst_miss hpa hzs), .swap _ _ _⟩
  · intro l₁ l₂ l₃ h12 _ ih1 ih2 hu y h
    obtain ⟨y', h3, h4⟩ := ih1 hu y h
    obtain ⟨y'', h5, h6⟩ := ih2 (uniqL_of_same h12 hu) y' h3
    exact ⟨y'', h5, h4.trans h6⟩

theorem Leaf.congr (lf : Leaf) {s s' t : SuiteResult} (hs : SameSuite s s') (hu : uniqNamesSuite s = true)
    (h : lf.run s = .ok t) : ∃ t', lf.run s' = .ok t' ∧ SameSuite t t' := by
  cases hs with
  | mk md st en su td hp hss =>
    rw [uniqNamesSuite_mk] at hu
    cases lf <;> simp only [Leaf.run] at h ⊢ <;> obtain ⟨a, ha, rfl⟩ := Lens.on_ok h <;>
      simp only [suitesL, endL, setupL, teardownL, testsL, SuiteResult.setSuites, SuiteResult.setEndTime, SuiteResult.setSetup,
        SuiteResult.setTeardown, SuiteResult.setTests, SuiteResult.suites, SuiteResult.tests, SuiteResult.endTime,
        SuiteResult.setup, SuiteResult.teardown, Lens.on] at ha ⊢
    · cases ha; exact ⟨_, rfl, .mk _ _ _ _ _ hp (hss.append_right _)⟩
    · cases ha; exact ⟨_, rfl, .mk _ _ _ _ _ hp hss⟩
    · rw [ha]; exact ⟨_, rfl, .mk _ _ _ _ _ hp hss⟩
    · rw [ha]; exact ⟨_, rfl, .mk _ _ _ _ _ hp hss⟩
    · cases ha; exact ⟨_, rfl, .mk _ _ _ _ _ (perm_dictSet tname _ hp hu.1) hss⟩
    · obtain ⟨y', h1, h2⟩ := perm_modifyFirst tname _ _ _ hp hu.1 a ha
      simp only [tname] at h1
      rw [h1]; exact ⟨_, rfl, .mk _ _ _ _ _ h2 hss⟩

theorem nodeOp_congr : ∀ (p : Path) (lf : Leaf) (s s' t : SuiteResult), SameSuite s s' → uniqNamesSuite s = true →
    nodeOp p lf s = .ok t → ∃ t', nodeOp p lf s' = .ok t' ∧ SameSuite t t'
  | [], lf, s, s', t, hs, hu, h => Leaf.congr lf hs hu h
  | n :: rest, lf, s, s', t, hs, hu, h => by
    cases hs with
    | mk md st en su td hp hss =>
      rw [uniqNamesSuite_mk] at hu
      simp only [nodeOp] at h ⊢
      obtain ⟨a, ha, rfl⟩ := Lens.on_ok h
      simp only [suitesL, SuiteResult.setSuites, SuiteResult.suites, Lens.on] at ha ⊢
      obtain ⟨y', h1, h2⟩ := modifyFirst_congr_same n _ _ (fun x x' y hx hux hy => nodeOp_congr rest lf x x' y hx hux hy)
        hss hu.2 a ha
      rw [h1]; exact ⟨_, rfl, .mk _ _ _ _ _ hp h2⟩

/-- **the same tree operation on two forests with the same content** (unique sibling names): both succeed or both fail,
    and the results have the same content. (Stated in the success direction; `SameSuites` is symmetric.) -/
theorem topOp_congr : ∀ (p : Path) (lf : Leaf) (ss ss' y : List SuiteResult), SameSuites ss ss' → uniqL ss →
    topOp p lf ss = .ok y → ∃ y', topOp p lf ss' = .ok y' ∧ SameSuites y y'
  | [], lf, ss, ss', y, hs, hu, h => by
    cases lf <;> simp only [topOp] at h ⊢ <;> first | (cases h; done) | skip
    cases h; exact ⟨_, rfl, hs.append_right _⟩
  | n :: rest, lf, ss, ss', y, hs, hu, h => by
    simp only [topOp] at h ⊢
    exact modifyFirst_congr_same n _ _ (fun x x' y hx hux hy => nodeOp_congr rest lf x x' y hx hux hy) hs hu y h

end LccModel.Writer

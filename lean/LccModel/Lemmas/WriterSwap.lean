/-
  C05 helpers, part 7: commutation and congruence of the handlers themselves, disciplined runs, `SwapEquiv`.
-/
import LccModel.Lemmas.WriterIndep
set_option linter.unusedSimpArgs false
set_option linter.unusedVariables false
namespace LccModel.Writer
open LccModel.Report

/-! ### independent events commute -/

theorem MicroOf.push_target {e : Event} {m : Micro} (h : MicroOf e m) :
    ∀ t r l idx, m.push = some (t, r) → r.target = some (l, idx) → evFoot e = locFoot l := by
  intro t r l idx hp ht
  cases h with
  | suiteStart => cases hp
  | suiteEnd => cases hp
  | start => cases hp
  | fin => cases hp
  | stepStart loc d tid t' n hl =>
    cases hp
    simp only [Option.some.injEq, Prod.mk.injEq] at ht
    obtain ⟨rfl, _⟩ := ht
    rfl
  | stepEndDetached loc s tid t' ref htg =>
    cases hp
    simp only at ht
    rw [htg] at ht; cases ht
  | stepEndAt loc s tid t' ref idx' htg hl =>
    cases hp
    simp only at ht
    rw [htg] at ht
    simp only [Option.some.injEq, Prod.mk.injEq] at ht
    obtain ⟨rfl, _⟩ := ht
    rfl
  | entryDetached => cases hp
  | entryAt => cases hp

theorem noRefs_of_pushOpt {b : Option (Nat × StepRef)} {act : List (Nat × StepRef)} {loc : Loc}
    (h : noRefs (pushOpt b act) loc = true) : noRefs act loc = true := by
  cases b with
  | none => exact h
  | some x =>
    simp only [pushOpt, noRefs, List.all_cons, Bool.and_eq_true] at h
    exact h.2

/-- **Independent events commute** (part b): if from `w` the handler of `e₁` and then that of `e₂` succeed (within the
    discipline), then so do `e₂` and then `e₁`, and the two final states have the same content: reports `SameContent`,
    every thread bound to the same step. By the symmetry of `Indep`, the two orders succeed or fail together. -/
theorem apply_comm {e₁ e₂ : Event} (hi : Indep e₁ e₂) {w w₁ w₂ : WriterState}
    (h1 : apply w e₁ = .ok w₁) (d1 : disc w e₁ = true) (h2 : apply w₁ e₂ = .ok w₂) (d2 : disc w₁ e₂ = true) :
    ∃ w₁' w₂', apply w e₂ = .ok w₁' ∧ disc w e₂ = true ∧ apply w₁' e₁ = .ok w₂' ∧ disc w₁' e₁ = true ∧ StEq w₂ w₂' := by
  obtain ⟨p, a, q, b, hf1, hf2, hfi, _⟩ := hi.unpack
  obtain ⟨m₁, hm1, hs1⟩ := apply_micro h1 d1 (by simp [hf1])
  obtain ⟨m₂, hm2, hs2⟩ := apply_micro h2 d2 (by simp [hf2])
  obtain ⟨w₁', w₂', hs2', hs1', heq⟩ := Micro.comm (MicroOf.indep hi hm1 hm2) hs1 hs2
  have fresh2 : startsFresh w e₂ = true := by
    have := d2
    simp only [disc, Bool.and_eq_true] at this
    have hf := this.1
    simp only [startsFresh] at hf ⊢
    split
    · rename_i loc _ _ hst
      simp only [hst] at hf
      rw [hs1.2.2] at hf
      exact noRefs_of_pushOpt hf
    · rfl
  obtain ⟨ha2, hd2⟩ := micro_apply hm2 hs2' fresh2
  have fresh1 : startsFresh w₁' e₁ = true := by
    have := d1
    simp only [disc, Bool.and_eq_true] at this
    have hf := this.1
    simp only [startsFresh] at hf ⊢
    split
    · rename_i loc p₁ lf₁ hst
      simp only [hst] at hf
      rw [hs2'.2.2]
      cases hp : m₂.push with
      | none => exact hf
      | some tr =>
        obtain ⟨t, r⟩ := tr
        simp only [pushOpt, noRefs, List.all_cons, Bool.and_eq_true]
        refine ⟨?_, hf⟩
        simp only [refAvoids]
        cases htg : r.target with
        | none => rfl
        | some li =>
          obtain ⟨l, idx⟩ := li
          simp only [bne_iff_ne, ne_eq]
          rintro rfl
          have e2 := hm2.push_target t r l idx hp htg
          have e1 := startOf_foot hst
          rw [e1.2.2] at e2
          rw [hf2] at e2; rw [hf1] at e1
          have ea := e1.1
          cases e2; cases ea
          exact footIndep_irrefl _ _ hfi
    · rfl
  obtain ⟨ha1, hd1⟩ := micro_apply hm1 hs1' fresh1
  exact ⟨w₁', w₂', ha2, hd2, ha1, hd1, heq⟩

/-! ### the same event on two states with the same content -/

theorem modifyResult_congr_same {loc : Loc} {f : Result → Except WriterErr Result} {r r' r₁ : Report}
    (hs : SameContent r r') (hu : uniqL r.suites) (h : modifyResult f loc r = .ok r₁) :
    ∃ r₁', modifyResult f loc r' = .ok r₁' ∧ SameContent r₁ r₁' := by
  cases hl : locLeaf loc f with
  | some tr =>
    obtain ⟨p, lf⟩ := tr
    rw [modifyResult_eq_tree hl] at h ⊢
    exact Micro.treeRun_congr ⟨none, some (p, lf), none⟩ hs hu h
  | none =>
    cases loc with
    | sessionSetup =>
      simp only [modifyResult] at h ⊢
      rw [← hs.setup]
      cases hsu : r.setup with
      | none => simp [hsu] at h
      | some x =>
        simp only [hsu] at h ⊢
        cases hf : f x with
        | error e => simp [hf] at h
        | ok y =>
          simp only [hf] at h ⊢
          cases h
          exact ⟨_, rfl, ⟨hs.1, hs.2, hs.3, hs.4, hs.5, hs.6, rfl, hs.8, hs.9⟩⟩
    | sessionTeardown =>
      simp only [modifyResult] at h ⊢
      rw [← hs.teardown]
      cases hsu : r.teardown with
      | none => simp [hsu] at h
      | some x =>
        simp only [hsu] at h ⊢
        cases hf : f x with
        | error e => simp [hf] at h
        | ok y =>
          simp only [hf] at h ⊢
          cases h
          exact ⟨_, rfl, ⟨hs.1, hs.2, hs.3, hs.4, hs.5, hs.6, hs.7, rfl, hs.9⟩⟩
    | suiteSetup p => simp [locLeaf] at hl
    | suiteTeardown p => simp [locLeaf] at hl
    | test p =>
      simp only [locLeaf] at hl
      split at hl
      · cases hl
      · rename_i hnone
        simp [modifyResult, modifyTest, hnone, liftSuites] at h

def detachRef (loc : Loc) (ref : StepRef) : StepRef :=
  match ref.target with
  | some (l, _) => if l = loc then { ref with target := none } else ref
  | none => ref

theorem detach_eq_map (loc : Loc) (act : List (Nat × StepRef)) :
    detach loc act = act.map (fun b => (b.1, detachRef loc b.2)) := by
  unfold detach
  apply List.map_congr_left
  rintro ⟨tid, ref⟩ _
  simp only [detachRef]
  cases ref.target with
  | none => rfl
  | some li => obtain ⟨l, i⟩ := li; simp only; split <;> rfl

theorem lookup_detach (loc : Loc) (tid : Nat) : ∀ act : List (Nat × StepRef),
    (detach loc act).lookup tid = (act.lookup tid).map (detachRef loc) := by
  intro act
  rw [detach_eq_map]
  induction act with
  | nil => rfl
  | cons b rest ih =>
    obtain ⟨t, r⟩ := b
    simp only [List.map_cons, List.lookup]
    split
    · rfl
    · exact ih

theorem stEq_detach {w w' : WriterState} (hs : StEq w w') (loc : Loc) {r r' : Report} (h : SameContent r r') :
    StEq ⟨r, detach loc w.active⟩ ⟨r', detach loc w'.active⟩ := by
  refine ⟨h, ?_, ?_⟩
  · intro tid; simp only [lookup_detach, hs.active]
  · simp only [detach_eq_map]; exact hs.perm.map _

theorem stEq_report {w w' : WriterState} (hs : StEq w w') {r r' : Report} (h : SameContent r r') :
    StEq { w with report := r } { w' with report := r' } := ⟨h, hs.active, hs.perm⟩

theorem stEq_push {w w' : WriterState} (hs : StEq w w') (b : Nat × StepRef) {r r' : Report} (h : SameContent r r') :
    StEq ⟨r, b :: w.active⟩ ⟨r', b :: w'.active⟩ :=
  ⟨h, lookup_pushOpt_congr (some b) hs.active, hs.perm.cons b⟩

/-- **The same event on two states with the same content** (unique sibling names): if the handler succeeds on one it
    succeeds on the other, and the resulting states have the same content. No discipline is needed. -/
theorem apply_congr {e : Event} {w w' w₁ : WriterState} (hs : StEq w w') (hu : uniqL w.report.suites)
    (h : apply w e = .ok w₁) : ∃ w₁', apply w' e = .ok w₁' ∧ StEq w₁ w₁' := by
  have hr := hs.report
  cases hst : startOf e with
  | some x =>
    obtain ⟨loc, p, lf⟩ := x
    obtain ⟨r₁, h1, rfl⟩ := (apply_start_iff hst w w₁).mp h
    obtain ⟨r₁', h2, h3⟩ := Micro.treeRun_congr ⟨none, some (p, lf), none⟩ hr hu h1
    exact ⟨_, (apply_start_iff hst w' _).mpr ⟨r₁', h2, rfl⟩, stEq_detach hs loc h3⟩
  | none =>
  cases he : endOf e with
  | some x =>
    obtain ⟨loc, t⟩ := x
    rw [apply_end_eq he, onReport_iff] at h
    obtain ⟨r₁, h1, rfl⟩ := h
    obtain ⟨r₁', h2, h3⟩ := modifyResult_congr_same hr hu h1
    exact ⟨_, by rw [apply_end_eq he, onReport_iff]; exact ⟨r₁', h2, rfl⟩, stEq_report hs h3⟩
  | none =>
  cases hen : entryOf e with
  | some x =>
    obtain ⟨loc, tid, en⟩ := x
    rw [apply_entry_eq hen, addEntry_iff] at h
    obtain ⟨⟨r0, hr0⟩, ref, hl, hcase⟩ := h
    obtain ⟨r0', hr0', _⟩ := modifyResult_congr_same hr hu hr0
    rw [hs.active] at hl
    rcases hcase with ⟨ht, htt, rfl⟩ | ⟨l, idx, r₁, ht, hm, rfl⟩
    · exact ⟨w', by rw [apply_entry_eq hen, addEntry_iff]; exact ⟨⟨r0', hr0'⟩, ref, hl, Or.inl ⟨ht, htt, rfl⟩⟩, hs⟩
    · obtain ⟨r₁', h2, h3⟩ := modifyResult_congr_same hr hu hm
      exact ⟨_, by rw [apply_entry_eq hen, addEntry_iff]; exact ⟨⟨r0', hr0'⟩, ref, hl, Or.inr ⟨l, idx, r₁', ht, h2, rfl⟩⟩,
        stEq_report hs h3⟩
  | none =>
  cases e <;> simp only [startOf, endOf, entryOf, reduceCtorEq] at hst he hen
  · -- sessionStart
    simp only [apply] at h ⊢; cases h
    exact ⟨_, rfl, ⟨⟨hr.1, hr.2, hr.3, rfl, hr.5, hr.6, hr.7, hr.8, hr.9⟩, hs.active, hs.perm⟩⟩
  · -- sessionEnd
    simp only [apply] at h ⊢; cases h
    exact ⟨_, rfl, ⟨⟨hr.1, hr.2, hr.3, hr.4, rfl, hr.6, hr.7, hr.8, hr.9⟩, hs.active, hs.perm⟩⟩
  · -- sessionSetupStart
    simp only [apply] at h ⊢; cases h
    exact ⟨_, rfl, stEq_detach hs _ ⟨hr.1, hr.2, hr.3, hr.4, hr.5, hr.6, rfl, hr.8, hr.9⟩⟩
  · -- sessionSetupEnd
    simp only [apply] at h ⊢
    rw [onReport_iff] at h
    obtain ⟨r₁, h1, rfl⟩ := h
    obtain ⟨r₁', h2, h3⟩ := modifyResult_congr_same hr hu h1
    exact ⟨_, onReport_iff.mpr ⟨r₁', h2, rfl⟩, stEq_report hs h3⟩
  · -- sessionTeardownStart
    simp only [apply] at h ⊢; cases h
    exact ⟨_, rfl, stEq_detach hs _ ⟨hr.1, hr.2, hr.3, hr.4, hr.5, hr.6, hr.7, rfl, hr.9⟩⟩
  · -- sessionTeardownEnd
    simp only [apply] at h ⊢
    rw [onReport_iff] at h
    obtain ⟨r₁, h1, rfl⟩ := h
    obtain ⟨r₁', h2, h3⟩ := modifyResult_congr_same hr hu h1
    exact ⟨_, onReport_iff.mpr ⟨r₁', h2, rfl⟩, stEq_report hs h3⟩
  · -- suiteStart
    obtain ⟨w₁', h2, h3⟩ := Micro.congr _ hs hu ((apply_suiteStart_iff _ _ _ _ _).mp h)
    exact ⟨w₁', (apply_suiteStart_iff _ _ _ _ _).mpr h2, h3⟩
  · -- suiteEnd
    obtain ⟨w₁', h2, h3⟩ := Micro.congr _ hs hu ((apply_suiteEnd_iff _ _ _ _).mp h)
    exact ⟨w₁', (apply_suiteEnd_iff _ _ _ _).mpr h2, h3⟩
  · -- stepStart
    obtain ⟨n, r₁, h1, rfl⟩ := (apply_stepStart_iff _ _ _ _ _ _).mp h
    obtain ⟨r₁', h2, h3⟩ := modifyResult_congr_same hr hu h1
    exact ⟨_, (apply_stepStart_iff _ _ _ _ _ _).mpr ⟨n, r₁', h2, rfl⟩, stEq_push hs _ h3⟩
  · -- stepEnd
    obtain ⟨ref, hl, hcase⟩ := (apply_stepEnd_iff _ _ _ _ _ _).mp h
    rw [hs.active] at hl
    rcases hcase with ⟨ht, rfl⟩ | ⟨l, idx, r₁, ht, hm, rfl⟩
    · exact ⟨_, (apply_stepEnd_iff _ _ _ _ _ _).mpr ⟨ref, hl, Or.inl ⟨ht, rfl⟩⟩, stEq_push hs _ hr⟩
    · obtain ⟨r₁', h2, h3⟩ := modifyResult_congr_same hr hu hm
      exact ⟨_, (apply_stepEnd_iff _ _ _ _ _ _).mpr ⟨ref, hl, Or.inr ⟨l, idx, r₁', ht, h2, rfl⟩⟩, stEq_push hs _ h3⟩

theorem disc_congr {w w' : WriterState} (hs : StEq w w') (e : Event) : disc w e = disc w' e := by
  simp only [disc, startsFresh, emitsInPlace]
  congr 1
  · split
    · simp only [noRefs]; exact hs.perm.all_eq
    · rfl
  · split
    · simp only [located, hs.active]
    · rfl

/-! ### disciplined runs -/

/-- one handler within the discipline: the event obeys `disc` and the report keeps unique sibling names -/
def dapply (w : WriterState) (e : Event) : Except WriterErr WriterState :=
  if disc w e then
    match apply w e with
    | .ok w' => if uniqNames w'.report then .ok w' else .error .internal
    | .error x => .error x
  else .error .internal

/-- `run` within the discipline -/
def drun (w : WriterState) : List Event → Except WriterErr WriterState
  | [] => .ok w
  | e :: es =>
    match dapply w e with
    | .ok w' => drun w' es
    | .error x => .error x

theorem dapply_iff {w w' : WriterState} {e : Event} :
    dapply w e = .ok w' ↔ disc w e = true ∧ apply w e = .ok w' ∧ uniqNames w'.report = true := by
  unfold dapply
  cases hd : disc w e with
  | false => simp
  | true =>
    simp only [if_true, true_and]
    cases ha : apply w e with
    | error x => simp
    | ok w'' =>
      simp only [Except.ok.injEq]
      cases hu : uniqNames w''.report with
      | false =>
        simp only [Bool.false_eq_true, if_false, reduceCtorEq, false_iff, not_and]
        rintro rfl; simp [hu]
      | true =>
        simp only [if_true, Except.ok.injEq]
        constructor
        · rintro rfl; exact ⟨rfl, hu⟩
        · rintro ⟨rfl, _⟩; rfl

theorem drun_cons {w w' : WriterState} {e : Event} {es : List Event} :
    drun w (e :: es) = .ok w' ↔ ∃ wm, dapply w e = .ok wm ∧ drun wm es = .ok w' := by
  simp only [drun]
  cases dapply w e with
  | error x => simp
  | ok wm => simp

theorem drun_append {w w' : WriterState} : ∀ {pre post : List Event},
    drun w (pre ++ post) = .ok w' ↔ ∃ wm, drun w pre = .ok wm ∧ drun wm post = .ok w' := by
  intro pre
  induction pre generalizing w with
  | nil => intro post; simp [drun]
  | cons e es ih =>
    intro post
    simp only [List.cons_append, drun_cons, ih]
    constructor
    · rintro ⟨wm, h1, wm', h2, h3⟩; exact ⟨wm', ⟨wm, h1, h2⟩, h3⟩
    · rintro ⟨wm', ⟨wm, h1, h2⟩, h3⟩; exact ⟨wm, h1, wm', h2, h3⟩

/-- a disciplined run is a run -/
theorem run_of_drun : ∀ {es : List Event} {w w' : WriterState}, drun w es = .ok w' → run w es = .ok w'
  | [], w, w', h => by simpa [drun, run] using h
  | e :: es, w, w', h => by
    obtain ⟨wm, h1, h2⟩ := drun_cons.mp h
    simp only [run, (dapply_iff.mp h1).2.1]
    exact run_of_drun h2

theorem drun_uniq : ∀ {es : List Event} {w w' : WriterState}, drun w es = .ok w' → uniqNames w.report = true →
    uniqNames w'.report = true
  | [], w, w', h, hu => by simp only [drun, Except.ok.injEq] at h; subst h; exact hu
  | e :: es, w, w', h, hu => by
    obtain ⟨wm, h1, h2⟩ := drun_cons.mp h
    exact drun_uniq h2 (dapply_iff.mp h1).2.2

theorem uniqNames_of_stEq {w w' : WriterState} (hs : StEq w w') (hu : uniqNames w.report = true) :
    uniqNames w'.report = true :=
  (uniqNames_iff _).mpr (uniqL_of_same hs.report.suites ((uniqNames_iff _).mp hu))

theorem dapply_congr {e : Event} {w w' w₁ : WriterState} (hs : StEq w w') (hu : uniqNames w.report = true)
    (h : dapply w e = .ok w₁) : ∃ w₁', dapply w' e = .ok w₁' ∧ StEq w₁ w₁' := by
  obtain ⟨hd, ha, hu₁⟩ := dapply_iff.mp h
  obtain ⟨w₁', h1, h2⟩ := apply_congr hs ((uniqNames_iff _).mp hu) ha
  exact ⟨w₁', dapply_iff.mpr ⟨by rw [← disc_congr hs]; exact hd, h1, uniqNames_of_stEq h2 hu₁⟩, h2⟩

theorem drun_congr : ∀ {es : List Event} {w w' w₁ : WriterState}, StEq w w' → uniqNames w.report = true →
    drun w es = .ok w₁ → ∃ w₁', drun w' es = .ok w₁' ∧ StEq w₁ w₁'
  | [], w, w', w₁, hs, _, h => by
    simp only [drun, Except.ok.injEq] at h; subst h; exact ⟨w', rfl, hs⟩
  | e :: es, w, w', w₁, hs, hu, h => by
    obtain ⟨wm, h1, h2⟩ := drun_cons.mp h
    obtain ⟨wm', h3, h4⟩ := dapply_congr hs hu h1
    obtain ⟨w₁', h5, h6⟩ := drun_congr h4 (dapply_iff.mp h1).2.2 h2
    exact ⟨w₁', drun_cons.mpr ⟨wm', h3, h5⟩, h6⟩

/-- independent events commute within the discipline -/
theorem dapply_comm {e₁ e₂ : Event} (hi : Indep e₁ e₂) {w w₁ w₂ : WriterState}
    (h1 : dapply w e₁ = .ok w₁) (h2 : dapply w₁ e₂ = .ok w₂) :
    ∃ w₁' w₂', dapply w e₂ = .ok w₁' ∧ dapply w₁' e₁ = .ok w₂' ∧ StEq w₂ w₂' := by
  obtain ⟨d1, a1, _⟩ := dapply_iff.mp h1
  obtain ⟨d2, a2, u2⟩ := dapply_iff.mp h2
  obtain ⟨w₁', w₂', a2', d2', a1', d1', heq⟩ := apply_comm hi a1 d1 a2 d2
  have u2' : uniqNames w₂'.report = true := uniqNames_of_stEq heq u2
  have u1' : uniqNames w₁'.report = true := by
    obtain ⟨p, a, _, _, hf1, _, _, _⟩ := hi.unpack
    obtain ⟨m, _, hs⟩ := apply_micro a1' d1' (by simp [hf1])
    exact (uniqNames_iff _).mpr (m.treeRun_uniq_back hs.2.1 ((uniqNames_iff _).mp u2'))
  exact ⟨w₁', w₂', dapply_iff.mpr ⟨d2', a2', u1'⟩, dapply_iff.mpr ⟨d1', a1', u2'⟩, heq⟩

/-! ### schedules: streams that differ by swaps of adjacent independent events -/

/-- `es₂` is obtained from `es₁` by a sequence of swaps of two ADJACENT INDEPENDENT events. Every schedule of a run yields a
    stream swap-equivalent to the sequential one: the single consumer of the event queue applies events in causal order,
    and two events that can arrive in either order are those of tasks running concurrently — different tests, different
    phases, different threads. -/
inductive SwapEquiv : List Event → List Event → Prop
  | refl (es : List Event) : SwapEquiv es es
  | swap (pre post : List Event) (e₁ e₂ : Event) : Indep e₁ e₂ →
      SwapEquiv (pre ++ e₁ :: e₂ :: post) (pre ++ e₂ :: e₁ :: post)
  | trans {a b c : List Event} : SwapEquiv a b → SwapEquiv b c → SwapEquiv a c

theorem SwapEquiv.symm {a b : List Event} (h : SwapEquiv a b) : SwapEquiv b a := by
  induction h with
  | refl es => exact .refl es
  | swap pre post e₁ e₂ hi => exact .swap pre post e₂ e₁ hi.symm
  | trans _ _ ih1 ih2 => exact .trans ih2 ih1

/-- **Swap-equivalent streams give states with the same content** (part c): if the disciplined run of `es₁` from `w`
    succeeds, so does the run of `es₂` from any `w'` with the same content, and the final states have the same content. -/
theorem drun_swapEquiv {es₁ es₂ : List Event} (h : SwapEquiv es₁ es₂) :
    ∀ {w w' w₁ : WriterState}, StEq w w' → uniqNames w.report = true → drun w es₁ = .ok w₁ →
      ∃ w₂, drun w' es₂ = .ok w₂ ∧ StEq w₁ w₂ := by
  induction h with
  | refl es => intro w w' w₁ hs hu hr; exact drun_congr hs hu hr
  | swap pre post e₁ e₂ hi =>
    intro w w' w₁ hs hu hr
    obtain ⟨wm, hpre, hrest⟩ := drun_append.mp hr
    obtain ⟨x₁, hx1, hrest⟩ := drun_cons.mp hrest
    obtain ⟨x₂, hx2, hpost⟩ := drun_cons.mp hrest
    -- the prefix on the other state
    obtain ⟨wm', hpre', hm⟩ := drun_congr hs hu hpre
    have hum : uniqNames wm.report = true := drun_uniq hpre hu
    -- swap on `wm`, then transport to `wm'`
    obtain ⟨y₁, y₂, hy1, hy2, hxy⟩ := dapply_comm hi hx1 hx2
    obtain ⟨z₁, hz1, hyz1⟩ := dapply_congr hm hum hy1
    obtain ⟨z₂, hz2, hyz2⟩ := dapply_congr hyz1 (dapply_iff.mp hy1).2.2 hy2
    -- the suffix
    obtain ⟨w₂, hpost', hfin⟩ := drun_congr (hxy.trans hyz2) (dapply_iff.mp hx2).2.2 hpost
    exact ⟨w₂, drun_append.mpr ⟨wm', hpre', drun_cons.mpr ⟨z₁, hz1, drun_cons.mpr ⟨z₂, hz2, hpost'⟩⟩⟩, hfin⟩
  | trans _ _ ih1 ih2 =>
    intro w w' w₁ hs hu hr
    obtain ⟨w₂, h2, hs2⟩ := ih1 hs hu hr
    obtain ⟨w₃, h3, hs3⟩ := ih2 (StEq.refl w') (uniqNames_of_stEq hs hu) h2
    exact ⟨w₃, h3, hs2.trans hs3⟩

theorem SwapEquiv.cons (e : Event) {a b : List Event} (h : SwapEquiv a b) : SwapEquiv (e :: a) (e :: b) := by
  induction h with
  | refl es => exact .refl _
  | swap pre post e₁ e₂ hi => exact .swap (e :: pre) post e₁ e₂ hi
  | trans _ _ ih1 ih2 => exact .trans ih1 ih2

theorem SwapEquiv.append_left (pre : List Event) {a b : List Event} (h : SwapEquiv a b) : SwapEquiv (pre ++ a) (pre ++ b) := by
  induction pre with
  | nil => exact h
  | cons e es ih => exact ih.cons e

/-- an event independent of every event of `A` can be moved past `A` -/
theorem SwapEquiv.move_past (b : Event) : ∀ (A post : List Event), (∀ a ∈ A, Indep a b) →
    SwapEquiv (b :: (A ++ post)) (A ++ b :: post)
  | [], post, _ => .refl _
  | a :: A, post, h =>
    .trans (.swap [] (A ++ post) b a (h a (by simp)).symm)
      ((SwapEquiv.move_past b A post (fun x hx => h x (by simp [hx]))).cons a)

/-- `es` is an interleaving of `A` and `B` (each keeps its own order) -/
inductive Interleaving : List Event → List Event → List Event → Prop
  | nil : Interleaving [] [] []
  | left {a : Event} {A B es : List Event} : Interleaving A B es → Interleaving (a :: A) B (a :: es)
  | right {b : Event} {A B es : List Event} : Interleaving A B es → Interleaving A (b :: B) (b :: es)

/-- every interleaving of two mutually independent event sequences is swap-equivalent to running one after the other -/
theorem Interleaving.swapEquiv {A B es : List Event} (h : Interleaving A B es) (hi : ∀ a ∈ A, ∀ b ∈ B, Indep a b) :
    SwapEquiv es (A ++ B) := by
  induction h with
  | nil => exact .refl _
  | left _ ih => exact (ih (fun a ha b hb => hi a (by simp [ha]) b hb)).cons _
  | @right b A B es _ ih =>
    refine .trans ((ih (fun a ha b' hb => hi a ha b' (by simp [hb]))).cons b) ?_
    exact SwapEquiv.move_past b A B (fun a ha => hi a ha b (by simp))

/-! ### the independence condition spelled out -/

/-- **`footIndep` in words**: the two (suite, field) pairs are different, and neither is the creation of a suite lying on
    the other's path. -/
theorem footIndep_iff : ∀ (p : Path) (a : Field) (q : Path) (b : Field),
    footIndep p a q b ↔ (p, a) ≠ (q, b) ∧ (∀ n, a = .child n → ¬ (p ++ [n]) <+: q) ∧ (∀ m, b = .child m → ¬ (q ++ [m]) <+: p)
  | [], a, [], b => by
    simp only [footIndep, ne_eq, Prod.mk.injEq, true_and, List.nil_append, List.prefix_nil, reduceCtorEq, not_false_eq_true,
      implies_true, and_true]
  | [], a, m :: r, b => by
    simp only [footIndep, ne_eq, Prod.mk.injEq, reduceCtorEq, false_and, not_false_eq_true, true_and, List.nil_append,
      List.cons_append, List.prefix_nil, implies_true, and_true, List.cons_prefix_cons, List.nil_prefix]
    constructor
    · rintro h n rfl rfl; exact h rfl
    · rintro h rfl; exact h m rfl rfl
  | n :: r, a, [], b => by
    simp only [footIndep, ne_eq, Prod.mk.injEq, reduceCtorEq, false_and, not_false_eq_true, true_and, List.nil_append,
      List.cons_append, List.prefix_nil, implies_true, List.cons_prefix_cons, List.nil_prefix, and_true]
    constructor
    · rintro h m rfl rfl; exact h rfl
    · rintro h rfl; exact h n rfl rfl
  | n :: r₁, a, m :: r₂, b => by
    simp only [footIndep, footIndep_iff r₁ a r₂ b, ne_eq, Prod.mk.injEq, List.cons.injEq, List.cons_append,
      List.cons_prefix_cons, not_and]
    by_cases hnm : n = m
    · subst hnm; simp
    · simp [hnm, Ne.symm hnm]

theorem Indep.of_feet {e₁ e₂ : Event} {p q : Path} {a b : Field} (h1 : evFoot e₁ = some (p, a)) (h2 : evFoot e₂ = some (q, b))
    (hf : footIndep p a q b) (ht : ∀ t₁ t₂, evTid e₁ = some t₁ → evTid e₂ = some t₂ → t₁ ≠ t₂) : Indep e₁ e₂ := by
  unfold Indep
  simp only [h1, h2]
  refine ⟨hf, ?_⟩
  cases ht1 : evTid e₁ <;> cases ht2 : evTid e₂ <;> simp only
  exact ht _ _ ht1 ht2

end LccModel.Writer

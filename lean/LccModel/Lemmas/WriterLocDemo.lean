/-
  The demo project of `Props/C06Loc.lean` (definitions only): suites alpha / alpha.beta / beta / beta.alpha with a test
  `exchange` in each, run at the same time by four workers.  Core Lean only.
-/
import LccModel.Model.Session
import LccModel.Lemmas.WriterLoc

namespace LccModel.WriterLoc
open LccModel.Report LccModel.WriterIso

def md (n : String) (r : Nat) : Meta :=
  { name := n, description := n, tags := [], properties := [], links := [], rank := r }

/-- alpha / alpha.beta / beta / beta.alpha, a test `exchange` in each; four workers (1–4) run them at the same time, worker 2
    (alpha.beta.exchange) with an `lcc.Thread` (20); their records interleave -/
def crossOps : List (Nat × Session.Op) :=
  [(1, .startTestSession),
   (1, .startSuite ["alpha"] (md "alpha" 0)), (1, .startSuite ["alpha", "beta"] (md "beta" 0)),
   (3, .startSuite ["beta"] (md "beta" 1)), (3, .startSuite ["beta", "alpha"] (md "alpha" 0)),
   (1, .startTest ["alpha", "exchange"] (md "exchange" 0)), (2, .startTest ["alpha", "beta", "exchange"] (md "exchange" 0)),
   (3, .startTest ["beta", "exchange"] (md "exchange" 0)), (4, .startTest ["beta", "alpha", "exchange"] (md "exchange" 0)),
   (1, .setStep "S"), (2, .setStep "S"), (3, .setStep "S"), (4, .setStep "S"),
   (3, .log .info "beta"), (2, .log .info "alpha.beta"), (1, .log .info "alpha"), (4, .log .info "beta.alpha"),
   (2, .threadCreate 20), (20, .threadRun), (3, .check "beta 2" true none), (20, .log .info "alpha.beta thread"),
   (20, .threadEnd), (4, .url "u" "beta.alpha 2"), (2, .attach "f" "alpha.beta 2" false),
   (3, .endTest ["beta", "exchange"]), (2, .endTest ["alpha", "beta", "exchange"]),
   (1, .endTest ["alpha", "exchange"]), (4, .endTest ["beta", "alpha", "exchange"]),
   (1, .endSuite ["alpha", "beta"]), (1, .endSuite ["alpha"]), (3, .endSuite ["beta", "alpha"]), (3, .endSuite ["beta"]),
   (1, .endTestSession)]

/-- the report the writer builds from the stream fired by `crossOps` -/
def crossReport : Option Report :=
  match Session.runOps Session.St.init crossOps with
  | .ok s =>
    match Writer.run Writer.initState s.fired with
    | .ok w => some w.report
    | .error _ => none
  | .error _ => none

def entryText : Entry → String
  | .log _ m _ => m | .check d _ _ _ => d | .attachment d _ _ _ => d | .url d _ _ => d

def stepsView : Option (List Step) → List (String × List String)
  | none => []
  | some ss => ss.map (fun s => (s.description, s.entries.map entryText))

/-- what the tests of a suite hold (nothing for no suite) -/
def suiteView (o : Option SuiteResult) : List (List (String × List String)) :=
  match o with
  | none => []
  | some s => s.tests.map (fun t => stepsView (some t.result.steps))

end LccModel.WriterLoc
